(* C01 (a): l2cap_input (att_input) never faults - no access outside the request or the caller's
   buffer, no failing assert - for every well formed configuration without include_service<> and
   without a characteristic whose 16 bit uuid is the internal 128 bit marker 0x0001, every state
   whose write queue holds validated elements, every request and every out_size >= 23.

   Two families of lemmas per handler: [_len] (the output buffer keeps its size; backward, from a
   successful run) and [_nf] (the handler does not return None; by contradiction from a failing run,
   every failing primitive being impossible under the invariants). *)
From Coq Require Import Lia ZifyBool.
From BT Require Import Base.ListX AttDb.AttDbModel AttDb.AttDbSpec AttDb.AttDbProofs NQueue.NQueueModel
  AttSrv.AttSrvModel AttSrv.AttSrvSpecC01 AttSrv.AttSrvProofsC01 AttSrv.AttSrvProofsC04 AttSrv.AttSrvFrame
  AttSrv.AttSrvSpecVal AttSrv.AttSrvProofsVal.
From BT Require AttSrv.AttSrvProofsC02.
Local Open Scope N_scope.

(* ------------------------------------------------------------------ failing primitives *)
Lemma put_none b p bs : put b p bs = None -> len b < p + len bs.
Proof. unfold put. destruct (p + len bs <=? len b) eqn:E; [discriminate|]. intros _. apply N.leb_gt in E. exact E. Qed.

Lemma rd_none pdu i : rd pdu i = None -> len pdu <= i.
Proof.
  unfold rd. destruct (i <? len pdu) eqn:E; [|intros _; apply N.ltb_ge in E; exact E].
  intros H. apply nth_error_None in H. unfold len. lia.
Qed.

Lemma rd16_none pdu i : rd16 pdu i = None -> len pdu <= i + 1.
Proof.
  unfold rd16. destruct (rd pdu i) eqn:E1; [|intros _; apply rd_none in E1; lia].
  destruct (rd pdu (i + 1)) eqn:E2; [discriminate|]. intros _. apply rd_none in E2. exact E2.
Qed.

Lemma slice_none pdu from to : slice pdu from to = None -> to < from \/ len pdu < to.
Proof.
  unfold slice. destruct (from <=? to) eqn:E1; cbn [andb].
  - destruct (to <=? len pdu) eqn:E2; [discriminate|]. intros _. right. apply N.leb_gt in E2. exact E2.
  - intros _. left. apply N.leb_gt in E1. exact E1.
Qed.

Lemma slice_len pdu from to l : slice pdu from to = Some l -> len l = to - from.
Proof.
  unfold slice. destruct ((from <=? to) && (to <=? len pdu)) eqn:E; [|discriminate]. intros H. inversion H.
  apply andb_true_iff in E. destruct E as [E1 E2]. apply N.leb_le in E1, E2.
  rewrite len_takeN, len_dropN. lia.
Qed.

Lemma error_response_none op code h b n : error_response op code h b n = None -> len b < 5.
Proof.
  unfold error_response. destruct (5 <=? n); [|discriminate].
  destruct (put b 0 (1 :: op :: le16 h ++ [code])) eqn:E; [discriminate|]. intros _.
  apply put_none in E. unfold le16, len in *. cbn [app length] in E. lia.
Qed.

Lemma error_response_len op code h b n r : error_response op code h b n = Some r -> len (fst r) = len b.
Proof.
  unfold error_response. destruct (5 <=? n).
  - destruct (put b 0 _) eqn:E; [|discriminate]. intros H. inversion H. cbn [fst]. eapply put_len; eauto.
  - intros H. inversion H. reflexivity.
Qed.

(* ------------------------------------------------------------------ checks *)
Ltac monN :=
  repeat match goal with
         | H : Some _ = None |- _ => discriminate H
         | H : match ?x with Some _ => _ | None => None end = None |- _ =>
             let E := fresh "E" in destruct x eqn:E
         | H : (let '(_, _) := ?x in _) = None |- _ => destruct x
         end.

Lemma check_range_nf c pdu b n sa sb op :
  rd pdu 0 = Some op -> 5 <= len b -> 5 <= sa -> 5 <= sb -> check_size_and_handle_range c pdu b n sa sb <> None.
Proof.
  intros Hop Hb Ha Hs H. unfold check_size_and_handle_range in H. rewrite Hop in H.
  destruct (negb (len pdu =? sa) && negb (len pdu =? sb)) eqn:El.
  - monN. apply error_response_none in E. lia.
  - assert (5 <= len pdu).
    { apply andb_false_iff in El. destruct El as [El|El]; apply negb_false_iff, N.eqb_eq in El; lia. }
    monN.
    + destruct ((n0 =? 0) || (n1 <? n0)); monN; [apply error_response_none in E1; lia|].
      destruct (first_index_by_handle c n0 =? invalid_index); monN. apply error_response_none in E1; lia.
    + apply rd16_none in E0. lia.
    + apply rd16_none in E. lia.
Qed.

Lemma check_range_failed_len c pdu b n sa sb r :
  check_size_and_handle_range c pdu b n sa sb = Some (Failed r) -> len (fst r) = len b.
Proof.
  unfold check_size_and_handle_range. intros H. mon.
  destruct (negb (len pdu =? sa) && negb (len pdu =? sb)).
  - mon. eapply error_response_len; eauto.
  - mon. destruct ((n1 =? 0) || (n2 <? n1)).
    + mon. eapply error_response_len; eauto.
    + destruct (first_index_by_handle c n1 =? invalid_index); mon. eapply error_response_len; eauto.
Qed.

Lemma check_range_passed c pdu b n sa sb sh eh :
  check_size_and_handle_range c pdu b n sa sb = Some (Passed (sh, eh)) ->
  (len pdu = sa \/ len pdu = sb) /\ first_index_by_handle c sh <> invalid_index /\ rd16 pdu 1 = Some sh /\ rd16 pdu 3 = Some eh /\ sh <= eh.
Proof.
  unfold check_size_and_handle_range. intros H. mon.
  destruct (negb (len pdu =? sa) && negb (len pdu =? sb)) eqn:El; [mon|].
  mon. brk; [mon|]. brk; mon.
  repeat match goal with
         | X : (_ =? _) = false |- _ => apply N.eqb_neq in X
         | X : (_ || _) = false |- _ => apply orb_false_iff in X; destruct X
         | X : (_ <? _) = false |- _ => apply N.ltb_ge in X
         end.
  repeat split; auto.
  apply andb_false_iff in El. destruct El as [El|El]; apply negb_false_iff, N.eqb_eq in El; auto.
Qed.

Lemma check_handle_nf c pdu b n op : rd pdu 0 = Some op -> 5 <= len b -> 3 <= len pdu -> check_handle c pdu b n <> None.
Proof.
  intros Hop Hb Hl H. unfold check_handle in H. rewrite Hop in H. monN.
  - destruct (n0 =? 0); monN; [apply error_response_none in E0; lia|].
    destruct (index_by_handle c n0 =? invalid_index); monN. apply error_response_none in E0; lia.
  - apply rd16_none in E. lia.
Qed.

Lemma check_handle_failed_len c pdu b n r : check_handle c pdu b n = Some (Failed r) -> len (fst r) = len b.
Proof.
  unfold check_handle. intros H. mon. destruct (n1 =? 0).
  - mon. eapply error_response_len; eauto.
  - destruct (index_by_handle c n1 =? invalid_index); mon. eapply error_response_len; eauto.
Qed.

Lemma check_handle_passed c pdu b n h i :
  check_handle c pdu b n = Some (Passed (h, i)) -> i = index_by_handle c h /\ i <> invalid_index /\ rd16 pdu 1 = Some h /\ h <> 0.
Proof.
  unfold check_handle. intros H. mon. brk; [mon|]. brk; mon.
  repeat match goal with X : (_ =? _) = false |- _ => apply N.eqb_neq in X end. auto.
Qed.

Lemma check_size_and_handle_nf c pdu b n sa op :
  rd pdu 0 = Some op -> 5 <= len b -> 3 <= sa -> check_size_and_handle c pdu b n sa <> None.
Proof.
  intros Hop Hb Hs H. unfold check_size_and_handle in H. rewrite Hop in H.
  destruct (negb (len pdu =? sa)) eqn:El.
  - monN. apply error_response_none in E. lia.
  - apply negb_false_iff, N.eqb_eq in El. eapply check_handle_nf; eauto. lia.
Qed.

Lemma check_size_and_handle_failed_len c pdu b n sa r : check_size_and_handle c pdu b n sa = Some (Failed r) -> len (fst r) = len b.
Proof.
  unfold check_size_and_handle. intros H. mon. destruct (negb (len pdu =? sa)).
  - mon. eapply error_response_len; eauto.
  - eapply check_handle_failed_len; eauto.
Qed.

Lemma check_size_and_handle_passed c pdu b n sa h i :
  check_size_and_handle c pdu b n sa = Some (Passed (h, i)) ->
  len pdu = sa /\ i = index_by_handle c h /\ i <> invalid_index /\ rd16 pdu 1 = Some h.
Proof.
  unfold check_size_and_handle. intros H. mon. destruct (negb (len pdu =? sa)) eqn:El; [mon|].
  apply negb_false_iff, N.eqb_eq in El. apply check_handle_passed in H. tauto.
Qed.

(* ------------------------------------------------------------------ facts about the configuration *)
Module C2 := AttSrv.AttSrvProofsC02.

(* no characteristic value attribute has the 16 bit type 0x0001, the internal marker of 128 bit uuids
   (characteristic_uuid16< 0x0001 > would make write_128bit_uuid assert: observation in docs/C01.md) *)
Definition no_marker_b (c : cfg) : bool :=
  forallb (fun i => match attribute_at c i with
                    | Some (AValue _ ch _ _) => negb (uuid_eqb (c_uuid ch) (U16 internal_128bit_uuid))
                    | _ => true
                    end) (seqN 0 (N.to_nat (number_of_attributes c))).
Definition no_marker_uuids (c : cfg) : Prop := no_marker_b c = true.

Lemma in_seqN i n from : from <= i -> i < from + N.of_nat n -> In i (seqN from n).
Proof.
  revert from; induction n as [|n IH]; intros from H1 H2; [lia|]. cbn [seqN].
  destruct (N.eq_dec i from) as [->|Hne]; [left; reflexivity|right]. apply IH; lia.
Qed.

Lemma attribute_at_lt c i a0 : attribute_at c i = Some a0 -> i < number_of_attributes c.
Proof.
  intros H. destruct (N.lt_ge_cases i (number_of_attributes c)) as [L|L]; auto.
  rewrite (C2.attribute_at_beyond c i L) in H. discriminate.
Qed.

Lemma attribute_at_some c i : i < number_of_attributes c -> exists a, attribute_at c i = Some a.
Proof.
  intros H. pose proof (C2.attribute_at_decl c i) as X. pose proof (C2.decl_attrs_len c) as L. unfold len in L.
  destruct (nth_error (decl_attrs c) (N.to_nat i)) eqn:E.
  - destruct (attribute_at c i) as [a1|]; [eexists; reflexivity|discriminate X].
  - apply nth_error_None in E. lia.
Qed.

Lemma attribute_at_zero c a : attribute_at c 0 = Some a -> exists s, a = AService s.
Proof.
  unfold attribute_at. destruct (services c) as [|s t]; cbn [svcs_attribute_at]; [discriminate|].
  assert (0 <? svc_nattrs s = true) as -> by (apply N.ltb_lt; pose proof (C2.svc_nattrs_pos s); lia).
  unfold svc_attribute_at. assert (0 <? svc_nsattrs s = true) as -> by (apply N.ltb_lt; unfold svc_nsattrs; lia).
  cbn. intros H. inversion H. eauto.
Qed.

Lemma no_marker_value c i s ch g k :
  no_marker_uuids c -> attribute_at c i = Some (AValue s ch g k) -> attr_uuid (AValue s ch g k) = internal_128bit_uuid ->
  exists b, c_uuid ch = U128 b.
Proof.
  intros Hm H Hu. unfold no_marker_uuids, no_marker_b in Hm. rewrite forallb_forall in Hm.
  specialize (Hm i). rewrite H in Hm.
  assert (Hin : In i (seqN 0 (N.to_nat (number_of_attributes c)))) by (apply in_seqN; [lia|apply attribute_at_lt in H; lia]).
  specialize (Hm Hin). cbn [attr_uuid] in Hu. destruct (c_uuid ch) as [v|b]; [|eauto].
  subst v. cbn in Hm. discriminate Hm.
Qed.

Section Cfg.
  Variable c : cfg.
  Hypothesis Hw : wf c.
  Hypothesis Hn : no_includes c.
  Hypothesis Hm : no_marker_uuids c.

  Lemma first_index_lt h : first_index_by_handle c h <> invalid_index -> first_index_by_handle c h < number_of_attributes c.
  Proof.
    intros H. rewrite (first_index_by_handle_spec c h Hw Hn) in *.
    destruct (first_ge_range (assign c) h 0) as [X|X]; [congruence|].
    rewrite (assign_length c Hw Hn) in X. lia.
  Qed.

  Lemma index_by_handle_lt h : index_by_handle c h <> invalid_index -> index_by_handle c h < number_of_attributes c.
  Proof.
    unfold index_by_handle. cbv zeta. intros H.
    destruct (negb (first_index_by_handle c h =? invalid_index) && negb (handle_by_index c (first_index_by_handle c h) =? h)) eqn:E;
      [congruence|]. apply first_index_lt. exact H.
  Qed.

  Lemma attributes_pos : 1 <= number_of_attributes c.
  Proof.
    pose proof Hw as W. unfold wf, wf_b in W. repeat (apply andb_true_iff in W; destruct W as [W ?]).
    apply Nat.leb_le in W. rename W into L.
    unfold number_of_attributes. destruct (services c) as [|s t]; [cbn in L; lia|]. cbn [sumN].
    pose proof (C2.svc_nattrs_pos s). lia.
  Qed.

  Lemma mtu_ge : default_att_mtu <= max_mtu c.
  Proof.
    pose proof Hw as W. unfold wf, wf_b in W. repeat (apply andb_true_iff in W; destruct W as [W ?]).
    match goal with X : (default_att_mtu <=? max_mtu c) = true |- _ => apply N.leb_le in X; exact X end.
  Qed.

  Lemma decl_value_some i s ch : attribute_at c i = Some (ACharDecl s ch) -> exists v, char_decl_value c ch i = Some v.
  Proof. intros H. destruct (char_decl_value_spec c i s ch Hw Hn H) as [E _]. eauto. Qed.

  (* a characteristic found by attribute_at belongs to a service of the configuration *)
  Lemma chars_attribute_at_in s cs g cci i s' ch' :
    chars_attribute_at s cs g cci i = Some (ACharDecl s' ch') -> s' = s /\ In ch' cs.
  Proof.
    revert g cci i; induction cs as [|c0 t IH]; intros g cci i H; cbn [chars_attribute_at] in H; [discriminate|].
    destruct (i <? char_nattrs c0).
    - unfold char_attribute_at, char_attrs in H. destruct (N.to_nat i) as [|[|k]]; cbn [nth_error] in H.
      + inversion H. split; [reflexivity|left; reflexivity].
      + discriminate.
      + apply nth_error_In in H. unfold char_tail_attrs in H.
        repeat (apply in_app_or in H; destruct H as [H|H]).
        * destruct (has_cccd c0); [destruct H as [H|[]]; discriminate|destruct H].
        * destruct (c_name c0); [destruct H as [H|[]]; discriminate|destruct H].
        * apply in_map_iff in H. destruct H as [d [H _]]. discriminate.
    - apply IH in H. destruct H. split; auto. right; auto.
  Qed.

  Lemma attribute_at_chardecl_in i s ch : attribute_at c i = Some (ACharDecl s ch) -> In s (services c) /\ In ch (s_chars s).
  Proof.
    unfold attribute_at. generalize O as g, 0 as cci. revert i.
    induction (services c) as [|s0 t IH]; intros i g cci H; cbn [svcs_attribute_at] in H; [discriminate|].
    destruct (i <? svc_nattrs s0).
    - unfold svc_attribute_at in H. destruct (i <? svc_nsattrs s0).
      + destruct (i =? 0); [discriminate|]. destruct (nth_error (s_includes s0) _); discriminate.
      + apply chars_attribute_at_in in H. destruct H as [-> H]. split; [left; reflexivity|exact H].
    - apply IH in H. destruct H. split; auto. right; auto.
  Qed.

  Lemma char_uuid_ok i s ch : attribute_at c i = Some (ACharDecl s ch) -> uuid_ok (c_uuid ch) = true.
  Proof.
    intros H. apply attribute_at_chardecl_in in H. destruct H as [Hs Hc].
    assert (X : forallb (svc_static_ok c) (services c) = true).
    { pose proof Hw as W. unfold wf, wf_b in W. repeat (apply andb_true_iff in W; destruct W as [W ?]). assumption. }
    rewrite forallb_forall in X. specialize (X s Hs). unfold svc_static_ok in X.
    repeat (apply andb_true_iff in X; destruct X as [X ?]).
    match goal with Y : forallb char_static_ok (s_chars s) = true |- _ => rewrite forallb_forall in Y; specialize (Y ch Hc); rename Y into Z end.
    unfold char_static_ok in Z. repeat (apply andb_true_iff in Z; destruct Z as [Z ?]). assumption.
  Qed.

  (* write_128bit_uuid succeeds on every attribute carrying the internal marker *)
  Lemma uuid128_some i a : attribute_at c i = Some a -> attr_uuid a = internal_128bit_uuid ->
    exists u, uuid128_of_decl c i = Some u /\ len u = 16.
  Proof.
    intros Ha Hu.
    assert (Hin : In (C2.erase a) (decl_attrs c)).
    { pose proof (C2.attribute_at_decl c i) as X. rewrite Ha in X. cbn [option_map] in X. symmetry in X. eapply nth_error_In; eauto. }
    assert (Hv : C2.is_value (C2.erase a) = true) by (apply (C2.marker_is_value c); auto; rewrite C2.erase_uuid; auto).
    destruct a as [| | |s ch g k| | |]; try discriminate Hv.
    destruct (no_marker_value c i s ch g k Hm Ha Hu) as [bs Hb].
    destruct (C2.attribute_before_value c i s ch g k Ha) as [Hi Hd].
    assert (H1 : i - 1 <> 0).
    { intros E. rewrite E in Hd. apply attribute_at_zero in Hd. destruct Hd as [s0 X]. discriminate X. }
    pose proof (attribute_at_lt c i _ Ha) as Hlt.
    unfold uuid128_of_decl. replace (i =? 0) with false by (symmetry; apply N.eqb_neq; exact Hi). rewrite Hd.
    unfold char_decl_value. cbv zeta.
    destruct (index_by_handle_inverse c (1 + 1) Hw Hn) as [_ Hnz]; [lia|].
    replace (handle_by_index c (1 + 1) =? invalid_handle) with false by (symmetry; apply N.eqb_neq; exact Hnz).
    pose proof (char_uuid_ok _ _ _ Hd) as Hok. pose proof (C2.uuid_bytes_len _ Hok) as Hl. rewrite Hb in Hl. cbn [is_128bit] in Hl.
    assert (L19 : len (char_properties ch :: le16 (handle_by_index c (1 + 1)) ++ uuid_bytes (c_uuid ch)) = 19).
    { rewrite Hb. unfold len in *. cbn [length le16 app]. lia. }
    rewrite L19. cbn [N.eqb Pos.eqb]. eexists. split; [reflexivity|]. rewrite len_dropN. lia.
  Qed.
End Cfg.

(* ------------------------------------------------------------------ attribute access *)
Lemma access_read_none c st cid a index off maxlen :
  access_read c st cid a index off maxlen = None ->
  get_conn st cid = None \/ exists s ch, a = ACharDecl s ch /\ char_decl_value c ch index = None.
Proof.
  unfold access_read. destruct (get_conn st cid) as [k|]; [|auto]. intros H. right.
  destruct a as [s|u|s ch|s ch g cci|s ch cci|nm|u v]; try (destruct (mem_read _ _ _); discriminate H); try discriminate H.
  - destruct (char_decl_value c ch index) eqn:E; [destruct (mem_read _ _ _); discriminate H|eauto].
  - destruct (security_check _ _ _); try discriminate H. destruct (mem_read _ _ _); discriminate H.
Qed.

Lemma access_write_some c st cid a off data k : get_conn st cid = Some k -> access_write c st cid a off data <> None.
Proof.
  intros G. unfold access_write. rewrite G. destruct a; try discriminate.
  destruct (security_check _ _ _); discriminate.
Qed.

Lemma access_read_get c st cid a index off maxlen st' r d k :
  access_read c st cid a index off maxlen = Some (st', r, d) -> get_conn st cid = Some k -> get_conn st' cid = Some k.
Proof. intros H G. apply access_read_conns in H. unfold get_conn in *. rewrite H. exact G. Qed.

Lemma access_write_get c st cid a off data st' r :
  access_write c st cid a off data = Some (st', r) -> exists k', get_conn st' cid = Some k'.
Proof.
  intros H. apply (access_write_frame true true) in H. destruct (frame_this _ _ _ _ _ H) as (k0 & k1 & _ & G & _). eauto.
Qed.

(* ------------------------------------------------------------------ tactics *)
Lemma len_cons (A : Type) (x : A) t : len (x :: t) = len t + 1.
Proof. unfold len. cbn [length]. lia. Qed.
Lemma len_nil (A : Type) : len (@nil A) = 0.
Proof. reflexivity. Qed.
Lemma len_le16 x : len (le16 x) = 2.
Proof. reflexivity. Qed.
#[local] Hint Rewrite len_cons len_nil len_app len_le16 : lens.

(* break a failing run "... = None" into its possible causes *)
Ltac nfb :=
  repeat match goal with
         | H : Some _ = None |- _ => discriminate H
         | H : (let '(_, _) := ?x in _) = None |- _ => destruct x
         | H : (if ?x then _ else _) = None |- _ => destruct x eqn:?
         | H : match ?x with Success => _ | Err _ => _ | ValueEqual => _ end = None |- _ => destruct x
         | H : match ?x with Failed _ => _ | Passed _ => _ end = None |- _ => destruct x eqn:?
         | H : match ?x with Some _ => _ | None => _ end = None |- _ => let E := fresh "E" in destruct x eqn:E
         end.

(* turn the primitive successes / failures into facts about lengths *)
Ltac facts :=
  repeat match goal with
         | X : put _ _ _ = Some _ |- _ => apply put_len in X
         | X : put _ _ _ = None |- _ => apply put_none in X
         | X : error_response _ _ _ _ _ = None |- _ => apply error_response_none in X
         | X : error_response _ _ _ _ _ = Some _ |- _ => apply error_response_len in X
         | X : rd _ _ = None |- _ => apply rd_none in X
         | X : rd16 _ _ = None |- _ => apply rd16_none in X
         | X : slice _ _ _ = None |- _ => apply slice_none in X
         | X : slice _ _ _ = Some _ |- _ => apply slice_len in X
         | X : access_read _ _ _ _ _ _ _ = Some _ |- _ => apply access_read_len in X
         end;
  autorewrite with lens in *; cbn [fst snd] in *.

(* the same for a successful run (backward) *)
Ltac okb :=
  repeat match goal with
         | H : (if ?x then _ else _) = Some _ |- _ => destruct x eqn:?
         | H : match ?x with Success => _ | Err _ => _ | ValueEqual => _ end = Some _ |- _ => destruct x
         | H : match ?x with Failed _ => _ | Passed _ => _ end = Some _ |- _ => destruct x eqn:?
         | H : match ?x with Some _ => _ | None => _ end = Some _ |- _ => let E := fresh "E" in destruct x eqn:E
         | _ => progress mon
         end.

Section Handlers.
  Variable c : cfg.
  Hypothesis Hw : wf c.
  Hypothesis Hn : no_includes c.
  Hypothesis Hm : no_marker_uuids c.

  (* reading attribute [index] on a live connection never faults *)
  Lemma access_read_nf st cid k index a off maxlen :
    get_conn st cid = Some k -> attribute_at c index = Some a -> access_read c st cid a index off maxlen <> None.
  Proof.
    intros G Ha H. apply access_read_none in H. destruct H as [H|(s & ch & -> & H)]; [congruence|].
    destruct (decl_value_some c Hw Hn _ _ _ Ha) as [v Hv]. congruence.
  Qed.

  (* ---- Read / Read Blob *)
  Lemma read_common_nf st cid k pdu b n rsp h index off op :
    rd pdu 0 = Some op -> get_conn st cid = Some k -> index < number_of_attributes c -> 23 <= n -> n <= len b ->
    handle_read_common c st cid pdu b n rsp h index off <> None.
  Proof.
    intros Hop G Hi Hn1 Hb H. unfold handle_read_common in H. rewrite Hop in H.
    destruct (attribute_at_some c index Hi) as [a Ha]. rewrite Ha in H.
    destruct (access_read c st cid a index off (n - 1)) as [[[st' rc] d]|] eqn:E; [|eapply access_read_nf; eauto].
    nfb; facts; lia.
  Qed.

  Lemma read_common_len st cid pdu b n rsp h index off st' b' m :
    handle_read_common c st cid pdu b n rsp h index off = Some (st', (b', m)) -> len b' = len b.
  Proof. unfold handle_read_common. intros H. okb; facts; congruence. Qed.

  Lemma read_nf st cid k pdu b n : rd pdu 0 = Some 10 -> get_conn st cid = Some k -> 23 <= n -> n <= len b ->
    handle_read c st cid pdu b n <> None.
  Proof.
    intros Hop G Hn1 Hb H. unfold handle_read in H.
    destruct (check_size_and_handle c pdu b n 3) as [[r|[h i]]|] eqn:E; [discriminate| |eapply check_size_and_handle_nf; eauto; lia].
    apply check_size_and_handle_passed in E. destruct E as (_ & -> & Hi & _).
    eapply read_common_nf; eauto. apply index_by_handle_lt; auto.
  Qed.

  Lemma read_len st cid pdu b n st' b' m : handle_read c st cid pdu b n = Some (st', (b', m)) -> len b' = len b.
  Proof.
    unfold handle_read. intros H. okb.
    - apply check_size_and_handle_failed_len in E. exact E.
    - eapply read_common_len; eauto.
  Qed.

  Lemma read_blob_nf st cid k pdu b n : rd pdu 0 = Some 12 -> get_conn st cid = Some k -> 23 <= n -> n <= len b ->
    handle_read_blob c st cid pdu b n <> None.
  Proof.
    intros Hop G Hn1 Hb H. unfold handle_read_blob in H.
    destruct (check_size_and_handle c pdu b n 5) as [[r|[h i]]|] eqn:E; [discriminate| |eapply check_size_and_handle_nf; eauto; lia].
    apply check_size_and_handle_passed in E. destruct E as (L & -> & Hi & _).
    destruct (rd16 pdu 3) eqn:E3; [|apply rd16_none in E3; lia].
    eapply read_common_nf; eauto. apply index_by_handle_lt; auto.
  Qed.

  Lemma read_blob_len st cid pdu b n st' b' m : handle_read_blob c st cid pdu b n = Some (st', (b', m)) -> len b' = len b.
  Proof.
    unfold handle_read_blob. intros H. okb.
    - apply check_size_and_handle_failed_len in E. exact E.
    - eapply read_common_len; eauto.
  Qed.

  (* ---- Write Request / Command *)
  Lemma write_request_nf st cid k pdu b n op : rd pdu 0 = Some op -> get_conn st cid = Some k -> 23 <= n -> n <= len b ->
    handle_write_request c st cid pdu b n <> None.
  Proof.
    intros Hop G Hn1 Hb H. unfold handle_write_request in H. rewrite Hop in H.
    destruct (len pdu <? 3) eqn:El; [nfb; facts; lia|]. apply N.ltb_ge in El.
    destruct (check_handle c pdu b n) as [[r|[h i]]|] eqn:E; [discriminate| |eapply check_handle_nf; eauto; lia].
    apply check_handle_passed in E. destruct E as (-> & Hi & _ & _).
    destruct (attribute_at_some c _ (index_by_handle_lt c Hw Hn _ Hi)) as [a Ha]. rewrite Ha in H.
    destruct (slice pdu 3 (len pdu)) as [data|] eqn:Es; [|apply slice_none in Es; lia].
    destruct (access_write c st cid a 0 data) as [[st' rc]|] eqn:Ew; [|eapply access_write_some; eauto].
    nfb; facts; lia.
  Qed.

  Lemma write_request_len st cid pdu b n st' b' m : handle_write_request c st cid pdu b n = Some (st', (b', m)) -> len b' = len b.
  Proof.
    unfold handle_write_request. intros H. okb; facts; try congruence.
    apply check_handle_failed_len in E0. exact E0.
  Qed.

  Lemma write_command_nf st cid k pdu b n op : rd pdu 0 = Some op -> get_conn st cid = Some k -> 23 <= n -> n <= len b ->
    handle_write_command c st cid pdu b n <> None.
  Proof.
    intros Hop G Hn1 Hb H. unfold handle_write_command in H.
    destruct (handle_write_request c st cid pdu b n) as [[st' [b' m]]|] eqn:E; [discriminate|].
    eapply write_request_nf; eauto.
  Qed.

  Lemma write_command_len st cid pdu b n st' b' m : handle_write_command c st cid pdu b n = Some (st', (b', m)) -> len b' = len b /\ m = 0.
  Proof.
    unfold handle_write_command. intros H. okb. split; [eapply write_request_len; eauto|reflexivity].
  Qed.

  (* ---- Prepare Write / Execute Write *)
  Lemma rd_nth l i : i < len l -> rd l i = Some (nth (N.to_nat i) l 0).
  Proof.
    intros H. unfold rd. replace (i <? len l) with true by (symmetry; apply N.ltb_lt; exact H).
    apply nth_error_nth'. unfold len in H. lia.
  Qed.

  Lemma prepare_write_nf st cid k pdu b n : rd pdu 0 = Some 22 -> get_conn st cid = Some k -> 23 <= n -> n <= len b ->
    handle_prepare_write c st cid pdu b n <> None.
  Proof.
    intros Hop G Hn1 Hb H. unfold handle_prepare_write in H. rewrite Hop in H.
    destruct (wqueue c) as [qs|]; [|nfb; facts; lia].
    destruct (len pdu <? 5) eqn:El; [nfb; facts; lia|]. apply N.ltb_ge in El.
    destruct (check_handle c pdu b n) as [[r|[h i]]|] eqn:E; [discriminate| |exfalso; eapply (check_handle_nf c pdu b n 22); [exact Hop|lia|lia|exact E]].
    apply check_handle_passed in E. destruct E as (-> & Hi & _ & _).
    destruct (attribute_at_some c _ (index_by_handle_lt c Hw Hn _ Hi)) as [a Ha]. rewrite Ha in H.
    unfold access_check_write in H.
    destruct (access_write c st cid a 0 []) as [[st' rc]|] eqn:Ew; [|eapply access_write_some; eauto].
    nfb; facts; try lia.
    all: try (match goal with X : _ \/ _ |- _ => destruct X end); lia.
  Qed.

  Lemma prepare_write_len st cid pdu b n st' b' m : handle_prepare_write c st cid pdu b n = Some (st', (b', m)) -> len b' = len b.
  Proof.
    unfold handle_prepare_write. intros H. okb; facts; try congruence.
    apply check_handle_failed_len in E1. exact E1.
  Qed.

  Lemma elem_ok_reads e : elem_ok c e ->
    exists h off a, rd16 e 0 = Some h /\ rd16 e 2 = Some off /\ attribute_at c (index_by_handle c h) = Some a.
  Proof.
    intros [L A]. unfold dec_elem in A. cbn [fst] in A. unfold attr_of in A.
    set (h := nth 0 e 0 + 256 * nth 1 e 0) in *.
    destruct (h =? 0); [congruence|]. destruct (index_by_handle c h =? invalid_index); [congruence|].
    destruct (attribute_at c (index_by_handle c h)) as [a|] eqn:Ea; [|congruence].
    exists h, (nth 2 e 0 + 256 * nth 3 e 0), a. unfold rd16.
    rewrite (rd_nth e 0), (rd_nth e (0 + 1)), (rd_nth e 2), (rd_nth e (2 + 1)) by lia.
    repeat split; auto.
  Qed.

  Lemma execute_writes_nf cid : forall elems st, Forall (elem_ok c) elems -> (exists k, get_conn st cid = Some k) ->
    execute_writes c st cid elems <> None.
  Proof.
    induction elems as [|e t IH]; intros st Hf [k G]; cbn [execute_writes]; [discriminate|].
    inversion Hf as [|? ? He Ht]; subst.
    destruct (elem_ok_reads e He) as (h & off & a & -> & -> & ->).
    destruct (access_write c st cid a off (dropN 4 e)) as [[st' rc]|] eqn:Ew; [|exfalso; eapply access_write_some; eauto].
    destruct rc; try discriminate. apply IH; auto. eapply access_write_get; eauto.
  Qed.

  Lemma execute_write_nf st cid k pdu b n : rd pdu 0 = Some 24 -> get_conn st cid = Some k -> 23 <= n -> n <= len b ->
    Forall (elem_ok c) (wq_elems st) -> handle_execute_write c st cid pdu b n <> None.
  Proof.
    intros Hop G Hn1 Hb Hq H. unfold handle_execute_write in H. rewrite Hop in H.
    destruct (wqueue c) as [qs|]; [|nfb; facts; lia].
    destruct (negb (len pdu =? 2)) eqn:El; [nfb; facts; lia|]. apply negb_false_iff, N.eqb_eq in El.
    destruct (rd pdu 1) as [flag|] eqn:Ef; [|apply rd_none in Ef; lia].
    destruct (negb (flag =? 0) && negb (flag =? 1)); [nfb; facts; lia|].
    match type of H with match ?x with _ => _ end = None => destruct x as [[st1 failure]|] eqn:Ex end.
    - nfb; facts; lia.
    - destruct ((flag =? 1) && _); [|discriminate]. eapply execute_writes_nf; eauto.
  Qed.

  Lemma execute_write_len st cid pdu b n st' b' m : handle_execute_write c st cid pdu b n = Some (st', (b', m)) -> len b' = len b.
  Proof. unfold handle_execute_write. intros H. okb; facts; congruence. Qed.

  (* ---- Find Information *)
  Lemma collect_tuples_nf : forall fuel start e only16 b out out_end,
    1 <= out -> out <= out_end -> out_end <= len b ->
    collect_handle_uuid_tuples fuel c start e only16 b out out_end <> None.
  Proof.
    induction fuel as [|f IH]; intros start e only16 b out out_end H1 H2 H3; cbn [collect_handle_uuid_tuples]; [discriminate|].
    cbv zeta.
    destruct ((start <? number_of_attributes c) && (handle_by_index c start <=? e)
              && ((if only16 then 4 else 18) <=? out_end - out)) eqn:Ec; [|discriminate].
    apply andb_true_iff in Ec. destruct Ec as [Ec Es]. apply andb_true_iff in Ec. destruct Ec as [Ea _].
    apply N.ltb_lt in Ea. apply N.leb_le in Es.
    destruct (attribute_at_some c start Ea) as [a Ha]. rewrite Ha.
    destruct (Bool.eqb only16 (negb (attr_uuid a =? internal_128bit_uuid))) eqn:Eq; [|apply IH; auto].
    assert (S4 : 4 <= (if only16 then 4 else 18)) by (destruct only16; lia).
    destruct (put b out (le16 (handle_by_index c start))) as [b1|] eqn:P1; [|apply put_none in P1; autorewrite with lens in P1; lia].
    assert (Hu : exists u, (if negb (attr_uuid a =? internal_128bit_uuid) then Some (le16 (attr_uuid a)) else uuid128_of_decl c start) = Some u
                           /\ len u + 2 = (if only16 then 4 else 18)).
    { apply Bool.eqb_prop in Eq. subst only16. destruct (attr_uuid a =? internal_128bit_uuid) eqn:E1; cbn [negb].
      - apply N.eqb_eq in E1. destruct (uuid128_some c Hw Hn Hm start a Ha E1) as [u [U1 U2]]. exists u. split; auto. lia.
      - eexists. split; [reflexivity|]. reflexivity. }
    destruct Hu as [u [-> Lu]]. apply put_len in P1.
    destruct (put b1 (out + 2) u) as [b2|] eqn:P2; [|apply put_none in P2; lia].
    apply put_len in P2. apply IH; lia.
  Qed.

  Lemma collect_tuples_len : forall fuel start e only16 b out out_end b' out',
    collect_handle_uuid_tuples fuel c start e only16 b out out_end = Some (b', out') -> len b' = len b.
  Proof.
    induction fuel as [|f IH]; intros start e only16 b out out_end b' out' H; cbn [collect_handle_uuid_tuples] in H; [mon; reflexivity|].
    cbv zeta in H. brk; [|mon; reflexivity]. mon. brk.
    - mon. apply IH in H. facts. congruence.
    - apply IH in H. exact H.
  Qed.

  Lemma find_information_nf pdu b n : rd pdu 0 = Some 4 -> 23 <= n -> n <= len b -> handle_find_information c pdu b n <> None.
  Proof.
    intros Hop Hn1 Hb H. unfold handle_find_information in H.
    destruct (check_size_and_handle_range c pdu b n 5 5) as [[r|[sh eh]]|] eqn:E;
      [discriminate| |exfalso; eapply (check_range_nf c pdu b n 5 5 4); [exact Hop|lia|lia|lia|exact E]].
    apply check_range_passed in E. destruct E as (_ & Hf & _).
    destruct (attribute_at_some c _ (first_index_lt c Hw Hn _ Hf)) as [a Ha]. rewrite Ha in H.
    destruct (eh <? handle_by_index c (first_index_by_handle c sh)); [rewrite Hop in H; nfb; facts; lia|].
    destruct (put b 0 [5]) as [b1|] eqn:P1; [|facts; lia].
    replace (negb (1 =? n)) with true in H by (symmetry; apply negb_true_iff, N.eqb_neq; lia).
    destruct (put b1 1 [if negb (attr_uuid a =? internal_128bit_uuid) then 1 else 2]) as [b2|] eqn:P2; [|facts; lia].
    apply put_len in P1. apply put_len in P2.
    match type of H with match ?x with _ => _ end = None => destruct x eqn:Ex; [discriminate|] end.
    eapply collect_tuples_nf; [| |  |exact Ex]; lia.
  Qed.

  Lemma find_information_len pdu b n b' m : handle_find_information c pdu b n = Some (b', m) -> len b' = len b.
  Proof.
    unfold handle_find_information. intros H. okb; facts; try congruence.
    - apply check_range_failed_len in E. exact E.
    - match goal with X : collect_handle_uuid_tuples _ _ _ _ _ _ _ _ = Some _ |- _ => apply collect_tuples_len in X end. congruence.
    - match goal with X : collect_handle_uuid_tuples _ _ _ _ _ _ _ _ = Some _ |- _ => apply collect_tuples_len in X end. congruence.
  Qed.

  (* ---- Find By Type Value *)
  Lemma services_by_group_nf st cid : forall ss index si ei value b cur e found,
    index + sumN svc_nattrs ss = number_of_attributes c -> cur <= e -> e <= len b ->
    services_by_group c st cid ss index si ei value b cur e found <> None.
  Proof.
    induction ss as [|s t IH]; intros index si ei value b cur e found Hi Hc He; cbn [services_by_group]; [discriminate|].
    cbv zeta. cbn [sumN] in Hi. pose proof (C2.svc_nattrs_pos s) as Hp.
    destruct ((negb (si =? invalid_index) && (si <=? index)) && (handle_by_index c index <=? ei)); [|apply IH; auto; lia].
    destruct (attribute_at_some c index) as [a Ha]; [lia|]. rewrite Ha.
    destruct (negb (attr_uuid a =? uuid_primary_service)); [apply IH; auto; lia|].
    destruct (access_compare_value c st cid a value); try (apply IH; auto; lia).
    destruct (4 <=? e - cur) eqn:E4; [|apply IH; auto; lia]. apply N.leb_le in E4.
    destruct (put b cur _) as [b1|] eqn:P; [|apply put_none in P; autorewrite with lens in P; lia].
    apply put_len in P. apply IH; auto; lia.
  Qed.

  Lemma services_by_group_len st cid : forall ss index si ei value b cur e found b' cur' found',
    services_by_group c st cid ss index si ei value b cur e found = Some (b', cur', found') -> len b' = len b.
  Proof.
    induction ss as [|s t IH]; intros index si ei value b cur e found b' cur' found' H; cbn [services_by_group] in H; [mon; reflexivity|].
    cbv zeta in H. brk; [|eapply IH; eauto]. mon. brk; [eapply IH; eauto|].
    destruct (access_compare_value c st cid a value); try (eapply IH; eauto; fail).
    brk; [|eapply IH; eauto]. mon. apply IH in H. facts. congruence.
  Qed.

  Lemma find_by_type_value_nf st cid pdu b n : rd pdu 0 = Some 6 -> 23 <= n -> n <= len b -> handle_find_by_type_value c st cid pdu b n <> None.
  Proof.
    intros Hop Hn1 Hb H. unfold handle_find_by_type_value in H.
    destruct (check_size_and_handle_range c pdu b n 9 23) as [[r|[sh eh]]|] eqn:E;
      [discriminate| |exfalso; eapply (check_range_nf c pdu b n 9 23 6); [exact Hop|lia|lia|lia|exact E]].
    apply check_range_passed in E. destruct E as (Hl & Hf & _). rewrite Hop in H.
    destruct (rd16 pdu 5) as [ty|] eqn:E5; [|apply rd16_none in E5; lia].
    destruct (negb (ty =? uuid_primary_service)); [nfb; facts; lia|].
    destruct (slice pdu 7 (len pdu)) as [value|] eqn:Es; [|apply slice_none in Es; lia].
    match type of H with match ?x with _ => _ end = None => destruct x as [[[b1 cur] found]|] eqn:Ex end.
    - apply services_by_group_len in Ex. nfb; facts; lia.
    - eapply services_by_group_nf; [| | |exact Ex]; [unfold number_of_attributes; lia|lia|lia].
  Qed.

  Lemma find_by_type_value_len st cid pdu b n b' m : handle_find_by_type_value c st cid pdu b n = Some (b', m) -> len b' = len b.
  Proof.
    unfold handle_find_by_type_value. intros H. okb; facts; try congruence.
    - apply check_range_failed_len in E. exact E.
    - match goal with X : services_by_group _ _ _ _ _ _ _ _ _ _ _ _ = Some _ |- _ => apply services_by_group_len in X end. congruence.
    - match goal with X : services_by_group _ _ _ _ _ _ _ _ _ _ _ _ = Some _ |- _ => apply services_by_group_len in X end. congruence.
  Qed.

  (* ---- Read By Type *)
  Lemma collect_attribute_nf st cid k0 k e index a :
    get_conn st cid = Some k0 -> attribute_at c index = Some a -> 2 <= co_cur k -> co_cur k <= e -> e <= len (co_buf k) ->
    collect_attribute c st cid k e index a <> None.
  Proof.
    intros G Ha H1 H2 H3 H. unfold collect_attribute in H.
    destruct (2 <=? e - co_cur k) eqn:E2; [|discriminate]. apply N.leb_le in E2. cbv zeta in H.
    destruct (access_read c st cid a index 0 (N.min (e - co_cur k) 255 - 2)) as [[[st' rc] d]|] eqn:Er; [|eapply access_read_nf; eauto].
    pose proof (access_read_len _ _ _ _ _ _ _ _ _ _ Er) as Ld.
    destruct rc; try discriminate.
    destruct (253 <? len d) eqn:E3; [apply N.ltb_lt in E3; lia|].
    destruct (put (co_buf k) (co_cur k + 2) d) as [b1|] eqn:P1; [|apply put_none in P1; lia].
    apply put_len in P1.
    destruct (len d + 2 =? _); [|discriminate].
    destruct (put b1 (co_cur k) (le16 (handle_by_index c index))) as [b2|] eqn:P2; [discriminate|].
    apply put_none in P2. autorewrite with lens in P2. lia.
  Qed.

  Lemma collect_attribute_len st cid k e index a st' k' :
    collect_attribute c st cid k e index a = Some (st', k') -> len (co_buf k') = len (co_buf k).
  Proof.
    unfold collect_attribute. intros H. okb; facts; cbn [co_buf]; congruence.
  Qed.

  Lemma all_attributes_nf cid f e last eh : last < number_of_attributes c ->
    forall fuel st k0 k index, get_conn st cid = Some k0 -> 2 <= co_cur k -> co_cur k <= e -> e <= len (co_buf k) ->
    all_attributes fuel c st cid f k e index last eh <> None.
  Proof.
    intros Hl. induction fuel as [|fu IH]; intros st k0 k index G H1 H2 H3; cbn [all_attributes]; [discriminate|].
    destruct ((index <=? last) && (handle_by_index c index <=? eh)) eqn:Ec; [|discriminate].
    apply andb_true_iff in Ec. destruct Ec as [Ei _]. apply N.leb_le in Ei.
    destruct (attribute_at_some c index) as [a Ha]; [lia|]. rewrite Ha.
    destruct (uuid_filter_match f a); [|eapply IH; eauto].
    destruct (collect_attribute c st cid k e index a) as [[st' k']|] eqn:Ek; [|exfalso; eapply collect_attribute_nf; eauto].
    pose proof (collect_attribute_len _ _ _ _ _ _ _ _ Ek) as Lb.
    pose proof (collect_attribute_inv _ _ _ _ _ _ _ _ _ Ek H1 H2) as (I1 & I2 & _).
    assert (G' : get_conn st' cid = Some k0).
    { apply collect_attribute_conns in Ek. unfold get_conn in *. rewrite Ek. exact G. }
    eapply IH; eauto. lia.
  Qed.

  Lemma all_attributes_len cid f e last eh : forall fuel st k index st' k',
    all_attributes fuel c st cid f k e index last eh = Some (st', k') -> len (co_buf k') = len (co_buf k).
  Proof.
    induction fuel as [|fu IH]; intros st k index st' k' H; cbn [all_attributes] in H; [mon; reflexivity|].
    brk; [|mon; reflexivity]. mon. brk.
    - mon. apply IH in H. match goal with X : collect_attribute _ _ _ _ _ _ _ = Some _ |- _ => apply collect_attribute_len in X end. congruence.
    - eapply IH; eauto.
  Qed.

  Lemma make_uuid_filter_nf pdu : len pdu = 7 \/ len pdu = 21 -> make_uuid_filter pdu (len pdu =? 21) <> None.
  Proof.
    intros Hl H. unfold make_uuid_filter in H. destruct (len pdu =? 21) eqn:E.
    - apply N.eqb_eq in E. nfb; facts; lia.
    - apply N.eqb_neq in E. nfb; facts; lia.
  Qed.

  Lemma last_handle_index_lt eh : last_handle_index c eh < number_of_attributes c.
  Proof.
    unfold last_handle_index. cbv zeta. pose proof (attributes_pos c Hw).
    destruct (first_index_by_handle c eh =? invalid_index) eqn:E; [lia|].
    apply N.eqb_neq in E. apply first_index_lt; auto.
  Qed.

  Lemma read_by_type_nf st cid k0 pdu b n : rd pdu 0 = Some 8 -> get_conn st cid = Some k0 -> 23 <= n -> n <= len b ->
    handle_read_by_type c st cid pdu b n <> None.
  Proof.
    intros Hop G Hn1 Hb H. unfold handle_read_by_type in H.
    destruct (check_size_and_handle_range c pdu b n 7 21) as [[r|[sh eh]]|] eqn:E;
      [discriminate| |exfalso; eapply (check_range_nf c pdu b n 7 21 8); [exact Hop|lia|lia|lia|exact E]].
    apply check_range_passed in E. destruct E as (Hl & Hf & _). rewrite Hop in H.
    destruct (make_uuid_filter pdu (len pdu =? 21)) as [f|] eqn:Ef; [|eapply make_uuid_filter_nf; eauto].
    match type of H with match ?x with _ => _ end = None => destruct x as [[st' k]|] eqn:Ex end.
    - apply all_attributes_len in Ex. cbn [co_buf] in Ex. nfb; facts; lia.
    - eapply all_attributes_nf; [apply last_handle_index_lt|exact G| | | |exact Ex]; cbn [co_cur co_buf]; lia.
  Qed.

  Lemma read_by_type_len st cid pdu b n st' b' m : handle_read_by_type c st cid pdu b n = Some (st', (b', m)) -> len b' = len b.
  Proof.
    unfold handle_read_by_type. intros H. okb; facts; try congruence.
    - apply check_range_failed_len in E. exact E.
    - match goal with X : all_attributes _ _ _ _ _ _ _ _ _ _ = Some _ |- _ => apply all_attributes_len in X; cbn [co_buf] in X end. congruence.
    - match goal with X : all_attributes _ _ _ _ _ _ _ _ _ _ = Some _ |- _ => apply all_attributes_len in X; cbn [co_buf] in X end. congruence.
  Qed.

  (* ---- Read By Group Type *)
  Lemma rpsr_nf s b out e index is128 : 1 <= out -> out <= e -> e <= len b ->
    read_primary_service_response c s b out e index is128 <> None.
  Proof.
    intros H1 H2 H3 H. unfold read_primary_service_response in H. cbv zeta in H.
    destruct (Bool.eqb is128 (is_128bit (s_uuid s)) && ((if is128 then 20 else 6) <=? e - out)) eqn:Ec; [|discriminate].
    apply andb_true_iff in Ec. destruct Ec as [_ Ec]. apply N.leb_le in Ec.
    assert (6 <= e - out) by (destruct is128; lia).
    destruct (mem_read (uuid_bytes (s_uuid s)) 0 (e - (out + 4))) as [rc d] eqn:Em. apply mem_read_len in Em.
    nfb; facts; lia.
  Qed.

  Lemma rpsr_len s b out e index is128 b' out' : read_primary_service_response c s b out e index is128 = Some (b', out') -> len b' = len b.
  Proof.
    unfold read_primary_service_response. cbv zeta. intros H.
    destruct (mem_read (uuid_bytes (s_uuid s)) 0 (e - (out + 4))) as [rc d]. okb; facts; congruence.
  Qed.

  Lemma collect_primary_services_nf : forall ss k si eh e, 2 <= pc_out k -> pc_out k <= e -> e <= len (pc_buf k) ->
    collect_primary_services c ss k si eh e <> None.
  Proof.
    induction ss as [|s t IH]; intros k si eh e H1 H2 H3; cbn [collect_primary_services]; [discriminate|].
    cbv zeta.
    destruct (negb (pc_stopped k) && negb (s_secondary s) && (negb (si =? invalid_index) && (si <=? pc_index k))
              && (handle_by_index c (pc_index k) <=? eh)); [|apply IH; cbn [pc_out pc_buf]; auto].
    destruct (if pc_first k then put (pc_buf k) 1 [if is_128bit (s_uuid s) then 20 else 6] else Some (pc_buf k)) as [b1|] eqn:P.
    - assert (Lb : len b1 = len (pc_buf k)) by (destruct (pc_first k); [apply put_len in P; exact P|inversion P; reflexivity]).
      match goal with |- match ?x with _ => _ end <> None => destruct x as [[b2 out]|] eqn:Er end.
      + pose proof (rpsr_len _ _ _ _ _ _ _ _ Er) as L2.
        pose proof (read_primary_service_response_inv _ _ _ _ _ _ _ _ _ Er) as (I1 & I2 & _); [lia|lia|].
        apply IH; cbn [pc_out pc_buf]; lia.
      + exfalso. eapply rpsr_nf; [| | |exact Er]; lia.
    - destruct (pc_first k); [|discriminate]. apply put_none in P. autorewrite with lens in P. lia.
  Qed.

  Lemma collect_primary_services_len : forall ss k si eh e k', collect_primary_services c ss k si eh e = Some k' -> len (pc_buf k') = len (pc_buf k).
  Proof.
    induction ss as [|s t IH]; intros k si eh e k' H; cbn [collect_primary_services] in H; [mon; reflexivity|].
    cbv zeta in H. brk.
    - mon. apply IH in H. cbn [pc_buf] in H.
      match goal with X : read_primary_service_response _ _ _ _ _ _ _ = Some _ |- _ => apply rpsr_len in X end.
      destruct (pc_first k); mon; facts; congruence.
    - apply IH in H. exact H.
  Qed.

  Lemma read_by_group_type_nf pdu b n : rd pdu 0 = Some 16 -> 23 <= n -> n <= len b -> handle_read_by_group_type c pdu b n <> None.
  Proof.
    intros Hop Hn1 Hb H. unfold handle_read_by_group_type in H.
    destruct (check_size_and_handle_range c pdu b n 7 21) as [[r|[sh eh]]|] eqn:E;
      [discriminate| |exfalso; eapply (check_range_nf c pdu b n 7 21 16); [exact Hop|lia|lia|lia|exact E]].
    apply check_range_passed in E. destruct E as (Hl & Hf & _). rewrite Hop in H.
    destruct (rd16 pdu 5) as [ty|] eqn:E5; [|apply rd16_none in E5; lia].
    destruct ((len pdu =? 21) || negb (ty =? uuid_primary_service)); [facts; lia|].
    destruct (put b 0 [17]) as [b1|] eqn:P1; [|facts; lia]. apply put_len in P1.
    match type of H with match ?x with _ => _ end = None => destruct x as [k|] eqn:Ex end.
    - apply collect_primary_services_len in Ex. cbn [pc_buf] in Ex. nfb; facts; lia.
    - eapply collect_primary_services_nf; [| | |exact Ex]; cbn [pc_out pc_buf]; lia.
  Qed.

  Lemma read_by_group_type_len pdu b n b' m : handle_read_by_group_type c pdu b n = Some (b', m) -> len b' = len b.
  Proof.
    unfold handle_read_by_group_type. intros H. okb; facts; try congruence.
    - apply check_range_failed_len in E. exact E.
    - match goal with X : collect_primary_services _ _ _ _ _ _ = Some _ |- _ => apply collect_primary_services_len in X; cbn [pc_buf] in X end. congruence.
    - match goal with X : collect_primary_services _ _ _ _ _ _ = Some _ |- _ => apply collect_primary_services_len in X; cbn [pc_buf] in X end. congruence.
  Qed.

  (* ---- Read Multiple *)
  Lemma read_multiple_loop_nf cid opcode b0 n : forall m hs st k0 b p, length hs = m ->
    get_conn st cid = Some k0 -> 23 <= n -> n <= len b -> 1 <= p -> p <= n ->
    read_multiple_loop c st cid opcode hs b0 b p n <> None.
  Proof.
    induction m as [m IH] using lt_wf_ind. intros hs st k0 b p Hlen G Hn1 Hb H1 H2.
    destruct hs as [|lo [|hi t]]; cbn [read_multiple_loop]; try discriminate. cbv zeta.
    destruct (lo + 256 * hi =? 0); [intros H; nfb; facts; lia|].
    destruct (index_by_handle c (lo + 256 * hi) =? invalid_index) eqn:Ei; [intros H; nfb; facts; lia|].
    apply N.eqb_neq in Ei.
    destruct (attribute_at_some c _ (index_by_handle_lt c Hw Hn _ Ei)) as [a Ha]. rewrite Ha.
    destruct (access_read c st cid a (index_by_handle c (lo + 256 * hi)) 0 (n - p)) as [[[st' rc] d]|] eqn:Er;
      [|exfalso; eapply access_read_nf; eauto].
    pose proof (access_read_len _ _ _ _ _ _ _ _ _ _ Er) as Ld. pose proof (access_read_get _ _ _ _ _ _ _ _ _ _ _ Er G) as G'.
    destruct rc; try (intros H; nfb; facts; lia).
    destruct (put b p d) as [b1|] eqn:P; [|apply put_none in P; lia]. apply put_len in P.
    destruct (n <? p + len d) eqn:El; [apply N.ltb_lt in El; lia|].
    eapply (IH (length t)); eauto; [cbn [length] in Hlen; lia|lia|lia|lia].
  Qed.

  Lemma read_multiple_loop_len cid opcode b0 n : forall m hs st b p st' b' p', length hs = m ->
    read_multiple_loop c st cid opcode hs b0 b p n = Some (st', (b', p')) -> len b' = len b.
  Proof.
    induction m as [m IH] using lt_wf_ind. intros hs st b p st' b' p' Hlen H.
    destruct hs as [|lo [|hi t]]; cbn [read_multiple_loop] in H; try (mon; reflexivity). cbv zeta in H.
    brk; [mon; facts; congruence|]. brk; [mon; facts; congruence|]. mon.
    destruct a0; mon; try (facts; congruence).
    brk; [discriminate|]. apply (IH (length t)) in H; [|cbn [length]; lia|reflexivity]. facts. congruence.
  Qed.

  Lemma read_multiple_nf st cid k0 pdu b n : rd pdu 0 = Some 14 -> get_conn st cid = Some k0 -> 23 <= n -> n <= len b ->
    handle_read_multiple c st cid pdu b n <> None.
  Proof.
    intros Hop G Hn1 Hb H. unfold handle_read_multiple in H. rewrite Hop in H.
    destruct ((len pdu <? 5) || (len pdu mod 2 =? 0)) eqn:El; [nfb; facts; lia|].
    apply orb_false_iff in El. destruct El as [El _]. apply N.ltb_ge in El.
    destruct (put b 0 [15]) as [b1|] eqn:P1; [|facts; lia]. apply put_len in P1.
    destruct (slice pdu 1 (len pdu)) as [hs|] eqn:Es; [|apply slice_none in Es; lia].
    eapply (read_multiple_loop_nf cid 14 b n (length hs) hs st k0 b1 1); [reflexivity|exact G|lia|lia|lia|lia|exact H].
  Qed.

  Lemma read_multiple_len st cid pdu b n st' b' m : handle_read_multiple c st cid pdu b n = Some (st', (b', m)) -> len b' = len b.
  Proof.
    unfold handle_read_multiple. intros H. okb; facts; try congruence.
    apply (read_multiple_loop_len _ _ _ _ _ _ _ _ _ _ _ _ eq_refl) in H. congruence.
  Qed.
End Handlers.

(* ------------------------------------------------------------------ l2cap_input *)
(* C01 (a), one call *)
Theorem att_input_no_fault c st cid pdu n k :
  wf c -> no_includes c -> no_marker_uuids c ->
  Forall (elem_ok c) (wq_elems st) -> get_conn st cid = Some k ->
  1 <= len pdu -> 23 <= N.min n (negotiated_mtu c k) ->
  att_input c st cid pdu n <> None.
Proof.
  intros Hw Hn Hm Hq G Hl Ho.
  destruct (rd pdu 0) as [op|] eqn:Hop; [|apply rd_none in Hop; lia].
  (* the opcodes that touch no attribute *)
  destruct (forallb (fun x => negb (op =? x)) [4; 6; 8; 10; 12; 14; 16; 18; 82; 22; 24]) eqn:Es.
  { eapply att_input_no_fault_simple; eauto. }
  unfold att_input. rewrite G. cbv zeta.
  set (os := N.min n (negotiated_mtu c k)) in *.
  replace (len pdu =? 0) with false by (symmetry; apply N.eqb_neq; lia).
  replace (os <? default_att_mtu) with false by (symmetry; apply N.ltb_ge; unfold default_att_mtu; lia).
  rewrite Hop. set (b := repeat fill_byte (N.to_nat n)).
  assert (Lb : len b = n) by apply len_repeat.
  assert (Hob : os <= len b) by (rewrite Lb; unfold os; lia).
  (* a handler result passes the final test *)
  assert (FIN : forall (st1 : srv_state) (b1 : list N) m, len b1 = len b -> m <= os ->
                 (if m <=? len b1 then Some (st1, takeN m b1) else None) <> None).
  { intros st1 b1 m L M. replace (m <=? len b1) with true by (symmetry; apply N.leb_le; lia). discriminate. }
  cbn [forallb] in Es.
  destruct (op =? 1) eqn:E1; [apply N.eqb_eq in E1; subst op; discriminate Es|].
  destruct (op =? 2) eqn:E2; [apply N.eqb_eq in E2; subst op; discriminate Es|].
  destruct (op =? 4) eqn:E4.
  { apply N.eqb_eq in E4. subst op.
    destruct (handle_find_information c pdu b os) as [[b1 m]|] eqn:E; [|exfalso; eapply find_information_nf; eauto].
    apply FIN; [eapply find_information_len; eauto|]. apply (find_information_good c pdu b os _ Ho Hop E). }
  destruct (op =? 6) eqn:E6.
  { apply N.eqb_eq in E6. subst op.
    destruct (handle_find_by_type_value c st cid pdu b os) as [[b1 m]|] eqn:E; [|exfalso; eapply find_by_type_value_nf; eauto].
    apply FIN; [eapply find_by_type_value_len; eauto|]. apply (find_by_type_value_good c st cid pdu b os _ Ho Hop E). }
  destruct (op =? 8) eqn:E8.
  { apply N.eqb_eq in E8. subst op.
    destruct (handle_read_by_type c st cid pdu b os) as [[st1 [b1 m]]|] eqn:E; [|exfalso; eapply read_by_type_nf; eauto].
    apply FIN; [eapply read_by_type_len; eauto|]. apply (read_by_type_good c st cid pdu b os _ _ Ho Hop E). }
  destruct (op =? 10) eqn:E10.
  { apply N.eqb_eq in E10. subst op.
    destruct (handle_read c st cid pdu b os) as [[st1 [b1 m]]|] eqn:E; [|exfalso; eapply read_nf; eauto].
    apply FIN; [eapply read_len; eauto|]. apply (read_good c st cid pdu b os _ _ Ho Hop E). }
  destruct (op =? 12) eqn:E12.
  { apply N.eqb_eq in E12. subst op.
    destruct (handle_read_blob c st cid pdu b os) as [[st1 [b1 m]]|] eqn:E; [|exfalso; eapply read_blob_nf; eauto].
    apply FIN; [eapply read_blob_len; eauto|]. apply (read_blob_good c st cid pdu b os _ _ Ho Hop E). }
  destruct (op =? 16) eqn:E16.
  { apply N.eqb_eq in E16. subst op.
    destruct (handle_read_by_group_type c pdu b os) as [[b1 m]|] eqn:E; [|exfalso; eapply read_by_group_type_nf; eauto].
    apply FIN; [eapply read_by_group_type_len; eauto|]. apply (read_by_group_type_good c pdu b os _ Ho Hop E). }
  destruct (op =? 14) eqn:E14.
  { apply N.eqb_eq in E14. subst op.
    destruct (handle_read_multiple c st cid pdu b os) as [[st1 [b1 m]]|] eqn:E; [|exfalso; eapply read_multiple_nf; eauto].
    apply FIN; [eapply read_multiple_len; eauto|]. apply (read_multiple_good c st cid pdu b os _ _ Ho Hop E). }
  destruct (op =? 18) eqn:E18.
  { apply N.eqb_eq in E18. subst op.
    destruct (handle_write_request c st cid pdu b os) as [[st1 [b1 m]]|] eqn:E; [|exfalso; eapply write_request_nf; eauto].
    apply FIN; [eapply write_request_len; eauto|]. apply (write_request_good c st cid pdu b os 18 _ _ Ho Hop eq_refl E). }
  destruct (op =? 82) eqn:E82.
  { apply N.eqb_eq in E82. subst op.
    destruct (handle_write_command c st cid pdu b os) as [[st1 [b1 m]]|] eqn:E; [|exfalso; eapply write_command_nf; eauto].
    destruct (write_command_len c st cid pdu b os _ _ _ E) as [L ->]. apply FIN; [exact L|lia]. }
  destruct (op =? 22) eqn:E22.
  { apply N.eqb_eq in E22. subst op.
    destruct (handle_prepare_write c st cid pdu b os) as [[st1 [b1 m]]|] eqn:E; [|exfalso; eapply prepare_write_nf; eauto].
    apply FIN; [eapply prepare_write_len; eauto|]. apply (prepare_write_good c st cid pdu b os _ _ Ho Hop E). }
  destruct (op =? 24) eqn:E24.
  { apply N.eqb_eq in E24. subst op.
    destruct (handle_execute_write c st cid pdu b os) as [[st1 [b1 m]]|] eqn:E; [|exfalso; eapply execute_write_nf; eauto].
    apply FIN; [eapply execute_write_len; eauto|]. apply (execute_write_good c st cid pdu b os _ _ Ho Hop E). }
  (* no other opcode is left: Es would be true *)
  exfalso. cbn in Es. discriminate Es.
Qed.

(* ------------------------------------------------------------------ reachable states *)
From BT Require AttSrv.AttSrvProofsC08.
Module C8 := AttSrv.AttSrvProofsC08.

Lemma srv_final_after c : forall ops st, srv_final c st ops = srv_after c st ops.
Proof. induction ops as [|o t IH]; intros st; cbn [srv_final srv_after]; auto. Qed.

Lemma srv_step_fault_state c st o : snd (srv_step c st o) = OFault -> fst (srv_step c st o) = st.
Proof.
  destruct o as [cid pdu n|cid n|cid e p|cid|bu kd g|g|g data]; cbn [srv_step].
  - destruct (att_input c st cid pdu n) as [[st' r]|]; cbn [fst snd]; [discriminate|reflexivity].
  - destruct (att_output c st cid n) as [[st' r]|]; cbn [fst snd]; [discriminate|reflexivity].
  - destruct (get_conn st cid); cbn [snd]; discriminate.
  - cbn [snd]. discriminate.
  - destruct bu.
    + destruct (by_uuid_available c kd g); [|cbn [snd]; discriminate].
      destruct (notify_by_uuid c st kd g) as [[st' r]|]; cbn [fst snd]; [discriminate|reflexivity].
    + destruct (by_value_available c g); [|cbn [snd]; discriminate].
      destruct (notify_by_value c st kd g) as [[st' r]|]; cbn [fst snd]; [discriminate|reflexivity].
  - destruct (has_var c g) as [[w h]|]; cbn [snd]; discriminate.
  - destruct (has_var c g) as [[[|] h]|]; cbn [snd]; discriminate.
Qed.

(* the write queue of every reachable state holds validated elements (from att-val's simulation) *)
Lemma wq_ok_after c : forall ops st a, sim c st a -> Forall (elem_ok c) (wq_elems (srv_after c st ops)).
Proof.
  induction ops as [|o t IH]; intros st a S; cbn [srv_after]; [exact (sim_qok S)|].
  destruct (snd (srv_step c st o)) eqn:E;
    try (destruct (sim_step c st a o S) as [S' _]; [rewrite E; discriminate|]; eapply IH; exact S').
  rewrite (srv_step_fault_state c st o E). eapply IH; exact S.
Qed.

Lemma wq_ok_reachable c ops : Forall (elem_ok c) (wq_elems (srv_after c (srv_init c) ops)).
Proof. eapply wq_ok_after. apply sim_init. Qed.

(* C01 (a) over histories: in every state reachable from the initial one by any operations *)
Theorem att_input_no_fault_reachable c ops cid pdu n :
  wf c -> no_includes c -> no_marker_uuids c -> (cid < n_conns)%nat -> 1 <= len pdu -> 23 <= n ->
  att_input c (srv_final c (srv_init c) ops) cid pdu n <> None.
Proof.
  intros Hw Hn Hm Hc Hl Hn1. rewrite srv_final_after.
  destruct (C8.negotiated_mtu_history c cid ops Hw Hc) as (k & G & _ & M).
  eapply att_input_no_fault; eauto; [apply wq_ok_reachable|]. unfold default_att_mtu in M. lia.
Qed.
