(* Arrays of 2-bit fields packed four to a byte, as used by
   notification_queue_impl::{at,add,remove} and client_characteristic_configuration::flags.
   The one-byte facts are proved by a finite sweep (256 bytes x 4 slots x 4 slots x 4 values,
   evaluated by vm_compute and lifted with forallb_forall); everything about lists of any
   length is proved from them. *)
From BT Require Import Base.ListX.
Local Open Scope N_scope.

(* ---------- one byte ---------- *)
Definition sh (p : nat) : N := N.of_nat (p * 2).
Definition bget (b : N) (p : nat) : N := N.land (N.shiftr b (sh p)) 3.
(* b |= bits << s   (result truncated to uint8_t) *)
Definition byte_or (b : N) (p : nat) (bits : N) : N := (N.lor b (N.shiftl bits (sh p))) mod 256.
(* b &= ~(bits << s) *)
Definition byte_clr (b : N) (p : nat) (bits : N) : N := (N.ldiff b (N.shiftl bits (sh p))) mod 256.
(* b = (b & ~(3 << s)) | ((v & 3) << s) *)
Definition byte_set (b : N) (p : nat) (v : N) : N :=
  (N.lor (N.ldiff b (N.shiftl 3 (sh p))) (N.shiftl (N.land v 3) (sh p))) mod 256.

Definition Nrange (n : nat) : list N := map N.of_nat (seq 0 n).
Lemma In_Nrange n x : x < N.of_nat n -> In x (Nrange n).
Proof.
  intros H. unfold Nrange. apply in_map_iff. exists (N.to_nat x). split.
  - apply N2Nat.id.
  - apply in_seq. lia.
Qed.

Definition sweep_ok : bool :=
  forallb (fun b =>
    forallb (fun p =>
      forallb (fun v =>
        (bget (byte_or b p v) p =? N.lor (bget b p) v) &&
        (bget (byte_clr b p v) p =? N.ldiff (bget b p) v) &&
        (bget (byte_set b p v) p =? v) &&
        (byte_or b p v <? 256) && (byte_clr b p v <? 256) && (byte_set b p v <? 256) &&
        (bget b p <? 4) &&
        forallb (fun q => Nat.eqb p q ||
            ((bget (byte_or b p v) q =? bget b q) &&
             (bget (byte_clr b p v) q =? bget b q) &&
             (bget (byte_set b p v) q =? bget b q))) (seq 0 4))
      (Nrange 4)) (seq 0 4)) (Nrange 256).

Lemma sweep_ok_true : sweep_ok = true.
Proof. vm_compute. reflexivity. Qed.

Lemma sweep b p v :
  b < 256 -> (p < 4)%nat -> v < 4 ->
  bget (byte_or b p v) p = N.lor (bget b p) v /\
  bget (byte_clr b p v) p = N.ldiff (bget b p) v /\
  bget (byte_set b p v) p = v /\
  byte_or b p v < 256 /\ byte_clr b p v < 256 /\ byte_set b p v < 256 /\
  bget b p < 4 /\
  forall q, (q < 4)%nat -> p <> q ->
    bget (byte_or b p v) q = bget b q /\
    bget (byte_clr b p v) q = bget b q /\
    bget (byte_set b p v) q = bget b q.
Proof.
  intros Hb Hp Hv.
  pose proof sweep_ok_true as S. unfold sweep_ok in S.
  rewrite forallb_forall in S. specialize (S b (In_Nrange 256 b Hb)).
  rewrite forallb_forall in S. specialize (S p). rewrite in_seq in S.
  specialize (S ltac:(lia)).
  rewrite forallb_forall in S. specialize (S v (In_Nrange 4 v Hv)).
  repeat rewrite andb_true_iff in S.
  destruct S as [[[[[[[S1 S2] S3] S4] S5] S6] S7] S8].
  apply N.eqb_eq in S1, S2, S3. apply N.ltb_lt in S4, S5, S6, S7.
  repeat split; auto.
  all: rewrite forallb_forall in S8; specialize (S8 q); rewrite in_seq in S8;
    specialize (S8 ltac:(lia)); apply orb_true_iff in S8; destruct S8 as [S8|S8];
    [apply Nat.eqb_eq in S8; lia|];
    repeat rewrite andb_true_iff in S8; destruct S8 as [[A B] C];
    apply N.eqb_eq in A, B, C; auto.
Qed.

(* the test in add(): ( queue_[b] & (bits << off) ) == 0  looks at the field's bits only *)
Definition sweep_test_ok : bool :=
  forallb (fun b => forallb (fun p => forallb (fun v =>
     Bool.eqb (N.land b (N.shiftl v (sh p)) =? 0) (N.land (bget b p) v =? 0))
     (Nrange 4)) (seq 0 4)) (Nrange 256).
Lemma sweep_test_ok_true : sweep_test_ok = true.
Proof. vm_compute. reflexivity. Qed.
Lemma sweep_test b p v : b < 256 -> (p < 4)%nat -> v < 4 ->
  (N.land b (N.shiftl v (sh p)) =? 0) = (N.land (bget b p) v =? 0).
Proof.
  intros Hb Hp Hv. pose proof sweep_test_ok_true as S. unfold sweep_test_ok in S.
  rewrite forallb_forall in S. specialize (S b (In_Nrange 256 b Hb)).
  rewrite forallb_forall in S. specialize (S p). rewrite in_seq in S. specialize (S ltac:(lia)).
  rewrite forallb_forall in S. specialize (S v (In_Nrange 4 v Hv)).
  apply Bool.eqb_prop in S. exact S.
Qed.

Lemma N4_cases v : v < 4 -> v = 0 \/ v = 1 \/ v = 2 \/ v = 3.
Proof. lia. Qed.

(* byte_set ignores the upper bits of the new value (new_flags & 0x03) *)
Lemma byte_set_land b p v : byte_set b p v = byte_set b p (N.land v 3).
Proof.
  unfold byte_set. rewrite <- N.land_assoc. reflexivity.
Qed.

Lemma land3_lt v : N.land v 3 < 4.
Proof.
  change 3 with (N.ones 2). rewrite N.land_ones. apply N.mod_lt. discriminate.
Qed.

(* ---------- lists of bytes ---------- *)
Definition boff (i : nat) : nat := i / 4.
Definition slot (i : nat) : nat := i mod 4.

Definition get2 (q : list N) (i : nat) : N := bget (nth (boff i) q 0) (slot i).
Definition or2 (q : list N) (i : nat) (bits : N) : list N :=
  upd q (boff i) (byte_or (nth (boff i) q 0) (slot i) bits).
Definition clr2 (q : list N) (i : nat) (bits : N) : list N :=
  upd q (boff i) (byte_clr (nth (boff i) q 0) (slot i) bits).
Definition set2 (q : list N) (i : nat) (v : N) : list N :=
  upd q (boff i) (byte_set (nth (boff i) q 0) (slot i) v).

Definition bytes_ok (q : list N) : Prop := Forall (fun b => b < 256) q.

(* number of bytes for n fields: ( n * 2 + 7 ) / 8 *)
Definition nbytes (n : nat) : nat := (n * 2 + 7) / 8.

Lemma boff_lt n i : (i < n)%nat -> (boff i < nbytes n)%nat.
Proof.
  unfold boff, nbytes. intros H.
  apply Nat.div_lt_upper_bound; [lia|].
  pose proof (Nat.div_mod (n * 2 + 7) 8 ltac:(lia)).
  pose proof (Nat.mod_upper_bound (n * 2 + 7) 8 ltac:(lia)). lia.
Qed.

Lemma slot_lt i : (slot i < 4)%nat.
Proof. unfold slot. apply Nat.mod_upper_bound. lia. Qed.

Lemma boff_slot_inj i j : boff i = boff j -> slot i = slot j -> i = j.
Proof.
  unfold boff, slot. intros A B.
  rewrite (Nat.div_mod i 4), (Nat.div_mod j 4) by lia. lia.
Qed.

Lemma bytes_ok_nth q k : bytes_ok q -> nth k q 0 < 256.
Proof.
  intros H. destruct (Nat.lt_ge_cases k (length q)) as [L|L].
  - eapply Forall_forall in H; [exact H|]. apply nth_In; auto.
  - rewrite nth_overflow by auto. lia.
Qed.

Lemma bytes_ok_upd q k b : bytes_ok q -> b < 256 -> bytes_ok (upd q k b).
Proof.
  unfold bytes_ok. revert k. induction q as [|h t IH]; intros [|k] H Hb; simpl; auto.
  - inversion H; subst; constructor; auto.
  - inversion H; subst; constructor; auto.
Qed.

Lemma bytes_ok_repeat n : bytes_ok (repeat 0 n).
Proof. unfold bytes_ok. apply Forall_forall. intros x H. apply repeat_spec in H. subst; lia. Qed.

Section Lift.
  Variables (q : list N) (n i : nat) (v : N).
  Hypothesis Hq : bytes_ok q.
  Hypothesis Hl : length q = nbytes n.
  Hypothesis Hi : (i < n)%nat.
  Hypothesis Hv : v < 4.

  Let Hb : nth (boff i) q 0 < 256 := bytes_ok_nth q (boff i) Hq.
  Let Hs : (slot i < 4)%nat := slot_lt i.
  Let Hbo : (boff i < length q)%nat.
  Proof. rewrite Hl. apply boff_lt; auto. Qed.

  Lemma get2_lt : get2 q i < 4.
  Proof. unfold get2. apply (sweep _ _ _ Hb Hs Hv). Qed.

  Lemma get2_or2_eq : get2 (or2 q i v) i = N.lor (get2 q i) v.
  Proof. unfold get2, or2. rewrite nth_upd_eq by auto. apply (sweep _ _ _ Hb Hs Hv). Qed.
  Lemma get2_clr2_eq : get2 (clr2 q i v) i = N.ldiff (get2 q i) v.
  Proof. unfold get2, clr2. rewrite nth_upd_eq by auto. apply (sweep _ _ _ Hb Hs Hv). Qed.
  Lemma get2_set2_eq : get2 (set2 q i v) i = v.
  Proof. unfold get2, set2. rewrite nth_upd_eq by auto. apply (sweep _ _ _ Hb Hs Hv). Qed.

  Lemma other j : i <> j ->
    get2 (or2 q i v) j = get2 q j /\ get2 (clr2 q i v) j = get2 q j /\ get2 (set2 q i v) j = get2 q j.
  Proof.
    intros Hij. unfold get2, or2, clr2, set2.
    destruct (Nat.eq_dec (boff i) (boff j)) as [E|E].
    - assert (slot i <> slot j) as Hsl by (intro; apply Hij; apply boff_slot_inj; auto).
      rewrite <- E. rewrite !nth_upd_eq by auto.
      destruct (sweep _ _ _ Hb Hs Hv) as (_ & _ & _ & _ & _ & _ & _ & O).
      destruct (O (slot j) (slot_lt j) Hsl) as (A & B & C). auto.
    - rewrite !nth_upd_neq by auto. auto.
  Qed.

  Lemma get2_or2_neq j : i <> j -> get2 (or2 q i v) j = get2 q j.
  Proof. intros; apply other; auto. Qed.
  Lemma get2_clr2_neq j : i <> j -> get2 (clr2 q i v) j = get2 q j.
  Proof. intros; apply other; auto. Qed.
  Lemma get2_set2_neq j : i <> j -> get2 (set2 q i v) j = get2 q j.
  Proof. intros; apply other; auto. Qed.

  Lemma or2_ok : bytes_ok (or2 q i v) /\ length (or2 q i v) = nbytes n.
  Proof. unfold or2. split; [apply bytes_ok_upd; auto; apply (sweep _ _ _ Hb Hs Hv)|rewrite upd_length; auto]. Qed.
  Lemma clr2_ok : bytes_ok (clr2 q i v) /\ length (clr2 q i v) = nbytes n.
  Proof. unfold clr2. split; [apply bytes_ok_upd; auto; apply (sweep _ _ _ Hb Hs Hv)|rewrite upd_length; auto]. Qed.
  Lemma set2_ok : bytes_ok (set2 q i v) /\ length (set2 q i v) = nbytes n.
  Proof. unfold set2. split; [apply bytes_ok_upd; auto; apply (sweep _ _ _ Hb Hs Hv)|rewrite upd_length; auto]. Qed.
End Lift.

Lemma get2_repeat0 n i : get2 (repeat 0 n) i = 0.
Proof.
  unfold get2. destruct (Nat.lt_ge_cases (boff i) n).
  - rewrite repeat_nth by auto. unfold bget. rewrite N.shiftr_0_l. reflexivity.
  - rewrite nth_overflow by (rewrite repeat_length; auto). unfold bget. rewrite N.shiftr_0_l. reflexivity.
Qed.
