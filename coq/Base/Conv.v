(* Anchor that makes every extraction contain the constructors ocaml/conv.ml converts from/to. *)
From Coq Require Import NArith ZArith List.
Definition conv_anchor (n : nat) (x : N) (z : Z) (p : positive) : nat * N * Z * positive :=
  (S n, N.succ x, Z.succ z, Pos.succ p).
