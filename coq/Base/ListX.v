(* Shared list lemmas: point update, nth, firstn/skipn helpers. Stdlib only. *)
From Coq Require Export List Arith NArith ZArith Lia Bool.
Export ListNotations.

Set Implicit Arguments.

Section Upd.
  Variable A : Type.

  Fixpoint upd (l : list A) (i : nat) (v : A) : list A :=
    match l, i with
    | [], _ => []
    | _ :: t, O => v :: t
    | h :: t, S j => h :: upd t j v
    end.

  Lemma upd_length l i v : length (upd l i v) = length l.
  Proof. revert i; induction l as [|h t IH]; intros [|j]; simpl; auto. Qed.

  Lemma nth_upd_eq l i v d : i < length l -> nth i (upd l i v) d = v.
  Proof.
    revert i; induction l as [|h t IH]; intros [|j] H; simpl in *; try lia; auto.
    apply IH; lia.
  Qed.

  Lemma nth_upd_neq l i j v d : i <> j -> nth j (upd l i v) d = nth j l d.
  Proof.
    revert i j; induction l as [|h t IH]; intros [|i] [|j] H; simpl; auto; try lia.
  Qed.

  Lemma upd_out l i v : length l <= i -> upd l i v = l.
  Proof.
    revert i; induction l as [|h t IH]; intros [|j] H; simpl in *; auto; try lia.
    f_equal; apply IH; lia.
  Qed.

  Lemma upd_same l i d : upd l i (nth i l d) = l.
  Proof.
    revert i; induction l as [|h t IH]; intros [|j]; simpl; auto. f_equal; auto.
  Qed.
End Upd.

Lemma nth_ext_len (A : Type) (l1 l2 : list A) d :
  length l1 = length l2 ->
  (forall i, i < length l1 -> nth i l1 d = nth i l2 d) -> l1 = l2.
Proof.
  intros HL H. apply nth_ext with (d := d) (d' := d); auto.
Qed.

Lemma nth_map_seq (A : Type) (f : nat -> A) n i d :
  i < n -> nth i (map f (seq 0 n)) d = f i.
Proof.
  intros Hi.
  rewrite nth_indep with (d' := f 0) by (rewrite map_length, seq_length; auto).
  rewrite (map_nth f (seq 0 n) 0 i), seq_nth; auto.
Qed.

Lemma map_seq_nth (A : Type) (l : list A) d :
  map (fun i => nth i l d) (seq 0 (length l)) = l.
Proof.
  apply nth_ext_len with (d := d).
  - rewrite map_length, seq_length; auto.
  - intros i Hi. rewrite map_length, seq_length in Hi.
    rewrite nth_map_seq; auto.
Qed.

Lemma repeat_nth (A : Type) (x : A) n i d : i < n -> nth i (repeat x n) d = x.
Proof.
  revert i; induction n as [|n IH]; intros [|i] H; simpl; try lia; auto. apply IH; lia.
Qed.
