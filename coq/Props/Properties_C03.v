(* C03  Primary service discovery never reports secondary services.
   Statements only; proofs live in AttSrv/AttSrvProofsC03.v. *)
From BT Require Import Base.ListX AttDb.AttDbModel AttDb.AttDbSpec AttDb.AttDbExamples NQueue.NQueueModel
  AttSrv.AttSrvModel AttSrv.AttSrvSpecC02 AttSrv.AttSrvSpecC03 AttSrv.AttSrvExamplesDisc.
Local Open Scope N_scope.

Example C03_wf_nonvacuous : wf cfg_secondary /\ wf cfg_disc_sec_mix /\ wf cfg_disc_sec128.
Proof. repeat split; vm_compute; reflexivity. Qed.
