(* C03  Primary service discovery never reports secondary services.
   Statements only; proofs live in AttSrv/AttSrvProofsC02.v (Read By Group Type) and AttSrv/AttSrvProofsC03.v.

   Spec (AttSrvSpecC03.v): [groups c] = the declared services in declaration order, each with the handle of
   its declaration and of its last attribute as the declaration assigns them (AttDbSpec.assign);
   [primary_services c u lo hi] = (first, last, uuid) of the declared PRIMARY services (with uuid u, if
   given) whose declaration handle lies in lo..hi. The model is coq/AttSrv/AttSrvModel.v after the repairs
   of branch fix/C02-C03-discovery (ending handle compared as a handle; secondary services skipped).
   All theorems: for EVERY configuration with wf c (any number of services / characteristics, any fixed
   handles and gaps) and without include_service<> (the handle mapping with includes is C04's finding),
   every handle range, every uuid value, every out_size >= 23 (= every MTU), every connection state. *)
From BT Require Import Base.ListX AttDb.AttDbModel AttDb.AttDbSpec AttDb.AttDbProofs AttDb.AttDbExamples NQueue.NQueueModel
  AttSrv.AttSrvModel AttSrv.AttSrvSpecC02 AttSrv.AttSrvSpecC03 AttSrv.AttSrvProofsC02 AttSrv.AttSrvProofsC03
  AttSrv.AttSrvProofsDiscMon AttSrv.AttSrvProofsNoFault AttSrv.AttSrvExamplesDisc.
Local Open Scope N_scope.

(* ---- (1) Discover All Primary Services: the response to  10 lo hi 00 28  is determined by W, the
   services the walk over the declaration selects: Attribute Not Found (01 10 lo 0a) if W is empty, else
   11 <6|20> followed by (first handle, last handle, uuid) of every service of W *)
Theorem C03_read_by_group_type_response :
  forall c a0 a1 x0 x1 b out_size r,
    wf c -> no_includes c -> a0 < 256 -> a1 < 256 -> x0 < 256 -> x1 < 256 ->
    1 <= w16 a0 a1 -> w16 a0 a1 <= w16 x0 x1 -> 23 <= out_size -> out_size <= len b ->
    handle_read_by_group_type c [16; a0; a1; x0; x1; 0; 40] b out_size = Some r ->
    rbg_response (walk_first (groups c) (w16 a0 a1) (w16 x0 x1) (out_size - 2)) a0 a1 out_size r.
Proof. exact read_by_group_type_spec. Qed.
Print Assumptions C03_read_by_group_type_response.

(* ... and W is a non-empty prefix of the declared primary services in the range (empty only if there is
   none), with their real handle ranges; no element of W is a secondary service *)
Theorem C03_read_by_group_type_reports_exactly_primary_services :
  forall c lo hi out_size, 23 <= out_size ->
    let W := walk_first (groups c) lo hi (out_size - 2) in
    exists rest, primary_services c None lo hi = map gtriple W ++ rest
                 /\ (W = [] -> primary_services c None lo hi = [])
                 /\ (forall g, In g W -> s_secondary (snd g) = false /\ In g (groups c) /\ in_range lo hi (gfirst g) = true).
Proof. exact rbg_reports_primary_services. Qed.
Print Assumptions C03_read_by_group_type_reports_exactly_primary_services.

(* ---- (2) Discover Primary Service by Service UUID: the response to  06 lo hi 00 28 value  is determined
   by W = fbtv_walk ..: Attribute Not Found (01 06 lo 0a) if W is empty; else W is ONE service (service uuids
   are unique in a wf configuration) and the response is 07 first last *)
Theorem C03_find_by_type_value_response :
  forall c st cid pdu lo hi value b out_size r,
    wf c -> no_includes c -> forallb byte_ok value = true ->
    rd pdu 0 = Some 6 -> (len pdu = 9 \/ len pdu = 23) ->
    rd16 pdu 1 = Some lo -> rd16 pdu 3 = Some hi -> rd16 pdu 5 = Some uuid_primary_service ->
    slice pdu 7 (len pdu) = Some value ->
    1 <= lo -> lo <= hi -> 23 <= out_size -> out_size <= len b ->
    handle_find_by_type_value c st cid pdu b out_size = Some r ->
    match fbtv_walk (groups c) lo hi value (out_size - 1) with
    | [] => snd r = 5 /\ seg 0 5 (fst r) = 1 :: 6 :: le16 lo ++ [10]
    | g :: W => W = [] /\ snd r = 5 /\ 5 <= len (fst r) /\ seg 0 5 (fst r) = 7 :: genc4 g
    end.
Proof. exact find_by_type_value_spec'. Qed.
Print Assumptions C03_find_by_type_value_response.

Theorem C03_find_by_type_value_reports_exactly_primary_services :
  forall c lo hi value out_size,
    wf c -> forallb byte_ok value = true -> 23 <= out_size ->
    let W := fbtv_walk (groups c) lo hi value (out_size - 1) in
    exists rest, primary_services c (Some (uuid_of_bytes value)) lo hi = map gtriple W ++ rest
                 /\ (W = [] -> primary_services c (Some (uuid_of_bytes value)) lo hi = [])
                 /\ (forall g, In g W -> s_secondary (snd g) = false /\ In g (groups c) /\ in_range lo hi (gfirst g) = true).
Proof. exact fbtv_reports_primary_services. Qed.
Print Assumptions C03_find_by_type_value_reports_exactly_primary_services.

(* ---- (3) a client that re-issues the request behind the last end group handle (fuel = number of services
   + 1) enumerates the declaration handles of exactly the declared primary services (with that uuid) in
   lo..hi, each once, in order. [rbg_responder] / [fbtv_responder] are the answers (1) / (2) as a client
   decodes them: declaration handles + the last end group handle. *)
Theorem C03_discover_all_primary_services :
  forall c out_size hi, wf c -> no_includes c -> 23 <= out_size ->
    forall lo, 1 <= lo ->
      discover_all (S (length (groups c))) (rbg_responder c out_size) lo hi = hrange (primary_starts c) lo hi.
Proof. exact rbg_discover_all. Qed.
Print Assumptions C03_discover_all_primary_services.

Theorem C03_discover_primary_service_by_uuid :
  forall c out_size value hi, wf c -> no_includes c -> 23 <= out_size ->
    forall lo, 1 <= lo ->
      discover_all (S (length (groups c))) (fbtv_responder c out_size value) lo hi
      = hrange (map gfirst (filter (fun g => negb (s_secondary (snd g)) && bytes_eqb (uuid_bytes (s_uuid (snd g))) value) (groups c))) lo hi.
Proof. exact fbtv_discover_all. Qed.
Print Assumptions C03_discover_primary_service_by_uuid.

(* ---- (4) the executable monitor (all clauses: primary_only, group_range, group_uuid, services_exact,
   services_enumerated, invalid_range, shape) accepts the model's trace: for every wf configuration without
   include_service<>, every request history of ANY length (requests of bytes), from EVERY state and monitor
   state consistent with the declaration - provided the model does not answer FAULT in it. (FAULT = an
   out-of-range access / failing assert of the code = C01 (a), which is proved only for the requests that touch no
   attribute; the tie checks it with ASan on every run.) Proof: per step, the byte-exact responses (1), (2) are
   decoded by the monitor's parser into the reported groups (decode after encode, handles < 65536), judged Ok,
   and the session invariant "handles collected so far ++ what is still in range = what the first request
   has to enumerate" is preserved; induction over the history. *)
Theorem C03_monitor_accepts_model_partial :
  forall c, wf c -> no_includes c ->
    forall ops st, forallb op_bytes ops = true ->
      Forall (fun p => snd p <> OFault) (srv_run c st ops) ->
      c03_monitor c (srv_run c st ops) = None.
Proof.
  intros c Hw Hn ops st Hb Hf. apply c03_monitor_accepts; auto. apply mon_ok_init.
Qed.
Print Assumptions C03_monitor_accepts_model_partial.

(* ---- (5) ... and without any premise on the outputs: for every wf configuration without include_service<>
   and EVERY request history of any length (requests of bytes, connection numbers 0..2 as the drivers produce
   them) the monitor accepts the model's trace from the initial state. In addition to (4): every reachable
   state has three connections with a client MTU >= 23 (invariant through all 14 handlers, l2cap_output,
   notify / indicate, disconnect, ...), and on such a state Read By Group Type and Find By Type Value never
   FAULT (every buffer access of the two handlers is in bounds, every attribute_at index valid). *)
Theorem C03_monitor_accepts_model :
  forall c ops, wf c -> no_includes c -> forallb op_bytes ops = true -> forallb op_conn ops = true ->
    c03_monitor c (srv_run c (srv_init c) ops) = None.
Proof.
  intros c ops Hw Hn Hb Hc. apply c03_monitor_accepts_full; auto; [apply srv_init_ok|apply mon_ok_init].
Qed.
Print Assumptions C03_monitor_accepts_model.

(* ---- non-vacuity / witnesses. cfg_secondary: 1820 (secondary, 1..3), 1821 (4..6), 128 bit (secondary, 7..9),
   128 bit (10..12), 1822 (secondary, 13..15) *)
Example C03_wf_nonvacuous :
  wf cfg_secondary /\ no_includes cfg_secondary /\ wf cfg_disc_sec_mix /\ no_includes cfg_disc_sec_mix
  /\ wf cfg_disc_sec128 /\ no_includes cfg_disc_sec128.
Proof. repeat split; vm_compute; reflexivity. Qed.

Example C03_primary_services_secondary :
  primary_services cfg_secondary None 1 65535
  = [(4, 6, U16 6177); (10, 12, U128 [1; 2; 199; 91; 237; 78; 138; 162; 159; 73; 226; 13; 148; 64; 139; 140])].
Proof. vm_compute. reflexivity. Qed.

(* Discover All Primary Services 1..0xffff, then continued at 7: 1821 at 4..6; the 128 bit service at 10..12;
   the secondary services at 1, 7 and 13 are never reported (the unrepaired code answered the first request
   with 11 06 01 00 03 00 20 18 04 00 06 00 21 18) *)
Example C03_model_discovers_cfg_secondary :
  exists st1 st2 st3,
    att_input cfg_secondary (srv_init cfg_secondary) O [16; 1; 0; 255; 255; 0; 40] 23 = Some (st1, [17; 6; 4; 0; 6; 0; 33; 24])
    /\ att_input cfg_secondary st1 O [16; 7; 0; 255; 255; 0; 40] 23
       = Some (st2, [17; 20; 10; 0; 12; 0; 1; 2; 199; 91; 237; 78; 138; 162; 159; 73; 226; 13; 148; 64; 139; 140])
    /\ att_input cfg_secondary st2 O [16; 13; 0; 255; 255; 0; 40] 23 = Some (st3, [1; 16; 13; 0; 10]).
Proof. do 3 eexists. repeat split; vm_compute; reflexivity. Qed.

(* Discover Primary Service by Service UUID: the secondary 0x1820 is not found, the primary 0x1821 is *)
Example C03_model_find_by_uuid_cfg_secondary :
  exists st1 st2,
    att_input cfg_secondary (srv_init cfg_secondary) O [6; 1; 0; 255; 255; 0; 40; 32; 24] 23 = Some (st1, [1; 6; 1; 0; 10])
    /\ att_input cfg_secondary st1 O [6; 1; 0; 255; 255; 0; 40; 33; 24] 23 = Some (st2, [7; 4; 0; 6; 0]).
Proof. do 2 eexists. split; vm_compute; reflexivity. Qed.

(* near miss: the first two octets (00 01) of the 128 bit service uuid of cfg_basic3 are not its uuid: Attribute Not
   Found, and the monitor rejects that service as an answer *)
Example C03_slice_of_128bit_uuid_is_no_match :
  (exists s1, att_input cfg_basic3 (srv_init cfg_basic3) O [6; 1; 0; 255; 255; 0; 40; 0; 1] 64 = Some (s1, [1; 6; 1; 0; 10]))
  /\ c03_monitor cfg_basic3 [(OpIn O [6; 1; 0; 255; 255; 0; 40; 0; 1] 64, OBytes [7; 9; 0; 15; 0])] = Some (O, ct_group_uuid).
Proof. split; [eexists; vm_compute; reflexivity|vm_compute; reflexivity]. Qed.

Example C03_discover_all_cfg_secondary :
  discover_all 6 (rbg_responder cfg_secondary 23) 1 65535 = [4; 10]
  /\ discover_all 8 (rbg_responder cfg_disc_sec_mix 23) 1 65535 = [7; 24; 31].
Proof. split; vm_compute; reflexivity. Qed.

(* the monitor is not trivially accepting: the responses of the unrepaired code are rejected *)
Example C03_monitor_rejects_secondary_service :
  c03_monitor cfg_secondary [(OpIn O [16; 1; 0; 255; 255; 0; 40] 23, OBytes [17; 6; 1; 0; 3; 0; 32; 24; 4; 0; 6; 0; 33; 24])]
  = Some (O, ct_primary_only)
  /\ c03_monitor cfg_secondary [(OpIn O [6; 1; 0; 255; 255; 0; 40; 32; 24] 23, OBytes [7; 1; 0; 3; 0])] = Some (O, ct_primary_only).
Proof. split; vm_compute; reflexivity. Qed.

Example C03_monitor_rejects_wrong_range_and_missing_service :
  c03_monitor cfg_secondary [(OpIn O [16; 1; 0; 255; 255; 0; 40] 23, OBytes [17; 6; 4; 0; 5; 0; 33; 24])] = Some (O, ct_group_range)
  /\ c03_monitor cfg_secondary [(OpIn O [16; 1; 0; 255; 255; 0; 40] 23, OBytes [1; 16; 1; 0; 10])] = Some (O, ct_exact)
  /\ c03_monitor cfg_secondary [(OpIn O [16; 1; 0; 5; 0; 0; 40] 23, OBytes [17; 20; 10; 0; 12; 0; 1; 2; 199; 91; 237; 78; 138; 162; 159; 73; 226; 13; 148; 64; 139; 140])]
     = Some (O, ct_exact)
  /\ c03_monitor cfg_secondary [(OpIn O [16; 1; 0; 255; 255; 0; 40] 23, OBytes [17; 6; 4; 0; 6; 0; 34; 24])] = Some (O, ct_group_uuid).
Proof. repeat split; vm_compute; reflexivity. Qed.

(* a session that skips the service at 10..12 is rejected when it ends *)
Example C03_monitor_session :
  c03_monitor cfg_secondary
    [(OpIn O [16; 1; 0; 255; 255; 0; 40] 23, OBytes [17; 6; 4; 0; 6; 0; 33; 24]);
     (OpIn O [16; 7; 0; 255; 255; 0; 40] 23, OBytes [17; 20; 10; 0; 12; 0; 1; 2; 199; 91; 237; 78; 138; 162; 159; 73; 226; 13; 148; 64; 139; 140]);
     (OpIn O [16; 13; 0; 255; 255; 0; 40] 23, OBytes [1; 16; 13; 0; 10])] = None
  /\ c03_monitor cfg_secondary
    [(OpIn O [16; 1; 0; 255; 255; 0; 40] 23, OBytes [17; 6; 4; 0; 6; 0; 33; 24]);
     (OpIn O [16; 7; 0; 255; 255; 0; 40] 23, OBytes [1; 16; 7; 0; 10])] = Some (1%nat, ct_exact).
Proof. split; vm_compute; reflexivity. Qed.

(* constants of the model are the ones of codes.hpp *)
From BT Require gen.GenAttSrv.
Example C03_constants_are_the_codes :
  GenAttSrv.opcode_read_by_group_type_request = 16 /\ GenAttSrv.opcode_find_by_type_value_request = 6
  /\ GenAttSrv.att_error_attribute_not_found = err_attribute_not_found /\ GenAttSrv.att_error_invalid_handle = err_invalid_handle.
Proof. repeat split; reflexivity. Qed.
