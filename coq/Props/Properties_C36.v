(* C36  Pairing method selection matches the IO capability mapping.
   Statements only; proofs live in SMSelect/SMSelectProofs.v.

   Model: SMSelect/SMSelectModel.v (io_capabilities.hpp, oob_authentication.hpp and the pairing
   request handlers of the legacy, LESC-only and combined security manager). Oracle and monitor:
   SMSelect/SMSelectSpec.v (Core Vol 3 Part H 2.3.2 Table 2.5, 2.3.5.1 Tables 2.6 / 2.7 / 2.8,
   applied to the fields of the Pairing Request and of the Pairing Response actually sent).

   Bounds: IO capability byte and OOB flag byte < 256 (op_bounded); the AuthReq byte is any N (only
   bits 2 = MITM and 3 = SC are looked at); all 3 x 3 x 2 x 2 = 36 configurations (manager variant,
   input option, output option, require_man_in_the_middle_protection); local OOB data present or not;
   traces of any length (the manager keeps oob_data_present_ between requests). *)
From Coq Require Import NArith List Bool String.
Import ListNotations.
From BT Require Import SMSelect.SMSelectModel SMSelect.SMSelectSpec SMSelect.SMSelectProofs.
Local Open Scope N_scope.

(* The property as stated: for every configuration and every sequence of Pairing Requests the monitor
   accepts the model's trace, i.e. for each request
     - reserved IO capability / OOB flag values are answered with Pairing Failed (Invalid Parameters),
     - a valid request is served (a LESC-only manager may refuse a request without SC),
     - the advertised IO capability is Table 2.5 of the configured input / output options,
     - LE Secure Connections is used iff both sides set SC,
     - the method stored for the connection is the one Tables 2.6 / 2.7 / 2.8 give for the two PDUs
       (OOB first, then "no MITM on either side -> Just Works", then the IO capability mapping),
       including which side displays and which side inputs the passkey. *)
Definition C36_full : Prop :=
  forall (c : cfg) (ops : list op), Forall op_bounded ops -> monitor c (run c (init c) ops) = None.

(* It is FALSE of the faithful model (known finding C36-mitm-flag-ignored): auth_req is an unused
   parameter of legacy_/lesc_select_pairing_algorithm. Witness: legacy manager with pairing_keyboard
   and no output, no MITM option; request IO = DisplayOnly, OOB = 0, AuthReq = 0: Just Works
   required, passkey entry (input) selected. *)
Theorem C36_mitm_refuted : ~ C36_full.
Proof. exact full_statement_refuted. Qed.
Print Assumptions C36_mitm_refuted.

Example C36_mitm_witness :
  monitor (mkcfg VLegacy InKeyboard OutNone false)
          (run (mkcfg VLegacy InKeyboard OutNone false) (init (mkcfg VLegacy InKeyboard OutNone false)) [Req 0 0 0 false])
  = Some (0%nat, t_mitm_rule).
Proof. vm_compute. reflexivity. Qed.

(* What holds: every clause, on every trace whose requests all lie outside the two classes of
   deviating cells:
     (A) no_mitm_cell         neither the request nor the configuration sets MITM
     (B) lesc_local_oob_cell  combined manager, SC request without OOB flag, local OOB data present
                              (known finding C36-lesc-oob-not-advertised)
   In particular the OOB rules hold on all cells outside (B) whatever the MITM bits are (next
   theorem), and the IO table holds wherever a side sets MITM.
   Missing for the full statement: the cells of (A) whose Table 2.8 entry is not Just Works, and (B). *)
Theorem C36_partial :
  forall (c : cfg) (ops : list op),
    Forall op_bounded ops ->
    Forall (fun o => no_mitm_cell c o = false /\ lesc_local_oob_cell c o = false) ops ->
    monitor c (run c (init c) ops) = None.
Proof. exact monitor_accepts_model_partial. Qed.
Print Assumptions C36_partial.

(* The deviation in (A) is exactly the missing MITM check: against the oracle with the rule
   "neither side sets MITM -> Just Works" removed (OOB rules, Table 2.8, Table 2.5, SC rule, reserved
   values unchanged) the model is accepted on all cells outside (B), whatever the MITM bits are. *)
Theorem C36_only_the_mitm_check_is_missing :
  forall (c : cfg) (ops : list op),
    Forall op_bounded ops ->
    Forall (fun o => lesc_local_oob_cell c o = false) ops ->
    monitor_gen false c (run c (init c) ops) = None.
Proof. exact monitor_without_mitm_rule_accepts_model. Qed.
Print Assumptions C36_only_the_mitm_check_is_missing.

(* (B) is a deviation of its own: excluding the no-MITM cells alone does not make the statement true.
   Witness: combined manager with MITM option, request NoInputNoOutput, OOB = 0, AuthReq = SC, local
   OOB data present: the response says OOB flag 0, so neither side has OOB data for the initiator,
   yet OOB is stored as the method. *)
Definition C36_mitm_cells_only : Prop :=
  forall (c : cfg) (ops : list op), Forall op_bounded ops ->
    Forall (fun o => no_mitm_cell c o = false) ops -> monitor c (run c (init c) ops) = None.
Theorem C36_lesc_oob_refuted : ~ C36_mitm_cells_only.
Proof. exact mitm_cells_only_statement_refuted. Qed.
Print Assumptions C36_lesc_oob_refuted.

(* The tables on their own. Table 2.5: advertised IO capability of the six option pairs. *)
Theorem C36_local_io_capability :
  forall (i : input_cap) (o : output_cap), get_io_capabilities o i = byte_of_core_io (core_io_cap i o).
Proof. exact local_io_capability_is_table_2_5. Qed.
Print Assumptions C36_local_io_capability.

(* Table 2.8: io_capabilities_matrix::select_legacy_/select_lesc_pairing_algorithm for the six option
   pairs and the five non-reserved remote IO capabilities, in the responder's vocabulary. *)
Theorem C36_io_matrix_is_core_table :
  forall (i : input_cap) (o : output_cap) (io : N) (init_io : core_io),
    io < 256 -> core_io_of_byte io = Some init_io ->
    rm_of_legacy (select_legacy o i io) = responder_view (table_2_8 false init_io (core_io_cap i o)) /\
    rm_of_lesc (select_lesc o i io) = responder_view (table_2_8 true init_io (core_io_cap i o)).
Proof. exact io_matrix_is_table_2_8. Qed.
Print Assumptions C36_io_matrix_is_core_table.

(* Reserved values (IO capability 5..255, OOB flag 2..255) are refused with Invalid Parameters before
   the OOB callback is asked or anything is selected, in every configuration and state. *)
Theorem C36_reserved_values_rejected :
  forall (c : cfg) (s : state) (io oob auth : N) (loc : bool),
    io < 256 -> oob < 256 -> core_io_of_byte io = None \/ 1 < oob ->
    step c s (Req io oob auth loc) = (s, OFail err_invalid_parameters).
Proof. exact reserved_values_rejected. Qed.
Print Assumptions C36_reserved_values_rejected.

(* ---- non-vacuity ---- *)
(* the hypotheses of C36_partial are met by non-trivial traces: MITM requested by the central ... *)
Example C36_partial_nonvacuous_request_mitm :
  let c := mkcfg VLegacy InKeyboard OutNumeric false in
  let ops := [Req 2 0 4 false; Req 0 1 5 true; Req 4 0 13 false] in
  Forall op_bounded ops /\ Forall (fun o => no_mitm_cell c o = false /\ lesc_local_oob_cell c o = false) ops /\
  map snd (run c (init c) ops) = [OLegacy LPasskeyDisplay 4 0 0; OLegacy LOob 4 1 0; OLegacy LPasskeyInput 4 0 0].
Proof. vm_compute. repeat split; repeat constructor. Qed.

(* ... or required by the peripheral's configuration (numeric comparison reached) *)
Example C36_partial_nonvacuous_local_mitm :
  let c := mkcfg VCombined InYesNo OutNumeric true in
  let ops := [Req 1 0 8 false; Req 4 0 0 false; Req 1 1 8 true] in
  Forall op_bounded ops /\ Forall (fun o => no_mitm_cell c o = false /\ lesc_local_oob_cell c o = false) ops /\
  map snd (run c (init c) ops) = [OLesc SNumeric 1 0 12; OLegacy LPasskeyDisplay 1 0 12; OLesc SOob 1 0 12].
Proof. vm_compute. repeat split; repeat constructor. Qed.

(* the monitor is not trivially accepting: it rejects two swapped cells of the matrix ... *)
Example C36_monitor_rejects_wrong_table_entry :
  monitor (mkcfg VLegacy InKeyboard OutNumeric true) [(Req 2 0 0 false, OLegacy LPasskeyInput 4 0 4)]
  = Some (0%nat, t_io_table).
Proof. vm_compute. reflexivity. Qed.

(* ... OOB chosen although only the peripheral has OOB data (legacy needs both) ... *)
Example C36_monitor_rejects_one_sided_legacy_oob :
  monitor (mkcfg VLegacy InNone OutNone true) [(Req 3 0 0 true, OLegacy LOob 3 1 4)] = Some (0%nat, t_oob_rule).
Proof. vm_compute. reflexivity. Qed.

(* ... OOB not chosen in legacy pairing although both sides announce OOB data ... *)
Example C36_monitor_rejects_missed_legacy_oob :
  monitor (mkcfg VLegacy InNone OutNone true) [(Req 3 1 0 true, OLegacy LJustWorks 3 1 4)] = Some (0%nat, t_oob_rule).
Proof. vm_compute. reflexivity. Qed.

(* ... the combined manager's behaviour before fix/C36-combined-legacy-oob-flag (OOB used for legacy
   pairing while the response says "no OOB data") ... *)
Example C36_monitor_rejects_unadvertised_legacy_oob :
  monitor (mkcfg VCombined InNone OutNone true) [(Req 3 1 0 true, OLegacy LOob 3 0 12)] = Some (0%nat, t_oob_rule).
Proof. vm_compute. reflexivity. Qed.

(* ... a wrong advertised IO capability, an accepted reserved value, a wrong pairing kind, a refused
   valid request *)
Example C36_monitor_rejects_wrong_local_io :
  monitor (mkcfg VLegacy InKeyboard OutNumeric true) [(Req 3 0 0 false, OLegacy LJustWorks 2 0 4)] = Some (0%nat, t_local_io).
Proof. vm_compute. reflexivity. Qed.
Example C36_monitor_rejects_accepted_reserved_value :
  monitor (mkcfg VLegacy InNone OutNone false) [(Req 5 0 0 false, OLegacy LJustWorks 3 0 0)] = Some (0%nat, t_invalid_accepted).
Proof. vm_compute. reflexivity. Qed.
Example C36_monitor_rejects_wrong_kind :
  monitor (mkcfg VCombined InNone OutNone false) [(Req 3 0 8 false, OLegacy LJustWorks 3 0 8)] = Some (0%nat, t_kind).
Proof. vm_compute. reflexivity. Qed.
Example C36_monitor_rejects_refusal :
  monitor (mkcfg VCombined InNone OutNone false) [(Req 3 0 0 false, OFail 5)] = Some (0%nat, t_rejected).
Proof. vm_compute. reflexivity. Qed.

(* the 36 configurations the sweeps run over are all configurations *)
Example C36_all_configurations : List.length all_cfgs = 36%nat /\ forall c, In c all_cfgs.
Proof. split; [reflexivity | exact all_cfgs_complete]. Qed.

(* constants regenerated from the sources on every run: the model's enum values are the code's, and
   they are the values the Core specification assigns (3.5.1 IO capability, AuthReq bits, 3.5.5) *)
From BT Require gen.GenSMSelect.
Example C36_constants_are_the_codes :
  GenSMSelect.io_display_only = io_display_only /\ GenSMSelect.io_display_yes_no = io_display_yes_no /\
  GenSMSelect.io_keyboard_only = io_keyboard_only /\ GenSMSelect.io_no_input_no_output = io_no_input_no_output /\
  GenSMSelect.io_keyboard_display = io_keyboard_display /\ GenSMSelect.io_last = io_last /\
  GenSMSelect.flag_bonding = flag_bonding /\ GenSMSelect.flag_mitm = flag_mitm /\
  GenSMSelect.flag_secure_connections = flag_secure_connections /\ GenSMSelect.flag_keypress = flag_keypress /\
  GenSMSelect.err_invalid_parameters = err_invalid_parameters /\
  GenSMSelect.err_pairing_not_supported = err_pairing_not_supported.
Proof. repeat split; reflexivity. Qed.

Example C36_constants_are_the_specs :
  map byte_of_core_io [DisplayOnly; DisplayYesNo; KeyboardOnly; NoInputNoOutput; KeyboardDisplay]
    = [GenSMSelect.io_display_only; GenSMSelect.io_display_yes_no; GenSMSelect.io_keyboard_only;
       GenSMSelect.io_no_input_no_output; GenSMSelect.io_keyboard_display] /\
  GenSMSelect.flag_mitm = 4 /\ GenSMSelect.flag_secure_connections = 8 /\ GenSMSelect.err_invalid_parameters = 10 /\
  GenSMSelect.opcode_pairing_request = 1 /\ GenSMSelect.opcode_pairing_response = 2 /\ GenSMSelect.opcode_pairing_failed = 5 /\
  GenSMSelect.pairing_req_resp_size = 7 /\ GenSMSelect.min_max_key_size = 7 /\ GenSMSelect.max_max_key_size = 16.
Proof. repeat split; reflexivity. Qed.

(* order of the two algorithm enums (the harness prints them by name, the driver parses the names) *)
Example C36_algorithm_enums :
  GenSMSelect.legacy_pairing_algorithm_names
    = ["just_works"; "oob_authentication"; "passkey_entry_display"; "passkey_entry_input"]%string /\
  GenSMSelect.lesc_pairing_algorithm_names
    = ["just_works"; "oob_authentication"; "passkey_entry_display"; "passkey_entry_input"; "numeric_comparison"]%string.
Proof. split; reflexivity. Qed.
