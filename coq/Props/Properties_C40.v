(* C40  Cycling speed control point never deadlocks.  Statements only; proofs in Csc/CscProofs.v. *)
From BT Require Import Base.ListX Csc.CscModel Csc.CscSpec Csc.CscProofs.
Local Open Scope N_scope.

(* The full statement, for every service configuration and every sequence of CCCD writes, control
   point writes (request / command, any bytes), reads, application confirmations, l2cap_output polls,
   confirmations and disconnects:  the specification monitor accepts the trace, i.e.
   0xFE only while an accepted procedure awaits its response, well-formed requests are accepted when
   idle and subscribed, every accepted procedure gets exactly one response carrying its opcode. *)
Definition C40_never_deadlocks_full : Prop := never_deadlocks_full.

(* It is FALSE of the code as it is (after the fix of the malformed-request deadlock): *)
Theorem C40_never_deadlocks_refuted : ~ C40_never_deadlocks_full.
Proof. exact never_deadlocks_refuted. Qed.
Print Assumptions C40_never_deadlocks_refuted.

(* ... with these three witnesses (each replayed on the implementation: corpus/C40, known findings) *)
Theorem C40_deadlock_after_disconnect :
  monitor (run cfgA (init cfgA) [Cccd 2; Write [4]; Disc; Cccd 2; Write [4]]) = Some (4%nat, t_busy_idle).
Proof. exact deadlock_after_disconnect. Qed.
(* the same defect observed through a Write Command (its 0xFE is invisible): the silently refused
   procedure never gets a response *)
Theorem C40_deadlock_after_disconnect_seen_by_write_command :
  monitor (run cfgA (init cfgA) [Cccd 2; Write [5]; Disc; Cccd 2; WriteCmd [0]; Out 7]) = Some (5%nat, t_response_missing).
Proof. exact deadlock_after_disconnect_write_command. Qed.
Theorem C40_deadlock_after_unsubscribe :
  monitor (run cfgA (init cfgA) [Cccd 2; Write [4]; Cccd 0; Out 23; Cccd 2; Write [4]]) = Some (5%nat, t_busy_idle).
Proof. exact deadlock_after_unsubscribe. Qed.
Theorem C40_read_resets_procedure :
  monitor (run cfgA (init cfgA) [Cccd 2; Write [4]; Read; Write [4]]) = Some (3%nat, t_accepted_busy).
Proof. exact read_resets_procedure. Qed.
(* the same defect observed through a Write Command: the response then names the wrong procedure *)
Theorem C40_read_resets_procedure_seen_by_write_command :
  monitor (run cfgA (init cfgA) [Cccd 2; Write [3; 1]; Read; WriteCmd [255]; Out 64]) = Some (4%nat, t_response_opcode).
Proof. exact read_resets_procedure_write_command. Qed.
(* fixed with C11's defect (/repo f69efba): an indication dequeued while the client is not
   subscribed no longer stays outstanding, so it does not block the response of a later procedure *)
Theorem C40_unsent_indication_no_longer_blocks_response :
  monitor (run cfgA (init cfgA) [Confirm; Out 23; Cccd 2; Write [4]; Out 23]) = None.
Proof. exact unsent_indication_no_longer_blocks. Qed.

(* What does hold, for every configuration and every operation sequence of any length: inside the
   environment env_run (l2cap_output gets >= 6 bytes; no disconnect, unsubscribe or Read Request
   while a procedure awaits its response; the application confirms only pending Set Cumulative Value
   procedures) the monitor accepts - in particular malformed and rejected writes (any bytes, any
   length) never block later procedures. What is missing w.r.t. the full statement is exactly the
   environment hypothesis. *)
Theorem C40_never_deadlocks_partial :
  forall (c : cfg) (ops : list op),
    env_run c (init c) ops = true -> monitor (run c (init c) ops) = None.
Proof. exact monitor_accepts_in_environment. Qed.
Print Assumptions C40_never_deadlocks_partial.

(* non-vacuity: an environment-respecting history with malformed requests, a complete
   Set Cumulative Value procedure and a sensor location update *)
Example C40_env_nonvacuous :
  env_run cfgA (init cfgA)
    [Cccd 2; Write [1; 1]; Write [4]; Write [3; 3]; Out 23; Hvc; Write [1; 4; 3; 2; 1]; Write [4];
     Confirm; Out 23; Hvc; Write [3; 2]; Out 23; Hvc; Write []; WriteCmd [4]; Out 64; Disc; Cccd 2; Write [7]] = true.
Proof. vm_compute. reflexivity. Qed.

(* the monitor is not trivially accepting: it rejects the pre-fix behaviour (0xFE after a malformed
   request) and a response with the wrong opcode *)
Example C40_monitor_rejects_malformed_deadlock :
  monitor [(Cccd 2, OOk); (Write [1; 1], OErr 4); (Write [4], OErr 254)] = Some (2%nat, t_busy_idle).
Proof. vm_compute. reflexivity. Qed.
Example C40_monitor_rejects_wrong_response :
  monitor [(Cccd 2, OOk); (Write [4], OOk); (Out 23, OInd [16; 3; 1])] = Some (2%nat, t_response_opcode).
Proof. vm_compute. reflexivity. Qed.

(* constants regenerated from csc.hpp / codes.hpp on every run *)
From BT Require gen.GenCsc.
Example C40_constants_are_the_codes :
  GenCsc.set_cumulative_value_opcode = 1 /\ GenCsc.update_sensor_location_opcode = 3 /\
  GenCsc.request_supported_sensor_locations_opcode = 4 /\ GenCsc.response_code_opcode = 16 /\
  GenCsc.rc_success = 1 /\ GenCsc.rc_op_code_not_supported = 2 /\ GenCsc.rc_invalid_parameter = 3 /\
  GenCsc.err_procedure_already_in_progress = 254 /\ GenCsc.err_cccd_improperly_configured = 253.
Proof. repeat split; reflexivity. Qed.
