(* C20  Data channel selection follows Channel Selection Algorithm #1.
   Statements only; proofs live in ChanMap/ChanMapProofs.v.
   A channel map is a list of 5 octets (bit c of the field = bit c mod 8 of octet c / 8); all
   statements are for EVERY such list, every hop and every event number: nothing is enumerated. *)
From BT Require Import Base.ListX ChanMap.ChanMapModel ChanMap.ChanMapSpec ChanMap.ChanMapProofs.
From Coq Require Import Sorted.

(* For every map with at least two used channels among 0..36 (bits 37..39 do not count), every
   hop increment 5..16, every state the object can be in and EVERY event number k (no bound):
   reset( map, hop ) returns true and data_channel( k mod 37 ) is the channel that Core 4.5.8.2
   (recurrence from lastUnmappedChannel = 0, remapping into the ascending used list) gives for
   the k-th connection event of the connection. *)
Theorem C20_data_channel_is_csa1 :
  forall (s : state) (map : list N) (hop : N) (k : nat),
    wf_state s -> length map = 5 -> hop_ok hop -> 2 <= num_used map ->
    let '(s', r) := step s (Reset map hop) in
    r = OBool true /\ wf_state s' /\
    snd (step s' (Chan (k mod 37))) = OChan (N.of_nat (csa1 map (N.to_nat hop) k)).
Proof. exact data_channel_is_csa1. Qed.
Print Assumptions C20_data_channel_is_csa1.

(* the same for a channel map update, reset( map ), which keeps the stored hop *)
Theorem C20_channel_map_update_is_csa1 :
  forall (s : state) (map : list N) (k : nat),
    wf_state s -> length map = 5 -> hop_ok (hop_ s) -> 2 <= num_used map ->
    let '(s', r) := step s (Remap map) in
    r = OBool true /\ wf_state s' /\ hop_ s' = hop_ s /\
    snd (step s' (Chan (k mod 37))) = OChan (N.of_nat (csa1 map (N.to_nat (hop_ s)) k)).
Proof. exact remap_is_csa1. Qed.
Print Assumptions C20_channel_map_update_is_csa1.

(* a hop outside 5..16 or fewer than two used channels: reset returns false and every table entry
   stays what it was *)
Theorem C20_invalid_reset_not_applied :
  forall (s : state) (map : list N) (hop : N),
    wf_state s -> length map = 5 -> ~ hop_ok hop \/ num_used map < 2 ->
    let '(s', r) := step s (Reset map hop) in
    r = OBool false /\ tbl s' = tbl s /\ wf_state s' /\
    forall i, snd (step s' (Chan i)) = snd (step s (Chan i)).
Proof. exact reset_rejected_unchanged. Qed.
Print Assumptions C20_invalid_reset_not_applied.

Theorem C20_invalid_channel_map_update_not_applied :
  forall (s : state) (map : list N),
    wf_state s -> length map = 5 -> ~ hop_ok (hop_ s) \/ num_used map < 2 ->
    fst (step s (Remap map)) = s /\ snd (step s (Remap map)) = OBool false.
Proof. exact remap_rejected_unchanged. Qed.
Print Assumptions C20_invalid_channel_map_update_not_applied.

(* the reserved bits 37..39 of the map are ignored *)
Theorem C20_high_bits_ignored :
  forall (s : state) (m1 m2 : list N) (hop : N),
    wf_state s -> length m1 = 5 -> length m2 = 5 ->
    (forall c, c < 37 -> used_bit m1 c = used_bit m2 c) ->
    step s (Reset m1 hop) = step s (Reset m2 hop).
Proof. exact high_bits_ignored. Qed.
Print Assumptions C20_high_bits_ignored.

(* every run of the model (any number of reset / reset(map) / data_channel / dump operations over
   any 5-octet maps and any hops) is accepted by the monitor, i.e. satisfies all its clauses:
   reset_result, csa1, not_applied, fault *)
Theorem C20_monitor_accepts_model :
  forall ops : list op, Forall wf_op ops -> monitor (run init ops) = None.
Proof. exact monitor_accepts_model. Qed.
Print Assumptions C20_monitor_accepts_model.

(* memory safety of the model's accesses: no read past the 5 octets of the map, no read of an
   unwritten used_channels[] entry, no access past used_channels[ 37 ] / map_[ 37 ], as long as
   data_channel() is called with an index < 37 *)
Theorem C20_no_fault :
  forall (ops : list op) (s : state),
    wf_state s -> Forall wf_op ops -> Forall in_range_op ops ->
    wf_state (final s ops) /\ Forall (fun x => snd x <> OFault /\ snd x <> OSkipped) (run s ops).
Proof. exact model_never_faults. Qed.
Print Assumptions C20_no_fault.

(* the specification itself: the unmapped channel sequence has period 37, and for a hop that is
   not a multiple of 37 (37 is prime) exactly 37: two events get the same unmapped channel iff
   their numbers agree modulo 37. This is why a 37 entry table indexed by
   (elapsed events) mod 37 is enough. *)
Theorem C20_unmapped_period_37 :
  forall hop j k : nat,
    unmapped hop (k + 37) = unmapped hop k /\ unmapped hop (k mod 37) = unmapped hop k /\
    (0 < hop < 37 -> (unmapped hop j = unmapped hop k <-> j mod 37 = k mod 37)).
Proof.
  intros hop j k. split; [exact (unmapped_plus_37 hop k)|]. split; [exact (unmapped_period hop k)|].
  exact (unmapped_eq_iff hop j k).
Qed.
Print Assumptions C20_unmapped_period_37.

(* the spec's used list is "the used channels in ascending order", and CSA#1 always selects a used
   data channel *)
Theorem C20_used_list_characterised :
  forall map : list N,
    StronglySorted lt (used_list map) /\
    (forall c, In c (used_list map) <-> c < 37 /\ used_bit map c = true).
Proof. intros map. split; [exact (used_list_sorted map)|exact (used_list_In map)]. Qed.
Print Assumptions C20_used_list_characterised.

Theorem C20_csa1_selects_used_channel :
  forall (map : list N) (hop k : nat),
    1 <= num_used map -> csa1 map hop k < 37 /\ used_bit map (csa1 map hop k) = true.
Proof. exact csa1_used. Qed.
Print Assumptions C20_csa1_selects_used_channel.

(* ---- the link layer's use (transcribed decisions of link_layer.hpp / peripheral_latency.hpp;
        tied only textually by the translator lints, the behavioural tie belongs to component LL) ---- *)

(* whatever sequence of CONNECT_IND / LL_CHANNEL_MAP_IND / planned events / disconnects happens:
   while a connection exists the channel handed to the radio is the CSA#1 channel for the map and
   hop in force and the number of connection events elapsed since the connection was created *)
Theorem C20_ll_channel_is_csa1 :
  forall (ops : list ll_op) (g : ghost),
    Forall ll_wf_op ops -> ghost_run None ops = Some g ->
    ll_data_channel (ll_run ll_init ops) = N.of_nat (csa1 (g_map g) (g_hop g) (g_elapsed g)).
Proof. exact ll_channel_is_csa1. Qed.
Print Assumptions C20_ll_channel_is_csa1.

Theorem C20_ll_connect_ind_invalid_ignored :
  forall (l : ll) (map : list N) (b33 : N) (tok : bool),
    wf_state (chan l) -> phase l = Advertising -> length map = 5 ->
    valid_hop (N.land b33 31) && valid_map map = false ->
    let l' := ll_step l (ConnectInd map b33 tok) in
    phase l' = Advertising /\ tbl (chan l') = tbl (chan l) /\ channel_index l' = channel_index l.
Proof. exact ll_connect_ind_invalid_ignored. Qed.
Print Assumptions C20_ll_connect_ind_invalid_ignored.

Theorem C20_ll_channel_map_ind_invalid_ignored :
  forall (l : ll) (map : list N),
    wf_state (chan l) -> phase l = Connected -> length map = 5 -> valid_map map = false ->
    ll_step l (ChannelMapInd map) = l.
Proof. exact ll_channel_map_ind_invalid_ignored. Qed.
Print Assumptions C20_ll_channel_map_ind_invalid_ignored.

(* ---- non-vacuity and sanity ---- *)
Definition few : list N := [0x17; 0x44; 0x00; 0xff; 0x05]%N.   (* tests/link_layer/channel_map_tests.cpp a_few_channels_map *)

(* the hypotheses are satisfiable: 16 used channels, the initial state is well formed *)
Example C20_hypotheses_satisfiable :
  wf_state init /\ length few = 5 /\ hop_ok 7 /\ num_used few = 16 /\
  used_list few = [0; 1; 2; 4; 10; 14; 24; 25; 26; 27; 28; 29; 30; 31; 32; 34].
Proof. split; [exact init_wf|]. split; [reflexivity|]. split; [unfold hop_ok; lia|]. split; vm_compute; reflexivity. Qed.

(* the spec reproduces the sequence that the repository's own unit test (written by hand from the
   Core specification) expects for this map with hop 7, and the model's table is that sequence *)
Example C20_spec_agrees_with_hand_computed_sequence :
  map (csa1 few 7) (seq 0 37) =
  [25; 14; 14; 28; 4; 14; 30; 4; 26; 1; 4; 10; 1; 24; 31; 1; 26; 34; 24; 29; 10; 24; 31; 10; 27; 34; 4; 29;
   2; 25; 32; 2; 27; 0; 25; 30; 0]
  /\ snd (step (fst (step init (Reset few 7))) Dump) = OTable (map N.of_nat (map (csa1 few 7) (seq 0 37)))
  /\ csa1 few 7 4999 = csa1 few 7 (4999 mod 37).
Proof. split; [vm_compute; reflexivity|]. split; [vm_compute; reflexivity|]. symmetry. apply csa1_period. Qed.

(* the monitor is not trivially accepting *)
Definition allch : list N := [0xff; 0xff; 0xff; 0xff; 0x1f]%N.
Example C20_monitor_rejects_hop_17_accepted :
  monitor [(Reset allch 17, OBool true)] = Some (0, t_reset_result).
Proof. vm_compute. reflexivity. Qed.

Example C20_monitor_rejects_single_channel_map_accepted :
  monitor [(Reset [0; 4; 0; 0; 0x60]%N 5, OBool true)] = Some (0, t_reset_result).
Proof. vm_compute. reflexivity. Qed.

Example C20_monitor_rejects_wrong_channel :
  monitor [(Reset few 7, OBool true); (Chan 0, OChan 7)] = Some (1, t_csa1)
  /\ monitor [(Reset few 7, OBool true); (Chan 0, OChan 25); (Chan 2, OChan 14); (Chan 33, OChan 0)] = None.
Proof. split; vm_compute; reflexivity. Qed.

Example C20_monitor_rejects_table_changed_by_rejected_request :
  monitor [(Reset few 7, OBool true); (Reset allch 4, OBool false); (Chan 0, OChan 4)] = Some (2, t_not_applied)
  /\ monitor [(Chan 3, OChan 255); (Reset allch 0, OBool false); (Chan 3, OChan 0)] = Some (2, t_not_applied).
Proof. split; vm_compute; reflexivity. Qed.

Example C20_monitor_rejects_fault :
  monitor [(Reset few 7, OFault)] = Some (0, t_fault).
Proof. vm_compute. reflexivity. Qed.

(* a rejected connect request and a rejected channel map indication in the link layer model *)
Example C20_ll_example :
  let ops := [ConnectInd [1; 0; 0; 0; 0]%N 7 true;          (* one used channel: ignored *)
              ConnectInd few (0xa0 + 7) true;                (* accepted, hop 7, SCA bits ignored *)
              Advance 1; Advance 40;
              ChannelMapInd [0; 0; 0; 0; 0xe0]%N;            (* only reserved bits: not applied *)
              Advance 3] in
  ghost_run None ops = Some (mkg few 7 44) /\ ll_data_channel (ll_run ll_init ops) = 4%N.
Proof. vm_compute. split; reflexivity. Qed.

(* constants regenerated from channel_map.hpp / channel_map.cpp / link_layer.hpp on every run *)
From BT Require gen.GenChanMap.
Example C20_constants_are_the_codes :
  GenChanMap.max_number_of_data_channels = max_number_of_data_channels /\
  GenChanMap.max_number_of_data_channels = 37 /\
  (forall hop, valid_hop hop = ((GenChanMap.hop_min <=? hop) && (hop <=? GenChanMap.hop_max))%N) /\
  (forall map, valid_map map = (GenChanMap.min_used_channels <=? num_used map)) /\
  GenChanMap.connect_ind_hop_mask = 31%N /\
  GenChanMap.connect_ind_map_offset = 28 /\ GenChanMap.connect_ind_hop_offset = 33.
Proof. repeat split; reflexivity. Qed.
