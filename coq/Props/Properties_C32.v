(* C32  Pairing messages are only accepted in protocol order.  Statements only; proofs in SM/SMProofs.v.

   monitor32 (SM/SMSpec.v) follows the pairing protocol of the Core specification from operations and
   outputs only: a step is accepted (answered with the next protocol PDU) only if it is the step that is
   due - legacy: request, confirm, random; LESC: request, public key, (our confirm is polled), random,
   DHKey check - has the right length and valid parameters, and its check value verifies (c1 confirm,
   f6 DHKey check); a due and valid step must not be rejected; everything else is answered with Pairing
   Failed, after which the next step due is a Pairing Request again; the revealed random values are the
   ones committed to by the confirm values sent before; Eb leaves the device only after the received Ea
   verified and - with numeric comparison - the user said yes.

   All statements are for EVERY tool box K (c1, s1, f4, f5, f6, g2, p256, is_valid_public_key, random
   sources, OOB data) satisfying tool_box_ok (p256 of the tool box's own key pairs is the DH function
   on public keys; generated passkeys are 32-bit numbers), every bond data base, and operation sequences
   of any length: SMP PDUs of any bytes, output polls, user answers, passkey entries, encryption
   changes, key requests, status queries, reconnects. *)
From BT Require Import Base.ListX SM.SMModel SM.SMSpec SM.SMProofs SM.ToyCrypto.
Local Open Scope N_scope.

(* The full statement: for every configuration that compiles, the monitor accepts every trace. *)
Definition C32_order_full : Prop := order_full.

(* It is FALSE of the code as it is ... *)
Theorem C32_order_refuted : ~ C32_order_full.
Proof. exact order_refuted. Qed.
Print Assumptions C32_order_refuted.

(* ... with these witnesses, LESC numeric comparison (yes/no input and a display), replayed on the
   real classes (corpus/C32/witnesses.trace, known findings C32-eb-before-ea, C32-eb-bad-ea,
   C32-late-user-response-assert): *)
Theorem C32_eb_sent_before_ea_received :
  toy_monitor32 (cfg_numeric MLesc SyncYes) w_eb_before_ea = Some (4%nat, t_eb_before_ea).
Proof. exact eb_before_ea_witness. Qed.
Theorem C32_eb_sent_after_wrong_ea :
  toy_monitor32 (cfg_numeric MBoth Async) w_eb_bad_ea = Some (6%nat, t_eb_bad_ea).
Proof. exact eb_bad_ea_witness. Qed.
Theorem C32_key_offered_after_wrong_ea :
  exists k, nth 7 (map snd (run toy toydbops (cfg_numeric MBoth Async) (init_state ([] : toydb)) w_eb_bad_ea)) ODone = OKey (Some k).
Proof. exact eb_bad_ea_key_offered. Qed.
Theorem C32_late_user_answer_asserts :
  toy_monitor32 (cfg_numeric MLesc Async) w_late_answer = Some (5%nat, t_fault).
Proof. exact late_answer_witness. Qed.

(* What does hold. (1) For every configuration that cannot ask the user to compare numbers (anything
   but pairing_yes_no together with pairing_numeric_output) the monitor accepts every trace: the full
   statement restricted to these configurations. *)
Theorem C32_order_partial :
  forall (K : crypto) (DB : Type) (D : dbops DB), dh_ok K -> passkey_ok K ->
  forall c db0 ops, ~ numeric_cfg c ->
    monitor32 K D c db0 (run K D c (init_state db0) ops) = None.
Proof. exact monitor32_accepts. Qed.
Print Assumptions C32_order_partial.

(* (2) For ALL configurations the only clauses that can fail are the three of the numeric comparison
   defect: Eb sent before an Ea was received, Eb sent although the received Ea is wrong, the assert on a
   late user answer. In particular, in every configuration: order, lengths, parameter validity, the
   legacy confirm check before srand is revealed, the commitment of srand / Nb, the Ea check on the
   l2cap_input path, no Eb without the user's yes, Pairing Failed and back to idle for everything else.
   What is missing w.r.t. the full statement is exactly: Ea is not verified (not even awaited) on the
   path user_response_success -> lesc_l2cap_output. *)
Theorem C32_only_numeric_comparison_clauses_fail :
  forall (K : crypto) (DB : Type) (D : dbops DB), dh_ok K -> passkey_ok K ->
  forall c db0 ops,
    match monitor32 K D c db0 (run K D c (init_state db0) ops) with
    | None => True
    | Some (_, t) => t = t_eb_before_ea \/ t = t_eb_bad_ea \/ t = t_fault
    end.
Proof. exact monitor32_only_known. Qed.
Print Assumptions C32_only_numeric_comparison_clauses_fail.

(* the hypotheses are satisfiable: the toy tool box used for the runs satisfies them *)
Example C32_tool_box_hypotheses_nonvacuous : dh_ok toy /\ passkey_ok toy.
Proof. exact (conj toy_dh_ok toy_passkey_ok). Qed.

(* non-vacuity: complete exchanges (legacy passkey entry with bonding and key distribution; LESC Just Works
   with a verified DHKey check) are accepted ... *)
Example C32_accepts_complete_exchanges :
  toy_monitor32 cfg_keyboard_display w_legacy_passkey = None /\
  toy_monitor32 cfg_both_noio [In [1; 3; 0; 8; 16; 0; 1]; In (12 :: toy_pk); Out; In (4 :: w35_na); In (13 :: w35_ea [3; 0; 8]); Status; Key 0 0] = None.
Proof. split; [exact (proj1 legacy_passkey_accepted) | exact (proj1 lesc_just_works_accepted)]. Qed.
(* ... and the monitor rejects a Pairing Random answered before Pairing Confirm, and a revealed srand
   after a confirm value that does not verify *)
Example C32_monitor_rejects_random_before_confirm :
  monitor_from (mstep32 toy toydbops) cfg_bond_legacy (minit ([] : toydb)) O
    [(In w34_preq, OResp w34_pres []); (In (4 :: zeros 16), OResp (4 :: zeros 16) [])] = Some (1%nat, t_order).
Proof. exact monitor_rejects_random_before_confirm. Qed.
Example C32_monitor_rejects_unverified_confirm :
  monitor_from (mstep32 toy toydbops) cfg_bond_legacy (minit ([] : toydb)) O
    [(In w34_preq, OResp w34_pres []); (In (3 :: zeros 16), OResp (3 :: zeros 16) []); (In (4 :: zeros 16), OResp (4 :: zeros 16) [])]
  = Some (2%nat, t_order).
Proof. exact monitor_rejects_unverified_confirm. Qed.

(* constants regenerated from security_manager.hpp / security_connection_data.hpp on every run *)
From BT Require gen.GenSM.
Example C32_constants_are_the_codes :
  GenSM.op_pairing_request = 1 /\ GenSM.op_pairing_response = 2 /\ GenSM.op_pairing_confirm = 3 /\
  GenSM.op_pairing_random = 4 /\ GenSM.op_pairing_failed = 5 /\ GenSM.op_pairing_public_key = 12 /\
  GenSM.op_pairing_dhkey_check = 13 /\
  GenSM.err_passkey_entry_failed = 1 /\ GenSM.err_confirm_value_failed = 4 /\ GenSM.err_pairing_not_supported = 5 /\
  GenSM.err_command_not_supported = 7 /\ GenSM.err_unspecified_reason = 8 /\ GenSM.err_invalid_parameters = 10 /\
  GenSM.err_dhkey_check_failed = 11 /\
  GenSM.pairing_req_resp_size = 7 /\ GenSM.pairing_confirm_size = 17 /\ GenSM.pairing_random_size = 17 /\
  GenSM.public_key_exchange_size = 65 /\ GenSM.pairing_dhkey_check_size = 17 /\
  GenSM.min_max_key_size = 7 /\ GenSM.max_max_key_size = 16 /\ GenSM.flag_secure_connections = 8 /\
  map pstate_code [Idle; Completed; UserWait; UserFailed; UserSuccess; LegacyRequested; LegacyConfirmed;
                   LescRequested; LescKeysExchanged; LescConfirmSend; LescRandomExchanged]
  = [GenSM.st_idle; GenSM.st_pairing_completed; GenSM.st_user_response_wait; GenSM.st_user_response_failed;
     GenSM.st_user_response_success; GenSM.st_legacy_pairing_requested; GenSM.st_legacy_pairing_confirmed;
     GenSM.st_lesc_pairing_requested; GenSM.st_lesc_public_keys_exchanged; GenSM.st_lesc_pairing_confirm_send;
     GenSM.st_lesc_pairing_random_exchanged].
Proof. repeat split; reflexivity. Qed.
