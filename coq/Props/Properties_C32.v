(* C32  Pairing messages are only accepted in protocol order.  Statements only; proofs in SM/SMProofs.v. *)
From BT Require Import Base.ListX SM.SMModel SM.SMSpec SM.ToyCrypto SM.SMInst.
Local Open Scope N_scope.

Example C32_placeholder : True. Proof. exact I. Qed.
