(* C35  Reported pairing status reflects the authentication actually performed.  Statements only;
   proofs in SM/SMProofs.v.

   monitor35 (SM/SMSpec.v): local_device_pairing_status() and the link's pairing_status() (a snapshot
   taken when encryption changes) must be
     authenticated_key     exactly when the completed exchange authenticated the peer: legacy pairing whose
                           verified confirm used a passkey (typed or displayed) or the OOB data as temporary
                           key; LESC pairing in which the user was asked to compare the numbers and said yes,
     unauthenticated_key   after any other completed exchange (legacy Just Works; LESC without a user
                           confirmation - LESC passkey entry and OOB are not implemented, the exchange
                           performed when they are selected is Just Works with f4( .., 0 )),
     no_key                when no pairing is completed (never, after Pairing Failed, on a new connection). *)
From BT Require Import Base.ListX SM.SMModel SM.SMSpec SM.SMProofs SM.ToyCrypto.
Local Open Scope N_scope.

Definition C35_status_full : Prop := status_full.

(* FALSE both ways (known findings C35-authenticated-without-authentication, C35-lesc-only-never-authenticated) *)
Theorem C35_status_refuted : ~ C35_status_full.
Proof. exact status_refuted. Qed.
Print Assumptions C35_status_refuted.
(* combined manager, no IO at all: the central sets its OOB flag, the Just Works exchange completes, the
   status is authenticated_key *)
Theorem C35_authenticated_without_authentication :
  toy_monitor35 cfg_both_noio w_auth_not_performed = Some (5%nat, t_auth_not_performed) /\
  nth 5 (map snd (run toy toydbops cfg_both_noio (init_state ([] : toydb)) w_auth_not_performed)) ODone
  = OStatus authenticated_key no_key.
Proof. exact (conj auth_not_performed_witness auth_not_performed_status). Qed.
(* LESC-only manager: numeric comparison confirmed by the user and DHKey check verified, status unauthenticated_key *)
Theorem C35_lesc_only_never_authenticated :
  toy_monitor35 (cfg_numeric MLesc SyncYes) w_auth_not_reported = Some (5%nat, t_auth_not_reported).
Proof. exact auth_not_reported_witness. Qed.

(* What does hold, for every tool box, bond data base, configuration and operation sequence of any length:
   the only deviations are (a) the combined manager reporting authenticated_key where unauthenticated_key is
   specified and (b) the LESC-only manager reporting unauthenticated_key where authenticated_key is specified,
   locally or in the link snapshot. In particular "key / no key" is always exact, the combined manager never
   under-reports and the LESC-only manager never over-reports. *)
Theorem C35_status_partial :
  forall (K : crypto) (DB : Type) (D : dbops DB), dh_ok K -> passkey_ok K ->
  forall c db0 ops,
    match monitor35 K D c db0 (run K D c (init_state db0) ops) with
    | None => True
    | Some (_, t) => allowed35 c t
    end.
Proof. exact monitor35_only_known. Qed.
Print Assumptions C35_status_partial.

(* the legacy manager (and the rejecting one) report exactly the specified status *)
Theorem C35_legacy_status_exact :
  forall (K : crypto) (DB : Type) (D : dbops DB), dh_ok K -> passkey_ok K ->
  forall c db0 ops, c_var c = MLegacy \/ c_var c = MNone ->
    monitor35 K D c db0 (run K D c (init_state db0) ops) = None.
Proof. exact monitor35_legacy_exact. Qed.
Print Assumptions C35_legacy_status_exact.

Example C35_accepts_authenticated_passkey_pairing :
  toy_monitor35 cfg_keyboard_display w_legacy_passkey = None.
Proof. exact (proj2 (proj2 (proj2 legacy_passkey_accepted))). Qed.
Example C35_monitor_rejects_authenticated_just_works :
  monitor_from (mstep35 toy toydbops) cfg_bond_legacy (minit ([] : toydb)) O
    [(In w34_preq, OResp w34_pres []); (In (3 :: w34_mconfirm), OResp (3 :: zeros 16) []);
     (In (4 :: zeros 16), OResp (4 :: zeros 16) []); (Status, OStatus authenticated_key no_key)] = Some (3%nat, t_auth_not_performed).
Proof. exact monitor_rejects_authenticated_just_works. Qed.
From BT Require gen.GenSM.
Example C35_constants_are_the_codes :
  GenSM.status_no_key = no_key /\ GenSM.status_unauthenticated_key = unauthenticated_key /\
  GenSM.status_authenticated_key = authenticated_key.
Proof. repeat split; reflexivity. Qed.
