(* C28  A link is encrypted only with a key supplied for it.  (placeholder while the proofs are written) *)
From BT Require Import Base.ListX LL.LLModel LL.LLSpec LL.LLSpecC28.
Import ListNotations.
Local Open Scope N_scope.
Example C28_placeholder : minit28 (mk_cfg true true 500 CprNone true 31 []) = fresh28 false.
Proof. reflexivity. Qed.
