(* C28  A link is encrypted only with a key supplied for it.  Statements only; proofs in LL/LLProofsC28.v and
   LL/LLProofsC28Air.v.
   Model: LL/LLModel.v (link_layer_security_impl AFTER the repair fix/C28-start-enc-rsp-state), specification and monitor:
   LL/LLSpecC28.v.  All theorems quantify over EVERY configuration and EVERY list of operations (any length): connect
   requests, connection events with any number of any PDUs (LL_ENC_REQ / LL_START_ENC_RSP / LL_PAUSE_ENC_REQ / LL_PAUSE_ENC_RSP
   in any order, every other control PDU, ATT traffic), missed events, disconnect(), the key store's answer, API calls.
   [no_crash]: no operation of the history ends in a failing assert (OCrash; crash freedom is C22's subject). *)
From BT Require Import Base.ListX LL.LLModel LL.LLSpec LL.LLSpecC28 LL.LLProofsC28 LL.LLProofsC28Air.
From BT Require gen.GenLL.
Import ListNotations.
Local Open Scope N_scope.

(* is_encrypted() implies the specification's "encrypted": the last LL_ENC_REQ of THIS connection found a key (findkey
   while the key store knew it), LL_START_ENC_REQ was committed for it afterwards (enc:r+), the LL_START_ENC_RSP came
   after that, and no pause, disconnect(), end of the link or new connection happened since. *)
Theorem C28_encrypted_only_with_key :
  forall (c : cfg) (ops : list lop),
    no_crash (lrun c (linit c) ops) ->
    is_enc (sc (lfinal c (linit c) ops)) = true -> spec_encrypted c (lrun c (linit c) ops) = true.
Proof. exact encrypted_only_with_key. Qed.
Print Assumptions C28_encrypted_only_with_key.

(* THE MAIN THEOREM: the complete specification monitor accepts every trace of the model. Decision clauses: never enc:t+
   without a pending request with a known key (encrypted_without_key), never before LL_START_ENC_REQ was sent or after a
   pause that followed it (encrypted_without_start_enc_req), never LL_START_ENC_REQ for an unknown key
   (unknown_key_not_rejected) or without a request (start_enc_req_unrequested), never still encrypted after disconnect()
   or at the end of the link (pause_keeps_encrypted). On-air clauses: LL_START_ENC_REQ on air only when one is due; an
   LL_ENC_REQ for an unknown key is answered with LL_REJECT_(EXT_)IND( pin or key missing ) in the next connection event
   (unless the link ends or disconnect() was called); LL_PAUSE_ENC_RSP is on air only while the link is unencrypted; the
   value of the protected characteristic is on air only if the link was encrypted during the connection event that
   queued it (protected_readable_unencrypted / pause_keeps_encrypted). *)
Theorem C28_monitor_accepts_all :
  forall (c : cfg) (ops : list lop),
    no_crash (lrun c (linit c) ops) -> accepts28 c (lrun c (linit c) ops).
Proof. exact monitor_accepts_all. Qed.
Print Assumptions C28_monitor_accepts_all.

(* its decision part alone (no reasoning about the transmit queue) *)
Theorem C28_monitor_accepts_decisions :
  forall (c : cfg) (ops : list lop),
    no_crash (lrun c (linit c) ops) -> accepts28_core c (lrun c (linit c) ops).
Proof. exact core_monitor_accepts. Qed.
Print Assumptions C28_monitor_accepts_decisions.

(* The state the repair relies on ("LL_START_ENC_REQ sent, LL_START_ENC_RSP awaited" = has_key_ && !encryption_in_progress_)
   means what the specification says: a request with a known key is pending and its LL_START_ENC_REQ was sent. *)
Theorem C28_start_pending_only_with_key :
  forall (c : cfg) (ops : list lop),
    no_crash (lrun c (linit c) ops) ->
    has_key (sc (lfinal c (linit c) ops)) = true ->
    let m := snd (mrun28g false c (minit28 c) (lrun c (linit c) ops)) in
    q_req m = Some true /\ (enc_prog (sc (lfinal c (linit c) ops)) = false -> q_sent m = true).
Proof. exact start_pending_only_with_key. Qed.
Print Assumptions C28_start_pending_only_with_key.

(* one operation: the simulation step of the induction (any state related to any monitor state) *)
Theorem C28_step :
  forall c s m o s' r, R c s m -> lstep c s o = (s', r) -> r <> OCrash ->
    exists m', mstep28g false c m o r = (Ok, m') /\ R c s' m'.
Proof. exact step_ok. Qed.
Print Assumptions C28_step.

(* the two simulation steps of the inductions: decisions, and decisions + transmit queue *)
Theorem C28_step_on_air :
  forall c s m o s' r, R c s m -> TB c s m -> lstep c s o = (s', r) -> r <> OCrash ->
    exists m', mstep28g true c m o r = (Ok, m') /\ R c s' m' /\ TB c s' m'.
Proof. exact step_air. Qed.
Print Assumptions C28_step_on_air.

(* ---- non-vacuity: a session that starts encryption properly, reads the protected value, pauses, is refused the value,
   is rejected for an unknown key, disconnects - accepted by the COMPLETE monitor; the hypothesis no_crash holds of it;
   the link really is encrypted in the middle of it *)
Example C28_session_accepted : fst (mrun28g true cfg28 (minit28 cfg28) (lrun cfg28 (linit cfg28) session28)) = Ok.
Proof. exact session28_accepted. Qed.
Example C28_session_no_crash : no_crash (lrun cfg28 (linit cfg28) session28).
Proof. exact session28_no_crash. Qed.
Example C28_session_on_air :
  flat_map (fun x => match snd x with OItems it => flat_map (fun i => match i with ITx l b => [(l, b)] | _ => [] end) it | _ => [] end)
           (lrun cfg28 (linit cfg28) session28)
  = [(3, 4 :: skds_bytes ++ ivs_bytes); (3, [5]); (3, [6]); (2, [2; 0; 4; 0; 11; 23]); (3, [11]); (2, [5; 0; 4; 0; 1; 10; 3; 0; 5]);
     (3, 4 :: skds_bytes ++ ivs_bytes); (3, [17; 3; 6]); (3, [7; 6]); (2, [5; 0; 4; 0; 1; 10; 3; 0; 5]); (3, [2; 22])].
Proof. exact session28_on_air. Qed.
Example C28_session_reaches_encrypted :
  is_enc (sc (lfinal cfg28 (linit cfg28) (firstn 7 session28))) = true
  /\ spec_encrypted cfg28 (lrun cfg28 (linit cfg28) (firstn 7 session28)) = true.
Proof. exact session28_reaches_encrypted. Qed.

(* ---- the witnesses of the defect (corpus/C28): the repaired model never switches transmit encryption on, never lets the
   protected value out, ends unencrypted - and the complete monitor accepts its traces *)
Example C28_witnesses_refused_after_repair :
  never_encrypted cfg28 witness_lone = true /\ never_encrypted cfg28 witness_early = true /\ never_encrypted cfg28 witness_unknown = true
  /\ fst (mrun28g true cfg28 (minit28 cfg28) (lrun cfg28 (linit cfg28) witness_lone)) = Ok
  /\ fst (mrun28g true cfg28 (minit28 cfg28) (lrun cfg28 (linit cfg28) witness_early)) = Ok
  /\ fst (mrun28g true cfg28 (minit28 cfg28) (lrun cfg28 (linit cfg28) witness_unknown)) = Ok.
Proof. exact witnesses_refused. Qed.

(* ---- the monitor is not trivially accepting: observed traces of the pre-repair behaviour and of other violations *)
Example C28_monitor_rejects_lone_start_enc_rsp :
  fst (mrun28g true cfg28 (minit28 cfg28) (started28 ++ [(Ev 0 [start_enc_rsp], OItems [IEncTx true; ICe 30 1 2 30000; ICb (EvChanged d28)])])) = Bad 1.
Proof. exact monitor28_rejects_lone_start_enc_rsp. Qed.
Example C28_monitor_rejects_start_before_request_sent :
  fst (mrun28g true cfg28 (minit28 cfg28)
         (started28 ++ [(Key true, OItems []);
                        (Ev 0 [enc_req; start_enc_rsp], OItems [IFindKey 4660 1; ISetup toy_key 2 3; IEncTx true; IEncRx true; ICe 30 1 2 30000])])) = Bad 2.
Proof. exact monitor28_rejects_start_before_request_sent. Qed.
Example C28_monitor_rejects_start_for_unknown_key :
  fst (mrun28g true cfg28 (minit28 cfg28)
         (started28 ++ [(Ev 0 [enc_req], OItems [IFindKey 4660 1; ISetup zero_key 2 3; IEncRx true; ICe 30 1 2 30000])])) = Bad 3.
Proof. exact monitor28_rejects_start_for_unknown_key. Qed.
Example C28_monitor_rejects_missing_reject :
  fst (mrun28g true cfg28 (minit28 cfg28)
         (started28 ++ [(Ev 0 [enc_req], OItems [IFindKey 4660 1; ISetup zero_key 2 3; ICe 30 1 2 30000]);
                        (Ev 0 [], OItems [ITx 3 (4 :: skds_bytes ++ ivs_bytes); ICe 3 1 2 30000])])) = Bad 3.
Proof. exact monitor28_rejects_missing_reject. Qed.
Example C28_monitor_accepts_proper_start : fst (mrun28g true cfg28 (minit28 cfg28) encrypted28) = Ok.
Proof. exact monitor28_accepts_proper_start. Qed.
Example C28_monitor_rejects_encrypted_after_disconnect :
  fst (mrun28g true cfg28 (minit28 cfg28) (encrypted28 ++ [(Disconnect None, OItems [])])) = Bad 4.
Proof. exact monitor28_rejects_encrypted_after_disconnect. Qed.
Example C28_monitor_rejects_readable_after_pause :
  fst (mrun28g true cfg28 (minit28 cfg28)
         (encrypted28 ++ [(Ev 0 [pause_enc_req], OItems [ITx 3 [6]; IEncRx false; ICe 23 1 2 30000; ICb (EvChanged d28)]);
                          (Ev 0 [read_secret], OItems [ITx 3 [11]; ICe 33 1 2 30000]);
                          (Ev 0 [], OItems [ITx 2 [2; 0; 4; 0; 11; 23]; ICe 6 1 2 30000])])) = Bad 4.
Proof. exact monitor28_rejects_readable_after_pause. Qed.
Example C28_monitor_rejects_readable_unencrypted :
  fst (mrun28g true cfg28 (minit28 cfg28)
         (started28 ++ [(Ev 0 [read_secret], OItems [ICe 30 1 2 30000]); (Ev 0 [], OItems [ITx 2 [2; 0; 4; 0; 11; 23]; ICe 3 1 2 30000])])) = Bad 5.
Proof. exact monitor28_rejects_readable_unencrypted. Qed.

(* ---- constants read from link_layer.hpp on every run = the Core specification's (Vol 6 Part B 2.4.2) *)
Example C28_opcodes_are_the_specifications :
  GenLL.LL_ENC_REQ = 3 /\ GenLL.LL_ENC_RSP = 4 /\ GenLL.LL_START_ENC_REQ = 5 /\ GenLL.LL_START_ENC_RSP = 6
  /\ GenLL.LL_PAUSE_ENC_REQ = 10 /\ GenLL.LL_PAUSE_ENC_RSP = 11 /\ GenLL.LL_UNKNOWN_RSP = 7 /\ GenLL.LL_REJECT_IND = 13
  /\ GenLL.LL_REJECT_EXT_IND = 17 /\ GenLL.err_pin_or_key_missing = 6.
Proof. repeat split; reflexivity. Qed.
