(* C18  PDU ring buffers keep PDUs intact and in FIFO order.
   Statements only; proofs live in PduRing/PduRingProofs.v.

   cfg = (Size, ovh, lmod): any storage size, any layout overhead (0 = default_pdu_layout,
   1 = nrf_details::encrypted_pdu_layout; nothing depends on ovh <= 1), lmod = the modulus of the
   result type of pdu_ring_buffer::pdu_length( const P& ) (0: std::size_t, no truncation;
   256: std::uint8_t, the code before fix/C18-pdu-length-width). wf c is Size >= 2.
   Histories are arbitrary lists of operations; the monitor (PduRingSpec.mstep) stops judging a
   history at the first operation outside the documented preconditions (DESIGN.md 12.1). *)
From BT Require Import Base.ListX PduRing.PduRingModel PduRing.PduRingSpec PduRing.PduRingProofs.
From BT Require gen.GenPduRing.

(* ---- 1. the monitor accepts every trace of the model -------------------------------------------
   For every configuration and every operation sequence of any length: no fault inside the
   discipline (oob_write), alloc_front returns regions inside the storage (oob_write) that overlap
   no live PDU (overlap) and fails on a non-empty ring only if neither the append nor the wrap
   region is free (alloc_complete), bytes the user wrote into the allocated region are still there
   at commit (region_clobbered), next_end returns the oldest live PDU (fifo_order) at its place with
   the size and bytes of its commit (bytes_intact), more_than_one is exact (more_than_one).
   The only clause left out is the empty-ring guarantee (strict = false), and pushes whose memory
   size reaches lmod are outside the discipline (no restriction when lmod = 0). *)
Theorem C18_monitor_accepts_model :
  forall (c : cfg) (ops : list op), wf c ->
    monitor false (lmod c) (Size c) (ovh c) (run c ops) = None.
Proof. exact monitor_accepts_model. Qed.
Print Assumptions C18_monitor_accepts_model.

(* ---- 2. memory safety: a history that is inside the discipline to its end never faults ---------
   (every access of the ring, of the user filling an allocated region and of the user reading a
   peeked PDU is inside [0,Size); no assert fails) *)
Theorem C18_no_access_outside_storage :
  forall (c : cfg) (ops : list op), wf c ->
    dead (mon_final false (lmod c) (Size c) (ovh c) (minit (Size c)) (run c ops)) = false ->
    Forall (fun x => snd x <> OFault /\ snd x <> OSkipped) (run c ops).
Proof. exact no_fault_in_discipline. Qed.
Print Assumptions C18_no_access_outside_storage.

(* ---- 3. refinement to a FIFO `list (list N)` ----------------------------------------------------
   Live c s mo: model state s and monitor state mo (not dead) are coupled by the representation
   invariant (empty / linear / split with wrap point). It holds initially and each operation inside
   the discipline preserves it, is accepted, does not fault, and changes the abstract queue
   `contents` exactly as fifo_spec says: push_front appends the committed bytes, pop_end removes
   the head, everything else leaves it alone. *)
Theorem C18_invariant_initially : forall c : cfg, wf c -> Live c (init c) (minit (Size c)).
Proof. exact init_live. Qed.
Print Assumptions C18_invariant_initially.

Theorem C18_fifo_refinement :
  forall (c : cfg) (s : state) (mo : mon) (o : op) (v : verdict) (mo' : mon),
    wf c -> Live c s mo ->
    mstep false (lmod c) (Size c) (ovh c) mo o (snd (step c s o)) = (v, mo') -> dead mo' = false ->
    v = Ok /\ snd (step c s o) <> OFault /\ Live c (fst (step c s o)) mo' /\
    contents mo' = fifo_spec (contents mo) o (snd (step c s o)).
Proof. exact fifo_refinement. Qed.
Print Assumptions C18_fifo_refinement.

(* next_end returns the head of the queue: offset, size and bytes of its commit, state unchanged *)
Theorem C18_peek_returns_oldest :
  forall (c : cfg) (s : state) (mo : mon), wf c -> Live c s mo ->
    step c s Peek = (s, match fifo mo with [] => ONone | (po, cc) :: _ => OPeek po (length cc) cc end).
Proof. exact peek_returns_oldest. Qed.
Print Assumptions C18_peek_returns_oldest.

(* all live PDUs, not only the oldest, have the bytes of their commit in memory *)
Theorem C18_live_pdus_intact :
  forall (c : cfg) (s : state) (mo : mon), Live c s mo ->
    Forall (fun pc => slice (mem s) (fst pc) (length (snd pc)) = snd pc) (fifo mo).
Proof. exact live_pdus_intact. Qed.
Print Assumptions C18_live_pdus_intact.

(* ---- 4. live PDUs never overlap and lie inside the storage ------------------------------------- *)
Theorem C18_live_pdus_apart :
  forall (c : cfg) (s : state) (mo : mon), Live c s mo ->
    all_apart (pd (fifo mo)) /\ Forall (fun p => fst p + snd p <= Size c /\ 3 <= snd p) (pd (fifo mo)).
Proof. exact live_pdus_apart. Qed.
Print Assumptions C18_live_pdus_apart.

Theorem C18_alloc_region_free :
  forall (c : cfg) (s : state) (mo : mon) (n off : nat), Live c s mo -> alloc_front c s n = Some off ->
    off + n <= Size c /\ forall p, In p (pd (fifo mo)) -> apart (off, n) p.
Proof. exact alloc_region_free. Qed.
Print Assumptions C18_alloc_region_free.

(* ---- 5. completeness of alloc_front ------------------------------------------------------------
   non-empty ring: front_ is the end of the newest and end_ the start of the oldest live PDU, and a
   failing alloc_front means that neither [front, front+n) nor [0,n) with n < end (one byte gap)
   is free (linear), resp. that the gap end - front is not larger than n (split). *)
Theorem C18_alloc_complete_nonempty :
  forall (c : cfg) (s : state) (mo : mon) (n e0 : nat) (c0 : list N) (t : list (nat * list N)),
    Live c s mo -> fifo mo = (e0, c0) :: t -> alloc_front c s n = None ->
    end_ s = e0 /\ front s = live_end (fifo mo) /\ front s <> end_ s /\
    (end_ s < front s -> Size c - front s < n /\ end_ s <= n) /\
    (front s < end_ s -> end_ s - front s <= n).
Proof. exact alloc_complete_nonempty. Qed.
Print Assumptions C18_alloc_complete_nonempty.

(* EMPTY ring. The full statement (monitor with the clause `alloc_empty`: an empty ring accepts
   every n <= Size - 1, which is what the header of ring_buffer.hpp promises) is FALSE of the
   code: after PDUs were committed and freed front_ = end_ = k > 0, and n with Size - k < n,
   k <= n is refused. KNOWN FINDING C18-empty-ring-refuses-alloc (no safe local fix: an
   outstanding allocation may point at front_). lm = 256 is the code as it is, lm = 0 the code
   with the width fix. *)
Definition C18_alloc_complete_full (lm : nat) : Prop :=
  forall (c : cfg) (ops : list op), wf c -> lmod c = lm ->
    monitor true (lmod c) (Size c) (ovh c) (run c ops) = None.

(* witness: ReceiveSize 61, max_rx_size 40, one 25 byte PDU received and freed *)
Theorem C18_empty_refuted : ~ C18_alloc_complete_full 256.
Proof.
  intros H.
  specialize (H (mkcfg 61 0 256) [Alloc 40; Write 0 [2; 23]%N; Push 0 40; Pop; Alloc 40]
                ltac:(unfold wf, hdr; simpl; lia) eq_refl).
  vm_compute in H. discriminate.
Qed.
Print Assumptions C18_empty_refuted.

Theorem C18_empty_refuted_after_width_fix : ~ C18_alloc_complete_full 0.
Proof.
  intros H.
  specialize (H (mkcfg 61 0 0) [Alloc 40; Write 0 [2; 23]%N; Push 0 40; Pop; Alloc 40]
                ltac:(unfold wf, hdr; simpl; lia) eq_refl).
  vm_compute in H. discriminate.
Qed.
Print Assumptions C18_empty_refuted_after_width_fix.

(* what does hold: if no request exceeds half the storage the monitor accepts every trace with the
   empty-ring clause switched on (the default buffer_sizes<61,61> with max_rx_size 29 + overhead
   is inside: 2 * 30 <= 61). The bound is sharp: Size = 2n - 1 fails (Example below); missing for
   the full statement: requests with Size / 2 < n <= Size - 1. *)
Theorem C18_alloc_complete_partial :
  forall (c : cfg) (ops : list op), wf c -> alloc_sizes_le (Size c / 2) ops ->
    monitor true (lmod c) (Size c) (ovh c) (run c ops) = None.
Proof. exact monitor_strict_accepts_model. Qed.
Print Assumptions C18_alloc_complete_partial.

Theorem C18_alloc_complete_empty_half :
  forall (c : cfg) (s : state) (mo : mon) (n : nat),
    Live c s mo -> fifo mo = [] -> 2 * n <= Size c -> alloc_front c s n <> None.
Proof. exact alloc_complete_empty_half. Qed.
Print Assumptions C18_alloc_complete_empty_half.

Example C18_half_bound_is_sharp :   (* Size = 29 = 2 * 15 - 1 *)
  monitor true 0 29 0 (run (mkcfg 29 0 0) [Alloc 15; Write 0 [1; 13]%N; Push 0 15; Pop; Alloc 15])
  = Some (4, t_alloc_empty).
Proof. vm_compute. reflexivity. Qed.

(* ---- 6. PDUs of any size: the 8 bit pdu_length overload ----------------------------------------
   With lmod = 256 (std::uint8_t pdu_length( const P& ), the code before the fix) theorem 1 only
   covers pushes of less than 256 bytes in memory. Without that restriction the statement is
   false: a PDU of 256 bytes (payload 254; 253 with the encrypted layout) is committed with
   front_ advanced by 0 and is lost; reachable through the ring's public interface for Size >= 256,
   not through ll_data_pdu_buffer (payload <= 251). Repaired on fix/C18-pdu-length-width (result
   type std::size_t): for lmod = 0 the statement holds for all sizes. *)
Definition C18_any_pdu_size_full : Prop :=
  forall (c : cfg) (ops : list op), wf c ->
    monitor false 0 (Size c) (ovh c) (run c ops) = None.

Theorem C18_len256_refuted : ~ C18_any_pdu_size_full.
Proof.
  intros H.
  specialize (H (mkcfg 300 0 256) [Alloc 256; Write 0 [1; 254]%N; Push 0 256; Peek]
                ltac:(unfold wf, hdr; simpl; lia)).
  vm_compute in H. discriminate.
Qed.
Print Assumptions C18_len256_refuted.

Theorem C18_any_pdu_size_when_wide :
  forall (c : cfg) (ops : list op), wf c -> lmod c = 0 ->
    monitor false 0 (Size c) (ovh c) (run c ops) = None.
Proof. exact monitor_accepts_model_wide. Qed.
Print Assumptions C18_any_pdu_size_when_wide.

(* the code checked by this run has the wide result type (fails on a tree without the fix: the
   translator then generates push_len_mod = 256) *)
Example C18_code_has_wide_pdu_length : GenPduRing.push_len_mod = 0.
Proof. reflexivity. Qed.

(* ---- constants regenerated from the sources on every run ---------------------------------------- *)
Example C18_constants_are_the_codes :
  GenPduRing.ll_header_size = hdr /\ GenPduRing.default_header_size = hdr /\ GenPduRing.nrf_header_size = hdr /\
  GenPduRing.wrap_mark = 0%N /\ GenPduRing.default_overhead = 0 /\ GenPduRing.nrf_overhead = 1 /\
  GenPduRing.default_body_offset = hdr /\ GenPduRing.nrf_body_offset = hdr + 1.
Proof. repeat split; reflexivity. Qed.

(* ---- non-vacuity --------------------------------------------------------------------------------
   wf is satisfiable; a history with an exact fit at the end of the storage, a wrap with the mark
   written, a pop interleaved between alloc and push and a split ring stays inside the discipline
   (monitor not dead), is accepted, and ends with two live PDUs in the abstract queue *)
Example C18_wf_nonvacuous : wf (mkcfg 30 1 0).
Proof. unfold wf, hdr. simpl. lia. Qed.

Definition C18_sample_history : list op :=
  [Alloc 12; Write 0 [1; 9; 0; 1; 2; 3; 4; 5; 6; 7; 8; 9]%N; Push 0 12;
   Alloc 12; Write 12 [2; 9; 0; 17; 18; 19; 20; 21; 22; 23; 24; 25]%N; Push 12 12;
   Pop; Alloc 11; Write 0 [3; 8; 0; 33; 34; 35; 36; 37; 38; 39; 40]%N; Push 0 11;
   Peek; More; Alloc 3; Alloc 30; Dump].

Example C18_sample_history_inside_discipline :
  let c := mkcfg 30 1 0 in
  let m := mon_final true 0 30 1 (minit 30) (run c C18_sample_history) in
  monitor true 0 30 1 (run c C18_sample_history) = None /\ dead m = false /\
  contents m = [[2; 9; 0; 17; 18; 19; 20; 21; 22; 23; 24; 25]; [3; 8; 0; 33; 34; 35; 36; 37; 38; 39; 40]]%N.
Proof. vm_compute. repeat split; reflexivity. Qed.

(* the monitor is not trivially accepting: one rejected trace per clause *)
Example C18_monitor_rejects_lost_pdu :
  monitor false 0 30 0 [(Alloc 5, OAlloc 0 5); (Write 0 [1; 3]%N, OUnit); (Push 0 5, OCommit [1; 3; 170; 170; 170]%N);
                        (Peek, ONone)] = Some (3, t_fifo).
Proof. vm_compute. reflexivity. Qed.

Example C18_monitor_rejects_changed_byte :
  monitor false 0 30 0 [(Alloc 5, OAlloc 0 5); (Write 0 [1; 3; 7; 8; 9]%N, OUnit); (Push 0 5, OCommit [1; 3; 7; 8; 9]%N);
                        (Peek, OPeek 0 5 [1; 3; 7; 0; 9]%N)] = Some (3, t_bytes).
Proof. vm_compute. reflexivity. Qed.

Example C18_monitor_rejects_wrong_order :
  monitor false 0 30 0 [(Alloc 5, OAlloc 0 5); (Write 0 [1; 3; 7; 8; 9]%N, OUnit); (Push 0 5, OCommit [1; 3; 7; 8; 9]%N);
                        (Alloc 5, OAlloc 5 5); (Write 5 [2; 3; 1; 1; 1]%N, OUnit); (Push 5 5, OCommit [2; 3; 1; 1; 1]%N);
                        (Peek, OPeek 5 5 [2; 3; 1; 1; 1]%N)] = Some (6, t_fifo).
Proof. vm_compute. reflexivity. Qed.

Example C18_monitor_rejects_overlap :
  monitor false 0 30 0 [(Alloc 5, OAlloc 0 5); (Write 0 [1; 3]%N, OUnit); (Push 0 5, OCommit [1; 3; 170; 170; 170]%N);
                        (Alloc 5, OAlloc 4 5)] = Some (3, t_overlap).
Proof. vm_compute. reflexivity. Qed.

Example C18_monitor_rejects_region_outside_storage :
  monitor false 0 30 0 [(Alloc 5, OAlloc 26 5)] = Some (0, t_oob).
Proof. vm_compute. reflexivity. Qed.

Example C18_monitor_rejects_fault :
  monitor false 0 30 0 [(Alloc 5, OAlloc 0 5); (Write 0 [1; 3]%N, OFault)] = Some (1, t_oob).
Proof. vm_compute. reflexivity. Qed.

Example C18_monitor_rejects_refusal_with_room :
  monitor false 0 30 0 [(Alloc 5, OAlloc 0 5); (Write 0 [1; 3]%N, OUnit); (Push 0 5, OCommit [1; 3; 170; 170; 170]%N);
                        (Alloc 25, ONone)] = Some (3, t_alloc_complete).
Proof. vm_compute. reflexivity. Qed.

Example C18_monitor_rejects_clobbered_region :
  monitor false 0 30 0 [(Alloc 5, OAlloc 0 5); (Write 0 [1; 3; 7]%N, OUnit); (Push 0 5, OCommit [1; 3; 0; 170; 170]%N)]
  = Some (2, t_region).
Proof. vm_compute. reflexivity. Qed.

Example C18_monitor_rejects_wrong_more :
  monitor false 0 30 0 [(Alloc 5, OAlloc 0 5); (Write 0 [1; 3]%N, OUnit); (Push 0 5, OCommit [1; 3; 170; 170; 170]%N);
                        (More, OBool true)] = Some (3, t_more).
Proof. vm_compute. reflexivity. Qed.
