(* C18  PDU ring buffers keep PDUs intact and in FIFO order.   (work in progress: witnesses only) *)
From BT Require Import Base.ListX PduRing.PduRingModel PduRing.PduRingSpec.
From BT Require gen.GenPduRing.

Example C18_empty_witness :
  monitor true 0 61 0 (run (mkcfg 61 0 256)
    [Alloc 40; Write 0 [2; 23]%N; Push 0 40; Pop; Alloc 40]) = Some (4, t_alloc_empty).
Proof. vm_compute. reflexivity. Qed.
