(* C09  Client characteristic configuration is per connection and exact.
   Statements only; proofs in AttSrv/AttSrvProofsC09.v, AttDb/AttDbNotifProofs.v, AttSrv/AttSrvFrame.v.

   Model: AttSrvModel.v (cccd_get / cccd_set = client_characteristic_configuration::flags, cccd_write = the CCCD
   attribute, conn.cccd = client_characteristic_configurations<>::configs_ of one connection), AttDbModel.v
   (cccd_position, sorted_infos = characteristics_sorted_by_priority), AttSrvCbModel.v (callback count). *)
From BT Require Import Base.ListX Base.Bits2 AttDb.AttDbModel AttDb.AttDbNotifProofs NQueue.NQueueModel AttSrv.AttSrvModel
  AttSrv.AttSrvFrame AttSrv.AttSrvCbModel AttSrv.AttSrvNotifSpec AttSrv.AttSrvSpecC09 AttSrv.AttSrvProofsC09
  AttSrv.AttSrvNotifExamples AttDb.AttDbProofs AttSrv.AttSrvProofsC09T AttSrv.AttSrvProofsC09T2 AttSrv.AttSrvProofsC09T3 AttSrv.AttSrvNoFault.
Local Open Scope N_scope.

(* ---- lens laws of the packed store, for ANY number n of CCCDs (in particular across the 4-per-byte
   boundary): a field reads back the two low bits written (other bits are dropped), no other field changes,
   the array keeps its length and its bytes stay bytes. From the one-byte sweep Bits2.sweep. *)
Theorem C09_store_lens :
  forall n d i v, store_ok n d -> i < n ->
    cccd_get (cccd_set d i v) i = N.land v 3
    /\ (forall j, j < n -> j <> i -> cccd_get (cccd_set d i v) j = cccd_get d j)
    /\ store_ok n (cccd_set d i v)
    /\ cccd_get d i < 4.
Proof. exact cccd_lens. Qed.
Print Assumptions C09_store_lens.

(* ---- after any history (requests, notifications, polls, confirmations, disconnects, ... of any length
   on any connections) every connection's store is well formed for number_of_client_configs fields *)
Theorem C09_store_well_formed_in_every_reachable_state :
  forall c ops j k, get_conn (srv_after c (srv_init c) ops) j = Some k ->
    store_ok (number_of_client_configs c) (cccd k).
Proof. exact store_ok_reachable. Qed.
Print Assumptions C09_store_well_formed_in_every_reachable_state.

(* ---- the CCCD attribute, in every reachable state, for every configuration and priority declaration:
   a write the attribute accepts has at most 2 bytes; the connection then reads exactly the notification /
   indication bits of the first byte written (nothing changes for an empty write); no other CCCD of this
   connection changes; no other connection changes; no characteristic value changes *)
Theorem C09_cccd_write_is_exact_and_local :
  forall c ops cid index s ch cci data st',
    let st := srv_after c (srv_init c) ops in
    attribute_at c index = Some (ACccd s ch cci) ->
    Forall (fun b => b < 256) data ->
    access_write c st cid (ACccd s ch cci) 0 data = Some (st', Success) ->
    exists k k', get_conn st cid = Some k /\ get_conn st' cid = Some k'
      /\ (length data <= 2)%nat
      /\ cccd_get (cccd k') (cccd_position c cci)
         = match data with [] => cccd_get (cccd k) (cccd_position c cci) | b :: _ => N.land b 3 end
      /\ (forall j, j < number_of_client_configs c -> j <> cccd_position c cci -> cccd_get (cccd k') j = cccd_get (cccd k) j)
      /\ (forall j, j <> cid -> get_conn st' j = get_conn st j)
      /\ vals st' = vals st.
Proof. exact cccd_access_write_exact. Qed.
Print Assumptions C09_cccd_write_is_exact_and_local.

(* reading the CCCD attribute returns <the two bits> 00 (from the requested offset) *)
Theorem C09_cccd_read_is_exact :
  forall c st cid k s ch cci off maxlen,
    get_conn st cid = Some k ->
    security_check (char_requires_encryption c s ch) (encrypted k) (pairing k) = Success ->
    access_read c st cid (ACccd s ch cci) 0 off maxlen
    = Some (let '(r, d) := mem_read [cccd_get (cccd k) (cccd_position c cci); 0] off maxlen in (st, r, d)).
Proof. exact cccd_read_exact. Qed.
Print Assumptions C09_cccd_read_is_exact.

(* ---- per connection: whatever l2cap_input / l2cap_output does for one connection (any request, any
   state), every other connection keeps all its data (MTU, CCCDs, security, queue) *)
Theorem C09_other_connections_untouched :
  forall c st o cid,
    (match o with OpIn i _ _ | OpOut i _ => i = cid | _ => False end) ->
    forall j, j <> cid -> get_conn (fst (srv_step c st o)) j = get_conn st j.
Proof. exact other_connections_untouched. Qed.
Print Assumptions C09_other_connections_untouched.

(* ---- positions: for every configuration and every priority declaration, the position the CCCD attribute
   number cci uses in the store is inside the store, and it is the index under which
   find_notification_data_by_index (what l2cap_output and the queue use) returns the characteristic with
   that CCCD number; different CCCDs use different positions (stable_sort is a permutation) *)
Theorem C09_cccd_position_is_the_notification_index :
  forall c index s ch cci,
    attribute_at c index = Some (ACccd s ch cci) ->
    cccd_position c cci < number_of_client_configs c
    /\ exists x, nth_error (sorted_infos c) (N.to_nat (cccd_position c cci)) = Some x /\ ci_pos x = cci
                 /\ find_notification_data_by_index c (cccd_position c cci) = (ci_first x + 1, cccd_position c cci).
Proof. exact cccd_attribute_position. Qed.
Print Assumptions C09_cccd_position_is_the_notification_index.

Theorem C09_cccd_positions_distinct :
  forall c a b, a < N.of_nat (n_cccd c) -> b < N.of_nat (n_cccd c) -> cccd_position c a = cccd_position c b -> a = b.
Proof. exact cccd_position_inj. Qed.
Print Assumptions C09_cccd_positions_distinct.

Theorem C09_number_of_positions : forall c, N.of_nat (n_cccd c) = number_of_client_configs c.
Proof. exact n_cccd_is_number_of_client_configs. Qed.
Print Assumptions C09_number_of_positions.

(* ---- the server wide subscription callback is invoked during a CCCD write exactly when the two stored
   bits change (AttSrvCbModel.cccd_write_cb transcribes the test in characteristic.hpp; the count is tied
   to the implementation by the `cbs` operation of the C09 harness) *)
Theorem C09_callback_iff_stored_value_changes :
  forall c st cid k cci off data st' r,
    get_conn st cid = Some k ->
    cccd_write c st cid k cci off data = (st', r) ->
    forall k', get_conn st' cid = Some k' ->
    cccd_write_cb c k cci off data
    = (if cccd_get (cccd k') (cccd_position c cci) =? cccd_get (cccd k) (cccd_position c cci) then 0 else 1).
Proof. exact callback_iff_changed. Qed.
Print Assumptions C09_callback_iff_stored_value_changes.

(* ---- the trace level statement, PARTIAL: for every well formed configuration without include_service<> (C04's
   inverse laws), without write queue (so no prepared CCCD writes) and without encryption requirement on a
   characteristic with CCCD (env09, executable), and every history of any length of ANY operations (l2cap_input with
   PDUs of bytes, l2cap_output, notify / indicate, link security changes, disconnects, val / setval, callback
   queries, on any of the connections) whose model trace contains no FAULT: the
   executable monitor accepts the model's trace - all clauses: readback, other_cccd_changed,
   other_connection_changed, cccd_write, callback_iff_changed. By simulation (sim09): the observer's table is the
   configuration's, its callback expectation is the model's count, and every CCCD value the observer tracks
   is the stored value at the position of the CCCD attribute found under that handle. Ingredients: the
   observer's table <-> attribute_at (by_cccd_handle_attr, resolve_obs / resolve_model), uniqueness of the CCCD
   attribute index per CCCD number (AttDbCccdIndex.cccd_index_unique), C04_inverse, the lens laws, the
   permutation lemma. *)
Theorem C09_monitor_accepts_model_partial :
  forall c ops, wf c -> no_includes c -> env09 c = true -> forallb op09_bytes ops = true ->
    no_fault9 (srv9_run c (srv9_init c) ops) -> monitor09 c (srv9_run c (srv9_init c) ops) = None.
Proof. exact monitor09_accepts_model_all. Qed.
Print Assumptions C09_monitor_accepts_model_partial.

(* ---- the same WITHOUT a no-FAULT hypothesis for l2cap_input: every state along the history is reachable, so
   C01_no_fault_reachable (att-core) applies; the requests are inside the hypotheses of l2cap_input (connection
   0..2, 1 <= length pdu, 23 <= out_size, bytes), no characteristic uses the marker uuid 0x0001. A no-FAULT
   hypothesis remains only for the operations that are not l2cap_input (l2cap_output, notify / indicate). *)
Theorem C09_monitor_accepts_model_partial_no_input_fault :
  forall c ops, wf c -> no_includes c -> no_marker_uuids c -> env09 c = true -> forallb op09_req ops = true ->
    no_fault9_other (srv9_run c (srv9_init c) ops) -> monitor09 c (srv9_run c (srv9_init c) ops) = None.
Proof. exact monitor09_accepts_model_reach. Qed.
Print Assumptions C09_monitor_accepts_model_partial_no_input_fault.

(* MISSING w.r.t. the full statement: configurations with include_service<>, with a write queue (prepared CCCD
   writes) or with encryption requirements on characteristics with CCCD. *)
Definition C09_monitor_accepts_model_full : Prop :=
  forall c ops, wf c -> monitor09 c (srv9_run c (srv9_init c) ops) = None.

(* ---- non-vacuity *)
Example C09_wf_nonvacuous : wf cfg_n1_mtu23 /\ wf cfg_n5_mtu65 /\ wf cfg_p9_mtu65 /\ wf cfg_p4_mtu100.
Proof. repeat split; vm_compute; reflexivity. Qed.

(* nine CCCDs, and the priority sort is not the identity *)
Example C09_p9_positions :
  number_of_client_configs cfg_p9_mtu65 = 9
  /\ cccd_indices cfg_p9_mtu65 = [7; 6; 8; 3; 1; 0; 2; 4; 5]
  /\ map (cccd_position cfg_p9_mtu65) [0; 1; 2; 3; 4; 5; 6; 7; 8] = [5; 4; 6; 3; 7; 8; 1; 0; 2].
Proof. repeat split; vm_compute; reflexivity. Qed.

(* a history on the five CCCD configuration (handles 4, 7, 10, 14, 19) that the model produces and the
   monitor accepts: writes on two connections, read back, callbacks counted *)
Example C09_monitor_accepts_model_history :
  monitor09 cfg_n5_mtu65 (srv9_run cfg_n5_mtu65 (srv9_init cfg_n5_mtu65)
    [Op9 (OpIn 0 [18; 4; 0; 1; 0] 23); Op9 (OpIn 1 [18; 19; 0; 3; 0] 23); Op9 (OpIn 0 [18; 19; 0; 255; 1] 23);
     Cbs; Op9 (OpIn 0 [10; 19; 0] 23); Op9 (OpIn 1 [10; 19; 0] 23); Op9 (OpIn 2 [10; 19; 0] 23);
     Op9 (OpIn 0 [18; 4; 0; 1] 23); Cbs; Op9 (OpIn 0 [82; 4; 0; 0; 0] 23); Cbs; Op9 (OpIn 0 [10; 4; 0] 23);
     Op9 (OpIn 0 [12; 19; 0; 1; 0] 23); Op9 (OpDisc 0); Op9 (OpIn 0 [10; 19; 0] 23)]) = None.
Proof. vm_compute. reflexivity. Qed.

(* the hypotheses of the partial trace theorem are satisfiable: nine CCCDs with priorities, a history on three connections *)
Example C09_partial_hypotheses_nonvacuous :
  let ops := [Op9 (OpIn 0 [18; 4; 0; 1; 0] 23); Op9 (OpIn 1 [18; 26; 0; 3; 0] 23); Cbs; Op9 (OpIn 0 [10; 4; 0] 23);
              Op9 (OpIn 1 [12; 26; 0; 1; 0] 23); Op9 (OpIn 2 [82; 4; 0; 2] 23); Op9 (OpIn 2 [18; 4; 0; 1; 2; 3] 23); Cbs;
              Op9 (OpDisc 0); Op9 (OpIn 0 [10; 4; 0] 23); Op9 (OpSec 1 true 1); Op9 (OpNotify false KNotif 0); Op9 (OpOut 0 23)] in
  env09 cfg_p9_mtu65 = true /\ no_includes_b (services cfg_p9_mtu65) = true /\ forallb op09_bytes ops = true
  /\ map snd (srv9_run cfg_p9_mtu65 (srv9_init cfg_p9_mtu65) ops)
     = [Out9 (OBytes [19]); Out9 (OBytes [19]); Count 2; Out9 (OBytes [11; 1; 0]); Out9 (OBytes [13; 0]); Out9 (OBytes []);
        Out9 (OBytes [1; 18; 4; 0; 13]); Count 1; Out9 ONone; Out9 (OBytes [11; 0; 0]); Out9 ONone; Out9 (OBits [true; true; true]);
        Out9 (OBytes [])].
Proof. repeat split; vm_compute; reflexivity. Qed.

(* the monitor is not trivially accepting (CCCD of cfg_n1_mtu23: handle 6) *)
Example C09_monitor_rejects_wrong_readback :
  monitor09 cfg_n1_mtu23 [(Op9 (OpIn 0 [18; 6; 0; 1; 0] 23), Out9 (OBytes [19]));
                          (Op9 (OpIn 0 [10; 6; 0] 23), Out9 (OBytes [11; 0; 0]))] = Some (1%nat, t09_readback)
  /\ monitor09 cfg_n1_mtu23 [(Op9 (OpIn 0 [18; 6; 0; 7; 0] 23), Out9 (OBytes [19]));
                             (Op9 (OpIn 0 [10; 6; 0] 23), Out9 (OBytes [11; 7; 0]))] = Some (1%nat, t09_readback).
Proof. split; vm_compute; reflexivity. Qed.

Example C09_monitor_rejects_other_connection :
  monitor09 cfg_n1_mtu23 [(Op9 (OpIn 1 [18; 6; 0; 1; 0] 23), Out9 (OBytes [19]));
                          (Op9 (OpIn 0 [10; 6; 0] 23), Out9 (OBytes [11; 1; 0]))] = Some (1%nat, t09_other_connection_changed).
Proof. vm_compute. reflexivity. Qed.

Example C09_monitor_rejects_other_cccd :
  monitor09 cfg_n5_mtu65 [(Op9 (OpIn 0 [18; 4; 0; 1; 0] 23), Out9 (OBytes [19]));
                          (Op9 (OpIn 0 [10; 19; 0] 23), Out9 (OBytes [11; 1; 0]))] = Some (1%nat, t09_other_cccd_changed).
Proof. vm_compute. reflexivity. Qed.

Example C09_monitor_checks_callback :
  monitor09 cfg_n1_mtu23 [(Op9 (OpIn 0 [18; 6; 0; 1; 0] 23), Out9 (OBytes [19])); (Cbs, Count 0)] = Some (1%nat, t09_callback_iff_changed)
  /\ monitor09 cfg_n1_mtu23 [(Op9 (OpIn 0 [18; 6; 0; 1; 0] 23), Out9 (OBytes [19])); (Cbs, Count 1);
                             (Op9 (OpIn 0 [18; 6; 0; 1; 0] 23), Out9 (OBytes [19])); (Cbs, Count 1)] = Some (3%nat, t09_callback_iff_changed)
  /\ monitor09 cfg_n1_mtu23 [(Op9 (OpIn 0 [18; 6; 0; 1; 0] 23), Out9 (OBytes [19])); (Cbs, Count 1);
                             (Op9 (OpIn 0 [18; 6; 0; 1; 0] 23), Out9 (OBytes [19])); (Cbs, Count 0)] = None.
Proof. repeat split; vm_compute; reflexivity. Qed.

(* constants regenerated from the sources on every run *)
From BT Require gen.GenAttSrv.
Example C09_constants_are_the_codes :
  GenAttSrv.opcode_write_request = 18 /\ GenAttSrv.opcode_write_command = 82 /\ GenAttSrv.opcode_read_request = 10
  /\ GenAttSrv.opcode_read_blob_request = 12 /\ GenAttSrv.att_error_invalid_attribute_value_length = err_invalid_attribute_value_length.
Proof. repeat split; reflexivity. Qed.
