(* C09. Statements only; proofs in AttSrv/AttSrvProofsC09.v. *)
From BT Require Import Base.ListX AttDb.AttDbModel NQueue.NQueueModel AttSrv.AttSrvModel AttSrv.AttSrvNotifSpec
  AttSrv.AttSrvProofsC09.
Local Open Scope N_scope.

Theorem C09_bad_confirmation_leaves_state :
  forall c st cid pdu b n st' r,
    handle_confirmation c st cid pdu b n = Some (st', r) -> len pdu <> 1 -> st' = st.
Proof. exact confirmation_bad_length_unchanged. Qed.
Print Assumptions C09_bad_confirmation_leaves_state.
