(* C25  Only properly addressed and permitted requests are answered while advertising:
   the part that lives in advertising.hpp (handle_adv_receive of the advertising types and the
   static predicates). Statements only; proofs live in Adv/AdvProofs.v.
   Not here: link_layer::adv_received's channel map / hop / timing conditions for entering the
   connecting state (LL component), the white list behind is_connection_request_in_filter (C26;
   the filter is an arbitrary function here), the scan request handling of the radio bindings. *)
From BT Require Import Base.ListX Adv.AdvModel Adv.AdvSpec Adv.AdvProofs.
Local Open Scope N_scope.

(* For every configuration, every state of the advertiser and every byte list of any length
   (bytes < 256): handle_adv_receive reports a connection request if and only if, for the
   advertising type t in use,
     - the PDU type is CONNECT_IND (5), the PDU occupies exactly 34 payload bytes in memory and its
       length field is 34, AdvA is the own address and RxAdd the own address type, and
     - t is connectable undirected, or t is connectable directed, an address has been set with
       directed_advertising_address() and InitA / TxAdd are that address and its type, and
     - the initiator (InitA, TxAdd) passes is_connection_request_in_filter.
   Scannable and non-connectable advertising accept nothing. *)
Theorem C25_connection_request_accepted_iff :
  forall (c : cfg) (s : state) (p : list N), bytes_ok p ->
    (accepts c s p = true <->
     exists t, sel_type c s = Some t /\
               may_connect (c_off c) (c_own c) (c_filter c) (target_of s) t p).
Proof. exact accepts_iff. Qed.
Print Assumptions C25_connection_request_accepted_iff.

(* the operation Rx of the model (handle_adv_receive) answers 'accepted' exactly then, reports
   (InitA, TxAdd) as the remote address and leaves the advertiser unchanged; otherwise it goes on
   advertising (handle_adv_timeout) *)
Theorem C25_rx_reports_accept_iff :
  forall c s p, (exists a, snd (step c s (Rx p)) = OAcc a) <-> accepts c s p = true.
Proof. exact rx_acc_iff. Qed.
Print Assumptions C25_rx_reports_accept_iff.

Theorem C25_remote_address_is_the_initiator :
  forall c s p a, bytes_ok p -> snd (step c s (Rx p)) = OAcc a ->
    a = initiator (c_off c) p /\ fst (step c s (Rx p)) = s.
Proof. exact rx_acc_remote. Qed.
Print Assumptions C25_remote_address_is_the_initiator.

Theorem C25_not_connectable_types_accept_nothing :
  forall c s p t, bytes_ok p -> sel_type c s = Some t -> t = TScannable \/ t = TNonConn -> accepts c s p = false.
Proof. exact not_connectable_rejects. Qed.
Print Assumptions C25_not_connectable_types_accept_nothing.

(* the static predicates, for either PDU layout (off = 2, 3) and in fact any body offset *)
Theorem C25_is_valid_connect_request_iff :
  forall off own p, bytes_ok p -> (valid_connect_base off own p = true <-> connect_ind_for off own p).
Proof. exact connect_request_iff. Qed.
Print Assumptions C25_is_valid_connect_request_iff.

Theorem C25_is_valid_scan_request_iff :
  forall off own p, bytes_ok p -> (valid_scan off own p = true <-> scan_req_for off own p).
Proof. exact scan_request_iff. Qed.
Print Assumptions C25_is_valid_scan_request_iff.

(* For every configuration and every operation sequence of any length whose received PDUs are byte
   lists, the C25 monitor accepts the model's trace: a PDU is accepted only if the specification
   allows it for the advertising type on air (the type of the last advertising PDU handed to the
   radio; change_advertising takes effect with the next PDU; only if the advertiser was restarted
   or timed out since without sending a PDU, also the type proposed then), rejected only if the
   specification rejects it for that type, and the reported remote address is the initiator's. *)
Theorem C25_every_history_is_accepted :
  forall (c : cfg) (ops : list op), Forall op_bytes_ok ops -> monitor25 c (run c (init c) ops) = None.
Proof. exact monitor25_accepts_model. Qed.
Print Assumptions C25_every_history_is_accepted.

(* ------------------------------------------------------------------ non-vacuity *)
Definition own_ex : addr := mkaddr [71; 17; 8; 21; 0; 192] true.
Definition peer_ex : addr := mkaddr [1; 2; 3; 4; 5; 6] false.
Definition wl_ex (a : addr) : bool := addr_eqb a peer_ex.
Definition cfg_u : cfg := mkcfg [TUndirected] false false false 100 2 own_ex wl_ex.
Definition cfg_d : cfg := mkcfg [TDirected] false false false 100 3 own_ex (fun _ => true).
(* CONNECT_IND from 06:05:04:03:02:01 (public) to the own (random) address, default layout *)
Definition conn_ex : list N :=
  [133; 34; 1; 2; 3; 4; 5; 6; 71; 17; 8; 21; 0; 192] ++ repeat 170 22.
Definition conn_nrf : list N := [133; 34; 0; 1; 2; 3; 4; 5; 6; 71; 17; 8; 21; 0; 192] ++ repeat 170 22.

Example C25_accepts_a_proper_request :
  bytes_ok conn_ex /\ accepts cfg_u (init cfg_u) conn_ex = true
  /\ snd (step cfg_u (init cfg_u) (Rx conn_ex)) = OAcc peer_ex.
Proof. split; [repeat constructor|vm_compute; auto]. Qed.

Example C25_rejects_each_deviation :
  (* length field 33; one byte short; RxAdd clear; AdvA differs; SCAN_REQ code; initiator not in the filter *)
  map (accepts cfg_u (init cfg_u))
    [ upd conn_ex 1 33; removelast conn_ex; upd conn_ex 0 5; upd conn_ex 8 70; upd conn_ex 0 131; upd conn_ex 0 197 ]
  = [false; false; false; false; false; false].
Proof. vm_compute. reflexivity. Qed.

Example C25_directed_needs_the_target :
  let s0 := init cfg_d in
  let s1 := fst (step cfg_d s0 (DAddr peer_ex)) in
  let s2 := fst (step cfg_d s0 (DAddr (mkaddr [1; 2; 3; 4; 5; 7] false))) in
  accepts cfg_d s0 conn_nrf = false /\ accepts cfg_d s1 conn_nrf = true /\ accepts cfg_d s2 conn_nrf = false
  /\ accepts cfg_d s1 (upd conn_nrf 0 197) = false.
Proof. vm_compute. auto. Qed.

Example C25_scan_request_example :
  valid_scan 2 own_ex ([131; 12; 1; 2; 3; 4; 5; 6; 71; 17; 8; 21; 0; 192]) = true
  /\ valid_scan 2 own_ex ([3; 12; 1; 2; 3; 4; 5; 6; 71; 17; 8; 21; 0; 192]) = false
  /\ valid_scan 2 own_ex ([131; 12; 1; 2; 3; 4; 5; 6; 71; 17; 8; 21; 0]) = false.
Proof. vm_compute. auto. Qed.

(* the monitor rejects an implementation that accepts a request with the wrong RxAdd, or one that
   rejects a proper request, or that reports another remote address *)
Example C25_monitor_rejects_wrong_answers :
  monitor25 cfg_u [(LStart, OSched (Sched 37 0 0)); (Rx (upd conn_ex 0 5), OAcc peer_ex)] = Some (1%nat, t_accept_iff)
  /\ monitor25 cfg_u [(LStart, OSched (Sched 37 0 0)); (Rx conn_ex, ORej (Sched 38 0 0))] = Some (1%nat, t_accept_iff)
  /\ monitor25 cfg_u [(LStart, OSched (Sched 37 0 0)); (Rx conn_ex, OAcc own_ex)] = Some (1%nat, t_accept_iff)
  /\ monitor25 cfg_u [(LStart, OSched (Sched 37 0 0)); (Rx conn_ex, OAcc peer_ex)] = None
  /\ monitor25 cfg_u [(ScanReq conn_ex, OBool true)] = Some (0%nat, t_static_iff).
Proof. vm_compute. auto. Qed.

(* change_advertising<>() takes effect with the next PDU: a CONNECT_IND that answers the
   ADV_NONCONN_IND still on air is rejected by the model (which then advertises ADV_IND), and the
   monitor rejects an implementation that judges it against the proposed type instead *)
Definition cfg_m : cfg := mkcfg [TNonConn; TUndirected] false false false 100 2 own_ex (fun _ => true).
Example C25_request_is_judged_against_the_type_on_air :
  map snd (run cfg_m (init cfg_m) [LStart; Chg 1; Rx conn_ex; Rx conn_ex])
    = [OSched (Sched 37 0 2); OSched NoSched; ORej (Sched 38 0 0); OAcc peer_ex]
  /\ monitor25 cfg_m [(LStart, OSched (Sched 37 0 2)); (Chg 1%nat, OSched NoSched); (Rx conn_ex, OAcc peer_ex)]
     = Some (2%nat, t_accept_iff)
  /\ monitor25 cfg_m [(LStart, OSched (Sched 37 0 2)); (Chg 1%nat, OSched NoSched); (Rx conn_ex, ORej (Sched 38 0 0));
                      (Chg 0%nat, OSched NoSched); (Rx conn_ex, ORej (Sched 39 0 2))]
     = Some (4%nat, t_accept_iff).
Proof. vm_compute. auto. Qed.

(* ... and one that fails an assert on a received PDU (what directed advertising did for PDUs
   shorter than a header before the repair) *)
Example C25_monitor_rejects_a_fault_on_a_received_pdu :
  monitor25 cfg_d [(DAddr peer_ex, OSched NoSched); (LStart, OSched (Sched 37 0 1)); (Rx [5], OFault)]
  = Some (2%nat, t_fault).
Proof. vm_compute. reflexivity. Qed.

(* constants regenerated from advertising.hpp on every run *)
From BT Require gen.GenAdv.
Example C25_constants_are_the_codes :
  GenAdv.connect_request_code = connect_request_code /\ GenAdv.connect_request_size = N.of_nat connect_request_size
  /\ GenAdv.maximum_adv_request_size = 34
  /\ GenAdv.scan_request_code = scan_request_code /\ GenAdv.scan_request_size = N.of_nat scan_request_size
  /\ GenAdv.address_length = N.of_nat address_length
  /\ GenAdv.header_txaddr_field = header_txaddr_field /\ GenAdv.header_rxaddr_field = header_rxaddr_field
  /\ map pdu_code [TUndirected; TDirected; TNonConn; TScannable]
     = [GenAdv.adv_ind_pdu_type_code; GenAdv.adv_direct_ind_pdu_type_code; GenAdv.adv_nonconn_ind_pdu_type_code;
        GenAdv.adv_scan_ind_pdu_type_code].
Proof. repeat split; reflexivity. Qed.
