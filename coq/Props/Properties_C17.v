(* C17  A PDU failing its integrity check is never acknowledged as delivered.
   Statements only; proofs live in PduBuf/PduBufProofs.v.
   The model has the corrected acknowledge( read_buffer ) (branch fix/C17-mic-failure-acknowledged:
   next_expected_sequence_number_ is not touched). The code before the fix toggled it exactly when
   the PDU was new; the 2-event witness is corpus/C17/mic_new_pdu_acknowledged.trace and the last
   Examples below. *)
From BT Require Import Base.ListX PduBuf.PduBufModel PduBuf.PduBufSpec PduBuf.PduBufProofs.
Local Open Scope N_scope.

(* acknowledge( pdu ) (CRC ok, MIC failed) in ANY state, for any header and payload:
   next_expected_sequence_number_ is unchanged, nothing is put into the receive ring, the receive
   packet counter is not advanced, and the response carries the unchanged NESN - which acknowledges
   the PDU only if it is a retransmission of one accepted before (SN <> NESN). The acknowledgement
   the PDU carries for the peripheral's own last PDU may be used (tc). *)
Theorem C17_mic_failure_is_never_acknowledged :
  forall (cf : cfg) (s : state) (hl : N) (body : list N),
    nesn (fst (step cf s (Mic hl body))) = nesn s /\ rxr (fst (step cf s (Mic hl body))) = rxr s /\
    (snd (step cf s (Mic hl body)) = OPre \/
     exists k sz h b tc, snd (step cf s (Mic hl body)) = OResp k sz h b 0 tc /\ has h nesn_flag = nesn s).
Proof. exact mic_failure_no_ack. Qed.
Print Assumptions C17_mic_failure_is_never_acknowledged.

(* every operation sequence of the model satisfies the C17 clauses of the monitor *)
Theorem C17_monitor_accepts_every_model_trace :
  forall (cf : cfg) (ops : list op), monitor P17 cf (run cf (init cf) ops) = None.
Proof. exact (monitor_accepts_model P17). Qed.
Print Assumptions C17_monitor_accepts_every_model_trace.

(* In the closed loop with MIC failures at arbitrary connection events (fate ReqMic), any number, any
   position: delivery stays exactly-once and in order (end_to_end): a PDU of the central whose MIC
   check failed is delivered after its retransmission, or it is the retransmission of a PDU already
   delivered and is not delivered again. *)
Theorem C17_delivery_with_mic_failures :
  forall (cf : cfg) (evs : list event),
    Forall (fun e => event_ok e = true) evs ->
    exists m g,
      grun (minit cf) g0 (snd (sys_run cf (cen_init, init cf) evs)) = Some (m, g) /\
      end_to_end (fst (fst (sys_run cf (cen_init, init cf) evs)))
                 (snd (fst (sys_run cf (cen_init, init cf) evs))) m g.
Proof. exact closed_loop_end_to_end. Qed.
Print Assumptions C17_delivery_with_mic_failures.

(* the nRF52 interrupt handler (modelled, not tied): acknowledge() is chosen exactly for "anchor valid,
   CRC ok, PDU not valid (MIC failed / not decrypted), receive buffer available" *)
Theorem C17_isr_decision_table :
  forall a p c b,
    (isr_decide a p c b = ActAcknowledge <-> (a = true /\ c = true /\ p = false /\ b = true)) /\
    (isr_decide a p c b = ActReceived <-> (a = true /\ c = true /\ p = true /\ b = true)) /\
    (isr_decide a p c b = ActNone <-> (a = false \/ (p = false /\ c = false))).
Proof. exact isr_table. Qed.
Print Assumptions C17_isr_decision_table.

(* received_pdu() of the crypto radio (modelled, not tied): valid_crc is always reported true (a CRC
   error shows as missing anchor), and an empty PDU is never reported as MIC failure *)
Theorem C17_received_pdu_flags :
  forall crc payload enc size mic bus endc,
    let '(a, p, c) := received_pdu_flags crc payload enc size mic bus endc in
    c = true /\ (crc = false -> a = false) /\ (size = 0 -> a = true -> p = true).
Proof. exact received_pdu_flags_facts. Qed.
Print Assumptions C17_received_pdu_flags.

(* ---- non-vacuity ---- *)
Definition ex_cfg : cfg := mkC 0 100 100.

(* the witness in closed loop: the central's first PDU [170] arrives with a bad MIC, then intact:
   it is delivered once, and the central's second PDU after it *)
Definition ex_events : list event :=
  [ EConn (2, [170]) false ReqMic false; EConn (2, [187]) false ReqOk false; EConn (2, [187]) false ReqOk false;
    EConn (2, [204]) false ReqMic false ].
Example C17_events_wellformed : Forall (fun e => event_ok e = true) ex_events.
Proof. repeat constructor. Qed.
Example C17_example_run :
  let r := sys_run ex_cfg (cen_init, init ex_cfg) ex_events in
  map (fun e => e_body e) (r_q (rxr (snd (fst r)))) = [[170]; [187]] /\ c_done (fst (fst r)) = [(2, [170]); (2, [187])] /\
  map snd (snd r) = [OResp KA 2 1 [] 0 0; OResp KR 2 13 [] 1 0; OResp KR 2 1 [] 1 0; OResp KA 2 9 [] 0 0].
Proof. vm_compute. repeat split. Qed.

(* the observed behaviour of the code before the fix: `mic 01 aa` answered with NESN = 1
   (header 05), then the central's next PDU (SN = 1) accepted in its place *)
Example C17_monitor_rejects_the_witness :
  monitor P17 ex_cfg
    [ (Mic 1 [170], OResp KA 2 5 [] 0 0); (Rx 9 [187], OResp KR 2 1 [] 1 0); (NextRecv, OPdu 3 2313 [187]) ]
  = Some (0%nat, t_nesn_mic).
Proof. vm_compute. reflexivity. Qed.

(* a MIC-failed PDU handed to the link layer, or counted *)
Example C17_monitor_rejects_stored_mic_failure :
  monitor P17 ex_cfg [ (Mic 1 [170], OResp KA 2 1 [] 0 0); (NextRecv, OPdu 3 257 [170]) ] = Some (1%nat, t_deliver).
Proof. vm_compute. reflexivity. Qed.
Example C17_monitor_rejects_counted_mic_failure :
  monitor P17 ex_cfg [ (Mic 1 [170], OResp KA 2 1 [] 1 0) ] = Some (0%nat, t_mic_counter).
Proof. vm_compute. reflexivity. Qed.

(* the modelled interrupt handler text is the sources': the lints of gen/consts/pdubuf_isr.py make
   GenPduBufIsr fail to compile when the text of the handler's decision or of received_pdu() changes *)
From BT Require gen.GenPduBuf gen.GenPduBufIsr.
Example C17_constants_are_the_codes :
  GenPduBuf.nesn_flag = nesn_flag /\ GenPduBuf.sn_flag = sn_flag /\ GenPduBufIsr.isr_text_checked = true.
Proof. repeat split; reflexivity. Qed.
