(* C27  Link control PDUs get the specified responses.  Statements only; proofs in LL/LLProofs.v. *)
From BT Require Import Base.ListX LL.LLModel LL.LLSpec LL.LLSpecC27 LL.LLProofs LL.LLProofsC27Sim.
From BT Require gen.GenLL.
Import ListNotations.
Local Open Scope N_scope.

(* 1. THE TABLE.  For every opcode 0..255, EVERY size (0..27 by an exhaustive vm_compute sweep lifted with
   forallb_forall, > 27 by case analysis), both values of version_indication_received_ and all four combinations of
   2M PHY / encryption support: the branch of handle_ll_control_data() that is taken ([ctrl_kind], the transcribed
   if-chain) is the class the specification table [spec_kind] gives: the 10 (+4 +2) well formed requests of the
   procedures this link layer takes part in get their class, everything else is "unknown" (answered with
   LL_UNKNOWN_RSP), except LL_UNKNOWN_RSP of a wrong size which is ignored. *)
Theorem C27_dispatch_table :
  forall (c : cfg) (version_received : bool) (opcode size : N),
    opcode < 256 ->
    ctrl_kind c version_received opcode size = spec_kind (c_phy c) (c_enc c) version_received opcode size.
Proof. exact ctrl_kind_is_spec. Qed.
Print Assumptions C27_dispatch_table.

(* 2. THE ANSWERS, for every payload and every state (unbounded): what handle_ll_control_data() commits for a PDU of
   each class - LL_PING_RSP, LL_VERSION_IND (only while none was received), LL_FEATURE_RSP with used /\ remote in the first
   byte and the supported bits above, LL_PHY_RSP, the connection parameter response / reject, LL_UNKNOWN_RSP naming the
   opcode; nothing for LL_UNKNOWN_RSP, LL_REJECT_IND, LL_REJECT_EXT_IND; instant based PDUs are deferred or end the link
   with 0x28; LL_TERMINATE_IND ends it with the given reason.  [opc body] = first byte, 0xff for an empty PDU. *)
Theorem C27_answers :
  forall (c : cfg) (s : lstate_t) (body : list N),
    stopped (bf s) = false ->
    let k := ctrl_kind c (ver_received (pr s)) (opc body) (N.of_nat (length body)) in
    let '(s', it, res) := handle_ll_control c s body in
    match spec_answer k (opc body) with
    | AExact b => committed s s' [(3, b)] /\ res = GoAhead
    | ANone => committed s s' [] /\ res = GoAhead /\ deferred s' = deferred s
    | AFeature =>
        committed s s' [(3, [9; lo8 (N.land (used_features s) (rd16 body 1)); hi8 (supported_features c); 0; 0; 0; 0; 0; 0])]
        /\ used_features s' = N.land (used_features s) (rd16 body 1) /\ res = GoAhead
    | ACpr =>
        res = GoAhead /\
        match c_cpr c with
        | CprNone => committed s s' [(3, if cpr_params_ok body then 16 :: slice body 1 23 else [17; 15; GenLL.invalid_ll_paramerters])]
        | _ => exists l, committed s s' l /\ (length l <= 1)%nat
        end
    | ADeferOrDisconnect =>
        committed s s' [] /\
        ((res = DoDisconnect /\ disc_reason s' = GenLL.connection_instant_passed) \/ (res = GoAhead /\ deferred s' = Some body))
    | ADisconnect => committed s s' [] /\ res = DoDisconnect /\ disc_reason s' = byte body 1
    | AOther => True
    end.
Proof. exact control_pdu_answer. Qed.
Print Assumptions C27_answers.

(* 3. THE 40 s PROCEDURE RESPONSE TIMEOUT, as an invariant over event histories of any length.
   [quiet]: connected, nothing unprocessed, no deferred procedure, no own request waiting to be sent.
   [countdown c s evts]: along the connection events evts (any event flags) in which the central sends nothing, the
   link stays up (and stays quiet, no `closed` callback) exactly while the time since the request was sent is below the
   armed value, each event taking time_since_last_event off the timer; the first event at which the timer is not above
   the elapsed time ends the link with LL Response Timeout (0x22) and goes back to advertising. *)
Theorem C27_unanswered_procedure_ends_the_link :
  forall c : cfg, c_cb c = true ->
  forall (evts : list N) (s : lstate_t), quiet c s -> proc_timeout s <> 0 -> countdown c s evts.
Proof. exact unanswered_procedure_countdown. Qed.
Print Assumptions C27_unanswered_procedure_ends_the_link.

Theorem C27_timeout_step_expired :
  forall c s e s' it,
    st s = Connected -> rxq (bf s) = [] -> ring s = [] -> c_cb c = true ->
    proc_timeout s <> 0 -> proc_timeout s <= tsle (cs s) ->
    do_end_event c s e = Some (s', it) ->
    st s' = Advertising /\ In (ICb (EvClosed GenLL.connection_ll_response_timeout)) it.
Proof. exact end_event_procedure_timeout. Qed.

(* the timer is armed with 40 s when LL_CONNECTION_PARAM_REQ / LL_VERSION_IND are sent on the peripheral's initiative *)
Theorem C27_own_request_arms_timeout :
  forall c s, tx_avail (bf s) = true ->
    (cpr_pending (pr s) = true \/ (phy_pending (pr s) = false /\ ver_pending (pr s) = true)) ->
    proc_timeout (transmit_pending_control_pdus c s) = GenLL.default_procedure_timeout_us.
Proof. exact own_request_arms_timeout. Qed.

(* 4. THE FULL STATEMENT - the specification monitor (LLSpecC27.mstep27: due responses on air in order in the next
   event, a single version indication per connection, every own procedure under the 40 s timeout) accepts every trace
   of the model - is FALSE of the code as it is: *)
Definition C27_monitor_accepts_all_full : Prop := monitor27_accepts_all.
Theorem C27_monitor_accepts_all_refuted : ~ C27_monitor_accepts_all_full.
Proof. exact monitor27_accepts_all_refuted. Qed.
Print Assumptions C27_monitor_accepts_all_refuted.

(* ... with these three witnesses, each replayed on the implementation (corpus/C27, known findings): *)
(* LL_PHY_REQ is sent without arming procedure_timeout_: unanswered for 52 s, the link is still up *)
Theorem C27_phy_request_without_timeout_refuted :
  mrun27 cfg_base (minit27 cfg_base) (trace_of cfg_base witness_phy) = Bad 5.
Proof. exact witness_phy_rejected. Qed.
Theorem C27_phy_request_does_not_arm :
  forall c s, tx_avail (bf s) = true -> cpr_pending (pr s) = false -> phy_pending (pr s) = true ->
    proc_timeout (transmit_pending_control_pdus c s) = proc_timeout s.
Proof. exact phy_request_does_not_arm. Qed.
(* remote_versions_request() and the central's LL_VERSION_IND: two LL_VERSION_IND in one connection *)
Theorem C27_second_version_indication_refuted :
  mrun27 cfg_base (minit27 cfg_base) (trace_of cfg_base witness_version) = Bad 4.
Proof. exact witness_version_rejected. Qed.
(* a continuation fragment (LLID 1) is never removed from the receive queue (MTU 23): the request behind it is never answered *)
Theorem C27_fragment_blocks_reception_refuted :
  mrun27 cfg_base (minit27 cfg_base) (trace_of cfg_base witness_fragment) = Bad 3.
Proof. exact witness_fragment_rejected. Qed.

(* 5. WHAT HOLDS OF THE MONITOR, for operation sequences of any length: inside the environment [env27] the monitor accepts
   the model's trace. [env27 c s ops] is computed along the run (like C40's env_run): every operation is allowed by
   [op_ok27] - no phy_update_request(), no remote_versions_request(), no LLID 1 PDU with a payload (the three known
   findings), PDU bytes are bytes - and no result is FAULT (no delta_time assert fails). [cfg_ok27]: every configuration
   except asynchronous_connection_parameter_request<> (desired_connection_parameters<> with min <= max < 2^16).
   Everything else is inside: all control PDUs of any size and content (also instant based and encryption PDUs,
   disconnect(), cancelation - the monitor stops judging there, the proof shows it does so consistently), L2CAP PDUs,
   a blocked transmit buffer, own connection parameter requests with their 40 s timeout, missed events, reconnects.
   Missing w.r.t. the full statement: exactly the environment (and the asynchronous configuration). *)
Theorem C27_monitor_accepts_partial :
  forall (c : cfg) (ops : list lop),
    cfg_ok27 c = true -> env27 c (linit c) ops = true -> accepts27 c (trace_of c ops).
Proof. exact monitor27_accepts_partial. Qed.
Print Assumptions C27_monitor_accepts_partial.

(* the coupling invariant is kept by every single operation (the induction step of the theorem above) *)
Theorem C27_simulation_step :
  forall c s m o s' r,
    cfg_ok27 c = true -> Sim c s m -> op_ok27 o = true -> lstep c s o = (s', r) -> r <> OCrash ->
    exists m', mstep27 c m o r = (Ok, m') /\ Sim c s' m'.
Proof. exact sim_step. Qed.

(* the answer to LL_CONNECTION_PARAM_REQ lies in the configured ranges (desired_connection_parameters<>), echoes the
   request (no_desired_connection_parameters) or is the reject - for every 24 byte request *)
Theorem C27_connection_parameter_answer :
  forall c s body, cfg_ok27 c = true -> length body = 24%nat ->
    exists r, handle_cpr c s body = (Some r, []) /\ cpr_answer_ok c body r = true.
Proof. exact cpr_answer. Qed.
Print Assumptions C27_connection_parameter_answer.

(* non-vacuity *)
Example C27_monitor_accepts_a_full_session : mrun27 cfg_base (minit27 cfg_base) (trace_of cfg_base session_ok) = Ok.
Proof. exact session_ok_accepted. Qed.
Example C27_session_ends_with_response_timeout :
  exists it, nth_error (trace_of cfg_base session_ok) 19 = Some (Ev 0 [], OItems it) /\ In closed22 it.
Proof. exact session_ok_ends_with_0x22. Qed.
Example C27_environment_is_satisfiable :
  cfg_ok27 cfg_base = true /\ env27 cfg_base (linit cfg_base) session_ok = true.
Proof. vm_compute. split; reflexivity. Qed.
Example C27_environment_excludes_the_witnesses :
  env27 cfg_base (linit cfg_base) witness_phy = false /\ env27 cfg_base (linit cfg_base) witness_version = false
  /\ env27 cfg_base (linit cfg_base) witness_fragment = false.
Proof. vm_compute. repeat split; reflexivity. Qed.
Example C27_environment_holds_for_desired_parameters :
  cfg_ok27 (mk_cfg false false 500 (CprDesired 10 40 1 5 100 300) true 31 [71; 17; 8; 21; 15; 192]) = true.
Proof. reflexivity. Qed.
Example C27_quiet_is_satisfiable :
  quiet cfg_base (lfinal cfg_base (linit cfg_base) [Run; connect_30ms; Ev 0 []]).
Proof. vm_compute. repeat split; reflexivity. Qed.
Example C27_monitor_rejects_a_wrong_response :
  mrun27 cfg_base (minit27 cfg_base)
    [(Run, OItems [IAa 2391391958 5592405; IAdv 37]);
     (connect_30ms, OItems [IAa 2946085722 16154888; ICe 10 14998 18752 30000]);
     (Ev 0 [(3, [18])], OItems [ICe 20 29996 30004 30000]);
     (Ev 0 [], OItems [ITx 3 [7; 18]; ICe 30 29996 30004 30000])] = Bad 1.
Proof. vm_compute. reflexivity. Qed.
Example C27_monitor_rejects_a_missing_response :
  mrun27 cfg_base (minit27 cfg_base)
    [(Run, OItems [IAa 2391391958 5592405; IAdv 37]);
     (connect_30ms, OItems [IAa 2946085722 16154888; ICe 10 14998 18752 30000]);
     (Ev 0 [(3, [18])], OItems [ICe 20 29996 30004 30000]);
     (Ev 0 [], OItems [ICe 30 29996 30004 30000])] = Bad 3.
Proof. vm_compute. reflexivity. Qed.

(* constants regenerated from link_layer.hpp on every run *)
Example C27_opcodes_are_the_core_specification's :
  GenLL.LL_CONNECTION_UPDATE_IND = 0 /\ GenLL.LL_CHANNEL_MAP_REQ = 1 /\ GenLL.LL_TERMINATE_IND = 2 /\ GenLL.LL_ENC_REQ = 3
  /\ GenLL.LL_ENC_RSP = 4 /\ GenLL.LL_START_ENC_REQ = 5 /\ GenLL.LL_START_ENC_RSP = 6 /\ GenLL.LL_UNKNOWN_RSP = 7
  /\ GenLL.LL_FEATURE_REQ = 8 /\ GenLL.LL_FEATURE_RSP = 9 /\ GenLL.LL_PAUSE_ENC_REQ = 10 /\ GenLL.LL_PAUSE_ENC_RSP = 11
  /\ GenLL.LL_VERSION_IND = 12 /\ GenLL.LL_REJECT_IND = 13 /\ GenLL.LL_CONNECTION_PARAM_REQ = 15
  /\ GenLL.LL_CONNECTION_PARAM_RSP = 16 /\ GenLL.LL_REJECT_EXT_IND = 17 /\ GenLL.LL_PING_REQ = 18 /\ GenLL.LL_PING_RSP = 19
  /\ GenLL.LL_PHY_REQ = 22 /\ GenLL.LL_PHY_RSP = 23 /\ GenLL.LL_PHY_UPDATE_IND = 24.
Proof. repeat split; reflexivity. Qed.
Example C27_timeout_constants :
  GenLL.default_procedure_timeout_us = 40000000 /\ GenLL.connection_ll_response_timeout = 34
  /\ GenLL.connection_instant_passed = 40 /\ GenLL.maximum_ll_payload_size = 27.
Proof. repeat split; reflexivity. Qed.
(* the (opcode, size) comparisons found in the source are exactly the well formed requests of the table *)
Example C27_acceptance_comparisons_are_the_table :
  forallb (fun p => match lookup (spec_table true true false) (fst p) (snd p) with Some _ => true | None => false end) GenLL.acceptance
  && (length GenLL.acceptance =? length (spec_table true true false))%nat = true.
Proof. vm_compute. reflexivity. Qed.
