(* C29  Connection lifecycle is reported completely and in order.  Statements only; proofs in LL/LLProofsC29.v.
   Model: LL/LLModel.v (push_event = connection_callbacks<>::...try_push with the result ignored, ring of max_events
   entries; flush_events = handle_connection_events), specification and monitor: LL/LLSpecC29.v. *)
From BT Require Import Base.ListX LL.LLModel LL.LLSpec LL.LLSpecC29 LL.LLProofsC29.
From BT Require gen.GenLL.
From BT Require Ring.RingModel Ring.RingSpec Ring.RingProofs.
Import ListNotations.
Local Open Scope N_scope.

(* The full statement: for every configuration with connection callbacks and every sequence of operations (connect
   requests, connection events with any number of any PDUs, missed events, disconnect(), API calls) the lifecycle monitor
   accepts: per connection  requested ( attempt_timeout | established info* closed ),  each once, nothing unrequested,
   requested / established / closed reported in the operation in which the link starts / has its first event / ends,
   closed with a reason that is a cause of the end of THIS connection as far as the trace shows it (closed_reason:
   0x08 resp. the reason of disconnect() once it was called; 0x22 if a procedure response timer may run; in a connection
   event also 0x28 after an instant based PDU and the error code of a delivered LL_TERMINATE_IND). *)
Definition C29_lifecycle_full : Prop := lifecycle_full.

(* It is FALSE of the code as it is: *)
Theorem C29_lifecycle_refuted : ~ C29_lifecycle_full.
Proof. exact lifecycle_refuted. Qed.
Print Assumptions C29_lifecycle_refuted.

(* ... with these three witnesses (each replayed on the implementation: corpus/C29, known findings).
   1. five callback producing PDUs in one connection event: the ring holds four, ll_connection_closed is dropped *)
Theorem C29_burst_loses_closed :
  fst (mrun29 cfg29 (minit29 cfg29) (lrun cfg29 (linit cfg29) witness_burst)) = Bad 3
  /\ nth_error (lrun cfg29 (linit cfg29) witness_burst) 3
     = Some (Ev 0 [unknown_rsp 17; unknown_rsp 18; unknown_rsp 19; unknown_rsp 20; terminate_ind],
             OItems [IPhy 1 1; IAa advertising_access_address advertising_crc_init; IAdv 37;
                     ICb (EvUnknown 17); ICb (EvUnknown 18); ICb (EvUnknown 19); ICb (EvUnknown 20)]).
Proof. exact (conj witness_burst_rejected witness_burst_output). Qed.
(* 2. the same with ONE PDU per connection event: a pending LL_CHANNEL_MAP_IND holds up handle_received_data() until its
      instant, then all five PDUs are processed in one end_event() *)
Theorem C29_one_pdu_per_event_loses_closed :
  fst (mrun29 cfg29 (minit29 cfg29) (lrun cfg29 (linit cfg29) witness_held)) = Bad 3
  /\ forallb (fun o => match o with Ev _ pdus => Nat.leb (length pdus) 1 | _ => true end) witness_held = true.
Proof. exact (conj witness_held_rejected witness_held_one_pdu_per_event). Qed.
(* 3. disconnect() between the connect request and the first connection event: requested, then closed( 0x16 ) - neither
      established nor attempt_timeout *)
Theorem C29_early_disconnect_skips_established :
  fst (mrun29 cfg29 (minit29 cfg29) (lrun cfg29 (linit cfg29) witness_early_disconnect)) = Bad 7
  /\ flat_map (fun x => match snd x with OItems it => filter (fun i => match i with ICb _ => true | _ => false end) it | _ => [] end)
              (lrun cfg29 (linit cfg29) witness_early_disconnect)
     = [ICb (EvRequested (mk_details 24 0 72 150)); ICb (EvClosed 22)].
Proof. exact (conj witness_early_disconnect_rejected witness_early_disconnect_callbacks). Qed.

(* What does hold, for every configuration with callbacks and every operation sequence of ANY length: if every operation
   of the history delivers fewer than max_events callbacks (then no try_push can have failed - the ring is drained at the
   end of every operation), disconnect() is not called between requested and established, and no assert fails
   (env29, decided on the observed trace), the monitor accepts. What is missing w.r.t. the full statement is exactly this
   environment hypothesis. *)
Theorem C29_lifecycle_partial :
  forall (c : cfg) (ops : list lop),
    c_cb c = true -> env29 c (minit29 c) (lrun c (linit c) ops) = true -> accepts29 c (lrun c (linit c) ops).
Proof. exact lifecycle_partial. Qed.
Print Assumptions C29_lifecycle_partial.

(* one operation: the simulation step of the induction *)
Theorem C29_step :
  forall c s m o s' r, c_cb c = true -> RI s m -> lstep c s o = (s', r) -> env_step29 m o r = true ->
    exists m', mstep29 c m o r = (Ok, m') /\ RI s' m'.
Proof. exact step29. Qed.
Print Assumptions C29_step.

(* ---- non-vacuity of the environment: a session with every kind of callback, a burst of two, a remote termination, a
   connection attempt that times out, a local disconnect *)
Example C29_env_nonvacuous : env29 cfg29 (minit29 cfg29) (lrun cfg29 (linit cfg29) session29) = true.
Proof. exact session29_env. Qed.
Example C29_session_callbacks :
  flat_map (fun x => match snd x with OItems it => flat_map (fun i => match i with ICb e => [e] | _ => [] end) it | _ => [] end)
           (lrun cfg29 (linit cfg29) session29)
  = [EvRequested (mk_details 24 0 72 150); EvEstablished (mk_details 24 0 72 150); EvVersion 9 617 0; EvUnknown 15;
     EvFeatures [255; 0; 0; 0; 0; 0; 0; 0]; EvRejected 26; EvPhy 0 0; EvClosed 19;
     EvRequested (mk_details 24 0 72 150); EvAttemptTimeout;
     EvRequested (mk_details 24 0 72 150); EvEstablished (mk_details 24 0 72 150); EvClosed 22].
Proof. exact session29_callbacks. Qed.

(* ---- the monitor is not trivially accepting *)
Example C29_monitor_rejects_closed_twice :
  fst (mrun29 cfg29 (minit29 cfg29)
         [(connect29, OItems [ICe 1 2 3 4; ICb (EvRequested (mk_details 24 0 72 150))]); (Ev 0 [], OItems [ICb (EvEstablished (mk_details 24 0 72 150))]);
          (Ev 0 [terminate_ind], OItems [IAdv 37; ICb (EvClosed 19); ICb (EvClosed 19)])]) = Bad 2.
Proof. exact monitor29_rejects_closed_twice. Qed.
(* closed_reason: two connections in one history; the first is ended by LL_TERMINATE_IND( 0x13 ), the second by the
   supervision timeout - reported with the stale 0x13 the trace is rejected, with 0x08 it is accepted *)
Example C29_monitor_rejects_stale_reason : fst (mrun29 cfg29 (minit29 cfg29) (two_connections 19)) = Bad 9.
Proof. exact monitor29_rejects_stale_reason. Qed.
Example C29_monitor_accepts_proper_reason : fst (mrun29 cfg29 (minit29 cfg29) (two_connections 8)) = Ok.
Proof. exact monitor29_accepts_proper_reason. Qed.
(* the model: four connections in one history, four causes (LL_TERMINATE_IND 0x13, disconnect( 0x3b ), instant passed,
   supervision timeout), each closed with its own reason, accepted *)
Example C29_model_reports_the_cause_of_each_connection :
  flat_map (fun x => match snd x with OItems it => flat_map (fun i => match i with ICb (EvClosed r) => [r] | _ => [] end) it | _ => [] end)
           (lrun cfg29 (linit cfg29) session29_reasons) = [19; 59; 40; 8]
  /\ fst (mrun29 cfg29 (minit29 cfg29) (lrun cfg29 (linit cfg29) session29_reasons)) = Ok.
Proof. exact session29_reasons_closed. Qed.
Example C29_monitor_rejects_unrequested :
  fst (mrun29 cfg29 (minit29 cfg29) [(Ev 0 [], OItems [ICb (EvChanged (mk_details 24 0 72 150))])]) = Bad 4.
Proof. exact monitor29_rejects_unrequested. Qed.
Example C29_monitor_rejects_established_and_timeout :
  fst (mrun29 cfg29 (minit29 cfg29)
         [(connect29, OItems [ICe 1 2 3 4; ICb (EvRequested (mk_details 24 0 72 150))]); (Ev 0 [], OItems [ICb (EvEstablished (mk_details 24 0 72 150))]);
          (Timeout, OItems [IAdv 37; ICb EvAttemptTimeout])]) = Bad 5.
Proof. exact monitor29_rejects_established_and_timeout. Qed.
Example C29_monitor_rejects_missing_requested :
  fst (mrun29 cfg29 (minit29 cfg29) [(connect29, OItems [IAa 1 2; ICe 1 2 3 4])]) = Bad 6.
Proof. exact monitor29_rejects_missing_requested. Qed.

(* ---- the ring itself (bluetoe/utility/ring.hpp, property C30), instantiated with connection_callbacks<>'s capacity:
   under ANY interleaving of try_push / try_pop - in particular the sequential use the link layer makes of it - what is
   popped is a prefix of what was pushed successfully, in order, and a try_push fails only while max_events elements are
   pending. This is what the model's [push_event] / [flush_events] (a list with a bound) abstracts. *)
Theorem C29_ring_delivers_pushed_events_in_order :
  forall (ops : list RingModel.op),
    let S := N.to_nat GenLL.max_events in
    exists q, RingSpec.pushed (RingModel.run (RingModel.init S) ops) = RingSpec.popped (RingModel.run (RingModel.init S) ops) ++ q
              /\ RingSpec.pending (RingModel.run (RingModel.init S) ops) = q /\ (length q <= S)%nat.
Proof. exact (RingProofs.popped_prefix_of_pushed (N.to_nat GenLL.max_events)). Qed.
Print Assumptions C29_ring_delivers_pushed_events_in_order.
Theorem C29_ring_refuses_only_when_full :
  forall (ops : list RingModel.op) tr1 v x mid v' a tr2,
    let S := N.to_nat GenLL.max_events in
    RingModel.run (RingModel.init S) ops
      = tr1 ++ (RingModel.OpP v, RingModel.Out (RingModel.LdR x) RingModel.RNone) :: mid ++ (RingModel.OpP v', RingModel.Out a RingModel.RFail) :: tr2 ->
    RingSpec.consumer_only mid ->
    length (RingSpec.pending tr1) = S.
Proof.
  intros ops tr1 v x mid v' a tr2 S H C.
  exact (proj1 (RingProofs.push_fails_only_when_full S ops tr1 v x mid v' a tr2 H C)).
Qed.
Print Assumptions C29_ring_refuses_only_when_full.

(* ---- the constant read from connection_callbacks.hpp on every run *)
Example C29_ring_size : GenLL.max_events = 4.
Proof. reflexivity. Qed.
(* ---- the reasons read from link_layer.hpp on every run = the monitor's specification constants (Core Vol 1 Part F) *)
Example C29_reasons_are_the_specifications :
  GenLL.connection_timeout = 8 /\ GenLL.connection_terminated_by_local_host = 22
  /\ GenLL.connection_ll_response_timeout = 34 /\ GenLL.connection_instant_passed = 40.
Proof. repeat split; reflexivity. Qed.
