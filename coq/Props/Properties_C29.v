(* C29  Connection lifecycle is reported completely and in order.  (placeholder while the proofs are written) *)
From BT Require Import Base.ListX LL.LLModel LL.LLSpec LL.LLSpecC29.
Import ListNotations.
Local Open Scope N_scope.
Example C29_placeholder : l_phase (minit29 (mk_cfg true true 500 CprNone true 31 [])) = LIdle.
Proof. reflexivity. Qed.
