(* C02  Discovery returns exactly the in-range matching attributes.
   Statements only; proofs live in AttSrv/AttSrvProofsC02.v.

   Spec (AttSrvSpecC02.v): [table c] = the declared attributes in declaration order with the handles the
   declaration assigns (AttDbSpec.assign: next = max( previous + 1, requested )); [matching c k lo hi] = its
   entries with lo <= handle <= hi and the requested type (KInfo: all; KType ty: that 16 / 128 bit type;
   KGroup: primary service declarations); [discover_all]: the client procedure that re-issues the request
   behind the last returned handle. The model is coq/AttSrv/AttSrvModel.v after the repairs of branch
   fix/C02-C03-discovery (ending handles compared as handles, Attribute Not Found for an empty Find
   Information list, 128 bit types in Read By Type). NOT repaired, hence transcribed (baseline unit tests
   require the behaviour): Find Information / Read By Type SKIP an attribute of the other uuid format /
   another value length and go on - statements (a)/(c) are refuted for them and the rest is proved.
   All theorems: for EVERY configuration with wf c (any number of services and characteristics, any fixed
   handles and gaps) without include_service<> (C04's finding), every (lo, hi), every type, every
   out_size >= 23 (every MTU), every state. *)
From BT Require Import Base.ListX AttDb.AttDbModel AttDb.AttDbSpec AttDb.AttDbProofs AttDb.AttDbExamples NQueue.NQueueModel
  AttSrv.AttSrvModel AttSrv.AttSrvSpecC02 AttSrv.AttSrvSpecC03 AttSrv.AttSrvProofsC02 AttSrv.AttSrvProofsC03
  AttSrv.AttSrvProofsDiscMon AttSrv.AttSrvProofsNoFault AttSrv.AttSrvExamplesDisc.
Local Open Scope N_scope.

(* ---- (c), abstract: ANY responder that answers every lo..hi with a non-empty prefix of the in-range
   elements of a strictly increasing handle list (and a handle to continue behind), or with "not found"
   exactly if there is none, is enumerated exactly by the client procedure with fuel > number of elements *)
Theorem C02_discover_all_enumerates :
  forall l hi r,
    increasing_from 0 l = true -> (forall h, In h l -> h <= 65535) -> good_responder l hi r ->
    forall fuel lo, 1 <= lo -> (length (hrange l lo hi) < fuel)%nat -> discover_all fuel r lo hi = hrange l lo hi.
Proof. exact discover_all_enumerates. Qed.
Print Assumptions C02_discover_all_enumerates.

(* ---- the model reads the table: index based accessors of the code = the declaration *)
Theorem C02_model_reads_the_table :
  forall c i, wf c -> no_includes c -> i < number_of_attributes c ->
    exists a, attribute_at c i = Some a /\ nth_error (table c) (N.to_nat i) = Some (handle_by_index c i, erase a).
Proof. exact table_nth. Qed.
Print Assumptions C02_model_reads_the_table.

(* ---- what "the returned handles are a subsequence of the matching handles" (Find Information, Read By
   Type below) amounts to: strictly ascending, every handle in lo..hi and the handle of a declared attribute
   of the requested type *)
Theorem C02_subsequence_of_matching :
  forall c k lo hi hs, wf c -> no_includes c -> subseq hs (map fst (matching c k lo hi)) ->
    increasing_from 0 hs = true
    /\ forall h, In h hs -> in_range lo hi h = true /\ exists a, In (h, a) (table c) /\ type_matches k a = true.
Proof. exact subseq_of_matching. Qed.
Print Assumptions C02_subsequence_of_matching.

(* ---- Read By Group Type <<Primary Service>>: (a), (b), (c) in full.
   The response is determined by W = walk_first ..: Attribute Not Found if W = [], else the encoding of W *)
Theorem C02_read_by_group_type_response :
  forall c a0 a1 x0 x1 b out_size r,
    wf c -> no_includes c -> a0 < 256 -> a1 < 256 -> x0 < 256 -> x1 < 256 ->
    1 <= w16 a0 a1 -> w16 a0 a1 <= w16 x0 x1 -> 23 <= out_size -> out_size <= len b ->
    handle_read_by_group_type c [16; a0; a1; x0; x1; 0; 40] b out_size = Some r ->
    rbg_response (walk_first (groups c) (w16 a0 a1) (w16 x0 x1) (out_size - 2)) a0 a1 out_size r.
Proof. exact read_by_group_type_spec. Qed.
Print Assumptions C02_read_by_group_type_response.

(* W is a prefix of [matching c KGroup lo hi], empty only if that is empty *)
Theorem C02_read_by_group_type_prefix_of_matching :
  forall c lo hi out_size, wf c -> no_includes c -> 23 <= out_size ->
    let W := walk_first (groups c) lo hi (out_size - 2) in
    exists rest, matching c KGroup lo hi = map gentry W ++ map gentry rest
                 /\ (W = [] -> matching c KGroup lo hi = []).
Proof.
  intros c lo hi out_size Hw Hn Ho W.
  destruct (walk_first_spec (groups c) lo hi (out_size - 2) ltac:(lia)) as (rest & W1 & W2 & _).
  exists rest. rewrite matching_groups by auto. fold W in W1, W2. split.
  - rewrite W1, map_app. reflexivity.
  - intros E. rewrite W2 by exact E. reflexivity.
Qed.
Print Assumptions C02_read_by_group_type_prefix_of_matching.

Theorem C02_read_by_group_type_discover_all :
  forall c out_size hi, wf c -> no_includes c -> 23 <= out_size ->
    forall lo, 1 <= lo ->
      discover_all (S (length (groups c))) (rbg_responder c out_size) lo hi = hrange (primary_starts c) lo hi.
Proof. exact rbg_discover_all. Qed.
Print Assumptions C02_read_by_group_type_discover_all.

(* maximality ("as far as fits"): the reported services W are followed, in [matching], by a service only if it
   has another uuid size than the first or does not fit: (out_size - 2) - size * |W| < size, out_size being
   min( buffer, negotiated MTU ) *)
Theorem C02_read_by_group_type_maximal :
  forall c lo hi out_size, wf c -> no_includes c -> 23 <= out_size ->
    match walk_first (groups c) lo hi (out_size - 2) with
    | [] => matching c KGroup lo hi = []
    | g :: W =>
        exists rest, matching c KGroup lo hi = map gentry ((g :: W) ++ rest)
                     /\ rbg_stop_reason (is_128bit (s_uuid (snd g))) (out_size - 2) (g :: W) rest
    end.
Proof. exact rbg_maximal. Qed.
Print Assumptions C02_read_by_group_type_maximal.

(* ---- Find Information: (b) in full; (a) as far as it holds: the response holds the FIRST matching
   attribute, then a subsequence of the remaining ones (hence in range, with their types, ascending), and
   it is a prefix if the matching attributes all have the uuid format of the first; (c) if no attribute has
   a 128 bit type *)
Theorem C02_find_information_partial :
  forall c a0 a1 x0 x1 b out_size r,
    wf c -> no_includes c -> a0 < 256 -> a1 < 256 -> x0 < 256 -> x1 < 256 ->
    1 <= w16 a0 a1 -> w16 a0 a1 <= w16 x0 x1 -> 23 <= out_size -> out_size <= len b ->
    handle_find_information c [4; a0; a1; x0; x1] b out_size = Some r ->
    match matching c KInfo (w16 a0 a1) (w16 x0 x1) with
    | [] => snd r = 5 /\ seg 0 5 (fst r) = [1; 4; a0; a1; 10]
    | x :: M =>
        exists R, subseq R M
          /\ snd r <= out_size /\ snd r <= len (fst r)
          /\ seg 0 (snd r) (fst r) = 5 :: info_hdr x :: flat_map fenc (x :: R)
          /\ ((forall y, In y M -> is16 (snd y) = is16 (snd x)) -> exists rest, M = R ++ rest)
    end.
Proof. exact find_information_matching. Qed.
Print Assumptions C02_find_information_partial.

(* the response, completely: determined by the walk over the table from lo on *)
Theorem C02_find_information_response :
  forall c a0 a1 x0 x1 b out_size r,
    wf c -> no_includes c -> a0 < 256 -> a1 < 256 -> x0 < 256 -> x1 < 256 ->
    1 <= w16 a0 a1 -> w16 a0 a1 <= w16 x0 x1 -> 23 <= out_size -> out_size <= len b ->
    handle_find_information c [4; a0; a1; x0; x1] b out_size = Some r ->
    fi_response c (w16 a0 a1) (w16 x0 x1) a0 a1 out_size r.
Proof. exact find_information_spec. Qed.
Print Assumptions C02_find_information_response.

(* maximality: Wk = the reported pairs (C02_find_information_partial's x :: R is this walk); among the
   matching attributes of the uuid format of the first one, Wk is a prefix, and it ends in front of one of
   them only if no further pair fits: (out_size - 2) - size * |Wk| < size *)
Theorem C02_find_information_maximal :
  forall c lo hi out_size x W, wf c -> no_includes c -> from_handle lo (table c) = x :: W ->
    let Wk := fi_walk (x :: W) hi (is16 (snd x)) (out_size - 2) in
    exists rest,
      filter (fun y => Bool.eqb (is16 (snd x)) (is16 (snd y))) (matching c KInfo lo hi) = Wk ++ rest
      /\ (rest <> [] -> out_size - 2 - fsize (is16 (snd x)) * len Wk < fsize (is16 (snd x))).
Proof. exact fi_maximal. Qed.
Print Assumptions C02_find_information_maximal.

Theorem C02_find_information_discover_all_16bit :
  forall c out_size hi, wf c -> no_includes c -> 23 <= out_size ->
    (forall x, In x (table c) -> is16 (snd x) = true) ->
    forall lo, 1 <= lo ->
      discover_all (S (length (assign c))) (fi_responder c out_size) lo hi = hrange (assign c) lo hi.
Proof. exact fi_discover_all. Qed.
Print Assumptions C02_find_information_discover_all_16bit.

(* (c) in full for Find Information is false: cfg_basic3 has a 128 bit characteristic value at handle 5 (and
   13); a client never sees them *)
Definition C02_find_information_discover_all_full : Prop :=
  forall c out_size hi, wf c -> no_includes c -> 23 <= out_size ->
    forall lo, 1 <= lo ->
      discover_all (S (length (assign c))) (fi_responder c out_size) lo hi = hrange (assign c) lo hi.

Theorem C02_find_information_discover_all_refuted : ~ C02_find_information_discover_all_full.
Proof.
  intros H. specialize (H cfg_basic3 23 65535 ltac:(vm_compute; reflexivity) ltac:(vm_compute; reflexivity)
                          ltac:(vm_compute; intros X; discriminate X) 1 ltac:(vm_compute; intros X; discriminate X)).
  vm_compute in H. discriminate H.
Qed.
Print Assumptions C02_find_information_discover_all_refuted.

(* ---- Read By Type: what holds of the code as it is (out_size <= 257; any type but the marker 0x0001) *)
Theorem C02_read_by_type_partial :
  forall c st cid a0 a1 x0 x1 tyb ty b out_size st' r,
    wf c -> no_includes c -> a0 < 256 -> a1 < 256 -> x0 < 256 -> x1 < 256 ->
    req_type tyb = Some ty -> ty <> U16 internal_128bit_uuid ->
    1 <= w16 a0 a1 -> w16 a0 a1 <= w16 x0 x1 -> 23 <= out_size -> out_size <= 257 -> out_size <= len b ->
    handle_read_by_type c st cid (8 :: a0 :: a1 :: x0 :: x1 :: tyb) b out_size = Some (st', r) ->
    (snd r = 5 /\ seg 0 5 (fst r) = [1; 8; a0; a1; 10])
    \/ (exists E sz, E <> [] /\ subseq (map fst E) (map fst (matching c (KType ty) (w16 a0 a1) (w16 x0 x1)))
          /\ (forall x, In x E -> len (snd x) + 2 = sz)
          /\ snd r <= out_size /\ snd r <= len (fst r)
          /\ seg 0 (snd r) (fst r) = 9 :: sz :: flat_map ebytes E).
Proof. exact read_by_type_partial. Qed.
Print Assumptions C02_read_by_type_partial.

Theorem C02_read_by_type_not_found_if_none :
  forall c st cid a0 a1 x0 x1 tyb ty b out_size st' r,
    wf c -> no_includes c -> a0 < 256 -> a1 < 256 -> x0 < 256 -> x1 < 256 ->
    req_type tyb = Some ty -> ty <> U16 internal_128bit_uuid ->
    1 <= w16 a0 a1 -> w16 a0 a1 <= w16 x0 x1 -> 23 <= out_size -> out_size <= 257 -> out_size <= len b ->
    handle_read_by_type c st cid (8 :: a0 :: a1 :: x0 :: x1 :: tyb) b out_size = Some (st', r) ->
    matching c (KType ty) (w16 a0 a1) (w16 x0 x1) = [] ->
    snd r = 5 /\ seg 0 5 (fst r) = [1; 8; a0; a1; 10].
Proof. exact read_by_type_not_found_if_none. Qed.
Print Assumptions C02_read_by_type_not_found_if_none.

(* the byte level statement for EVERY out_size: collect_attributes::size() is 8 bit wide, the response is cut to
   2 + (|entry bytes| mod 256) bytes - the first bytes of the entry list (for out_size <= 257 nothing is cut:
   C02_read_by_type_partial) *)
Theorem C02_read_by_type_bytes :
  forall c st cid a0 a1 x0 x1 tyb ty b out_size st' r,
    wf c -> no_includes c -> a0 < 256 -> a1 < 256 -> x0 < 256 -> x1 < 256 ->
    req_type tyb = Some ty -> ty <> U16 internal_128bit_uuid ->
    1 <= w16 a0 a1 -> w16 a0 a1 <= w16 x0 x1 -> 23 <= out_size -> out_size <= len b ->
    handle_read_by_type c st cid (8 :: a0 :: a1 :: x0 :: x1 :: tyb) b out_size = Some (st', r) ->
    (snd r = 5 /\ seg 0 5 (fst r) = [1; 8; a0; a1; 10])
    \/ (exists E sz, E <> [] /\ subseq (map fst E) (map fst (matching c (KType ty) (w16 a0 a1) (w16 x0 x1)))
          /\ (forall x, In x E -> len (snd x) + 2 = sz)
          /\ 2 + len (flat_map ebytes E) <= out_size
          /\ snd r = 2 + len (flat_map ebytes E) mod 256 /\ snd r <= len (fst r)
          /\ seg 0 (snd r) (fst r) = 9 :: sz :: firstn (N.to_nat (len (flat_map ebytes E) mod 256)) (flat_map ebytes E)).
Proof. exact read_by_type_bytes. Qed.
Print Assumptions C02_read_by_type_bytes.

(* (b), the other direction, as far as the code supports it: if some matching attribute is readable in every
   state ([readable]: no encryption requirement, read access), the request is answered with a Read By Type
   Response, never with Attribute Not Found - in every reachable or unreachable state, for every out_size *)
Theorem C02_read_by_type_answers_readable :
  forall c st cid kk a0 a1 x0 x1 tyb ty b out_size st' r,
    wf c -> no_includes c -> get_conn st cid = Some kk ->
    a0 < 256 -> a1 < 256 -> x0 < 256 -> x1 < 256 ->
    req_type tyb = Some ty -> ty <> U16 internal_128bit_uuid ->
    1 <= w16 a0 a1 -> w16 a0 a1 <= w16 x0 x1 -> 23 <= out_size -> out_size <= len b ->
    handle_read_by_type c st cid (8 :: a0 :: a1 :: x0 :: x1 :: tyb) b out_size = Some (st', r) ->
    existsb (fun x => readable c (snd x)) (matching c (KType ty) (w16 a0 a1) (w16 x0 x1)) = true ->
    1 <= snd r /\ nth 0 (fst r) 0 = 9.
Proof. exact read_by_type_answers_readable. Qed.
Print Assumptions C02_read_by_type_answers_readable.

(* ---- the full statement: the executable monitor (all clauses, including prefix_of_matching and
   enumerate_exact) accepts every trace of the model. FALSE of the code as it is: *)
Definition C02_monitor_accepts_model_full : Prop :=
  forall c ops, wf c -> no_includes c -> c02_monitor c (srv_run c (srv_init c) ops) = None.

(* Find Information 3..11 on cfg_basic3: the 128 bit value at 5 is left out, 6 7 8 follow *)
Theorem C02_prefix_find_information_refuted : ~ C02_monitor_accepts_model_full.
Proof.
  intros H. specialize (H cfg_basic3 [OpIn O [4; 3; 0; 11; 0] 64] ltac:(vm_compute; reflexivity) ltac:(vm_compute; reflexivity)).
  vm_compute in H. discriminate H.
Qed.
Print Assumptions C02_prefix_find_information_refuted.

(* Read By Type 0x2a00 on cfg_disc_gap_first: values of length 1, 2, 1 at handles 7, 9, 11; 9 is left out *)
Theorem C02_prefix_read_by_type_refuted :
  map fst (matching cfg_disc_gap_first (KType (U16 10752)) 1 65535) = [7; 9; 11]
  /\ (exists st', att_input cfg_disc_gap_first (srv_init cfg_disc_gap_first) O [8; 1; 0; 255; 255; 0; 42] 64
                  = Some (st', [9; 3; 7; 0; 1; 11; 0; 75]))
  /\ c02_monitor cfg_disc_gap_first (srv_run cfg_disc_gap_first (srv_init cfg_disc_gap_first) [OpIn O [8; 1; 0; 255; 255; 0; 42] 64])
     = Some (O, dt_prefix).
Proof. split; [vm_compute; reflexivity|]. split; [eexists; vm_compute; reflexivity|vm_compute; reflexivity]. Qed.
Print Assumptions C02_prefix_read_by_type_refuted.

(* ---- the partial version of the monitor theorem. [c02_regular c] is an executable predicate on the
   configuration under which neither skip finding can occur:
     all_16bit     no attribute has a 128 bit type (uniform uuid format in every Find Information range)
     rbt_regular   any two attributes of the same type have the same STATE INDEPENDENT value length
                   (service / characteristic declarations, CCCDs, descriptors, fixed and string values;
                   a bound variable or handler value only if its type occurs once)
     max_mtu <= 257  the 8 bit collect_attributes::size() cannot cut a response
   On such configurations the monitor (all clauses, incl. prefix_of_matching and enumerate_exact) accepts every
   fault free trace of the model, of ANY length, from every state: requests of bytes, Read By Type for every type
   but the internal marker 0x0001. (FAULT = C01 (a), proved only for requests that touch no attribute.) Proof for
   Read By Type: loop invariant "the attributes of the type processed so far = P1 ++ P2, P1 covered exactly by
   the collected handles up to non-readable ones, every element of P2 skipped for a reason that also blocks
   every later attribute of the same static length". *)
Theorem C02_monitor_accepts_model_partial :
  forall c, wf c -> no_includes c -> c02_regular c = true ->
    forall ops st, forallb op_bytes ops = true -> forallb no_marker_type ops = true ->
      Forall (fun p => snd p <> OFault) (srv_run c st ops) ->
      c02_monitor c (srv_run c st ops) = None.
Proof.
  intros c Hw Hn Hu ops st Hb Hr Hf. apply c02_monitor_accepts_regular; auto. apply mon_inv_init.
Qed.
Print Assumptions C02_monitor_accepts_model_partial.

(* ... and without any premise on the outputs: every request history of any length from the initial state
   (requests of bytes, connection numbers 0..2, no Read By Type for the marker 0x0001). In addition: every
   reachable state has three connections with a client MTU >= 23, and on such a state Find Information, Read By
   Type and Read By Group Type never FAULT on a regular configuration *)
Theorem C02_monitor_accepts_model_regular :
  forall c ops, wf c -> no_includes c -> c02_regular c = true ->
    forallb op_bytes ops = true -> forallb no_marker_type ops = true -> forallb op_conn ops = true ->
    c02_monitor c (srv_run c (srv_init c) ops) = None.
Proof.
  intros c ops Hw Hn Hr Hb Hm Hc. apply c02_monitor_accepts_regular_full; auto; [apply srv_init_ok|apply mon_inv_init].
Qed.
Print Assumptions C02_monitor_accepts_model_regular.

(* with 16 bit types only (value lengths arbitrary, any MTU): histories without Read By Type requests *)
Theorem C02_monitor_accepts_model_partial_16bit :
  forall c, wf c -> no_includes c -> all_16bit c = true ->
    forall ops st, forallb op_bytes ops = true -> forallb no_read_by_type ops = true ->
      Forall (fun p => snd p <> OFault) (srv_run c st ops) ->
      c02_monitor c (srv_run c st ops) = None.
Proof.
  intros c Hw Hn Hu ops st Hb Hr Hf. apply c02_monitor_accepts; auto. apply mon_ok_init.
Qed.
Print Assumptions C02_monitor_accepts_model_partial_16bit.

Example C02_regular_satisfiable :
  wf cfg_priorities /\ no_includes cfg_priorities /\ c02_regular cfg_priorities = true
  /\ wf cfg_cccd9 /\ no_includes cfg_cccd9 /\ c02_regular cfg_cccd9 = true
  /\ all_16bit cfg_disc_uniform = true /\ c02_regular cfg_disc_uniform = false /\ c02_regular cfg_basic3 = false.
Proof. repeat split; vm_compute; reflexivity. Qed.

(* a session on a regular configuration: the model's trace is accepted (also by computation) *)
Example C02_monitor_accepts_priorities :
  c02_monitor cfg_priorities (srv_run cfg_priorities (srv_init cfg_priorities)
    [OpIn O [8; 1; 0; 255; 255; 3; 40] 23; OpIn O [8; 9; 0; 255; 255; 3; 40] 23; OpIn O [4; 1; 0; 255; 255] 23;
     OpIn 1 [16; 1; 0; 255; 255; 0; 40] 23; OpIn O [8; 1; 0; 255; 255; 2; 41] 23]) = None.
Proof. vm_compute. reflexivity. Qed.

(* ---- non-vacuity and witnesses of the repairs *)
Example C02_wf_nonvacuous :
  wf cfg_basic3 /\ no_includes cfg_basic3 /\ wf cfg_fixed_handles /\ no_includes cfg_fixed_handles
  /\ wf cfg_disc_gap_first /\ no_includes cfg_disc_gap_first /\ wf cfg_disc_uniform /\ no_includes cfg_disc_uniform.
Proof. repeat split; vm_compute; reflexivity. Qed.

Example C02_uniform_premise_satisfiable : forallb (fun x => is16 (snd x)) (table cfg_disc_uniform) = true.
Proof. vm_compute. reflexivity. Qed.

Example C02_table_fixed_handles :
  map fst (table cfg_fixed_handles) = [3; 5; 6; 9; 12; 15; 20; 22; 23; 24; 25; 26; 27; 28; 64; 80; 128; 256; 257; 258].
Proof. vm_compute. reflexivity. Qed.

(* fixed_handles: Find Information 7..7 (a gap) and 1..2 (in front of the first attribute): Attribute Not
   Found; Read By Group Type 0x19..0x1a does not report the service at 0x80; Read By Type <<Characteristic>>
   16..19 does not report the declaration at 20 *)
Example C02_repaired_ending_handles :
  exists s1 s2 s3 s4,
    att_input cfg_fixed_handles (srv_init cfg_fixed_handles) O [4; 7; 0; 7; 0] 23 = Some (s1, [1; 4; 7; 0; 10])
    /\ att_input cfg_fixed_handles s1 O [4; 1; 0; 2; 0] 23 = Some (s2, [1; 4; 1; 0; 10])
    /\ att_input cfg_fixed_handles s2 O [16; 25; 0; 26; 0; 0; 40] 23 = Some (s3, [1; 16; 25; 0; 10])
    /\ att_input cfg_fixed_handles s3 O [8; 16; 0; 19; 0; 3; 40] 23 = Some (s4, [1; 8; 16; 0; 10]).
Proof. do 4 eexists. repeat split; vm_compute; reflexivity. Qed.

(* a 128 bit type finds the characteristic value; the marker 0x0001 finds nothing *)
Example C02_repaired_128bit_type :
  exists s1 s2,
    att_input cfg_basic3 (srv_init cfg_basic3) O
      [8; 1; 0; 255; 255; 1; 0; 199; 91; 237; 78; 138; 162; 159; 73; 226; 13; 148; 64; 139; 140] 23 = Some (s1, [9; 4; 5; 0; 38; 49])
    /\ att_input cfg_basic3 s1 O [8; 1; 0; 255; 255; 1; 0] 23 = Some (s2, [1; 8; 1; 0; 10]).
Proof. do 2 eexists. split; vm_compute; reflexivity. Qed.

(* near misses: the Bluetooth base uuid with non-zero upper 16 bits (12342803-0000-1000-8000-00805F9B34FB) is not
   the type 0x2803: Attribute Not Found, and the monitor rejects the characteristic declarations as an answer *)
Example C02_32bit_uuid_is_no_16bit_type :
  (exists s1, att_input cfg_basic3 (srv_init cfg_basic3) O
      [8; 1; 0; 255; 255; 251; 52; 155; 95; 128; 0; 0; 128; 0; 16; 0; 0; 3; 40; 52; 18] 64 = Some (s1, [1; 8; 1; 0; 10]))
  /\ c02_monitor cfg_basic3 [(OpIn O [8; 1; 0; 255; 255; 251; 52; 155; 95; 128; 0; 0; 128; 0; 16; 0; 0; 3; 40; 52; 18] 64,
                              OBytes [9; 7; 2; 0; 2; 3; 0; 0; 42])] = Some (O, dt_type_match).
Proof. split; [eexists; vm_compute; reflexivity|vm_compute; reflexivity]. Qed.

Example C02_discover_all_uniform :
  discover_all 17 (fi_responder cfg_disc_uniform 23) 1 65535 = [1; 2; 3; 4; 5; 6; 7; 8; 9; 10; 11; 12; 13; 14; 15; 16]
  /\ discover_all 5 (rbg_responder cfg_disc_uniform 23) 1 65535 = [1; 9; 16].
Proof. split; vm_compute; reflexivity. Qed.

(* the monitor is not trivially accepting *)
Example C02_monitor_rejects :
  c02_monitor cfg_fixed_handles [(OpIn O [4; 7; 0; 7; 0] 23, OBytes [5; 1])] = Some (O, dt_not_found)
  /\ c02_monitor cfg_fixed_handles [(OpIn O [16; 25; 0; 26; 0; 0; 40] 23, OBytes [17; 6; 128; 0; 2; 1; 18; 24])] = Some (O, dt_in_range)
  /\ c02_monitor cfg_basic3 [(OpIn O [8; 1; 0; 255; 255; 1; 0] 23, OBytes [9; 4; 5; 0; 38; 49])] = Some (O, dt_type_match)
  /\ c02_monitor cfg_basic3 [(OpIn O [4; 1; 0; 255; 255] 23, OBytes [5; 1; 2; 0; 3; 40; 1; 0; 0; 40])] = Some (O, dt_ascending)
  /\ c02_monitor cfg_basic3 [(OpIn O [4; 1; 0; 255; 255] 23, OBytes [5; 1; 1; 0; 0; 40; 3; 0; 0; 42])] = Some (O, dt_prefix)
  /\ c02_monitor cfg_basic3 [(OpIn O [4; 1; 0; 255; 255] 23, OBytes [1; 4; 1; 0; 10])] = Some (O, dt_not_found)
  /\ c02_monitor cfg_basic3 [(OpIn O [4; 0; 0; 255; 255] 23, OBytes [1; 4; 0; 0; 10])] = Some (O, dt_invalid_range).
Proof. repeat split; vm_compute; reflexivity. Qed.

(* a session that ends too early is rejected (enumerate_exact), the complete one is accepted *)
Example C02_monitor_session :
  c02_monitor cfg_disc_uniform
    [(OpIn O [16; 1; 0; 255; 255; 0; 40] 23, OBytes [17; 6; 1; 0; 8; 0; 48; 24; 9; 0; 12; 0; 49; 24]);
     (OpIn O [16; 13; 0; 255; 255; 0; 40] 23, OBytes [17; 6; 16; 0; 16; 0; 51; 24]);
     (OpIn O [16; 17; 0; 255; 255; 0; 40] 23, OBytes [1; 16; 17; 0; 10])] = None
  /\ c02_monitor cfg_disc_uniform
    [(OpIn O [16; 1; 0; 255; 255; 0; 40] 23, OBytes [17; 6; 1; 0; 8; 0; 48; 24; 9; 0; 12; 0; 49; 24]);
     (OpIn O [16; 13; 0; 255; 255; 0; 40] 23, OBytes [1; 16; 13; 0; 10])] = Some (1%nat, dt_not_found).
Proof. split; vm_compute; reflexivity. Qed.

(* constants of the model are the ones of codes.hpp *)
From BT Require gen.GenAttSrv.
Example C02_constants_are_the_codes :
  GenAttSrv.opcode_find_information_request = 4 /\ GenAttSrv.opcode_read_by_type_request = 8
  /\ GenAttSrv.opcode_read_by_group_type_request = 16
  /\ GenAttSrv.att_error_attribute_not_found = err_attribute_not_found /\ GenAttSrv.att_error_invalid_handle = err_invalid_handle.
Proof. repeat split; reflexivity. Qed.
