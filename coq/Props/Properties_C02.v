(* C02  Discovery returns exactly the in-range matching attributes.
   Statements only; proofs live in AttSrv/AttSrvProofsC02.v. *)
From BT Require Import Base.ListX AttDb.AttDbModel AttDb.AttDbSpec AttDb.AttDbExamples NQueue.NQueueModel
  AttSrv.AttSrvModel AttSrv.AttSrvSpecC02 AttSrv.AttSrvExamplesDisc.
Local Open Scope N_scope.

(* ---- non-vacuity *)
Example C02_wf_nonvacuous : wf cfg_disc_gap_first /\ wf cfg_disc_sec_mix /\ wf cfg_disc_sec128 /\ wf cfg_disc_uniform.
Proof. repeat split; vm_compute; reflexivity. Qed.
