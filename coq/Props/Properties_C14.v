(* C14 preliminary *)
From BT Require Import Base.ListX AdvData.AdvDataModel AdvData.AdvDataSpec.
From BT Require gen.GenAdvData.
Example C14_constants_are_the_codes :
  GenAdvData.gap_flags = ad_flags /\ GenAdvData.gap_complete_local_name = ad_complete_name.
Proof. repeat split; reflexivity. Qed.
