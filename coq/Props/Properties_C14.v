(* C14  Advertising and scan response data are well-formed.  Statements only; proofs in AdvData/AdvDataProofs.v.

   cfg is a server declaration (name of any length, appearance option, 16-bit and 128-bit service UUID lists of
   any length, optional connection interval range, static custom data, runtime custom data); wf_cfg says the
   128-bit UUIDs are 16 octets. b is the buffer size, ANY natural number unless stated otherwise. The buffer is
   modelled as b octets pre-filled with 0xAA (fill); a store outside it is the outcome OFault. *)
From BT Require Import Base.ListX AdvData.AdvDataModel AdvData.AdvDataSpec AdvData.AdvDataProofs.

(* 1. Memory safety and framing, every declaration, every runtime state, EVERY buffer size: both calls return
      (no store outside [0,b)), the result is at most b, the buffer keeps its size, and the octets from the
      result on are untouched. *)
Theorem C14_memory_safe :
  forall (c : cfg) (s : state) (b : nat), wf_cfg c ->
    (exists r buf, advertising_data c s b = ORes r buf /\ r <= b /\ length buf = b /\ skipn r buf = repeat fill (b - r)) /\
    (exists r buf, scan_response_data c s b = ORes r buf /\ r <= b /\ length buf = b /\ skipn r buf = repeat fill (b - r)).
Proof. exact memory_safe. Qed.
Print Assumptions C14_memory_safe.

(* 2. The generator equals the abstract generator spec_ads for EVERY buffer size (raw = the octets the code
      stores, i.e. with the length octet reduced mod 256). *)
Theorem C14_generator_is_spec :
  forall (c : cfg) (b : nat), wf_cfg c ->
    size (spec_ads c b) <= b /\
    adv_auto c b = Some (raw (spec_ads c b) ++ repeat fill (b - size (spec_ads c b)), size (spec_ads c b)).
Proof. exact adv_auto_spec. Qed.
Print Assumptions C14_generator_is_spec.

(* 3. Well-formedness of the automatically generated advertising data, every declaration, b <= 259
      (in particular the property's 0..31): the payload is exactly tiled by AD structures (tiles), it fits the
      buffer and 31 octets when b <= 31, empty structures come last, the flags AD is first when b >= 3, and
      every other structure obeys
        name_clause   0x09 carries the whole name; 0x08 carries a non-empty strict prefix of it
        uuid_clause   0x03 / 0x07 carry all UUIDs; 0x02 / 0x06 a non-empty strict prefix of whole UUIDs
        other_clause  only name / UUID list / appearance / interval range structures occur, the latter two
                      with the declared values. *)
Theorem C14_advertising_data_wellformed :
  forall (c : cfg) (s : state) (b : nat), wf_cfg c -> b <= 259 -> runtime_adv c = false -> custom_adv c = None ->
  exists ads,
    advertising_data c s b = ORes (size ads) (flat_map enc ads ++ repeat fill (b - size ads)) /\
    tiles ads (flat_map enc ads) /\ size ads <= b /\ (b <= 31 -> size ads <= 31) /\
    padding_last ads = true /\
    (3 <= b -> exists r, ads = AD ad_flags [6%N] :: r /\
                         forall a, In a r -> name_clause c a /\ uuid_clause c a /\ other_clause c a) /\
    (b < 3 -> forall a, In a ads -> name_clause c a /\ uuid_clause c a /\ other_clause c a).
Proof. exact adv_wellformed. Qed.
Print Assumptions C14_advertising_data_wellformed.

(* 4. The parser (the executable meaning of "tiles") is sound and complete. *)
Theorem C14_parser_sound : forall l ads, parse_ads l = Some ads -> tiles ads l.
Proof. exact parse_ads_sound. Qed.
Theorem C14_parser_complete : forall ads, Forall ad_ok ads -> parse_ads (flat_map enc ads) = Some ads.
Proof. exact parse_ads_complete. Qed.
Print Assumptions C14_parser_sound.
Print Assumptions C14_parser_complete.

(* 5. Custom data: the copy of the first min(size, b) octets (any b); it is tiled whenever the whole data fits
      and the user's data is itself a sequence of AD structures. A truncated copy (b < size) is cut
      mid-structure - documented as the user's responsibility, nothing is claimed there. Runtime data is at
      most 31 octets. *)
Theorem C14_custom_data_is_copied :
  forall c s b d, runtime_adv c = false -> custom_adv c = Some d ->
    advertising_data c s b =
      ORes (Nat.min (length d) b) (firstn (Nat.min (length d) b) d ++ repeat fill (b - Nat.min (length d) b)).
Proof. exact custom_adv_copy. Qed.
Theorem C14_custom_data_tiles_when_it_fits :
  forall (d : list N) b ads, tiles ads d -> length d <= b -> tiles ads (firstn (Nat.min (length d) b) d).
Proof. exact custom_tiles_when_it_fits. Qed.
Theorem C14_runtime_data_bounded : forall d, length (set_runtime d) <= 31.
Proof. exact runtime_data_bounded. Qed.
Print Assumptions C14_custom_data_is_copied.

(* 6. Automatic scan response, after the fix on branch fix/C14-scan-response-buffer, EVERY buffer size:
      nothing for b < 2, otherwise the two empty AD structures. *)
Theorem C14_scan_response_wellformed :
  forall c s b, runtime_scan c = false -> custom_scan c = None ->
  exists ads, scan_response_data c s b = ORes (size ads) (flat_map enc ads ++ repeat fill (b - size ads)) /\
              size ads <= b /\ ads = (if b <? 2 then [] else [Empty; Empty]).
Proof. exact scan_auto_wellformed. Qed.
Print Assumptions C14_scan_response_wellformed.

(* ... and the code as it was (scan_auto_unfixed: buffer[0] = 0; buffer[1] = 0; return 2): *)
Definition C14_unfixed_scan_response_safe_full : Prop := scan_unfixed_safe_full.
Theorem C14_unfixed_scan_response_refuted : ~ C14_unfixed_scan_response_safe_full.
Proof. exact scan_unfixed_refuted. Qed.
Theorem C14_unfixed_scan_response_faults_below_2 : forall b, b < 2 -> scan_auto_unfixed b = None.
Proof. exact scan_unfixed_faults. Qed.
(* what did hold of it: for b >= 2 it is the fixed function *)
Theorem C14_unfixed_scan_response_partial : forall b, 2 <= b -> scan_auto_unfixed b = scan_auto b.
Proof. exact scan_unfixed_ok. Qed.
Print Assumptions C14_unfixed_scan_response_refuted.

(* 7. The monitor accepts every trace of the model: any declaration, any sequence of operations (runtime data
      of any length set at any time, scan_response_data with any buffer size, advertising_data with b <= 259). *)
Theorem C14_monitor_accepts_model :
  forall (c : cfg) (ops : list op), wf_cfg c -> Forall bounded ops -> monitor c (run c (init c) ops) = None.
Proof. exact monitor_accepts_model. Qed.
Print Assumptions C14_monitor_accepts_model.

(* 8. The bound 259 is tight. Without it the statement is FALSE: the length octet of an AD structure is a
      std::uint8_t store, so a name of >= 255 octets in a buffer of >= 260 octets gets a length octet that is
      not its length. Not a defect for legacy advertising (31 octets; advertising.hpp passes 31) - recorded
      as the limit of the unbounded claim. What is missing w.r.t. the full statement is exactly b <= 259. *)
Definition C14_wellformed_any_buffer_full : Prop := wellformed_any_buffer_full.
Theorem C14_wellformed_any_buffer_refuted : ~ C14_wellformed_any_buffer_full.
Proof. exact wellformed_any_buffer_refuted. Qed.
Theorem C14_tiling_fails_at_260 :
  monitor long_name_cfg (run long_name_cfg (init long_name_cfg) [Adv 260]) = Some (0, t_tiling).
Proof. exact tiling_refuted_at_260. Qed.
Print Assumptions C14_wellformed_any_buffer_refuted.

(* ---- non-vacuity ---- *)
Definition ex_cfg : cfg :=
  mkcfg (Some [84; 101; 115; 116]%N) (Some 832%N) [4660; 43981]%N
        [[145; 17; 106; 165; 177; 233; 160; 160; 214; 64; 210; 1; 221; 147; 19; 17]%N]
        (Some (6, 3200)%N) None None false false.
Example C14_wf_nonvacuous : wf_cfg ex_cfg.
Proof. repeat constructor. Qed.
(* a concrete payload: flags, appearance, complete name, complete 16-bit list, (no room for the 128-bit UUID),
   interval range, two empty structures; and a shortened name / incomplete list in a small buffer *)
Example C14_example_31 :
  step ex_cfg (init ex_cfg) (Adv 31) =
    (init ex_cfg, ORes 27 ([2; 1; 6; 3; 25; 64; 3; 5; 9; 84; 101; 115; 116; 5; 3; 52; 18; 205; 171; 5; 18; 6; 0; 128; 12; 0; 0]%N
                           ++ repeat fill 4)).
Proof. vm_compute. reflexivity. Qed.
Example C14_example_shortened :
  spec_ads ex_cfg 10 = [AD ad_flags [6%N]; AD ad_appearance [64; 3]%N; AD ad_short_name [84%N]] /\
  spec_ads ex_cfg 17 = [AD ad_flags [6%N]; AD ad_appearance [64; 3]%N; AD ad_complete_name [84; 101; 115; 116]%N;
                        AD ad_incomplete_16 [52; 18]%N].
Proof. split; vm_compute; reflexivity. Qed.
Example C14_ops_bounded_nonvacuous :
  Forall bounded [SetAdv [1; 2]%N; Adv 0; Adv 3; Adv 31; Adv 259; Scan 0; Scan 1; Scan 1000].
Proof. repeat constructor. Qed.

(* the monitor is not trivially accepting: each clause rejects a concrete bad output *)
Definition one (o : op) (r : out) : option (nat * nat) := monitor ex_cfg [(o, r)].
Example C14_monitor_rejects_fault : one (Scan 1) OFault = Some (0, t_overflow).
Proof. vm_compute. reflexivity. Qed.
Example C14_monitor_rejects_write_past_result : one (Scan 3) (ORes 2 [0; 0; 0]%N) = Some (0, t_overflow).
Proof. vm_compute. reflexivity. Qed.
Example C14_monitor_rejects_result_past_buffer : one (Scan 1) (ORes 2 [0%N]) = Some (0, t_length).
Proof. vm_compute. reflexivity. Qed.
Example C14_monitor_rejects_length_past_payload :
  one (Adv 9) (ORes 9 [2; 1; 6; 7; 25; 64; 3; 0; 0]%N) = Some (0, t_tiling).
Proof. vm_compute. reflexivity. Qed.
Example C14_monitor_rejects_padding_before_structure :
  one (Adv 9) (ORes 9 [2; 1; 6; 0; 0; 3; 25; 64; 3]%N) = Some (0, t_tiling).
Proof. vm_compute. reflexivity. Qed.
Example C14_monitor_rejects_missing_flags :
  one (Adv 9) (ORes 9 [3; 25; 64; 3; 4; 8; 84; 101; 115]%N) = Some (0, t_flags_first).
Proof. vm_compute. reflexivity. Qed.
Example C14_monitor_rejects_truncated_name_marked_complete :
  one (Adv 10) (ORes 10 [2; 1; 6; 3; 25; 64; 3; 2; 9; 84]%N) = Some (0, t_name_kind).
Proof. vm_compute. reflexivity. Qed.
Example C14_monitor_rejects_whole_name_marked_shortened :
  one (Adv 13) (ORes 13 [2; 1; 6; 3; 25; 64; 3; 5; 8; 84; 101; 115; 116]%N) = Some (0, t_name_kind).
Proof. vm_compute. reflexivity. Qed.
Example C14_monitor_rejects_partial_list_marked_complete :
  one (Adv 17) (ORes 17 [2; 1; 6; 3; 25; 64; 3; 5; 9; 84; 101; 115; 116; 3; 3; 52; 18]%N) = Some (0, t_uuid_kind).
Proof. vm_compute. reflexivity. Qed.
Example C14_monitor_rejects_swapped_128_code :
  one (Adv 21) (ORes 21 ([2; 1; 6; 17; 6]%N ++ [145; 17; 106; 165; 177; 233; 160; 160; 214; 64; 210; 1; 221; 147; 19; 17]%N))
    = Some (0, t_uuid_kind).
Proof. vm_compute. reflexivity. Qed.
Example C14_monitor_rejects_wrong_appearance :
  one (Adv 7) (ORes 7 [2; 1; 6; 3; 25; 65; 3]%N) = Some (0, t_ad_type).
Proof. vm_compute. reflexivity. Qed.
Example C14_monitor_rejects_bad_custom_copy :
  monitor (mkcfg None None [] [] None (Some [1; 2; 3]%N) None false false) [(Adv 2, ORes 2 [1; 3]%N)] = Some (0, t_custom).
Proof. vm_compute. reflexivity. Qed.

(* constants regenerated from codes.hpp / the headers on every run *)
From BT Require gen.GenAdvData.
Example C14_constants_are_the_codes :
  GenAdvData.gap_flags = ad_flags /\ GenAdvData.gap_incomplete_service_uuids_16 = ad_incomplete_16 /\
  GenAdvData.gap_complete_service_uuids_16 = ad_complete_16 /\
  GenAdvData.gap_incomplete_service_uuids_128 = ad_incomplete_128 /\
  GenAdvData.gap_complete_service_uuids_128 = ad_complete_128 /\
  GenAdvData.gap_shortened_local_name = ad_short_name /\ GenAdvData.gap_complete_local_name = ad_complete_name /\
  GenAdvData.gap_appearance = ad_appearance /\ GenAdvData.range_ad_type = ad_range /\
  GenAdvData.range_ad_length = 5%N /\ GenAdvData.appearance_ad_size = 4%N /\
  GenAdvData.runtime_adv_max_size = N.of_nat max_runtime /\ GenAdvData.runtime_scan_max_size = N.of_nat max_runtime /\
  GenAdvData.flags_min_buffer = 3%N /\ GenAdvData.flags_ad_length = 2%N /\ GenAdvData.flags_value = 6%N.
Proof. repeat split; reflexivity. Qed.
(* ... and they are the values assigned by the Bluetooth Core Specification Supplement, Part A *)
Example C14_codes_are_the_assigned_numbers :
  ad_flags = 1%N /\ ad_incomplete_16 = 2%N /\ ad_complete_16 = 3%N /\ ad_incomplete_128 = 6%N /\ ad_complete_128 = 7%N /\
  ad_short_name = 8%N /\ ad_complete_name = 9%N /\ ad_range = 18%N /\ ad_appearance = 25%N.
Proof. repeat split; reflexivity. Qed.
