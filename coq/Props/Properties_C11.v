(* C11  Indications are confirmed one at a time and never lost.
   Statements only; proofs in AttSrv/AttSrvProofsC11.v, NQueue/NQueueProofs.v (C12), AttSrv/AttSrvFrame.v.

   Model: NQueueModel.v (notification_queue, outstanding = outstanding_confirmation_index_), AttSrvModel.v:
   att_output (= l2cap_output; since fix/C08-C11-notification-path an indication that was dequeued but not sent
   is not left outstanding: unsent_indication), handle_confirmation, request (= the l2cap layer's callback). *)
From BT Require Import Base.ListX AttDb.AttDbModel NQueue.NQueueModel NQueue.NQueueSpec NQueue.NQueueProofs
  NQueue.NQueueDrain AttSrv.AttSrvModel AttSrv.AttSrvFrame AttSrv.AttSrvNotifSpec AttSrv.AttSrvNotifObs AttSrv.AttSrvSpecC11
  AttSrv.AttSrvProofsC11 AttSrv.AttSrvProofsC11Live AttSrv.AttSrvNotifExamples.
Local Open Scope N_scope.

(* ---- queue level (proved for C12, any level sizes, any operation sequence): the monitor of NQueueSpec.v
   accepts every trace of the queue; its clauses deq_outst (no indication is dequeued while one is
   outstanding), deq_pending (a dequeued request was pending and is removed: exactly once), deq_empty ('empty'
   only if no request is eligible) and deq_round (round robin bound within a level) are the queue level of C11 *)
Theorem C11_queue_level :
  forall sizes ops, wf_sizes sizes -> NQueueSpec.monitor sizes (NQueueModel.run (NQueueModel.init sizes) ops) = None.
Proof. exact monitor_accepts_model. Qed.
Print Assumptions C11_queue_level.

(* ---- server level, one l2cap_output (any configuration, any state): a Handle Value Indication (first byte
   1D) is transmitted only when no indication is outstanding on the connection, and it is outstanding
   afterwards; in every other case - a notification, nothing sent, in particular an indication that was taken
   from the queue but not sent because the client is not subscribed - outstanding is what it was before *)
Theorem C11_indication_only_when_none_outstanding :
  forall c st cid n st' rs k,
    get_conn st cid = Some k -> att_output c st cid n = Some (st', rs) ->
    exists k', get_conn st' cid = Some k' /\
      match rs with
      | 29 :: _ => out_of k = None /\ out_of k' <> None
      | _ => out_of k' = out_of k
      end.
Proof. exact att_output_outstanding. Qed.
Print Assumptions C11_indication_only_when_none_outstanding.

(* ---- along ANY history on any connections (requests of any kind, notify / indicate, polls, CCCD writes,
   confirmations of a wrong length, traffic of other connections): once an indication is outstanding on
   connection cid, no further indication is transmitted on cid until a Handle Value Confirmation of length 1
   arrives on cid (or cid disconnects). Notifications are not restricted. *)
Theorem C11_one_indication_at_a_time :
  forall c cid ops st k,
    get_conn st cid = Some k -> out_of k <> None ->
    forallb (fun o => negb (ends_wait cid o)) ops = true ->
    Forall (fun x => match fst x, snd x with OpOut i _, OBytes (29 :: _) => i <> cid | _, _ => True end) (srv_run c st ops).
Proof. exact one_indication_at_a_time. Qed.
Print Assumptions C11_one_indication_at_a_time.

(* ---- a confirmation with a wrong length is answered with 01 1E 00 00 04 and changes nothing *)
Theorem C11_bad_confirmation_rejected :
  forall c st cid pdu b n st' r,
    5 <= n -> rd pdu 0 = Some 30 -> len pdu <> 1 ->
    handle_confirmation c st cid pdu b n = Some (st', r) ->
    st' = st /\ snd r = 5 /\ takeN 5 (fst r) = [1; 30; 0; 0; 4].
Proof. exact confirmation_bad_length. Qed.
Print Assumptions C11_bad_confirmation_rejected.

(* ---- one of length 1 gets no response and ends the wait on this connection *)
Theorem C11_confirmation_ends_the_wait :
  forall c st cid b n k,
    get_conn st cid = Some k ->
    handle_confirmation c st cid [30] b n = Some (set_conn st cid (fst (nq_step k Confirm)), (b, 0))
    /\ out_of (fst (nq_step k Confirm)) = None.
Proof. exact confirmation_good. Qed.
Print Assumptions C11_confirmation_ends_the_wait.

(* ---- NEVER LOST (bounded progress). For every well formed configuration, every reachable state (any history),
   every connection cid and every queue index i: if the indication request for i is pending in the queue of cid,
   then after fewer than 2 * (size of the queue) rounds of (Handle Value Confirmation of length 1; l2cap_output
   poll with a buffer of >= 23 bytes) the poll takes exactly that request from the queue, with no indication
   outstanding - whatever else is pending, and whether or not the other requests can be transmitted (an
   indication that is consumed without a PDU does not block: the repaired defect). MTU, CCCDs and link security
   of the connection are untouched meanwhile. Hypothesis: l2cap_output does not FAULT (C01's property).
   Composition of the queue abstraction of C12 (NQueueProofs.step_rel; NQueueDrain.dequeue_abs: 'empty' only if
   nothing is eligible, a dequeue removes exactly one pending request) with C11_indication_only_when_none_
   outstanding / C11_confirmation_ends_the_wait; induction on the number of pending requests. *)
Theorem C11_never_lost :
  forall c cid n i ops k,
    wf c -> default_att_mtu <= n ->
    (forall st, (exists k, get_conn st cid = Some k) -> att_output c st cid n <> None) ->
    let st := srv_after c (srv_init c) ops in
    get_conn st cid = Some k -> pending_ind (nq k) i ->
    exists j, (j < 2 * qsize (nq k))%nat /\
      exists kj q1,
        get_conn (fst (srv_step c (srv_after c st (rounds cid n j)) (OpIn cid [30] n))) cid = Some kj
        /\ same_but_queue k kj /\ out_of kj = None
        /\ NQueueModel.step (nq kj) Dequeue = (q1, OEntry (Some (KInd, i))).
Proof. exact indication_never_lost. Qed.
Print Assumptions C11_never_lost.

(* ... a request that the queue accepts is pending (queue_indication( i ), i inside the queue) ... *)
Theorem C11_accepted_request_is_pending :
  forall s m i, st_rel s m -> (i < qsize s)%nat -> pending_ind (fst (NQueueModel.step s (QueueI i))) i.
Proof. exact queue_indication_pending. Qed.
Print Assumptions C11_accepted_request_is_pending.

(* ... and the request taken from the queue IS transmitted when the client is subscribed (CCCD bit 2 at store
   position i), the buffer holds 3 bytes and the value attribute can be read: 1D <handle> <value> *)
Theorem C11_dequeued_indication_is_transmitted :
  forall c st cid n k q1 i a s1 d,
    get_conn st cid = Some k ->
    NQueueModel.step (nq k) Dequeue = (q1, OEntry (Some (KInd, i))) ->
    let ai := fst (find_notification_data_by_index c (N.of_nat i)) in
    let st1 := set_conn st cid (mkConn (client_mtu k) (cccd k) (encrypted k) (pairing k) q1) in
    negb (N.land (cccd_get (cccd k) (N.of_nat i)) 2 =? 0) = true ->
    3 <= N.min n (negotiated_mtu c k) ->
    attribute_at c ai = Some a ->
    access_read c st1 cid a ai 0 (N.min n (negotiated_mtu c k) - 3) = Some (s1, Success, d) ->
    att_output c st cid n = Some (s1, 29 :: le16 (handle_by_index c ai) ++ d).
Proof. exact att_output_sends. Qed.
Print Assumptions C11_dequeued_indication_is_transmitted.

(* in every reachable state the queue of every connection has such an abstraction (so pending_ind is meaningful) *)
Theorem C11_queue_abstraction_in_every_reachable_state :
  forall c ops j k, wf c -> get_conn (srv_after c (srv_init c) ops) j = Some k ->
    (exists m, st_rel (nq k) m) /\ default_att_mtu <= client_mtu k.
Proof. exact queue_abstraction_reachable. Qed.
Print Assumptions C11_queue_abstraction_in_every_reachable_state.

(* ---- the trace level statement for the safety clauses (fault, two_outstanding, bad_confirmation_accepted):
   for EVERY configuration and EVERY operation sequence whose model trace contains no FAULT the monitor accepts
   the model's trace. By simulation: whenever the observer waits for a confirmation, the model's queue does. *)
Theorem C11_monitor_core_accepts_model :
  forall c ops, no_fault (srv_run c (srv_init c) ops) -> monitor11_core c (srv_run c (srv_init c) ops) = None.
Proof. exact monitor11_core_accepts_model. Qed.
Print Assumptions C11_monitor_core_accepts_model.

(* the full monitor adds the bounded-liveness clauses indication_lost / notification_blocked (check11_live: the
   slack counter). Their trace level soundness is NOT PROVED (it needs the simulation of the observer's requested
   / must sets with the queue bits); C11_never_lost is the statement they approximate on finite traces. *)
Definition C11_monitor_accepts_model_full : Prop :=
  forall c ops, wf c -> no_fault (srv_run c (srv_init c) ops) -> monitor11 c (srv_run c (srv_init c) ops) = None.

(* ---- non-vacuity *)
Example C11_wf_nonvacuous : wf cfg_n4_mtu24 /\ wf cfg_p9_mtu65.
Proof. split; vm_compute; reflexivity. Qed.

(* cfg_n4_mtu24 (CCCDs 4, 7, 13, 16; 2a01 = characteristic 1 indicate, 2a10 = characteristic 3 notify +
   indicate): two indications and a notification; second indication only after the confirmation; a
   confirmation of length 2 is rejected and does not confirm *)
Example C11_one_at_a_time_example :
  map snd (srv_run cfg_n4_mtu24 (srv_init cfg_n4_mtu24)
    [OpIn 0 [18; 7; 0; 2; 0] 23; OpIn 0 [18; 13; 0; 3; 0] 23; OpNotify false KInd 1; OpNotify false KInd 3; OpNotify false KNotif 3;
     OpOut 0 5; OpOut 0 5; OpOut 0 5; OpIn 0 [30; 0] 23; OpOut 0 5; OpIn 0 [30] 23; OpOut 0 5])
  = [OBytes [19]; OBytes [19]; OBits [true; true; true]; OBits [true; true; true]; OBits [true; true; true];
     OBytes [29; 6; 0; 38; 49]; OBytes [27; 12; 0; 112; 123]; OBytes []; OBytes [1; 30; 0; 0; 4]; OBytes [];
     OBytes []; OBytes [29; 12; 0; 112; 123]].
Proof. vm_compute. reflexivity. Qed.

(* the witness of the repaired defect: an indication to a client that is not subscribed is consumed without
   a PDU and does not block the indication the client subscribed to; the monitor accepts the model's trace
   and rejects the pre-fix behaviour (last poll empty) *)
Example C11_unsent_indication_does_not_block :
  let ops := [OpNotify false KInd 1; OpOut 0 23; OpIn 0 [18; 13; 0; 2; 0] 23; OpNotify false KInd 3; OpOut 0 5; OpOut 0 5] in
  map snd (srv_run cfg_n4_mtu24 (srv_init cfg_n4_mtu24) ops)
  = [OBits [true; true; true]; OBytes []; OBytes [19]; OBits [true; true; true]; OBytes [29; 12; 0; 112; 123]; OBytes []]
  /\ monitor11 cfg_n4_mtu24 (srv_run cfg_n4_mtu24 (srv_init cfg_n4_mtu24) ops) = None
  /\ monitor11 cfg_n4_mtu24
       [(OpNotify false KInd 1, OBits [true; true; true]); (OpOut 0 23, OBytes []); (OpIn 0 [18; 13; 0; 2; 0] 23, OBytes [19]);
        (OpNotify false KInd 3, OBits [true; true; true]); (OpOut 0 5, OBytes []); (OpOut 0 5, OBytes [])] = Some (5%nat, t11_indication_lost).
Proof. repeat split; vm_compute; reflexivity. Qed.

Example C11_monitor_rejects_second_indication_and_bad_confirmation :
  monitor11 cfg_n4_mtu24
    [(OpIn 0 [18; 13; 0; 2; 0] 23, OBytes [19]); (OpNotify false KInd 3, OBits [true; true; true]); (OpOut 0 5, OBytes [29; 12; 0; 112; 123]);
     (OpNotify false KInd 3, OBits [true; true; true]); (OpOut 0 5, OBytes [29; 12; 0; 112; 123])] = Some (4%nat, t11_two_outstanding)
  /\ monitor11 cfg_n4_mtu24 [(OpIn 0 [30; 0] 23, OBytes [])] = Some (0%nat, t11_bad_confirmation_accepted)
  /\ monitor11 cfg_n4_mtu24
    [(OpIn 0 [18; 13; 0; 2; 0] 23, OBytes [19]); (OpNotify false KInd 3, OBits [true; true; true]); (OpOut 0 5, OBytes [29; 12; 0; 112; 123]);
     (OpIn 0 [30; 0] 23, OBytes [1; 30; 0; 0; 4]); (OpNotify false KInd 3, OBits [true; true; true]); (OpOut 0 5, OBytes [29; 12; 0; 112; 123])]
     = Some (5%nat, t11_two_outstanding).
Proof. repeat split; vm_compute; reflexivity. Qed.

(* the false alarm of the thorough tier (docs/C11.md): with the known finding of C10 (a service without
   characteristics shifts the attribute) the indication IS transmitted, but carries the handle of the
   characteristic declaration; the request is not lost in the sense of C11 and the monitor accepts the trace
   (the corrected observer does not insist on must-requests it can no longer attribute); C10 judges the PDU *)
Example C11_unattributable_pdu_is_not_a_loss :
  let tr := srv_run cfg_emptysvc_mtu23 (srv_init cfg_emptysvc_mtu23)
              [OpIn 0 [18; 5; 0; 2; 0] 23; OpNotify false KInd 0; OpOut 0 23; OpOut 0 23] in
  map snd tr = [OBytes [19]; OBits [true; true; true]; OBytes [29; 3; 0; 58; 4; 0; 0; 42]; OBytes []]
  /\ monitor11 cfg_emptysvc_mtu23 tr = None.
Proof. split; vm_compute; reflexivity. Qed.

From BT Require gen.GenAttSrv.
Example C11_constants_are_the_codes :
  GenAttSrv.opcode_confirmation = 30 /\ GenAttSrv.opcode_indication = 29 /\ GenAttSrv.opcode_notification = 27.
Proof. repeat split; reflexivity. Qed.
