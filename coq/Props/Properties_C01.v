(* C01  ATT input handling is memory safe and well framed. (work in progress: Examples only) *)
From BT Require Import Base.ListX AttDb.AttDbModel AttDb.AttDbExamples AttSrv.AttSrvModel AttSrv.AttSrvSpecC01.
Local Open Scope N_scope.
Example C01_wf_nonvacuous : wf cfg_basic3.
Proof. vm_compute; reflexivity. Qed.
