(* C01  ATT input handling is memory safe and well framed.
   Statements only; proofs live in AttSrv/AttSrvProofsC01.v.

   att_input c st conn pdu out_size (AttSrvModel.v) transcribes server::l2cap_input and its 14 handlers
   with bounded buffers: None = Fault = an access outside the request / the caller's output buffer or a
   failing assert() of the code. Hypotheses of the property: 1 <= length pdu, 23 <= out_size. *)
From BT Require Import Base.ListX AttDb.AttDbModel AttDb.AttDbProofs AttDb.AttDbExamples NQueue.NQueueModel
  AttSrv.AttSrvModel AttSrv.AttSrvSpecC01 AttSrv.AttSrvProofsC01.
From BT Require AttSrv.AttSrvProofsVal AttSrv.AttSrvNoFault AttSrv.AttSrvFrameList AttSrv.AttSrvMonitorC01.
Local Open Scope N_scope.

(* ---- (b) + (c): for EVERY configuration (well formed or not), every state, connection and request:
   whenever l2cap_input returns, the response is at most min( out_size, negotiated MTU ) bytes long and
   is framed by the request opcode: response opcode = request opcode + 1, or 01 <opcode> <handle> <code>
   of length 5; nothing for Error Response, Write Command and a Confirmation of length 1;
   01 <opcode> 00 00 06 for every opcode that is no request of this server. (With the code's 8 bit
   size counters: they make responses shorter, never longer.) *)
Theorem C01_length_and_frame :
  forall c st cid pdu n st' rs k,
    get_conn st cid = Some k ->
    att_input c st cid pdu n = Some (st', rs) ->
    len rs <= N.min n (negotiated_mtu c k) /\ frame_ok pdu rs = true.
Proof. exact att_input_length_and_frame. Qed.
Print Assumptions C01_length_and_frame.

(* ---- (a) memory safety: no Fault, in every reachable state *)
Definition C01_no_fault_full : Prop :=
  forall c ops cid pdu n, wf c -> (cid < n_conns)%nat -> 1 <= len pdu -> 23 <= n ->
    att_input c (srv_final c (srv_init c) ops) cid pdu n <> None.

(* refuted: with include_service<> the shifted handle mapping (C04) lets char_declaration_access assert:
   Read By Type <<Characteristic>> on the corpus configuration `includes`.
   (The former witness, Prepare Write Request on a CCCD handle - check_write() handed a null client
   configuration to the CCCD attribute - is repaired by fix/C07-check-write-connection: see
   C01_prepare_write_cccd_repaired below.) *)
Theorem C01_no_fault_refuted : ~ C01_no_fault_full.
Proof.
  intros H. apply (H cfg_includes [] O [8; 1; 0; 255; 255; 3; 40] 24).
  - vm_compute. reflexivity.
  - repeat constructor.
  - vm_compute. intros X; discriminate X.
  - vm_compute. intros X; discriminate X.
  - vm_compute. reflexivity.
Qed.
Print Assumptions C01_no_fault_refuted.

(* the former witness of C01_no_fault_refuted is answered now (corpus configuration `fixed_handles`, handle 15
   = a CCCD): Prepare Write Response *)
Example C01_prepare_write_cccd_repaired :
  exists st', att_input cfg_fixed_handles (srv_init cfg_fixed_handles) O [22; 15; 0; 0; 0; 1; 0] 23
              = Some (st', [23; 15; 0; 0; 0; 1; 0]).
Proof. eexists. vm_compute. reflexivity. Qed.

(* the same cause, stated directly: with include_service<> the shifted handle mapping (C04) lets
   char_declaration_access assert: Read By Type <<Characteristic>> on the corpus configuration `includes` *)
Theorem C01_no_fault_includes_refuted :
  wf cfg_includes /\ att_input cfg_includes (srv_init cfg_includes) O [8; 1; 0; 255; 255; 3; 40] 24 = None.
Proof. split; vm_compute; reflexivity. Qed.
Print Assumptions C01_no_fault_includes_refuted.

(* (a) PROVED for every request (all 14 handlers): for every well formed configuration without
   include_service<> and without a characteristic whose 16 bit uuid is the internal 128 bit marker
   0x0001, every state whose write queue holds validated elements (AttSrvProofsVal.elem_ok: at least
   handle + offset, handle of an attribute), every live connection, every request and every
   out_size with min( out_size, negotiated MTU ) >= 23: l2cap_input does not fault - no read outside
   the request, no write outside the caller's buffer, no failing assert. *)
Theorem C01_no_fault_wf :
  forall c st cid pdu n k,
    wf c -> no_includes c -> AttSrvNoFault.no_marker_uuids c ->
    Forall (AttSrvProofsVal.elem_ok c) (wq_elems st) -> get_conn st cid = Some k ->
    1 <= len pdu -> 23 <= N.min n (negotiated_mtu c k) ->
    att_input c st cid pdu n <> None.
Proof. exact AttSrvNoFault.att_input_no_fault. Qed.
Print Assumptions C01_no_fault_wf.

(* the history version: C01_no_fault_full restricted to these configurations. Every state reachable
   from the initial one by ANY operations satisfies the hypotheses of C01_no_fault_wf (write queue:
   att-val's simulation invariant; connections and MTU >= 23: att-mtu's negotiated_mtu_history). *)
Theorem C01_no_fault_reachable :
  forall c ops cid pdu n,
    wf c -> no_includes c -> AttSrvNoFault.no_marker_uuids c ->
    (cid < n_conns)%nat -> 1 <= len pdu -> 23 <= n ->
    att_input c (srv_final c (srv_init c) ops) cid pdu n <> None.
Proof. exact AttSrvNoFault.att_input_no_fault_reachable. Qed.
Print Assumptions C01_no_fault_reachable.

(* the uuid hypothesis is needed: characteristic_uuid16< 0x0001 > collides with the marker the attribute
   table uses for 128 bit uuids; Find Information starting at its value attribute lets
   write_128bit_uuid assert (reproduced on the real code: server.hpp:1663). Not a known finding of the
   tie (the generator does not produce this uuid); recorded in docs/C01.md. *)
Definition cfg_marker_uuid : cfg :=
  mkCfg [mkSvc (U16 6160) false None []
           [mkChar (U16 1) HNone (VBind 1 false) false false false false false false None [] (mkEnc false false false)]
           (mkEnc false false false) []]
        23 None [] (mkEnc false false false).
Example C01_marker_uuid_faults :
  wf cfg_marker_uuid /\ no_includes cfg_marker_uuid /\ AttSrvNoFault.no_marker_b cfg_marker_uuid = false
  /\ att_input cfg_marker_uuid (srv_init cfg_marker_uuid) O [4; 3; 0; 3; 0] 23 = None.
Proof. repeat split; vm_compute; reflexivity. Qed.

(* (a) for the opcodes that touch no attribute (Error Response, Exchange MTU, Handle Value
   Confirmation, every unsupported opcode): no fault for EVERY configuration and state. *)
Theorem C01_no_fault_partial :
  forall c st cid pdu n k op,
    get_conn st cid = Some k -> rd pdu 0 = Some op ->
    23 <= N.min n (negotiated_mtu c k) ->
    forallb (fun x => negb (op =? x)) [4; 6; 8; 10; 12; 14; 16; 18; 82; 22; 24] = true ->
    att_input c st cid pdu n <> None.
Proof. exact att_input_no_fault_simple. Qed.
Print Assumptions C01_no_fault_partial.

(* ---- (c') list shaped responses hold a positive whole number of entries *)
Definition C01_framing_full : Prop :=
  forall c ops cid pdu n st' rs, wf c ->
    att_input c (srv_final c (srv_init c) ops) cid pdu n = Some (st', rs) -> frame_list_ok rs = true.

(* MTU 300 (corpus configuration `mtu300`): four 64 byte values are 264 bytes of attribute data;
   collect_attributes::size() is std::uint8_t, the response is cut to 10 bytes: 09 42 + 8 bytes *)
Theorem C01_framing_large_mtu_refuted : ~ C01_framing_full.
Proof.
  intros H. assert (W : wf cfg_mtu300) by (vm_compute; reflexivity).
  destruct (att_input cfg_mtu300 (srv_final cfg_mtu300 (srv_init cfg_mtu300) [OpIn O [2; 44; 1] 300]) O [8; 1; 0; 255; 255; 0; 42] 300)
    as [[st' rs]|] eqn:E; [|vm_compute in E; discriminate E].
  specialize (H _ _ _ _ _ _ _ W E). vm_compute in E. injection E as _ <-. vm_compute in H. discriminate H.
Qed.
Print Assumptions C01_framing_large_mtu_refuted.

(* (c') PROVED below the 8 bit limit: as long as min( out_size, negotiated MTU ) <= 256 every response
   of l2cap_input passes frame_list_ok: Find Information = 05, format, a positive number of 4 / 18 byte
   entries; Find By Type Value = 07 + 4 byte entries; Read By Type = 09, length, entries of that length;
   Read By Group Type = 11, 6 / 20, entries of that length; Exchange MTU Response 3 bytes, Write and
   Execute Write Response 1 byte, Prepare Write Response >= 5 bytes. For every wf configuration (needs
   only well formed service uuids), every state and request. (Read By Type alone holds up to 257:
   AttSrvFrameList.read_by_type_fl; 257 is excluded for Find By Type Value: 64 entries = 256 bytes.) *)
Theorem C01_framing_small_mtu :
  forall c st cid pdu n st' rs k,
    wf c -> get_conn st cid = Some k -> N.min n (negotiated_mtu c k) <= 256 ->
    att_input c st cid pdu n = Some (st', rs) -> frame_list_ok rs = true.
Proof. exact AttSrvFrameList.att_input_frame_list. Qed.
Print Assumptions C01_framing_small_mtu.

(* ---- the C01 monitor accepts every trace of the model: (a), (b), (c), (c') over histories. For wf
   configurations without include_service<>, without the marker uuid, with max_mtu <= 256, and
   histories of input-side operations (l2cap_input on connections 0..2, security changes,
   disconnects, value access). The monitor's MTU tracking is the model's client MTU (invariant
   AttSrvMonitorC01.inv; both follow C08's mtu_after). NOT covered: l2cap_output and notify / indicate
   operations in the history (their absence of faults is not proved; C08 / C10 / C11 judge them). *)
Theorem C01_monitor_accepts_model :
  forall c ops,
    wf c -> no_includes c -> AttSrvNoFault.no_marker_uuids c -> max_mtu c <= 256 ->
    forallb AttSrvMonitorC01.input_side ops = true ->
    monitor c (srv_run c (srv_init c) ops) = None.
Proof. exact AttSrvMonitorC01.monitor_accepts_model. Qed.
Print Assumptions C01_monitor_accepts_model.

(* the hypotheses are satisfiable by the corpus configurations *)
Example C01_hypotheses_satisfiable :
  (wf cfg_basic3 /\ no_includes cfg_basic3 /\ AttSrvNoFault.no_marker_uuids cfg_basic3 /\ max_mtu cfg_basic3 <= 256)
  /\ (wf cfg_fixed_handles /\ no_includes cfg_fixed_handles /\ AttSrvNoFault.no_marker_uuids cfg_fixed_handles)
  /\ (wf cfg_values /\ no_includes cfg_values /\ AttSrvNoFault.no_marker_uuids cfg_values)
  /\ (wf cfg_mtu300 /\ no_includes cfg_mtu300 /\ AttSrvNoFault.no_marker_uuids cfg_mtu300).
Proof. repeat split; try (vm_compute; reflexivity); vm_compute; intros X; discriminate X. Qed.

(* a range inside a gap of the handle space (corpus configuration `fixed_handles`, 7..7): the Find
   Information Response was 05 01 without any entry (former C01_framing_empty_list_refuted); repaired by
   fix/C02-C03-discovery: Attribute Not Found *)
Example C01_framing_empty_list_repaired :
  wf cfg_fixed_handles /\
  exists st', att_input cfg_fixed_handles (srv_init cfg_fixed_handles) O [4; 7; 0; 7; 0] 23 = Some (st', [1; 4; 7; 0; 10]).
Proof. split; [vm_compute; reflexivity|]. eexists. vm_compute. reflexivity. Qed.

(* ---- non-vacuity: a three service configuration; the requests of the Examples are answered *)
Example C01_wf_nonvacuous : wf cfg_basic3 /\ wf cfg_values /\ wf cfg_mtu300.
Proof. repeat split; vm_compute; reflexivity. Qed.

Example C01_read_by_group_type_basic3 :
  exists st', att_input cfg_basic3 (srv_init cfg_basic3) O [16; 1; 0; 255; 255; 0; 40] 23
              = Some (st', [17; 6; 1; 0; 8; 0; 16; 24]).
Proof. eexists. vm_compute. reflexivity. Qed.

(* the monitor is not trivially accepting *)
Example C01_monitor_rejects_fault :
  monitor cfg_basic3 [(OpIn O [10; 3; 0] 23, OFault)] = Some (O, t_fault).
Proof. vm_compute. reflexivity. Qed.

Example C01_monitor_rejects_long_response :
  monitor cfg_basic3 [(OpIn O [10; 3; 0] 23, OBytes (11 :: repeat 0 23))] = Some (O, t_length).
Proof. vm_compute. reflexivity. Qed.

Example C01_monitor_tracks_mtu :
  monitor cfg_mtu300 [(OpIn O [2; 44; 1] 300, OBytes [3; 44; 1]); (OpIn O [10; 3; 0] 300, OBytes (11 :: repeat 0 64))] = None
  /\ monitor cfg_mtu300 [(OpIn O [10; 3; 0] 300, OBytes (11 :: repeat 0 64))] = Some (O, t_length).
Proof. split; vm_compute; reflexivity. Qed.

Example C01_monitor_rejects_wrong_opcode :
  monitor cfg_basic3 [(OpIn O [10; 3; 0] 23, OBytes [13; 1])] = Some (O, t_frame)
  /\ monitor cfg_basic3 [(OpIn O [82; 3; 0; 1] 23, OBytes [19])] = Some (O, t_frame)
  /\ monitor cfg_basic3 [(OpIn O [200] 23, OBytes [1; 200; 0; 0; 1])] = Some (O, t_frame).
Proof. repeat split; vm_compute; reflexivity. Qed.

Example C01_monitor_rejects_ill_framed_list :
  monitor cfg_basic3 [(OpIn O [8; 1; 0; 255; 255; 0; 42] 23, OBytes [9; 4; 3; 0; 1; 2; 5])] = Some (O, t_frame_list).
Proof. vm_compute. reflexivity. Qed.

(* constants regenerated from codes.hpp / attribute.hpp / server.hpp on every run are the model's *)
From BT Require gen.GenAttSrv.
Example C01_constants_are_the_codes :
  [GenAttSrv.opcode_error_response; GenAttSrv.opcode_exchange_mtu_request; GenAttSrv.opcode_find_information_request;
   GenAttSrv.opcode_find_by_type_value_request; GenAttSrv.opcode_read_by_type_request; GenAttSrv.opcode_read_request;
   GenAttSrv.opcode_read_blob_request; GenAttSrv.opcode_read_multiple_request; GenAttSrv.opcode_read_by_group_type_request;
   GenAttSrv.opcode_write_request; GenAttSrv.opcode_prepare_write_request; GenAttSrv.opcode_execute_write_request;
   GenAttSrv.opcode_write_command; GenAttSrv.opcode_confirmation; GenAttSrv.opcode_notification; GenAttSrv.opcode_indication]
  = [1; 2; 4; 6; 8; 10; 12; 14; 16; 18; 22; 24; 82; 30; 27; 29]
  /\ [GenAttSrv.att_error_invalid_handle; GenAttSrv.att_error_read_not_permitted; GenAttSrv.att_error_write_not_permitted;
      GenAttSrv.att_error_invalid_pdu; GenAttSrv.att_error_insufficient_authentication; GenAttSrv.att_error_request_not_supported;
      GenAttSrv.att_error_invalid_offset; GenAttSrv.att_error_prepare_queue_full; GenAttSrv.att_error_attribute_not_found;
      GenAttSrv.att_error_attribute_not_long; GenAttSrv.att_error_invalid_attribute_value_length;
      GenAttSrv.att_error_insufficient_encryption; GenAttSrv.att_error_unsupported_group_type]
     = [err_invalid_handle; err_read_not_permitted; err_write_not_permitted; err_invalid_pdu; err_insufficient_authentication;
        err_request_not_supported; err_invalid_offset; err_prepare_queue_full; err_attribute_not_found; err_attribute_not_long;
        err_invalid_attribute_value_length; err_insufficient_encryption; err_unsupported_group_type]
  /\ GenAttSrv.default_att_mtu_size = default_att_mtu /\ GenAttSrv.collect_attributes_maximum_pdu_size = 253
  /\ [GenAttSrv.access_result_invalid_offset; GenAttSrv.access_result_write_not_permitted; GenAttSrv.access_result_read_not_permitted;
      GenAttSrv.access_result_invalid_attribute_value_length; GenAttSrv.access_result_attribute_not_long;
      GenAttSrv.access_result_request_not_supported; GenAttSrv.access_result_insufficient_encryption;
      GenAttSrv.access_result_insufficient_authentication] = [7; 3; 2; 13; 11; 6; 15; 5].
Proof. repeat split; reflexivity. Qed.
