(* C19  L2CAP fragmentation and reassembly are exact and memory safe.
   Statements only; proofs live in SduBuf/SduBufProofs.v and SduBuf/SduBufTrace.v.

   The model (SduBuf/SduBufModel.v) is ll_l2cap_sdu_buffer.hpp with the three receive side repairs of
   branch fix/C19-reassembly-overflow. Quantification: every configuration with wf_cfg (MTUSize >= 23,
   MTUSize + overall_overhead < 2^16, layout overhead <= 16; MTUSize = 23 is the pass-through
   specialisation), every list of operations of any length - received PDUs with any LLID, any body and
   any order, next / free calls, outgoing SDUs, LL control PDUs, max_tx_size / max_rx_size changes
   (29..251) - and every answer pattern of the transmit allocation oracle (the g and a arguments). *)
From BT Require Import Base.ListX SduBuf.SduBufModel SduBuf.SduBufSpec SduBuf.SduBufProofs SduBuf.SduBufTrace.
Local Open Scope N_scope.

(* Memory safety. The model bounds-checks every write into receive_buffer_ (add_to_receive_buffer), every
   read from transmit_buffer_ and every write into an allocated transmit PDU (try_send_pdus), and the
   caller's write into transmit_buffer_; an access outside is the outcome RFault. It is never reached. *)
Theorem C19_model_never_faults :
  forall (c : cfg) (ops : list op), wf_cfg c ->
    Forall (fun x => fst (snd x) <> RFault) (run c (init c) ops) /\ faulted (final c (init c) ops) = false.
Proof. exact model_never_faults. Qed.
Print Assumptions C19_model_never_faults.

(* Every trace of the model is accepted by the monitor: no clause oob_write, delivered_exact,
   delivered_len, order, frag_shape, frag_concat, frag_size (or shape) is violated. *)
Theorem C19_monitor_accepts_model :
  forall (c : cfg) (ops : list op), wf_cfg c -> monitor c (run c (init c) ops) = None.
Proof. exact monitor_accepts_model. Qed.
Print Assumptions C19_monitor_accepts_model.

(* What acceptance means, receive side. In every accepted trace (of the model or of the implementation)
   a delivered SDU y is exactly one start fragment b0 followed by the bodies of the continuation
   fragments received after it - with no other start fragment in between, LL control PDUs may be
   interleaved - and it has the length its header announces (lenN y = read16 b0 + 4 = read16 y + 4,
   at most MTUSize). *)
Theorem C19_accepted_trace_delivers_only_reassembled :
  forall (c : cfg) (tr : list (op * out)), monitor c tr = None ->
    forall i g y txs, nth_error tr i = Some (Next g, (RSdu y, txs)) ->
      reassembled_from (mtu c) (injected (firstn (S i) tr)) y.
Proof. exact accepted_sdu_is_reassembled. Qed.
Print Assumptions C19_accepted_trace_delivers_only_reassembled.

Theorem C19_model_delivers_only_reassembled :
  forall (c : cfg), wf_cfg c -> forall (ops : list op) i g y txs,
    nth_error (run c (init c) ops) i = Some (Next g, (RSdu y, txs)) ->
    reassembled_from (mtu c) (injected (firstn (S i) (run c (init c) ops))) y.
Proof. exact model_delivers_only_reassembled. Qed.
Print Assumptions C19_model_delivers_only_reassembled.

(* ... and the recombination automaton of the specification is not the trivial one that drops
   everything: a well formed train is delivered exactly, at its last fragment, whatever was in
   progress before. *)
Theorem C19_spec_delivers_wellformed_trains :
  forall (m : N) (rs : rstate) (b0 : list N) (cs : list (list N)) (rest : list pdu),
    (forall x, rs <> Done x) ->
    4 <= lenN b0 -> read16 b0 <= m -> Forall (fun x => x <> []) cs -> cs <> [] ->
    lenN (b0 ++ concat cs) = read16 b0 + 4 ->
    spec_loop m rs ((2, b0) :: map (fun x => (1, x)) cs ++ rest)
    = (Done (b0 ++ concat cs), rest, ESdu (b0 ++ concat cs)).
Proof. exact spec_delivers_wellformed. Qed.
Print Assumptions C19_spec_delivers_wellformed_trains.

(* ... and neither does the model drop what it should deliver: from every reachable state in which no
   complete SDU is waiting, if the radio's FIFO starts with a well formed train (start fragment
   announcing L <= MTUSize bytes, non empty continuation fragments, L + 4 bytes in total), the next
   call of next_ll_l2cap_received() returns exactly start ++ continuations. *)
Theorem C19_model_delivers_wellformed_trains :
  forall (c : cfg), wf_cfg c -> passthrough c = false ->
  forall (ops0 : list op) (g : nat) (b0 : list N) (cs : list (list N)) (rest : list pdu),
    let s := final c (init c) ops0 in
    complete s = false ->
    rxq s = (2, b0) :: map (fun x => (1, x)) cs ++ rest ->
    4 <= lenN b0 -> read16 b0 <= mtu c -> Forall (fun x => x <> []) cs -> cs <> [] ->
    lenN (b0 ++ concat cs) = read16 b0 + 4 ->
    exists txs, snd (step c s (Next g)) = (RSdu (b0 ++ concat cs), txs).
Proof. exact model_delivers_wellformed. Qed.
Print Assumptions C19_model_delivers_wellformed_trains.

(* Transmit side. The data PDUs committed to the radio are, SDU after SDU in the order the SDUs were
   accepted, one start fragment followed by continuation fragments whose payloads concatenate to the
   SDU; only the last SDU may be committed in part (the rest waits for a transmit buffer) - for every
   pattern of allocation failures. *)
Theorem C19_model_fragments_exactly :
  forall (c : cfg), wf_cfg c -> forall (ops : list op),
    sending_as (accepted_sdus (run c (init c) ops)) (data_pdus (committed (run c (init c) ops))).
Proof. exact model_fragments. Qed.
Print Assumptions C19_model_fragments_exactly.

(* Every fragment (header + payload) fits the max_tx_size() that was in effect when it was committed. *)
Theorem C19_model_fragment_sizes :
  forall (c : cfg), wf_cfg c -> forall (ops : list op) i o r txs p,
    nth_error (run c (init c) ops) i = Some (o, (r, txs)) -> In p txs -> fst p <> 3 ->
    lenN (snd p) + 2 <= maxtx_after (firstn i (run c (init c) ops)).
Proof. exact model_fragment_sizes. Qed.
Print Assumptions C19_model_fragment_sizes.

(* The radio sends the committed PDUs in the order of their commitment. *)
Theorem C19_model_transmit_order :
  forall (c : cfg), wf_cfg c -> forall (ops : list op),
    exists rest, committed (run c (init c) ops) = radioed (run c (init c) ops) ++ rest.
Proof. exact model_transmit_order. Qed.
Print Assumptions C19_model_transmit_order.

(* The same three statements for any accepted trace, i.e. also for implementation traces that pass. *)
Theorem C19_accepted_trace_fragments :
  forall (c : cfg) (tr : list (op * out)), monitor c tr = None ->
    sending_as (accepted_sdus tr) (data_pdus (committed tr)).
Proof. exact accepted_trace_fragments. Qed.
Print Assumptions C19_accepted_trace_fragments.

Theorem C19_accepted_trace_sizes :
  forall (c : cfg) (tr : list (op * out)), monitor c tr = None ->
    forall i o r txs p, nth_error tr i = Some (o, (r, txs)) -> In p txs -> fst p <> 3 ->
      lenN (snd p) + 2 <= maxtx_after (firstn i tr).
Proof. exact accepted_trace_sizes. Qed.
Print Assumptions C19_accepted_trace_sizes.

Theorem C19_accepted_trace_order :
  forall (c : cfg) (tr : list (op * out)), monitor c tr = None ->
    exists rest, committed tr = radioed tr ++ rest.
Proof. exact accepted_trace_order. Qed.
Print Assumptions C19_accepted_trace_order.

(* ------------------------------------------------------------------ non-vacuity *)
(* the configurations of the tie satisfy wf_cfg, including the pass-through specialisation *)
Example C19_wf_nonvacuous :
  wf_cfg (mkcfg 23 0) /\ wf_cfg (mkcfg 24 1) /\ wf_cfg (mkcfg 100 0) /\ wf_cfg (mkcfg 247 1) /\ wf_cfg (mkcfg 65529 0).
Proof. unfold wf_cfg, overall_overhead, ll_overhead; simpl. repeat split; discriminate. Qed.

(* the model does deliver a reassembled SDU (start 4+2 bytes, an interleaved LL control PDU that is
   handed out and freed first, continuations of 3 and 1 bytes) and fragments an outgoing one (33 byte
   SDU, max_tx_size 29: 27 + 6 bytes, the second one only when a transmit buffer is granted) *)
Example C19_model_reassembles :
  map (fun x => fst (snd x))
      (run (mkcfg 40 0) (init (mkcfg 40 0))
           [Rx 2 [6;0;4;0;1;2]; Rx 3 [12;9]; Rx 1 [3;4;5]; Rx 1 [6]; Next 0; Free; Next 0; Free; Next 0])
  = [ROk; ROk; ROk; ROk; RPdu (3, [12;9]); ROk; RSdu [6;0;4;0;1;2;3;4;5;6]; ROk; RNone].
Proof. vm_compute. reflexivity. Qed.

Example C19_model_fragments :
  let sdu := [29;0;4;0] ++ repeat 7 29 in
  map snd (run (mkcfg 40 0) (init (mkcfg 40 0)) [L2Tx 1 sdu; Next 0; Next 5; Radio; Radio; Radio])
  = [(ROk, [(2, firstn 27 sdu)]); (RNone, []); (RNone, [(1, skipn 27 sdu)]);
     (RPdu (2, firstn 27 sdu), []); (RPdu (1, skipn 27 sdu), []); (RNone, [])].
Proof. vm_compute. reflexivity. Qed.

(* the monitor is not trivially accepting: it rejects what the unrepaired code did ... *)
(* 1. over-long continuation fragment: sanitizer abort *)
Example C19_monitor_rejects_overflow :
  monitor (mkcfg 24 0) [(Rx 2 [10;0;4;0;1], (ROk, [])); (Rx 1 (repeat 9 27), (ROk, [])); (Next 0, (RFault, []))]
  = Some (2%nat, t_oob_write).
Proof. vm_compute. reflexivity. Qed.

(* 2. a second start fragment spliced behind the first one (corpus/C19/reassembly_defects.trace) *)
Example C19_monitor_rejects_splice :
  monitor (mkcfg 40 0)
    [(Rx 2 [10;0;4;0;170;187;204;221], (ROk, [])); (Rx 2 [10;0;4;0;17;34;51;68;85], (ROk, []));
     (Rx 1 [102;119;136;153;0], (ROk, []));
     (Next 0, (RSdu [10;0;4;0;170;187;204;221;10;9;10;0;4;0;17;34;51;68;85;102;119;136;153;0], []))]
  = Some (3%nat, t_delivered_len).
Proof. vm_compute. reflexivity. Qed.

(* 3. LL control PDU between fragments handed out twice *)
Example C19_monitor_rejects_duplicate :
  monitor (mkcfg 40 0)
    [(Rx 2 [10;0;4;0;170;187;204;221], (ROk, [])); (Rx 3 [12;1;2], (ROk, []));
     (Next 0, (RPdu (3, [12;1;2]), [])); (Free, (ROk, [])); (Next 0, (RPdu (3, [12;1;2]), []))]
  = Some (4%nat, t_order).
Proof. vm_compute. reflexivity. Qed.

(* ... a truncated or altered SDU ... *)
Example C19_monitor_rejects_wrong_bytes :
  monitor (mkcfg 40 0)
    [(Rx 2 [3;0;4;0;1], (ROk, [])); (Rx 1 [2;3], (ROk, [])); (Next 0, (RSdu [3;0;4;0;1;2;4], []))]
  = Some (2%nat, t_delivered_exact).
Proof. vm_compute. reflexivity. Qed.

Example C19_monitor_rejects_delivery_of_incomplete :
  monitor (mkcfg 40 0) [(Rx 2 [3;0;4;0;1], (ROk, [])); (Next 0, (RSdu [3;0;4;0;1], []))]
  = Some (1%nat, t_delivered_len).
Proof. vm_compute. reflexivity. Qed.

(* ... and wrong fragmentations: continuation first, wrong payload, fragment larger than max_tx_size *)
Example C19_monitor_rejects_bad_fragments :
  let sdu := [2;0;4;0;8;9] in
  monitor (mkcfg 40 0) [(L2Tx 1 sdu, (ROk, [(1, sdu)]))] = Some (0%nat, t_frag_shape) /\
  monitor (mkcfg 40 0) [(L2Tx 1 sdu, (ROk, [(2, [2;0;4;0;8;8])]))] = Some (0%nat, t_frag_concat) /\
  monitor (mkcfg 40 0) [(L2Tx 1 ([29;0;4;0] ++ repeat 7 29), (ROk, [(2, [29;0;4;0] ++ repeat 7 24)]))]
    = Some (0%nat, t_frag_size) /\
  monitor (mkcfg 40 0) [(L2Tx 2 sdu, (ROk, [(2, [2;0;4]); (2, [0;8;9])]))] = Some (0%nat, t_frag_shape).
Proof. vm_compute. repeat split; reflexivity. Qed.

(* constants regenerated from ll_l2cap_sdu_buffer.hpp / ll_data_pdu_buffer.hpp / codes.hpp on every run
   (the translator also checks that the two arrays still are MTUSize + overall_overhead bytes, that
   receive_size_ / transmit_size_ still are 16 bit and that every access to the arrays is a std::copy) *)
From BT Require gen.GenSduBuf.
Example C19_constants_are_the_codes :
  GenSduBuf.pdu_type_mask = 3 /\ GenSduBuf.pdu_type_link_layer = 3 /\ GenSduBuf.pdu_type_start = 2 /\
  GenSduBuf.pdu_type_continuation = 1 /\ GenSduBuf.l2cap_header_size = l2cap_header_size /\
  GenSduBuf.default_att_mtu_size = 23 /\ GenSduBuf.min_buffer_size = min_buffer_size /\
  GenSduBuf.max_buffer_size = max_buffer_size /\ GenSduBuf.header_size = header_size.
Proof. repeat split; reflexivity. Qed.
