(* C19  L2CAP fragmentation and reassembly are exact and memory safe.  (stub, extended below) *)
From BT Require Import Base.ListX SduBuf.SduBufModel SduBuf.SduBufSpec.
From BT Require gen.GenSduBuf.
Local Open Scope N_scope.

Example C19_constants_are_the_codes :
  GenSduBuf.pdu_type_mask = 3 /\ GenSduBuf.pdu_type_link_layer = 3 /\ GenSduBuf.pdu_type_start = 2 /\
  GenSduBuf.pdu_type_continuation = 1 /\ GenSduBuf.l2cap_header_size = l2cap_header_size /\
  GenSduBuf.default_att_mtu_size = 23 /\ GenSduBuf.min_buffer_size = min_buffer_size /\
  GenSduBuf.max_buffer_size = max_buffer_size /\ GenSduBuf.header_size = header_size.
Proof. repeat split; reflexivity. Qed.
