(* C26  White list behaves as a bounded set.
   Statements only; proofs live in WhiteList/WhiteListProofs.v. *)
From BT Require Import Base.ListX WhiteList.WhiteListModel WhiteList.WhiteListSpec WhiteList.WhiteListProofs.

(* Software white list (white_list_implementation< Size, true, ... >): for every capacity n, every
   address (any 48-bit value, random or public) and every sequence of add / remove / is_in /
   free_size / clear / set-and-get of the two filter flags / is_*_request_in_filter operations of
   any length, the trace of the model is exactly the trace of the bounded set of capacity n ... *)
Theorem C26_software_list_refines_bounded_set :
  forall (n : nat) (ops : list op), run (init n) ops = spec_run (minit n) ops.
Proof. exact sw_refines_set. Qed.
Print Assumptions C26_software_list_refines_bounded_set.

(* ... hence accepted by the monitor, i.e.
     - add of an address already present returns true and changes nothing (add_idempotent),
     - add of a new address succeeds iff fewer than n addresses are stored (add_result, capacity),
     - remove returns whether the address was present and deletes exactly that address (remove_exact),
     - is_in_white_list answers membership (contains), free size = n - number of elements (capacity),
     - the filter getters return the flag last set, and is_connection_request_in_filter /
       is_scan_request_in_filter accept an address exactly when the respective filter is off or the
       address is in the set (filter_conn, filter_scan),
     - no operation indexes outside addresses_[ Size ] (fault). *)
Theorem C26_software_list_is_bounded_set :
  forall (n : nat) (ops : list op), monitor n (run (init n) ops) = None.
Proof. exact monitor_accepts_model. Qed.
Print Assumptions C26_software_list_is_bounded_set.

(* the monitor is neither too strict nor too loose: it accepts a trace exactly when the trace is the
   one the bounded set produces for the same operations *)
Theorem C26_monitor_is_the_bounded_set :
  forall (n : nat) (tr : list (op * out)),
    monitor n tr = None <-> tr = spec_run (minit n) (map fst tr).
Proof. exact monitor_exact. Qed.
Print Assumptions C26_monitor_is_the_bounded_set.

(* the abstract object is a set of at most n addresses: duplicate-free, never more than n elements *)
Theorem C26_abstract_set_is_bounded :
  forall (n : nat) (ops : list op),
    NoDup (mset (spec_final (minit n) ops)) /\ length (mset (spec_final (minit n) ops)) <= n.
Proof. exact spec_set_bounded. Qed.
Print Assumptions C26_abstract_set_is_bounded.

(* memory safety: `end` and the store addresses_[ Size - free_size_ ] stay inside the array *)
Theorem C26_software_list_never_faults :
  forall (n : nat) (ops : list op) (o : op), ~ In (o, OFault) (run (init n) ops).
Proof. exact sw_never_faults. Qed.
Print Assumptions C26_software_list_never_faults.

(* representation invariant of every reachable state: free_size_ <= Size, Size slots, and the first
   Size - free_size_ slots hold pairwise distinct addresses *)
Theorem C26_representation_invariant :
  forall (n : nat) (ops : list op), inv (final (init n) ops).
Proof. exact inv_reachable. Qed.
Print Assumptions C26_representation_invariant.

(* the set laws stated on the model itself, without the monitor (contains s a = "a is stored in one
   of the first Size - free_size_ slots"): membership test, both filters, capacity, add (fails iff
   absent and full; idempotent; otherwise adds exactly a), remove (returns membership, deletes
   exactly a), clear *)
Theorem C26_set_laws :
  forall s : state, inv s ->
  (forall a, is_in_white_list s a = true <-> contains s a) /\
  (forall a, is_connection_request_in_filter s a = true <-> connf s = false \/ contains s a) /\
  (forall a, is_scan_request_in_filter s a = true <-> scanf s = false \/ contains s a) /\
  fill s <= cap s /\ white_list_free_size s = cap s - fill s /\
  (forall a, exists s' r, step s (Add a) = (s', OBool r) /\ inv s' /\
      (r = false <-> ~ contains s a /\ fill s = cap s) /\
      (contains s a \/ r = false -> s' = s) /\
      (r = true -> forall b, contains s' b <-> b = a \/ contains s b)) /\
  (forall a, exists s' r, step s (Remove a) = (s', OBool r) /\ inv s' /\
      (r = true <-> contains s a) /\
      (forall b, contains s' b <-> contains s b /\ b <> a)) /\
  (forall a, ~ contains (fst (step s Clear)) a).
Proof. exact sw_set_laws. Qed.
Print Assumptions C26_set_laws.

(* Radio-backed white list (white_list_implementation< Size, false, ... >, pure forwarding): for any
   radio (state type and the eleven radio_* functions are arbitrary) whose functions implement a
   bounded set through some relation Rel (WhiteListSpec.radio_implements_set), started in a state
   related to the empty set of capacity n: same two statements. n is the capacity of the RADIO's
   list: the forwarding class never looks at its own template argument Size (see the remark at
   C26_radio_capacity_is_not_Size below). *)
Theorem C26_radio_backed_list_refines_bounded_set :
  forall (radio : Type) (f_free : radio -> nat) (f_clear : radio -> radio)
         (f_add : radio -> addr -> radio * bool) (f_is_in : radio -> addr -> bool)
         (f_remove : radio -> addr -> radio * bool)
         (f_set_conn : radio -> bool -> radio) (f_conn : radio -> bool)
         (f_set_scan : radio -> bool -> radio) (f_scan : radio -> bool)
         (f_conn_in f_scan_in : radio -> addr -> bool) (Rel : radio -> mon -> Prop),
    radio_implements_set f_free f_clear f_add f_is_in f_remove f_set_conn f_conn f_set_scan f_scan
                         f_conn_in f_scan_in Rel ->
    forall (r : radio) (n : nat) (ops : list op),
      Rel r (minit n) ->
      hw_run f_free f_clear f_add f_is_in f_remove f_set_conn f_conn f_set_scan f_scan
             f_conn_in f_scan_in r ops = spec_run (minit n) ops.
Proof. exact hw_refines_set. Qed.
Print Assumptions C26_radio_backed_list_refines_bounded_set.

Theorem C26_radio_backed_list_is_bounded_set :
  forall (radio : Type) (f_free : radio -> nat) (f_clear : radio -> radio)
         (f_add : radio -> addr -> radio * bool) (f_is_in : radio -> addr -> bool)
         (f_remove : radio -> addr -> radio * bool)
         (f_set_conn : radio -> bool -> radio) (f_conn : radio -> bool)
         (f_set_scan : radio -> bool -> radio) (f_scan : radio -> bool)
         (f_conn_in f_scan_in : radio -> addr -> bool) (Rel : radio -> mon -> Prop),
    radio_implements_set f_free f_clear f_add f_is_in f_remove f_set_conn f_conn f_set_scan f_scan
                         f_conn_in f_scan_in Rel ->
    forall (r : radio) (n : nat) (ops : list op),
      Rel r (minit n) ->
      monitor n (hw_run f_free f_clear f_add f_is_in f_remove f_set_conn f_conn f_set_scan f_scan
                        f_conn_in f_scan_in r ops) = None.
Proof. exact hw_monitor_accepts. Qed.
Print Assumptions C26_radio_backed_list_is_bounded_set.

(* non-vacuity of the hypothesis: the bounded set itself is such a radio (this instance is the one
   extracted and run against the C++ forwarding class over the harness' mock radio) ... *)
Theorem C26_reference_radio_implements_set :
  radio_implements_set ref_free ref_clear ref_add ref_is_in ref_remove ref_set_conn mconn
                       ref_set_scan mscan ref_conn_in ref_scan_in (@eq mon).
Proof. exact ref_radio_implements_set. Qed.
Print Assumptions C26_reference_radio_implements_set.

(* ... and so is the software list: the algorithm of white_list.hpp, which is also the algorithm of
   the mock radio in tests/link_layer/white_list_tests.cpp, used as a radio *)
Theorem C26_software_list_is_a_valid_radio :
  radio_implements_set white_list_free_size clear_white_list add_total is_in_white_list
                       remove_from_white_list set_connection_request_filter connf
                       set_scan_request_filter scanf is_connection_request_in_filter
                       is_scan_request_in_filter sim
  /\ forall n, sim (init n) (minit n).
Proof. exact (conj sw_radio_implements_set sim_init). Qed.
Print Assumptions C26_software_list_is_a_valid_radio.

(* ---------------------------------------------------------------- examples / non-vacuity *)
Definition a1 := mk_addr 0x010203040506 false.   (* public 01:02:03:04:05:06 *)
Definition a2 := mk_addr 0x010203040506 true.    (* the same 48 bits, random  *)
Definition a3 := mk_addr 0x020203040506 false.

(* a reachable state with a hole filled by the last element: add a1, a2, a3, remove a1 *)
Example C26_inv_nonvacuous :
  let s := final (init 3) [Add a1; Add a2; Add a3; Remove a1] in
  inv s /\ slots s = [a3; a2; a3] /\ free s = 1 /\ contains s a3 /\ contains s a2 /\ ~ contains s a1.
Proof.
  cbv zeta. split; [apply inv_reachable|]. split; [vm_compute; reflexivity|]. split; [vm_compute; reflexivity|].
  split; [apply is_in_iff; vm_compute; reflexivity|]. split; [apply is_in_iff; vm_compute; reflexivity|].
  apply is_in_false_iff; vm_compute; reflexivity.
Qed.

(* the two address kinds are different elements; capacity 2 *)
Example C26_model_run :
  map snd (run (init 2) [Add a1; Add a2; Add a3; Add a1; IsIn a3; FreeSize; Remove a1; IsIn a2; FreeSize;
                         SetConn true; ConnIn a1; ConnIn a2; ScanIn a1])
  = [OBool true; OBool true; OBool false; OBool true; OBool false; ONat 0; OBool true; OBool true; ONat 1;
     OUnit; OBool false; OBool true; OBool true].
Proof. vm_compute. reflexivity. Qed.

(* the monitor is not trivially accepting: one rejected trace per clause *)
Example C26_monitor_rejects_lost_idempotence :
  monitor 2 [(Add a1, OBool true); (Add a1, OBool false)] = Some (1, t_add_idempotent).
Proof. vm_compute. reflexivity. Qed.

Example C26_monitor_rejects_duplicate_entry :   (* add() without the duplicate check *)
  monitor 2 [(Add a1, OBool true); (Add a1, OBool true); (FreeSize, ONat 0)] = Some (2, t_capacity).
Proof. vm_compute. reflexivity. Qed.

Example C26_monitor_rejects_early_full :
  monitor 2 [(Add a1, OBool true); (Add a2, OBool false)] = Some (1, t_add_result).
Proof. vm_compute. reflexivity. Qed.

Example C26_monitor_rejects_overfull :
  monitor 1 [(Add a1, OBool true); (Add a2, OBool true)] = Some (1, t_capacity).
Proof. vm_compute. reflexivity. Qed.

Example C26_monitor_rejects_wrong_remove :   (* remove() that does not move the last element into the hole *)
  monitor 3 [(Add a1, OBool true); (Add a2, OBool true); (Remove a1, OBool true); (IsIn a2, OBool false)]
  = Some (3, t_contains).
Proof. vm_compute. reflexivity. Qed.

Example C26_monitor_rejects_remove_result :
  monitor 3 [(Add a1, OBool true); (Remove a2, OBool true)] = Some (1, t_remove_exact).
Proof. vm_compute. reflexivity. Qed.

Example C26_monitor_rejects_type_blind_filter :   (* a comparison that ignores random / public *)
  monitor 3 [(Add a1, OBool true); (SetConn true, OUnit); (ConnIn a2, OBool true)] = Some (2, t_filter_conn)
  /\ monitor 3 [(Add a1, OBool true); (SetScan true, OUnit); (ScanIn a2, OBool true)] = Some (2, t_filter_scan).
Proof. split; vm_compute; reflexivity. Qed.

Example C26_monitor_rejects_fault :
  monitor 1 [(Add a1, OFault)] = Some (0, t_fault).
Proof. vm_compute. reflexivity. Qed.

(* Remark (observation, not covered by the hypothesis with n = Size): white_list< Size >::impl selects
   the forwarding class whenever Size <= Radio::radio_maximum_white_list_entries and that class never
   uses Size, so over a radio with MORE entries than Size the list holds up to the radio's number of
   addresses although maximum_white_list_entries = Size. Here: Size = 2 over a reference radio of 3
   entries, judged as a set of at most 2. No radio in the tree has hardware entries (nrf51/nrf52: 0). *)
Example C26_radio_capacity_is_not_Size :
  monitor 2 (hw_run ref_free ref_clear ref_add ref_is_in ref_remove ref_set_conn mconn ref_set_scan mscan
                    ref_conn_in ref_scan_in (minit 3) [Add a1; Add a2; Add a3])
  = Some (2, t_capacity).
Proof. vm_compute. reflexivity. Qed.

(* constants regenerated from white_list.hpp / address.cpp on every run: the model's initial state
   and the content of fresh array slots are the code's *)
From BT Require gen.GenWhiteList.
Example C26_constants_are_the_codes :
  GenWhiteList.init_free_is_size = true /\
  (forall n, free (init n) = cap (init n) /\ cap (init n) = n /\ length (slots (init n)) = n) /\
  connf (init (N.to_nat GenWhiteList.default_size)) = GenWhiteList.init_connection_filter /\
  scanf (init (N.to_nat GenWhiteList.default_size)) = GenWhiteList.init_scan_filter /\
  default_addr = mk_addr GenWhiteList.default_address_byte GenWhiteList.default_address_is_random /\
  GenWhiteList.default_size = 8%N.
Proof. repeat split; try reflexivity. cbn. apply repeat_length. Qed.
