(* C38  Generated passkeys are six-digit values.  Statements only; proofs in ToolBox/PasskeyProofs.v.
   Code: bluetoe/bindings/nordic/nrf52/security_tool_box.cpp  security_tool_box::create_passkey().
   The RNG peripheral is the byte stream argument [s] (every theorem quantifies over all streams). *)
From Coq Require Import NArith List.
From BT Require Import ToolBox.Octets ToolBox.ToolBoxModel ToolBox.ToolBoxSpec ToolBox.PasskeyProofs.
Import ListNotations.
Local Open Scope N_scope.

(* ---- the code as found (commit 6f71f7c and before): three raw random bytes ---- *)
(* The full statement for that code: for every stream the passkey is below 10^6. *)
Definition C38_found_code_full : Prop := forall s, le_to_N (fst (create_passkey_v0 s)) < 1000000.
(* It is FALSE: the stream ff ff ff gives 16 777 215 (corpus/C38/witnesses.trace case rawbytes,
   replayed on the real code).  Repaired on branch fix/C38-passkey-range; everything below is about
   the repaired function [create_passkey]. *)
Theorem C38_refuted : ~ C38_found_code_full.
Proof. exact passkey_v0_refuted. Qed.
Print Assumptions C38_refuted.
Theorem C38_refuted_witness : le_to_N (fst (create_passkey_v0 [255; 255; 255])) = 16777215.
Proof. exact passkey_v0_witness. Qed.

(* ---- the repaired code: 20 bit rejection sampling ---- *)
(* Range, for every stream and every fuel: a returned TK is 16 octets, the little endian 128 bit
   representation of a number below 10^6, and the number handed to the display callback
   (read_32bit of the first four octets) is that same number. *)
Theorem C38_passkey_in_range :
  forall (fuel : nat) (s tk s' : list N),
    create_passkey fuel s = Some (tk, s') ->
    passkey_ok tk /\ read_32bit tk = le_to_N tk /\ tk = N_to_le 16 (le_to_N tk).
Proof. exact create_passkey_range. Qed.
Print Assumptions C38_passkey_in_range.

(* Termination: the model's loop has explicit fuel (None = exhausted; the C++ loop is unbounded).
   If the n-th three byte sample of the stream is acceptable for some n < fuel, a result is returned.
   (For a uniform stream a sample is rejected with probability 48576 / 1048576 < 0.047.) *)
Theorem C38_terminates :
  forall (fuel : nat) (s : list N),
    (exists n, (n < fuel)%nat /\ accept_at n s) -> passkey_loop fuel s <> None.
Proof. exact passkey_loop_terminates. Qed.
Print Assumptions C38_terminates.
(* In particular with the convention of the emulated peripheral (zeros after the end of the script): *)
Theorem C38_terminates_on_finite_scripts :
  forall (fuel : nat) (s : list N), (Nat.div (length s) 3 < fuel)%nat -> passkey_loop fuel s <> None.
Proof. exact passkey_loop_enough_fuel. Qed.

(* Uniformity, in counting form.
   (1) After any prefix [pre] of k rejected samples, an acceptable sample (b0,b1,b2) decides the
       result: the TK is the 128 bit value of sample20 b0 b1 b2 = b0 + 256 b1 + 65536 (b2 mod 16),
       and exactly these three bytes are consumed.
   (2) (3) Byte triples are in bijection with pairs (20 bit value v, discarded nibble h):
       [triple_of] and (sample20, b2 / 16) are inverse to each other.
   Hence for a fixed rejected prefix every value 0 .. 999999 is the result for exactly 16 of the
   2^24 byte triples, and no other triple is accepted: a uniform byte stream gives a uniform
   passkey.  (The probabilistic reading is outside Coq; these three statements are what is proved.) *)
Theorem C38_uniform_accepted_sample_is_result :
  forall (k : nat) (pre : list N) (b0 b1 b2 : N) (rest : list N) (fuel : nat),
    rejected_prefix k pre -> b0 < 256 -> b1 < 256 -> b2 < 256 ->
    sample20 b0 b1 b2 < passkey_limit -> (k < fuel)%nat ->
    create_passkey fuel (pre ++ b0 :: b1 :: b2 :: rest) = Some (N_to_le 16 (sample20 b0 b1 b2), rest).
Proof. exact passkey_accepted_sample_is_result. Qed.
Print Assumptions C38_uniform_accepted_sample_is_result.
Theorem C38_uniform_sample_closed_form :
  forall b0 b1 b2, b0 < 256 -> b1 < 256 -> sample20 b0 b1 b2 = b0 + 256 * b1 + 65536 * (b2 mod 16).
Proof. exact sample20_closed. Qed.
Theorem C38_uniform_bijection_onto :
  forall v h, v < 2 ^ 20 -> h < 16 ->
    let '(b0, b1, b2) := triple_of v h in
    b0 < 256 /\ b1 < 256 /\ b2 < 256 /\ sample20 b0 b1 b2 = v /\ b2 / 16 = h.
Proof. exact sample20_triple_of. Qed.
Print Assumptions C38_uniform_bijection_onto.
Theorem C38_uniform_bijection_into :
  forall b0 b1 b2, b0 < 256 -> b1 < 256 -> b2 < 256 -> triple_of (sample20 b0 b1 b2) (b2 / 16) = (b0, b1, b2).
Proof. exact triple_of_sample20. Qed.
Print Assumptions C38_uniform_bijection_into.

(* ---- non-vacuity ---- *)
(* the hypotheses of (1) are met: two rejected samples (1 000 000 and 0xfffff), then 999 999 *)
Example C38_rejected_prefix_nonvacuous :
  rejected_prefix 2 [0x40; 0x42; 0x0f; 0xff; 0xff; 0xff] /\
  create_passkey 3 ([0x40; 0x42; 0x0f; 0xff; 0xff; 0xff] ++ [0x3f; 0x42; 0xff] ++ [7])
    = Some ([0x3f; 0x42; 0x0f] ++ repeat 0 13, [7]).
Proof.
  split; [|vm_compute; reflexivity].
  repeat (constructor; try (vm_compute; (reflexivity || discriminate))).
Qed.
(* fuel can run out, so the hypothesis of C38_terminates is needed *)
Example C38_fuel_can_run_out : passkey_loop 2 [255; 255; 255; 255; 255; 255; 0; 0; 0] = None.
Proof. vm_compute. reflexivity. Qed.
(* the monitor is not trivially accepting: it rejects the result of the code as found, and a TK
   with a non-zero upper octet *)
Example C38_monitor_rejects_raw_bytes :
  monitor [(Passkey [255; 255; 255], OPasskey ([255; 255; 255] ++ repeat 0 13) 3)] = Some (0%nat, t_passkey_range).
Proof. vm_compute. reflexivity. Qed.
Example C38_monitor_rejects_wide_tk :
  monitor [(Passkey [1; 0; 0], OPasskey ([1; 0; 0] ++ repeat 0 12 ++ [1]) 3)] = Some (0%nat, t_passkey_range).
Proof. vm_compute. reflexivity. Qed.
Example C38_monitor_accepts_model :
  monitor (run init [Passkey [255; 255; 255]; Passkey [0x3f; 0x42; 0x0f]; Passkey []]) = None.
Proof. vm_compute. reflexivity. Qed.

(* ---- constants re-read from security_tool_box.cpp on every run ---- *)
From BT Require gen.GenToolBox.
Example C38_constants_are_the_codes :
  GenToolBox.passkey_limit = passkey_limit /\ GenToolBox.passkey_mask = passkey_mask /\
  GenToolBox.passkey_draws_per_sample = 3 /\ passkey_limit = 10 ^ 6 /\ passkey_mask = 2 ^ 20 - 1.
Proof. repeat split; reflexivity. Qed.
