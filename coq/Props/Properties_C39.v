(* C39  The bootloader only touches white-listed memory.  Statements only; proofs in Boot/Boot*.v.
   The model (Boot/BootModel.v) transcribes bluetoe/services/bootloader.hpp with the three repairs
   fix/C39-opc-read-length, fix/C39-flash-beyond-region, fix/C39-leave-flash-mode. *)
From BT Require Import Boot.BootProofs.
Local Open Scope N_scope.

(* For every configuration with 0 < page size < 2^(8*address size) (wf_cfg), every list of regions,
   every user handler oracle (check sum functions, version, memory content), and every sequence - of
   any length - of writes to the control point and the data characteristic (request or command, any
   bytes), handler completions, application call backs, l2cap_output polls, confirmations, handler
   read errors and Read Requests on the three characteristic values: *)

(* 1. no operation faults: no byte beyond the written control point value is read (the value is a
      list read with nth_error), no assert of the library fires *)
Theorem C39_reads_only_written_bytes :
  forall (c : cfg) (o : oracle) (ops : list op), wf_cfg c ->
    Forall (fun xr => ost (snd xr) <> SFault) (run c o init ops).
Proof. exact reads_only_written_bytes. Qed.
Print Assumptions C39_reads_only_written_bytes.

(* 2. every read_mem, start_flash, public_read_mem and public_checksum32 call the library makes has an
      address range that is empty or lies inside ONE white-listed region (call_ok / in_region) *)
Theorem C39_touches_only_whitelisted_memory :
  forall (c : cfg) (o : oracle) (ops : list op), wf_cfg c ->
    Forall (fun xr => forallb (call_ok c) (ocalls (snd xr)) = true) (run c o init ops).
Proof. exact touches_only_whitelisted. Qed.
Print Assumptions C39_touches_only_whitelisted_memory.

(* 3. the complete monitor: 1 + 2 + every flashed page is exactly the bytes the client sent at the
      addresses it announced, completed by read back bytes; unbroken check sum chain; no data accepted
      outside a Start Flash session; progress reports in order.  The full statement ... *)
Definition C39_flashes_what_the_client_sent_full : Prop := monitor_accepts_full.

(* ... is FALSE of the code: *)
Theorem C39_flashes_what_the_client_sent_refuted : ~ C39_flashes_what_the_client_sent_full.
Proof. exact monitor_accepts_refuted. Qed.
Print Assumptions C39_flashes_what_the_client_sent_refuted.

(* with these witnesses (replayed on the implementation: corpus/C39, known findings) *)
Theorem C39_restart_while_flashing :
  monitor cfgA (run cfgA (toy_oracle 8) init w_restart) = Some (5%nat, t_progress).
Proof. exact restart_while_flashing. Qed.
Theorem C39_read_request_on_progress :
  monitor cfgA (run cfgA (toy_oracle 8) init w_read_progress) = Some (2%nat, t_progress).
Proof. exact read_progress_frees_buffer. Qed.

(* What does hold, for every configuration, oracle and operation sequence of any length: inside the
   environment env_run (no Start Flash / Stop Flash / Get Version / Get Sizes while a flashed page
   has not been reported, no Read Request on the progress characteristic; the handler reports each
   flash operation at most once - built into the EndFlash operation) the complete monitor accepts.
   Missing w.r.t. the full statement: exactly this environment hypothesis. *)
Theorem C39_flashes_what_the_client_sent_partial :
  forall (c : cfg) (o : oracle) (ops : list op), wf_cfg c ->
    env_run c o init ops = true -> monitor c (run c o init ops) = None.
Proof. exact monitor_accepts_in_environment. Qed.
Print Assumptions C39_flashes_what_the_client_sent_partial.

(* non-vacuity: the configuration of the tie is well formed; a history inside the environment that
   flashes three pages, runs a Read procedure and a Get CRC and contains malformed writes *)
Example C39_wf_nonvacuous : wf_cfg cfgA.
Proof. exact wf_cfgA. Qed.
Example C39_env_nonvacuous : env_run cfgA (toy_oracle 8) init good_history = true.
Proof. exact good_history_in_env. Qed.
Example C39_env_history_flashes_three_pages :
  map (fun x => match x with CSf a _ => a | _ => 0 end)
      (filter is_sf (flat_map (fun xr => ocalls (snd xr)) (run cfgA (toy_oracle 8) init good_history)))
  = [4096; 4112; 4128].
Proof. exact good_history_flashes. Qed.

(* the monitor is not trivially accepting: it rejects the behaviour of the code before the repairs
   (observed on /repo: corpus/C39/witnesses.trace) *)
Example C39_monitor_rejects_overread :
  monitor cfgA [(WCp [8], mkout SFault [])] = Some (0%nat, t_overread).
Proof. vm_compute. reflexivity. Qed.
Example C39_monitor_rejects_flash_behind_region :      (* Start Flash at the end address 0x1040 *)
  monitor cfgA [(WCp (3 :: le8 4160), mkout SOk [CCs 4160 1; CRm 4160 []]);
                (WData [1], mkout SOk [CCk [1] 1 2]);
                (WCp [5], mkout SOk [CRm 4161 (repeat 0 15); CSf 4160 (1 :: repeat 0 15)])]
  = Some (2%nat, t_range).
Proof. vm_compute. reflexivity. Qed.
Example C39_monitor_rejects_read_behind_region :
  monitor cfgA [(Out, mkout (SInd ChData (repeat 0 20)) [CPr 4161 20 false; CCk (repeat 0 20) 1 2; CDicb])]
  = Some (0%nat, t_range).
Proof. vm_compute. reflexivity. Qed.
Example C39_monitor_rejects_data_at_wrong_address :    (* data flashed at 0x1030 instead of 0x2000 *)
  monitor cfgA [(WCp (3 :: le8 8192), mkout SOk [CCs 8192 1; CRm 8192 []]);
                (WData bytes20, mkout SOk [CCk (firstn 16 bytes20) 1 2; CSf 4144 (firstn 16 bytes20)])]
  = Some (1%nat, t_flashed).
Proof. vm_compute. reflexivity. Qed.
Example C39_monitor_rejects_broken_chain :
  monitor cfgA [(WCp (3 :: le8 8192), mkout SOk [CCs 8192 1; CRm 8192 []]);
                (WData [7], mkout SOk [CCk [7] 99 2])]
  = Some (1%nat, t_crc).
Proof. vm_compute. reflexivity. Qed.
Example C39_monitor_rejects_data_without_start_flash :
  monitor cfgA [(WData [7], mkout SOk [])] = Some (0%nat, t_outside).
Proof. vm_compute. reflexivity. Qed.

(* constants regenerated from bootloader.hpp / codes.hpp on every run *)
From BT Require gen.GenBoot.
Example C39_constants_are_the_codes :
  GenBoot.opc_get_version = 0 /\ GenBoot.opc_get_crc = 1 /\ GenBoot.opc_get_sizes = 2 /\
  GenBoot.opc_start_flash = 3 /\ GenBoot.opc_stop_flash = 4 /\ GenBoot.opc_flush = 5 /\
  GenBoot.opc_start = 6 /\ GenBoot.opc_reset = 7 /\ GenBoot.opc_read = 8 /\ GenBoot.undefined_opcode = 255 /\
  GenBoot.err_no_operation_in_progress = e_no_operation /\ GenBoot.err_invalid_opcode = e_invalid_opcode /\
  GenBoot.err_invalid_state = e_invalid_state /\ GenBoot.err_buffer_overrun_attempt = e_buffer_overrun /\
  GenBoot.att_invalid_offset = e_invalid_offset /\ GenBoot.att_invalid_attribute_value_length = e_invalid_length /\
  GenBoot.att_success = 0 /\ GenBoot.handler_success = 0 /\ GenBoot.handler_not_authorized = 1 /\
  GenBoot.number_of_concurrent_flashs = 2.
Proof. repeat split; reflexivity. Qed.
