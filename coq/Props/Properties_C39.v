(* C39  The bootloader only touches white-listed memory.  Statements only; proofs in Boot/BootProofs.v. *)
From BT Require Import Base.ListX Boot.BootModel Boot.BootSpec.
Local Open Scope N_scope.

(* constants regenerated from bootloader.hpp / codes.hpp on every run *)
From BT Require gen.GenBoot.
Example C39_constants_are_the_codes :
  GenBoot.opc_get_version = 0 /\ GenBoot.opc_get_crc = 1 /\ GenBoot.opc_get_sizes = 2 /\
  GenBoot.opc_start_flash = 3 /\ GenBoot.opc_stop_flash = 4 /\ GenBoot.opc_flush = 5 /\
  GenBoot.opc_start = 6 /\ GenBoot.opc_reset = 7 /\ GenBoot.opc_read = 8 /\ GenBoot.undefined_opcode = 255 /\
  GenBoot.err_no_operation_in_progress = e_no_operation /\ GenBoot.err_invalid_opcode = e_invalid_opcode /\
  GenBoot.err_invalid_state = e_invalid_state /\ GenBoot.err_buffer_overrun_attempt = e_buffer_overrun /\
  GenBoot.att_invalid_offset = e_invalid_offset /\ GenBoot.att_invalid_attribute_value_length = e_invalid_length /\
  GenBoot.att_success = 0 /\ GenBoot.handler_success = 0 /\ GenBoot.handler_not_authorized = 1 /\
  GenBoot.number_of_concurrent_flashs = 2.
Proof. repeat split; reflexivity. Qed.
