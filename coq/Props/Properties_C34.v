(* C34  Distributed keys are only sent over an encrypted link.  Statements only; proofs in SM/SMProofs.v.

   monitor34 (SM/SMSpec.v): an Encryption Information or Central Identification PDU leaves the device
   (as an answer or on an output poll) only
     dist_unencrypted       while the link is encrypted,
     dist_without_pairing   after a pairing with bonding completed on this connection,
     dist_twice             each of the two at most once per completed pairing,
     dist_content           carrying the key / EDIV / Rand of the bond stored for that pairing,
     dist_stale             and while that pairing is still the connection's completed pairing (no Pairing
                            Failed since). *)
From BT Require Import Base.ListX SM.SMModel SM.SMSpec SM.SMProofs SM.ToyCrypto SM.SMDirect.
Local Open Scope N_scope.

Definition C34_distribution_full : Prop := dist_full.

(* FALSE as it stands: the pending-distribution flags survive a later failed pairing attempt. After a
   completed pairing (not yet encrypted) any PDU that is answered with Pairing Failed takes the state
   back to idle - the STK is no longer offered - but once the link is encrypted (with a key from the bond
   data base) the long term key of the abandoned pairing is sent. Known finding C34-stale-distribution. *)
Theorem C34_distribution_refuted : ~ C34_distribution_full.
Proof. exact dist_refuted. Qed.
Print Assumptions C34_distribution_refuted.
Theorem C34_stale_distribution_witness :
  toy_monitor34 cfg_bond_legacy w_dist_stale = Some (6%nat, t_dist_stale).
Proof. exact dist_stale_witness. Qed.

(* What does hold, for every tool box, bond data base, configuration and operation sequence of any length:
   dist_stale is the ONLY clause that can fail - keys are distributed only while encrypted, only after a
   completed pairing with bonding, each item at most once per pairing, with the stored bond's content. *)
Theorem C34_distribution_partial :
  forall (K : crypto) (DB : Type) (D : dbops DB), dh_ok K -> passkey_ok K ->
  forall c db0 ops,
    match monitor34 K D c db0 (run K D c (init_state db0) ops) with
    | None => True
    | Some (_, t) => t = t_dist_stale
    end.
Proof. exact monitor34_only_stale. Qed.
Print Assumptions C34_distribution_partial.

Example C34_accepts_distribution_after_pairing :
  toy_monitor34 cfg_keyboard_display w_legacy_passkey = None.
Proof. exact (proj1 (proj2 (proj2 legacy_passkey_accepted))). Qed.
Example C34_monitor_rejects_unencrypted_distribution :
  monitor_from (mstep34 toy toydbops) cfg_bond_legacy (minit ([] : toydb)) O
    [(In w34_preq, OResp w34_pres []); (Out, OResp (6 :: zeros 16) [])] = Some (1%nat, t_dist_unencrypted).
Proof. exact monitor_rejects_unencrypted_distribution. Qed.
From BT Require gen.GenSM.
Example C34_constants_are_the_codes :
  GenSM.op_encryption_information = 6 /\ GenSM.op_central_identification = 7 /\ GenSM.flag_bonding = 1.
Proof. repeat split; reflexivity. Qed.

(* ---- monitor-independent statements, directly over the model's step / run_state (SM/SMDirect.v) ---- *)

(* in EVERY state (reachable or not): a step answers with Encryption Information (6) or Central Identification (7)
   only on an output poll, with a bond data base, while the encrypted flag is set and the item is pending;
   in the state after the step the item is no longer pending; the content is the armed key / EDIV, Rand *)
Theorem C34_direct_distribution_step :
  forall (K : crypto) (DB : Type) (D : dbops DB) c (s s' : state DB) o h r ev,
  step K D c s o = (s', OResp (h :: r) ev) -> h = 6 \/ h = 7 ->
  o = Out /\ c_bond c = true /\ encrypted s = true
  /\ (h = 6 -> d_enc (dist s) = true /\ d_enc (dist s') = false /\ r = d_key (dist s))
  /\ (h = 7 -> d_enc (dist s) = false /\ d_id (dist s) = true /\ d_id (dist s') = false /\ d_enc (dist s') = false
              /\ r = le16 (d_ediv (dist s)) ++ le64 (d_rand (dist s))).
Proof. exact dist_pdu_step. Qed.
Print Assumptions C34_direct_distribution_step.

(* over operation sequences of any length *)
Theorem C34_direct_distribution_only_encrypted :
  forall (K : crypto) (DB : Type) (D : dbops DB) c db0 ops o h r ev,
  let s := run_state K D c (init_state db0) ops in
  snd (step K D c s o) = OResp (h :: r) ev -> h = 6 \/ h = 7 ->
  o = Out /\ c_bond c = true /\ encrypted s = true.
Proof. exact dist_pdu_only_encrypted. Qed.
Print Assumptions C34_direct_distribution_only_encrypted.

Theorem C34_direct_distribution_not_pending_afterwards :
  forall (K : crypto) (DB : Type) (D : dbops DB) c db0 ops o h r ev,
  let s := run_state K D c (init_state db0) ops in
  let s' := run_state K D c (init_state db0) (ops ++ [o]) in
  snd (step K D c s o) = OResp (h :: r) ev ->
  (h = 6 -> d_enc (dist s) = true /\ d_enc (dist s') = false) /\
  (h = 7 -> d_id (dist s) = true /\ d_id (dist s') = false /\ d_enc (dist s') = false).
Proof. exact dist_pdu_not_pending_afterwards. Qed.
Print Assumptions C34_direct_distribution_not_pending_afterwards.

(* non-vacuity: the two polls of w_legacy_passkey on the encrypted link (after 9 and 10 operations) *)
Example C34_direct_witnesses :
  (exists k, snd (step toy toydbops ex_cfg (ex_state 9) Out) = OResp (6 :: k) [])
  /\ (exists ci, snd (step toy toydbops ex_cfg (ex_state 10) Out) = OResp (7 :: ci) []).
Proof. exact dist_pdu_witness. Qed.
