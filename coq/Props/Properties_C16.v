(* C16  Encryption packet counters advance exactly once per new PDU.
   Statements only; proofs live in PduBuf/PduBufProofs.v. The counter callbacks
   increment_receive_packet_counter() / increment_transmit_packet_counter() of the Radio are outputs
   (rc, tc) of the model's radio-side operations. *)
From BT Require Import Base.ListX PduBuf.PduBufModel PduBuf.PduBufSpec PduBuf.PduBufProofs.
Local Open Scope N_scope.

(* For every operation sequence the model's trace satisfies the counter clauses:
   increment_receive_packet_counter() is called exactly once for a new (SN = expected) PDU with
   non-zero length taken by received() (any LLID), and never otherwise (retransmission, empty PDU,
   no buffer, MIC failure, next_transmit()); increment_transmit_packet_counter() exactly once when
   a committed PDU is acknowledged by the central's NESN, never for empty PDUs or repeated NESNs. *)
Theorem C16_monitor_accepts_every_model_trace :
  forall (cf : cfg) (ops : list op), monitor P16 cf (run cf (init cf) ops) = None.
Proof. exact (monitor_accepts_model P16). Qed.
Print Assumptions C16_monitor_accepts_every_model_trace.

(* In the closed loop of C15 (any fault sequence, any traffic, any length): the number of receive
   counter increments is the number of non-empty PDUs among those the central completed plus the one
   accepted but not yet known to be acknowledged; the number of transmit counter increments is the
   number of PDUs that left the transmit FIFO (end_to_end, last two clauses). *)
Theorem C16_counters_in_closed_loop :
  forall (cf : cfg) (evs : list event),
    Forall (fun e => event_ok e = true) evs ->
    exists m g,
      grun (minit cf) g0 (snd (sys_run cf (cen_init, init cf) evs)) = Some (m, g) /\
      end_to_end (fst (fst (sys_run cf (cen_init, init cf) evs)))
                 (snd (fst (sys_run cf (cen_init, init cf) evs))) m g.
Proof. exact closed_loop_end_to_end. Qed.
Print Assumptions C16_counters_in_closed_loop.

(* Nonce synchronisation: whenever the peripheral has not yet accepted the PDU the central is
   sending (its SN is the expected one), the peripheral's receive counter equals the number of
   non-empty PDUs the central has completed = the packet counter the central encrypted it with; and
   whenever the central has not accepted the head of the transmit FIFO, the transmit counter equals
   the number of non-empty PDUs the central has accepted. No counter value is skipped or used twice. *)
Theorem C16_nonce_synchronised :
  forall c s m g,
    end_to_end c s m g ->
    (Bool.eqb (m_nesn m) (c_sn c) = true -> g_rxc g = nlen (filter counted (c_done c))) /\
    (tx_in_flight c m = [] -> g_txc g = nlen (filter counted (c_acc c))).
Proof. exact end_to_end_nonce. Qed.
Print Assumptions C16_nonce_synchronised.

(* counter::increment of nrf52.cpp (uint32_t low; uint8_t high): after n increments from zero the
   counter is n modulo 2^40 *)
Theorem C16_counter_after_n_increments :
  forall n : nat,
    counter_ok (counter_after n) /\ counter_value (counter_after n) = N.of_nat n mod 1099511627776.
Proof. exact counter_after_value. Qed.
Print Assumptions C16_counter_after_n_increments.

(* below 2^39 increments the value is n itself, fits the 39 bit packet counter of the CCM nonce, and
   the five bytes handed to the CCM (copy_to) differ for different n *)
Theorem C16_counter_no_reuse_below_2_39 :
  forall n1 n2 : nat,
    N.of_nat n1 < 549755813888 -> N.of_nat n2 < 549755813888 ->
    counter_value (counter_after n1) = N.of_nat n1 /\ counter_value (counter_after n1) < 549755813888 /\
    (counter_bytes (counter_after n1) = counter_bytes (counter_after n2) -> n1 = n2).
Proof. exact counter_no_reuse. Qed.
Print Assumptions C16_counter_no_reuse_below_2_39.

(* ---- non-vacuity ---- *)
Definition ex_cfg : cfg := mkC 1 100 100.

Example C16_counter_carry :
  counter_increment (4294967295, 7) = (0, 8) /\ counter_bytes (counter_increment (4294967295, 7)) = [0; 0; 0; 0; 8] /\
  counter_increment (4294967295, 255) = (0, 0) /\ counter_after 3 = (3, 0).
Proof. vm_compute. repeat split. Qed.

(* a run in which both counters move: new non-empty PDU, retransmission, empty PDU, acknowledged commit *)
Example C16_example_run :
  map snd (run ex_cfg (init ex_cfg)
             [Tx 4 2 [170]; Rx 1 [17]; Rx 1 [17]; Rx 13 []; Rx 5 [18]])
  = [OTx true; OResp KR 4 262 [170] 1 0; OResp KR 4 262 [170] 0 0; OResp KR 3 9 [] 0 1; OResp KR 3 13 [] 1 0].
Proof. vm_compute. reflexivity. Qed.

(* the monitor is not trivially accepting: counter incremented for an empty PDU / for a retransmission /
   not incremented for a new non-empty PDU / transmit counter for an empty PDU *)
Example C16_monitor_rejects_increment_on_empty :
  monitor P16 ex_cfg [ (Rx 1 [], OResp KR 3 5 [] 1 0) ] = Some (0%nat, t_rx_counter).
Proof. vm_compute. reflexivity. Qed.
Example C16_monitor_rejects_increment_on_retransmission :
  monitor P16 ex_cfg [ (Rx 1 [17], OResp KR 3 5 [] 1 0); (Rx 1 [17], OResp KR 3 5 [] 1 0) ] = Some (1%nat, t_rx_counter).
Proof. vm_compute. reflexivity. Qed.
Example C16_monitor_rejects_skipped_increment :
  monitor P16 ex_cfg [ (Rx 1 [17], OResp KR 3 5 [] 0 0) ] = Some (0%nat, t_rx_counter).
Proof. vm_compute. reflexivity. Qed.
Example C16_monitor_rejects_tx_increment_for_empty :
  monitor P16 ex_cfg [ (NextTx, OResp KN 3 1 [] 0 0); (Rx 5 [], OResp KR 3 13 [] 0 1) ] = Some (1%nat, t_tx_counter).
Proof. vm_compute. reflexivity. Qed.
(* the behaviour before the fix of C17: the PDU is acknowledged but the receive counter is not
   advanced (it cannot: the MIC failed), so both sides' nonces differ from then on *)
Example C16_monitor_rejects_acknowledged_mic_failure :
  monitor P16 ex_cfg [ (Mic 1 [170], OResp KA 3 5 [] 0 0) ] = Some (0%nat, t_nesn_mic).
Proof. vm_compute. reflexivity. Qed.

From BT Require gen.GenPduBufCounter.
Example C16_counter_widths_are_the_codes :
  GenPduBufCounter.counter_low_bits = 32 /\ GenPduBufCounter.counter_high_bits = 8 /\
  2 ^ GenPduBufCounter.counter_low_bits = 4294967296 /\
  2 ^ (GenPduBufCounter.counter_low_bits + GenPduBufCounter.counter_high_bits) = 1099511627776.
Proof. repeat split; reflexivity. Qed.
