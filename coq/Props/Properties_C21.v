(* C21  Instant-based procedures apply at their instant or end the link.  Statements only; proofs in LL/LLProofsC21.v. *)
From Coq Require Import NArith List Bool.
From BT Require Import Base.ListX LL.LLModel LL.LLSpec LL.LLSpecC21 LL.LLProofs LL.LLProofsC21.
Import ListNotations.
Local Open Scope N_scope.

Theorem C21_instant_check_is_the_core_rule :
  forall inst evc, inst < 65536 -> evc < 65536 -> instant_passed inst evc = negb (reachable inst evc).
Proof. exact instant_passed_spec. Qed.
Print Assumptions C21_instant_check_is_the_core_rule.
