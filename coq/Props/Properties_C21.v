(* C21  Instant-based procedures apply at their instant or end the link.  Statements only; proofs in LL/LLProofsC21.v.
   The model (LL/LLModel.v) is the code AFTER the repair branch fix/C21-instant-checks; the comparisons as they were
   written before are LLSpecC21.old_update_check / old_map_check / old_phy_check (refuted below). *)
From Coq Require Import NArith List Bool.
From BT Require Import Base.ListX LL.LLModel LL.LLSpec LL.LLSpecC21 LL.LLProofsC21 LL.LLSimC21.
From BT Require gen.GenLL ChanMap.ChanMapModel.
Import ListNotations.
Local Open Scope N_scope.

(* ------------------------------------------------------------------------------------------ 1. the comparison *)
(* instant_passed() is the Core's rule, for every 16 bit instant and every 16 bit counter (wrap included):
   passed  <->  ( instant - counter ) mod 65536  is 0 or >= 32767 *)
Theorem C21_instant_check_is_the_core_rule :
  forall inst evc, inst < 65536 -> evc < 65536 -> instant_passed inst evc = negb (reachable inst evc).
Proof. exact instant_passed_spec. Qed.
Print Assumptions C21_instant_check_is_the_core_rule.

Theorem C21_reachable_is_one_of_the_next_32766_events :
  forall inst evc, inst < 65536 -> evc < 65536 ->
    (reachable inst evc = true <-> exists j, 1 <= j <= 32766 /\ inst = (evc + j) mod 65536).
Proof. exact reachable_iff. Qed.
Print Assumptions C21_reachable_is_one_of_the_next_32766_events.

(* the comparisons of the unrepaired code are not that rule (witnesses: instant = counter; PHY: instant = counter - 1) *)
Theorem C21_old_update_check_refuted :
  ~ (forall inst evc, inst < 65536 -> evc < 65536 -> old_update_check inst evc = negb (reachable inst evc)).
Proof. exact old_update_check_refuted. Qed.
Theorem C21_old_map_check_refuted :
  ~ (forall inst evc, inst < 65536 -> evc < 65536 -> old_map_check inst evc = negb (reachable inst evc)).
Proof. exact old_map_check_refuted. Qed.
Theorem C21_old_phy_check_refuted :
  ~ (forall inst evc, inst < 65536 -> evc < 65536 -> old_phy_check inst evc = negb (reachable inst evc)).
Proof. exact old_phy_check_refuted. Qed.

(* ------------------------------------------------------------------------------------------ 2. reception *)
(* Every LL_CONNECTION_UPDATE_IND / LL_CHANNEL_MAP_IND / LL_PHY_UPDATE_IND (specification level classification
   [classify21], any payload, any state) is either refused - the link is to be dropped with 0x28, nothing transmitted -
   or stored unchanged with its instant; [refused] is the comparison. *)
Theorem C21_indication_is_refused_with_0x28_or_deferred :
  forall c s body pr inst,
    classify21 (c_phy c) (3, body) = Some (pr, inst) ->
    let r := handle_ll_control c s body in
    (refused pr inst (evc (cs s)) = true /\ snd r = DoDisconnect /\ disc_reason (fst (fst r)) = 40 /\ snd (fst r) = [])
    \/ (refused pr inst (evc (cs s)) = false /\ snd r = GoAhead /\ deferred (fst (fst r)) = Some body
        /\ def_instant (fst (fst r)) = inst /\ snd (fst r) = []).
Proof. exact accept_spec. Qed.
Print Assumptions C21_indication_is_refused_with_0x28_or_deferred.

(* an instant that can no longer be met ends the link with "instant passed", for all three procedures *)
Theorem C21_unreachable_instant_ends_the_link :
  forall c s body pr inst,
    classify21 (c_phy c) (3, body) = Some (pr, inst) -> bytes_ok body -> evc (cs s) < 65536 ->
    reachable inst (evc (cs s)) = false ->
    snd (handle_ll_control c s body) = DoDisconnect /\ disc_reason (fst (fst (handle_ll_control c s body))) = 40.
Proof. exact unreachable_ends_the_link. Qed.
Print Assumptions C21_unreachable_instant_ends_the_link.

(* The converse - every reachable instant is deferred - is FALSE of the code: a connection update that names the NEXT
   connection event is refused (kept by the repair: the repository's test connection_update_request_invalid_instance
   demands it). Known finding C21-update-next-event-refused. *)
Definition C21_reachable_instant_is_deferred_full : Prop := reachable_is_deferred_full.
Theorem C21_reachable_instant_is_deferred_refuted : ~ C21_reachable_instant_is_deferred_full.
Proof. exact reachable_is_deferred_refuted. Qed.
Print Assumptions C21_reachable_instant_is_deferred_refuted.
(* what holds: everything but that one distance of that one procedure *)
Theorem C21_reachable_instant_is_deferred_partial :
  forall c s body pr inst,
    classify21 (c_phy c) (3, body) = Some (pr, inst) -> bytes_ok body -> evc (cs s) < 65536 ->
    reachable inst (evc (cs s)) = true ->
    match pr with PUpdate _ _ _ _ _ => inst <> evc (cs s) + 1 | _ => True end ->
    snd (handle_ll_control c s body) = GoAhead /\ deferred (fst (fst (handle_ll_control c s body))) = Some body
    /\ def_instant (fst (fst (handle_ll_control c s body))) = inst.
Proof. exact reachable_is_deferred_partial. Qed.
Print Assumptions C21_reachable_instant_is_deferred_partial.

(* while a procedure waits, nothing of the receive queue is looked at (the PDUs stay queued) ... *)
Theorem C21_received_data_waits_while_a_procedure_waits :
  forall c fuel s b, deferred s = Some b -> handle_received_data (S fuel) c s = (s, [], GoAhead).
Proof. exact hrd_blocked. Qed.

(* ------------------------------------------------------------------------------------------ 3. planning and the instant *)
(* peripheral latency never skips the instant: the next event is planned l events ahead, 1 <= l <= latency + 1 and
   l <= distance of the waiting instant - any latency <= 499, any event flags, any counter *)
Theorem C21_planning_never_passes_the_instant :
  forall c s evts s',
    plan_next_connection_event c s evts = Some s' -> evc (cs s) < 65536 -> latency (tm s) <= 499 ->
    exists l t ll,
      s' = set_cs s (mk_cstate ((ch_idx (cs s) + l) mod 37) (u16 (evc (cs s) + l)) t ll)
      /\ 1 <= l <= latency (tm s) + 1
      /\ (disarmable c = true -> ll = l) /\ (disarmable c = false -> ll = last_lat (cs s))
      /\ (forall b, deferred s = Some b -> def_instant s < 65536 -> 1 <= dist s -> l <= dist s).
Proof. exact plan_spec. Qed.
Print Assumptions C21_planning_never_passes_the_instant.

(* before the instant nothing is applied: the event is handed to the radio with the channel map, interval in force *)
Theorem C21_nothing_applied_before_the_instant :
  forall c s s' it,
    pending_then_setup c s = Some (s', it) -> (deferred s = None \/ def_instant s <> evc (cs s)) ->
    s' = set_pending_event s true /\ exists ws we, it = [ICe (data_channel s) ws we (interval (tm s))].
Proof. exact pending_not_yet. Qed.

(* when the planned counter equals the instant the procedure is applied - the values of the stored PDU - BEFORE the event
   is handed to the radio ( ICe with the channel of the new map / the new interval; IPhy before it ), or the link ends
   (connection update with parameters check_timing refuses) *)
Theorem C21_applied_at_the_instant :
  forall c s b s' it,
    pending_then_setup c s = Some (s', it) -> deferred s = Some b -> def_instant s = evc (cs s) ->
    (exists sx, s' = fst (force_disconnect c sx) /\ cs sx = cs (after_apply c s) /\ rxq (bf sx) = rxq (bf s))
    \/ (deferred s' = None /\ cs s' = cs (after_apply c s) /\ rxq (bf s') = rxq (bf s)
        /\ (exists ws we, In (ICe (data_channel s') ws we (interval (tm s'))) it)
        /\ (   (byte b 0 = GenLL.LL_CHANNEL_MAP_REQ /\ applied_map s s' b /\ forall x y, ~ In (IPhy x y) it)
            \/ (byte b 0 <> GenLL.LL_CHANNEL_MAP_REQ /\ byte b 0 = GenLL.LL_CONNECTION_UPDATE_IND /\ applied_update s s' b
                /\ snd (parse_update b) = Some true /\ forall x y, ~ In (IPhy x y) it)
            \/ (byte b 0 <> GenLL.LL_CHANNEL_MAP_REQ /\ byte b 0 <> GenLL.LL_CONNECTION_UPDATE_IND
                /\ tm s' = tm s /\ chan s' = chan s /\ st s' = st s /\ In (IPhy (byte b 1) (byte b 2)) it))).
Proof. exact pending_at_instant. Qed.
Print Assumptions C21_applied_at_the_instant.

(* ------------------------------------------------------------------------------------------ 4. whole operations *)
(* The invariant, over EVERY sequence of operations from power-up (advertising, connect requests, connection events with
   any PDUs, missed events, API calls, blocked transmit buffers, cancelations), any configuration:
   nothing waits outside a connection; a waiting procedure has a 16 bit instant at distance 1 .. 32766 of the planned
   event's counter, and the planned event can not be pulled back behind that range; latency <= 499 *)
Theorem C21_invariant_over_all_histories :
  forall c ops, Forall op_ok ops -> Inv c (lfinal c (linit c) ops).
Proof. exact invariant_from_power_up. Qed.
Print Assumptions C21_invariant_over_all_histories.

(* end_event() with a waiting procedure [b]: the link ends, or the procedure still waits with a strictly smaller distance
   (same parameters, same channel map, nothing of the receive queue touched, no PHY change), or it is applied and the
   planned counter IS the instant. [outcome] spells this out; the state it refers to is the one after the prologue of
   end_event (state_ = connected, transmit window cleared). *)
Theorem C21_end_event_with_a_waiting_procedure :
  forall c s evts s' it b,
    Inv c s -> in_connection s = true -> deferred s = Some b -> do_end_event c s evts = Some (s', it) ->
    exists it', outcome c b (end_event_prologue c s) s' it'
                /\ (forall x, In x it' -> In x it)
                /\ (forall x y, In (IPhy x y) it -> st s' = Advertising \/ In (IPhy x y) it').
Proof. exact end_event_pending. Qed.
Print Assumptions C21_end_event_with_a_waiting_procedure.

(* timeout(): the same when the event is lost - an instant on a missed event is applied all the same *)
Theorem C21_missed_event_with_a_waiting_procedure :
  forall c s s' it b,
    Inv c s -> in_connection s = true -> deferred s = Some b -> do_timeout c s = Some (s', it) ->
    exists it', outcome c b s s' it' /\ (forall x, In x it' -> In x it)
                /\ (forall x y, In (IPhy x y) it -> st s' = Advertising \/ In (IPhy x y) it').
Proof. exact timeout_pending. Qed.
Print Assumptions C21_missed_event_with_a_waiting_procedure.

(* A waiting procedure is resolved - applied with the planned counter equal to its instant, or the link is gone - after
   at most as many connection events as the instant is away, whatever is received, whichever events are lost, whatever
   the latency. (Reception is blocked no longer than that: C21_received_data_waits_while_a_procedure_waits is the only
   block, and [deferred = None] lifts it.) *)
Theorem C21_resolved_within_the_distance_of_the_instant :
  forall c ops s b,
    Inv c s -> in_connection s = true -> deferred s = Some b -> events_run c s ops -> dist s <= N.of_nat (length ops) ->
    exists pre post, ops = pre ++ post /\ N.of_nat (length pre) <= dist s /\
      (in_connection (lfinal c s pre) = false
       \/ (deferred (lfinal c s pre) = None /\ evc (cs (lfinal c s pre)) = def_instant s)).
Proof. exact resolved_within_distance. Qed.
Print Assumptions C21_resolved_within_the_distance_of_the_instant.

(* after the application try_event_cancelation() can not move the planned event (the instant) back *)
Theorem C21_no_pull_back_after_the_application :
  forall c s bb us, (disarmable c = true -> last_lat (cs s) = 1) -> do_cancel c s bb us = Some (s, []).
Proof. exact cancel_after_applied. Qed.
Print Assumptions C21_no_pull_back_after_the_application.

(* ------------------------------------------------------------------------------------------ 5. the monitor *)
(* "the specification monitor accepts every trace of the model" is false because of the known finding ... *)
Definition C21_monitor_accepts_all_full : Prop := monitor_accepts_all_full.
Theorem C21_monitor_accepts_all_refuted : ~ C21_monitor_accepts_all_full.
Proof. exact monitor_accepts_all_refuted. Qed.
Print Assumptions C21_monitor_accepts_all_refuted.
Theorem C21_update_for_the_next_event_is_refused : verdict21 (trace21 witness_next_event) = Bad 7.
Proof. exact witness_next_event_rejected. Qed.
(* ... and for the rest: the monitor never raises one of the clauses 1 - 6 of this property ( 7 = the known finding;
   8.. = fault / counter / channel / shape, not clauses of this property ). Without an environment that is still false:
   four callbacks in one connection event fill the ring of callback events (C29, DESIGN section 7 #25), the closed( 0x28 )
   callback of a refused indication is lost and the monitor raises instant_passed_terminates: *)
Definition C21_monitor_accepts_rest_full : Prop := monitor_accepts_rest_full.
Theorem C21_monitor_accepts_rest_refuted : ~ C21_monitor_accepts_rest_full.
Proof. exact monitor_accepts_rest_refuted. Qed.
Print Assumptions C21_monitor_accepts_rest_refuted.
(* What is proved, for every configuration and every operation sequence of ANY length (simulation between the state of the
   link layer model and the state of the monitor, LL/LLSimC21.v): in the environment [env_run] the monitor never raises a
   clause 1 - 6. [env_run] is an executable predicate on the run (model and monitor in lock step); it excludes exactly
     (a) operations that deliver 4 or more callbacks (the ring overflow above), and
     (b) connection events / event cancelations in which the number of events the monitor DERIVES from the window handed
         to the radio ( centre / interval, the transmit window of an update subtracted ) differs from the number of events
         the link layer's counter moved - i.e. the correctness of that derivation ( 32 bit microsecond arithmetic, ppm
         widening: C22 / C23 ) is assumed, not proved; on every run it is checked by the monitor clause `counter` (`st`).
   Everything else is proved: which PDU is looked at in which event, refused / deferred = the Core's rule, nothing of a
   waiting procedure is visible before its instant, at the instant the channel (CSA#1 of the new map, theorems of C20),
   the interval and the changed callback, the PHY item are the PDU's, the ATT answers owed are on air, the end of a link
   is seen, try_event_cancelation() after an application moves nothing. *)
Theorem C21_monitor_accepts_partial :
  forall c ops, Forall op_ok ops -> env_run c (linit c) (minit21 c) ops = true ->
    forall k, mrun21 c (minit21 c) (lrun c (linit c) ops) = Bad k -> (k = 7 \/ 8 <= k)%nat.
Proof. exact monitor_accepts_partial. Qed.
Print Assumptions C21_monitor_accepts_partial.
(* the environment is met: the session below (three procedures, traffic, lost events) and a session with cancelations *)
Example C21_environment_nonvacuous :
  env_run cfg21 (linit cfg21) (minit21 cfg21) session21 = true
  /\ env_run cfg21 (linit cfg21) (minit21 cfg21)
       [Run; connect21 3; Ev 0 []; Ev 2 [map_pdu 20]; Ev 0 []; Cancel true 100; St; Ev 0 []; Ev 0 []; Ev 0 []; Cancel true 100; St; Ev 0 []] = true.
Proof. exact (conj env_session21 env_cancel_session). Qed.
(* ... and it is what separates the witness above *)
Example C21_environment_excludes_the_ring_overflow :
  verdict21 (trace21 witness_ring_overflow) = Bad 3 /\ env_run cfg21 (linit cfg21) (minit21 cfg21) witness_ring_overflow = false.
Proof. exact witness_ring_overflow_rejected. Qed.

(* ------------------------------------------------------------------------------------------ examples: non-vacuity *)
(* the hypotheses are met and the monitor accepts: all three procedures, traffic while they wait, instants on missed events *)
Example C21_session_accepted : verdict21 (trace21 session21) = Ok.
Proof. exact session21_accepted. Qed.
Example C21_session_meets_the_hypotheses :
  Forall op_ok session21 /\ in_connection (lfinal cfg21 (linit cfg21) session21) = true.
Proof. exact session21_hypotheses. Qed.
(* a state in which a procedure waits, as the theorems of section 4 assume *)
Example C21_waiting_state_exists :
  let s := lfinal cfg21 (linit cfg21) (pre21 ++ [Ev 0 [map_pdu 9]]) in
  deferred s = Some (snd (map_pdu 9)) /\ dist s = 6 /\ in_connection s = true.
Proof. exact waiting_state_example. Qed.
(* the monitor is not trivially accepting: one rejected trace per clause (the behaviour of the unrepaired code among them) *)
Example C21_monitor_rejects_accepted_passed_instant :
  verdict21 (observed_as (pre21 ++ [Ev 0 [upd_pdu 40 2]; Ev 0 []]) (pre21 ++ [Ev 0 [upd_pdu 40 7]; Ev 0 []])) = Bad 3.
Proof. exact monitor_rejects_accepted_passed_instant. Qed.
Example C21_monitor_rejects_refused_reachable_instant :
  verdict21 (observed_as (pre21 ++ [Ev 0 [map_pdu 4]; Ev 0 []]) (pre21 ++ [Ev 0 [map_pdu 2]; Ev 0 []])) = Bad 7.
Proof. exact monitor_rejects_refused_reachable_instant. Qed.
Example C21_monitor_rejects_late_application :
  verdict21 (observed_as (pre21 ++ [Ev 0 [map_pdu 4]; Ev 0 []; Ev 0 []; Ev 0 []]) (pre21 ++ [Ev 0 [map_pdu 5]; Ev 0 []; Ev 0 []; Ev 0 []])) = Bad 4.
Proof. exact monitor_rejects_late_application. Qed.
Example C21_monitor_rejects_early_application :
  verdict21 (observed_as (pre21 ++ [Ev 0 [phy_pdu 5]; Ev 0 []; Ev 0 []; Ev 0 []]) (pre21 ++ [Ev 0 [phy_pdu 4]; Ev 0 []; Ev 0 []; Ev 0 []])) = Bad 1.
Proof. exact monitor_rejects_early_application. Qed.
Example C21_monitor_rejects_other_parameters :
  verdict21 (observed_as (pre21 ++ [Ev 0 [upd_pdu 80 4]; Ev 0 []; Ev 0 []]) (pre21 ++ [Ev 0 [upd_pdu 40 4]; Ev 0 []; Ev 0 []])) = Bad 2.
Proof. exact monitor_rejects_other_parameters. Qed.
Example C21_monitor_rejects_skipped_instant :
  verdict21 (observed_as [Run; connect21 3; Ev 0 []; Ev 2 [map_pdu 7]; Ev 0 []; Ev 0 []] [Run; connect21 3; Ev 0 []; Ev 2 [ping_pdu]; Ev 0 []; Ev 0 []]) = Bad 6.
Proof. exact monitor_rejects_skipped_instant. Qed.
Example C21_monitor_rejects_unanswered_request :
  verdict21 (observed_as (pre21 ++ [Ev 0 [att_pdu]; Ev 0 []]) (pre21 ++ [Ev 0 []; Ev 0 []])) = Bad 5.
Proof. exact monitor_rejects_unanswered_request. Qed.
(* latency 3: the skip lands on the instant, the map is applied, try_event_cancelation() leaves the event where it is *)
Example C21_cancelation_after_the_application :
  verdict21 (trace21 [Run; connect21 3; Ev 0 []; Ev 2 [map_pdu 8]; Ev 0 []; Cancel true 100; St; Ev 0 []]) = Ok
  /\ nth 5 (map snd (trace21 [Run; connect21 3; Ev 0 []; Ev 2 [map_pdu 8]; Ev 0 []; Cancel true 100; St; Ev 0 []])) OPre = OItems [].
Proof. exact cancel_after_application_example. Qed.
(* constants read from the current sources *)
Example C21_constants :
  GenLL.LL_CONNECTION_UPDATE_IND = 0 /\ GenLL.LL_CHANNEL_MAP_REQ = 1 /\ GenLL.LL_PHY_UPDATE_IND = 24
  /\ GenLL.connection_instant_passed = 40.
Proof. repeat split; reflexivity. Qed.
