(* C07  Prepared writes are deferred, per-client and applied in order.
   Statements only; proofs live in AttSrv/AttSrvProofsVal.v (refinement of the reference semantics) and
   AttSrv/AttSrvProofsC07.v.

   The reference semantics (AttSrvSpecVal.v) holds the abstract queue  option owner * list (handle, offset, bytes)
   with byte capacity (an element costs length + 4 + 2), the abstract value store and the link security of
   every connection. The C07 monitor (AttSrvSpecC07.v) runs it beside a trace and names the violated clause. *)
From BT Require Import Base.ListX AttDb.AttDbModel NQueue.NQueueModel AttSrv.AttSrvModel AttSrv.AttSrvSpecVal
  AttSrv.AttSrvSpecC07 AttSrv.AttSrvProofsVal AttSrv.AttSrvProofsC07 AttSrv.AttSrvExamplesVal.
Local Open Scope N_scope.

(* ---- the whole property, as refinement: for EVERY configuration, request histories of ANY length from any of
   the connections (prepare / execute / write / disconnect / security changes / everything else interleaved),
   all PDU bytes, the server answers every Prepare Write and Execute Write exactly as the abstract queue does
   (b: queued writes applied in queue order up to the first failing one; flag 0 discards; c: released by
   execute, cancel, disconnect; d: Prepare Queue Full for every other client while owned; e: accepted iff a Write
   Request to the same attribute on the same connection is permitted (aperm) and the element fits), and the
   bound variables hold what the reference store holds (a: Prepare Write changes no value). *)
Definition C07_refines_abstract_queue_full : Prop :=
  forall c ops, wf c -> monitor c (srv_run c (srv_init c) ops) = None.

(* refuted by handler based values: the permission probe of Prepare Write (check_write: a write of nothing at
   offset 0) is executed as a real write, so the write handler is called (corpus configuration v_handlers,
   handle 3 = value of the first characteristic; known finding C07-prepare-write-invokes-write-handler) *)
Theorem C07_refines_abstract_queue_refuted : ~ C07_refines_abstract_queue_full.
Proof.
  intros H. specialize (H cfg_v_handlers [OpIn O [22; 3; 0; 0; 0; 1] 23; OpVal O]).
  assert (W : wf cfg_v_handlers) by (vm_compute; reflexivity). specialize (H W). vm_compute in H. discriminate H.
Qed.
Print Assumptions C07_refines_abstract_queue_refuted.

(* what holds: every configuration in which no characteristic value has a write handler (no_k2; decidable
   sufficient condition no_k2_b). No other hypothesis: not even wf is needed. *)
Theorem C07_refines_abstract_queue_partial :
  forall c ops, no_k2 c -> monitor c (srv_run c (srv_init c) ops) = None.
Proof. exact monitor_sound. Qed.
Print Assumptions C07_refines_abstract_queue_partial.

(* ---- configurations WITH write handlers, precisely: for EVERY configuration (no hypothesis at all) and every
   history the monitor without the clause prepare_invokes_handler accepts: all responses of Prepare / Execute Write
   and all values are as the abstract queue says; the one difference is the handler call the probe makes: *)
Theorem C07_refines_abstract_queue_with_handlers :
  forall c ops, monitor_core c (srv_run c (srv_init c) ops) = None.
Proof. exact monitor_core_sound. Qed.
Print Assumptions C07_refines_abstract_queue_with_handlers.

(* the permission probe of Prepare Write on a value behind a write handler calls the handler exactly once, with
   an empty write at offset 0 (one more write, one more empty write in the harness' counters); nothing else
   changes: no value, no connection data, nothing of the queue *)
Theorem C07_probe_calls_handler_once :
  forall c st cid k s ch g cci size hrd blob st' rc,
    get_conn st cid = Some k -> c_value ch = VHandler size hrd true blob ->
    security_check (char_requires_encryption c s ch) (encrypted k) (pairing k) = Success ->
    access_check_write c st cid (AValue s ch g cci) = Some (st', rc) ->
    rc = Success /\ vals st' = vals st /\ conns st' = conns st /\ wq_owner st' = wq_owner st /\ wq_elems st' = wq_elems st
    /\ hlogs st' = upd (hlogs st) g (let '(r, w, e) := nth g (hlogs st) (0, 0, 0) in (r, w + 1, e + 1)).
Proof. exact probe_calls_handler_once. Qed.
Print Assumptions C07_probe_calls_handler_once.

Theorem C07_no_write_handler_decidable : forall c, no_k2_b c = true -> no_k2 c.
Proof. exact no_k2_b_sound. Qed.
Print Assumptions C07_no_write_handler_decidable.

(* the step behind it: related states stay related under every operation, and the model's output meets the
   reference expectation (any state, not only reachable ones; with write handlers the handler call counters are
   outside the relation) *)
Theorem C07_step_refinement :
  forall c st a o, sim c st a -> snd (srv_step c st o) <> OFault ->
    sim c (fst (srv_step c st o)) (fst (astep c a o)) /\
    (sat_cond c (snd (astep c a o)) -> sat c (snd (astep c a o)) (snd (srv_step c st o))).
Proof. exact sim_step. Qed.
Print Assumptions C07_step_refinement.

(* ---- (a) Prepare Write never changes a value: every configuration, state, connection, request *)
Theorem C07_prepare_never_changes_value :
  forall c st cid pdu b n st' r, handle_prepare_write c st cid pdu b n = Some (st', r) -> vals st' = vals st.
Proof. exact prepare_never_changes_value. Qed.
Print Assumptions C07_prepare_never_changes_value.

(* ---- (b) Execute Write (flag 1) is the abstract sequential application of the queue *)
Theorem C07_execute_in_queue_order :
  forall c cid elems st a st1 failure,
    sim c st a -> Forall (elem_ok c) elems ->
    execute_writes c st cid elems = Some (st1, failure) ->
    sim c st1 (fst (aexecute c a cid (map dec_elem elems))) /\ snd (aexecute c a cid (map dec_elem elems)) = failure.
Proof. exact execute_writes_sim. Qed.
Print Assumptions C07_execute_in_queue_order.

(* ---- (c) the queue is released by Execute Write with either flag, also after a failing queued write ... *)
Theorem C07_execute_releases_queue :
  forall c st cid flag b n st' r, wqueue c <> None -> flag = 0 \/ flag = 1 ->
    handle_execute_write c st cid [24; flag] b n = Some (st', r) -> wq_owner st' <> Some cid.
Proof. exact execute_releases_queue. Qed.
Print Assumptions C07_execute_releases_queue.

(* ... and by client_disconnected *)
Theorem C07_disconnect_releases_queue :
  forall c st cid, wq_owner (fst (srv_step c st (OpDisc cid))) <> Some cid.
Proof. exact disconnect_releases_queue. Qed.
Print Assumptions C07_disconnect_releases_queue.

(* ---- (d) while one client holds the queue no other client gets an element *)
Theorem C07_other_client_gets_queue_full :
  forall st cid o qs elem, wq_owner st = Some o -> o <> cid -> wq_allocate qs st cid elem = None.
Proof. exact other_client_gets_queue_full. Qed.
Print Assumptions C07_other_client_gets_queue_full.

(* ---- non-vacuity *)
Example C07_hypotheses_nonvacuous :
  wf cfg_v_wq10 /\ no_k2 cfg_v_wq10 /\ wf cfg_v_wq32 /\ no_k2 cfg_v_wq32 /\ wf cfg_v_enc_server_none /\ no_k2 cfg_v_enc_server_none.
Proof. repeat split; try (vm_compute; reflexivity); apply no_k2_b_sound; vm_compute; reflexivity. Qed.

(* cfg_v_wq10: handle 3 = a 4 byte value, 11 = a 1 byte value that requires encryption, queue of 10 bytes.
   The model's own trace: split write, second client refused, execute applies in order, queue released *)
Example C07_model_trace :
  map snd (srv_run cfg_v_wq10 (srv_init cfg_v_wq10)
    [OpIn O [22; 3; 0; 0; 0; 9] 23; OpVal O; OpIn 1 [22; 3; 0; 0; 0; 7] 23; OpIn O [22; 3; 0; 1; 0; 8; 8] 23;
     OpIn O [24; 1] 23; OpVal O; OpIn 1 [22; 3; 0; 3; 0; 7] 23; OpDisc 1; OpIn 2 [22; 11; 0; 0; 0; 1] 23;
     OpSec 2 true 1; OpIn 2 [22; 11; 0; 0; 0; 1] 23])
  = [OBytes [23; 3; 0; 0; 0; 9]; OValue [1; 12; 23; 34] None; OBytes [1; 22; 3; 0; 9]; OBytes [1; 22; 3; 0; 9];
     OBytes [25]; OValue [9; 12; 23; 34] None; OBytes [23; 3; 0; 3; 0; 7]; ONone; OBytes [1; 22; 11; 0; 5];
     ONone; OBytes [23; 11; 0; 0; 0; 1]].
Proof. vm_compute. reflexivity. Qed.

(* the monitor is not trivially accepting: one rejected trace per clause *)
Example C07_monitor_rejects_refusal_on_encrypted_link :          (* the behaviour before fix/C07-check-write-connection *)
  monitor cfg_v_wq10 [(OpSec O true 1, ONone); (OpIn O [22; 11; 0; 0; 0; 7] 23, OBytes [1; 22; 11; 0; 5])] = Some (1%nat, t_accept_iff_write).
Proof. vm_compute. reflexivity. Qed.

Example C07_monitor_rejects_acceptance_without_encryption :
  monitor cfg_v_wq10 [(OpIn O [22; 11; 0; 0; 0; 7] 23, OBytes [23; 11; 0; 0; 0; 7])] = Some (0%nat, t_accept_iff_write).
Proof. vm_compute. reflexivity. Qed.

Example C07_monitor_rejects_value_changed_by_prepare :
  monitor cfg_v_wq10 [(OpIn O [22; 3; 0; 0; 0; 9] 23, OBytes [23; 3; 0; 0; 0; 9]); (OpVal O, OValue [9; 12; 23; 34] None)]
  = Some (1%nat, t_prepare_changes_value).
Proof. vm_compute. reflexivity. Qed.

Example C07_monitor_rejects_wrong_order :                        (* cfg_v_wq32: handle 12 = a 4 byte value (characteristic 1), queue of 32 bytes *)
  monitor cfg_v_wq32 [(OpIn O [22; 12; 0; 0; 0; 9] 23, OBytes [23; 12; 0; 0; 0; 9]); (OpIn O [22; 12; 0; 0; 0; 5] 23, OBytes [23; 12; 0; 0; 0; 5]);
                      (OpIn O [24; 1] 23, OBytes [25]); (OpVal 1, OValue [9; 49; 60; 71] None)]
  = Some (3%nat, t_execute_order)
  /\ monitor cfg_v_wq32 [(OpIn O [22; 12; 0; 0; 0; 9] 23, OBytes [23; 12; 0; 0; 0; 9]); (OpIn O [22; 12; 0; 0; 0; 5] 23, OBytes [23; 12; 0; 0; 0; 5]);
                          (OpIn O [24; 1] 23, OBytes [25]); (OpVal 1, OValue [5; 49; 60; 71] None)] = None.
Proof. split; vm_compute; reflexivity. Qed.

Example C07_monitor_rejects_cancel_that_writes :
  monitor cfg_v_wq10 [(OpIn O [22; 3; 0; 0; 0; 9] 23, OBytes [23; 3; 0; 0; 0; 9]); (OpIn O [24; 0] 23, OBytes [25]);
                      (OpVal O, OValue [9; 12; 23; 34] None)]
  = Some (2%nat, t_execute_cancel).
Proof. vm_compute. reflexivity. Qed.

Example C07_monitor_rejects_second_owner :
  monitor cfg_v_wq10 [(OpIn O [22; 3; 0; 0; 0; 9] 23, OBytes [23; 3; 0; 0; 0; 9]); (OpIn 1 [22; 3; 0; 0; 0; 5] 23, OBytes [23; 3; 0; 0; 0; 5])]
  = Some (1%nat, t_queue_full_other).
Proof. vm_compute. reflexivity. Qed.

Example C07_monitor_rejects_queue_not_released :
  monitor cfg_v_wq10 [(OpIn O [22; 3; 0; 0; 0; 9] 23, OBytes [23; 3; 0; 0; 0; 9]); (OpDisc O, ONone);
                      (OpIn 1 [22; 3; 0; 0; 0; 5] 23, OBytes [1; 22; 3; 0; 9])]
  = Some (2%nat, t_queue_released).
Proof. vm_compute. reflexivity. Qed.

Example C07_monitor_rejects_overfull_queue :                     (* 10 bytes: 7 used, 7 more do not fit *)
  monitor cfg_v_wq10 [(OpIn O [22; 3; 0; 0; 0; 9] 23, OBytes [23; 3; 0; 0; 0; 9]); (OpIn O [22; 3; 0; 0; 0; 5] 23, OBytes [23; 3; 0; 0; 0; 5])]
  = Some (1%nat, t_queue_capacity).
Proof. vm_compute. reflexivity. Qed.

Example C07_monitor_rejects_execute_error_code :                 (* the behaviour before the fix: every failure is Invalid Offset *)
  monitor cfg_v_wq10 [(OpSec O true 1, ONone); (OpIn O [22; 11; 0; 0; 0; 7] 23, OBytes [23; 11; 0; 0; 0; 7]); (OpSec O false 1, ONone);
                      (OpIn O [24; 1] 23, OBytes [1; 24; 11; 0; 7])]
  = Some (3%nat, t_execute_order).
Proof. vm_compute. reflexivity. Qed.

Example C07_monitor_rejects_handler_call :
  monitor cfg_v_handlers [(OpIn O [22; 3; 0; 0; 0; 1] 23, OBytes [23; 3; 0; 0; 0; 1]); (OpVal O, OValue [1; 12; 23; 34; 45; 56; 67; 78] (Some (0, 1, 1)))]
  = Some (1%nat, t_prepare_invokes_handler).
Proof. vm_compute. reflexivity. Qed.

Example C07_core_monitor_accepts_handler_trace :                  (* the refuting trace of the full statement passes the core monitor *)
  monitor_core cfg_v_handlers (srv_run cfg_v_handlers (srv_init cfg_v_handlers) [OpIn O [22; 3; 0; 0; 0; 1] 23; OpVal O; OpIn O [24; 1] 23; OpVal O]) = None
  /\ map snd (srv_run cfg_v_handlers (srv_init cfg_v_handlers) [OpIn O [22; 3; 0; 0; 0; 1] 23; OpVal O; OpIn O [24; 1] 23; OpVal O])
     = [OBytes [23; 3; 0; 0; 0; 1]; OValue [1; 12; 23; 34; 45; 56; 67; 78] (Some (0, 1, 1)); OBytes [25]; OValue [1; 12; 23; 34; 45; 56; 67; 78] (Some (0, 2, 1))].
Proof. split; vm_compute; reflexivity. Qed.

(* 16 bit fields at full width: cfg_v_long, handle 5 = a 600 byte value (characteristic 1). A prepared write at offset
   0x012C = 300 lands at byte 300 (the model keeps offsets in N); the monitor rejects a trace in which it landed at
   300 mod 256 = 44 (a seeded regression read the queued offset into a std::uint8_t) *)
Example C07_offsets_above_255 :
  (let r := map snd (srv_run cfg_v_long (srv_init cfg_v_long) [OpIn O [22; 5; 0; 44; 1; 170; 187] 23; OpIn O [24; 1] 300; OpVal 1]) in
   match r with
   | [OBytes [23; 5; 0; 44; 1; 170; 187]; OBytes [25]; OValue v None] =>
       nth 300 v 0 = 170 /\ nth 301 v 0 = 187 /\ nth 44 v 0 = init_byte 1 44 /\ length v = 600%nat
   | _ => False
   end)
  /\ monitor cfg_v_long [(OpIn O [22; 5; 0; 44; 1; 170; 187] 23, OBytes [23; 5; 0; 44; 1; 170; 187]); (OpIn O [24; 1] 300, OBytes [25]);
                         (OpVal 1, OValue (firstn 44 (init_val 1 (mkChar (U16 0) HNone (VBind 600 false) false false false false false false None [] enc_none))
                                             ++ [170; 187] ++ skipn 46 (init_val 1 (mkChar (U16 0) HNone (VBind 600 false) false false false false false false None [] enc_none))) None)]
     = Some (2%nat, t_execute_order).
Proof. split; vm_compute; [repeat split; reflexivity|reflexivity]. Qed.
