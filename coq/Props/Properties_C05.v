(* C05  Encryption-protected values are never exposed on an unencrypted link.
   Statements only; proofs live in AttSrv/AttSrvProofsC05.v (non-interference, integrity, error codes) and
   AttSrv/AttSrvProofsVal.v (refinement of the reference semantics, used by the monitor theorem). *)
From BT Require Import Base.ListX AttDb.AttDbModel AttDb.AttDbProofs NQueue.NQueueModel AttSrv.AttSrvModel AttSrv.AttSrvSpecVal
  AttSrv.AttSrvSpecC05 AttSrv.AttSrvProofsVal AttSrv.AttSrvProofsC05 AttSrv.AttSrvFrame AttSrv.AttSrvProofsC09
  AttSrv.AttSrvProofsC05Cccd AttSrv.AttSrvProofsScan AttSrv.AttSrvProofsC05Scan AttSrv.AttSrvExamplesVal.
Local Open Scope N_scope.

(* ---- which characteristics are protected: the innermost explicit choice among characteristic, service and
   server options (requires_encryption -> yes, no_encryption_required -> no, both on one level -> no,
   may_require_encryption alone -> inherit) IS what characteristic_requires_encryption computes, for every
   placement of the three options on the three levels *)
Theorem C05_protection_is_innermost_choice :
  forall c s ch, spec_protected c s ch = char_requires_encryption c s ch.
Proof. exact spec_protected_eq. Qed.
Print Assumptions C05_protection_is_innermost_choice.

(* ---- "never returned": non-interference. [low_eq c st1 st2]: the two server states agree on everything but
   the values of protected characteristics. Unwinding: for EVERY configuration, any two such states, any
   operation acting through a connection that is not encrypted in that state (l2cap_input with any PDU = all 14
   request handlers; l2cap_output = notifications and indications; the application's notify / indicate / sec /
   disc / setval), the outputs are identical and the states stay low-equivalent. *)
Theorem C05_noninterference_step :
  forall c st1 st2 o, low_eq c st1 st2 -> unenc_act st1 o ->
    low_eq c (fst (srv_step c st1 o)) (fst (srv_step c st2 o))
    /\ obs c o (snd (srv_step c st1 o)) = obs c o (snd (srv_step c st2 o)).
Proof. exact step_ni. Qed.
Print Assumptions C05_noninterference_step.

(* histories of any length: as long as every request / output acts through a connection that is unencrypted
   at that moment (other connections may be encrypted), the two runs produce the same responses, notifications
   and indications. [observe] hides only the harness' own look at a protected variable. *)
Theorem C05_noninterference :
  forall c ops st1 st2, low_eq c st1 st2 -> unenc_hist c st1 ops ->
    observe c (srv_run c st1 ops) = observe c (srv_run c st2 ops).
Proof. exact run_ni. Qed.
Print Assumptions C05_noninterference.

(* the property as worded: the same history (no link ever encrypted; otherwise arbitrary: any number of
   requests of any kind from any connection, key / no key, disconnects, notifications) on two value stores
   that differ only in protected values yields identical responses and notifications *)
Theorem C05_noninterference_never_encrypted :
  forall c v1 v2 ops,
    low_eq c (set_vals (srv_init c) v1) (set_vals (srv_init c) v2) -> forallb no_enc_on ops = true ->
    observe c (srv_run c (set_vals (srv_init c) v1) ops) = observe c (srv_run c (set_vals (srv_init c) v2) ops).
Proof. exact run_ni_never_encrypted. Qed.
Print Assumptions C05_noninterference_never_encrypted.

(* ---- "never modified": a request through an unencrypted connection changes no protected value
   (Write Request, Write Command, Prepare Write, Execute Write, and everything else) *)
Theorem C05_protected_values_unchanged :
  forall c st cid pdu n st' rs, unenc st cid -> att_input c st cid pdu n = Some (st', rs) -> same_prot c st st'.
Proof. exact att_input_integrity. Qed.
Print Assumptions C05_protected_values_unchanged.

(* ---- the rejection, per attribute access: a protected value or protected CCCD on an unencrypted link is
   refused without any effect, with Insufficient Authentication (0x05) when no key exists (pairing status no_key)
   and Insufficient Encryption (0x0F) otherwise. Every request path ends in these two access functions. *)
Theorem C05_protected_read_refused :
  forall c st cid k a i off maxlen st' rc d,
    get_conn st cid = Some k -> encrypted k = false -> protected_attr c a = true ->
    access_read c st cid a i off maxlen = Some (st', rc, d) ->
    st' = st /\ rc = Err (sec_code k) /\ d = [].
Proof. exact protected_read_refused. Qed.
Print Assumptions C05_protected_read_refused.

Theorem C05_protected_write_refused :
  forall c st cid k a off data st' rc,
    get_conn st cid = Some k -> encrypted k = false -> protected_attr c a = true ->
    access_write c st cid a off data = Some (st', rc) ->
    st' = st /\ rc = Err (sec_code k).
Proof. exact protected_write_refused. Qed.
Print Assumptions C05_protected_write_refused.

(* ---- the monitor (reference link security beside the trace) accepts every trace of the model: EVERY
   configuration, histories of any length of requests other than Read By Type / Read Multiple and without
   l2cap_output. (Those three are judged by scanning the response for protected handles; that they show no
   protected byte is C05_noninterference, the scan itself is tied, not proved.) The response to Read, Read Blob,
   Write Request, Prepare Write, Execute Write on a protected attribute is exactly  01 <opcode> <handle> <05|0F>. *)
Theorem C05_monitor_sound :
  forall c ops, forallb plain_op ops = true -> monitor c (srv_run c (srv_init c) ops) = None.
Proof. exact monitor_sound. Qed.
Print Assumptions C05_monitor_sound.

(* ---- every history, Read By Type, Read Multiple and l2cap_output included: for well formed configurations
   without include_service<> (where the handle mapping has its inverse laws: C04) and requests made of bytes,
   no Read By Type entry, no answered Read Multiple and no notification / indication on an unencrypted link names
   a protected value or CCCD, and a Read Multiple refused because of a protected handle carries 05 / 0F *)
Theorem C05_monitor_sound_all :
  forall c ops, wf c -> no_includes c -> all_bytes ops = true -> monitor c (srv_run c (srv_init c) ops) = None.
Proof. exact monitor_sound_all. Qed.
Print Assumptions C05_monitor_sound_all.

(* the scanned outputs, directly: every handle in them is one this connection may read *)
Theorem C05_read_by_type_entries_are_readable :
  forall c st cid k pdu b out_size st' b' m,
    wf c -> no_includes c -> get_conn st cid = Some k -> 23 <= out_size -> out_size <= len b ->
    handle_read_by_type c st cid pdu b out_size = Some (st', (b', m)) -> m <= len b' ->
    forall l entries, takeN m b' = 9 :: l :: entries ->
    forall h, In h (entry_handles (length entries) (N.to_nat l) entries) -> readable_here c k h.
Proof. exact read_by_type_handles. Qed.
Print Assumptions C05_read_by_type_entries_are_readable.

Theorem C05_notified_handle_is_readable :
  forall c st cid k n st' r, wf c -> no_includes c -> get_conn st cid = Some k -> att_output c st cid n = Some (st', r) ->
    forall op lo hi t, r = op :: lo :: hi :: t -> readable_here c k (lo + 256 * hi).
Proof. exact att_output_handle. Qed.
Print Assumptions C05_notified_handle_is_readable.

(* ---- "never modified", client configurations, connection wide: a request through an unencrypted connection
   leaves the two CCCD bits of EVERY protected characteristic of that connection unchanged - also when it writes
   the CCCD of another characteristic (the packed store is a lens, cccd_position is injective: C09). The
   hypothesis conn_store_ok (bytes < 256, right length) holds in every reachable state. *)
Theorem C05_protected_cccd_unchanged :
  forall c st cid pdu n st' rs k k' i s ch cci,
    get_conn st cid = Some k -> conn_store_ok c k -> encrypted k = false ->
    att_input c st cid pdu n = Some (st', rs) -> get_conn st' cid = Some k' ->
    attribute_at c i = Some (ACccd s ch cci) -> char_requires_encryption c s ch = true ->
    cccd_get (cccd k') (cccd_position c cci) = cccd_get (cccd k) (cccd_position c cci).
Proof. exact protected_cccd_unchanged. Qed.
Print Assumptions C05_protected_cccd_unchanged.

Theorem C05_protected_cccd_unchanged_reachable :
  forall c ops cid pdu n st' rs k k' i s ch cci,
    get_conn (srv_after c (srv_init c) ops) cid = Some k -> encrypted k = false ->
    att_input c (srv_after c (srv_init c) ops) cid pdu n = Some (st', rs) -> get_conn st' cid = Some k' ->
    attribute_at c i = Some (ACccd s ch cci) -> char_requires_encryption c s ch = true ->
    cccd_get (cccd k') (cccd_position c cci) = cccd_get (cccd k) (cccd_position c cci).
Proof. exact protected_cccd_unchanged_reachable. Qed.
Print Assumptions C05_protected_cccd_unchanged_reachable.

(* ---- non-vacuity *)
(* cfg_v_wq10: characteristic 3 (handle 11, one byte) requires encryption, characteristic 0 (handle 3) does not *)
Example C05_hypotheses_nonvacuous :
  wf cfg_v_wq10 /\ prot cfg_v_wq10 3 = true /\ prot cfg_v_wq10 0 = false
  /\ wf cfg_v_enc_server_none /\ map (prot cfg_v_enc_server_none) (seq 0 13) = [false; false; false; true; true; false; false; true; true; true; true; false; true].
Proof. repeat split; vm_compute; reflexivity. Qed.

(* two stores that differ in the protected byte (0x94 / 0x2A) *)
Definition store_a : list (list N) := [[1; 12; 23; 34]; [38; 49]; init_val 2 (mkChar (U16 0) HNone (VBind 20 false) false false false false false false None [] enc_none); [148]].
Definition store_b : list (list N) := [[1; 12; 23; 34]; [38; 49]; init_val 2 (mkChar (U16 0) HNone (VBind 20 false) false false false false false false None [] enc_none); [42]].

Example C05_low_equivalent_stores :
  low_eq cfg_v_wq10 (set_vals (srv_init cfg_v_wq10) store_a) (set_vals (srv_init cfg_v_wq10) store_b).
Proof.
  repeat split. intros g P. destruct g as [|[|[|[|g]]]]; try reflexivity.
  vm_compute in P. discriminate P.
Qed.

(* the unencrypted client tries every path (Read, Read Blob, Read By Type, Read Multiple, Write, Write Command,
   Prepare + Execute) with and without a key: nothing depends on the protected byte, the variable is untouched *)
Definition probe_history : list srv_op :=
  [OpIn O [10; 11; 0] 23; OpIn O [12; 11; 0; 0; 0] 23; OpIn O [8; 1; 0; 255; 255; 16; 42] 23; OpIn O [14; 3; 0; 11; 0] 23;
   OpIn O [18; 11; 0; 7] 23; OpIn O [82; 11; 0; 7] 23; OpIn O [22; 11; 0; 0; 0; 7] 23; OpIn O [24; 1] 23; OpVal 3;
   OpSec O false 2; OpIn O [10; 11; 0] 23; OpIn O [18; 11; 0; 7] 23; OpIn O [22; 11; 0; 0; 0; 7] 23; OpIn O [10; 3; 0] 23].

Example C05_same_outputs_while_unencrypted :
  map snd (srv_run cfg_v_wq10 (set_vals (srv_init cfg_v_wq10) store_a) probe_history)
  = [OBytes [1; 10; 11; 0; 5]; OBytes [1; 12; 11; 0; 5]; OBytes [1; 8; 1; 0; 10]; OBytes [1; 14; 11; 0; 5];
     OBytes [1; 18; 11; 0; 5]; OBytes []; OBytes [1; 22; 11; 0; 5]; OBytes [25]; OValue [148] None;
     ONone; OBytes [1; 10; 11; 0; 15]; OBytes [1; 18; 11; 0; 15]; OBytes [1; 22; 11; 0; 15]; OBytes [11; 1; 12; 23; 34]]
  /\ observe cfg_v_wq10 (srv_run cfg_v_wq10 (set_vals (srv_init cfg_v_wq10) store_a) probe_history)
     = observe cfg_v_wq10 (srv_run cfg_v_wq10 (set_vals (srv_init cfg_v_wq10) store_b) probe_history).
Proof. split; vm_compute; reflexivity. Qed.

(* ... while an encrypted link does see the difference (the theorem is not vacuous) *)
Example C05_encrypted_link_reads_the_value :
  map snd (srv_run cfg_v_wq10 (set_vals (srv_init cfg_v_wq10) store_a) [OpSec O true 1; OpIn O [10; 11; 0] 23]) = [ONone; OBytes [11; 148]]
  /\ map snd (srv_run cfg_v_wq10 (set_vals (srv_init cfg_v_wq10) store_b) [OpSec O true 1; OpIn O [10; 11; 0] 23]) = [ONone; OBytes [11; 42]].
Proof. split; vm_compute; reflexivity. Qed.

(* the monitor is not trivially accepting: one rejected trace per clause *)
Example C05_monitor_rejects_leak_by_read :
  monitor cfg_v_wq10 [(OpIn O [10; 11; 0] 23, OBytes [11; 34])] = Some (0%nat, t_leak_read).
Proof. vm_compute. reflexivity. Qed.

Example C05_monitor_rejects_leak_by_read_by_type :
  monitor cfg_v_wq10 [(OpIn O [8; 1; 0; 255; 255; 16; 42] 23, OBytes [9; 3; 11; 0; 34])] = Some (0%nat, t_leak_read)
  /\ monitor cfg_v_wq10 [(OpSec O true 1, ONone); (OpIn O [8; 1; 0; 255; 255; 16; 42] 23, OBytes [9; 3; 11; 0; 34])] = None.
Proof. split; vm_compute; reflexivity. Qed.

Example C05_monitor_rejects_leak_by_read_multiple :
  monitor cfg_v_wq10 [(OpIn O [14; 3; 0; 11; 0] 23, OBytes [15; 1; 12; 23; 34; 34])] = Some (0%nat, t_leak_read).
Proof. vm_compute. reflexivity. Qed.

(* cfg_v_enc_server_none: handle 10 = value of 2a03 (indicate, requires encryption) *)
Example C05_monitor_rejects_leak_by_indication :
  monitor cfg_v_enc_server_none [(OpOut O 23, OBytes [29; 10; 0; 1; 2])] = Some (0%nat, t_leak_notify)
  /\ monitor cfg_v_enc_server_none [(OpSec O true 1, ONone); (OpOut O 23, OBytes [29; 10; 0; 1; 2])] = None.
Proof. split; vm_compute; reflexivity. Qed.

Example C05_monitor_rejects_accepted_write :
  monitor cfg_v_wq10 [(OpIn O [18; 11; 0; 7] 23, OBytes [19])] = Some (0%nat, t_modified_unencrypted)
  /\ monitor cfg_v_wq10 [(OpIn O [82; 11; 0; 7] 23, OBytes []); (OpVal 3, OValue [7] None)] = Some (1%nat, t_modified_unencrypted).
Proof. split; vm_compute; reflexivity. Qed.

Example C05_monitor_rejects_wrong_error_code :                    (* the behaviour before fix/C07-check-write-connection *)
  monitor cfg_v_wq10 [(OpSec O false 1, ONone); (OpIn O [22; 11; 0; 0; 0; 7] 23, OBytes [1; 22; 11; 0; 5])] = Some (1%nat, t_error_code)
  /\ monitor cfg_v_wq10 [(OpIn O [10; 11; 0] 23, OBytes [1; 10; 11; 0; 15])] = Some (0%nat, t_error_code).
Proof. split; vm_compute; reflexivity. Qed.
