(* C33  Keys are offered only after successful pairing or from the bond database.  Statements only;
   proofs in SM/SMProofs.v.

   monitor33 (SM/SMSpec.v): at every find_key( ediv, rand ) the answer is exactly
     - the key the last completed pairing on this connection produced (legacy: s1( TK, srand, mrand ) of the
       exchange; LESC: the LTK of f5 on the DH key and the two nonces), if a pairing completed on this
       connection, no Pairing Failed / new connection followed, and ediv = rand = 0;
     - otherwise what the user's bond data base answers for ( ediv, rand, peer address ), if a bond data base
       is configured (the monitor keeps a copy of the data base and adds the bonds it sees stored);
     - otherwise no key.
   Clauses: key_without_pairing, key_wrong, key_missing. *)
From BT Require Import Base.ListX SM.SMModel SM.SMSpec SM.SMProofs SM.ToyCrypto.
Local Open Scope N_scope.

(* for every tool box satisfying tool_box_ok, every bond data base, every configuration (all four managers,
   all IO capabilities, with / without OOB callback and bond data base, every user answer timing) and every
   operation sequence of any length *)
Theorem C33_keys_only_after_pairing_or_from_bond_db :
  forall (K : crypto) (DB : Type) (D : dbops DB), dh_ok K -> passkey_ok K ->
  forall c db0 ops, monitor33 K D c db0 (run K D c (init_state db0) ops) = None.
Proof. exact monitor33_accepts. Qed.
Print Assumptions C33_keys_only_after_pairing_or_from_bond_db.

(* non-vacuity: the STK of a completed passkey pairing is offered for (0,0), nothing for (7,7); after a failed
   attempt the key of the completed pairing is no longer offered (trace of C34's witness: Key 0 0 -> none) *)
Example C33_accepts_complete_exchange :
  toy_monitor33 cfg_keyboard_display w_legacy_passkey = None /\
  exists a b k d e ci, map snd (run toy toydbops cfg_keyboard_display (init_state ([] : toydb)) w_legacy_passkey)
  = [ODone; OResp w_pk_pres []; OResp (3 :: a) [EDisplay 123456]; OResp (4 :: toy_srand 0) [EStore k e d];
     OStatus authenticated_key no_key; OKey (Some b); OResp [] []; ODone; OStatus authenticated_key authenticated_key;
     OResp (6 :: k) []; OResp (7 :: ci) []; OResp [] []; OKey None].
Proof. split; [exact (proj1 (proj2 legacy_passkey_accepted)) | exact legacy_passkey_outputs]. Qed.
Example C33_monitor_rejects_key_after_failed_pairing :
  monitor_from (mstep33 toy toydbops) cfg_bond_legacy (minit ([] : toydb)) O
    [(In w34_preq, OResp w34_pres []); (In [11], OResp [5; 7] []); (Key 0 0, OKey (Some (zeros 16)))] = Some (2%nat, t_key_without_pairing).
Proof. exact monitor_rejects_key_after_failure. Qed.
Example C33_tool_box_hypotheses_nonvacuous : dh_ok toy /\ passkey_ok toy.
Proof. exact (conj toy_dh_ok toy_passkey_ok). Qed.
