(* C33  Keys are offered only after successful pairing or from the bond database.  Statements only;
   proofs in SM/SMProofs.v.

   monitor33 (SM/SMSpec.v): at every find_key( ediv, rand ) the answer is exactly
     - the key the last completed pairing on this connection produced (legacy: s1( TK, srand, mrand ) of the
       exchange; LESC: the LTK of f5 on the DH key and the two nonces), if a pairing completed on this
       connection, no Pairing Failed / new connection followed, and ediv = rand = 0;
     - otherwise what the user's bond data base answers for ( ediv, rand, peer address ), if a bond data base
       is configured (the monitor keeps a copy of the data base and adds the bonds it sees stored);
     - otherwise no key.
   Clauses: key_without_pairing, key_wrong, key_missing. *)
From BT Require Import Base.ListX SM.SMModel SM.SMSpec SM.SMProofs SM.ToyCrypto SM.SMDirect.
Local Open Scope N_scope.

(* for every tool box satisfying tool_box_ok, every bond data base, every configuration (all four managers,
   all IO capabilities, with / without OOB callback and bond data base, every user answer timing) and every
   operation sequence of any length *)
Theorem C33_keys_only_after_pairing_or_from_bond_db :
  forall (K : crypto) (DB : Type) (D : dbops DB), dh_ok K -> passkey_ok K ->
  forall c db0 ops, monitor33 K D c db0 (run K D c (init_state db0) ops) = None.
Proof. exact monitor33_accepts. Qed.
Print Assumptions C33_keys_only_after_pairing_or_from_bond_db.

(* non-vacuity: the STK of a completed passkey pairing is offered for (0,0), nothing for (7,7); after a failed
   attempt the key of the completed pairing is no longer offered (trace of C34's witness: Key 0 0 -> none) *)
Example C33_accepts_complete_exchange :
  toy_monitor33 cfg_keyboard_display w_legacy_passkey = None /\
  exists a b k d e ci, map snd (run toy toydbops cfg_keyboard_display (init_state ([] : toydb)) w_legacy_passkey)
  = [ODone; OResp w_pk_pres []; OResp (3 :: a) [EDisplay 123456]; OResp (4 :: toy_srand 0) [EStore k e d];
     OStatus authenticated_key no_key; OKey (Some b); OResp [] []; ODone; OStatus authenticated_key authenticated_key;
     OResp (6 :: k) []; OResp (7 :: ci) []; OResp [] []; OKey None].
Proof. split; [exact (proj1 (proj2 legacy_passkey_accepted)) | exact legacy_passkey_outputs]. Qed.
Example C33_monitor_rejects_key_after_failed_pairing :
  monitor_from (mstep33 toy toydbops) cfg_bond_legacy (minit ([] : toydb)) O
    [(In w34_preq, OResp w34_pres []); (In [11], OResp [5; 7] []); (Key 0 0, OKey (Some (zeros 16)))] = Some (2%nat, t_key_without_pairing).
Proof. exact monitor_rejects_key_after_failure. Qed.
Example C33_tool_box_hypotheses_nonvacuous : dh_ok toy /\ passkey_ok toy.
Proof. exact (conj toy_dh_ok toy_passkey_ok). Qed.

(* ---- monitor-independent statements, directly over the model's step / run / run_state (SM/SMDirect.v) ----
   bond_answer: what the bond data base answers for the peer (nothing without bond data base);
   unpaired_answer: bond_answer, or nothing without a security manager. *)

(* in every reachable, live state the answer to find_key( ediv, rand ) is the connection's own key only if the
   connection data says Completed and ediv = rand = 0; in all other cases exactly the bond data base's answer *)
Theorem C33_direct_key_answer :
  forall (K : crypto) (DB : Type) (D : dbops DB) c db0 ops ediv rnd,
  let s := run_state K D c (init_state db0) ops in
  dead s = false ->
  exists k,
    run K D c (init_state db0) (ops ++ [Key ediv rnd]) = run K D c (init_state db0) ops ++ [(Key ediv rnd, OKey k)] /\
    ( (k = Some (ltk s) /\ st s = Completed /\ ediv = 0 /\ rnd = 0 /\ c_var c <> MNone)
      \/ (k = unpaired_answer DB D c s ediv rnd /\ (st s <> Completed \/ ediv <> 0 \/ rnd <> 0 \/ c_var c = MNone)) ).
Proof. exact key_answer_reachable. Qed.
Print Assumptions C33_direct_key_answer.

(* directly after an operation answered with Pairing Failed, find_key( 0, 0 ) is answered from the bond data base only *)
Theorem C33_direct_key_after_failed_pairing :
  forall (K : crypto) (DB : Type) (D : dbops DB) c db0 ops o r ev,
  let s := run_state K D c (init_state db0) ops in
  snd (step K D c s o) = OResp (5 :: r) ev ->
  run K D c (init_state db0) (ops ++ [o; Key 0 0]) =
  run K D c (init_state db0) ops ++
    [(o, OResp (5 :: r) ev); (Key 0 0, OKey (unpaired_answer DB D c (fst (step K D c s o)) 0 0))].
Proof. exact key_after_failed_pairing. Qed.
Print Assumptions C33_direct_key_after_failed_pairing.

(* and directly after a new connection *)
Theorem C33_direct_key_after_new_connection :
  forall (K : crypto) (DB : Type) (D : dbops DB) c db0 ops a,
  let s := run_state K D c (init_state db0) ops in
  dead s = false ->
  run K D c (init_state db0) (ops ++ [Reset a; Key 0 0]) =
  run K D c (init_state db0) ops ++
    [(Reset a, ODone); (Key 0 0, OKey (unpaired_answer DB D c (new_connection s a) 0 0))].
Proof. exact key_after_new_connection. Qed.
Print Assumptions C33_direct_key_after_new_connection.

(* non-vacuity: state after the passkey pairing of w_legacy_passkey (4 operations) is live and Completed, answers
   (0,0) with its key and (7,7) with nothing; a stray PDU there is answered with Pairing Failed *)
Example C33_direct_witnesses :
  dead (ex_state 4) = false /\ st (ex_state 4) = Completed
  /\ snd (step toy toydbops ex_cfg (ex_state 4) (Key 0 0)) = OKey (Some (ltk (ex_state 4)))
  /\ snd (step toy toydbops ex_cfg (ex_state 4) (Key 7 7)) = OKey None
  /\ snd (step toy toydbops ex_cfg (ex_state 4) (In [11])) = OResp [5; 7] [].
Proof.
  destruct key_answer_witness as [A [B [C E]]]. destruct key_after_failed_pairing_witness as [_ F].
  exact (conj A (conj B (conj C (conj E F)))).
Qed.
