(* C15  Link layer data delivery is reliable, ordered and exactly-once.
   Statements only; proofs live in PduBuf/PduBufProofs.v.
   Model: PduBuf/PduBufModel.v (ll_data_pdu_buffer.hpp, corrected acknowledge( read_buffer ), see C17).
   Environment and monitor: PduBuf/PduBufSpec.v. *)
From BT Require Import Base.ListX PduBuf.PduBufModel PduBuf.PduBufSpec PduBuf.PduBufProofs.
Local Open Scope N_scope.

(* For every configuration and every sequence of operations of any length (link layer side and radio
   side, any header bit patterns, any sizes) the trace of the model is accepted by the monitor's C15
   clauses:
     - every response carries NESN = parity of the new PDUs accepted so far; it moves exactly when a
       new PDU (SN = expected) is taken by received() with a buffer - never without receive buffer,
       never in plain next_transmit(), never for a PDU failing the MIC check,
     - next_received()/free_received() hand out exactly the accepted new PDUs with non-zero length
       and valid LLID, unchanged, in order, once (empty and invalid-LLID PDUs are acknowledged and dropped),
     - the PDU in flight is sent again unchanged (same SN, LLID, length, payload) until the central's
       NESN acknowledges it; then the next new PDU is the oldest committed one (or an empty PDU) with
       the next sequence number. *)
Theorem C15_monitor_accepts_every_model_trace :
  forall (cf : cfg) (ops : list op), monitor P15 cf (run cf (init cf) ops) = None.
Proof. exact (monitor_accepts_model P15). Qed.
Print Assumptions C15_monitor_accepts_every_model_trace.

(* The system: the model in closed loop with a Core-specification conformant central (cen_load,
   cen_recv) over a channel that per connection event loses the central's packet (or breaks its CRC),
   lets it through, or breaks its MIC, and independently loses the response; link layer operations
   (commit, next_received, free_received, size changes, stop) are interleaved arbitrarily.
   For EVERY such event sequence of any length:
     - the whole observed trace is accepted by the monitor (all clauses),
     - the monitor's FIFOs are the model's rings,
     - receive direction: the PDUs handed / still to be handed to the link layer are exactly the
       non-empty valid-LLID PDUs among those the central has seen acknowledged, plus the one the
       peripheral accepted whose acknowledgement has not reached the central: in order, exactly once;
       nothing the central retransmits is delivered twice,
     - transmit direction: the non-empty PDUs the central accepted are the PDUs that have left the
       transmit FIFO plus possibly its head: a prefix of the committed sequence, each exactly once,
       and a PDU leaves the FIFO only after the central accepted it. *)
Theorem C15_reliable_ordered_exactly_once :
  forall (cf : cfg) (evs : list event),
    Forall (fun e => event_ok e = true) evs ->
    exists m g,
      grun (minit cf) g0 (snd (sys_run cf (cen_init, init cf) evs)) = Some (m, g) /\
      end_to_end (fst (fst (sys_run cf (cen_init, init cf) evs)))
                 (snd (fst (sys_run cf (cen_init, init cf) evs))) m g.
Proof. exact closed_loop_end_to_end. Qed.
Print Assumptions C15_reliable_ordered_exactly_once.

(* A full receive buffer never acknowledges a PDU it did not store: when allocate_receive_buffer()
   fails, next_expected_sequence_number_ and the receive ring are unchanged and the response carries
   the old NESN (no counter moves). For every state, reachable or not. *)
Theorem C15_full_receive_buffer_never_acknowledges :
  forall (cf : cfg) (s : state) (hl : N) (body : list N),
    alloc_front (c_R cf) (rxr s) (max_rx s + c_o cf) = None ->
    nesn (fst (step cf s (Rx hl body))) = nesn s /\ rxr (fst (step cf s (Rx hl body))) = rxr s /\
    (snd (step cf s (Rx hl body)) = OPre \/
     exists sz h b, snd (step cf s (Rx hl body)) = OResp KN sz h b 0 0 /\ has h nesn_flag = nesn s).
Proof. exact no_buffer_no_ack. Qed.
Print Assumptions C15_full_receive_buffer_never_acknowledges.

(* ---- non-vacuity ---- *)
Definition ex_cfg : cfg := mkC 0 100 100.

(* a connection with a lost request, a lost response, a MIC failure, two commits and reads:
   the hypotheses hold, and the run delivers both PDUs of the central in order, once *)
Definition ex_events : list event :=
  [ ELL (Tx 5 2 [170; 187; 204]);
    EConn (2, [1; 2]) false ReqOk true;       (* response lost: the central retransmits *)
    EConn (2, [9; 9]) false ReqOk false;      (* retransmission of [1;2]: not delivered again *)
    EConn (2, [3; 4]) false ReqMic false;     (* MIC failure: not acknowledged *)
    EConn (2, [7; 7]) true ReqLost false;
    EConn (2, [7; 7]) false ReqOk false;      (* [3;4] again, now accepted *)
    ELL NextRecv; ELL FreeRecv; ELL NextRecv;
    ELL (Tx 29 1 [5]);
    EConn (1, []) false ReqOk false ].

Example C15_events_wellformed : Forall (fun e => event_ok e = true) ex_events.
Proof. repeat constructor. Qed.

Example C15_example_run :
  let r := sys_run ex_cfg (cen_init, init ex_cfg) ex_events in
  c_done (fst (fst r)) = [(2, [1; 2]); (2, [3; 4]); (1, [])] /\
  map (fun e => e_body e) (r_q (rxr (snd (fst r)))) = [[3; 4]] /\
  filter counted (c_acc (fst (fst r))) = [(2, [170; 187; 204]); (1, [5])] /\
  map snd (snd r) =
    [OTx true; OResp KR 5 774 [170; 187; 204] 1 0; OResp KR 5 774 [170; 187; 204] 0 0; OResp KA 2 13 [] 0 1;
     OResp KR 2 1 [] 1 0; OPdu 4 514 [1; 2]; OUnit; OPdu 4 522 [3; 4]; OTx true; OResp KR 3 269 [5] 0 0].
Proof. vm_compute. repeat split. Qed.

(* the monitor is not trivially accepting *)
(* a retransmission (same SN) delivered a second time *)
Example C15_monitor_rejects_duplicate_delivery :
  monitor P15 ex_cfg
    [ (Rx 1 [17], OResp KR 2 5 [] 1 0); (Rx 1 [17], OResp KR 2 5 [] 0 0);
      (NextRecv, OPdu 3 257 [17]); (FreeRecv, OUnit); (NextRecv, OPdu 3 257 [17]) ]
  = Some (4%nat, t_deliver).
Proof. vm_compute. reflexivity. Qed.

(* a PDU acknowledged (NESN = 1) although there was no receive buffer *)
Example C15_monitor_rejects_ack_without_buffer :
  monitor P15 ex_cfg [ (Rx 1 [17], OResp KN 2 5 [] 0 0) ] = Some (0%nat, t_nesn_nobuf).
Proof. vm_compute. reflexivity. Qed.

(* a committed PDU replaced by an empty PDU before it was acknowledged *)
Example C15_monitor_rejects_missing_retransmission :
  monitor P15 ex_cfg
    [ (Tx 3 1 [170], OTx true); (NextTx, OResp KN 3 257 [170] 0 0); (Rx 1 [], OResp KR 2 13 [] 0 0) ]
  = Some (2%nat, t_retransmit).
Proof. vm_compute. reflexivity. Qed.

(* the behaviour before the fix of C17 (new PDU with bad MIC acknowledged) is rejected as C15 violation too *)
Example C15_monitor_rejects_acknowledged_mic_failure :
  monitor P15 ex_cfg [ (Mic 1 [170], OResp KA 2 5 [] 0 0) ] = Some (0%nat, t_nesn_mic).
Proof. vm_compute. reflexivity. Qed.

(* constants regenerated from ll_data_pdu_buffer.hpp on every run *)
From BT Require gen.GenPduBuf.
Example C15_constants_are_the_codes :
  GenPduBuf.min_buffer_size = min_buffer_size /\ GenPduBuf.max_buffer_size = max_buffer_size /\
  GenPduBuf.more_data_flag = more_data_flag /\ GenPduBuf.sn_flag = sn_flag /\ GenPduBuf.nesn_flag = nesn_flag /\
  GenPduBuf.ll_empty_id = ll_empty_id /\ GenPduBuf.header_rfu_mask = header_rfu_mask /\
  GenPduBuf.header_size = 2 /\ GenPduBuf.ll_header_size = 2.
Proof. repeat split; reflexivity. Qed.
