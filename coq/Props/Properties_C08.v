(* C08  ATT MTU negotiation bounds every PDU. Statements only; proofs in AttSrv/AttSrvProofsC08.v. *)
From BT Require Import Base.ListX AttDb.AttDbModel NQueue.NQueueModel AttSrv.AttSrvModel AttSrv.AttSrvNotifSpec
  AttSrv.AttSrvSpecC08 AttSrv.AttSrvProofsC08.
Local Open Scope N_scope.

Theorem C08_invalid_exchange_leaves_state :
  forall c st cid pdu b n st' r,
    handle_exchange_mtu c st cid pdu b n = Some (st', r) ->
    (len pdu <> 3 \/ exists m, rd16 pdu 1 = Some m /\ m < default_att_mtu) -> st' = st.
Proof. exact exchange_mtu_invalid_unchanged. Qed.
Print Assumptions C08_invalid_exchange_leaves_state.
