(* C08  ATT MTU negotiation bounds every PDU.
   Statements only; proofs in AttSrv/AttSrvProofsC08.v (+ AttSrvFrame.v, AttSrvProofsC01.v).

   Model: AttSrvModel.v: handle_exchange_mtu, negotiated_mtu (= connection_data::negotiated_mtu), att_input
   (= l2cap_input), att_output (= l2cap_output, which clips to the negotiated MTU since the fix
   fix/C08-C11-notification-path; the pre-fix witness is corpus/C08/notification_not_clipped.trace). *)
From BT Require Import Base.ListX AttDb.AttDbModel NQueue.NQueueModel AttSrv.AttSrvModel AttSrv.AttSrvFrame
  AttSrv.AttSrvNotifSpec AttSrv.AttSrvNotifObs AttSrv.AttSrvSpecC08 AttSrv.AttSrvProofsC08 AttSrv.AttSrvNotifExamples.
Local Open Scope N_scope.

(* ---- the specification of the client MTU of connection cid along a history of operations: the value of
   the last Exchange MTU Request 02 lo hi (length 3) with lo + 256 hi >= 23 on that connection (given a
   buffer of >= 23 bytes), 23 after a disconnect and initially. Everything else leaves it alone. *)
Example C08_mtu_history_unfolds :
  mtu_history 1 23 [OpIn 1 [2; 100; 0] 23; OpIn 0 [2; 200; 0] 23; OpIn 1 [2; 22; 0] 23; OpIn 1 [2; 100] 23;
                    OpIn 1 [2; 1; 1; 0] 23; OpIn 1 [10; 3; 0] 23] = 100
  /\ mtu_history 1 23 [OpIn 1 [2; 100; 0] 23; OpDisc 1] = 23
  /\ mtu_history 1 23 [OpIn 1 [2; 44; 1] 23; OpIn 1 [2; 24; 0] 23] = 24.
Proof. repeat split; reflexivity. Qed.

(* ---- after ANY history (requests of any kind and length on any connection, notifications, polls,
   confirmations, CCCD writes, disconnects), for every well formed configuration: the negotiated MTU of every
   connection is min( server maximum, last valid client MTU ) and at least 23 *)
Theorem C08_negotiated_mtu_is_min_of_server_and_last_valid_client_mtu :
  forall c cid ops, wf c -> (cid < n_conns)%nat ->
    exists k, get_conn (srv_after c (srv_init c) ops) cid = Some k
              /\ negotiated_mtu c k = N.min (max_mtu c) (mtu_history cid default_att_mtu ops)
              /\ default_att_mtu <= negotiated_mtu c k.
Proof. exact negotiated_mtu_history. Qed.
Print Assumptions C08_negotiated_mtu_is_min_of_server_and_last_valid_client_mtu.

(* ---- ... and every response (l2cap_input) and every notification / indication (l2cap_output) produced in
   the state after that history is at most min( caller's buffer, that MTU ) bytes long *)
Theorem C08_every_pdu_bounded_by_negotiated_mtu :
  forall c ops cid, wf c -> (cid < n_conns)%nat ->
    let st := srv_after c (srv_init c) ops in
    let mtu := N.min (max_mtu c) (mtu_history cid default_att_mtu ops) in
    default_att_mtu <= mtu
    /\ (forall pdu n st' rs, att_input c st cid pdu n = Some (st', rs) -> len rs <= N.min n mtu)
    /\ (forall n st' rs, att_output c st cid n = Some (st', rs) -> len rs <= N.min n mtu).
Proof. exact every_pdu_bounded. Qed.
Print Assumptions C08_every_pdu_bounded_by_negotiated_mtu.

(* ---- an Exchange MTU Request with a wrong length or a client MTU below 23 is answered with the Error
   Response 01 02 00 00 04 and changes nothing (any configuration, any state) *)
Theorem C08_invalid_exchange_rejected_and_ignored :
  forall c st cid pdu b n st' r,
    5 <= n -> rd pdu 0 = Some 2 ->
    handle_exchange_mtu c st cid pdu b n = Some (st', r) ->
    (len pdu <> 3 \/ exists m, rd16 pdu 1 = Some m /\ m < default_att_mtu) ->
    st' = st /\ snd r = 5 /\ takeN 5 (fst r) = [1; 2; 0; 0; 4].
Proof. exact exchange_mtu_invalid. Qed.
Print Assumptions C08_invalid_exchange_rejected_and_ignored.

(* ---- a valid one is answered with 03 <server maximum> and sets the client MTU of this connection only *)
Theorem C08_valid_exchange_answered_with_server_mtu :
  forall c st cid lo hi b n k,
    3 <= len b -> get_conn st cid = Some k -> default_att_mtu <= lo + 256 * hi ->
    exists b', handle_exchange_mtu c st cid [2; lo; hi] b n
               = Some (set_conn st cid (mkConn (lo + 256 * hi) (cccd k) (encrypted k) (pairing k) (nq k)), (b', 3))
               /\ takeN 3 b' = 3 :: le16 (max_mtu c) /\ len b' = len b.
Proof. exact exchange_mtu_valid. Qed.
Print Assumptions C08_valid_exchange_answered_with_server_mtu.

(* ---- only an Exchange MTU Request changes the client MTU: one step of the model follows the specification *)
Theorem C08_step_follows_specification :
  forall c st o cid k, default_att_mtu <= max_mtu c ->
    get_conn st cid = Some k -> default_att_mtu <= client_mtu k ->
    exists k', get_conn (fst (srv_step c st o)) cid = Some k' /\ client_mtu k' = mtu_after cid (client_mtu k) o.
Proof. exact srv_step_mtu. Qed.
Print Assumptions C08_step_follows_specification.

(* ---- the trace level statement. For EVERY well formed configuration and EVERY operation sequence of any length
   on any connections whose model trace contains no FAULT (memory safety is C01's property; in particular every
   l2cap_input got 1 <= length pdu and 23 <= out_size): the executable monitor, restricted to the clauses fault,
   pdu_exceeds_mtu, mtu_rejected_changed and the answer to a valid Exchange MTU Request (check08_core = check08
   without the exact-length part of mtu_value), accepts the model's trace. By simulation: the observer's client
   MTU of every connection is the model's (sim08), AttSrvNotifObs.advance_follows + C08_step_follows_specification. *)
Theorem C08_monitor_core_accepts_model :
  forall c ops, wf c -> no_fault (srv_run c (srv_init c) ops) -> monitor08_core c (srv_run c (srv_init c) ops) = None.
Proof. exact monitor08_core_accepts_model. Qed.
Print Assumptions C08_monitor_core_accepts_model.

(* the full monitor = check08_core, then check08_exact (the MTU is also USED: a Read Response on a value carries
   exactly min( size, eff - 1 ) bytes, a notification min( size, eff - 3 )). NOT PROVED for check08_exact (it needs
   the correspondence handle -> attribute of the observer's table and "stored values keep their size"); tied. *)
Definition C08_monitor_accepts_model_full : Prop :=
  forall c ops, wf c -> no_fault (srv_run c (srv_init c) ops) -> monitor08 c (srv_run c (srv_init c) ops) = None.

(* ---- non-vacuity *)
Example C08_wf_nonvacuous : wf cfg_p4_mtu100 /\ wf cfg_p5_mtu300 /\ wf cfg_n1_mtu23.
Proof. repeat split; vm_compute; reflexivity. Qed.

(* max_mtu_size< 100 >, characteristic 2a01 of 50 bytes (value handle 6, CCCD 7): at the default MTU the
   notification is clipped to 23 bytes, after Exchange MTU 64 to 53 bytes; the monitor accepts the model *)
Example C08_notification_clipped_to_negotiated_mtu :
  let tr := srv_run cfg_p4_mtu100 (srv_init cfg_p4_mtu100)
              [OpIn 0 [18; 7; 0; 1; 0] 23; OpNotify true KNotif 1; OpOut 0 100;
               OpIn 0 [2; 64; 0] 100; OpNotify true KNotif 1; OpOut 0 100; OpIn 0 [2; 5; 0] 100; OpIn 0 [2; 64] 100] in
  map (fun x => match snd x with OBytes l => len l | _ => 999 end) tr = [1; 999; 23; 3; 999; 53; 5; 5]
  /\ monitor08 cfg_p4_mtu100 tr = None /\ monitor08_core cfg_p4_mtu100 tr = None /\ no_fault tr.
Proof.
  split; [vm_compute; reflexivity|]. split; [vm_compute; reflexivity|]. split; [vm_compute; reflexivity|].
  repeat constructor; discriminate.
Qed.

(* the monitor rejects the behaviour before the fix (53 byte notification at MTU 23) and the other clauses *)
Example C08_monitor_rejects_unclipped_notification :
  monitor08 cfg_p4_mtu100 [(OpIn 0 [18; 7; 0; 1; 0] 23, OBytes [19]); (OpNotify true KNotif 1, OBits [true; true; true]);
                           (OpOut 0 100, OBytes (27 :: 6 :: 0 :: repeat 0 50))] = Some (2%nat, t08_pdu_exceeds_mtu).
Proof. vm_compute. reflexivity. Qed.

Example C08_monitor_rejects_accepted_invalid_exchange :
  monitor08 cfg_p4_mtu100 [(OpIn 0 [2; 22; 0] 23, OBytes [3; 100; 0])] = Some (0%nat, t08_mtu_rejected_changed)
  /\ monitor08 cfg_p4_mtu100 [(OpIn 0 [2; 64] 23, OBytes [3; 100; 0])] = Some (0%nat, t08_mtu_rejected_changed)
  /\ monitor08 cfg_p4_mtu100 [(OpIn 0 [2; 64; 0] 23, OBytes [3; 64; 0])] = Some (0%nat, t08_mtu_value)
  /\ monitor08 cfg_p4_mtu100 [(OpIn 0 [18; 7; 0; 1; 0] 23, OBytes [19]); (OpNotify true KNotif 1, OBits [true; true; true]);
                              (OpOut 0 100, OBytes (27 :: 6 :: 0 :: repeat 0 10))] = Some (2%nat, t08_mtu_value).
Proof. repeat split; vm_compute; reflexivity. Qed.

From BT Require gen.GenAttSrv.
Example C08_constants_are_the_codes :
  GenAttSrv.default_att_mtu_size = default_att_mtu /\ GenAttSrv.opcode_exchange_mtu_request = 2
  /\ GenAttSrv.opcode_notification = 27 /\ GenAttSrv.opcode_indication = 29 /\ GenAttSrv.att_error_invalid_pdu = err_invalid_pdu.
Proof. repeat split; reflexivity. Qed.
