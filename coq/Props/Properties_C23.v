(* C23  Peripheral latency skips only permitted events.  Statements only; proofs in Latency/LatencyProofs.v.
   Model: Latency/LatencyModel.v (peripheral_latency.hpp + the delta_time operators),
   specification monitor: Latency/LatencySpec.v. *)
From Coq Require Import List NArith ZArith Bool.
Import ListNotations.
From BT Require Import Latency.LatencyModel Latency.LatencySpec Latency.LatencyProofs.
Local Open Scope N_scope.

(* ---- the whole property as acceptance by the executable specification monitor ----
   Full statement: for every legal configuration (single feature set or configuration set) and every
   history of reset / plan / timeout / reschedule-on-pending-data / raw move / configuration change
   calls with ANY arguments (every 16 bit latency, every interval, every event flag combination,
   every pending instant, every radio answer) the monitor finds no violation: skip range, listen
   conditions, counter and channel in step, pull-back range, instants, time arithmetic, no assert
   inside the callers' preconditions. *)
Definition C23_latency_full : Prop := accepts_all_latencies.

(* It is FALSE at exactly one point of the argument type's range: latency 65535. The skip is computed
   in a std::uint16_t, 65535 + 1 wraps to 0 and the "next" event is the same event again (skip 0,
   time 0). link_layer.hpp only passes latencies <= 499 (check_timing_paremeters), so this is a
   boundary of the unit, recorded in known_findings.d/C23.json and corpus/C23/latency_65535.trace. *)
Theorem C23_latency_refuted : ~ C23_latency_full.
Proof. exact accepts_all_latencies_refuted. Qed.
Print Assumptions C23_latency_refuted.

Theorem C23_latency_65535_skips_nothing :
  monitor (cfg_single []) (run (cfg_single []) (init (cfg_single [])) [Plan 65535 no_events 7500 false 0])
  = Some (0%nat, t_skip_range).
Proof. exact skip_zero_witness. Qed.

(* What holds: everything else. Any option lists (a superset of the 33 legal feature sets; a set needs
   one member), any history of any length, any arguments, latency arguments other than 65535 (mod 2^16). *)
Theorem C23_latency_partial :
  forall (c : cfg) (ops : list op),
    wf_cfg c -> Forall op_ok ops -> monitor c (run c (init c) ops) = None.
Proof. exact monitor_accepts. Qed.
Print Assumptions C23_latency_partial.

Theorem C23_legal_configurations_are_covered : forall c, legal c = true -> wf_cfg c.
Proof. exact legal_wf. Qed.

(* ---- the clauses as direct statements about the planning function ---- *)
(* planned skip s: 1 <= s <= latency + 1, in every state, for every feature set, all flags, all instants *)
Theorem C23_skip_range :
  forall c s lat ev pend inst, lat < two16 - 1 -> 1 <= plan_skip c s lat ev pend inst <= lat + 1.
Proof. exact plan_skip_range. Qed.
Print Assumptions C23_skip_range.

(* an enabled listen condition held, listen_always, or an error occurred: s = 1 *)
Theorem C23_listen_condition :
  forall c s lat ev pend inst,
    (is_set c = true -> (cur s < length (confs c))%nat) ->
    must_listen c (cur s) ev = true -> plan_skip c s lat ev pend inst = 1.
Proof. exact must_listen_skip_one. Qed.
Print Assumptions C23_listen_condition.

(* a pending instant is none of the skipped events *)
Theorem C23_instant_never_skipped :
  forall c s lat ev inst, counter s < two16 -> inst < two16 ->
    forall j, 1 <= j < plan_skip c s lat ev true inst -> (counter s + j) mod two16 <> inst.
Proof. exact instant_never_skipped. Qed.
Print Assumptions C23_instant_never_skipped.

(* unbounded, no hypothesis: event counter and channel index are the (unwrapped) number of the planned
   event mod 2^16 and mod 37 after any history - plan (+s), timeout (+1), pull-back (-m), raw move *)
Theorem C23_counter_and_channel_in_step :
  forall c ops,
    let s := final c (init c) ops in
    let e := events_passed c (init c) 0 ops in
    dead s = false -> (Z.of_N (counter s) = e mod 65536 /\ Z.of_N (chan s) = e mod 37)%Z.
Proof. exact counter_channel_track_events. Qed.
Print Assumptions C23_counter_and_channel_in_step.

(* the link layer's planning calls never run into an assert *)
Theorem C23_plan_does_not_assert :
  forall c s lat ev iv pend inst,
    dead s = false -> lat < two16 - 1 -> iv < two32 -> (lat + 1) * iv < two32 ->
    dead (fst (step c s (Plan lat ev iv pend inst))) = false.
Proof. exact plan_no_fault. Qed.
Print Assumptions C23_plan_does_not_assert.

(* ---- non-vacuity ---- *)
Definition some_events : events := mke false true false false false false.   (* last received not empty *)

(* the hypotheses are met by the default configuration and a history with latency 4 / 499, a listen
   condition, an instant inside the skip, a timeout, a pull-back and the counter wrap *)
Example C23_partial_nonvacuous :
  let ops := [Plan 4 no_events 7500 false 0; Plan 4 some_events 7500 false 0; Plan 499 no_events 7500 true 9;
              Tmo 7500; Plan 4 no_events 7500 false 0; Resched true 20000 7500; Move (-499) 0; Move (-1) 0;
              Plan 499 no_events 4000000 true 3; Reset; Plan 65534 no_events 2 false 0; Plan 4 no_events 7500 false 0] in
  wf_cfg cfg_default /\ Forall op_ok ops /\
  map snd (run cfg_default (init cfg_default) ops) =
    [OSt None 5 5 37500 (Some 5); OSt None 6 6 7500 (Some 1); OSt None 9 9 22500 (Some 3);
     OSt None 10 10 30000 (Some 3); OSt None 15 15 37500 (Some 5); OSt (Some true) 13 13 22500 (Some 1);
     OSt None 65050 32 22500 (Some 1); OSt None 65049 31 22500 (Some 1); OSt None 3 3 1960000000 (Some 490);
     OSt None 0 0 0 (Some 1); OSt None 65535 8 131070 (Some 65535); OSt None 4 13 37500 (Some 5)].
Proof. vm_compute. repeat split; try discriminate. repeat constructor; discriminate. Qed.

(* the monitor is not trivially accepting: one rejected trace per clause *)
Example C23_monitor_rejects_skip_too_long :
  monitor cfg_default [(Plan 4 no_events 7500 false 0, OSt None 6 6 45000 (Some 6))] = Some (0%nat, t_skip_range).
Proof. vm_compute. reflexivity. Qed.
Example C23_monitor_rejects_ignored_listen_condition :
  monitor cfg_default [(Plan 4 some_events 7500 false 0, OSt None 5 5 37500 (Some 5))] = Some (0%nat, t_listen_condition).
Proof. vm_compute. reflexivity. Qed.
Example C23_monitor_rejects_channel_out_of_step :
  monitor cfg_default [(Plan 4 no_events 7500 false 0, OSt None 5 1 37500 (Some 5))] = Some (0%nat, t_in_step).
Proof. vm_compute. reflexivity. Qed.
Example C23_monitor_rejects_skipped_instant :
  monitor cfg_default [(Plan 4 no_events 7500 true 3, OSt None 5 5 37500 (Some 5))] = Some (0%nat, t_instant_skipped).
Proof. vm_compute. reflexivity. Qed.
Example C23_monitor_rejects_pull_back_past_the_last_event :
  monitor cfg_default [(Plan 4 no_events 7500 false 0, OSt None 5 5 37500 (Some 5));
                       (Resched true 0 7500, OSt (Some true) 0 0 0 (Some 1))] = Some (1%nat, t_moveback_range).
Proof. vm_compute. reflexivity. Qed.
Example C23_monitor_rejects_pull_back_past_a_timeout :
  monitor cfg_default [(Plan 4 no_events 7500 false 0, OSt None 5 5 37500 (Some 5)); (Tmo 7500, OSt None 6 6 45000 (Some 5));
                       (Resched true 40000 7500, OSt (Some true) 5 5 37500 (Some 1))] = Some (2%nat, t_moveback_range).
Proof. vm_compute. reflexivity. Qed.
Example C23_monitor_rejects_channel_not_pulled_back :
  monitor cfg_default [(Plan 4 no_events 7500 false 0, OSt None 5 5 37500 (Some 5));
                       (Resched true 0 7500, OSt (Some true) 1 5 7500 (Some 1))] = Some (1%nat, t_in_step).
Proof. vm_compute. reflexivity. Qed.
Example C23_monitor_rejects_wrong_time :
  monitor cfg_default [(Plan 4 no_events 7500 false 0, OSt None 5 5 30000 (Some 5))] = Some (0%nat, t_time_in_step).
Proof. vm_compute. reflexivity. Qed.
Example C23_monitor_rejects_assert_inside_the_contract :
  monitor cfg_default [(Plan 4 no_events 7500 false 0, OFault)] = Some (0%nat, t_fault).
Proof. vm_compute. reflexivity. Qed.

(* last_latency_ is stale after timeout planning: harmless with a radio that reports the time since the
   anchor, visible with one that reports less (both traces replayed in corpus/C23) *)
Example C23_stale_last_latency_needs_the_radio_contract :
  map snd (run cfg_default (init cfg_default) [Plan 4 no_events 7500 false 0; Tmo 7500; Resched true 0 7500])
    = [OSt None 5 5 37500 (Some 5); OSt None 6 6 45000 (Some 5); OSt (Some true) 2 2 15000 (Some 1)] /\
  map snd (run cfg_default (init cfg_default) [Plan 4 no_events 7500 false 0; Tmo 7500; Resched true 37600 7500])
    = [OSt None 5 5 37500 (Some 5); OSt None 6 6 45000 (Some 5); OSt (Some true) 6 6 45000 (Some 1)].
Proof. split; [exact stale_last_latency_witness | exact conforming_radio_keeps_plan]. Qed.

(* ---- the legal feature sets and the constants, regenerated from the sources on every run ---- *)
Example C23_33_of_64_feature_sets_are_legal :
  length (sublists [0; 1; 2; 3; 4; 5]) = 64%nat /\
  length (filter (fun o => legal (cfg_single o)) (sublists [0; 1; 2; 3; 4; 5])) = 33%nat.
Proof. exact legal_feature_sets. Qed.

From BT Require gen.GenLatency.
Example C23_constants_are_the_sources :
  GenLatency.maximum_link_layer_peripheral_latency = max_latency /\
  GenLatency.max_number_of_data_channels = num_channels /\
  GenLatency.move_offset = move_offset /\
  GenLatency.number_of_options = 6 /\
  GenLatency.opt_listen_if_pending_transmit_data = o_pending /\
  GenLatency.opt_listen_if_unacknowledged_data = o_unack /\
  GenLatency.opt_listen_if_last_received_not_empty = o_rx_not_empty /\
  GenLatency.opt_listen_if_last_transmitted_not_empty = o_tx_not_empty /\
  GenLatency.opt_listen_if_last_received_had_more_data = o_more_data /\
  GenLatency.opt_listen_always = o_always.
Proof. repeat split; reflexivity. Qed.

Example C23_named_configurations_are_legal :
  GenLatency.cfg_peripheral_latency_ignored = [o_always] /\
  GenLatency.cfg_peripheral_latency_strict = [o_pending; o_more_data] /\
  GenLatency.cfg_peripheral_latency_strict_plus = [o_rx_not_empty; o_more_data] /\
  GenLatency.cfg_periperal_latency_default_configuration = [o_pending; o_unack; o_rx_not_empty; o_tx_not_empty; o_more_data] /\
  forallb (fun o => legal (cfg_single o))
    [GenLatency.cfg_peripheral_latency_ignored; GenLatency.cfg_peripheral_latency_strict;
     GenLatency.cfg_peripheral_latency_strict_plus; GenLatency.cfg_periperal_latency_default_configuration] = true.
Proof. repeat split; reflexivity. Qed.
