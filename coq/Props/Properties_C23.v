(* C23 placeholder while the tie is brought up; replaced below *)
From BT Require Import Latency.LatencyModel Latency.LatencySpec.
From BT Require gen.GenLatency.
Local Open Scope N_scope.
Example C23_constants_are_the_sources :
  GenLatency.maximum_link_layer_peripheral_latency = max_latency /\ GenLatency.max_number_of_data_channels = num_channels /\
  GenLatency.move_offset = move_offset.
Proof. repeat split; reflexivity. Qed.
