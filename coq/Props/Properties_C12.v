(* C12  Outgoing notification queue is a fair priority queue.
   Statements only; proofs live in NQueue/NQueueProofs.v. *)
From BT Require Import Base.ListX Base.Bits2 NQueue.NQueueModel NQueue.NQueueSpec NQueue.NQueueProofs.

(* For every priority partition whose levels hold at least one characteristic (levels of one
   characteristic are the specialised implementation, all others the packed one) and every
   sequence of queue_notification / queue_indication / dequeue / indication_confirmed / clear
   operations of any length, the trace of the model is accepted by the monitor, i.e.
     - queue_* reports 'newly queued' exactly when the (characteristic, kind) was not pending,
     - a dequeued request was pending and is removed (dequeued exactly once),
     - no indication is dequeued while one is outstanding,
     - every higher-priority level had no eligible request, 'empty' only if none has one,
     - within a level an eligible request is overtaken by at most Size-1 dequeues of other
       characteristics of that level (round robin).
   The monitor treats levels of size 1 exactly like all others. *)
Theorem C12_queue_is_fair_priority_set :
  forall (sizes : list nat) (ops : list op),
    wf_sizes sizes -> monitor sizes (run (init sizes) ops) = None.
Proof. exact monitor_accepts_model. Qed.
Print Assumptions C12_queue_is_fair_priority_set.

(* the packed representation: reading a 2-bit field after |= / &= ~ on the same or another field *)
Theorem C12_packed_fields_independent :
  forall (q : list N) (n i j : nat) (v : N),
    bytes_ok q -> length q = nbytes n -> (i < n)%nat -> (v < 4)%N ->
    get2 (or2 q i v) i = N.lor (get2 q i) v /\ get2 (clr2 q i v) i = N.ldiff (get2 q i) v /\
    (i <> j -> get2 (or2 q i v) j = get2 q j /\ get2 (clr2 q i v) j = get2 q j).
Proof.
  intros q n i j v Hq Hl Hi Hv. split; [|split].
  - exact (get2_or2_eq q n i v Hq Hl Hi Hv).
  - exact (get2_clr2_eq q n i v Hq Hl Hi Hv).
  - intros Hij. split.
    + exact (get2_or2_neq q n i v Hq Hl Hi Hv j Hij).
    + exact (get2_clr2_neq q n i v Hq Hl Hi Hv j Hij).
Qed.
Print Assumptions C12_packed_fields_independent.

(* the C++ offsets (index*2/8, (index*2)%8) are the ones the model uses *)
Theorem C12_offsets_agree : forall i : nat, (i * 2 / 8 = boff i /\ (i * 2) mod 8 = slot i * 2)%nat.
Proof. exact offsets_agree. Qed.
Print Assumptions C12_offsets_agree.

(* non-vacuity: a three-level partition with a single-entry level satisfies wf_sizes, and the
   monitor is not trivially accepting: it rejects the behaviour of the size-1 level before the fix
   (second request of the other kind reported as already queued) *)
Example C12_wf_nonvacuous : wf_sizes [3; 1; 2]%nat.
Proof. repeat constructor. Qed.

Example C12_monitor_rejects_dropped_request :
  monitor [1%nat] [(QueueI 0, OBool true); (QueueN 0, OBool false)] = Some (1%nat, t_newly_queued).
Proof. vm_compute. reflexivity. Qed.

Example C12_monitor_rejects_priority_inversion :
  monitor [1; 2]%nat [(QueueN 0, OBool true); (QueueN 2, OBool true); (Dequeue, OEntry (Some (KNotif, 2%nat)))]
  = Some (2%nat, t_deq_priority).
Proof. vm_compute. reflexivity. Qed.

Example C12_monitor_rejects_starvation :
  monitor [2%nat] [(QueueN 0, OBool true); (QueueN 1, OBool true); (Dequeue, OEntry (Some (KNotif, 0%nat)));
                   (QueueN 0, OBool true); (Dequeue, OEntry (Some (KNotif, 0%nat)))]
  = Some (4%nat, t_deq_round).
Proof. vm_compute. reflexivity. Qed.

(* constants regenerated from notification_queue.hpp on every run: the model's kbit / 2 bits per
   characteristic are the code's *)
From BT Require gen.GenNQueue.
Example C12_constants_are_the_codes :
  GenNQueue.bits_per_characteristc = 2%N /\ GenNQueue.notification_bit = kbit KNotif /\ GenNQueue.indication_bit = kbit KInd.
Proof. repeat split; reflexivity. Qed.
