(* placeholder while the pipeline is brought up; replaced by the real theorems *)
From BT Require Import Base.ListX NQueue.NQueueModel NQueue.NQueueSpec.
Example C12_pipeline_smoke : monitor [2%nat;1%nat] (run (init [2%nat;1%nat]) [QueueN 0; QueueI 2; QueueN 2; Dequeue; Dequeue; Dequeue; Dequeue]) = None.
Proof. vm_compute. reflexivity. Qed.
Print Assumptions C12_pipeline_smoke.
