(* C12  Outgoing notification queue is a fair priority queue.
   Statements only; proofs live in NQueue/NQueueProofs.v. *)
From BT Require Import Base.ListX Base.Bits2 NQueue.NQueueModel NQueue.NQueueSpec NQueue.NQueueProofs NQueue.NQueueDirect.

(* For every priority partition whose levels hold at least one characteristic (levels of one
   characteristic are the specialised implementation, all others the packed one) and every
   sequence of queue_notification / queue_indication / dequeue / indication_confirmed / clear
   operations of any length, the trace of the model is accepted by the monitor, i.e.
     - queue_* reports 'newly queued' exactly when the (characteristic, kind) was not pending,
     - a dequeued request was pending and is removed (dequeued exactly once),
     - no indication is dequeued while one is outstanding,
     - every higher-priority level had no eligible request, 'empty' only if none has one,
     - within a level an eligible request is overtaken by at most Size-1 dequeues of other
       characteristics of that level (round robin).
   The monitor treats levels of size 1 exactly like all others. *)
Theorem C12_queue_is_fair_priority_set :
  forall (sizes : list nat) (ops : list op),
    wf_sizes sizes -> monitor sizes (run (init sizes) ops) = None.
Proof. exact monitor_accepts_model. Qed.
Print Assumptions C12_queue_is_fair_priority_set.

(* the packed representation: reading a 2-bit field after |= / &= ~ on the same or another field *)
Theorem C12_packed_fields_independent :
  forall (q : list N) (n i j : nat) (v : N),
    bytes_ok q -> length q = nbytes n -> (i < n)%nat -> (v < 4)%N ->
    get2 (or2 q i v) i = N.lor (get2 q i) v /\ get2 (clr2 q i v) i = N.ldiff (get2 q i) v /\
    (i <> j -> get2 (or2 q i v) j = get2 q j /\ get2 (clr2 q i v) j = get2 q j).
Proof.
  intros q n i j v Hq Hl Hi Hv. split; [|split].
  - exact (get2_or2_eq q n i v Hq Hl Hi Hv).
  - exact (get2_clr2_eq q n i v Hq Hl Hi Hv).
  - intros Hij. split.
    + exact (get2_or2_neq q n i v Hq Hl Hi Hv j Hij).
    + exact (get2_clr2_neq q n i v Hq Hl Hi Hv j Hij).
Qed.
Print Assumptions C12_packed_fields_independent.

(* the C++ offsets (index*2/8, (index*2)%8) are the ones the model uses *)
Theorem C12_offsets_agree : forall i : nat, (i * 2 / 8 = boff i /\ (i * 2) mod 8 = slot i * 2)%nat.
Proof. exact offsets_agree. Qed.
Print Assumptions C12_offsets_agree.

(* non-vacuity: a three-level partition with a single-entry level satisfies wf_sizes, and the
   monitor is not trivially accepting: it rejects the behaviour of the size-1 level before the fix
   (second request of the other kind reported as already queued) *)
Example C12_wf_nonvacuous : wf_sizes [3; 1; 2]%nat.
Proof. repeat constructor. Qed.

Example C12_monitor_rejects_dropped_request :
  monitor [1%nat] [(QueueI 0, OBool true); (QueueN 0, OBool false)] = Some (1%nat, t_newly_queued).
Proof. vm_compute. reflexivity. Qed.

Example C12_monitor_rejects_priority_inversion :
  monitor [1; 2]%nat [(QueueN 0, OBool true); (QueueN 2, OBool true); (Dequeue, OEntry (Some (KNotif, 2%nat)))]
  = Some (2%nat, t_deq_priority).
Proof. vm_compute. reflexivity. Qed.

Example C12_monitor_rejects_starvation :
  monitor [2%nat] [(QueueN 0, OBool true); (QueueN 1, OBool true); (Dequeue, OEntry (Some (KNotif, 0%nat)));
                   (QueueN 0, OBool true); (Dequeue, OEntry (Some (KNotif, 0%nat)))]
  = Some (4%nat, t_deq_round).
Proof. vm_compute. reflexivity. Qed.

(* constants regenerated from notification_queue.hpp on every run: the model's kbit / 2 bits per
   characteristic are the code's *)
From BT Require gen.GenNQueue.
Example C12_constants_are_the_codes :
  GenNQueue.bits_per_characteristc = 2%N /\ GenNQueue.notification_bit = kbit KNotif /\ GenNQueue.indication_bit = kbit KInd.
Proof. repeat split; reflexivity. Qed.

(* ------------------------------------------------------------------------------------------
   Monitor-independent statements, directly over the model (NQueue/NQueueDirect.v).
   pending s i k = bit k of global characteristic i in the packed state s; total = number of
   characteristics; queue_op k i = QueueN i / QueueI i. *)

(* at most one indication outstanding, state level: while outstanding_confirmation_index_ is set,
   dequeue never answers an indication (any state) *)
Theorem C12_outstanding_blocks_indication : forall (s : state) (i j : nat),
  outstanding s = Some i -> snd (step s Dequeue) <> OEntry (Some (KInd, j)).
Proof. exact outstanding_blocks_indication. Qed.
Print Assumptions C12_outstanding_blocks_indication.

(* trace level: after a dequeue answered an indication, no dequeue of any continuation without
   indication_confirmed / clear answers another indication *)
Theorem C12_at_most_one_indication_outstanding : forall (s : state) (ops : list op) (i j : nat),
  snd (step s Dequeue) = OEntry (Some (KInd, i)) ->
  forallb (fun o => negb (ends_outstanding o)) ops = true ->
  ~ In (Dequeue, OEntry (Some (KInd, j))) (run (fst (step s Dequeue)) ops).
Proof. exact at_most_one_indication_outstanding. Qed.
Print Assumptions C12_at_most_one_indication_outstanding.

(* the same about a single trace of the model from any start state (e.g. init sizes) *)
Theorem C12_trace_at_most_one_indication_outstanding :
  forall (s0 : state) (ops1 ops2 : list op) (tr1 tr2 : list (op * out)) (i j : nat),
    run s0 (ops1 ++ Dequeue :: ops2) = tr1 ++ (Dequeue, OEntry (Some (KInd, i))) :: tr2 ->
    length tr1 = length ops1 ->
    forallb (fun o => negb (ends_outstanding o)) ops2 = true ->
    ~ In (Dequeue, OEntry (Some (KInd, j))) tr2.
Proof. exact trace_at_most_one_indication_outstanding. Qed.
Print Assumptions C12_trace_at_most_one_indication_outstanding.

(* no duplication: in every reachable state a dequeue answers a request that is pending, clears
   exactly that request and changes no other pending bit *)
Theorem C12_dequeue_answers_and_removes_exactly_one :
  forall (sizes : list nat) (ops : list op) (s' : state) (k : kind) (i : nat),
    wf_sizes sizes ->
    step (final (init sizes) ops) Dequeue = (s', OEntry (Some (k, i))) ->
    (i < total (levels (final (init sizes) ops)))%nat /\
    pending (final (init sizes) ops) i k = true /\
    pending s' i k = false /\
    forall j k', (j, k') <> (i, k) -> pending s' j k' = pending (final (init sizes) ops) j k'.
Proof. exact dequeue_answers_and_removes_exactly_one. Qed.
Print Assumptions C12_dequeue_answers_and_removes_exactly_one.

(* no loss: 'empty' is answered only when no request is eligible, and leaves the state unchanged *)
Theorem C12_dequeue_empty_means_nothing_eligible :
  forall (sizes : list nat) (ops : list op) (s' : state),
    wf_sizes sizes ->
    step (final (init sizes) ops) Dequeue = (s', OEntry None) ->
    s' = final (init sizes) ops /\
    forall j k, eligible (cget (levels s') j) k (is_none (outstanding s')) = false.
Proof. exact dequeue_empty_means_nothing_eligible. Qed.
Print Assumptions C12_dequeue_empty_means_nothing_eligible.

(* set semantics: queueing a pending request answers 'already queued' and leaves the whole packed
   state (bits, round robin pointers, outstanding indication) unchanged *)
Theorem C12_queue_pending_is_idempotent :
  forall (sizes : list nat) (ops : list op) (k : kind) (i : nat),
    wf_sizes sizes ->
    (i < total (levels (final (init sizes) ops)))%nat ->
    pending (final (init sizes) ops) i k = true ->
    step (final (init sizes) ops) (queue_op k i) = (final (init sizes) ops, OBool false).
Proof. exact queue_pending_is_idempotent. Qed.
Print Assumptions C12_queue_pending_is_idempotent.

(* queueing a request that is not pending answers 'newly queued' and sets exactly that bit *)
Theorem C12_queue_fresh_adds_exactly_one :
  forall (sizes : list nat) (ops : list op) (k : kind) (i : nat),
    wf_sizes sizes ->
    (i < total (levels (final (init sizes) ops)))%nat ->
    pending (final (init sizes) ops) i k = false ->
    snd (step (final (init sizes) ops) (queue_op k i)) = OBool true /\
    pending (fst (step (final (init sizes) ops) (queue_op k i))) i k = true /\
    outstanding (fst (step (final (init sizes) ops) (queue_op k i))) = outstanding (final (init sizes) ops) /\
    forall j k', (j, k') <> (i, k) ->
      pending (fst (step (final (init sizes) ops) (queue_op k i))) j k' = pending (final (init sizes) ops) j k'.
Proof. exact queue_fresh_adds_exactly_one. Qed.
Print Assumptions C12_queue_fresh_adds_exactly_one.

(* clear_indications_and_confirmations: every reachable state is reset to the initial state
   (the model, like the code, clears notification bits as well) *)
Theorem C12_clear_resets_to_initial_state :
  forall (sizes : list nat) (ops : list op),
    wf_sizes sizes -> step (final (init sizes) ops) Clear = (init sizes, OUnit).
Proof. exact clear_resets_to_initial_state. Qed.
Print Assumptions C12_clear_resets_to_initial_state.

Theorem C12_clear_leaves_nothing_pending :
  forall (sizes : list nat) (ops : list op) (i : nat) (k : kind),
    wf_sizes sizes ->
    pending (fst (step (final (init sizes) ops) Clear)) i k = false /\
    outstanding (fst (step (final (init sizes) ops) Clear)) = None.
Proof. exact clear_leaves_nothing_pending. Qed.
Print Assumptions C12_clear_leaves_nothing_pending.
