(* C24  Advertising uses exactly the enabled channels at the configured rate.
   Statements only; proofs live in Adv/AdvProofs.v. The model (Adv/AdvModel.v) is the behaviour of
   advertising.hpp with the two repairs of branch fix/C24-disabled-adv-channel. *)
From BT Require Import Base.ListX Adv.AdvModel Adv.AdvSpec Adv.AdvProofs.
Local Open Scope N_scope.

(* For every configuration (either channel map class, fixed or variable interval, automatic or
   manual start, any list of advertising types, either PDU layout, any own address and connection
   filter) and every sequence, of any length, of link layer calls (start / stop of advertising,
   advertising timeout, received PDU of any content) and API calls (start_advertising with and
   without count, stop_advertising, add / remove channel, set interval, directed address, change
   advertising type, changed advertising data) the C24 monitor accepts the model's trace:
     - every scheduled PDU is on an advertising channel that is enabled at that time,
     - every (re)start of advertising and every new advertising event begin on the lowest enabled
       channel; inside an event the next higher enabled channel follows, none repeated or skipped,
       with delay 0,
     - consecutive events are separated by the advertising interval in force plus 0 .. 10 ms,
     - nothing is scheduled after stop_advertising() / a connection until the next start, and not
       more PDUs (hence not more events) than count after start_advertising( count ),
     - no assert of the code fails while the documented preconditions hold.
   The monitor gives up (accepts the rest) only on usage the code documents as unsupported:
   a timeout / received PDU while no advertisement is outstanding, a channel map change while one
   is, advertising with an empty map, channels outside 37..39, start_advertising( 0 ),
   operations the option set does not offer. *)
Theorem C24_every_history_is_accepted :
  forall (c : cfg) (ops : list op), monitor24 c (run c (init c) ops) = None.
Proof. exact monitor24_accepts_model. Qed.
Print Assumptions C24_every_history_is_accepted.

(* variable_advertising_channel_map: for each of the 7 non-empty maps, from any enabled position,
   next_channel() moves to the next higher enabled channel if there is one (and that is not the
   first channel, so the delay is 0), otherwise back to the lowest enabled channel; the result is
   always enabled. all_advertising_channel_map likewise. *)
Theorem C24_next_channel_is_next_enabled :
  forall map idx, 0 < map < 8 -> chan_enabled map (idx + 37) = true ->
    chan_enabled map (var_next map idx + 37) = true /\
    match next_enabled_after map (idx + 37) with
    | Some e => var_next map idx + 37 = e /\ (var_next map idx =? first_channel_index map) = false /\ idx + 37 < e
    | None => var_next map idx = first_channel_index map
    end.
Proof. exact var_step. Qed.
Print Assumptions C24_next_channel_is_next_enabled.

Theorem C24_first_channel_is_lowest_enabled :
  forall map, 0 < map < 8 ->
    chan_enabled map (first_channel_index map + 37) = true /\ first_channel_index map + 37 = lowest_channel map.
Proof. exact var_first. Qed.
Print Assumptions C24_first_channel_is_lowest_enabled.

(* iterating next_channel() from the first channel enumerates, for any number of steps, the
   ascending list of enabled channels cyclically, and first_channel_selected() is true exactly at
   the multiples of the number of enabled channels *)
Theorem C24_stepping_is_the_cycle_of_enabled_channels :
  forall map k, 0 < map < 8 ->
    Nat.iter k (var_next map) (first_channel_index map) + 37 = nth_channel map k /\
    (Nat.iter k (var_next map) (first_channel_index map) =? first_channel_index map)
      = Nat.eqb (k mod length (enabled_channels map)) 0.
Proof. exact var_cycle. Qed.
Print Assumptions C24_stepping_is_the_cycle_of_enabled_channels.

(* Exactness (not only safety): with automatic start and one advertising type other than
   directed, from any state with a non-empty map, handle_start_advertising followed by n advertising
   timeouts schedules exactly n + 1 PDUs; the k-th is on the (k mod L)-th enabled channel, the first
   at once, inside an event with delay 0 and at the start of an event after interval + 0..10 ms. *)
Theorem C24_steady_run_is_the_concatenation_of_events :
  forall c s n, steady_cfg c -> (c_varmap c = true -> 0 < ch_map s < 8) ->
    let M := if c_varmap c then ch_map s else 7 in
    let I := current_interval c s in
    let outs := map snd (run c s (LStart :: repeat Timeout n)) in
    (exists t, nth 0 outs OFault = OSched (Sched (nth_channel M 0) 0 t)) /\
    forall k, (0 < k <= n)%nat -> pdu_at M I k (nth k outs OFault).
Proof. exact steady_run. Qed.
Print Assumptions C24_steady_run_is_the_concatenation_of_events.

Theorem C24_perturbation_at_most_10_ms :
  forall p, (p + perturbation_stride) mod (max_adv_perturbation + 1) <= max_adv_perturbation.
Proof. exact perturbation_range. Qed.
Print Assumptions C24_perturbation_at_most_10_ms.

(* ------------------------------------------------------------------ non-vacuity *)
Definition own_ex : addr := mkaddr [71; 17; 8; 21; 0; 192] true.
Definition cfg_ex : cfg := mkcfg [TUndirected] true true true 100 2 own_ex (fun _ => true).
Definition cfg_auto : cfg := mkcfg [] false false false 100 2 own_ex (fun _ => true).

(* the enabled channels of the 7 maps *)
Example C24_enabled_channels_of_all_maps :
  map enabled_channels [1; 2; 3; 4; 5; 6; 7]
  = [[37]; [38]; [37; 38]; [39]; [37; 39]; [38; 39]; [37; 38; 39]].
Proof. vm_compute. reflexivity. Qed.

(* the model on map {37, 39}: 37, 39, 37 (interval + 7 ms), 39; count 3 stops after three PDUs *)
Example C24_model_on_map_37_39 :
  map snd (run cfg_ex (init cfg_ex) [LStart; RmCh 38; StartN 3; Timeout; Timeout; Timeout])
  = [OSched NoSched; OSched NoSched; OSched (Sched 37 0 0); OSched (Sched 39 0 0);
     OSched (Sched 37 107000 0); OSched NoSched].
Proof. vm_compute. reflexivity. Qed.

Example C24_steady_cfg_nonvacuous : steady_cfg cfg_auto /\ (c_varmap cfg_auto = true -> 0 < ch_map (init cfg_auto) < 8).
Proof. split; [repeat split; discriminate | discriminate]. Qed.

(* the perturbation takes every value 0..10 *)
Example C24_perturbation_takes_all_values :
  map (fun k => Nat.iter k (fun p => (p + perturbation_stride) mod (max_adv_perturbation + 1)) 0) (seq 0 11)
  = [0; 7; 3; 10; 6; 2; 9; 5; 1; 8; 4].
Proof. vm_compute. reflexivity. Qed.

(* the monitor rejects what the unrepaired code did: channel 38 on the map {37, 39} ... *)
Example C24_monitor_rejects_disabled_channel :
  monitor24 cfg_ex [(LStart, OSched NoSched); (RmCh 38, OSched NoSched); (Start, OSched (Sched 37 0 0));
                    (Timeout, OSched (Sched 38 0 0))] = Some (3%nat, t_disabled_channel).
Proof. vm_compute. reflexivity. Qed.

(* ... and a restart that resumes on the channel where advertising had stopped *)
Example C24_monitor_rejects_restart_in_mid_event :
  monitor24 cfg_ex [(LStart, OSched NoSched); (StartN 2, OSched (Sched 37 0 0)); (Timeout, OSched (Sched 38 0 0));
                    (Timeout, OSched NoSched); (Start, OSched (Sched 38 0 0))] = Some (4%nat, t_order).
Proof. vm_compute. reflexivity. Qed.

Example C24_monitor_rejects_repeated_and_skipped_channel :
  monitor24 cfg_auto [(LStart, OSched (Sched 37 0 0)); (Timeout, OSched (Sched 37 0 0))] = Some (1%nat, t_once_per_event)
  /\ monitor24 cfg_auto [(LStart, OSched (Sched 37 0 0)); (Timeout, OSched (Sched 39 0 0))] = Some (1%nat, t_once_per_event)
  /\ monitor24 cfg_auto [(LStart, OSched (Sched 37 0 0)); (Timeout, OSched (Sched 38 0 0)); (Timeout, OSched (Sched 37 0 0))]
     = Some (2%nat, t_order).
Proof. vm_compute. auto. Qed.

Example C24_monitor_rejects_wrong_delays :
  (* 11 ms perturbation, no interval between events, a pause inside an event *)
  monitor24 cfg_auto [(LStart, OSched (Sched 37 0 0)); (Timeout, OSched (Sched 38 0 0)); (Timeout, OSched (Sched 39 0 0));
                      (Timeout, OSched (Sched 37 111000 0))] = Some (3%nat, t_inter_event_delay)
  /\ monitor24 cfg_auto [(LStart, OSched (Sched 37 0 0)); (Timeout, OSched (Sched 38 0 0)); (Timeout, OSched (Sched 39 0 0));
                      (Timeout, OSched (Sched 37 99999 0))] = Some (3%nat, t_inter_event_delay)
  /\ monitor24 cfg_auto [(LStart, OSched (Sched 37 0 0)); (Timeout, OSched (Sched 38 625 0))] = Some (1%nat, t_inter_event_delay).
Proof. vm_compute. auto. Qed.

Example C24_monitor_rejects_count_overrun_and_pdu_after_stop :
  monitor24 cfg_ex [(LStart, OSched NoSched); (StartN 1, OSched (Sched 37 0 0)); (Timeout, OSched (Sched 38 0 0))]
    = Some (2%nat, t_count_bound)
  /\ monitor24 cfg_ex [(LStart, OSched NoSched); (Start, OSched (Sched 37 0 0)); (Stop, OSched NoSched);
                       (Timeout, OSched (Sched 38 0 0))] = Some (3%nat, t_stopped).
Proof. vm_compute. auto. Qed.

(* constants regenerated from advertising.hpp on every run are the ones the model and the monitor use *)
From BT Require gen.GenAdv.
Example C24_constants_are_the_codes :
  GenAdv.first_advertising_channel = first_advertising_channel /\ GenAdv.last_advertising_channel = last_advertising_channel
  /\ GenAdv.max_adv_perturbation = max_adv_perturbation /\ GenAdv.perturbation_stride = perturbation_stride
  /\ GenAdv.max_adv_perturbation * 1000 = max_delay
  /\ GenAdv.default_interval_ms = 100 /\ GenAdv.default_variable_interval_ms * 1000 = ival_us (init cfg_ex)
  /\ GenAdv.min_interval_ms = 20 /\ GenAdv.max_interval_ms = 10240
  /\ GenAdv.initial_channel_map = ch_map (init cfg_ex).
Proof. repeat split; reflexivity. Qed.
