(* C04  Attribute handles are consistent with the declared database.
   Statements only; proofs live in AttDb/AttDbProofs.v and AttSrv/AttSrvProofsC04.v.

   The abstract object is AttDbSpec.assign: walking the declaration (service declaration, include
   declarations, per characteristic: declaration, value, [CCCD], [user description], descriptors) the
   next handle is max( previous + 1, handle requested by attribute_handle<> / attribute_handles<> ).
   All theorems quantify over every well formed configuration (wf = the static_asserts of the headers +
   no 16 bit overflow), i.e. any number of services and characteristics.

   With include_service<> the faithful model (and the code) violate (a)-(d): the full statements are
   refuted below with the corpus configurations `includes` / `includes_fixed`; the theorems hold for
   every configuration without include declarations. *)
From BT Require Import Base.ListX AttDb.AttDbModel AttDb.AttDbSpec AttDb.AttDbProofs AttDb.AttDbExamples
  NQueue.NQueueModel AttSrv.AttSrvModel AttSrv.AttSrvProofsC04.
From BT Require AttSrv.AttSrvSpecC02 AttSrv.AttSrvNoFault AttSrv.AttSrvProofsC04Disc AttSrv.AttSrvProofsC04Rbt.
Local Open Scope N_scope.

(* ---- (a) handle_by_index over all indices is the assignment; non-zero, strictly increasing *)
Definition C04_handles_full : Prop :=
  forall c, wf c -> map (handle_by_index c) (seqN 0 (N.to_nat (number_of_attributes c))) = assign c.

Theorem C04_handles_partial :
  forall c, wf c -> no_includes c ->
    map (handle_by_index c) (seqN 0 (N.to_nat (number_of_attributes c))) = assign c.
Proof. exact handle_by_index_is_assign. Qed.
Print Assumptions C04_handles_partial.

(* the assignment starts above 0 and increases strictly (for any declaration at all) *)
Theorem C04_assign_increasing : forall c, increasing_from 0 (assign c) = true.
Proof. exact assign_increasing. Qed.
Print Assumptions C04_assign_increasing.

(* every handle requested by attribute_handle<> / attribute_handles<> (0 = none) is the handle assigned;
   together with C04_handles_partial: handle_by_index honours the fixed handles *)
Theorem C04_fixed_handles_honoured :
  forall c, wf c -> no_includes c -> Forall2 (fun r h => r = 0 \/ h = r) (requests c) (assign c).
Proof. exact fixed_handles_honoured. Qed.
Print Assumptions C04_fixed_handles_honoured.

Theorem C04_handles_refuted : ~ C04_handles_full.
Proof.
  intros H. specialize (H cfg_includes). assert (W : wf cfg_includes) by (vm_compute; reflexivity).
  specialize (H W). vm_compute in H. discriminate H.
Qed.
Print Assumptions C04_handles_refuted.

(* ---- (b) index_by_handle / first_index_by_handle *)
Definition C04_inverse_full : Prop :=
  forall c i, wf c -> i < number_of_attributes c -> index_by_handle c (handle_by_index c i) = i.

Theorem C04_inverse_partial :
  forall c i, wf c -> no_includes c -> i < number_of_attributes c ->
    index_by_handle c (handle_by_index c i) = i /\ handle_by_index c i <> invalid_handle.
Proof. exact index_by_handle_inverse. Qed.
Print Assumptions C04_inverse_partial.

Theorem C04_other_handles_invalid :
  forall c h, wf c -> no_includes c ->
    (forall i, i < number_of_attributes c -> handle_by_index c i <> h) ->
    index_by_handle c h = invalid_index.
Proof. exact index_by_handle_other. Qed.
Print Assumptions C04_other_handles_invalid.

(* first_index_by_handle h is the least index whose handle is >= h (first_ge over the assignment;
   AttDbProofs.first_ge_spec says that this is what first_ge computes) *)
Theorem C04_first_index_by_handle :
  forall c h, wf c -> no_includes c -> first_index_by_handle c h = first_ge (assign c) h 0.
Proof. exact first_index_by_handle_spec. Qed.
Print Assumptions C04_first_index_by_handle.

Theorem C04_first_ge_is_least :
  forall l h i r, first_ge l h i = r -> r <> invalid_index ->
    h <= nth (N.to_nat (r - i)) l 0 /\ forall j, (j < N.to_nat (r - i))%nat -> nth j l 0 < h.
Proof. exact first_ge_spec. Qed.
Print Assumptions C04_first_ge_is_least.

Theorem C04_index_by_handle :
  forall c h, wf c -> no_includes c -> index_by_handle c h = index_eq (assign c) h 0.
Proof. exact index_by_handle_spec. Qed.
Print Assumptions C04_index_by_handle.

Theorem C04_inverse_refuted : ~ C04_inverse_full.
Proof.
  intros H. specialize (H cfg_includes 6). assert (W : wf cfg_includes) by (vm_compute; reflexivity).
  assert (L : 6 < number_of_attributes cfg_includes) by (vm_compute; reflexivity).
  specialize (H W L). vm_compute in H. discriminate H.
Qed.
Print Assumptions C04_inverse_refuted.

(* ---- (c) every characteristic declaration carries the assigned handle of its value attribute, the
   declared properties and the uuid *)
Definition C04_decl_value_full : Prop :=
  forall c i s ch, wf c -> attribute_at c i = Some (ACharDecl s ch) ->
    char_decl_value c ch i
    = Some (char_properties ch :: lo_hi (nth (N.to_nat (i + 1)) (assign c) 0) ++ uuid_bytes (c_uuid ch)).

Theorem C04_decl_value_partial :
  forall c i s ch, wf c -> no_includes c -> attribute_at c i = Some (ACharDecl s ch) ->
    char_decl_value c ch i
    = Some (char_properties ch :: lo_hi (nth (N.to_nat (i + 1)) (assign c) 0) ++ uuid_bytes (c_uuid ch))
    /\ nth (N.to_nat (i + 1)) (assign c) 0 <> 0.
Proof. exact char_decl_value_spec. Qed.
Print Assumptions C04_decl_value_partial.

(* the last characteristic declaration of the first service of `includes`: the value handle is 0
   (assert in char_declaration_access) *)
Theorem C04_decl_value_refuted : ~ C04_decl_value_full.
Proof.
  intros H. assert (W : wf cfg_includes) by (vm_compute; reflexivity).
  destruct (attribute_at cfg_includes 5) as [a|] eqn:E; [|vm_compute in E; discriminate E].
  vm_compute in E. injection E as <-.
  match type of W with _ => idtac end.
  eassert (X := H cfg_includes 5 _ _ W eq_refl). vm_compute in X. discriminate X.
Qed.
Print Assumptions C04_decl_value_refuted.

(* ---- (d) every include declaration carries the included service's assigned first and last handle
   (and its 16 bit uuid) *)
Definition C04_include_value_full : Prop :=
  forall c i u, wf c -> attribute_at c i = Some (AInclude u) ->
    Some (include_value c u) = expected_value c (N.to_nat i).

(* `includes_fixed`: service_handles counts attributes (4..7) where the included service really
   lives at 48..72. No partial theorem is stated for (d): an include declaration exists only in
   configurations in which (a) is already false. *)
Theorem C04_include_value_refuted : ~ C04_include_value_full.
Proof.
  intros H. assert (W : wf cfg_includes_fixed) by (vm_compute; reflexivity).
  eassert (X := H cfg_includes_fixed 1 _ W eq_refl). vm_compute in X. discriminate X.
Qed.
Print Assumptions C04_include_value_refuted.

(* ---- non-vacuity *)
Example C04_hypotheses_satisfiable :
  (wf cfg_basic3 /\ no_includes cfg_basic3) /\ (wf cfg_fixed_handles /\ no_includes cfg_fixed_handles)
  /\ (wf cfg_mtu300 /\ no_includes cfg_mtu300).
Proof. repeat split; vm_compute; reflexivity. Qed.

(* fixed handles with gaps: the assignment of the corpus configuration `fixed_handles` *)
Example C04_assign_fixed_handles :
  assign cfg_fixed_handles = [3; 5; 6; 9; 12; 15; 20; 22; 23; 24; 25; 26; 27; 28; 64; 80; 128; 256; 257; 258].
Proof. vm_compute. reflexivity. Qed.

(* the monitor is not trivially accepting: it rejects the shifted table of `includes` and a wrong
   index_by_handle table for `basic3` *)
Example C04_monitor_rejects_shifted_handles :
  check_dump cfg_includes (map (handle_by_index cfg_includes) (seqN 0 17)) [] [] [] = Bad t_handles.
Proof. vm_compute. reflexivity. Qed.

Example C04_monitor_accepts_model_tables :
  let c := cfg_fixed_handles in
  let hs := seqN 0 261 in
  check_dump c (map (handle_by_index c) (seqN 0 20)) (map (first_index_by_handle c) hs) (map (index_by_handle c) hs)
             (map (fun i => match attribute_at c i with Some a => attr_uuid a | None => 0 end) (seqN 0 20)) = Ok.
Proof. vm_compute. reflexivity. Qed.

Example C04_monitor_rejects_wrong_index_table :
  let c := cfg_basic3 in
  let hs := seqN 0 (N.to_nat (number_of_attributes c) + 3) in
  check_dump c (assign c) (map (first_index_by_handle c) hs) (map (fun h => if h =? 4 then 2 else index_by_handle c h) hs)
             (map attr_uuid (decl_attrs c)) = Bad t_index_by_handle.
Proof. vm_compute. reflexivity. Qed.

Example C04_monitor_rejects_wrong_declaration :
  check_read cfg_basic3 2 [11; 2; 9; 0; 0; 42] = Bad t_decl_value.
Proof. vm_compute. reflexivity. Qed.

(* ---- (e) every handle that a response REPORTS is the handle under which that attribute is accessed
   (monitor clause reported_handle, AttDbSpec.check_discovery): every entry of a Find Information, Read By
   Type, Read By Group Type or Find By Type Value response names a handle of [assign cfg] whose declared
   attribute is the one the entry describes (type; declaration value with the assigned value handle; group
   end and service uuid).
   The full statement (all four request kinds, any request) is NOT proved; it is *)
Definition C04_reported_handles_full : Prop :=
  forall c st cid pdu n st' rs,
    wf c -> no_includes c ->
    att_input c st cid pdu n = Some (st', rs) -> check_discovery c pdu rs = Ok.
(* (it additionally needs the exclusion of the marker uuid 0x0001, cf. C01_marker_uuid_faults; a proof would go
   through att-disc's byte-exact response theorems AttSrvProofsC02.find_information_spec /
   read_by_group_type_spec / AttSrvProofsC03.find_by_type_value_spec and AttSrvProofsC02.table_handles.)
   What is checked here: the clause accepts the model's own responses on the corpus configuration
   `fixed_handles` (characteristic discovery over gaps, at MTU 65), and it rejects the response of the
   seeded regression "later tuples report first_handle + (index - first_index)": the declaration at
   handle 9 reported as 7, the one at 20 as 10. *)
(* PROVED, per request kind (C04_reported_handles_partial_...), for every wf configuration without
   include_service<>, every state with a live connection (hence every reachable state), every out_size / MTU
   and every well formed request of the kind (bytes < 256, 1 <= starting handle <= ending handle); built on
   att-disc's byte-exact response theorems and the C04 handle theorems (AttSrv/AttSrvProofsC04Disc.v):
     Read By Group Type <<Primary Service>>, Find By Type Value <<Primary Service>>, Find Information (the
     latter additionally without the marker uuid 0x0001).
   Read By Type (AttSrv/AttSrvProofsC04Rbt.v, a collector invariant that ties every entry to the read access
   that produced it): every request with opcode 8, for an output size min(out_size, MTU) of at most 513 bytes
   (C04_reported_handles_partial_read_by_type). Up to 257 the 8 bit size counter of collect_attributes cannot
   cut the list; up to 513 it drops exactly 256 bytes, and since 257 is prime the cut never leaves a single
   byte of an entry, so the clause can judge the cut entry on its handle and value prefix.
   Requests of other shapes (wrong length, starting handle 0, starting handle above the ending handle, a type
   other than <<Primary Service>> for the two group requests) are answered with Error Responses, which the
   clause does not judge: derived formally, so that C04_reported_handles_partial below holds for EVERY request.
   NOT PROVED, and the reason _full stays a Definition: Read By Type at output sizes above 513 (a list that
   lost 512 bytes may end in a single byte of an entry of 3, 9, 19, 27, 57 or 171 bytes, which the clause
   rejects: the statement is false there in general), configurations with the marker uuid
   0x0001 (Find Information faults, cf. C01_marker_uuid_faults) and states without the connection. *)
Theorem C04_reported_handles_partial_read_by_group_type :
  forall c st cid n st' rs k a0 a1 x0 x1,
    wf c -> no_includes c -> get_conn st cid = Some k ->
    a0 < 256 -> a1 < 256 -> x0 < 256 -> x1 < 256 ->
    1 <= AttSrvSpecC02.w16 a0 a1 -> AttSrvSpecC02.w16 a0 a1 <= AttSrvSpecC02.w16 x0 x1 ->
    att_input c st cid [16; a0; a1; x0; x1; 0; 40] n = Some (st', rs) ->
    check_discovery c [16; a0; a1; x0; x1; 0; 40] rs = Ok.
Proof. exact AttSrvProofsC04Disc.read_by_group_type_reports_assigned. Qed.
Print Assumptions C04_reported_handles_partial_read_by_group_type.

Theorem C04_reported_handles_partial_find_by_type_value :
  forall c st cid n st' rs k pdu lo hi value,
    wf c -> no_includes c -> get_conn st cid = Some k ->
    forallb byte_ok value = true -> rd pdu 0 = Some 6 -> (len pdu = 9 \/ len pdu = 23) ->
    rd16 pdu 1 = Some lo -> rd16 pdu 3 = Some hi -> rd16 pdu 5 = Some uuid_primary_service ->
    slice pdu 7 (len pdu) = Some value -> 1 <= lo -> lo <= hi ->
    att_input c st cid pdu n = Some (st', rs) -> check_discovery c pdu rs = Ok.
Proof. exact AttSrvProofsC04Disc.find_by_type_value_reports_assigned. Qed.
Print Assumptions C04_reported_handles_partial_find_by_type_value.

Theorem C04_reported_handles_partial_find_information :
  forall c st cid n st' rs k a0 a1 x0 x1,
    wf c -> no_includes c -> AttSrvNoFault.no_marker_uuids c -> get_conn st cid = Some k ->
    a0 < 256 -> a1 < 256 -> x0 < 256 -> x1 < 256 ->
    1 <= AttSrvSpecC02.w16 a0 a1 -> AttSrvSpecC02.w16 a0 a1 <= AttSrvSpecC02.w16 x0 x1 ->
    att_input c st cid [4; a0; a1; x0; x1] n = Some (st', rs) ->
    check_discovery c [4; a0; a1; x0; x1] rs = Ok.
Proof. exact AttSrvProofsC04Disc.find_information_reports_assigned. Qed.
Print Assumptions C04_reported_handles_partial_find_information.

Theorem C04_reported_handles_partial_read_by_type :
  forall c st cid n st' rs k pdu,
    wf c -> no_includes c -> get_conn st cid = Some k ->
    Forall (fun x => x < 256) pdu -> rd pdu 0 = Some 8 -> N.min n (negotiated_mtu c k) <= 513 ->
    att_input c st cid pdu n = Some (st', rs) -> check_discovery c pdu rs = Ok.
Proof. exact AttSrvProofsC04Rbt.read_by_type_reports_assigned. Qed.
Print Assumptions C04_reported_handles_partial_read_by_type.

(* every request: any opcode, any length, any handle range, any type *)
Theorem C04_reported_handles_partial :
  forall c st cid n st' rs k pdu,
    wf c -> no_includes c -> AttSrvNoFault.no_marker_uuids c -> get_conn st cid = Some k ->
    Forall (fun x => x < 256) pdu ->
    (rd pdu 0 = Some 8 -> N.min n (negotiated_mtu c k) <= 513) ->
    att_input c st cid pdu n = Some (st', rs) -> check_discovery c pdu rs = Ok.
Proof. exact AttSrvProofsC04Rbt.any_request_reports_assigned. Qed.
Print Assumptions C04_reported_handles_partial.

Example C04_reported_handles_model_accepted :
  let c := cfg_fixed_handles in
  forallb (fun pdu => match att_input c (srv_init c) O pdu 65 with
                      | Some (_, rs) => match check_discovery c pdu rs with Ok => true | Bad _ => false end
                      | None => false
                      end)
          [[8; 1; 0; 255; 255; 3; 40]; [8; 3; 0; 23; 0; 3; 40]; [8; 1; 0; 255; 255; 0; 40]; [8; 1; 0; 255; 255; 2; 41];
           [4; 1; 0; 255; 255]; [4; 9; 0; 255; 255]; [16; 1; 0; 255; 255; 0; 40]; [16; 4; 0; 255; 255; 0; 40];
           [6; 1; 0; 255; 255; 0; 40; 16; 24]; [6; 1; 0; 255; 255; 0; 40; 18; 24]] = true.
Proof. vm_compute. reflexivity. Qed.

Example C04_monitor_rejects_derived_handles :
  check_discovery cfg_fixed_handles [8; 3; 0; 23; 0; 3; 40]
    [9; 7; 5; 0; 10; 6; 0; 0; 42; 7; 0; 26; 12; 0; 1; 42; 10; 0; 10; 22; 0; 2; 42] = Bad t_reported_handle
  /\ check_discovery cfg_fixed_handles [8; 3; 0; 23; 0; 3; 40]
    [9; 7; 5; 0; 10; 6; 0; 0; 42; 9; 0; 26; 12; 0; 1; 42; 20; 0; 10; 22; 0; 2; 42] = Ok
  /\ check_discovery cfg_fixed_handles [16; 1; 0; 255; 255; 0; 40] [17; 6; 3; 0; 22; 0; 16; 24] = Bad t_reported_handle
  /\ check_discovery cfg_fixed_handles [4; 1; 0; 255; 255] [5; 1; 3; 0; 0; 40; 4; 0; 3; 40] = Bad t_reported_handle.
Proof. repeat split; vm_compute; reflexivity. Qed.

(* a Read By Type Response cut short by the 8 bit size counter (MTU 300, C01-read-by-type-8bit-size) still
   reports the right handle: the clause judges the truncated entry on its handle, type and value prefix
   (the framing is C01 (c')); a wrong handle in such an entry is still rejected *)
Example C04_truncated_entry_judged_on_its_handle :
  check_discovery cfg_mtu300 [8; 1; 0; 255; 255; 0; 42] [9; 66; 3; 0; 1; 12; 23; 34; 45; 56] = Ok
  /\ check_discovery cfg_mtu300 [8; 1; 0; 255; 255; 0; 42] [9; 66; 4; 0; 1; 12; 23; 34; 45; 56] = Bad t_reported_handle
  /\ check_discovery cfg_mtu300 [8; 1; 0; 255; 255; 0; 42] [9; 66; 3] = Bad t_reported_handle.
Proof. repeat split; vm_compute; reflexivity. Qed.

(* constants the model uses are the code's (regenerated from codes.hpp on every run) *)
From BT Require gen.GenAttSrv.
Example C04_constants_are_the_codes :
  GenAttSrv.gatt_uuid_primary_service = uuid_primary_service /\ GenAttSrv.gatt_uuid_secondary_service = uuid_secondary_service
  /\ GenAttSrv.gatt_uuid_include = uuid_include /\ GenAttSrv.gatt_uuid_characteristic = uuid_characteristic
  /\ GenAttSrv.gatt_uuid_characteristic_user_description = uuid_user_description
  /\ GenAttSrv.gatt_uuid_client_characteristic_configuration = uuid_cccd
  /\ GenAttSrv.gatt_uuid_internal_128bit_uuid = internal_128bit_uuid
  /\ [GenAttSrv.char_property_read; GenAttSrv.char_property_write_without_response; GenAttSrv.char_property_write;
      GenAttSrv.char_property_notify; GenAttSrv.char_property_indicate] = [2; 4; 8; 16; 32].
Proof. repeat split; reflexivity. Qed.
