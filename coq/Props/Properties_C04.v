(* C04  Attribute handles are consistent with the declared database. (work in progress: Examples only) *)
From BT Require Import Base.ListX AttDb.AttDbModel AttDb.AttDbSpec AttDb.AttDbExamples.
Local Open Scope N_scope.
Example C04_wf_nonvacuous : wf cfg_basic3 /\ wf cfg_fixed_handles /\ wf cfg_includes.
Proof. repeat split; vm_compute; reflexivity. Qed.
