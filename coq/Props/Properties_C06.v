(* C06 - statements only (first version: non-vacuity Examples; the theorems are added below as they are proved) *)
From BT Require Import Base.ListX AttDb.AttDbModel NQueue.NQueueModel AttSrv.AttSrvModel AttSrv.AttSrvSpecVal
  AttSrv.AttSrvSpecC06 AttSrv.AttSrvExamplesVal.
Local Open Scope N_scope.

Example C06_wf_nonvacuous : wf cfg_v_wq10 /\ wf cfg_v_enc_server_none /\ wf cfg_v_handlers.
Proof. repeat split; vm_compute; reflexivity. Qed.

(* the monitor accepts the model's own trace of a small history *)
Example C06_monitor_accepts_model_trace :
  monitor cfg_v_wq10 (srv_run cfg_v_wq10 (srv_init cfg_v_wq10)
    [OpIn O [10; 3; 0] 23; OpIn O [18; 3; 0; 1; 2; 3; 4] 23; OpVal O; OpIn 1 [22; 3; 0; 1; 0; 9; 9] 23; OpVal O;
     OpIn 2 [22; 3; 0; 0; 0; 7] 23; OpIn 1 [24; 1] 23; OpVal O; OpIn O [10; 11; 0] 23; OpSec O true 1; OpIn O [10; 11; 0] 23]) = None.
Proof. vm_compute. reflexivity. Qed.
