(* C06  Reads and writes follow the attribute value semantics.
   Statements only; proofs live in AttSrv/AttSrvProofsVal.v (refinement of the reference semantics) and
   AttSrv/AttSrvProofsC06.v.

   Reference semantics (AttSrvSpecVal.v): the value store is one byte string per bound variable / handler buffer;
   [splice v off d] = v with the bytes d at position off; [sub v off n] = n bytes of v from off;
   [spec_readable] / [spec_writable] are the permissions the options stand for (no_read_access, no_write_access,
   const, fixed_value / cstring_value / fixed_blob_value, missing read / write handler). *)
From BT Require Import Base.ListX AttDb.AttDbModel AttDb.AttDbProofs NQueue.NQueueModel AttSrv.AttSrvModel AttSrv.AttSrvSpecVal
  AttSrv.AttSrvSpecC06 AttSrv.AttSrvProofsVal AttSrv.AttSrvProofsC06 AttSrv.AttSrvProofsC06Scan AttSrv.AttSrvExamplesVal.
Local Open Scope N_scope.

(* ---- writes: a Write Request / Write Command / executed prepared write through a characteristic value: if it
   succeeds, the stored value is the old one with exactly the written bytes at the written position - of this
   characteristic and no other -, the write lies inside the value and the value is writable; if it is rejected
   (permission, security, offset, length, not long), every value is unchanged. Every value kind, size, offset,
   length, state, link security. *)
Theorem C06_write_exact :
  forall c st sec s ch g off data st' rc,
    value_write c st sec s ch g off data = (st', rc) ->
    (rc = Success ->
       vals st' = upd (vals st) g (splice (get_val st g) off data) /\ off + len data <= len (get_val st g)
       /\ spec_writable ch = true /\ stored ch = true)
    /\ (rc <> Success -> vals st' = vals st).
Proof. exact value_write_exact. Qed.
Print Assumptions C06_write_exact.

(* what "exactly the written bytes at the position and nothing else" means byte by byte *)
Theorem C06_splice_bytes :
  forall (v : list N) off (d : list N) i, off + len d <= len v ->
    length (splice v off d) = length v /\
    nth i (splice v off d) 0 =
      if (N.to_nat off <=? i)%nat && (i <? N.to_nat off + length d)%nat then nth (i - N.to_nat off) d 0 else nth i v 0.
Proof. intros v off d i H. split; [apply splice_length; exact H|apply splice_nth; exact H]. Qed.
Print Assumptions C06_splice_bytes.

(* every write through ANY attribute (value, CCCD, declaration, descriptor) answers and changes the state as
   the reference semantics says: the states stay related *)
Theorem C06_write_refines_reference :
  forall c st a cid at_ off data st' rc m,
    sim c st a -> access_write c st cid at_ off data = Some (st', rc) ->
    fst (awrite c a cid at_ off data m) = to_ares rc /\ sim c st' (snd (awrite c a cid at_ off data m)).
Proof. exact access_write_sim. Qed.
Print Assumptions C06_write_refines_reference.

(* ---- reads: Read / Read Blob (and every other read access) of a readable value on a sufficiently secure link
   return the current value bytes from the offset, truncated to what the caller may take (MTU - 1), or Invalid
   Offset exactly when the offset is past the end; a read changes no value *)
Theorem C06_read_value_bytes :
  forall c st enc pair s ch g off maxlen st' rc d,
    value_read c st (enc, pair) s ch g off maxlen = (st', rc, d) ->
    k1 ch = false -> sec_error (spec_protected c s ch) enc pair = None -> spec_readable ch = true -> not_long ch off = false ->
    let v := spec_value (vals st) ch g in
    (len v < off /\ rc = Err err_invalid_offset /\ d = [])
    \/ (off <= len v /\ rc = Success /\ d = sub v off (N.min maxlen (len v - off))).
Proof. exact value_read_bytes. Qed.
Print Assumptions C06_read_value_bytes.

Theorem C06_read_changes_no_value :
  forall c st cid a i off maxlen st' rc d, access_read c st cid a i off maxlen = Some (st', rc, d) -> vals st' = vals st.
Proof. intros c st cid a i off maxlen st' rc d H. apply access_read_same in H. apply H. Qed.
Print Assumptions C06_read_changes_no_value.

(* ---- permissions *)
(* a value that must not be writable (const, no_write_access, fixed, cstring / blob, no write handler): Write Not
   Permitted, nothing changes; every access path goes through value_write (Write Request, Write Command, Prepare
   Write's probe, Execute Write) *)
Theorem C06_write_permission :
  forall c st enc pair s ch g off data st' rc,
    value_write c st (enc, pair) s ch g off data = (st', rc) ->
    sec_error (spec_protected c s ch) enc pair = None -> spec_writable ch = false ->
    rc = Err err_write_not_permitted /\ vals st' = vals st.
Proof. exact write_permission. Qed.
Print Assumptions C06_write_permission.

(* a value that must not be readable answers Read Not Permitted on every read access (Read, Read Blob, Read By
   Type, Read Multiple go through value_read) *)
Definition C06_read_permission_full : Prop := read_permission_full.

(* refuted: a handler based value with a read handler and no_read_access is read (known finding
   C06-handler-value-ignores-no-read-access; configuration v_handler_noread, first characteristic) *)
Theorem C06_read_permission_refuted : ~ C06_read_permission_full.
Proof.
  intros H.
  set (ch := mkChar (U16 10752) HNone (VHandler 4 true true true) true false false false false false None [] (mkEnc false false false)).
  set (s := mkSvc (U16 6160) false None [] [ch] (mkEnc false false false) []).
  destruct (H cfg_v_handler_noread (srv_init cfg_v_handler_noread) false 0 s ch O 0 22
              (fst (fst (value_read cfg_v_handler_noread (srv_init cfg_v_handler_noread) (false, 0) s ch O 0 22)))
              Success [1; 12; 23; 34]) as [X _]; try reflexivity.
  discriminate X.
Qed.
Print Assumptions C06_read_permission_refuted.

(* what holds: every value kind except (read handler + no_read_access) *)
Theorem C06_read_permission_partial :
  forall c st enc pair s ch g off maxlen st' rc d,
    value_read c st (enc, pair) s ch g off maxlen = (st', rc, d) ->
    k1 ch = false -> sec_error (spec_protected c s ch) enc pair = None -> spec_readable ch = false ->
    rc = Err err_read_not_permitted /\ d = [].
Proof. exact read_permission_partial. Qed.
Print Assumptions C06_read_permission_partial.

(* ---- the declared properties match the permissions: the properties byte of every characteristic declaration
   is the reference byte, whose bits are: Read <-> readable; Write <-> writable and not only_write_without_response;
   Write Without Response <-> (only_)write_without_response declared; Notify / Indicate <-> declared *)
Theorem C06_properties_match :
  forall ch, char_properties ch = spec_properties ch
    /\ N.testbit (spec_properties ch) 1 = spec_readable ch
    /\ N.testbit (spec_properties ch) 3 = (spec_writable ch && negb (c_owwr ch))
    /\ N.testbit (spec_properties ch) 2 = (c_owwr ch || (stored ch && c_wwr ch))
    /\ N.testbit (spec_properties ch) 4 = (c_notify ch && negb (match c_value ch with VString _ => true | _ => false end))
    /\ N.testbit (spec_properties ch) 5 = (c_indicate ch && negb (match c_value ch with VString _ => true | _ => false end))
    /\ spec_properties ch < 64.
Proof. intros ch. split; [apply char_properties_spec|apply spec_properties_bits]. Qed.
Print Assumptions C06_properties_match.

(* ---- the whole property over histories: the monitor (reference store beside the trace) accepts every trace
   of the model: any configuration, request histories of any length, all PDU bytes *)
Definition C06_refines_reference_store_full : Prop :=
  forall c ops, wf c -> forallb not_scanned ops = true -> monitor c (srv_run c (srv_init c) ops) = None.

Theorem C06_refines_reference_store_refuted : ~ C06_refines_reference_store_full.
Proof.
  intros H. specialize (H cfg_v_handler_noread [OpIn O [10; 3; 0] 23]).
  assert (W : wf cfg_v_handler_noread) by (vm_compute; reflexivity). specialize (H W eq_refl). vm_compute in H. discriminate H.
Qed.
Print Assumptions C06_refines_reference_store_refuted.

(* what holds: configurations without (read handler + no_read_access); histories without Read By Type / Read
   Multiple (their responses are scanned by the monitor for unreadable handles; tied, not proved) *)
Theorem C06_refines_reference_store_partial :
  forall c ops, no_k1 c -> forallb not_scanned ops = true -> monitor c (srv_run c (srv_init c) ops) = None.
Proof. exact AttSrvProofsC06.monitor_sound. Qed.
Print Assumptions C06_refines_reference_store_partial.

(* every history, Read By Type and Read Multiple included: for well formed configurations without
   include_service<> (inverse laws of the handle mapping: C04) and without that finding, no Read By Type entry
   and no answered Read Multiple names a value that must not be readable *)
Theorem C06_refines_reference_store_all :
  forall c ops, wf c -> no_includes c -> no_k1 c -> monitor c (srv_run c (srv_init c) ops) = None.
Proof. exact AttSrvProofsC06Scan.monitor_sound_all. Qed.
Print Assumptions C06_refines_reference_store_all.

Theorem C06_no_k1_decidable : forall c, no_k1_b c = true -> no_k1 c.
Proof. exact no_k1_b_sound. Qed.
Print Assumptions C06_no_k1_decidable.

(* ---- non-vacuity *)
Example C06_hypotheses_nonvacuous :
  wf cfg_v_perms /\ no_k1 cfg_v_perms /\ wf cfg_v_fixed /\ no_k1 cfg_v_fixed /\ wf cfg_v_handlers /\ no_k1 cfg_v_handlers
  /\ wf cfg_v_handler_noread /\ no_k1_b cfg_v_handler_noread = false.
Proof. repeat split; try (vm_compute; reflexivity); apply no_k1_b_sound; vm_compute; reflexivity. Qed.

(* cfg_v_wq10: handle 3 = a 4 byte value (1, 12, 23, 34), handle 8 = 20 bytes with no_write_access *)
Example C06_model_trace :
  map snd (srv_run cfg_v_wq10 (srv_init cfg_v_wq10)
    [OpIn O [10; 3; 0] 23; OpIn O [18; 3; 0; 9; 8] 23; OpVal O; OpIn O [18; 3; 0; 1; 2; 3; 4; 5] 23; OpVal O;
     OpIn O [12; 3; 0; 3; 0] 23; OpIn O [12; 3; 0; 4; 0] 23; OpIn O [12; 3; 0; 5; 0] 23; OpIn O [18; 8; 0; 1] 23; OpIn O [10; 7; 0] 23])
  = [OBytes [11; 1; 12; 23; 34]; OBytes [19]; OValue [9; 8; 23; 34] None; OBytes [1; 18; 3; 0; 13]; OValue [9; 8; 23; 34] None;
     OBytes [13; 34]; OBytes [13]; OBytes [1; 12; 3; 0; 7]; OBytes [1; 18; 8; 0; 3]; OBytes [11; 2; 8; 0; 2; 42]].
Proof. vm_compute. reflexivity. Qed.

(* the monitor is not trivially accepting: one rejected trace per clause *)
Example C06_monitor_rejects_wrong_value :
  monitor cfg_v_wq10 [(OpIn O [10; 3; 0] 23, OBytes [11; 1; 12; 23; 35])] = Some (0%nat, t_read_value).
Proof. vm_compute. reflexivity. Qed.

Example C06_monitor_rejects_inexact_write :                       (* one byte more than written is changed *)
  monitor cfg_v_wq10 [(OpIn O [18; 3; 0; 9; 8] 23, OBytes [19]); (OpVal O, OValue [9; 8; 0; 34] None)] = Some (1%nat, t_write_exact).
Proof. vm_compute. reflexivity. Qed.

Example C06_monitor_rejects_change_by_rejected_write :
  monitor cfg_v_wq10 [(OpIn O [18; 3; 0; 1; 2; 3; 4; 5] 23, OBytes [1; 18; 3; 0; 13]); (OpVal O, OValue [1; 2; 3; 4] None)]
  = Some (1%nat, t_rejected_changes).
Proof. vm_compute. reflexivity. Qed.

Example C06_monitor_rejects_missing_invalid_offset :
  monitor cfg_v_wq10 [(OpIn O [12; 3; 0; 5; 0] 23, OBytes [13])] = Some (0%nat, t_invalid_offset)
  /\ monitor cfg_v_wq10 [(OpIn O [12; 3; 0; 4; 0] 23, OBytes [1; 12; 3; 0; 7])] = Some (0%nat, t_invalid_offset).
Proof. split; vm_compute; reflexivity. Qed.

Example C06_monitor_rejects_write_to_protected_value :            (* handle 8: no_write_access *)
  monitor cfg_v_wq10 [(OpIn O [18; 8; 0; 1] 23, OBytes [19])] = Some (0%nat, t_permission).
Proof. vm_compute. reflexivity. Qed.

Example C06_monitor_rejects_wrong_properties :                    (* declaration of the no_write_access value shows Write *)
  monitor cfg_v_wq10 [(OpIn O [10; 7; 0] 23, OBytes [11; 10; 8; 0; 2; 42])] = Some (0%nat, t_properties_match).
Proof. vm_compute. reflexivity. Qed.

Example C06_monitor_rejects_unreadable_in_read_by_type :          (* cfg_v_perms: handle 3 = value with no_read_access *)
  monitor cfg_v_perms [(OpIn O [8; 1; 0; 255; 255; 0; 42] 23, OBytes [9; 4; 3; 0; 1; 38])] = Some (0%nat, t_permission).
Proof. vm_compute. reflexivity. Qed.
