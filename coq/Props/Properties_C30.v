(* C30  The interrupt-safe ring is a lossless FIFO under any interleaving.
   Statements only; proofs live in Ring/RingProofs.v.

   Model: Ring/RingModel.v. try_push and try_pop are cut at every memory access (two atomic loads,
   the non-atomic data_ access, the atomic store); an operation list / a schedule chooses which side
   performs its next access; sequentially consistent interleaving. All theorems hold for EVERY
   capacity S (also S = 0, the ring that accepts nothing), every number of operations and every
   schedule: they are proved by an invariant (forward simulation to the bounded FIFO kept by the
   monitor of Ring/RingSpec.v), not by enumeration. *)
From BT Require Import Base.ListX Ring.RingModel Ring.RingSpec Ring.RingProofs.

(* Every trace of the model is accepted by the monitor, i.e. under every interleaving
     - an element is published (store to write_ptr_) only while fewer than S elements are pending,
       and try_push returns true exactly when it published its argument,
     - try_push returns false only if S elements were pending during the call,
     - an element is consumed (store to read_ptr_) only if one is pending; try_pop returns true
       exactly when it consumed one, and the value it returns is the oldest pending element
       (so elements come out in push order, each at most once),
     - try_pop returns false only if nothing was pending during the call,
     - every data_ access is inside data_[0..S] and is ordered by happens-before (release at the
       stores, acquire at the loads of the two pointers) after the last conflicting access to the
       same slot by the other side: no data race,
     - no step faults. *)
Theorem C30_monitor_accepts_every_interleaving :
  forall (S : nat) (ops : list op), monitor S (run (init S) ops) = None.
Proof. exact monitor_accepts_model. Qed.
Print Assumptions C30_monitor_accepts_every_interleaving.

(* the same in the form of the property text: the producer pushes the values vals, the consumer
   calls try_pop npops times, sched is any interleaving of their memory accesses *)
Theorem C30_monitor_accepts_every_schedule :
  forall (S : nat) (vals : list N) (npops : nat) (sched : list bool),
    monitor S (run_sched S vals npops sched) = None.
Proof. exact monitor_accepts_schedules. Qed.
Print Assumptions C30_monitor_accepts_every_schedule.

(* lossless FIFO: what the successful try_pops returned is a prefix of what the successful
   try_pushes pushed (same order, nothing duplicated, nothing invented); the rest is the pending
   content, at most S elements *)
Theorem C30_popped_is_prefix_of_pushed :
  forall (S : nat) (ops : list op),
    exists q, pushed (run (init S) ops) = popped (run (init S) ops) ++ q /\
              pending (run (init S) ops) = q /\ length q <= S.
Proof. exact popped_prefix_of_pushed. Qed.
Print Assumptions C30_popped_is_prefix_of_pushed.

(* try_pop returns false only in its step "load of write_ptr_" (its linearisation point), and at
   that moment no pushed element is pending *)
Theorem C30_pop_fails_only_when_empty :
  forall (S : nat) (ops : list op) tr1 a tr2,
    run (init S) ops = tr1 ++ (OpC, Out a RFail) :: tr2 ->
    (exists x, a = LdW x) /\ pending tr1 = [] /\ pushed tr1 = popped tr1.
Proof. exact pop_fails_only_when_empty. Qed.
Print Assumptions C30_pop_fails_only_when_empty.

(* try_push returns false only if the ring held S elements at the call's linearisation point, its
   load of read_ptr_ (mid = the consumer's steps between the two loads of the failing call) *)
Theorem C30_push_fails_only_when_full :
  forall (S : nat) (ops : list op) tr1 v x mid v' a tr2,
    run (init S) ops = tr1 ++ (OpP v, Out (LdR x) RNone) :: mid ++ (OpP v', Out a RFail) :: tr2 ->
    consumer_only mid ->
    length (pending tr1) = S /\ length (pushed tr1) = length (popped tr1) + S.
Proof. exact push_fails_only_when_full. Qed.
Print Assumptions C30_push_fails_only_when_full.

(* data race freedom on states: whenever the producer's next access is the write of data_[ w ] and
   the consumer's next access is the read of data_[ r ], the slots differ (and are inside data_).
   Together with the happens-before clause of the monitor this is what makes the sequentially
   consistent semantics the C++11 semantics of the code (DRF-SC). *)
Theorem C30_data_race_free :
  forall (S : nat) (ops : list op) v w nxt r nxt',
    pp (final (init S) ops) = PGotW v w nxt ->
    cp (final (init S) ops) = CGotW r nxt' ->
    w <> r /\ w < S + 1 /\ r < S + 1.
Proof. exact data_race_free. Qed.
Print Assumptions C30_data_race_free.

Theorem C30_no_access_outside_data :
  forall (S : nat) (ops : list op), Forall (fun e => snd e <> OFault) (run (init S) ops).
Proof. exact model_never_faults. Qed.
Print Assumptions C30_no_access_outside_data.

(* the representation invariant of DESIGN.md 12.3: counters R <= W <= R + S, pointers = counters
   modulo S + 1, pending elements = data_[ R .. W ) *)
Theorem C30_ring_represents_fifo :
  forall (S : nat) (ops : list op),
    let st := final (init S) ops in
    let q := pending (run (init S) ops) in
    exists R W, R <= W <= R + S /\ rd st = R mod (S + 1) /\ wr st = W mod (S + 1) /\
                length q = W - R /\
                forall k, k < W - R -> nth k q 0%N = nth ((R + k) mod (S + 1)) (data st) 0%N.
Proof. exact ring_represents_fifo. Qed.
Print Assumptions C30_ring_represents_fifo.

(* what an accepting verdict of the monitor means for ANY observed trace (in particular the
   implementation's): the trace is one of a FIFO of capacity S, up to at most one element published
   by a try_push that has not returned yet and one consumed by a try_pop that has not returned yet *)
Theorem C30_monitor_sound :
  forall (S : nat) (tr : list (op * out)),
    monitor S tr = None ->
    exists inflight_push inflight_pop q,
      pushed tr ++ inflight_push = popped tr ++ inflight_pop ++ q /\
      length inflight_push <= 1 /\ length inflight_pop <= 1 /\ length q <= S.
Proof. exact monitor_sound_fifo. Qed.
Print Assumptions C30_monitor_sound.

(* ---- non-vacuity ---- *)
(* a run in which the two sides are interleaved inside their calls, the ring gets full, a push
   fails and pops succeed: the hypotheses of the two "fails only when" theorems are met *)
Example C30_failing_push_exists :
  exists tr1 mid tr2,
    run (init 1) [OpP 7; OpP 7; OpP 7; OpP 7; OpP 8; OpC; OpP 8; OpC; OpC; OpC]%N
    = tr1 ++ (OpP 8%N, Out (LdR 0) RNone) :: mid ++ (OpP 8%N, Out (LdW 1) RFail) :: tr2
    /\ consumer_only mid /\ popped tr2 = [7%N].
Proof.
  exists (run (init 1) [OpP 7; OpP 7; OpP 7; OpP 7]%N), [(OpC, Out (LdR 0) RNone)],
         [(OpC, Out (LdW 1) RNone); (OpC, Out (RdD 0 7%N) RNone); (OpC, Out (StR 1) (RPopOk 7%N))].
  vm_compute. repeat split. repeat constructor.
Qed.

Example C30_failing_pop_exists :
  run (init 2) [OpC; OpP 5%N; OpC] =
  [(OpC, Out (LdR 0) RNone); (OpP 5%N, Out (LdR 0) RNone)] ++ (OpC, Out (LdW 0) RFail) :: [].
Proof. vm_compute. reflexivity. Qed.

Example C30_schedule_form_runs :
  popped (run_sched 2 [1; 2; 3]%N 3 (repeat true 8 ++ repeat false 4 ++ repeat true 4 ++ repeat false 8))
  = [1; 2; 3]%N.
Proof. vm_compute. reflexivity. Qed.

Example C30_race_hypotheses_reachable :
  exists v w nxt r nxt',
    pp (final (init 2) [OpP 1; OpP 1; OpP 1; OpP 1; OpC; OpC; OpP 2; OpP 2]%N) = PGotW v w nxt /\
    cp (final (init 2) [OpP 1; OpP 1; OpP 1; OpP 1; OpC; OpC; OpP 2; OpP 2]%N) = CGotW r nxt'.
Proof. vm_compute. repeat eexists. Qed.

(* the monitor is not trivially accepting *)
(* lost element: the second push is reported as successful but pop then says "empty" *)
Example C30_monitor_rejects_lost_element :
  monitor 2 [(OpP 1%N, Out (LdR 0) RNone); (OpP 1%N, Out (LdW 0) RNone); (OpP 1%N, Out (WrD 0 1%N) RNone);
             (OpP 1%N, Out (StW 1) RPushOk); (OpC, Out (LdR 0) RNone); (OpC, Out (LdW 0) RFail)]
  = Some (5, t_pop_fail_not_empty).
Proof. vm_compute. reflexivity. Qed.

(* reordering: 2 comes out before 1 *)
Example C30_monitor_rejects_reordering :
  monitor 2 [(OpP 1%N, Out (LdR 0) RNone); (OpP 1%N, Out (LdW 0) RNone); (OpP 1%N, Out (WrD 0 1%N) RNone);
             (OpP 1%N, Out (StW 1) RPushOk);
             (OpP 2%N, Out (LdR 0) RNone); (OpP 2%N, Out (LdW 1) RNone); (OpP 2%N, Out (WrD 1 2%N) RNone);
             (OpP 2%N, Out (StW 2) RPushOk);
             (OpC, Out (LdR 0) RNone); (OpC, Out (LdW 2) RNone); (OpC, Out (RdD 1 2%N) RNone);
             (OpC, Out (StR 1) (RPopOk 2%N))]
  = Some (11, t_pop_value).
Proof. vm_compute. reflexivity. Qed.

(* push refused although only one of two places is taken *)
Example C30_monitor_rejects_early_full :
  monitor 2 [(OpP 1%N, Out (LdR 0) RNone); (OpP 1%N, Out (LdW 0) RNone); (OpP 1%N, Out (WrD 0 1%N) RNone);
             (OpP 1%N, Out (StW 1) RPushOk); (OpP 2%N, Out (LdR 0) RNone); (OpP 2%N, Out (LdW 1) RFail)]
  = Some (5, t_push_fail_not_full).
Proof. vm_compute. reflexivity. Qed.

(* a third element accepted by a ring of capacity 2 *)
Example C30_monitor_rejects_overflow :
  monitor 1 [(OpP 1%N, Out (LdR 0) RNone); (OpP 1%N, Out (LdW 0) RNone); (OpP 1%N, Out (WrD 0 1%N) RNone);
             (OpP 1%N, Out (StW 1) RPushOk);
             (OpP 2%N, Out (LdR 0) RNone); (OpP 2%N, Out (LdW 1) RNone); (OpP 2%N, Out (WrD 1 2%N) RNone);
             (OpP 2%N, Out (StW 0) RPushOk)]
  = Some (7, t_push_overflow).
Proof. vm_compute. reflexivity. Qed.

(* write_ptr_ published before the element is written: the consumer's read of the slot and the
   producer's late write are not ordered *)
Example C30_monitor_rejects_data_race :
  monitor 2 [(OpP 1%N, Out (LdR 0) RNone); (OpP 1%N, Out (LdW 0) RNone); (OpP 1%N, Out (StW 1) RNone);
             (OpC, Out (LdR 0) RNone); (OpC, Out (LdW 1) RNone); (OpC, Out (RdD 0 0%N) RNone);
             (OpP 1%N, Out (WrD 0 1%N) RPushOk)]
  = Some (6, t_data_race).
Proof. vm_compute. reflexivity. Qed.

Example C30_monitor_rejects_fault :
  monitor 2 [(OpP 1%N, Out (LdR 0) RNone); (OpP 1%N, OFault)] = Some (1, t_fault).
Proof. vm_compute. reflexivity. Qed.

(* constants and the access order regenerated from ring.hpp on every run are the model's *)
From BT Require gen.GenRing.
Example C30_source_shape_is_the_models :
  GenRing.length_minus_S = 1%N /\
  GenRing.push_accesses = map out_code (run (init 2) [OpP 7; OpP 7; OpP 7; OpP 7]%N) /\
  GenRing.pop_accesses = map out_code (skipn 4 (run (init 2) [OpP 7; OpP 7; OpP 7; OpP 7; OpC; OpC; OpC; OpC]%N)) /\
  GenRing.push_next_is_succ_mod_length = true /\ GenRing.push_full_test_is_next_eq_read = true /\
  GenRing.pop_empty_test_is_read_eq_write = true /\ GenRing.pop_next_is_succ_mod_length = true /\
  GenRing.data_has_length_elements = true.
Proof. vm_compute. repeat split; reflexivity. Qed.
