(* C31  L2CAP channel multiplexing and signaling are well behaved.  Statements only; proofs in
   L2cap/L2capProofs.v.  The model (L2cap/L2capModel.v) transcribes bluetoe/l2cap.hpp and
   l2cap_signaling_channel.hpp after the repair fix/C31-signaling-response-match. *)
From BT Require Import Base.ListX L2cap.L2capModel L2cap.L2capSpec L2cap.L2capProofs.
Local Open Scope N_scope.

(* The full statement: for every well-formed configuration (any list of channels with distinct 16 bit
   CIDs, with or without the signaling channel, any number of link layer buffers) and every history of
   L2CAP frames (any bytes, any length), connection parameter update requests, output polls and buffer
   releases, of any length, the specification monitor accepts the trace:
     deliver_cid / deliver_len / unknown_dropped / consumed
        a frame is handed to exactly the channel its CID names, with exactly its payload, iff it has the
        4 byte header, its length field equals its payload length and the link layer has an output
        buffer (otherwise it is refused unconsumed, or dropped);
     reply_cid / reply_fits
        a reply carries the request's CID, asynchronous frames carry a configured CID, every committed
        frame has a correct length field, fits maximum_mtu_size + 4, never more frames than buffers,
        and nothing faults;
     sig_once / sig_match / sig_id_nonzero / sig_id_advances / sig_reject
        a request is accepted iff none is queued or outstanding, transmitted exactly once by the next
        poll that has a buffer, with a non-zero identifier that is the successor (skipping 0) of the
        previous request's; only a response with that identifier, 6 bytes and length field 2 completes
        it, responses are never answered; every other command is answered with Command Reject echoing
        its non-zero identifier, commands with identifier 0 or shorter than 2 bytes with silence. *)
Theorem C31_l2cap_well_behaved :
  forall (c : cfg) (ops : list op), wf c -> monitor c (run c (init c) ops) = None.
Proof. exact monitor_accepts. Qed.
Print Assumptions C31_l2cap_well_behaved.

(* memory safety: no operation of any history ends in an access outside the allocated buffer
   (channel writes at offset 4, header at 0..3, commit of out_size + 4 bytes) or in a failing assert *)
Theorem C31_never_faults :
  forall (c : cfg) (ops : list op) (o : op) (r : out),
    wf c -> List.In (o, r) (run c (init c) ops) -> r <> OFault.
Proof. exact never_faults. Qed.
Print Assumptions C31_never_faults.

(* the signaling channel on its own (any state with an outstanding request, any PDU, any buffer):
   exactly the matching responses complete the request and advance the identifier *)
Theorem C31_only_matching_response_completes :
  forall (ss : sigst) (input buf : list N) (osz : N),
    pend ss = Transmitted -> 6 <= osz -> (N.to_nat osz + 4 <= length buf)%nat ->
    exists ss' b o, sig_input ss input buf (N.to_nat hdr) osz = CRes (SSig ss') b o /\
      if (first_byte input =? code_cpu_rsp) && matching_response (ident ss) input
      then pend ss' = Idle /\ ident ss' = succ_id (ident ss) /\ o = 0
      else ss' = ss.
Proof. exact sig_response_exact. Qed.
Print Assumptions C31_only_matching_response_completes.

Theorem C31_request_transmitted_once :
  forall (ss : sigst) (buf : list N) (osz : N),
    12 <= osz -> (N.to_nat osz + 4 <= length buf)%nat ->
    exists ss' b o, sig_output ss buf (N.to_nat hdr) osz = CRes (SSig ss') b o /\
      match pend ss with
      | Queued => pend ss' = Transmitted /\ ident ss' = ident ss /\ o = 12 /\
                  firstn 12 (skipn 4 b) = [code_cpu_req; ident ss; 8; 0] ++ param_bytes (p_imin ss) (p_imax ss) (p_lat ss) (p_tmo ss)
      | _ => ss' = ss /\ o = 0 /\ b = buf
      end.
Proof. exact sig_output_once. Qed.
Print Assumptions C31_request_transmitted_once.

Theorem C31_identifier_successor_nonzero : forall i : N, 0 < succ_id i < 256.
Proof. exact succ_id_range. Qed.
Print Assumptions C31_identifier_successor_nonzero.

(* ---- non-vacuity *)
Definition cfg1 : cfg := mkcfg [mkchan KEcho 4 23; sig_chan; mkchan KAsync 6 40] 3.
Definition cfgE : cfg := mkcfg [mkchan KEcho 4 23; sig_chan] 2.

Example C31_wf_satisfiable : wf cfg1 /\ wf cfgE /\ wf (mkcfg [mkchan KSilent 4 0] 1).
Proof. repeat split; apply wfb_sound; vm_compute; reflexivity. Qed.

(* what the model does on a concrete history: echo reply, truncation to maximum_mtu_size is not needed
   here, Command Reject, request / wrong response / matching response / next identifier, asynchronous output *)
Example C31_model_run :
  run cfg1 (init cfg1)
    [In [2; 0; 4; 0; 7; 8]; In [2; 0; 5; 0; 20; 9]; Req 6 12 0 100; Req 1 1 1 1; Poll;
     In [6; 0; 5; 0; 19; 2; 2; 0; 0; 0]; Req 1 1 1 1; Free 3; In [6; 0; 5; 0; 19; 1; 2; 0; 0; 0]; Req 7 7 7 7;
     In [1; 0; 6; 0; 55]; Poll; In [1; 0; 9; 0; 1]; In [3; 0; 4; 0; 1]; In [1; 0; 4]] =
    [(In [2; 0; 4; 0; 7; 8], OIn true [(4, [7; 8])] [[2; 0; 4; 0; 7; 8]]);
     (In [2; 0; 5; 0; 20; 9], OIn true [(5, [20; 9])] [[6; 0; 5; 0; 1; 9; 2; 0; 0; 0]]);
     (Req 6 12 0 100, OReq true); (Req 1 1 1 1, OReq false);
     (Poll, OPoll [[12; 0; 5; 0; 18; 1; 8; 0; 6; 0; 12; 0; 0; 0; 100; 0]]);
     (In [6; 0; 5; 0; 19; 2; 2; 0; 0; 0], OIn false [] []);
     (Req 1 1 1 1, OReq false); (Free 3, OFree 3);
     (In [6; 0; 5; 0; 19; 1; 2; 0; 0; 0], OIn true [(5, [19; 1; 2; 0; 0; 0])] []);
     (Req 7 7 7 7, OReq true);
     (In [1; 0; 6; 0; 55], OIn true [(6, [55])] []);
     (Poll, OPoll [[12; 0; 5; 0; 18; 2; 8; 0; 7; 0; 7; 0; 7; 0; 7; 0]; [1; 0; 6; 0; 55]]);
     (In [1; 0; 9; 0; 1], OIn true [] []); (In [3; 0; 4; 0; 1], OIn true [] []); (In [1; 0; 4], OIn true [] [])].
Proof. vm_compute. reflexivity. Qed.

Example C31_identifier_wraps_past_zero : succ_id 254 = 255 /\ succ_id 255 = 1 /\ next_ident 255 = 1 /\ succ_id 1 = 2.
Proof. vm_compute. repeat split; reflexivity. Qed.

(* the monitor is not trivially accepting: one rejected trace per clause.
   sig_match is the behaviour of the code before the repair (witness corpus/C31/witnesses.trace, replayed
   on the implementation): a one byte 0x13 PDU completed the outstanding request *)
Definition reqf (i : N) : list N := [12; 0; 5; 0; 18; i; 8; 0; 6; 0; 12; 0; 0; 0; 100; 0].
Example C31_monitor_rejects_unmatched_response_completing :
  monitor cfgE [(Req 6 12 0 100, OReq true); (Poll, OPoll [reqf 1]);
                (In [1; 0; 5; 0; 19], OIn true [(5, [19])] []); (Req 6 12 0 100, OReq true)]
  = Some (3%nat, t_sig_match).
Proof. vm_compute. reflexivity. Qed.
Example C31_monitor_rejects_wrong_channel :
  monitor cfgE [(In [1; 0; 4; 0; 7], OIn true [(5, [7])] [])] = Some (0%nat, t_deliver_cid).
Proof. vm_compute. reflexivity. Qed.
Example C31_monitor_rejects_length_mismatch_delivered :
  monitor cfgE [(In [2; 0; 4; 0; 7], OIn true [(4, [7])] [])] = Some (0%nat, t_deliver_len).
Proof. vm_compute. reflexivity. Qed.
Example C31_monitor_rejects_refusal_with_free_buffer :
  monitor cfgE [(In [1; 0; 4; 0; 7], OIn false [] [])] = Some (0%nat, t_consumed).
Proof. vm_compute. reflexivity. Qed.
Example C31_monitor_rejects_reply_on_other_cid :
  monitor cfgE [(In [1; 0; 4; 0; 7], OIn true [(4, [7])] [[1; 0; 5; 0; 7]])] = Some (0%nat, t_reply_cid).
Proof. vm_compute. reflexivity. Qed.
Example C31_monitor_rejects_oversized_reply :
  monitor cfgE [(In [1; 0; 4; 0; 7], OIn true [(4, [7])] [[24; 0; 4; 0] ++ repeat 7 24])] = Some (0%nat, t_reply_fits)
  /\ monitor cfgE [(In [1; 0; 4; 0; 7], OFault)] = Some (0%nat, t_reply_fits)
  /\ monitor cfgE [(Poll, OFault)] = Some (0%nat, t_reply_fits).
Proof. vm_compute. repeat split; reflexivity. Qed.
Example C31_monitor_rejects_unknown_cid_delivered :
  monitor cfgE [(In [1; 0; 9; 0; 7], OIn true [(9, [7])] [])] = Some (0%nat, t_unknown_dropped).
Proof. vm_compute. reflexivity. Qed.
Example C31_monitor_rejects_second_request_and_retransmission :
  monitor cfgE [(Req 6 12 0 100, OReq true); (Req 6 12 0 100, OReq true)] = Some (1%nat, t_sig_once)
  /\ monitor cfgE [(Req 6 12 0 100, OReq true); (Poll, OPoll [reqf 1]); (Poll, OPoll [reqf 1])] = Some (2%nat, t_sig_once)
  /\ monitor cfgE [(Req 6 12 0 100, OReq true); (Poll, OPoll [])] = Some (1%nat, t_sig_once).
Proof. vm_compute. repeat split; reflexivity. Qed.
Example C31_monitor_rejects_identifier_zero :
  monitor cfgE [(Req 6 12 0 100, OReq true); (Poll, OPoll [reqf 0])] = Some (1%nat, t_sig_id_nonzero).
Proof. vm_compute. reflexivity. Qed.
Example C31_monitor_rejects_identifier_not_advancing :
  monitor cfgE [(Req 6 12 0 100, OReq true); (Poll, OPoll [reqf 1]);
                (In [6; 0; 5; 0; 19; 1; 2; 0; 0; 0], OIn true [(5, [19; 1; 2; 0; 0; 0])] []);
                (Free 1, OFree 2); (Req 6 12 0 100, OReq true); (Poll, OPoll [reqf 1])]
  = Some (5%nat, t_sig_id_advances).
Proof. vm_compute. reflexivity. Qed.
Example C31_monitor_rejects_missing_or_zero_reject :
  monitor cfgE [(In [2; 0; 5; 0; 20; 7], OIn true [(5, [20; 7])] [])] = Some (0%nat, t_sig_reject)
  /\ monitor cfgE [(In [2; 0; 5; 0; 20; 7], OIn true [(5, [20; 7])] [[6; 0; 5; 0; 1; 0; 2; 0; 0; 0]])] = Some (0%nat, t_sig_reject)
  /\ monitor cfgE [(In [2; 0; 5; 0; 20; 0], OIn true [(5, [20; 0])] [[6; 0; 5; 0; 1; 0; 2; 0; 0; 0]])] = Some (0%nat, t_sig_reject).
Proof. vm_compute. repeat split; reflexivity. Qed.

(* constants regenerated from l2cap.hpp / l2cap_channels.hpp / l2cap_signaling_channel.hpp / codes.hpp on
   every run, pinned to the values the model uses (response_pdu_size / response_data_length exist only
   in a tree that contains the repair) *)
From BT Require gen.GenL2cap.
Example C31_constants_are_the_codes :
  GenL2cap.l2cap_layer_header_size = hdr /\ GenL2cap.cid_att = cid_att /\ GenL2cap.cid_signaling = cid_sig /\
  GenL2cap.cid_sm = cid_sm /\ GenL2cap.command_reject_code = code_reject /\
  GenL2cap.connection_parameter_update_request_code = code_cpu_req /\
  GenL2cap.connection_parameter_update_response_code = code_cpu_rsp /\
  GenL2cap.invalid_identifier = 0 /\ GenL2cap.default_att_mtu_size = sig_mtu /\
  GenL2cap.request_pdu_size = req_pdu_size /\ GenL2cap.reject_pdu_size = rej_pdu_size /\
  GenL2cap.initial_identifier = 1 /\ GenL2cap.alloc_calls_with_maximum_mtu_size = 2 /\
  GenL2cap.response_pdu_size = Some rsp_pdu_size /\ GenL2cap.response_data_length = Some rsp_data_len.
Proof. repeat split; reflexivity. Qed.
