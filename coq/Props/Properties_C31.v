(* C31 placeholder while the proofs are being written *)
From BT Require Import Base.ListX L2cap.L2capModel L2cap.L2capSpec.
From BT Require gen.GenL2cap.
Local Open Scope N_scope.
Example C31_constants : GenL2cap.l2cap_layer_header_size = hdr.
Proof. reflexivity. Qed.
