(* C13  Notification requests from interrupt context are never lost.
   "A notification or indication requested from an interrupt or another thread while the link
    layer is dequeuing pending requests is neither lost nor duplicated, whatever the
    interleaving, as promised by server::notify()."  Quantifier: all interleavings, at single
   memory-access granularity, of one producer with the consumer on the same queue byte.
   Statements only; the model and monitor are NQueue/NQueueSched.v, proofs NQueue/NQueueSchedProofs.v.

   A run is: programs for both contexts (pops: queue_notification / queue_indication requests,
   cops: dequeue_indication_or_confirmation / indication_confirmed) and a schedule (list bool,
   true = one micro-step of the producer, false = one of the consumer); `program` turns them
   into the operation list of the model. The monitor (smonitor) accepts a run iff every queue_*
   returns true exactly when the request was not pending, every dequeued request was pending,
   every store leaves the byte equal to the pending requests (nothing lost, nothing resurrected)
   and the final queue content is the set of pending requests. *)
From BT Require Import Base.ListX Base.Bits2 NQueue.NQueueModel NQueue.NQueueSpec NQueue.NQueueProofs NQueue.NQueueSched NQueue.NQueueSchedProofs NQueue.NQueueSchedSeq.

(* ---- the property as stated: every schedule, free interleaving *)
Definition C13_full : Prop :=
  forall (sizes : list nat) (pops : list (kind * nat)) (cops : list cop) (sched : list bool),
    wf_sizes sizes ->
    smonitor sizes (srun (sinit sizes) (program pops cops sched)) = None.

(* ---- the same restricted to single-core schedules in which the producer is an interrupt
   handler that runs to completion (it preempts the consumer between any two of its micro-steps) *)
Definition C13_full_isr : Prop :=
  forall (sizes : list nat) (pops : list (kind * nat)) (cops : list cop) (sched : list bool),
    wf_sizes sizes ->
    guarded g_isr (sinit sizes) (program pops cops sched) = true ->
    smonitor sizes (srun (sinit sizes) (program pops cops sched)) = None.

(* ---- ... and to a queue that consists of one level of size 1 (one byte of flags) *)
Definition C13_full_isr_size1 : Prop :=
  forall (pops : list (kind * nat)) (cops : list cop) (sched : list bool),
    guarded g_isr (sinit [1%nat]) (program pops cops sched) = true ->
    smonitor [1%nat] (srun (sinit [1%nat]) (program pops cops sched)) = None.

(* The witness: characteristic 0 is pending; the consumer's remove( 0 ) loads the byte; a complete
   add( 1 ) of the producer (same byte) returns true; the consumer stores the stale byte. *)
Definition w_pops : list (kind * nat) := [(KNotif, 0%nat); (KNotif, 1%nat)].
Definition w_cops : list cop := [CDeq].
Definition w_sched : list bool := [true; true; true; false; false; true; true; true; false].

Example C13_witness_run :
  srun (sinit [4%nat]) (program w_pops w_cops w_sched) =
  [ (PushP KNotif 0, OAck); (PushP KNotif 1, OAck); (PushC CDeq, OAck);
    (StepP, OStep (ALoad (0, 0)%nat 0) RNone); (StepP, OStep (ALoad (0, 0)%nat 0) RNone);
    (StepP, OStep (AStore (0, 0)%nat 1) (RBool true));          (* queue_notification( 0 ) = true *)
    (StepC, OStep (ALoad (0, 0)%nat 1) RNone);                  (* at( 0 ) *)
    (StepC, OStep (ALoad (0, 0)%nat 1) RNone);                  (* remove( 0 ): load *)
    (StepP, OStep (ALoad (0, 0)%nat 1) RNone); (StepP, OStep (ALoad (0, 0)%nat 1) RNone);
    (StepP, OStep (AStore (0, 0)%nat 5) (RBool true));          (* queue_notification( 1 ) = true *)
    (StepC, OStep (AStore (0, 0)%nat 0) (REntry (Some (KNotif, 0%nat))));   (* remove( 0 ): store *)
    (Fin, OFinal [[0%N]] [1%nat] None) ].                       (* request 1 is gone *)
Proof. vm_compute. reflexivity. Qed.

Example C13_witness_is_isr_disciplined :
  guarded g_isr (sinit [4%nat]) (program w_pops w_cops w_sched) = true.
Proof. vm_compute. reflexivity. Qed.

Example C13_witness_lost :
  smonitor [4%nat] (srun (sinit [4%nat]) (program w_pops w_cops w_sched)) = Some (11%nat, (t_lost + 10)%nat).
Proof. vm_compute. reflexivity. Qed.

Theorem C13_refuted : ~ C13_full.
Proof.
  intros H. specialize (H [4%nat] w_pops w_cops w_sched ltac:(repeat constructor)).
  rewrite C13_witness_lost in H. discriminate H.
Qed.
Print Assumptions C13_refuted.

Theorem C13_refuted_isr : ~ C13_full_isr.
Proof.
  intros H. specialize (H [4%nat] w_pops w_cops w_sched ltac:(repeat constructor) C13_witness_is_isr_disciplined).
  rewrite C13_witness_lost in H. discriminate H.
Qed.
Print Assumptions C13_refuted_isr.

(* size 1 (after the fix of C12 the level is one byte updated with |= and &= ~): the notification
   requested while the indication of the same characteristic is being removed is lost *)
Definition w1_pops : list (kind * nat) := [(KInd, 0%nat); (KNotif, 0%nat)].
Example C13_size1_witness :
  guarded g_isr (sinit [1%nat]) (program w1_pops w_cops w_sched) = true /\
  smonitor [1%nat] (srun (sinit [1%nat]) (program w1_pops w_cops w_sched)) = Some (11%nat, (t_lost + 10)%nat).
Proof. vm_compute. split; reflexivity. Qed.

Theorem C13_size1_refuted : ~ C13_full_isr_size1.
Proof.
  intros H. destruct C13_size1_witness as [G W]. specialize (H w1_pops w_cops w_sched G).
  rewrite W in H. discriminate H.
Qed.
Print Assumptions C13_size1_refuted.

(* under free interleaving (the consumer may also preempt the producer) a request can in addition
   be resurrected, i.e. delivered twice: add( 1 ) loads, a complete dequeue of 0, add( 1 ) stores *)
Example C13_refuted_free_dup :
  smonitor [4%nat] (srun (sinit [4%nat])
     (program w_pops w_cops [true; true; true; true; true; false; false; false; true]))
  = Some (11%nat, (t_dup + 10)%nat).
Proof. vm_compute. reflexivity. Qed.

(* ---- what does hold (unbounded: all level sizes >= 1, all programs, all schedules, and more
   generally all operation lists, i.e. requests may also be issued while the run is going on) *)

(* the queue never misbehaves except through a store in a load..store window that contains a
   store of the other context to the same byte: the first violation, if any, has an overlap tag.
   (This is also what makes bin/check report nothing but the known finding on the unchanged code.) *)
Theorem C13_only_overlapping_windows_fail :
  forall (sizes : list nat) (ops : list sop),
    wf_sizes sizes ->
    match smonitor sizes (srun (sinit sizes) ops) with None => True | Some (_, t) => (10 < t)%nat end.
Proof. exact monitor_only_overlap. Qed.
Print Assumptions C13_only_overlapping_windows_fail.

(* C13_partial: no request is lost or duplicated in any run in which the read-modify-write
   sequences of the two contexts on a byte do not overlap.
   Missing w.r.t. C13_full: runs with overlapping windows (they exist: C13_refuted). *)
Theorem C13_partial :
  forall (sizes : list nat) (ops : list sop),
    wf_sizes sizes -> overlap_free (srun (sinit sizes) ops) = true ->
    smonitor sizes (srun (sinit sizes) ops) = None.
Proof. exact overlap_free_accepts. Qed.
Print Assumptions C13_partial.

Theorem C13_partial_schedules :
  forall (sizes : list nat) (pops : list (kind * nat)) (cops : list cop) (sched : list bool),
    wf_sizes sizes -> overlap_free (srun (sinit sizes) (program pops cops sched)) = true ->
    smonitor sizes (srun (sinit sizes) (program pops cops sched)) = None.
Proof. intros sizes pops cops sched. exact (overlap_free_accepts sizes (program pops cops sched)). Qed.
Print Assumptions C13_partial_schedules.

(* single core, producer = interrupt handler, and the consumer masks interrupts around the
   load/store pair of remove() (nothing else needs protection; the scan may be interrupted) *)
Theorem C13_partial_isr_irqoff :
  forall (sizes : list nat) (ops : list sop),
    wf_sizes sizes ->
    guarded (fun s o => g_isr s o && g_irqoff s o) (sinit sizes) ops = true ->
    smonitor sizes (srun (sinit sizes) ops) = None.
Proof. exact safe_discipline_accepts. Qed.
Print Assumptions C13_partial_isr_irqoff.

(* whole operations mutually exclusive (a lock around queue_* and around dequeue) *)
Theorem C13_partial_lock :
  forall (sizes : list nat) (ops : list sop),
    wf_sizes sizes -> guarded g_lock (sinit sizes) ops = true ->
    smonitor sizes (srun (sinit sizes) ops) = None.
Proof. exact lock_accepts. Qed.
Print Assumptions C13_partial_lock.

(* ---- the lock discipline IS the sequential model of C12 (unbounded: all partitions with levels
   >= 1, all sequences of queue_notification / queue_indication / dequeue / indication_confirmed
   of any length; clear_indications_and_confirmations is not part of the micro-step semantics).
   seq_prog F ops pushes one operation at a time and gives its context F micro-steps (F at least
   fuel_for sizes = sum of the sizes + number of levels + 3; steps after the end of the operation
   are idle). Such a run obeys g_lock, ends in exactly the state of NQueueModel.final (both contexts
   idle, nothing left to do) and its completed operations return exactly NQueueModel.run's outputs,
   in order. *)
Theorem C13_lock_discipline_is_the_C12_model :
  forall (sizes : list nat) (ops : list op) (F : nat),
    wf_sizes sizes -> no_clear ops = true -> (fuel_for sizes <= F)%nat ->
    guarded g_lock (sinit sizes) (seq_prog F ops) = true /\
    sfinal (sinit sizes) (seq_prog F ops) = qs (final (init sizes) ops) /\
    map out_of_ret (rets (srun (sinit sizes) (seq_prog F ops))) = map snd (run (init sizes) ops).
Proof. exact lock_discipline_is_sequential_model. Qed.
Print Assumptions C13_lock_discipline_is_the_C12_model.

(* C13_partial_lock resting on C12's theorem (NQueueProofs.monitor_accepts_model) instead of the
   C13 invariant: what the two contexts observe in a lock-disciplined run is accepted by the C12
   monitor - queue_* returns true exactly when the request was not pending, every dequeued request
   was pending and is removed (so each accepted request is dequeued exactly once: nothing lost,
   nothing duplicated), no indication while one is outstanding, priorities and round robin. *)
Theorem C13_partial_lock_from_C12 :
  forall (sizes : list nat) (ops : list op) (F : nat),
    wf_sizes sizes -> no_clear ops = true -> (fuel_for sizes <= F)%nat ->
    monitor sizes (combine ops (map out_of_ret (rets (srun (sinit sizes) (seq_prog F ops))))) = None.
Proof. exact lock_discipline_accepted_by_C12_monitor. Qed.
Print Assumptions C13_partial_lock_from_C12.

Example C13_lock_program_nonvacuous :
  let ops := [QueueN 0; QueueI 3; QueueN 5; Dequeue; Dequeue; Confirm; QueueN 6; Dequeue; Dequeue]%nat in
  fuel_for [3; 1; 2]%nat = 12%nat /\ no_clear ops = true /\
  map out_of_ret (rets (srun (sinit [3; 1; 2]%nat) (seq_prog 12 ops))) =
  [OBool true; OBool true; OBool true; OEntry (Some (KNotif, 0%nat)); OEntry (Some (KInd, 3%nat)); OUnit;
   OBool false; OEntry (Some (KNotif, 5%nat)); OEntry None].
Proof. vm_compute. repeat split; reflexivity. Qed.

(* ---- non-vacuity *)
(* a non-trivial run satisfies the hypotheses of the partial theorems: three levels (one of size
   1), the producer interrupts the consumer's scan twice, requests are delivered *)
Definition nv_ops : list sop :=
  program [(KNotif, 0%nat); (KInd, 3%nat); (KNotif, 5%nat)] [CDeq; CDeq; CConf; CDeq; CDeq]
          [true; true; true; false; true; true; true; false; false; false; false; true; true; true;
           false; false; false; false; false; false; false; false; false; false; false; false; false; false;
           false; false; false; false; false; false; false; false].
Example C13_partial_nonvacuous :
  wf_sizes [3; 1; 2]%nat /\
  guarded (fun s o => g_isr s o && g_irqoff s o) (sinit [3; 1; 2]%nat) nv_ops = true /\
  overlap_free (srun (sinit [3; 1; 2]%nat) nv_ops) = true /\
  guarded g_lock (sinit [3; 1; 2]%nat) nv_ops = false /\
  map snd (filter (fun x => match snd x with OStep _ (REntry _) => true | _ => false end)
                  (srun (sinit [3; 1; 2]%nat) nv_ops))
  = [OStep (AStore (0, 0)%nat 0) (REntry (Some (KNotif, 0%nat)));
     OStep (AStore (1, 0)%nat 0) (REntry (Some (KInd, 3%nat)));
     OStep (AStore (2, 0)%nat 0) (REntry (Some (KNotif, 5%nat)));
     OStep (ALoad (2, 0)%nat 0) (REntry None)].
Proof. split; [repeat constructor|]. vm_compute. repeat split; reflexivity. Qed.

(* the monitor is not trivially accepting, and it separates overlap from non-overlap failures:
   a store that drops / adds a bit without any interference gets the plain tag *)
Example C13_monitor_rejects_lost_without_overlap :
  smonitor [4%nat] [ (PushP KNotif 1, OAck); (StepP, OStep (ALoad (0, 0)%nat 0) RNone);
                     (StepP, OStep (ALoad (0, 0)%nat 0) RNone);
                     (StepP, OStep (AStore (0, 0)%nat 0) (RBool true)) ] = Some (3%nat, t_lost).
Proof. vm_compute. reflexivity. Qed.

Example C13_monitor_rejects_dup_without_overlap :
  smonitor [4%nat] [ (PushP KNotif 1, OAck); (StepP, OStep (ALoad (0, 0)%nat 0) RNone);
                     (StepP, OStep (ALoad (0, 0)%nat 0) RNone);
                     (StepP, OStep (AStore (0, 0)%nat 12) (RBool true)) ] = Some (3%nat, t_dup).
Proof. vm_compute. reflexivity. Qed.

Example C13_monitor_rejects_wrong_return :
  smonitor [4%nat] [ (PushP KNotif 1, OAck); (StepP, OStep (ALoad (0, 0)%nat 0) RNone);
                     (StepP, OStep (ALoad (0, 0)%nat 0) RNone);
                     (StepP, OStep (AStore (0, 0)%nat 4) (RBool false)) ] = Some (3%nat, t_ret).
Proof. vm_compute. reflexivity. Qed.

Example C13_monitor_rejects_phantom_dequeue :
  smonitor [4%nat] [ (PushC CDeq, OAck); (StepC, OStep (ALoad (0, 0)%nat 0) RNone);
                     (StepC, OStep (ALoad (0, 0)%nat 0) RNone);
                     (StepC, OStep (AStore (0, 0)%nat 0) (REntry (Some (KNotif, 2%nat)))) ] = Some (3%nat, t_deq).
Proof. vm_compute. reflexivity. Qed.

Example C13_monitor_rejects_wrong_final_content :
  smonitor [4%nat] [ (Fin, OFinal [[1%N]] [0%nat] None) ] = Some (0%nat, t_final).
Proof. vm_compute. reflexivity. Qed.

(* cross-check by computation: executed one whole operation at a time, the micro-step model ends
   in the state of the sequential model of C12 (same levels, same outstanding confirmation) *)
Example C13_atomic_execution_is_the_C12_model :
  let ops := [QueueN 0; QueueI 3; QueueN 3; QueueI 5; QueueN 6; QueueN 2; Dequeue; QueueN 0; Dequeue; Dequeue;
              Confirm; Dequeue; QueueI 4; Dequeue; Dequeue; QueueN 7; Dequeue; Dequeue; Dequeue]%nat in
  forallb (fun sizes =>
     let a := atomic_run 40 sizes ops in let b := final (init sizes) ops in
     levels_eqb (map lbytes (mem a)) (map lbytes (levels b)) &&
     bytes_eqb (map N.of_nat (map lnxt (mem a))) (map N.of_nat (map lnxt (levels b))) &&
     match outst a, outstanding b with Some x, Some y => Nat.eqb x y | None, None => true | _, _ => false end)
    [[8]; [3; 1; 2; 2]; [1; 1; 6]; [5; 3]; [1; 7]]%nat = true.
Proof. vm_compute. reflexivity. Qed.

(* constants regenerated from notification_queue.hpp on every run *)
From BT Require gen.GenNQueue.
Example C13_constants_are_the_codes :
  GenNQueue.bits_per_characteristc = 2%N /\ GenNQueue.notification_bit = kbit KNotif /\ GenNQueue.indication_bit = kbit KInd.
Proof. repeat split; reflexivity. Qed.
