(* C22  Connection event timing and supervision follow the connection parameters.  Statements only; proofs in LL/LLProofs.v. *)
From Coq Require Import String.
From BT Require Import Base.ListX LL.LLModel LL.LLSpec LL.LLSpecC22 LL.LLProofs LL.LLProofsC22Sim.
From BT Require gen.GenLL ChanMap.ChanMapModel LL.LLSpecC21.
Import ListNotations.
Local Open Scope N_scope.

(* 1. ANCHORS.  After a connection event the next one is planned k whole intervals after the anchor, 1 <= k <= latency + 1
   (event counter and channel index advance by the same k); after a missed event one interval later. Unbounded in the
   state, the event flags and the pending instant. (The second hypothesis excludes a 32 bit wrap of latency * interval; it
   holds for every parameter set check_timing_paremeters() accepts: 500 * 4 s < 2^32 us.) *)
Theorem C22_anchor_after_event :
  forall c s e s',
    latency (tm s) <= 499 -> interval (tm s) * (latency (tm s) + 1) < 4294967296 ->
    plan_next_connection_event c s e = Some s' ->
    exists k, 1 <= k /\ k <= latency (tm s) + 1 /\ tsle (cs s') = k * interval (tm s)
              /\ evc (cs s') = u16 (evc (cs s) + k) /\ ch_idx (cs s') = (ch_idx (cs s) + k) mod 37.
Proof. exact anchor_after_event. Qed.
Print Assumptions C22_anchor_after_event.

Theorem C22_anchor_after_missed_event :
  forall s s', plan_after_timeout s = Some s' ->
    tsle (cs s') = tsle (cs s) + interval (tm s) \/ 4294967296 <= tsle (cs s) + interval (tm s).
Proof. exact anchor_after_missed_event. Qed.

(* 2. WINDOW.  The full statement - the window is widened by at least the real value a * t / 10^6 - is FALSE of
   delta_time::ppm (fixed point, rounds down): *)
Definition C22_ppm_exact_full : Prop := ppm_exact.
Theorem C22_ppm_exact_refuted : ~ C22_ppm_exact_full.
Proof. exact ppm_exact_refuted. Qed.
Print Assumptions C22_ppm_exact_refuted.
(* what holds: it is below the real value by less than 1 us ( floor( a t / 10^6 ) - 1 <= ppm <= floor( a t / 10^6 ) )
   for all t * a up to 1.31e11 (no overflow of the 64 bit product) - the sub-microsecond known finding *)
Theorem C22_ppm_partial :
  forall t a, t * a <= ppm_domain -> required a t <= ppm t a /\ ppm t a <= widen_floor a t.
Proof. exact ppm_bounds. Qed.
Print Assumptions C22_ppm_partial.
(* and with it every scheduled receive window covers the anchor (plus the transmit window after a connect request or
   update) widened at both ends by that amount, for every state with times below 131 s and a combined accuracy <= 1000 ppm *)
Theorem C22_window_covers_partial :
  forall s s' it,
    tsle (cs s) + tw_off (tm s) + tw_size (tm s) + 131072 <= time_bound -> sca s <= 1000 ->
    setup_next_connection_event s = Some (s', it) ->
    exists ch ws we,
      it = [ICe ch ws we (interval (tm s))] /\
      covers (sca s) ws we (tsle (cs s) + (if tw_size (tm s) =? 0 then 0 else tw_off (tm s)))
                           (tsle (cs s) + (if tw_size (tm s) =? 0 then 0 else tw_off (tm s) + tw_size (tm s))) = true.
Proof. exact window_covers. Qed.
Print Assumptions C22_window_covers_partial.

(* 3. SUPERVISION.  timeout() on a connected link (no procedure timer running): dropped iff nothing valid was received
   for the supervision timeout. *)
Theorem C22_supervision_drop :
  forall c s s' it,
    st s = Connected -> ring s = [] -> c_cb c = true -> proc_timeout s = 0 ->
    conn_timeout (tm s) <= tsle (cs s) ->
    do_timeout c s = Some (s', it) ->
    st s' = Advertising /\ In (ICb (EvClosed (disc_reason s))) it.
Proof. exact supervision_drop. Qed.
Theorem C22_supervision_keep :
  forall c s s' it,
    st s = Connected -> ring s = [] -> proc_timeout s = 0 -> deferred s = None ->
    tsle (cs s) < conn_timeout (tm s) ->
    do_timeout c s = Some (s', it) ->
    st s' = Connected /\ (forall r, ~ In (ICb (EvClosed r)) it) /\ exists ch ws we, it = [ICe ch ws we (interval (tm s))].
Proof. exact supervision_keep. Qed.
Print Assumptions C22_supervision_keep.

(* 4. CONNECT REQUESTS (after the repair fix/C22-connect-timing-ranges, which the model follows).  A connection is
   established only from a CONNECT_IND addressed to this device whose interval, latency, supervision timeout, window size
   and offset are inside the Core specification's ranges and whose hop increment is 5..16 (the channel map: C20);
   for all 34 byte bodies. *)
Theorem C22_connection_only_from_valid_request :
  forall c s hdr0 body s' it,
    st s = Advertising ->
    do_adv_received c s hdr0 body = Some (s', it) -> st s' = Connecting ->
    addressed_to_us c hdr0 body = true /\ connect_timing_valid body = true /\ connect_hop_valid body = true.
Proof. exact connection_only_from_valid_request. Qed.
Print Assumptions C22_connection_only_from_valid_request.
(* the repaired check can no longer hit the assert of delta_time::operator*= *)
Theorem C22_check_timing_total : forall t, check_timing t <> None.
Proof. exact check_timing_total. Qed.

(* and the converse: EVERY connect request that is addressed to this device and valid in the specification's sense
   (LLSpecC22.connect_valid: the ranges above, hop increment 5..16, at least two used data channels - C20's num_used) is
   accepted, for every own sleep clock accuracy <= 500 ppm, and the first connection event is scheduled with the requested
   interval.  (The length of the channel table is 37 in every state the model reaches; it is 37 initially.) *)
Theorem C22_valid_request_connects :
  forall c s hdr0 body,
    c_sca c <= 500 -> length (ChanMapModel.tbl (chan s)) = 37%nat ->
    addressed_to_us c hdr0 body = true -> connect_valid body = true ->
    exists s' it, do_adv_received c s hdr0 body = Some (s', it) /\ st s' = Connecting /\
                  exists chn ws we, In (ICe chn ws we (rd16 body 22 * 1250)) it.
Proof. exact valid_request_accepted. Qed.
Print Assumptions C22_valid_request_connects.

(* 5. THE MONITOR (LLSpecC22.mstep22).  "The monitor accepts every trace of the model" is stated for all operation
   sequences and NOT proved in that generality: *)
Definition C22_monitor_accepts_all_full : Prop := monitor22_accepts_all.
(* PROVED for operation sequences of any length inside the environment [env22] - the quantifier of the property and more:
   any connect requests (valid, invalid, not addressed to us), any pattern of connection events of the central (any event
   flags) and of missed events up to and beyond the supervision timeout, restarts of advertising, transmit buffer
   operations, every configuration with an own sleep clock accuracy <= 500 ppm.  The events may be empty (every
   configuration) or - for a link layer without encryption support - carry
     * any number of CONTROL PDUs THAT DO NOT TOUCH THE TIMING (pdu_ok22): LLID 3, not empty, at most 27 bytes, no instant
       and not LL_TERMINATE_IND - feature / version / ping / length / connection parameter requests, LL_UNKNOWN_RSP /
       LL_REJECT(_EXT)_IND, unknown opcodes, malformed PDUs of any opcode; or
     * one LL_CONNECTION_UPDATE_IND (upd_ok22: any window, interval, latency, timeout, instant; with connection callbacks,
       without them its application is not observable and the monitor stops judging).  The update is deferred, waits
       through any number of events and missed events, and IS APPLIED AT ITS INSTANT: the event there is scheduled k old
       intervals after the anchor, 1 <= k <= latency + 1, with the NEW interval, its window covers the update's TRANSMIT
       WINDOW (offset, size) widened by the combined accuracy - the monitor finds it with search_k, identifies the update
       by applied_update and consumes it - then the connection continues with the new parameters (monitor phase PBlind
       until the next packet), and further updates may follow.
       The instant may fall on a MISSED event (timeout() applies the update: missed_instant).  A delivered update that is
       REFUSED (instant passed or the next event: link dropped with 0x28, refused_event) and an update whose parameters are
       found INVALID at its instant by a connection event (link dropped, dropped_event) end the connection: the monitor
       accepts the drop and the run goes on with advertising and new connections.
   The environment is an executable predicate computed along the model's run: op_ok22 on each operation, no model crash,
   calm22 = nothing is left in the receive queue after the operation, still22 = an update that is delivered or waiting
   afterwards still waits, or was applied (connection event or missed event), or was refused at delivery (refusal22), or
   was found invalid at its instant by a connection event.
   OUTSIDE, exactly: (1) an update found invalid at an instant that falls on a MISSED event: timeout() closes the link with
   0x08 before the supervision timeout and the monitor REJECTS that trace (clause supervision_early) - it is the known
   finding C22-invalid-update, not a gap of the proof; an update that is delivered and applied within the same
   end_event() (instant = delivery + 2 with latency); PDUs delivered while an update waits (they stay in the receive
   queue: calm22); a control PDU held back because the script withholds the transmit buffer;
   (2) LL_CHANNEL_MAP_IND, LL_PHY_UPDATE_IND (instants of C21), LL_TERMINATE_IND; (3) data PDUs (LLID 1 / 2) and PDUs inside
   events of a link layer with encryption support; (4) the API calls (disconnect, connection parameter update / request,
   PHY update, version request, cancelation).
   The proof is a simulation: LLProofsC22Sim.Sim22 couples the monitor's parameters, anchor time, counter of missed events
   and list of outstanding updates with the model's state (the deferred PDU); sim22_step is the step lemma; neutral_event
   is the event with PDUs, instant_event the event at the instant (tail22_apply: planning + handle_pending_ll_control +
   window_covers with the new transmit window).  Reused from ll-c21: LLSimC21.radio_event_spec, hlc_other / ctlk / ctlq,
   accept_full (an update with an instant ahead is only stored). *)
Theorem C22_monitor_accepts_partial :
  forall c ops, cfg_ok22 c = true -> env22 c (linit c) ops = true -> accepts22 c (trace_of c ops).
Proof. exact monitor22_accepts_partial. Qed.
Print Assumptions C22_monitor_accepts_partial.
Theorem C22_simulation_step :
  forall c s p o s' r,
    cfg_ok22 c = true -> Sim22 c s p -> op_ok22 c o = true -> lstep c s o = (s', r) -> r <> OCrash -> calm22 s' = true ->
    still22 s o s' = true ->
    exists p', mstep22 c p o r = (Ok, p') /\ Sim22 c s' p'.
Proof. exact sim22_step. Qed.
(* The two model lemmas behind events with PDUs: without encryption support, a receive
   queue of control PDUs that carry no instant and are not LL_TERMINATE_IND (feature / version / ping / unknown / reject /
   connection parameter request / malformed PDUs; [nq]) is worked off with result "go ahead", emits nothing the monitor
   reads, and leaves state, connection state (anchor, counter), timing parameters, channel map, combined accuracy untouched
   ([ctlq], [fr22]: a procedure timer / pending request that is off stays off); and from such a state end_event_continue()
   schedules the next event k intervals after the anchor, 1 <= k <= latency + 1, symmetric and covering - as after an
   event without PDUs. *)
Theorem C22_pdus_without_instant_leave_the_timing :
  forall c, c_enc c = false -> forall fuel s,
    forallb (nq c) (rxq (bf s)) = true -> deferred s = None ->
    let r := handle_received_data fuel c s in
    snd r = GoAhead /\ LLSimC21.quiet_items (snd (fst r)) /\ fr22 s (fst (fst r)) /\ LLSimC21.ctlq 0 s (fst (fst r))
    /\ deferred (fst (fst r)) = None
    /\ (tx_avail (bf s) = true -> (length (rxq (bf s)) < fuel)%nat -> rxq (bf (fst (fst r))) = []).
Proof. exact hrd_neutral. Qed.
Print Assumptions C22_pdus_without_instant_leave_the_timing.
Theorem C22_next_event_after_processing :
  forall c s3 e s8 it8,
    tw_size (tm s3) = 0 -> timing_inv (tm s3) (sca s3) -> proc_timeout s3 = 0 -> enc_prog (sc s3) = false ->
    end_event_continue c s3 e = Some (s8, it8) ->
    (deferred s3 <> None /\ deferred s8 = None) \/
    exists k kk ch ws we,
      it8 = [ICe ch ws we (interval (tm s3))] /\ s8 = set_pending_event (set_cs s3 kk) true
      /\ 1 <= k /\ k <= latency (tm s3) + 1 /\ tsle kk = k * interval (tm s3) /\ ws + we = 2 * tsle kk
      /\ covers (sca s3) ws we (tsle kk) (tsle kk) = true.
Proof. exact tail22. Qed.

(* the environment is satisfiable: the session below (connect request, events, 6 missed events up to the supervision
   timeout) is inside it *)
Example C22_environment_with_pdus_is_satisfiable :
  c_enc cfg_base = false /\ env22 cfg_base (linit cfg_base) session22_pdus = true.
Proof. exact session22_pdus_env. Qed.
(* the connection event at the instant of a waiting LL_CONNECTION_UPDATE_IND, on the model: the update's parameters are the
   valid ones (else the link layer would not be in state connection_changed), connection_changed reports them, the event
   is scheduled k OLD intervals after the anchor with the NEW interval and its window covers the update's transmit window
   [k * interval + offset, k * interval + offset + size] widened by the combined accuracy; nothing is deferred afterwards *)
Theorem C22_event_at_the_instant :
  forall c s e pdus s' r b,
  st s = Connected -> base22 s -> Glob s -> tw_size (tm s) = 0 ->
  existsb (fun p => 27 <? N.of_nat (length (snd p))) pdus = false ->
  deferred s = Some b -> byte b 0 = 0 -> c_cb c = true ->
  lstep c s (Ev e pdus) = (s', r) -> r <> OCrash -> rxq (bf s') = [] -> st s' = ConnChanged ->
  exists t k ch ws we pre d,
    parse_update b = (t, Some true)
    /\ r = OItems (pre ++ ICe ch ws we (interval t) :: map ICb [EvChanged d])
    /\ forallb q22 pre = true
    /\ d_interval d = rd16 b 4 /\ d_latency d = rd16 b 6 /\ d_timeout d = rd16 b 8
    /\ 1 <= k /\ k <= latency (tm s) + 1
    /\ covers (sca s) ws we (k * interval (tm s) + tw_off t) (k * interval (tm s) + (tw_off t + tw_size t)) = true
    /\ tm s' = t /\ sca s' = sca s /\ base22 s' /\ Glob s' /\ deferred s' = None
    /\ LLSpecC21.normalise21 pdus = [] /\ 1250 <= tw_size t.
Proof. exact instant_event. Qed.
Print Assumptions C22_event_at_the_instant.

Example C22_environment_with_a_waiting_update_is_satisfiable :
  env22 cfg_base (linit cfg_base) session22_update_waiting = true
  /\ deferred (lfinal cfg_base (linit cfg_base) session22_update_waiting) = Some (snd (upd_pdu 2 3 80 0 200 30)).
Proof. exact session22_update_waiting_env. Qed.
Example C22_environment_with_applied_updates_is_satisfiable :
  env22 cfg_base (linit cfg_base) session22_update_applied = true
  /\ interval (tm (lfinal cfg_base (linit cfg_base) session22_update_applied)) = 100000
  /\ deferred (lfinal cfg_base (linit cfg_base) session22_update_applied) = None
  /\ (exists it d, nth_error (trace_of cfg_base session22_update_applied) 7 = Some (Ev 0 [], OItems it) /\ In (ICb (EvChanged d)) it).
Proof. exact session22_update_applied_env. Qed.
Example C22_environment_with_an_instant_on_a_missed_event :
  env22 cfg_base (linit cfg_base) session22_instant_missed = true
  /\ interval (tm (lfinal cfg_base (linit cfg_base) session22_instant_missed)) = 100000
  /\ (exists it d, nth_error (trace_of cfg_base session22_instant_missed) 6 = Some (Timeout, OItems it) /\ In (ICb (EvChanged d)) it).
Proof. exact session22_instant_missed_env. Qed.
Example C22_environment_with_a_refused_update :
  env22 cfg_base (linit cfg_base) session22_update_refused = true
  /\ (exists it, nth_error (trace_of cfg_base session22_update_refused) 4 = Some (Ev 0 [upd_pdu 2 3 80 0 200 1], OItems it)
                 /\ In (ICb (EvClosed 40)) it /\ has_adv22 it = true).
Proof. exact session22_update_refused_env. Qed.
Example C22_environment_with_an_update_invalid_at_its_instant :
  env22 cfg_base (linit cfg_base) session22_update_invalid = true
  /\ (exists it, nth_error (trace_of cfg_base session22_update_invalid) 6 = Some (Ev 0 [], OItems it)
                 /\ In (ICb (EvClosed 8)) it /\ has_adv22 it = true).
Proof. exact session22_update_invalid_env. Qed.
(* ... and what stays outside by necessity: the same invalid update with its instant on a MISSED event - timeout() closes the
   link with 0x08 before the supervision timeout; the monitor rejects the model's own trace (clause 3, supervision_early):
   the known finding C22-invalid-update; the environment predicate is false for that run *)
Example C22_invalid_update_on_a_missed_instant_is_rejected :
  let ops := [Run; connect_with 3 11 24 0 72; Ev 0 []; Ev 0 [upd_pdu 2 3 5 0 200 5]; Ev 0 []; Ev 0 []; Timeout] in
  mrun22 cfg_base (minit22 cfg_base) (trace_of cfg_base ops) = Bad 3 /\ env22 cfg_base (linit cfg_base) ops = false.
Proof. vm_compute. split; reflexivity. Qed.
Example C22_environment_is_satisfiable :
  cfg_ok22 cfg_base = true /\ env22 cfg_base (linit cfg_base) session22_ok = true.
Proof. split; vm_compute; reflexivity. Qed.

(* non-vacuity *)
Example C22_monitor_accepts_a_session_with_missed_events :
  mrun22 cfg_base (minit22 cfg_base) (trace_of cfg_base session22_ok) = Ok.
Proof. exact session22_ok_accepted. Qed.
Example C22_session_ends_with_supervision_timeout :
  exists it, nth_error (trace_of cfg_base session22_ok) 30 = Some (Timeout, OItems it) /\ In (ICb (EvClosed 8)) it.
Proof. exact session22_ok_ends_with_0x08. Qed.
Example C22_monitor_rejects_a_narrow_window :
  mrun22 cfg_base (minit22 cfg_base)
    [(Run, OItems [IAa 2391391958 5592405; IAdv 37]);
     (connect_with 3 11 24 0 72, OItems [IAa 2946085722 16154888; ICe 10 14998 18752 30000]);
     (Ev 0 [], OItems [ICe 20 29999 30001 30000])] = Bad 2.
Proof. exact monitor22_rejects_narrow_window. Qed.
(* two connection updates with the same interval / latency / timeout and different transmit windows: connection_changed
   reports the same values twice; the monitor judges each instant against ITS update's transmit window (the oldest
   outstanding update with the reported values is the applied one and is consumed) - accepted as the model runs it,
   rejected when the second instant's window sits at the first update's offset.  Regression of a false alarm. *)
Example C22_like_updates_are_both_applied :
  exists it1 it2 d,
    nth_error (trace_of cfg_base session22_like_updates) 4 = Some (Ev 0 [], OItems it1) /\ In (ICb (EvChanged d)) it1 /\
    nth_error (trace_of cfg_base session22_like_updates) 9 = Some (Ev 0 [], OItems it2) /\ In (ICb (EvChanged d)) it2.
Proof. exact like_updates_both_applied. Qed.
Example C22_monitor_accepts_like_updates :
  mrun22 cfg_base (minit22 cfg_base) (trace_of cfg_base session22_like_updates) = Ok.
Proof. exact like_updates_accepted. Qed.
Example C22_monitor_rejects_the_other_update's_window :
  mrun22 cfg_base (minit22 cfg_base) (tamper 9 2500 (trace_of cfg_base session22_like_updates)) = Bad 2.
Proof. exact like_updates_wrong_window_rejected. Qed.
Example C22_monitor_rejects_interval_zero :
  mrun22 cfg_base (minit22 cfg_base)
    [(Run, OItems [IAa 2391391958 5592405; IAdv 37]);
     (connect_with 0 0 0 0 10, OItems [IAa 2946085722 16154888; ICe 10 0 0 0])] = Bad 5.
Proof. exact monitor22_rejects_interval_zero. Qed.
Example C22_monitor_rejects_early_supervision :
  mrun22 cfg_base (minit22 cfg_base)
    [(Run, OItems [IAa 2391391958 5592405; IAdv 37]);
     (connect_with 3 11 24 0 72, OItems [IAa 2946085722 16154888; ICe 10 14998 18752 30000]);
     (Ev 0 [], OItems [ICe 20 29996 30004 30000]);
     (Timeout, OItems [IAa 2391391958 5592405; IAdv 37; ICb (EvClosed 8)])] = Bad 3.
Proof. exact monitor22_rejects_early_supervision. Qed.
(* the connect requests that were accepted before the repair (interval 0, 5, 3201; window size 0; overflow; timeout
   equal to the bound) are refused *)
Example C22_repaired_model_refuses_the_witnesses :
  forallb (fun o => match lrun cfg_base (linit cfg_base) [Run; o] with
                    | [_; (_, OItems [])] => true | _ => false end)
          [connect_with 0 0 0 0 10; connect_with 1 0 5 0 10; connect_with 1 0 3201 0 3200; connect_with 0 0 24 0 72;
           connect_with 1 0 3436 499 3200; connect_with 1 0 40 0 10] = true.
Proof. exact repaired_model_refuses. Qed.

(* constants and the shape of check_timing_paremeters() read from the sources on every run: the sleep clock accuracy table
   and the fixed point constants of ppm are the specified ones; the conjuncts of the check are those of the repaired
   code (on the unrepaired tree this Example fails: a named, failing obligation) *)
Example C22_sca_table_is_the_core_specification's : GenLL.inaccuracy_ppm = core_sca_ppm.
Proof. reflexivity. Qed.
(* GenLL.inaccuracy_ppm = the values sleep_clock_accuracy() RETURNS in the source at hand (initialisers evaluated with C
   semantics and put through the return statement's arithmetic; gen/consts/ll.py); core_sca_ppm = the Core specification's
   table as a literal (LLSpecC22).  So: the model's combined accuracy is the specification's, for every connect request *)
Example C22_core_sca_table : core_sca_ppm = [500; 250; 150; 100; 75; 50; 30; 20].
Proof. reflexivity. Qed.
Theorem C22_model_accuracy_is_the_specification's :
  forall body, sleep_clock_accuracy body = sca_ppm (N.land (N.shiftr (byte body 33) 5) 7).
Proof. reflexivity. Qed.
Example C22_ppm_constants : GenLL.ppm_multiplier = 140737488 /\ GenLL.ppm_shift = 47 /\ GenLL.num_windows_til_timeout = 6.
Proof. repeat split; reflexivity. Qed.
Example C22_check_timing_conjuncts :
  GenLL.timing_checks =
  ["peripheral_latency_ <= maximum_link_layer_peripheral_latency"; "connection_interval_ >= minimum_connection_interval";
   "connection_interval_ <= maximum_connection_interval"; "transmit_window_size_ >= minimum_transmit_window_size";
   "transmit_window_size_ <= maximum_transmit_window_offset"; "transmit_window_size_ <= connection_interval_";
   "connection_timeout_ >= minimum_connection_timeout"; "connection_timeout_ <= maximum_connection_timeout";
   "connection_timeout_ > ( peripheral_latency_ + 1 ) * 2 * connection_interval_"]%string.
Proof. reflexivity. Qed.
Example C22_limits :
  GenLL.maximum_transmit_window_offset = 10000 /\ GenLL.minimum_connection_timeout = 100000
  /\ GenLL.maximum_connection_timeout = 32000000 /\ GenLL.us_per_digits = 1250
  /\ minimum_connection_interval = 7500 /\ maximum_connection_interval = 4000000.
Proof. repeat split; reflexivity. Qed.
