(* C10  Notifications carry the requested characteristic to subscribed clients only.
   Statements only; proofs in AttSrv/AttSrvProofsC10.v, AttDb/AttDbNotifProofs.v (shared with C09).

   Model: AttDbModel.v: all_infos / cccd_infos / sorted_infos (= characteristics_with_attribute_indizes /
   _with_cccd_position / _sorted_by_priority of find_notification_data_in_list), find_notification_data (by
   value; walks the SORTED list since fix/C08-C11-notification-path), find_notification_by_uuid,
   find_notification_data_by_index; AttSrvModel.v: notify_by_value / notify_by_uuid / request, att_output. *)
From BT Require Import Base.ListX AttDb.AttDbModel AttDb.AttDbNotifProofs NQueue.NQueueModel NQueue.NQueueSpec NQueue.NQueueProofs
  AttSrv.AttSrvModel AttSrv.AttSrvFrame AttSrv.AttSrvNotifSpec AttSrv.AttSrvSpecC10 AttSrv.AttSrvProofsC10 AttSrv.AttSrvNotifExamples AttDb.AttDbNotifIndex
  AttDb.AttDbProofs AttSrv.AttSrvNotifObs AttSrv.AttSrvProofsC09T AttSrv.AttSrvProofsC10T AttSrv.AttSrvProofsC10T2 AttSrv.AttSrvProofsC10T3.
Local Open Scope N_scope.

(* ---- requests. For EVERY configuration and priority declaration: notify( value ) / indicate( value ) for
   characteristic g queue the index i at which g stands in the priority sorted list, and
   find_notification_data_by_index( i ) - what the queue consumer l2cap_output uses - gives back the very
   same (attribute, index) pair *)
Theorem C10_by_value_request_addresses_the_characteristic :
  forall c g d, find_notification_data c g = Some d ->
    find_notification_data_by_index c (snd d) = d
    /\ exists x, nth_error (sorted_infos c) (N.to_nat (snd d)) = Some x /\ ci_gci x = g /\ fst d = ci_first x + 1.
Proof. exact by_value_addresses_sorted_index. Qed.
Print Assumptions C10_by_value_request_addresses_the_characteristic.

(* ... and notify< UUID >() / indicate< UUID >() do the same for the first characteristic with that uuid *)
Theorem C10_by_uuid_request_addresses_the_characteristic :
  forall c u d, find_notification_by_uuid c u = Some d ->
    exists x0, find_char_by_uuid c u = Some x0
      /\ find_notification_data_by_index c (snd d) = d
      /\ exists x, nth_error (sorted_infos c) (N.to_nat (snd d)) = Some x /\ ci_gci x = ci_gci x0 /\ fst d = ci_first x + 1.
Proof. exact by_uuid_addresses_sorted_index. Qed.
Print Assumptions C10_by_uuid_request_addresses_the_characteristic.

(* ---- repeated requests before the transmission give one PDU: the queue is a set (C12, any level sizes,
   any operation sequence: clause newly_queued / deq_pending of the monitor of NQueueSpec.v: a request that
   is already pending is not added again, a dequeued request is removed) *)
Theorem C10_queue_is_a_set :
  forall sizes ops, wf_sizes sizes -> NQueueSpec.monitor sizes (NQueueModel.run (NQueueModel.init sizes) ops) = None.
Proof. exact monitor_accepts_model. Qed.
Print Assumptions C10_queue_is_a_set.

(* ---- transmission. For the queue entry (kd, i), any configuration, any state: l2cap_output produces a PDU
   only if the connection's CCCD bits at store position i contain the bit of kd (i is the position the CCCD
   attribute of the i-th characteristic of the sorted list uses: C09_cccd_position_is_the_notification_index);
   the PDU is 1B / 1D, the handle of the attribute that find_notification_data_by_index( i ) names and the
   bytes attribute.access( read ) returns for it NOW, for at most min( buffer, negotiated MTU ) - 3 bytes *)
Theorem C10_transmitted_pdu :
  forall c st cid n st' rs k q1 kd i,
    get_conn st cid = Some k ->
    NQueueModel.step (nq k) Dequeue = (q1, OEntry (Some (kd, i))) ->
    att_output c st cid n = Some (st', rs) -> rs <> [] ->
    let ai := fst (find_notification_data_by_index c (N.of_nat i)) in
    negb (N.land (cccd_get (cccd k) (N.of_nat i)) (kbit kd) =? 0) = true
    /\ exists a s1 d,
         attribute_at c ai = Some a
         /\ access_read c (set_conn st cid (mkConn (client_mtu k) (cccd k) (encrypted k) (pairing k) q1)) cid a ai 0
                        (N.min n (negotiated_mtu c k) - 3) = Some (s1, Success, d)
         /\ rs = (match kd with KNotif => 27 | KInd => 29 end) :: le16 (handle_by_index c ai) ++ d.
Proof. exact att_output_pdu. Qed.
Print Assumptions C10_transmitted_pdu.

(* ---- the attribute that is read IS the value attribute of that characteristic: the full statement is
   FALSE of the code. find_notification_data_in_list adds a service's own attributes (service declaration,
   includes) to first_attribute_index only through the FIRST characteristic of the service, so a service
   without characteristics shifts the index of every later characteristic (known finding
   C10-empty-service-shifts-notification-attribute, corpus/C10/empty_service.trace) *)
Definition C10_right_characteristic_full : Prop := right_characteristic_full.

Theorem C10_right_characteristic_refuted : ~ C10_right_characteristic_full.
Proof.
  intros H. assert (W : wf cfg_emptysvc_mtu23) by (vm_compute; reflexivity).
  specialize (H _ W). vm_compute in H. discriminate H.
Qed.
Print Assumptions C10_right_characteristic_refuted.

(* the implementation's behaviour on the witness: the indication carries handle 3 and the bytes of the
   characteristic DECLARATION (3a 04 00 00 2a) instead of handle 4 and the value *)
Theorem C10_empty_service_witness :
  map snd (srv_run cfg_emptysvc_mtu23 (srv_init cfg_emptysvc_mtu23)
             [OpNotify false KInd 0; OpIn 0 [18; 5; 0; 2; 0] 512; OpOut 0 512])
  = [OBits [true; true; true]; OBytes [19]; OBytes [29; 3; 0; 58; 4; 0; 0; 42]]
  /\ monitor10 cfg_emptysvc_mtu23 (srv_run cfg_emptysvc_mtu23 (srv_init cfg_emptysvc_mtu23)
             [OpNotify false KInd 0; OpIn 0 [18; 5; 0; 2; 0] 512; OpOut 0 512]) = Some (2%nat, t10_wrong_characteristic).
Proof. split; vm_compute; reflexivity. Qed.
Print Assumptions C10_empty_service_witness.

(* what holds: for EVERY configuration in which every service has at least one characteristic (any
   priorities, includes, fixed handles, any number of CCCDs): the queue entry i names the value attribute of
   the i-th characteristic x of the sorted list (global number ci_gci x: the one a by value / by uuid
   request for it queued, see the first two theorems), and the store position i that l2cap_output tests is
   the position the CCCD attribute of x (ClientCharacteristicIndex ci_pos x) writes. With C10_transmitted_pdu:
   the PDU carries the handle and the current bytes of the requested characteristic's value attribute and
   is sent only to a connection whose CCCD of that characteristic has the bit. *)
Theorem C10_right_characteristic_partial :
  forall c i x, all_nonempty (services c) = true -> nth_error (sorted_infos c) i = Some x ->
    find_notification_data_by_index c (N.of_nat i) = (ci_first x + 1, N.of_nat i)
    /\ attribute_at c (ci_first x + 1) = Some (AValue (ci_svc x) (ci_char x) (ci_gci x) (ci_pos x))
    /\ cccd_position c (ci_pos x) = N.of_nat i.
Proof. exact right_characteristic_nonempty. Qed.
Print Assumptions C10_right_characteristic_partial.

Theorem C10_right_characteristic_if_no_empty_service :
  forall c, all_nonempty (services c) = true -> notif_index_ok c = true.
Proof. exact notif_index_ok_nonempty. Qed.
Print Assumptions C10_right_characteristic_if_no_empty_service.

(* The trace level statements follow, clause by clause (simulation between the observer and srv_state: requested
   set = queue bits through the C12 abstraction, tracked CCCD bits = store); the theorems above are their
   ingredients. MISSING: the clause wrong_value (known values = vals), see the end of that part. *)
(* ---- trace level, the clause not_subscribed (check10_ns = that clause of check10 alone; C10_not_subscribed_complete:
   whenever check10 reports not_subscribed so does check10_ns). For every well formed configuration without
   include_service<> with env10 c = true (executable: env09 - no write queue, no encryption requirement on a
   characteristic with CCCD -, attributable - every service has a characteristic -, all handles < 65536, the queue
   has as many entries as there are CCCDs) and every history of any length of any operations (PDUs of bytes) on
   any connections whose model trace contains no FAULT: the clause never fires on the model's trace - a
   notification / indication is transmitted only to a connection whose CCCD of that characteristic, as last
   written by that connection, has the bit of that kind. By simulation on top of C09's (sim09: tracked CCCD bits =
   stored bits) with: the dequeued index is inside the queue (queue size invariant, C12 abstraction), the observer's
   table has exactly one entry per value attribute and finds the same entry under the value handle and under the
   CCCD handle (by_cccd_handle_same), a value attribute with CCCD is followed by its CCCD (value_followed_by_cccd),
   C10_right_characteristic_partial. *)
Theorem C10_not_subscribed_never_fires :
  forall c ops, wf c -> no_includes c -> env10 c = true -> forallb op10_bytes ops = true ->
    no_fault (srv_run c (srv_init c) ops) -> monitor10_ns c (srv_run c (srv_init c) ops) = None.
Proof. exact monitor10_ns_accepts_model. Qed.
Print Assumptions C10_not_subscribed_never_fires.

Theorem C10_not_subscribed_complete :
  forall c m o r, check10 c m o r = Some t10_not_subscribed -> check10_ns c m o r = Some t10_not_subscribed.
Proof. exact check10_ns_complete. Qed.
Print Assumptions C10_not_subscribed_complete.

Example C10_env10_nonvacuous :
  env10 cfg_p9_mtu65 = true /\ env10 cfg_p4_mtu100 = true /\ no_includes_b (services cfg_p9_mtu65) = true
  /\ env10 cfg_emptysvc_mtu23 = false.
Proof. repeat split; vm_compute; reflexivity. Qed.

(* ---- trace level, the clause duplicate_pdu (check10_dup = that clause alone; C10_duplicate_pdu_complete). Same
   hypotheses as C10_not_subscribed_never_fires; requests by value and by uuid, notifications and indications, any
   number of repeated requests before the transmission: the model never transmits a second PDU for a characteristic
   and kind that was transmitted since its last request. By the invariant pinv: a request bit set in the
   connection's queue (C12 abstraction) is never marked "transmitted" in the observer's requested set, with:
   the observer's table position of a characteristic is its global characteristic number
   (C10_table_position_is_gci, from attribute_at as a list: AttDbAttrList), the global characteristic numbers of
   the sorted list are distinct, the target of a request by uuid (first characteristic with that uuid: ce_first) is
   the characteristic find_notification_by_uuid queues (uuid_target), the queue bits after an added request
   (m_chain_add_get) and after a dequeue (dequeue_abs); a confirmation changes no request bit. *)
Theorem C10_duplicate_pdu_never_fires :
  forall c ops, wf c -> no_includes c -> env10 c = true -> forallb op10_bytes ops = true ->
    no_fault (srv_run c (srv_init c) ops) -> monitor10_dup c (srv_run c (srv_init c) ops) = None.
Proof. exact monitor10_dup_accepts_model. Qed.
Print Assumptions C10_duplicate_pdu_never_fires.

Theorem C10_duplicate_pdu_complete :
  forall c m o r, check10 c m o r = Some t10_duplicate_pdu -> check10_dup c m o r = Some t10_duplicate_pdu.
Proof. exact check10_dup_complete. Qed.
Print Assumptions C10_duplicate_pdu_complete.

(* the p-th entry of the observer's characteristic table is built from the value attribute of the characteristic
   with global number p (for every configuration) *)
Theorem C10_table_position_is_gci :
  forall c p e, nth_error (char_table c) p = Some e ->
    exists i s ch cci, attribute_at c i = Some (AValue s ch p cci) /\ e = cent_of c (attr_table c) i s ch p cci.
Proof. exact table_position_is_gci. Qed.
Print Assumptions C10_table_position_is_gci.

(* ---- trace level, the clause wrong_characteristic (check10_wc = that clause alone: a PDU that is no notification /
   indication, whose handle is not the value handle of a characteristic, or whose characteristic was not requested
   on that connection; C10_wrong_characteristic_complete). Same hypotheses. By the invariant zinv: the requested
   set of every connection has one entry per characteristic and a request bit set in the connection's queue is
   marked (requested or transmitted, not 0) in it; with out_key (the PDU of a poll is opcode, the handle of the
   value attribute of the dequeued characteristic, data), by_value_handle_ex (the observer finds every value
   handle), by_value_handle_gci (at the characteristic's number), the initial queue has no bits (minit_mget). *)
Theorem C10_wrong_characteristic_never_fires :
  forall c ops, wf c -> no_includes c -> env10 c = true -> forallb op10_bytes ops = true ->
    no_fault (srv_run c (srv_init c) ops) -> monitor10_wc c (srv_run c (srv_init c) ops) = None.
Proof. exact monitor10_wc_accepts_model. Qed.
Print Assumptions C10_wrong_characteristic_never_fires.

Theorem C10_wrong_characteristic_complete :
  forall c m o r, check10 c m o r = Some t10_wrong_characteristic -> check10_wc c m o r = Some t10_wrong_characteristic.
Proof. exact check10_wc_complete. Qed.
Print Assumptions C10_wrong_characteristic_complete.

(* ---- the whole monitor, partial: on such a trace of the model, monitor10 reports none of five of its six clauses
   (fault: the trace has no FAULT; shape: one bit per connection); what remains is wrong_value. *)
Theorem C10_monitor_accepts_model_partial :
  forall c ops p tag, wf c -> no_includes c -> env10 c = true -> forallb op10_bytes ops = true ->
    no_fault (srv_run c (srv_init c) ops) ->
    monitor10 c (srv_run c (srv_init c) ops) = Some (p, tag) ->
    tag <> t10_fault /\ tag <> t10_wrong_characteristic /\ tag <> t10_not_subscribed /\ tag <> t10_duplicate_pdu /\ tag <> t10_shape.
Proof. exact monitor10_five_clauses. Qed.
Print Assumptions C10_monitor_accepts_model_partial.

(* MISSING for the whole monitor: the clause wrong_value (the observer's known values against vals: needs a frame
   lemma for vals through the fourteen request handlers - a write changes vals only at the written characteristic,
   which the observer forgets - and access_read of a value attribute = a prefix of the current value). *)
Definition C10_monitor_accepts_model_full : Prop :=
  forall c ops, wf c -> all_nonempty (services c) = true -> monitor10 c (srv_run c (srv_init c) ops) = None.

(* ---- non-vacuity *)
Example C10_wf_nonvacuous : wf cfg_p4_mtu100 /\ wf cfg_p9_mtu65 /\ wf cfg_emptysvc_mtu23
  /\ all_nonempty (services cfg_p9_mtu65) = true /\ all_nonempty (services cfg_emptysvc_mtu23) = false.
Proof. repeat split; vm_compute; reflexivity. Qed.

(* priorities reorder the four CCCDs of cfg_p4_mtu100 (declaration a b c d, sorted c b a d): by value and by
   uuid requests for c (characteristic 2) queue index 0 and name attribute index 8 = handle 9, the value attribute of c *)
Example C10_p4_requests :
  cccd_indices cfg_p4_mtu100 = [2; 1; 0; 3]
  /\ find_notification_data cfg_p4_mtu100 2 = Some (8, 0)
  /\ find_notification_by_uuid cfg_p4_mtu100 (U16 10754) = Some (8, 0)
  /\ find_notification_data cfg_p4_mtu100 0 = Some (2, 2)
  /\ find_notification_data_by_index cfg_p4_mtu100 2 = (2, 2)
  /\ handle_by_index cfg_p4_mtu100 8 = 9.
Proof. repeat split; vm_compute; reflexivity. Qed.

(* the witness of the repaired defect 9 (indicate( c ) with a client subscribed to a only): nothing is sent;
   the monitor accepts the model and rejects the pre-fix behaviour (1d 03 00 ..: characteristic a) *)
Example C10_by_value_with_priorities :
  let ops := [OpNotify false KInd 2; OpIn 2 [18; 4; 0; 2; 0] 512; OpOut 2 101] in
  map snd (srv_run cfg_p4_mtu100 (srv_init cfg_p4_mtu100) ops) = [OBits [true; true; true]; OBytes [19]; OBytes []]
  /\ monitor10 cfg_p4_mtu100 (srv_run cfg_p4_mtu100 (srv_init cfg_p4_mtu100) ops) = None
  /\ monitor10 cfg_p4_mtu100 [(OpNotify false KInd 2, OBits [true; true; true]); (OpIn 2 [18; 4; 0; 2; 0] 512, OBytes [19]);
                              (OpOut 2 101, OBytes [29; 3; 0; 1; 12; 23; 34])] = Some (2%nat, t10_wrong_characteristic).
Proof. repeat split; vm_compute; reflexivity. Qed.

Example C10_monitor_rejects :
  (* not subscribed *)
  monitor10 cfg_p4_mtu100 [(OpNotify false KNotif 0, OBits [true; true; true]); (OpOut 0 100, OBytes [27; 3; 0; 1; 12; 23; 34])]
    = Some (1%nat, t10_not_subscribed)
  (* a second PDU without a new request *)
  /\ monitor10 cfg_p4_mtu100 [(OpIn 0 [18; 4; 0; 1; 0] 23, OBytes [19]); (OpNotify false KNotif 0, OBits [true; true; true]);
                              (OpNotify false KNotif 0, OBits [false; false; false]);
                              (OpOut 0 100, OBytes [27; 3; 0; 1; 12; 23; 34]); (OpOut 0 100, OBytes [27; 3; 0; 1; 12; 23; 34])]
    = Some (4%nat, t10_duplicate_pdu)
  (* a stale value *)
  /\ monitor10 cfg_p4_mtu100 [(OpIn 0 [18; 4; 0; 1; 0] 23, OBytes [19]); (OpSetVal 0 [9; 9; 9; 9], ONone);
                              (OpNotify false KNotif 0, OBits [true; true; true]); (OpOut 0 100, OBytes [27; 3; 0; 1; 12; 23; 34])]
    = Some (3%nat, t10_wrong_value).
Proof. repeat split; vm_compute; reflexivity. Qed.

From BT Require gen.GenAttSrv.
Example C10_constants_are_the_codes :
  GenAttSrv.opcode_notification = 27 /\ GenAttSrv.opcode_indication = 29.
Proof. repeat split; reflexivity. Qed.
