(* C10  Notifications carry the requested characteristic to subscribed clients only.
   Statements only; proofs in AttSrv/AttSrvProofsC10.v, AttDb/AttDbNotifProofs.v (shared with C09).

   Model: AttDbModel.v: all_infos / cccd_infos / sorted_infos (= characteristics_with_attribute_indizes /
   _with_cccd_position / _sorted_by_priority of find_notification_data_in_list), find_notification_data (by
   value; walks the SORTED list since fix/C08-C11-notification-path), find_notification_by_uuid,
   find_notification_data_by_index; AttSrvModel.v: notify_by_value / notify_by_uuid / request, att_output. *)
From BT Require Import Base.ListX AttDb.AttDbModel AttDb.AttDbNotifProofs NQueue.NQueueModel NQueue.NQueueSpec NQueue.NQueueProofs
  AttSrv.AttSrvModel AttSrv.AttSrvFrame AttSrv.AttSrvNotifSpec AttSrv.AttSrvSpecC10 AttSrv.AttSrvProofsC10 AttSrv.AttSrvNotifExamples AttDb.AttDbNotifIndex.
Local Open Scope N_scope.

(* ---- requests. For EVERY configuration and priority declaration: notify( value ) / indicate( value ) for
   characteristic g queue the index i at which g stands in the priority sorted list, and
   find_notification_data_by_index( i ) - what the queue consumer l2cap_output uses - gives back the very
   same (attribute, index) pair *)
Theorem C10_by_value_request_addresses_the_characteristic :
  forall c g d, find_notification_data c g = Some d ->
    find_notification_data_by_index c (snd d) = d
    /\ exists x, nth_error (sorted_infos c) (N.to_nat (snd d)) = Some x /\ ci_gci x = g /\ fst d = ci_first x + 1.
Proof. exact by_value_addresses_sorted_index. Qed.
Print Assumptions C10_by_value_request_addresses_the_characteristic.

(* ... and notify< UUID >() / indicate< UUID >() do the same for the first characteristic with that uuid *)
Theorem C10_by_uuid_request_addresses_the_characteristic :
  forall c u d, find_notification_by_uuid c u = Some d ->
    exists x0, find_char_by_uuid c u = Some x0
      /\ find_notification_data_by_index c (snd d) = d
      /\ exists x, nth_error (sorted_infos c) (N.to_nat (snd d)) = Some x /\ ci_gci x = ci_gci x0 /\ fst d = ci_first x + 1.
Proof. exact by_uuid_addresses_sorted_index. Qed.
Print Assumptions C10_by_uuid_request_addresses_the_characteristic.

(* ---- repeated requests before the transmission give one PDU: the queue is a set (C12, any level sizes,
   any operation sequence: clause newly_queued / deq_pending of the monitor of NQueueSpec.v: a request that
   is already pending is not added again, a dequeued request is removed) *)
Theorem C10_queue_is_a_set :
  forall sizes ops, wf_sizes sizes -> NQueueSpec.monitor sizes (NQueueModel.run (NQueueModel.init sizes) ops) = None.
Proof. exact monitor_accepts_model. Qed.
Print Assumptions C10_queue_is_a_set.

(* ---- transmission. For the queue entry (kd, i), any configuration, any state: l2cap_output produces a PDU
   only if the connection's CCCD bits at store position i contain the bit of kd (i is the position the CCCD
   attribute of the i-th characteristic of the sorted list uses: C09_cccd_position_is_the_notification_index);
   the PDU is 1B / 1D, the handle of the attribute that find_notification_data_by_index( i ) names and the
   bytes attribute.access( read ) returns for it NOW, for at most min( buffer, negotiated MTU ) - 3 bytes *)
Theorem C10_transmitted_pdu :
  forall c st cid n st' rs k q1 kd i,
    get_conn st cid = Some k ->
    NQueueModel.step (nq k) Dequeue = (q1, OEntry (Some (kd, i))) ->
    att_output c st cid n = Some (st', rs) -> rs <> [] ->
    let ai := fst (find_notification_data_by_index c (N.of_nat i)) in
    negb (N.land (cccd_get (cccd k) (N.of_nat i)) (kbit kd) =? 0) = true
    /\ exists a s1 d,
         attribute_at c ai = Some a
         /\ access_read c (set_conn st cid (mkConn (client_mtu k) (cccd k) (encrypted k) (pairing k) q1)) cid a ai 0
                        (N.min n (negotiated_mtu c k) - 3) = Some (s1, Success, d)
         /\ rs = (match kd with KNotif => 27 | KInd => 29 end) :: le16 (handle_by_index c ai) ++ d.
Proof. exact att_output_pdu. Qed.
Print Assumptions C10_transmitted_pdu.

(* ---- the attribute that is read IS the value attribute of that characteristic: the full statement is
   FALSE of the code. find_notification_data_in_list adds a service's own attributes (service declaration,
   includes) to first_attribute_index only through the FIRST characteristic of the service, so a service
   without characteristics shifts the index of every later characteristic (known finding
   C10-empty-service-shifts-notification-attribute, corpus/C10/empty_service.trace) *)
Definition C10_right_characteristic_full : Prop := right_characteristic_full.

Theorem C10_right_characteristic_refuted : ~ C10_right_characteristic_full.
Proof.
  intros H. assert (W : wf cfg_emptysvc_mtu23) by (vm_compute; reflexivity).
  specialize (H _ W). vm_compute in H. discriminate H.
Qed.
Print Assumptions C10_right_characteristic_refuted.

(* the implementation's behaviour on the witness: the indication carries handle 3 and the bytes of the
   characteristic DECLARATION (3a 04 00 00 2a) instead of handle 4 and the value *)
Theorem C10_empty_service_witness :
  map snd (srv_run cfg_emptysvc_mtu23 (srv_init cfg_emptysvc_mtu23)
             [OpNotify false KInd 0; OpIn 0 [18; 5; 0; 2; 0] 512; OpOut 0 512])
  = [OBits [true; true; true]; OBytes [19]; OBytes [29; 3; 0; 58; 4; 0; 0; 42]]
  /\ monitor10 cfg_emptysvc_mtu23 (srv_run cfg_emptysvc_mtu23 (srv_init cfg_emptysvc_mtu23)
             [OpNotify false KInd 0; OpIn 0 [18; 5; 0; 2; 0] 512; OpOut 0 512]) = Some (2%nat, t10_wrong_characteristic).
Proof. split; vm_compute; reflexivity. Qed.
Print Assumptions C10_empty_service_witness.

(* what holds: for EVERY configuration in which every service has at least one characteristic (any
   priorities, includes, fixed handles, any number of CCCDs): the queue entry i names the value attribute of
   the i-th characteristic x of the sorted list (global number ci_gci x: the one a by value / by uuid
   request for it queued, see the first two theorems), and the store position i that l2cap_output tests is
   the position the CCCD attribute of x (ClientCharacteristicIndex ci_pos x) writes. With C10_transmitted_pdu:
   the PDU carries the handle and the current bytes of the requested characteristic's value attribute and
   is sent only to a connection whose CCCD of that characteristic has the bit. *)
Theorem C10_right_characteristic_partial :
  forall c i x, all_nonempty (services c) = true -> nth_error (sorted_infos c) i = Some x ->
    find_notification_data_by_index c (N.of_nat i) = (ci_first x + 1, N.of_nat i)
    /\ attribute_at c (ci_first x + 1) = Some (AValue (ci_svc x) (ci_char x) (ci_gci x) (ci_pos x))
    /\ cccd_position c (ci_pos x) = N.of_nat i.
Proof. exact right_characteristic_nonempty. Qed.
Print Assumptions C10_right_characteristic_partial.

Theorem C10_right_characteristic_if_no_empty_service :
  forall c, all_nonempty (services c) = true -> notif_index_ok c = true.
Proof. exact notif_index_ok_nonempty. Qed.
Print Assumptions C10_right_characteristic_if_no_empty_service.

(* MISSING: the trace level statement (the monitor accepts every model trace for such configurations): it
   needs the simulation between the observer and srv_state (pending set = queue bits through the C12
   abstraction, tracked CCCD bits = store, known values = vals); the theorems above are its ingredients. *)
Definition C10_monitor_accepts_model_full : Prop :=
  forall c ops, wf c -> all_nonempty (services c) = true -> monitor10 c (srv_run c (srv_init c) ops) = None.

(* ---- non-vacuity *)
Example C10_wf_nonvacuous : wf cfg_p4_mtu100 /\ wf cfg_p9_mtu65 /\ wf cfg_emptysvc_mtu23
  /\ all_nonempty (services cfg_p9_mtu65) = true /\ all_nonempty (services cfg_emptysvc_mtu23) = false.
Proof. repeat split; vm_compute; reflexivity. Qed.

(* priorities reorder the four CCCDs of cfg_p4_mtu100 (declaration a b c d, sorted c b a d): by value and by
   uuid requests for c (characteristic 2) queue index 0 and name attribute index 8 = handle 9, the value attribute of c *)
Example C10_p4_requests :
  cccd_indices cfg_p4_mtu100 = [2; 1; 0; 3]
  /\ find_notification_data cfg_p4_mtu100 2 = Some (8, 0)
  /\ find_notification_by_uuid cfg_p4_mtu100 (U16 10754) = Some (8, 0)
  /\ find_notification_data cfg_p4_mtu100 0 = Some (2, 2)
  /\ find_notification_data_by_index cfg_p4_mtu100 2 = (2, 2)
  /\ handle_by_index cfg_p4_mtu100 8 = 9.
Proof. repeat split; vm_compute; reflexivity. Qed.

(* the witness of the repaired defect 9 (indicate( c ) with a client subscribed to a only): nothing is sent;
   the monitor accepts the model and rejects the pre-fix behaviour (1d 03 00 ..: characteristic a) *)
Example C10_by_value_with_priorities :
  let ops := [OpNotify false KInd 2; OpIn 2 [18; 4; 0; 2; 0] 512; OpOut 2 101] in
  map snd (srv_run cfg_p4_mtu100 (srv_init cfg_p4_mtu100) ops) = [OBits [true; true; true]; OBytes [19]; OBytes []]
  /\ monitor10 cfg_p4_mtu100 (srv_run cfg_p4_mtu100 (srv_init cfg_p4_mtu100) ops) = None
  /\ monitor10 cfg_p4_mtu100 [(OpNotify false KInd 2, OBits [true; true; true]); (OpIn 2 [18; 4; 0; 2; 0] 512, OBytes [19]);
                              (OpOut 2 101, OBytes [29; 3; 0; 1; 12; 23; 34])] = Some (2%nat, t10_wrong_characteristic).
Proof. repeat split; vm_compute; reflexivity. Qed.

Example C10_monitor_rejects :
  (* not subscribed *)
  monitor10 cfg_p4_mtu100 [(OpNotify false KNotif 0, OBits [true; true; true]); (OpOut 0 100, OBytes [27; 3; 0; 1; 12; 23; 34])]
    = Some (1%nat, t10_not_subscribed)
  (* a second PDU without a new request *)
  /\ monitor10 cfg_p4_mtu100 [(OpIn 0 [18; 4; 0; 1; 0] 23, OBytes [19]); (OpNotify false KNotif 0, OBits [true; true; true]);
                              (OpNotify false KNotif 0, OBits [false; false; false]);
                              (OpOut 0 100, OBytes [27; 3; 0; 1; 12; 23; 34]); (OpOut 0 100, OBytes [27; 3; 0; 1; 12; 23; 34])]
    = Some (4%nat, t10_duplicate_pdu)
  (* a stale value *)
  /\ monitor10 cfg_p4_mtu100 [(OpIn 0 [18; 4; 0; 1; 0] 23, OBytes [19]); (OpSetVal 0 [9; 9; 9; 9], ONone);
                              (OpNotify false KNotif 0, OBits [true; true; true]); (OpOut 0 100, OBytes [27; 3; 0; 1; 12; 23; 34])]
    = Some (3%nat, t10_wrong_value).
Proof. repeat split; vm_compute; reflexivity. Qed.

From BT Require gen.GenAttSrv.
Example C10_constants_are_the_codes :
  GenAttSrv.opcode_notification = 27 /\ GenAttSrv.opcode_indication = 29.
Proof. repeat split; reflexivity. Qed.
