(* C37  Security toolbox functions compute the specified cryptography.
   Statements only; proofs in ToolBox/ToolBoxProofs.v, ToolBoxProofsLesc.v, AesProofs.v, ToolBoxMonitor.v.
   Code: bluetoe/bindings/nordic/nrf52/security_tool_box.cpp (c1, s1, is_valid_public_key, f4, f5, f6, g2)
   and nrf52.cpp setup_encryption (session key).
   Model (ToolBoxModel.v): the file's little endian code.  Spec (ToolBoxSpec.v): AES-CMAC (RFC 4493)
   for messages of any length and the functions of Core Vol 3 Part H 2.2 / Vol 6 Part B 5.1.3.1 on
   octet strings written most significant octet first.  [aes] - the ECB peripheral - is universally
   quantified: any function that maps a 16 octet key and a 16 octet block to a 16 octet block. *)
From Coq Require Import NArith List.
From BT Require Import ToolBox.Octets ToolBox.Aes ToolBox.P256 ToolBox.ToolBoxModel ToolBox.ToolBoxSpec
  ToolBox.ToolBoxProofs ToolBox.ToolBoxProofsLesc ToolBox.AesProofs ToolBox.ToolBoxMonitor.
Import ListNotations.
Local Open Scope N_scope.

(* ---- model = spec modulo byte reversal, for every block cipher and all inputs ---- *)
Theorem C37_c1 :
  forall aes, block_cipher aes -> forall k r p1 p2,
    block k -> length r = 16%nat -> length p1 = 16%nat -> length p2 = 16%nat ->
    c1 aes k r p1 p2 = rev (c1_spec aes (rev k) (rev r) (rev p1) (rev p2)).
Proof. exact c1_correct. Qed.
Print Assumptions C37_c1.

Theorem C37_s1 :      (* holds for any function [aes] at all: s1 only selects and orders octets *)
  forall aes k srand mrand,
    block k -> length srand = 16%nat -> length mrand = 16%nat ->
    s1 aes k srand mrand = rev (s1_spec aes (rev k) (rev srand) (rev mrand)).
Proof. exact s1_correct. Qed.
Print Assumptions C37_s1.

(* setup_encryption: SK = e(LTK, SKDs || SKDm), for all SKDm, SKDs (write_64bit keeps the low 64 bits) *)
Theorem C37_session_key :
  forall aes key skdm skds,
    block key -> session_key aes key skdm skds = rev (session_key_spec aes (rev key) skdm skds).
Proof. exact session_key_correct. Qed.
Print Assumptions C37_session_key.

Theorem C37_f4 :
  forall aes, block_cipher aes -> forall u v k z,
    block k -> length u = 32%nat -> length v = 32%nat ->
    f4 aes u v k z = rev (f4_spec aes (rev u) (rev v) (rev k) z).
Proof. exact f4_correct. Qed.
Print Assumptions C37_f4.

Theorem C37_g2 :
  forall aes, block_cipher aes -> forall u v x y,
    block x -> length u = 32%nat -> length v = 32%nat -> length y = 16%nat ->
    g2 aes u v x y = g2_spec aes (rev u) (rev v) (rev x) (rev y).
Proof. exact g2_correct. Qed.
Print Assumptions C37_g2.

(* addresses: [t] the is_random() flag as the code encodes it (addr_type t = 0 / 1), [a] the six
   address octets least significant first; the Core's A1 / A2 are addr_type t :: rev a *)
Theorem C37_f6 :
  forall aes, block_cipher aes -> forall key n1 n2 r io t1 a1 t2 a2,
    block key -> length n1 = 16%nat -> length n2 = 16%nat -> length r = 16%nat ->
    length io = 3%nat -> length a1 = 6%nat -> length a2 = 6%nat ->
    f6 aes key n1 n2 r io t1 a1 t2 a2
    = rev (f6_spec aes (rev key) (rev n1) (rev n2) (rev r) (rev io) (addr_type t1 :: rev a1) (addr_type t2 :: rev a2)).
Proof. exact f6_correct. Qed.
Print Assumptions C37_f6.

Theorem C37_f5 :
  forall aes, block_cipher aes -> forall dh nc np t1 a1 t2 a2,
    length dh = 32%nat -> length nc = 16%nat -> length np = 16%nat -> length a1 = 6%nat -> length a2 = 6%nat ->
    f5 aes dh nc np t1 a1 t2 a2
    = let '(mac_key, ltk) := f5_spec aes (rev dh) (rev nc) (rev np) (addr_type t1 :: rev a1) (addr_type t2 :: rev a2) in
      (rev mac_key, rev ltk).
Proof. exact f5_correct. Qed.
Print Assumptions C37_f5.

(* the building blocks: the code's left_shift / sub-key generation is RFC 4493's, and the hand-unrolled
   chain with a complete / an incomplete last block is AES-CMAC of a message of ANY number of blocks *)
Theorem C37_subkeys :
  forall aes, block_cipher aes -> forall k, block k ->
    k1_subkey aes k = rev (cmac_K1 aes (rev k)) /\ k2_subkey aes k = rev (cmac_K2 aes (rev k)).
Proof. intros aes H k Hk. split; [exact (proj1 (k1_is_K1 aes H k Hk))|exact (proj1 (k2_is_K2 aes H k Hk))]. Qed.
Theorem C37_cmac_unrolled_complete_last_block :
  forall aes, block_cipher aes -> forall k ms lastm,
    block k -> Forall (fun m => (16 <= length m)%nat) ms -> length lastm = 16%nat ->
    rev (aes_le aes k (xorl (chain_le aes k zero16 ms) (xorl (k1_subkey aes k) lastm)))
    = cmac aes (rev k) (concat (be_blocks ms) ++ rev lastm).
Proof. exact cmac_model_full. Qed.
Theorem C37_cmac_unrolled_incomplete_last_block :
  forall aes, block_cipher aes -> forall k ms lastm p,
    block k -> Forall (fun m => (16 <= length m)%nat) ms -> (0 < length p < 16)%nat -> rev lastm = pad p ->
    rev (aes_le aes k (xorl (chain_le aes k zero16 ms) (xorl (k2_subkey aes k) lastm)))
    = cmac aes (rev k) (concat (be_blocks ms) ++ p).
Proof. exact cmac_model_part. Qed.
Print Assumptions C37_cmac_unrolled_incomplete_last_block.

(* ---- public keys ---- *)
(* The full statement would be about uECC's code (uECC_valid_public_key, ~2700 lines of C, NOT modelled):
   for whatever routine is linked, exactly the affine points of P-256 are accepted. *)
Definition C37_public_key_full : Prop :=
  forall uecc_valid pk, length pk = 64%nat ->
    (is_valid_public_key uecc_valid pk = true <-> on_p256 (le_to_N (firstn 32 pk)) (le_to_N (skipn 32 pk))).
(* Proved: under the hypothesis that uECC's routine decides the curve equation on its big endian
   input, is_valid_public_key accepts exactly the affine points of P-256 given as X || Y, each
   coordinate least significant octet first.  The hypothesis is what is missing; it is tested
   differentially on every run (op "valid": valid points, off-curve points, x >= p, y >= p, zero). *)
Theorem C37_public_key_partial :
  forall uecc_valid, decides_p256 uecc_valid -> forall pk, length pk = 64%nat ->
    (is_valid_public_key uecc_valid pk = true <-> on_p256 (le_to_N (firstn 32 pk)) (le_to_N (skipn 32 pk))).
Proof. exact is_valid_public_key_correct. Qed.
Print Assumptions C37_public_key_partial.
(* without the hypothesis the statement is false, e.g. for a routine that accepts everything *)
Theorem C37_public_key_needs_hypothesis : ~ C37_public_key_full.
Proof. exact public_key_full_refuted. Qed.

(* ---- the executable instance ---- *)
(* the Gallina AES-128 is a block cipher in the sense of the hypothesis, so every theorem above applies to it *)
Theorem C37_aes128_is_block_cipher : block_cipher aes128.
Proof. exact aes128_block'. Qed.
Print Assumptions C37_aes128_is_block_cipher.
(* every trace of the executable model (Gallina AES, curve equation) is accepted by the monitor,
   which compares with the SPEC functions: model and monitor cannot drift apart *)
Theorem C37_monitor_accepts_model : forall ops, monitor (run init ops) = None.
Proof. exact monitor_accepts_model. Qed.
Print Assumptions C37_monitor_accepts_model.

(* ---- the spec is the Core specification's: its sample data, computed with the Gallina AES ---- *)
Example C37_fips197_vector :
  aes128 [0; 1; 2; 3; 4; 5; 6; 7; 8; 9; 10; 11; 12; 13; 14; 15] [0; 17; 34; 51; 68; 85; 102; 119; 136; 153; 170; 187; 204; 221; 238; 255] = [105; 196; 224; 216; 106; 123; 4; 48; 216; 205; 183; 128; 112; 180; 197; 90].
Proof. vm_compute. reflexivity. Qed.
Example C37_rfc4493_subkeys :
  cmac_K1 aes128 [43; 126; 21; 22; 40; 174; 210; 166; 171; 247; 21; 136; 9; 207; 79; 60] = [251; 238; 214; 24; 53; 113; 51; 102; 124; 133; 224; 143; 114; 54; 168; 222] /\
  cmac_K2 aes128 [43; 126; 21; 22; 40; 174; 210; 166; 171; 247; 21; 136; 9; 207; 79; 60] = [247; 221; 172; 48; 106; 226; 102; 204; 249; 11; 193; 30; 228; 109; 81; 59].
Proof. split; vm_compute; reflexivity. Qed.
Example C37_rfc4493_cmac_vectors :
  cmac aes128 [43; 126; 21; 22; 40; 174; 210; 166; 171; 247; 21; 136; 9; 207; 79; 60] [] = [187; 29; 105; 41; 233; 89; 55; 40; 127; 163; 125; 18; 155; 117; 103; 70] /\
  cmac aes128 [43; 126; 21; 22; 40; 174; 210; 166; 171; 247; 21; 136; 9; 207; 79; 60] [107; 193; 190; 226; 46; 64; 159; 150; 233; 61; 126; 17; 115; 147; 23; 42] = [7; 10; 22; 180; 107; 77; 65; 68; 247; 155; 221; 157; 208; 74; 40; 124] /\
  cmac aes128 [43; 126; 21; 22; 40; 174; 210; 166; 171; 247; 21; 136; 9; 207; 79; 60] [107; 193; 190; 226; 46; 64; 159; 150; 233; 61; 126; 17; 115; 147; 23; 42; 174; 45; 138; 87; 30; 3; 172; 156; 158; 183; 111; 172; 69; 175; 142; 81; 48; 200; 28; 70; 163; 92; 228; 17] = [223; 166; 103; 71; 222; 154; 230; 48; 48; 202; 50; 97; 20; 151; 200; 39] /\
  cmac aes128 [43; 126; 21; 22; 40; 174; 210; 166; 171; 247; 21; 136; 9; 207; 79; 60] [107; 193; 190; 226; 46; 64; 159; 150; 233; 61; 126; 17; 115; 147; 23; 42; 174; 45; 138; 87; 30; 3; 172; 156; 158; 183; 111; 172; 69; 175; 142; 81; 48; 200; 28; 70; 163; 92; 228; 17; 229; 251; 193; 25; 26; 10; 82; 239; 246; 159; 36; 69; 223; 79; 155; 23; 173; 43; 65; 123; 230; 108; 55; 16] = [81; 240; 190; 191; 126; 59; 157; 146; 252; 73; 116; 23; 121; 54; 60; 254].
Proof. repeat split; vm_compute; reflexivity. Qed.
Example C37_core_sample_c1 :    (* Vol 3 Part H 2.2.3 *)
  c1_spec aes128 [0; 0; 0; 0; 0; 0; 0; 0; 0; 0; 0; 0; 0; 0; 0; 0] [87; 131; 213; 33; 86; 173; 111; 14; 99; 136; 39; 78; 198; 112; 46; 224] [5; 0; 8; 0; 0; 3; 2; 7; 7; 16; 0; 0; 1; 1; 0; 1] [0; 0; 0; 0; 161; 162; 163; 164; 165; 166; 177; 178; 179; 180; 181; 182] = [30; 30; 63; 239; 135; 137; 136; 234; 210; 167; 77; 197; 190; 241; 59; 134].
Proof. vm_compute. reflexivity. Qed.
Example C37_core_sample_s1 :    (* Vol 3 Part H 2.2.4 *)
  s1_spec aes128 [0; 0; 0; 0; 0; 0; 0; 0; 0; 0; 0; 0; 0; 0; 0; 0] [0; 15; 14; 13; 12; 11; 10; 9; 17; 34; 51; 68; 85; 102; 119; 136] [1; 2; 3; 4; 5; 6; 7; 8; 153; 170; 187; 204; 221; 238; 255; 0] = [154; 31; 225; 240; 232; 176; 244; 155; 91; 66; 22; 174; 121; 109; 160; 98].
Proof. vm_compute. reflexivity. Qed.
Example C37_core_sample_session_key :    (* Vol 6 Part C 1 *)
  session_key_spec aes128 [76; 104; 56; 65; 57; 245; 116; 216; 54; 188; 243; 78; 157; 251; 1; 191] 0xACBDCEDFE0F10213 0x0213243546576879 = [153; 173; 27; 82; 38; 163; 126; 62; 5; 142; 59; 142; 39; 194; 198; 102].
Proof. vm_compute. reflexivity. Qed.
Example C37_core_sample_f4 :    (* Vol 3 Part H D.2 *)
  f4_spec aes128 [32; 176; 3; 210; 242; 151; 190; 44; 94; 44; 131; 167; 233; 249; 165; 185; 239; 244; 145; 17; 172; 244; 253; 219; 204; 3; 1; 72; 14; 53; 157; 230] [85; 24; 139; 61; 50; 246; 187; 154; 144; 10; 252; 251; 238; 212; 231; 42; 89; 203; 154; 194; 241; 157; 124; 251; 107; 79; 221; 73; 244; 127; 197; 253] [213; 203; 132; 84; 209; 119; 115; 62; 255; 255; 178; 236; 113; 43; 174; 171] 0 = [242; 201; 22; 241; 7; 169; 189; 28; 241; 237; 161; 190; 169; 116; 135; 45].
Proof. vm_compute. reflexivity. Qed.
Example C37_core_sample_g2 :    (* D.5 *)
  g2_spec aes128 [32; 176; 3; 210; 242; 151; 190; 44; 94; 44; 131; 167; 233; 249; 165; 185; 239; 244; 145; 17; 172; 244; 253; 219; 204; 3; 1; 72; 14; 53; 157; 230] [85; 24; 139; 61; 50; 246; 187; 154; 144; 10; 252; 251; 238; 212; 231; 42; 89; 203; 154; 194; 241; 157; 124; 251; 107; 79; 221; 73; 244; 127; 197; 253] [213; 203; 132; 84; 209; 119; 115; 62; 255; 255; 178; 236; 113; 43; 174; 171] [166; 232; 231; 204; 37; 167; 95; 110; 33; 101; 131; 247; 255; 61; 196; 207] = 0x2f9ed5ba.
Proof. vm_compute. reflexivity. Qed.
Example C37_core_sample_f5 :    (* D.3: (MacKey, LTK) *)
  f5_spec aes128 [236; 2; 52; 163; 87; 200; 173; 5; 52; 16; 16; 166; 10; 57; 125; 155; 153; 121; 107; 19; 180; 248; 102; 241; 134; 141; 52; 243; 115; 191; 166; 152] [213; 203; 132; 84; 209; 119; 115; 62; 255; 255; 178; 236; 113; 43; 174; 171] [166; 232; 231; 204; 37; 167; 95; 110; 33; 101; 131; 247; 255; 61; 196; 207] [0; 86; 18; 55; 55; 191; 206] [0; 167; 19; 112; 45; 207; 193] = ([41; 101; 241; 118; 161; 8; 74; 2; 253; 63; 106; 32; 206; 99; 110; 32], [105; 134; 121; 17; 105; 215; 205; 35; 152; 5; 34; 181; 148; 117; 10; 56]).
Proof. vm_compute. reflexivity. Qed.
Example C37_core_sample_f6 :    (* D.4 *)
  f6_spec aes128 [41; 101; 241; 118; 161; 8; 74; 2; 253; 63; 106; 32; 206; 99; 110; 32] [213; 203; 132; 84; 209; 119; 115; 62; 255; 255; 178; 236; 113; 43; 174; 171] [166; 232; 231; 204; 37; 167; 95; 110; 33; 101; 131; 247; 255; 61; 196; 207] [18; 163; 52; 59; 180; 83; 187; 84; 8; 218; 66; 210; 12; 45; 15; 200] [1; 1; 2] [0; 86; 18; 55; 55; 191; 206] [0; 167; 19; 112; 45; 207; 193] = [227; 196; 115; 152; 156; 208; 232; 197; 210; 108; 11; 9; 218; 149; 143; 97].
Proof. vm_compute. reflexivity. Qed.
Example C37_core_sample_public_key :    (* D.1.1: public key A is on the curve; with x + 1 it is not *)
  on_p256b (be_to_N [32; 176; 3; 210; 242; 151; 190; 44; 94; 44; 131; 167; 233; 249; 165; 185; 239; 244; 145; 17; 172; 244; 253; 219; 204; 3; 1; 72; 14; 53; 157; 230]) (be_to_N [220; 128; 156; 73; 101; 42; 235; 109; 99; 50; 154; 191; 90; 82; 21; 92; 118; 99; 69; 194; 143; 237; 48; 36; 116; 28; 142; 208; 21; 137; 210; 139]) = true /\
  on_p256b (be_to_N [32; 176; 3; 210; 242; 151; 190; 44; 94; 44; 131; 167; 233; 249; 165; 185; 239; 244; 145; 17; 172; 244; 253; 219; 204; 3; 1; 72; 14; 53; 157; 230] + 1) (be_to_N [220; 128; 156; 73; 101; 42; 235; 109; 99; 50; 154; 191; 90; 82; 21; 92; 118; 99; 69; 194; 143; 237; 48; 36; 116; 28; 142; 208; 21; 137; 210; 139]) = false.
Proof. split; vm_compute; reflexivity. Qed.
(* the monitor is not trivially accepting: a c1 result with p1 / p2 exchanged is rejected *)
Example C37_monitor_rejects_swapped_c1 :
  monitor [(C1 (rev [0; 0; 0; 0; 0; 0; 0; 0; 0; 0; 0; 0; 0; 0; 0; 0]) (rev [87; 131; 213; 33; 86; 173; 111; 14; 99; 136; 39; 78; 198; 112; 46; 224]) (rev [5; 0; 8; 0; 0; 3; 2; 7; 7; 16; 0; 0; 1; 1; 0; 1]) (rev [0; 0; 0; 0; 161; 162; 163; 164; 165; 166; 177; 178; 179; 180; 181; 182]),
            OBytes (rev (c1_spec aes128 [0; 0; 0; 0; 0; 0; 0; 0; 0; 0; 0; 0; 0; 0; 0; 0] [87; 131; 213; 33; 86; 173; 111; 14; 99; 136; 39; 78; 198; 112; 46; 224] [0; 0; 0; 0; 161; 162; 163; 164; 165; 166; 177; 178; 179; 180; 181; 182] [5; 0; 8; 0; 0; 3; 2; 7; 7; 16; 0; 0; 1; 1; 0; 1])))] = Some (0%nat, t_c1).
Proof. vm_compute. reflexivity. Qed.

(* ---- constants and layouts re-read from the sources on every run ---- *)
From BT Require gen.GenToolBox.
Example C37_constants_are_the_codes :
  GenToolBox.f5_salt = f5_salt /\ rev GenToolBox.f5_salt = f5_SALT /\
  GenToolBox.f5_m0_fill = f5_m0_fill /\ rev f5_m0_fill = f5_keyID /\
  GenToolBox.f5_m3_fill = f5_m3_fill /\
  GenToolBox.cmac_C_k1 = [0x87] /\ GenToolBox.cmac_C_k2 = [0x87] /\ rev cmac_C = const_Rb /\
  GenToolBox.f4_m4 = repeat 0 14 ++ [0x80] /\
  GenToolBox.f5_buffer_size = 64 /\ GenToolBox.f5_offsets = [59; 10; 43; 27; 26; 20; 19; 13; 63] /\
  GenToolBox.f6_buffer_size = 32 /\ GenToolBox.f6_offsets = [29; 28; 22; 21; 15; 14; 16; 0] /\
  GenToolBox.skdm_offset = 0 /\ GenToolBox.skds_offset = 8.
Proof. repeat split; reflexivity. Qed.
(* the reference AES of the tests (tests/test_tools/aes.c), which plays the ECB peripheral in the
   harness, has the same S-box as the Gallina AES *)
Example C37_aes_c_sbox : GenToolBox.aes_c_sbox = sbox.
Proof. vm_compute. reflexivity. Qed.
