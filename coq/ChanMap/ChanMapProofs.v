(* Proofs for C20 (channel_map.cpp against Channel Selection Algorithm #1).
   All statements about channel maps are for EVERY map (a list of 5 octets): the proofs are
   structural (the r-th element of filter over seq; invariants of the two C++ loops), nothing
   enumerates maps. Finite sweeps (vm_compute + forallb_forall) are used only over
   hop 1..36 x index 0..36 (injectivity of the unmapped sequence on one period). *)
From Coq Require Import Sorted.
From BT Require Import Base.ListX ChanMap.ChanMapModel ChanMap.ChanMapSpec.

(* ------------------------------------------------------------------ bits *)
Lemma land_pow2_testbit (b n : N) :
  negb (N.eqb (N.land b (N.shiftl 1 n)) 0) = N.testbit b n.
Proof.
  rewrite N.shiftl_1_l.
  destruct (N.testbit b n) eqn:T.
  - destruct (N.eqb_spec (N.land b (2 ^ n)) 0) as [E|E]; [|reflexivity].
    assert (H : N.testbit (N.land b (2 ^ n)) n = true)
      by (rewrite N.land_spec, T, N.pow2_bits_true; reflexivity).
    rewrite E, N.bits_0 in H. discriminate.
  - replace (N.land b (2 ^ n)) with 0%N; [reflexivity|].
    symmetry. apply N.bits_inj_0. intros m.
    rewrite N.land_spec, N.pow2_bits_eqb.
    destruct (N.eqb_spec n m) as [->|_]; [rewrite T; reflexivity|apply andb_false_r].
Qed.

Lemma in_map_used_bit map index :
  index / 8 < length map -> in_map map index = Some (used_bit map index).
Proof.
  intros H. unfold in_map, used_bit.
  destruct (Nat.ltb_spec (index / 8) (length map)); [|lia].
  rewrite land_pow2_testbit. reflexivity.
Qed.

Lemma in_map_5 map c : length map = 5 -> c < 37 -> in_map map c = Some (used_bit map c).
Proof.
  intros L C. apply in_map_used_bit. rewrite L.
  apply Nat.div_lt_upper_bound; lia.
Qed.

(* ------------------------------------------------------------------ the unmapped sequence *)
Lemma last_unmapped_closed hop k : last_unmapped hop k = (k * hop) mod 37.
Proof.
  induction k as [|k IH]; [reflexivity|].
  cbn [last_unmapped]. rewrite IH, Nat.add_mod_idemp_l by lia.
  f_equal. lia.
Qed.

Lemma unmapped_closed hop k : unmapped hop k = (S k * hop) mod 37.
Proof.
  unfold unmapped. rewrite last_unmapped_closed, Nat.add_mod_idemp_l by lia. f_equal. lia.
Qed.

Lemma unmapped_0 hop : unmapped hop 0 = hop mod 37.
Proof. reflexivity. Qed.

Lemma unmapped_S hop k : unmapped hop (S k) = (unmapped hop k + hop) mod 37.
Proof. reflexivity. Qed.

Lemma unmapped_lt hop k : unmapped hop k < 37.
Proof. unfold unmapped. apply Nat.mod_upper_bound. lia. Qed.

Lemma unmapped_period hop k : unmapped hop (k mod 37) = unmapped hop k.
Proof.
  rewrite !unmapped_closed.
  rewrite (Nat.mul_mod (S (k mod 37))), (Nat.mul_mod (S k)) by lia.
  f_equal. f_equal.
  replace (S (k mod 37)) with (k mod 37 + 1) by lia.
  replace (S k) with (k + 1) by lia.
  apply Nat.add_mod_idemp_l. lia.
Qed.

Lemma unmapped_plus_37 hop k : unmapped hop (k + 37) = unmapped hop k.
Proof.
  rewrite <- (unmapped_period hop (k + 37)), <- (unmapped_period hop k).
  f_equal. rewrite <- Nat.add_mod_idemp_r by lia. rewrite Nat.mod_same by lia.
  f_equal. lia.
Qed.

(* 37 is prime: for 0 < hop < 37 the 37 values of one period are pairwise different *)
Lemma forallb_seq (f : nat -> bool) a n :
  forallb f (seq a n) = true -> forall x, a <= x < a + n -> f x = true.
Proof. intros H x Hx. rewrite forallb_forall in H. apply H, in_seq. exact Hx. Qed.

Definition inj_cell (hop i j : nat) : bool :=
  Nat.eqb i j || negb (Nat.eqb ((S i * hop) mod 37) ((S j * hop) mod 37)).
(* stated on the unfolded term: the kernel must not be asked to convert a name with its body here *)
Lemma inj_sweep_true :
  forallb (fun hop => forallb (fun i => forallb (fun j => inj_cell hop i j) (seq 0 37)) (seq 0 37)) (seq 1 36) = true.
Proof. vm_compute. reflexivity. Qed.

Lemma inj_cell_true hop i j : 0 < hop < 37 -> i < 37 -> j < 37 -> inj_cell hop i j = true.
Proof.
  intros Hh Hi Hj.
  pose proof (forallb_seq _ _ _ inj_sweep_true hop ltac:(lia)) as S1. cbv beta in S1.
  pose proof (forallb_seq _ _ _ S1 i ltac:(lia)) as S2. cbv beta in S2.
  exact (forallb_seq _ _ _ S2 j ltac:(lia)).
Qed.

Lemma unmapped_inj_on_period hop i j :
  0 < hop < 37 -> i < 37 -> j < 37 -> unmapped hop i = unmapped hop j -> i = j.
Proof.
  intros Hh Hi Hj E. rewrite !unmapped_closed in E.
  pose proof (inj_cell_true hop i j Hh Hi Hj) as S. unfold inj_cell in S.
  apply orb_true_iff in S. destruct S as [S|S].
  - apply Nat.eqb_eq in S. exact S.
  - rewrite E, Nat.eqb_refl in S. discriminate.
Qed.

Lemma unmapped_eq_iff hop j k :
  0 < hop < 37 -> (unmapped hop j = unmapped hop k <-> j mod 37 = k mod 37).
Proof.
  intros Hh. split; intros E.
  - rewrite <- (unmapped_period hop j), <- (unmapped_period hop k) in E.
    apply (unmapped_inj_on_period hop); auto; apply Nat.mod_upper_bound; lia.
  - rewrite <- (unmapped_period hop j), <- (unmapped_period hop k), E. reflexivity.
Qed.

(* ------------------------------------------------------------------ the used list *)
Lemma filter_seq_S (f : nat -> bool) c :
  filter f (seq 0 (S c)) = filter f (seq 0 c) ++ (if f c then [c] else []).
Proof. rewrite seq_S, filter_app. reflexivity. Qed.

Lemma filter_length_le (A : Type) (f : A -> bool) l : length (filter f l) <= length l.
Proof. induction l as [|h t IH]; simpl; [lia|]. destruct (f h); simpl; lia. Qed.
Arguments filter_length_le {A} f l.

Lemma used_list_In map c : In c (used_list map) <-> c < 37 /\ used_bit map c = true.
Proof. unfold used_list. rewrite filter_In, in_seq. intuition lia. Qed.

Lemma num_used_le map : num_used map <= 37.
Proof.
  unfold num_used, used_list.
  pose proof (filter_length_le (used_bit map) (seq 0 37)) as H. rewrite seq_length in H. exact H.
Qed.

Lemma sorted_seq a n : StronglySorted lt (seq a n).
Proof.
  revert a; induction n as [|n IH]; intros a; simpl; constructor; auto.
  apply Forall_forall. intros x Hx. apply in_seq in Hx. lia.
Qed.

Lemma sorted_filter (f : nat -> bool) l : StronglySorted lt l -> StronglySorted lt (filter f l).
Proof.
  induction 1 as [|a l S IH F]; simpl; [constructor|].
  destruct (f a); auto. constructor; auto.
  rewrite Forall_forall in *. intros x Hx. apply filter_In in Hx. apply F. tauto.
Qed.

(* "the table of used channels in ascending order" *)
Lemma used_list_sorted map : StronglySorted lt (used_list map).
Proof. apply sorted_filter, sorted_seq. Qed.

Lemma used_list_nth_In map r : r < num_used map -> In (nth r (used_list map) 0) (used_list map).
Proof. unfold num_used. intros H. apply nth_In. exact H. Qed.

Lemma used_list_ext m1 m2 :
  (forall c, c < 37 -> used_bit m1 c = used_bit m2 c) -> used_list m1 = used_list m2.
Proof.
  intros H. unfold used_list. apply filter_ext_in. intros c Hc. apply in_seq in Hc. apply H. lia.
Qed.

Lemma used_list_def map : used_list map = filter (used_bit map) (seq 0 37).
Proof. reflexivity. Qed.
Lemma num_used_def map : num_used map = length (used_list map).
Proof. reflexivity. Qed.
(* from here on the used list is only handled through the lemmas above (its body is a 37-fold
   nested conditional that unification must not open) *)
Global Opaque used_list num_used.

(* ------------------------------------------------------------------ CSA#1: sanity of the spec *)
Lemma csa1_used map hop k :
  1 <= num_used map -> csa1 map hop k < 37 /\ used_bit map (csa1 map hop k) = true.
Proof.
  intros H. unfold csa1, csa1_with.
  destruct (used_bit map (unmapped hop k)) eqn:U.
  - split; [apply unmapped_lt|exact U].
  - apply (proj1 (used_list_In _ _)), used_list_nth_In, Nat.mod_upper_bound. lia.
Qed.

Lemma csa1_period map hop k : csa1 map hop (k mod 37) = csa1 map hop k.
Proof. unfold csa1. rewrite unmapped_period. reflexivity. Qed.

Lemma csa1_ext m1 m2 hop k :
  (forall c, c < 37 -> used_bit m1 c = used_bit m2 c) -> csa1 m1 hop k = csa1 m2 hop k.
Proof.
  intros H. unfold csa1, csa1_with. rewrite !num_used_def.
  rewrite (used_list_ext m1 m2 H), (H (unmapped hop k) (unmapped_lt hop k)). reflexivity.
Qed.

Lemma table_from_length map ul n hop cnt u : length (table_from map ul n hop cnt u) = cnt.
Proof. revert u; induction cnt as [|c IH]; intros u; simpl; auto. Qed.

Lemma table_from_nth map hop cnt : forall j i d,
  i < cnt ->
  nth i (table_from map (used_list map) (num_used map) hop cnt (unmapped hop j)) d
  = N.of_nat (csa1 map hop (j + i)).
Proof.
  induction cnt as [|c IH]; intros j i d Hi; [lia|].
  cbn [table_from]. destruct i as [|i].
  - cbn [nth]. rewrite Nat.add_0_r. reflexivity.
  - cbn [nth]. rewrite <- unmapped_S, IH by lia. f_equal. f_equal. lia.
Qed.

Lemma csa1_table_length map hop : length (csa1_table map hop) = 37.
Proof. apply table_from_length. Qed.

Lemma csa1_table_nth map hop k d :
  k < 37 -> nth k (csa1_table map hop) d = N.of_nat (csa1 map hop k).
Proof.
  intros H. unfold csa1_table. cbv zeta. rewrite <- unmapped_0, <- num_used_def.
  rewrite table_from_nth by exact H. reflexivity.
Qed.

(* ------------------------------------------------------------------ the two loops of reset() *)
Lemma wr_ok (A : Type) (a : list A) i v : i < length a -> wr a i v = Some (upd a i v).
Proof. intros H. unfold wr. destruct (Nat.ltb_spec i (length a)); [reflexivity|lia]. Qed.

Lemma byte_small c : c < 37 -> (N.of_nat c mod 256)%N = N.of_nat c.
Proof. intros H. apply N.mod_small. lia. Qed.

Section Loops.
  Variable map : list N.
  Hypothesis Lmap : length map = 5.
  Let acc (c : nat) : list nat := filter (used_bit map) (seq 0 c).

  Lemma acc_length c : length (acc c) <= c.
  Proof. unfold acc. pose proof (filter_length_le (used_bit map) (seq 0 c)) as H. rewrite seq_length in H. exact H. Qed.

  (* build_used_channel_map: count = number of used channels, used[r] = r-th used channel *)
  Lemma build_used_ok : forall rem channel used count,
    channel + rem = 37 -> length used = 37 -> count = length (acc channel) ->
    (forall r, r < count -> nth r used None = Some (N.of_nat (nth r (acc channel) 0))) ->
    exists used', build_used map rem channel used count = Some (used', num_used map) /\
      length used' = 37 /\
      forall r, r < num_used map -> nth r used' None = Some (N.of_nat (nth r (used_list map) 0)).
  Proof.
    induction rem as [|rem IH]; intros channel used count Hc Hl Hcount Hu.
    - cbn [build_used]. assert (channel = 37) by lia. subst channel.
      exists used. rewrite num_used_def, used_list_def. fold (acc 37). rewrite <- Hcount. auto.
    - cbn [build_used]. rewrite (in_map_5 map channel Lmap) by lia.
      pose proof (acc_length channel) as Hle.
      assert (Hacc : acc (S channel) = acc channel ++ (if used_bit map channel then [channel] else []))
        by apply filter_seq_S.
      destruct (used_bit map channel) eqn:U.
      + rewrite wr_ok by lia. rewrite byte_small by lia.
        apply IH; try lia.
        * rewrite upd_length. exact Hl.
        * rewrite Hacc, app_length. simpl. lia.
        * intros r Hr. rewrite Hacc.
          destruct (Nat.eq_dec r count) as [->|Hne].
          -- rewrite nth_upd_eq by lia. rewrite app_nth2 by lia.
             replace (count - length (acc channel)) with 0 by lia. reflexivity.
          -- rewrite nth_upd_neq by lia. rewrite app_nth1 by lia. apply Hu. lia.
      + apply IH; try lia; auto.
        * rewrite Hacc, app_nil_r. exact Hcount.
        * intros r Hr. rewrite Hacc, app_nil_r. apply Hu. exact Hr.
  Qed.

  Lemma build_used_37 :
    exists used, build_used map 37 0 (repeat None 37) 0 = Some (used, num_used map) /\
      forall r, r < num_used map -> nth r used None = Some (N.of_nat (nth r (used_list map) 0)).
  Proof.
    destruct (build_used_ok 37 0 (repeat None 37) 0) as (u & E & _ & H); auto.
    - intros r Hr. lia.
    - exists u. auto.
  Qed.

  Variable used : list (option N).
  Variable hop : nat.
  Hypothesis Hused : forall r, r < num_used map -> nth r used None = Some (N.of_nat (nth r (used_list map) 0)).
  Hypothesis Hn : 1 <= num_used map.

  (* the fill loop: entry i = CSA#1 channel of event i, earlier entries untouched *)
  Lemma fill_ok : forall rem index t0,
    index + rem = 37 -> length t0 = 37 ->
    exists t, fill map used (num_used map) hop rem index (unmapped hop index) t0 = Some t /\
      length t = 37 /\
      (forall i, i < index -> nth i t 0%N = nth i t0 0%N) /\
      (forall i, index <= i < 37 -> nth i t 0%N = N.of_nat (csa1 map hop i)).
  Proof.
    induction rem as [|rem IH]; intros index t0 Hi Hl.
    - cbn [fill]. exists t0. split; [reflexivity|]. split; [exact Hl|]. split; [reflexivity|]. intros i H. lia.
    - cbn [fill]. unfold max_number_of_data_channels.
      pose proof (unmapped_lt hop index) as Hu.
      rewrite (in_map_5 map _ Lmap Hu). rewrite <- unmapped_S.
      assert (Hcs : N.of_nat (csa1 map hop index) =
                    if used_bit map (unmapped hop index) then N.of_nat (unmapped hop index)
                    else N.of_nat (nth (unmapped hop index mod num_used map) (used_list map) 0)).
      { unfold csa1, csa1_with. destruct (used_bit map (unmapped hop index)); reflexivity. }
      assert (Hstep : forall v, v = N.of_nat (csa1 map hop index) ->
                exists t, fill map used (num_used map) hop rem (S index) (unmapped hop (S index)) (upd t0 index v) = Some t /\
                  length t = 37 /\
                  (forall i, i < index -> nth i t 0%N = nth i t0 0%N) /\
                  (forall i, index <= i < 37 -> nth i t 0%N = N.of_nat (csa1 map hop i))).
      { intros v Hv.
        destruct (IH (S index) (upd t0 index v)) as (t & E & L & Hlo & Hhi); [lia|rewrite upd_length; exact Hl|].
        exists t. split; [exact E|]. split; [exact L|]. split.
        - intros i H. rewrite Hlo by lia. apply nth_upd_neq. lia.
        - intros i H. destruct (Nat.eq_dec i index) as [->|Hne].
          + rewrite Hlo by lia. rewrite nth_upd_eq by lia. exact Hv.
          + apply Hhi. lia. }
      destruct (used_bit map (unmapped hop index)) eqn:U.
      + rewrite wr_ok by lia. apply Hstep. rewrite byte_small by exact Hu. auto.
      + rewrite Hused by (apply Nat.mod_upper_bound; lia).
        rewrite wr_ok by lia. apply Hstep. auto.
  Qed.
End Loops.

(* ------------------------------------------------------------------ reset() *)
Definition hop_ok (hop : N) : Prop := (5 <= hop <= 16)%N.

Lemma valid_hop_iff hop : valid_hop hop = true <-> hop_ok hop.
Proof. unfold valid_hop, hop_ok. rewrite andb_true_iff, !N.leb_le. tauto. Qed.

Lemma hop_check hop : ((hop <? 5) || (16 <? hop))%N = negb (valid_hop hop).
Proof.
  unfold valid_hop. rewrite negb_andb, !N.leb_antisym, !negb_involutive. reflexivity.
Qed.

(* accepted: every entry of the table is the CSA#1 channel *)
Lemma reset_accepts s map hop :
  length map = 5 -> hop_ok hop -> 2 <= num_used map -> length (tbl s) = 37 ->
  exists t, reset_impl s map hop = (mk t hop (dead s), OBool true) /\
    t = csa1_table map (N.to_nat hop).
Proof.
  intros Lm Hh Hn Lt. unfold reset_impl. rewrite hop_check.
  rewrite (proj2 (valid_hop_iff hop) Hh). cbn [negb].
  unfold max_number_of_data_channels.
  destruct (build_used_37 map Lm) as (used & -> & Hused).
  destruct (Nat.ltb_spec (num_used map) 2); [lia|].
  cbn [tbl hop_ dead].
  assert (H37 : N.to_nat hop < 37) by (unfold hop_ok in Hh; lia).
  pose proof (fill_ok map Lm used (N.to_nat hop) Hused ltac:(lia) 37 0 (tbl s) eq_refl Lt) as (t & E & L & _ & Hhi).
  rewrite unmapped_0, Nat.mod_small in E by exact H37. rewrite E.
  exists t. split.
  - f_equal. f_equal. apply N.mod_small. unfold hop_ok in Hh. lia.
  - apply nth_ext_len with (d := 0%N); [rewrite csa1_table_length; exact L|].
    intros i Hi. rewrite L in Hi. rewrite csa1_table_nth by exact Hi. apply Hhi. lia.
Qed.

(* rejected: the table is left as it is (hop_ follows the code: assigned when the hop is in range) *)
Lemma reset_rejects s map hop :
  length map = 5 -> ~ hop_ok hop \/ num_used map < 2 ->
  exists h, reset_impl s map hop = (mk (tbl s) h (dead s), OBool false) /\
    (~ hop_ok hop -> h = hop_ s) /\ (hop_ok hop -> h = hop).
Proof.
  intros Lm Hbad. unfold reset_impl. rewrite hop_check.
  destruct (valid_hop hop) eqn:V; cbn [negb].
  - apply valid_hop_iff in V. destruct Hbad as [Hbad|Hbad]; [tauto|].
    unfold max_number_of_data_channels.
    destruct (build_used_37 map Lm) as (used & -> & _).
    destruct (Nat.ltb_spec (num_used map) 2); [|lia].
    exists (hop mod 256)%N. split; [reflexivity|]. split; [tauto|].
    intros _. apply N.mod_small. unfold hop_ok in V. lia.
  - exists (hop_ s). split; [destruct s; reflexivity|]. split; [reflexivity|].
    intros H. apply valid_hop_iff in H. congruence.
Qed.

Lemma reset_result s map hop :
  length map = 5 -> length (tbl s) = 37 ->
  let '(s', r) := reset_impl s map hop in
  r = OBool (valid_hop hop && valid_map map) /\ dead s' = dead s /\ length (tbl s') = 37 /\
  hop_ s' = (if valid_hop hop then hop else hop_ s) /\
  tbl s' = (if valid_hop hop && valid_map map then csa1_table map (N.to_nat hop) else tbl s).
Proof.
  intros Lm Lt.
  destruct (valid_hop hop) eqn:V.
  - pose proof (proj1 (valid_hop_iff hop) V) as Hh.
    destruct (valid_map map) eqn:M; unfold valid_map in M.
    + apply Nat.leb_le in M.
      destruct (reset_accepts s map hop Lm Hh M Lt) as (t & -> & ->).
      cbn [andb tbl hop_ dead]. rewrite csa1_table_length.
      split; [reflexivity|]. split; [reflexivity|]. split; [reflexivity|]. split; reflexivity.
    + apply Nat.leb_gt in M.
      destruct (reset_rejects s map hop Lm (or_intror M)) as (h & -> & _ & Hhop).
      cbn [andb tbl hop_ dead].
      split; [reflexivity|]. split; [reflexivity|]. split; [exact Lt|]. split; [exact (Hhop Hh)|reflexivity].
  - assert (Hn : ~ hop_ok hop) by (rewrite <- valid_hop_iff, V; discriminate).
    destruct (reset_rejects s map hop Lm (or_introl Hn)) as (h & -> & Hh & _).
    cbn [andb tbl hop_ dead].
    split; [reflexivity|]. split; [reflexivity|]. split; [exact Lt|]. split; [exact (Hh Hn)|reflexivity].
Qed.

(* ------------------------------------------------------------------ headline statements about reset / data_channel *)
Definition wf_state (s : state) : Prop := dead s = false /\ length (tbl s) = 37.

Lemma init_wf : wf_state init.
Proof. split; reflexivity. Qed.

(* for EVERY map, hop and event number: the channel after an accepted reset is CSA#1's *)
Theorem data_channel_is_csa1 (s : state) (map : list N) (hop : N) (k : nat) :
  wf_state s -> length map = 5 -> hop_ok hop -> 2 <= num_used map ->
  let '(s', r) := step s (Reset map hop) in
  r = OBool true /\ wf_state s' /\
  snd (step s' (Chan (k mod 37))) = OChan (N.of_nat (csa1 map (N.to_nat hop) k)).
Proof.
  intros [D L] Lm Hh Hn. unfold step. rewrite D.
  destruct (reset_accepts s map hop Lm Hh Hn L) as (t & -> & ->).
  split; [reflexivity|]. split.
  - split; [exact D|apply csa1_table_length].
  - cbn [dead tbl]. rewrite D. unfold max_number_of_data_channels.
    assert (Hk : k mod 37 < 37) by (apply Nat.mod_upper_bound; lia).
    destruct (Nat.ltb_spec (k mod 37) 37); [|lia].
    cbn [snd]. rewrite csa1_table_nth by exact Hk. rewrite csa1_period. reflexivity.
Qed.

(* the same for reset( map ) with the stored hop *)
Theorem remap_is_csa1 (s : state) (map : list N) (k : nat) :
  wf_state s -> length map = 5 -> hop_ok (hop_ s) -> 2 <= num_used map ->
  let '(s', r) := step s (Remap map) in
  r = OBool true /\ wf_state s' /\ hop_ s' = hop_ s /\
  snd (step s' (Chan (k mod 37))) = OChan (N.of_nat (csa1 map (N.to_nat (hop_ s)) k)).
Proof.
  intros [D L] Lm Hh Hn. unfold step. rewrite D.
  destruct (reset_accepts s map (hop_ s) Lm Hh Hn L) as (t & -> & ->).
  split; [reflexivity|]. split; [|split].
  - split; [exact D|apply csa1_table_length].
  - reflexivity.
  - cbn [dead tbl]. rewrite D. unfold max_number_of_data_channels.
    assert (Hk : k mod 37 < 37) by (apply Nat.mod_upper_bound; lia).
    destruct (Nat.ltb_spec (k mod 37) 37); [|lia].
    cbn [snd]. rewrite csa1_table_nth by exact Hk. rewrite csa1_period. reflexivity.
Qed.

(* a hop outside 5..16 or fewer than two used channels: false, table untouched *)
Theorem reset_rejected_unchanged (s : state) (map : list N) (hop : N) :
  wf_state s -> length map = 5 -> ~ hop_ok hop \/ num_used map < 2 ->
  let '(s', r) := step s (Reset map hop) in
  r = OBool false /\ tbl s' = tbl s /\ wf_state s' /\
  forall i, snd (step s' (Chan i)) = snd (step s (Chan i)).
Proof.
  intros [D L] Lm Hbad. unfold step. rewrite D.
  destruct (reset_rejects s map hop Lm Hbad) as (h & -> & _).
  cbn [tbl dead]. rewrite D. split; [reflexivity|]. split; [reflexivity|]. split; [split; [reflexivity|exact L]|]. intros i. destruct (i <? max_number_of_data_channels); reflexivity.
Qed.

Theorem remap_rejected_unchanged (s : state) (map : list N) :
  wf_state s -> length map = 5 -> ~ hop_ok (hop_ s) \/ num_used map < 2 ->
  fst (step s (Remap map)) = s /\ snd (step s (Remap map)) = OBool false.
Proof.
  intros [D L] Lm Hbad. unfold step. rewrite D.
  pose proof (reset_result s map (hop_ s) Lm L) as R.
  destruct (reset_impl s map (hop_ s)) as [s' r]. destruct R as (-> & Hd & _ & Hh & Ht).
  assert (V : valid_hop (hop_ s) && valid_map map = false).
  { destruct Hbad as [Hb|Hb].
    - destruct (valid_hop (hop_ s)) eqn:V; [apply valid_hop_iff in V; tauto|reflexivity].
    - unfold valid_map. destruct (Nat.leb_spec 2 (num_used map)); [lia|apply andb_false_r]. }
  rewrite V in *. cbn [fst snd]. split; [|reflexivity].
  destruct s' as [t' h' d'], s as [t h d]. cbn [tbl hop_ dead] in *.
  subst. destruct (valid_hop h); reflexivity.
Qed.

(* the bits 37..39 of the map are ignored *)
Theorem high_bits_ignored (s : state) (m1 m2 : list N) (hop : N) :
  wf_state s -> length m1 = 5 -> length m2 = 5 ->
  (forall c, c < 37 -> used_bit m1 c = used_bit m2 c) ->
  step s (Reset m1 hop) = step s (Reset m2 hop).
Proof.
  intros [D L] L1 L2 H. unfold step. rewrite D.
  pose proof (reset_result s m1 hop L1 L) as R1. pose proof (reset_result s m2 hop L2 L) as R2.
  destruct (reset_impl s m1 hop) as [s1 r1], (reset_impl s m2 hop) as [s2 r2].
  destruct R1 as (-> & D1 & _ & H1 & T1), R2 as (-> & D2 & _ & H2 & T2).
  assert (Ev : valid_map m1 = valid_map m2)
    by (unfold valid_map; rewrite !num_used_def, (used_list_ext m1 m2 H); reflexivity).
  assert (Et : csa1_table m1 (N.to_nat hop) = csa1_table m2 (N.to_nat hop)).
  { apply nth_ext_len with (d := 0%N); [rewrite !csa1_table_length; reflexivity|].
    intros i Hi. rewrite csa1_table_length in Hi. rewrite !csa1_table_nth by exact Hi.
    f_equal. apply csa1_ext, H. }
  rewrite Ev in *. rewrite Et in *.
  destruct s1 as [t1 h1 d1], s2 as [t2 h2 d2]. cbn [tbl hop_ dead] in *. subst. reflexivity.
Qed.

(* ------------------------------------------------------------------ the monitor accepts every run of the model *)
Definition seen_ok (t : list N) (seen : list (option N)) : Prop :=
  forall i c, nth i seen None = Some c -> nth i t 0%N = c.

Definition tbl_ok (t : list N) (e : option (list N)) (seen : list (option N)) : Prop :=
  match e with Some x => t = x | None => seen_ok t seen end.

Record Inv (s : state) (m : mon) : Prop := mkInv {
  inv_dead : dead s = m_dead m;
  inv_len : length (tbl s) = 37;
  inv_hop : hop_ s = match m_hop m with Some h => N.of_nat h | None => 0%N end;
  inv_hop_ok : forall h, m_hop m = Some h -> 5 <= h <= 16;
  inv_tbl : tbl_ok (tbl s) (m_exp m) (m_seen m) }.

Lemma nth_repeat_default (A : Type) (x : A) n i : nth i (repeat x n) x = x.
Proof. revert i; induction n as [|n IH]; intros [|i]; simpl; auto. Qed.

Lemma seen_ok_empty t : seen_ok t (repeat None 37).
Proof. intros i c H. rewrite nth_repeat_default in H. discriminate. Qed.

Lemma Inv_init : Inv init minit.
Proof.
  constructor; try reflexivity.
  - intros h H. discriminate.
  - apply seen_ok_empty.
Qed.

Lemma check_entry_model t e hp seen rj dd i :
  i < 37 -> length t = 37 -> tbl_ok t e seen ->
  exists seen', check_entry (mkm e hp seen rj dd) i (nth i t 0%N) = (Ok, mkm e hp seen' rj dd) /\
    tbl_ok t e seen'.
Proof.
  intros Hi Hl Hok. unfold check_entry. cbn [m_exp m_seen m_hop m_rej m_dead].
  destruct e as [x|].
  - cbn [tbl_ok] in Hok. subst x.
    rewrite (nth_indep t poison 0%N) by lia. rewrite N.eqb_refl. exists seen. split; [reflexivity|reflexivity].
  - cbn [tbl_ok] in *. destruct (nth i seen None) as [c'|] eqn:Es.
    + rewrite (Hok i c' Es), N.eqb_refl. exists seen. auto.
    + eexists. split; [reflexivity|].
      intros j c Hj. destruct (Nat.lt_ge_cases i (length seen)) as [Hlt|Hge].
      * destruct (Nat.eq_dec j i) as [->|Hne].
        -- rewrite nth_upd_eq in Hj by exact Hlt. inversion Hj. reflexivity.
        -- rewrite nth_upd_neq in Hj by lia. apply Hok. exact Hj.
      * rewrite upd_out in Hj by exact Hge. apply Hok. exact Hj.
Qed.

Lemma check_all_model t e hp rj dd : forall l i seen,
  i + length l = 37 -> length t = 37 ->
  (forall j, j < length l -> nth j l 0%N = nth (i + j) t 0%N) ->
  tbl_ok t e seen ->
  exists seen', check_all (mkm e hp seen rj dd) i l = (Ok, mkm e hp seen' rj dd) /\ tbl_ok t e seen'.
Proof.
  induction l as [|c l IH]; intros i seen Hi Hl Hnth Hok.
  - exists seen. split; [reflexivity|exact Hok].
  - cbn [check_all]. cbn [length] in Hi.
    assert (Hc : c = nth i t 0%N).
    { specialize (Hnth 0 ltac:(cbn [length]; lia)). cbn [nth] in Hnth. rewrite Nat.add_0_r in Hnth. exact Hnth. }
    subst c.
    destruct (check_entry_model t e hp seen rj dd i ltac:(lia) Hl Hok) as (seen1 & -> & Hok1).
    apply IH; auto; try lia.
    intros j Hj. specialize (Hnth (S j) ltac:(cbn [length]; lia)). cbn [nth] in Hnth.
    rewrite Hnth. f_equal. lia.
Qed.

Lemma eqb_refl_neg b : negb (Bool.eqb b b) = false.
Proof. destruct b; reflexivity. Qed.

Lemma step_accepted s m o :
  Inv s m -> wf_op o ->
  let '(s', r) := step s o in exists m', mstep m o r = (Ok, m') /\ Inv s' m'.
Proof.
  intros [Hd Hl Hh Hhok Ht] Hwf. unfold step, mstep.
  destruct (dead s) eqn:D; rewrite <- Hd.
  { exists m. split; [reflexivity|]. apply mkInv; [congruence|exact Hl|exact Hh|exact Hhok|exact Ht]. }
  destruct m as [e hp seen rj dd]. cbn [m_exp m_hop m_seen m_rej m_dead] in *. subst dd.
  destruct o as [map hop|map|i|]; cbn [wf_op] in Hwf.
  - (* reset( map, hop ) *)
    pose proof (reset_result s map hop Hwf Hl) as R.
    destruct (reset_impl s map hop) as [s' r]. destruct R as (-> & Hd' & Hl' & Hh' & Ht').
    unfold m_reset. cbn [m_exp m_hop m_seen m_rej m_dead].
    destruct (valid_hop hop) eqn:V.
    + assert (Hr : 5 <= N.to_nat hop <= 16) by (apply valid_hop_iff in V; unfold hop_ok in V; lia).
      cbn [andb] in *. rewrite eqb_refl_neg. destruct (valid_map map) eqn:M.
      * eexists. split; [reflexivity|]. apply mkInv; cbn [m_exp m_hop m_seen m_rej m_dead].
        -- rewrite Hd'. exact D.
        -- exact Hl'.
        -- rewrite Hh'. symmetry. apply N2Nat.id.
        -- intros h Eh. inversion Eh. subst h. exact Hr.
        -- exact Ht'.
      * eexists. split; [reflexivity|]. apply mkInv; cbn [m_exp m_hop m_seen m_rej m_dead].
        -- rewrite Hd'. exact D.
        -- exact Hl'.
        -- rewrite Hh'. symmetry. apply N2Nat.id.
        -- intros h Eh. inversion Eh. subst h. exact Hr.
        -- rewrite Ht'. exact Ht.
    + cbn [andb Bool.eqb negb] in *. eexists. split; [reflexivity|].
      apply mkInv; cbn [m_exp m_hop m_seen m_rej m_dead].
      * rewrite Hd'. exact D.
      * exact Hl'.
      * rewrite Hh'. exact Hh.
      * exact Hhok.
      * rewrite Ht'. exact Ht.
  - (* reset( map ) *)
    pose proof (reset_result s map (hop_ s) Hwf Hl) as R.
    destruct (reset_impl s map (hop_ s)) as [s' r]. destruct R as (-> & Hd' & Hl' & Hh' & Ht').
    unfold m_reset. cbn [m_exp m_hop m_seen m_rej m_dead].
    assert (Hsame : hop_ s' = hop_ s) by (rewrite Hh'; destruct (valid_hop (hop_ s)); reflexivity).
    destruct hp as [h|].
    + assert (V : valid_hop (hop_ s) = true).
      { apply valid_hop_iff. rewrite Hh. specialize (Hhok h eq_refl). unfold hop_ok. lia. }
      rewrite V in *. cbn [andb] in *. rewrite eqb_refl_neg.
      destruct (valid_map map) eqn:M.
      * eexists. split; [reflexivity|]. apply mkInv; cbn [m_exp m_hop m_seen m_rej m_dead].
        -- rewrite Hd'. exact D.
        -- exact Hl'.
        -- rewrite Hsame. exact Hh.
        -- exact Hhok.
        -- rewrite Ht', Hh, Nat2N.id. reflexivity.
      * eexists. split; [reflexivity|]. apply mkInv; cbn [m_exp m_hop m_seen m_rej m_dead].
        -- rewrite Hd'. exact D.
        -- exact Hl'.
        -- rewrite Hsame. exact Hh.
        -- exact Hhok.
        -- rewrite Ht'. exact Ht.
    + assert (V : valid_hop (hop_ s) = false) by (rewrite Hh; reflexivity).
      rewrite V in *. cbn [andb Bool.eqb negb] in *.
      eexists. split; [reflexivity|]. apply mkInv; cbn [m_exp m_hop m_seen m_rej m_dead].
      * rewrite Hd'. exact D.
      * exact Hl'.
      * rewrite Hsame. exact Hh.
      * exact Hhok.
      * rewrite Ht'. exact Ht.
  - (* data_channel( i ) *)
    unfold max_number_of_data_channels. destruct (Nat.ltb_spec i 37) as [Hi|Hi].
    + destruct (check_entry_model (tbl s) e hp seen rj false i Hi Hl Ht) as (seen' & -> & Hok).
      eexists. split; [reflexivity|]. apply mkInv; [exact D|exact Hl|exact Hh|exact Hhok|exact Hok].
    + unfold fault. eexists. split; [reflexivity|]. apply mkInv; [reflexivity|exact Hl|exact Hh|exact Hhok|exact Ht].
  - (* dump *)
    rewrite Hl. replace (37 =? 37) with true by reflexivity.
    destruct (check_all_model (tbl s) e hp rj false (tbl s) 0 seen) as (seen' & E & Hok);
      [rewrite Hl; reflexivity|exact Hl|intros j Hj; reflexivity|exact Ht|].
    rewrite E.
    eexists. split; [reflexivity|]. apply mkInv; [exact D|exact Hl|exact Hh|exact Hhok|exact Hok].
Qed.

Lemma monitor_from_accepts : forall ops s m pos,
  Inv s m -> Forall wf_op ops -> monitor_from m pos (run s ops) = None.
Proof.
  induction ops as [|o ops IH]; intros s m pos HI Hwf; [reflexivity|].
  inversion Hwf as [|? ? Ho Hops]; subst.
  cbn [run]. pose proof (step_accepted s m o HI Ho) as H.
  destruct (step s o) as [s' r]. destruct H as (m' & E & HI').
  cbn [monitor_from]. rewrite E. apply IH; auto.
Qed.

(* every run of the model, of any length, over any maps and hops, satisfies every monitor clause *)
Theorem monitor_accepts_model (ops : list op) :
  Forall wf_op ops -> monitor (run init ops) = None.
Proof. intros H. apply monitor_from_accepts; [exact Inv_init|exact H]. Qed.

(* and no run faults unless data_channel() is called with an index >= 37 *)
Definition in_range_op (o : op) : Prop := match o with Chan i => i < 37 | _ => True end.

Theorem model_never_faults : forall ops s,
  wf_state s -> Forall wf_op ops -> Forall in_range_op ops ->
  wf_state (final s ops) /\ Forall (fun x => snd x <> OFault /\ snd x <> OSkipped) (run s ops).
Proof.
  induction ops as [|o ops IH]; intros s Hs Hwf Hin; [split; [exact Hs|constructor]|].
  inversion Hwf as [|? ? Ho Hops]; inversion Hin as [|? ? Hio Hiops]; subst.
  cbn [final run].
  assert (Hstep : wf_state (fst (step s o)) /\ snd (step s o) <> OFault /\ snd (step s o) <> OSkipped).
  { destruct Hs as [D L]. unfold step. rewrite D.
    destruct o as [map hop|map|i|]; cbn [wf_op in_range_op] in *.
    - pose proof (reset_result s map hop Ho L) as R. destruct (reset_impl s map hop) as [s' r].
      destruct R as (-> & D' & L' & _). cbn [fst snd]. repeat split; try congruence.
    - pose proof (reset_result s map (hop_ s) Ho L) as R. destruct (reset_impl s map (hop_ s)) as [s' r].
      destruct R as (-> & D' & L' & _). cbn [fst snd]. repeat split; try congruence.
    - unfold max_number_of_data_channels. destruct (Nat.ltb_spec i 37); [|lia].
      cbn [fst snd]. repeat split; auto; discriminate.
    - cbn [fst snd]. repeat split; auto; discriminate. }
  destruct (step s o) as [s' r]. cbn [fst snd] in Hstep. destruct Hstep as (Hs' & Hr1 & Hr2).
  destruct (IH s' Hs' Hops Hiops) as (Hf & Hrun). split; [exact Hf|].
  constructor; [cbn [snd]; auto|exact Hrun].
Qed.

(* ------------------------------------------------------------------ the link layer's decisions *)
Definition ll_wf_op (o : ll_op) : Prop :=
  match o with
  | ConnectInd map _ _ | ChannelMapInd map => length map = 5
  | _ => True
  end.

Definition ll_inv (l : ll) (g : option ghost) : Prop :=
  wf_state (chan l) /\
  match g with
  | None => phase l = Advertising
  | Some g =>
      phase l = Connected /\
      tbl (chan l) = csa1_table (g_map g) (g_hop g) /\
      hop_ (chan l) = N.of_nat (g_hop g) /\ 5 <= g_hop g <= 16 /\ 2 <= num_used (g_map g) /\
      channel_index l = g_elapsed g mod 37
  end.

Lemma ll_step_inv l g o : ll_inv l g -> ll_wf_op o -> ll_inv (ll_step l o) (ghost_step g o).
Proof.
  intros [[D L] H] Hwf. unfold ll_step, ghost_step.
  destruct o as [map b33 tok|map|d|]; cbn [ll_wf_op] in Hwf.
  - (* CONNECT_IND *)
    destruct g as [g|].
    + destruct H as (Hp & H). rewrite Hp. split; [split; assumption|]. split; [exact Hp|exact H].
    + rewrite H.
      pose proof (reset_result (chan l) map (N.land b33 31) Hwf L) as R.
      destruct (reset_impl (chan l) map (N.land b33 31)) as [c r].
      destruct R as (-> & D' & L' & Hh' & Ht').
      assert (Hc : wf_state c) by (split; [rewrite D'; exact D|exact L']).
      unfold ll_accepts, is_true_out.
      destruct (valid_hop (N.land b33 31)) eqn:V; cbn [andb] in *.
      * destruct (valid_map map) eqn:M; cbn [andb].
        -- destruct tok.
           ++ split; [exact Hc|].
              cbn [phase chan channel_index g_map g_hop g_elapsed].
              apply valid_hop_iff in V. unfold hop_ok in V. unfold valid_map in M. apply Nat.leb_le in M.
              split; [reflexivity|]. split; [exact Ht'|]. split; [rewrite Hh'; symmetry; apply N2Nat.id|].
              split; [lia|]. split; [exact M|reflexivity].
           ++ split; [exact Hc|reflexivity].
        -- split; [exact Hc|reflexivity].
      * split; [exact Hc|reflexivity].
  - (* LL_CHANNEL_MAP_IND at its instant *)
    destruct g as [g|].
    + destruct H as (Hp & Ht & Hh & Hr & Hn & Hi). rewrite Hp.
      pose proof (reset_result (chan l) map (hop_ (chan l)) Hwf L) as R.
      destruct (reset_impl (chan l) map (hop_ (chan l))) as [c r].
      destruct R as (_ & D' & L' & Hh' & Ht').
      assert (V : valid_hop (hop_ (chan l)) = true) by (apply valid_hop_iff; rewrite Hh; unfold hop_ok; lia).
      rewrite V in *. cbn [andb] in *.
      split; [split; cbn [chan]; [rewrite D'; exact D|exact L']|].
      cbn [phase chan channel_index g_map g_hop g_elapsed].
      split; [reflexivity|]. split; [|split; [rewrite Hh'; exact Hh|split; [exact Hr|split; [|exact Hi]]]].
      * rewrite Ht'. destruct (valid_map map); [rewrite Hh, Nat2N.id; reflexivity|exact Ht].
      * destruct (valid_map map) eqn:M; [unfold valid_map in M; apply Nat.leb_le in M; exact M|exact Hn].
    + rewrite H. split; [split; assumption|exact H].
  - (* next planned event *)
    destruct g as [g|].
    + destruct H as (Hp & Ht & Hh & Hr & Hn & Hi). rewrite Hp.
      split; [split; assumption|]. cbn [phase chan channel_index g_map g_hop g_elapsed].
      split; [reflexivity|]. split; [exact Ht|]. split; [exact Hh|]. split; [exact Hr|]. split; [exact Hn|].
      unfold max_number_of_data_channels. rewrite Hi. apply Nat.add_mod_idemp_l. lia.
    + rewrite H. split; [split; assumption|exact H].
  - destruct g as [g|].
    + destruct H as (Hp & _). rewrite Hp. split; [split; assumption|reflexivity].
    + rewrite H. split; [split; assumption|exact H].
Qed.

Theorem ll_invariant : forall ops l g,
  ll_inv l g -> Forall ll_wf_op ops -> ll_inv (ll_run l ops) (ghost_run g ops).
Proof.
  induction ops as [|o ops IH]; intros l g HI Hwf; [exact HI|].
  inversion Hwf; subst. cbn [ll_run ghost_run]. apply IH; auto. apply ll_step_inv; auto.
Qed.

Lemma ll_inv_init : ll_inv ll_init None.
Proof. split; [exact init_wf|reflexivity]. Qed.

(* whenever a connection exists, the channel handed to the radio for the next planned event is the
   CSA#1 channel of the map and hop in force for the number of events elapsed since CONNECT_IND *)
Theorem ll_channel_is_csa1 (ops : list ll_op) (g : ghost) :
  Forall ll_wf_op ops -> ghost_run None ops = Some g ->
  ll_data_channel (ll_run ll_init ops) = N.of_nat (csa1 (g_map g) (g_hop g) (g_elapsed g)).
Proof.
  intros Hwf Hg. pose proof (ll_invariant ops ll_init None ll_inv_init Hwf) as [_ H].
  rewrite Hg in H. destruct H as (_ & Ht & _ & _ & _ & Hi).
  unfold ll_data_channel. rewrite Ht, Hi.
  rewrite csa1_table_nth by (apply Nat.mod_upper_bound; lia). rewrite csa1_period. reflexivity.
Qed.

(* a connect request with an invalid hop or map is ignored: still advertising, table untouched *)
Theorem ll_connect_ind_invalid_ignored (l : ll) (map : list N) (b33 : N) (tok : bool) :
  wf_state (chan l) -> phase l = Advertising -> length map = 5 ->
  valid_hop (N.land b33 31) && valid_map map = false ->
  let l' := ll_step l (ConnectInd map b33 tok) in
  phase l' = Advertising /\ tbl (chan l') = tbl (chan l) /\ channel_index l' = channel_index l.
Proof.
  intros [D L] Hp Lm Hbad. unfold ll_step. rewrite Hp.
  pose proof (reset_result (chan l) map (N.land b33 31) Lm L) as R.
  destruct (reset_impl (chan l) map (N.land b33 31)) as [c r].
  destruct R as (-> & _ & _ & _ & Ht). rewrite Hbad in *. cbn [is_true_out andb].
  cbn [phase chan channel_index]. auto.
Qed.

(* a channel map indication with fewer than two used channels changes nothing at all *)
Theorem ll_channel_map_ind_invalid_ignored (l : ll) (map : list N) :
  wf_state (chan l) -> phase l = Connected -> length map = 5 -> valid_map map = false ->
  ll_step l (ChannelMapInd map) = l.
Proof.
  intros Hs Hp Lm Hbad. unfold ll_step. rewrite Hp.
  assert (Hb : ~ hop_ok (hop_ (chan l)) \/ num_used map < 2).
  { right. unfold valid_map in Hbad. apply Nat.leb_gt in Hbad. exact Hbad. }
  pose proof (remap_rejected_unchanged (chan l) map Hs Lm Hb) as [E _].
  unfold step in E. destruct Hs as [D _]. rewrite D in E.
  destruct (reset_impl (chan l) map (hop_ (chan l))) as [c r]. cbn [fst] in E. subst c.
  destruct l as [p c i]. cbn [phase chan channel_index] in *. subst p. reflexivity.
Qed.
