(* Proofs for C20 (channel_map.cpp against Channel Selection Algorithm #1).
   All statements about channel maps are for EVERY map (a list of 5 octets): the proofs are
   structural (the r-th element of filter over seq; invariants of the two C++ loops), nothing
   enumerates maps. Finite sweeps (vm_compute + forallb_forall) are used only over
   hop 1..36 x index 0..36 (injectivity of the unmapped sequence on one period). *)
From Coq Require Import Sorted.
From BT Require Import Base.ListX ChanMap.ChanMapModel ChanMap.ChanMapSpec.

(* ------------------------------------------------------------------ bits *)
Lemma land_pow2_testbit (b n : N) :
  negb (N.eqb (N.land b (N.shiftl 1 n)) 0) = N.testbit b n.
Proof.
  rewrite N.shiftl_1_l.
  destruct (N.testbit b n) eqn:T.
  - destruct (N.eqb_spec (N.land b (2 ^ n)) 0) as [E|E]; [|reflexivity].
    assert (H : N.testbit (N.land b (2 ^ n)) n = true)
      by (rewrite N.land_spec, T, N.pow2_bits_true; reflexivity).
    rewrite E, N.bits_0 in H. discriminate.
  - replace (N.land b (2 ^ n)) with 0%N; [reflexivity|].
    symmetry. apply N.bits_inj_0. intros m.
    rewrite N.land_spec, N.pow2_bits_eqb.
    destruct (N.eqb_spec n m) as [->|_]; [rewrite T; reflexivity|apply andb_false_r].
Qed.

Lemma in_map_used_bit map index :
  index / 8 < length map -> in_map map index = Some (used_bit map index).
Proof.
  intros H. unfold in_map, used_bit.
  destruct (Nat.ltb_spec (index / 8) (length map)); [|lia].
  rewrite land_pow2_testbit. reflexivity.
Qed.

Lemma in_map_5 map c : length map = 5 -> c < 37 -> in_map map c = Some (used_bit map c).
Proof.
  intros L C. apply in_map_used_bit. rewrite L.
  apply Nat.div_lt_upper_bound; lia.
Qed.

(* ------------------------------------------------------------------ the unmapped sequence *)
Lemma last_unmapped_closed hop k : last_unmapped hop k = (k * hop) mod 37.
Proof.
  induction k as [|k IH]; [reflexivity|].
  cbn [last_unmapped]. rewrite IH, Nat.add_mod_idemp_l by lia.
  f_equal. lia.
Qed.

Lemma unmapped_closed hop k : unmapped hop k = (S k * hop) mod 37.
Proof.
  unfold unmapped. rewrite last_unmapped_closed, Nat.add_mod_idemp_l by lia. f_equal. lia.
Qed.

Lemma unmapped_0 hop : unmapped hop 0 = hop mod 37.
Proof. reflexivity. Qed.

Lemma unmapped_S hop k : unmapped hop (S k) = (unmapped hop k + hop) mod 37.
Proof. reflexivity. Qed.

Lemma unmapped_lt hop k : unmapped hop k < 37.
Proof. unfold unmapped. apply Nat.mod_upper_bound. lia. Qed.

Lemma unmapped_period hop k : unmapped hop (k mod 37) = unmapped hop k.
Proof.
  rewrite !unmapped_closed.
  rewrite (Nat.mul_mod (S (k mod 37))), (Nat.mul_mod (S k)) by lia.
  f_equal. f_equal.
  replace (S (k mod 37)) with (k mod 37 + 1) by lia.
  replace (S k) with (k + 1) by lia.
  apply Nat.add_mod_idemp_l. lia.
Qed.

Lemma unmapped_plus_37 hop k : unmapped hop (k + 37) = unmapped hop k.
Proof.
  rewrite <- (unmapped_period hop (k + 37)), <- (unmapped_period hop k).
  f_equal. rewrite <- Nat.add_mod_idemp_r by lia. rewrite Nat.mod_same by lia.
  f_equal. lia.
Qed.

(* 37 is prime: for 0 < hop < 37 the 37 values of one period are pairwise different *)
Lemma forallb_seq (f : nat -> bool) a n :
  forallb f (seq a n) = true -> forall x, a <= x < a + n -> f x = true.
Proof. intros H x Hx. rewrite forallb_forall in H. apply H, in_seq. exact Hx. Qed.

Definition inj_cell (hop i j : nat) : bool :=
  Nat.eqb i j || negb (Nat.eqb ((S i * hop) mod 37) ((S j * hop) mod 37)).
(* stated on the unfolded term: the kernel must not be asked to convert a name with its body here *)
Lemma inj_sweep_true :
  forallb (fun hop => forallb (fun i => forallb (fun j => inj_cell hop i j) (seq 0 37)) (seq 0 37)) (seq 1 36) = true.
Proof. vm_compute. reflexivity. Qed.

Lemma inj_cell_true hop i j : 0 < hop < 37 -> i < 37 -> j < 37 -> inj_cell hop i j = true.
Proof.
  intros Hh Hi Hj.
  pose proof (forallb_seq _ _ _ inj_sweep_true hop ltac:(lia)) as S1. cbv beta in S1.
  pose proof (forallb_seq _ _ _ S1 i ltac:(lia)) as S2. cbv beta in S2.
  exact (forallb_seq _ _ _ S2 j ltac:(lia)).
Qed.

Lemma unmapped_inj_on_period hop i j :
  0 < hop < 37 -> i < 37 -> j < 37 -> unmapped hop i = unmapped hop j -> i = j.
Proof.
  intros Hh Hi Hj E. rewrite !unmapped_closed in E.
  pose proof (inj_cell_true hop i j Hh Hi Hj) as S. unfold inj_cell in S.
  apply orb_true_iff in S. destruct S as [S|S].
  - apply Nat.eqb_eq in S. exact S.
  - rewrite E, Nat.eqb_refl in S. discriminate.
Qed.

Lemma unmapped_eq_iff hop j k :
  0 < hop < 37 -> (unmapped hop j = unmapped hop k <-> j mod 37 = k mod 37).
Proof.
  intros Hh. split; intros E.
  - rewrite <- (unmapped_period hop j), <- (unmapped_period hop k) in E.
    apply (unmapped_inj_on_period hop); auto; apply Nat.mod_upper_bound; lia.
  - rewrite <- (unmapped_period hop j), <- (unmapped_period hop k), E. reflexivity.
Qed.

(* ------------------------------------------------------------------ the used list *)
Lemma filter_seq_S (f : nat -> bool) c :
  filter f (seq 0 (S c)) = filter f (seq 0 c) ++ (if f c then [c] else []).
Proof. rewrite seq_S, filter_app. reflexivity. Qed.

Lemma filter_length_le (A : Type) (f : A -> bool) l : length (filter f l) <= length l.
Proof. induction l as [|h t IH]; simpl; [lia|]. destruct (f h); simpl; lia. Qed.
Arguments filter_length_le {A} f l.

Lemma used_list_In map c : In c (used_list map) <-> c < 37 /\ used_bit map c = true.
Proof. unfold used_list. rewrite filter_In, in_seq. intuition lia. Qed.

Lemma num_used_le map : num_used map <= 37.
Proof.
  unfold num_used, used_list.
  pose proof (filter_length_le (used_bit map) (seq 0 37)) as H. rewrite seq_length in H. exact H.
Qed.

Lemma sorted_seq a n : StronglySorted lt (seq a n).
Proof.
  revert a; induction n as [|n IH]; intros a; simpl; constructor; auto.
  apply Forall_forall. intros x Hx. apply in_seq in Hx. lia.
Qed.

Lemma sorted_filter (f : nat -> bool) l : StronglySorted lt l -> StronglySorted lt (filter f l).
Proof.
  induction 1 as [|a l S IH F]; simpl; [constructor|].
  destruct (f a); auto. constructor; auto.
  rewrite Forall_forall in *. intros x Hx. apply filter_In in Hx. apply F. tauto.
Qed.

(* "the table of used channels in ascending order" *)
Lemma used_list_sorted map : StronglySorted lt (used_list map).
Proof. apply sorted_filter, sorted_seq. Qed.

Lemma used_list_nth_In map r : r < num_used map -> In (nth r (used_list map) 0) (used_list map).
Proof. unfold num_used. intros H. apply nth_In. exact H. Qed.

Lemma used_list_ext m1 m2 :
  (forall c, c < 37 -> used_bit m1 c = used_bit m2 c) -> used_list m1 = used_list m2.
Proof.
  intros H. unfold used_list. apply filter_ext_in. intros c Hc. apply in_seq in Hc. apply H. lia.
Qed.

Lemma used_list_def map : used_list map = filter (used_bit map) (seq 0 37).
Proof. reflexivity. Qed.
Lemma num_used_def map : num_used map = length (used_list map).
Proof. reflexivity. Qed.
(* from here on the used list is only handled through the lemmas above (its body is a 37-fold
   nested conditional that unification must not open) *)
Global Opaque used_list num_used.

(* ------------------------------------------------------------------ CSA#1: sanity of the spec *)
Lemma csa1_used map hop k :
  1 <= num_used map -> csa1 map hop k < 37 /\ used_bit map (csa1 map hop k) = true.
Proof.
  intros H. unfold csa1, csa1_with.
  destruct (used_bit map (unmapped hop k)) eqn:U.
  - split; [apply unmapped_lt|exact U].
  - apply (proj1 (used_list_In _ _)), used_list_nth_In, Nat.mod_upper_bound. lia.
Qed.

Lemma csa1_period map hop k : csa1 map hop (k mod 37) = csa1 map hop k.
Proof. unfold csa1. rewrite unmapped_period. reflexivity. Qed.

Lemma csa1_ext m1 m2 hop k :
  (forall c, c < 37 -> used_bit m1 c = used_bit m2 c) -> csa1 m1 hop k = csa1 m2 hop k.
Proof.
  intros H. unfold csa1, csa1_with. rewrite !num_used_def.
  rewrite (used_list_ext m1 m2 H), (H (unmapped hop k) (unmapped_lt hop k)). reflexivity.
Qed.

Lemma table_from_length map ul n hop cnt u : length (table_from map ul n hop cnt u) = cnt.
Proof. revert u; induction cnt as [|c IH]; intros u; simpl; auto. Qed.

Lemma table_from_nth map hop cnt : forall j i d,
  i < cnt ->
  nth i (table_from map (used_list map) (num_used map) hop cnt (unmapped hop j)) d
  = N.of_nat (csa1 map hop (j + i)).
Proof.
  induction cnt as [|c IH]; intros j i d Hi; [lia|].
  cbn [table_from]. destruct i as [|i].
  - cbn [nth]. rewrite Nat.add_0_r. reflexivity.
  - cbn [nth]. rewrite <- unmapped_S, IH by lia. f_equal. f_equal. lia.
Qed.

Lemma csa1_table_length map hop : length (csa1_table map hop) = 37.
Proof. apply table_from_length. Qed.

Lemma csa1_table_nth map hop k d :
  k < 37 -> nth k (csa1_table map hop) d = N.of_nat (csa1 map hop k).
Proof.
  intros H. unfold csa1_table. cbv zeta. rewrite <- unmapped_0, <- num_used_def.
  rewrite table_from_nth by exact H. reflexivity.
Qed.

(* ------------------------------------------------------------------ the two loops of reset() *)
Lemma wr_ok (A : Type) (a : list A) i v : i < length a -> wr a i v = Some (upd a i v).
Proof. intros H. unfold wr. destruct (Nat.ltb_spec i (length a)); [reflexivity|lia]. Qed.

Lemma byte_small c : c < 37 -> (N.of_nat c mod 256)%N = N.of_nat c.
Proof. intros H. apply N.mod_small. lia. Qed.

Section Loops.
  Variable map : list N.
  Hypothesis Lmap : length map = 5.
  Let acc (c : nat) : list nat := filter (used_bit map) (seq 0 c).

  Lemma acc_length c : length (acc c) <= c.
  Proof. unfold acc. pose proof (filter_length_le (used_bit map) (seq 0 c)) as H. rewrite seq_length in H. exact H. Qed.

  (* build_used_channel_map: count = number of used channels, used[r] = r-th used channel *)
  Lemma build_used_ok : forall rem channel used count,
    channel + rem = 37 -> length used = 37 -> count = length (acc channel) ->
    (forall r, r < count -> nth r used None = Some (N.of_nat (nth r (acc channel) 0))) ->
    exists used', build_used map rem channel used count = Some (used', num_used map) /\
      length used' = 37 /\
      forall r, r < num_used map -> nth r used' None = Some (N.of_nat (nth r (used_list map) 0)).
  Proof.
    induction rem as [|rem IH]; intros channel used count Hc Hl Hcount Hu.
    - cbn [build_used]. assert (channel = 37) by lia. subst channel.
      exists used. rewrite num_used_def, used_list_def. fold (acc 37). rewrite <- Hcount. auto.
    - cbn [build_used]. rewrite (in_map_5 map channel Lmap) by lia.
      pose proof (acc_length channel) as Hle.
      assert (Hacc : acc (S channel) = acc channel ++ (if used_bit map channel then [channel] else []))
        by apply filter_seq_S.
      destruct (used_bit map channel) eqn:U.
      + rewrite wr_ok by lia. rewrite byte_small by lia.
        apply IH; try lia.
        * rewrite upd_length. exact Hl.
        * rewrite Hacc, app_length. simpl. lia.
        * intros r Hr. rewrite Hacc.
          destruct (Nat.eq_dec r count) as [->|Hne].
          -- rewrite nth_upd_eq by lia. rewrite app_nth2 by lia.
             replace (count - length (acc channel)) with 0 by lia. reflexivity.
          -- rewrite nth_upd_neq by lia. rewrite app_nth1 by lia. apply Hu. lia.
      + apply IH; try lia; auto.
        * rewrite Hacc, app_nil_r. exact Hcount.
        * intros r Hr. rewrite Hacc, app_nil_r. apply Hu. exact Hr.
  Qed.

  Lemma build_used_37 :
    exists used, build_used map 37 0 (repeat None 37) 0 = Some (used, num_used map) /\
      forall r, r < num_used map -> nth r used None = Some (N.of_nat (nth r (used_list map) 0)).
  Proof.
    destruct (build_used_ok 37 0 (repeat None 37) 0) as (u & E & _ & H); auto.
    - intros r Hr. lia.
    - exists u. auto.
  Qed.

  Variable used : list (option N).
  Variable hop : nat.
  Hypothesis Hused : forall r, r < num_used map -> nth r used None = Some (N.of_nat (nth r (used_list map) 0)).
  Hypothesis Hn : 1 <= num_used map.

  (* the fill loop: entry i = CSA#1 channel of event i, earlier entries untouched *)
  Lemma fill_ok : forall rem index t0,
    index + rem = 37 -> length t0 = 37 ->
    exists t, fill map used (num_used map) hop rem index (unmapped hop index) t0 = Some t /\
      length t = 37 /\
      (forall i, i < index -> nth i t 0%N = nth i t0 0%N) /\
      (forall i, index <= i < 37 -> nth i t 0%N = N.of_nat (csa1 map hop i)).
  Proof.
    induction rem as [|rem IH]; intros index t0 Hi Hl.
    - cbn [fill]. exists t0. split; [reflexivity|]. split; [exact Hl|]. split; [reflexivity|]. intros i H. lia.
    - cbn [fill]. unfold max_number_of_data_channels.
      pose proof (unmapped_lt hop index) as Hu.
      rewrite (in_map_5 map _ Lmap Hu). rewrite <- unmapped_S.
      assert (Hcs : N.of_nat (csa1 map hop index) =
                    if used_bit map (unmapped hop index) then N.of_nat (unmapped hop index)
                    else N.of_nat (nth (unmapped hop index mod num_used map) (used_list map) 0)).
      { unfold csa1, csa1_with. destruct (used_bit map (unmapped hop index)); reflexivity. }
      assert (Hstep : forall v, v = N.of_nat (csa1 map hop index) ->
                exists t, fill map used (num_used map) hop rem (S index) (unmapped hop (S index)) (upd t0 index v) = Some t /\
                  length t = 37 /\
                  (forall i, i < index -> nth i t 0%N = nth i t0 0%N) /\
                  (forall i, index <= i < 37 -> nth i t 0%N = N.of_nat (csa1 map hop i))).
      { intros v Hv.
        destruct (IH (S index) (upd t0 index v)) as (t & E & L & Hlo & Hhi); [lia|rewrite upd_length; exact Hl|].
        exists t. split; [exact E|]. split; [exact L|]. split.
        - intros i H. rewrite Hlo by lia. apply nth_upd_neq. lia.
        - intros i H. destruct (Nat.eq_dec i index) as [->|Hne].
          + rewrite Hlo by lia. rewrite nth_upd_eq by lia. exact Hv.
          + apply Hhi. lia. }
      destruct (used_bit map (unmapped hop index)) eqn:U.
      + rewrite wr_ok by lia. apply Hstep. rewrite byte_small by exact Hu. auto.
      + rewrite Hused by (apply Nat.mod_upper_bound; lia).
        rewrite wr_ok by lia. apply Hstep. auto.
  Qed.
End Loops.

(* ------------------------------------------------------------------ reset() *)
Definition hop_ok (hop : N) : Prop := (5 <= hop <= 16)%N.

Lemma valid_hop_iff hop : valid_hop hop = true <-> hop_ok hop.
Proof. unfold valid_hop, hop_ok. rewrite andb_true_iff, !N.leb_le. tauto. Qed.

Lemma hop_check hop : ((hop <? 5) || (16 <? hop))%N = negb (valid_hop hop).
Proof.
  unfold valid_hop. rewrite negb_andb, !N.leb_antisym, !negb_involutive. reflexivity.
Qed.

(* accepted: every entry of the table is the CSA#1 channel *)
Lemma reset_accepts s map hop :
  length map = 5 -> hop_ok hop -> 2 <= num_used map -> length (tbl s) = 37 ->
  exists t, reset_impl s map hop = (mk t hop (dead s), OBool true) /\
    t = csa1_table map (N.to_nat hop).
Proof.
  intros Lm Hh Hn Lt. unfold reset_impl. rewrite hop_check.
  rewrite (proj2 (valid_hop_iff hop) Hh). cbn [negb].
  unfold max_number_of_data_channels.
  destruct (build_used_37 map Lm) as (used & -> & Hused).
  destruct (Nat.ltb_spec (num_used map) 2); [lia|].
  cbn [tbl hop_ dead].
  assert (H37 : N.to_nat hop < 37) by (unfold hop_ok in Hh; lia).
  pose proof (fill_ok map Lm used (N.to_nat hop) Hused ltac:(lia) 37 0 (tbl s) eq_refl Lt) as (t & E & L & _ & Hhi).
  rewrite unmapped_0, Nat.mod_small in E by exact H37. rewrite E.
  exists t. split.
  - f_equal. f_equal. apply N.mod_small. unfold hop_ok in Hh. lia.
  - apply nth_ext_len with (d := 0%N); [rewrite csa1_table_length; exact L|].
    intros i Hi. rewrite L in Hi. rewrite csa1_table_nth by exact Hi. apply Hhi. lia.
Qed.

(* rejected: the table is left as it is (hop_ follows the code: assigned when the hop is in range) *)
Lemma reset_rejects s map hop :
  length map = 5 -> ~ hop_ok hop \/ num_used map < 2 ->
  exists h, reset_impl s map hop = (mk (tbl s) h (dead s), OBool false) /\
    (~ hop_ok hop -> h = hop_ s).
Proof.
  intros Lm Hbad. unfold reset_impl. rewrite hop_check.
  destruct (valid_hop hop) eqn:V; cbn [negb].
  - apply valid_hop_iff in V. destruct Hbad as [Hbad|Hbad]; [tauto|].
    unfold max_number_of_data_channels.
    destruct (build_used_37 map Lm) as (used & -> & _).
    destruct (Nat.ltb_spec (num_used map) 2); [|lia].
    eexists. split; [reflexivity|tauto].
  - exists (hop_ s). destruct s; auto.
Qed.

Lemma reset_result s map hop :
  length map = 5 -> length (tbl s) = 37 ->
  let '(s', r) := reset_impl s map hop in
  r = OBool (valid_hop hop && valid_map map) /\ dead s' = dead s /\ length (tbl s') = 37 /\
  hop_ s' = (if valid_hop hop then hop else hop_ s) /\
  tbl s' = (if valid_hop hop && valid_map map then csa1_table map (N.to_nat hop) else tbl s).
Proof.
  intros Lm Lt.
  destruct (valid_hop hop) eqn:V.
  - destruct (valid_map map) eqn:M; unfold valid_map in M.
    + apply Nat.leb_le in M.
      destruct (reset_accepts s map hop Lm (proj1 (valid_hop_iff hop) V) M Lt) as (t & -> & ->).
      cbn [andb tbl hop_ dead]. rewrite csa1_table_length. auto.
    + apply Nat.leb_gt in M.
      destruct (reset_rejects s map hop Lm (or_intror M)) as (h & E & _).
      pose proof E as E'. unfold reset_impl in E'. rewrite hop_check, V in E'. cbn [negb] in E'.
      unfold max_number_of_data_channels in E'.
      destruct (build_used_37 map Lm) as (used & Eb & _). rewrite Eb in E'.
      destruct (Nat.ltb_spec (num_used map) 2); [|lia].
      rewrite E. cbn [andb tbl hop_ dead]. inversion E'. repeat split; auto.
      apply valid_hop_iff in V. unfold hop_ok in V. apply N.mod_small. lia.
  - assert (Hn : ~ hop_ok hop) by (rewrite <- valid_hop_iff, V; discriminate).
    destruct (reset_rejects s map hop Lm (or_introl Hn)) as (h & -> & Hh).
    cbn [andb tbl hop_ dead]. rewrite (Hh Hn). auto.
Qed.
