(* Specification of data channel selection (C20): Channel Selection Algorithm #1,
   Core specification Vol 6 Part B 4.5.8.2, and an executable monitor that judges an observed
   trace of channel_map operations.

   Core 4.5.8.2:  unmappedChannel = ( lastUnmappedChannel + hopIncrement ) mod 37, where
   lastUnmappedChannel is 0 for the first connection event of a connection and the previous
   unmappedChannel afterwards. If unmappedChannel is a used channel it is the data channel;
   otherwise remappingIndex = unmappedChannel mod numUsedChannels and the data channel is the
   entry remappingIndex of the table of used channels in ascending order.
   ChM (Vol 6 Part B 2.3.3.1 / 2.4.2.8): 5 octets, the LSB of the first octet is channel 0; bits
   37..39 are reserved. 4.5.8.1: at least 2 used channels. hopIncrement is in the range 5..16.

   Connection events are counted from k = 0 (the first event of the connection). *)
From BT Require Import Base.ListX ChanMap.ChanMapModel.

(* ---------- the spec ---------- *)
Definition used_bit (map : list N) (c : nat) : bool :=
  N.testbit (nth (c / 8) map 0%N) (N.of_nat (c mod 8)).

(* the used data channels in ascending order *)
Definition used_list (map : list N) : list nat := filter (used_bit map) (seq 0 37).
Definition num_used (map : list N) : nat := length (used_list map).

(* lastUnmappedChannel at the start of event k *)
Fixpoint last_unmapped (hop k : nat) : nat :=
  match k with
  | O => 0
  | S k' => (last_unmapped hop k' + hop) mod 37
  end.
Definition unmapped (hop k : nat) : nat := (last_unmapped hop k + hop) mod 37.

Definition csa1_with (map : list N) (ul : list nat) (n u : nat) : nat :=
  if used_bit map u then u else nth (u mod n) ul 0.

(* the data channel of connection event k *)
Definition csa1 (map : list N) (hop k : nat) : nat :=
  csa1_with map (used_list map) (num_used map) (unmapped hop k).

Definition valid_hop (hop : N) : bool := ((5 <=? hop) && (hop <=? 16))%N.
Definition valid_map (map : list N) : bool := 2 <=? num_used map.

(* the 37 channels of one period, computed along the recurrence (used list built once) *)
Fixpoint table_from (map : list N) (ul : list nat) (n hop cnt u : nat) : list N :=
  match cnt with
  | O => []
  | S c => N.of_nat (csa1_with map ul n u) :: table_from map ul n hop c ((u + hop) mod 37)
  end.
Definition csa1_table (map : list N) (hop : nat) : list N :=
  let ul := used_list map in table_from map ul (length ul) hop 37 (hop mod 37).

(* ---------- the monitor ----------
   Clauses (tags):
     reset_result  reset( map, hop ) / reset( map ) returns true exactly for a hop in 5..16 and a
                   map with at least two used channels among 0..36
     csa1          after an accepted reset, data_channel( i ) is the CSA#1 channel of event i
     not_applied   a rejected reset leaves every table entry as it was
     fault         no sanitizer / assert fault while the preconditions hold
     shape         output of the wrong kind
   The hop used by reset( map ) is the hop of the latest reset( map, hop ) call whose hop was in
   range - the code's convention (hop_ is assigned before the map is looked at). The link layer
   never calls reset( map ) after a rejected reset( map, hop ) (ChanMapProofs.ll_invariant). *)
Record mon := mkm {
  m_exp : option (list N);      (* the table in force = csa1_table of the last accepted request *)
  m_hop : option nat;           (* hop register *)
  m_seen : list (option N);     (* entries observed while no request was ever accepted *)
  m_rej : bool;                 (* the latest reset was rejected *)
  m_dead : bool }.              (* a precondition was violated by the caller: nothing more to judge *)

Definition minit : mon := mkm None None (repeat None 37) false false.

Inductive verdict := Ok | Bad (tag : nat).
Definition t_reset_result := 1.
Definition t_csa1 := 2.
Definition t_not_applied := 3.
Definition t_fault := 4.
Definition t_shape := 5.

Definition m_reset (m : mon) (map : list N) (hop' : option nat) (hopreg : option nat) (b : bool) : verdict * mon :=
  let ok := match hop' with Some _ => valid_map map | None => false end in
  if negb (Bool.eqb ok b) then (Bad t_reset_result, m)
  else
    match hop', ok with
    | Some h, true => (Ok, mkm (Some (csa1_table map h)) hopreg (repeat None 37) false false)
    | _, _ => (Ok, mkm (m_exp m) hopreg (m_seen m) true false)
    end.

Definition check_entry (m : mon) (i : nat) (c : N) : verdict * mon :=
  match m_exp m with
  | Some t =>
      if N.eqb (nth i t poison) c then (Ok, m)
      else (Bad (if m_rej m then t_not_applied else t_csa1), m)
  | None =>
      match nth i (m_seen m) None with
      | Some c' => if N.eqb c' c then (Ok, m) else (Bad t_not_applied, m)
      | None => (Ok, mkm None (m_hop m) (upd (m_seen m) i (Some c)) (m_rej m) (m_dead m))
      end
  end.

Fixpoint check_all (m : mon) (i : nat) (l : list N) : verdict * mon :=
  match l with
  | [] => (Ok, m)
  | c :: t =>
      match check_entry m i c with
      | (Ok, m') => check_all m' (S i) t
      | bad => bad
      end
  end.

Definition mstep (m : mon) (o : op) (r : out) : verdict * mon :=
  if m_dead m then (match r with OSkipped => Ok | _ => Bad t_shape end, m)
  else
    match o, r with
    | Reset map hop, OBool b =>
        let h := if valid_hop hop then Some (N.to_nat hop) else None in
        m_reset m map h (match h with Some _ => h | None => m_hop m end) b
    | Remap map, OBool b => m_reset m map (m_hop m) (m_hop m) b
    | Chan i, OChan c =>
        if i <? 37 then check_entry m i c else (Bad t_shape, m)
    | Chan i, OFault =>
        (* assert( index < 37 ) is the caller's obligation *)
        if i <? 37 then (Bad t_fault, m) else (Ok, mkm (m_exp m) (m_hop m) (m_seen m) (m_rej m) true)
    | Dump, OTable t =>
        if length t =? 37 then check_all m 0 t else (Bad t_shape, m)
    | _, OFault => (Bad t_fault, m)
    | _, _ => (Bad t_shape, m)
    end.

(* first violation of a trace: Some (position, tag); None = property holds on the trace *)
Fixpoint monitor_from (m : mon) (pos : nat) (tr : list (op * out)) : option (nat * nat) :=
  match tr with
  | [] => None
  | (o, r) :: t =>
      match mstep m o r with
      | (Ok, m') => monitor_from m' (S pos) t
      | (Bad tag, _) => Some (pos, tag)
      end
  end.

Definition monitor (tr : list (op * out)) : option (nat * nat) := monitor_from minit 0 tr.

(* operations whose map argument is a ChM field: exactly 5 octets *)
Definition wf_op (o : op) : Prop :=
  match o with
  | Reset map _ | Remap map => length map = 5
  | _ => True
  end.

(* ---------- abstract view of the link layer's channel selection (for ChanMapProofs.ll_invariant) ----------
   the ghost state of a connection: the map and hop in force and the number of connection events
   elapsed since the connection was created *)
Record ghost := mkg { g_map : list N; g_hop : nat; g_elapsed : nat }.

Definition ll_accepts (map : list N) (b33 : N) (timing_ok : bool) : bool :=
  valid_hop (N.land b33 31) && valid_map map && timing_ok.

Definition ghost_step (g : option ghost) (o : ll_op) : option ghost :=
  match o, g with
  | ConnectInd map b33 t, None =>
      if ll_accepts map b33 t then Some (mkg map (N.to_nat (N.land b33 31)) 0) else None
  | ChannelMapInd map, Some g =>
      Some (mkg (if valid_map map then map else g_map g) (g_hop g) (g_elapsed g))
  | Advance d, Some g => Some (mkg (g_map g) (g_hop g) (g_elapsed g + d))
  | Disconnect, Some _ => None
  | _, _ => g
  end.

Fixpoint ghost_run (g : option ghost) (ops : list ll_op) : option ghost :=
  match ops with
  | [] => g
  | o :: t => ghost_run (ghost_step g o) t
  end.
