(* Executable model of bluetoe/link_layer/channel_map.cpp (definitions only, no proofs), and of the
   two places in link_layer.hpp / peripheral_latency.hpp that decide whether a channel map is
   applied and which table index is used.

   class channel_map { std::uint8_t map_[ 37 ]; std::uint8_t hop_; }

   Transcribed as written:
     - in_map( map, index )  = map[ index / 8 ] & ( 1 << ( index % 8 ) )
     - build_used_channel_map counts the used channels 0..36 and writes them, in the order found,
       into the *uninitialised* stack array used_channels[ 37 ] (None = never written)
     - reset( map, hop ): hop range check first, then hop_ = hop (assigned BEFORE the number of
       used channels is checked, so a request rejected for its map still changes hop_), then the
       count check, then the loop  index = 0..36, channel = hop, hop+hop mod 37, ...
     - reset( map ) = reset( map, hop_ )   (hop_ is 0 after construction: rejected)
     - data_channel( index ): assert( index < 37 ); return map_[ index ]
   Memory accesses that the C++ would do outside an object (map[] past its length, used[] / map_[]
   past 37, read of a never written used[] entry) and a failing assert give the outcome Fault.
   map_ is not initialised by the constructor; the harness poisons it with 0xff, and so does init. *)
From BT Require Import Base.ListX.

Definition max_number_of_data_channels : nat := 37.
Definition poison : N := 255%N.

(* static bool in_map( const std::uint8_t* map, unsigned index ) *)
Definition in_map (map : list N) (index : nat) : option bool :=
  if index / 8 <? length map
  then Some (negb (N.eqb (N.land (nth (index / 8) map 0%N) (N.shiftl 1 (N.of_nat (index mod 8)))) 0%N))
  else None.

(* a[ i ] = v on an array of known size *)
Definition wr (A : Type) (a : list A) (i : nat) (v : A) : option (list A) :=
  if i <? length a then Some (upd a i v) else None.
Arguments wr {A} a i v.

(* for ( channel = 0; channel != 37; ++channel ) if ( in_map( map, channel ) ) { used[ count ] = channel; ++count; }
   [rem] = iterations left; a std::uint8_t store is  mod 256 *)
Fixpoint build_used (map : list N) (rem channel : nat) (used : list (option N)) (count : nat)
  : option (list (option N) * nat) :=
  match rem with
  | O => Some (used, count)
  | S rem' =>
      match in_map map channel with
      | None => None
      | Some true =>
          match wr used count (Some (N.of_nat channel mod 256)%N) with
          | None => None
          | Some used' => build_used map rem' (S channel) used' (S count)
          end
      | Some false => build_used map rem' (S channel) used count
      end
  end.

(* for ( index = 0, channel = hop; index != 37; ++index ) {
       map_[ index ] = in_map( map, channel ) ? channel : used_channels[ channel % used_channels_count ];
       channel = ( channel + hop ) % 37; } *)
Fixpoint fill (map : list N) (used : list (option N)) (count hop : nat) (rem index channel : nat) (tbl : list N)
  : option (list N) :=
  match rem with
  | O => Some tbl
  | S rem' =>
      let next := (channel + hop) mod max_number_of_data_channels in
      match in_map map channel with
      | None => None
      | Some true =>
          match wr tbl index (N.of_nat channel mod 256)%N with
          | None => None
          | Some tbl' => fill map used count hop rem' (S index) next tbl'
          end
      | Some false =>
          match nth (channel mod count) used None with      (* out of range or never written: None *)
          | None => None
          | Some v =>
              match wr tbl index v with
              | None => None
              | Some tbl' => fill map used count hop rem' (S index) next tbl'
              end
          end
      end
  end.

Record state := mk { tbl : list N; hop_ : N; dead : bool }.

Definition init : state := mk (repeat poison max_number_of_data_channels) 0%N false.

Inductive op :=
| Reset (map : list N) (hop : N)      (* reset( map, hop ) *)
| Remap (map : list N)                (* reset( map ) *)
| Chan (index : nat)                  (* data_channel( index ) *)
| Dump.                               (* data_channel( 0 ) ... data_channel( 36 ) *)

Inductive out := OBool (b : bool) | OChan (c : N) | OTable (t : list N) | OFault | OSkipped.

Definition fault (s : state) : state * out := (mk (tbl s) (hop_ s) true, OFault).

(* bool channel_map::reset( const std::uint8_t* map, const unsigned hop ) *)
Definition reset_impl (s : state) (map : list N) (hop : N) : state * out :=
  if ((hop <? 5) || (16 <? hop))%N then (s, OBool false)
  else
    let s1 := mk (tbl s) (hop mod 256)%N (dead s) in
    match build_used map max_number_of_data_channels 0 (repeat None max_number_of_data_channels) 0 with
    | None => fault s1
    | Some (used, count) =>
        if count <? 2 then (s1, OBool false)
        else
          match fill map used count (N.to_nat hop) max_number_of_data_channels 0 (N.to_nat hop) (tbl s1) with
          | None => fault s1
          | Some t => (mk t (hop_ s1) (dead s1), OBool true)
          end
    end.

Definition step (s : state) (o : op) : state * out :=
  if dead s then (s, OSkipped)
  else
    match o with
    | Reset map hop => reset_impl s map hop
    | Remap map => reset_impl s map (hop_ s)
    | Chan index =>
        if index <? max_number_of_data_channels then (s, OChan (nth index (tbl s) 0%N)) else fault s
    | Dump => (s, OTable (tbl s))
    end.

Fixpoint run (s : state) (ops : list op) : list (op * out) :=
  match ops with
  | [] => []
  | o :: t => let '(s', r) := step s o in (o, r) :: run s' t
  end.

Fixpoint final (s : state) (ops : list op) : state :=
  match ops with
  | [] => s
  | o :: t => final (fst (step s o)) t
  end.

(* ------------------------------------------------------------------------------------------
   The link layer's use of the channel map (link_layer.hpp, peripheral_latency.hpp), reduced to
   the decisions that matter for C20. Not tied by this component's harness (docs/C20.md).

   adv_received():   if ( channels_.reset( &body[ 28 ], body[ 33 ] & 0x1f )
                          && parse_timing_parameters_from_connect_request( body ) )
                     { reset_connection_state(); state_ = connecting; ... }
   handle_pending_ll_control(): if ( opcode == LL_CHANNEL_MAP_REQ ) channels_.reset( &body[ 1 ] );
   plan_next_connection_event*: channel_index_ = ( channel_index_ + latency ) % 37
   setup_next_connection_event(): channels_.data_channel( current_channel_index() ) *)
Inductive ll_phase := Advertising | Connected.
Record ll := mkll { phase : ll_phase; chan : state; channel_index : nat }.

Definition ll_init : ll := mkll Advertising init 0.

Inductive ll_op :=
| ConnectInd (map : list N) (byte33 : N) (timing_ok : bool)   (* CONNECT_IND while advertising *)
| ChannelMapInd (map : list N)                                (* LL_CHANNEL_MAP_IND reaching its instant *)
| Advance (latency : nat)                                     (* next planned event is [latency] events on *)
| Disconnect.

Definition is_true_out (r : out) : bool := match r with OBool true => true | _ => false end.

Definition ll_step (l : ll) (o : ll_op) : ll :=
  match o, phase l with
  | ConnectInd map b33 timing_ok, Advertising =>
      let '(c, r) := reset_impl (chan l) map (N.land b33 31) in
      if is_true_out r && timing_ok then mkll Connected c 0    (* reset_connection_state(): channel_index_ = 0 *)
      else mkll Advertising c (channel_index l)                (* request ignored; c keeps what reset() did *)
  | ChannelMapInd map, Connected =>
      let '(c, _) := reset_impl (chan l) map (hop_ (chan l)) in mkll Connected c (channel_index l)
  | Advance d, Connected =>
      mkll Connected (chan l) ((channel_index l + d) mod max_number_of_data_channels)
  | Disconnect, Connected => mkll Advertising (chan l) (channel_index l)
  | _, _ => l
  end.

Fixpoint ll_run (l : ll) (ops : list ll_op) : ll :=
  match ops with
  | [] => l
  | o :: t => ll_run (ll_step l o) t
  end.

(* the data channel handed to the radio for the next planned connection event *)
Definition ll_data_channel (l : ll) : N := nth (channel_index l) (tbl (chan l)) 0%N.
