(* Specification of C14 "advertising and scan response data are well-formed".

   1. AD structures and the meaning of "the payload is exactly tiled by AD structures": the payload is the
      concatenation of the encodings of a list of AD structures (length octet L, then L octets: type + data;
      L = 0 is the empty structure the Core specification allows for early termination, which the code
      appends twice "to be visible to the Nordic sniffer"). parse_ads is the executable form (a parser),
      proved sound and complete w.r.t. the declarative form in AdvDataProofs.v.
   2. The abstract generator spec_ads: which AD structures a declaration yields for a buffer of b octets
      (every item in order gets what still fits: complete, shortened / incomplete, or nothing).
   3. The executable monitor mstep: judges an observed trace (operations and outputs only). Clause tags:
        overflow      a store outside the buffer (FAULT) or octets past the returned size modified
        length        returned size larger than the buffer / buffer of the wrong size reported
        over31        buffer <= 31 but payload > 31
        tiling        payload is not a sequence of AD structures, or an empty AD before a non-empty one
        flags_first   b >= 3 and the first AD is not flags (LE general discoverable, BR/EDR not supported),
                      or a flags AD anywhere else
        name_kind     complete local name that is not the whole name / shortened name that is not a
                      non-empty strict prefix / a name AD although no name is declared
        uuid_kind     complete list that is not the whole list / incomplete list that is not a non-empty
                      strict prefix of whole UUIDs
        ad_type       appearance / interval range AD with wrong content or not declared, unknown AD type,
                      non-empty AD in the automatic scan response
        custom        custom data: payload is not the copy of the first min(size, b) octets
        shape         output of the wrong kind
      For custom data (static or runtime) the monitor judges the copy only: the content is the user's
      (a truncated copy is cut mid-structure; documented as the user's responsibility). *)
From BT Require Import Base.ListX AdvData.AdvDataModel.

Inductive ad := Empty | AD (ty : N) (data : list N).

Definition enc (a : ad) : list N :=
  match a with Empty => [0%N] | AD t d => N.of_nat (S (length d)) :: t :: d end.
Definition ad_size (a : ad) : nat := match a with Empty => 1 | AD _ d => 2 + length d end.
Definition size (ads : list ad) : nat := list_sum (map ad_size ads).
(* the length octet is an octet *)
Definition ad_ok (a : ad) : Prop := match a with Empty => True | AD _ d => length d < 255 end.

Definition tiles (ads : list ad) (payload : list N) : Prop :=
  Forall ad_ok ads /\ payload = flat_map enc ads.

(* the parser; fuel = number of octets *)
Fixpoint parse (fuel : nat) (l : list N) : option (list ad) :=
  match l with
  | [] => Some []
  | L :: r =>
      match fuel with
      | O => None
      | S f =>
          if (L =? 0)%N then option_map (cons Empty) (parse f r)
          else if (256 <=? L)%N then None
          else match r with
               | [] => None
               | t :: r' =>
                   let n := N.to_nat L - 1 in
                   if length r' <? n then None
                   else option_map (cons (AD t (firstn n r'))) (parse f (skipn n r'))
               end
      end
  end.
Definition parse_ads (l : list N) : option (list ad) := parse (length l) l.

(* ---------------------------------------------------------------- the abstract generator *)
Definition stage := nat -> list ad.        (* remaining room -> AD structures emitted *)
Definition then_ (g1 g2 : stage) : stage := fun k => g1 k ++ g2 (k - size (g1 k)).

Definition g_flags : stage := fun k => if 3 <=? k then [AD ad_flags [6%N]] else [].
Definition g_appearance (a : option N) : stage :=
  fun k => match a with Some v => if 4 <=? k then [AD ad_appearance [lo16 v; hi16 v]] else [] | None => [] end.
Definition g_name (n : option (list N)) : stage :=
  fun k => match n with
           | Some l => if (k <=? 2) || (length l =? 0) then []
                       else let m := Nat.min (length l) (k - 2) in
                            [AD (if m =? length l then ad_complete_name else ad_short_name) (firstn m l)]
           | None => []
           end.
Definition g_uuid16 (us : list N) : stage :=
  fun k => if (k <? 4) || (length us =? 0) then []
           else let m := Nat.min ((k - 2) / 2) (length us) in
                [AD (if m =? length us then ad_complete_16 else ad_incomplete_16) (enc16 (firstn m us))].
Definition g_uuid128 (us : list (list N)) : stage :=
  fun k => if (k <? 18) || (length us =? 0) then []
           else let m := Nat.min ((k - 2) / 16) (length us) in
                [AD (if m =? length us then ad_complete_128 else ad_incomplete_128) (concat (firstn m us))].
Definition g_range (r : option (N * N)) : stage :=
  fun k => match r with
           | Some (mn, mx) => if 6 <=? k then [AD ad_range [lo16 mn; hi16 mn; lo16 mx; hi16 mx]] else []
           | None => []
           end.
Definition g_tail : stage := fun k => if 2 <=? k then [Empty; Empty] else [].

Definition g_rest (c : cfg) : stage :=
  then_ (g_appearance (appearance c)) (then_ (g_name (name c)) (then_ (g_uuid16 (uuids16 c))
        (then_ (g_uuid128 (uuids128 c)) (then_ (g_range (range c)) g_tail)))).
Definition spec_ads (c : cfg) (b : nat) : list ad := then_ g_flags (g_rest c) b.

(* ---------------------------------------------------------------- the monitor *)
Inductive verdict := Ok | Bad (tag : nat).
Definition t_overflow := 1.
Definition t_length := 2.
Definition t_tiling := 3.
Definition t_flags_first := 4.
Definition t_name_kind := 5.
Definition t_uuid_kind := 6.
Definition t_over31 := 7.
Definition t_custom := 8.
Definition t_ad_type := 9.
Definition t_shape := 10.

Fixpoint leqb (a b : list N) : bool :=
  match a, b with
  | [], [] => true
  | x :: a', y :: b' => (x =? y)%N && leqb a' b'
  | _, _ => false
  end.

Definition is_empty (a : ad) : bool := match a with Empty => true | _ => false end.
(* empty structures only at the end *)
Fixpoint padding_last (ads : list ad) : bool :=
  match ads with
  | [] => true
  | Empty :: r => forallb is_empty r
  | AD _ _ :: r => padding_last r
  end.

(* one AD structure against the declaration; None = fine, Some tag = violated clause *)
Definition check_ad (c : cfg) (a : ad) : option nat :=
  match a with
  | Empty => None
  | AD t d =>
      if (t =? ad_flags)%N then Some t_flags_first
      else if (t =? ad_complete_name)%N then
        match name c with
        | Some l => if (0 <? length l) && leqb d l then None else Some t_name_kind
        | None => Some t_name_kind
        end
      else if (t =? ad_short_name)%N then
        match name c with
        | Some l => if (0 <? length d) && (length d <? length l) && leqb d (firstn (length d) l) then None else Some t_name_kind
        | None => Some t_name_kind
        end
      else if (t =? ad_complete_16)%N then
        if (0 <? length (uuids16 c)) && leqb d (enc16 (uuids16 c)) then None else Some t_uuid_kind
      else if (t =? ad_incomplete_16)%N then
        let k := length d / 2 in
        if (0 <? k) && (k <? length (uuids16 c)) && leqb d (enc16 (firstn k (uuids16 c))) then None else Some t_uuid_kind
      else if (t =? ad_complete_128)%N then
        if (0 <? length (uuids128 c)) && leqb d (concat (uuids128 c)) then None else Some t_uuid_kind
      else if (t =? ad_incomplete_128)%N then
        let k := length d / 16 in
        if (0 <? k) && (k <? length (uuids128 c)) && leqb d (concat (firstn k (uuids128 c))) then None else Some t_uuid_kind
      else if (t =? ad_appearance)%N then
        match appearance c with
        | Some v => if leqb d [lo16 v; hi16 v] then None else Some t_ad_type
        | None => Some t_ad_type
        end
      else if (t =? ad_range)%N then
        match range c with
        | Some (mn, mx) => if leqb d [lo16 mn; hi16 mn; lo16 mx; hi16 mx] then None else Some t_ad_type
        | None => Some t_ad_type
        end
      else Some t_ad_type
  end.

Fixpoint first_bad (c : cfg) (ads : list ad) : option nat :=
  match ads with
  | [] => None
  | a :: r => match check_ad c a with Some t => Some t | None => first_bad c r end
  end.

Definition is_flags (a : ad) : bool :=
  match a with AD t d => (t =? ad_flags)%N && leqb d [6%N] | Empty => false end.

(* the AD structures of an automatically generated advertising payload for a buffer of b octets *)
Definition check_auto (c : cfg) (b : nat) (ads : list ad) : option nat :=
  if negb (padding_last ads) then Some t_tiling
  else if 3 <=? b then
    match ads with
    | a :: r => if is_flags a then first_bad c r else Some t_flags_first
    | [] => Some t_flags_first
    end
  else first_bad c ads.

Definition check_adv_payload (c : cfg) (b : nat) (payload : list N) : option nat :=
  match parse_ads payload with
  | None => Some t_tiling
  | Some ads => check_auto c b ads
  end.

Definition check_scan_payload (payload : list N) : option nat :=
  match parse_ads payload with
  | None => Some t_tiling
  | Some ads => if forallb is_empty ads then None else Some t_ad_type
  end.

Definition check_custom (data : list N) (b r : nat) (payload : list N) : option nat :=
  if (r =? Nat.min (length data) b) && leqb payload (firstn (Nat.min (length data) b) data) then None else Some t_custom.

(* the part common to both calls: buffer discipline *)
Definition check_frame (b r : nat) (buf : list N) : option nat :=
  if negb (length buf =? b) then Some t_length
  else if b <? r then Some t_length
  else if negb (leqb (skipn r buf) (repeat fill (b - r))) then Some t_overflow
  else if (b <=? 31) && (31 <? r) then Some t_over31
  else None.

Record mon := mkmon { m_adv : list N; m_scan : list N }.   (* the runtime custom data set so far *)
Definition minit : mon := mkmon [] [].

Definition verdict_of (o : option nat) : verdict := match o with None => Ok | Some t => Bad t end.

Definition judge_adv (c : cfg) (m : mon) (b r : nat) (buf : list N) : option nat :=
  match check_frame b r buf with
  | Some t => Some t
  | None =>
      let payload := firstn r buf in
      if runtime_adv c then check_custom (m_adv m) b r payload
      else match custom_adv c with
           | Some d => check_custom d b r payload
           | None => check_adv_payload c b payload
           end
  end.

Definition judge_scan (c : cfg) (m : mon) (b r : nat) (buf : list N) : option nat :=
  match check_frame b r buf with
  | Some t => Some t
  | None =>
      let payload := firstn r buf in
      if runtime_scan c then check_custom (m_scan m) b r payload
      else match custom_scan c with
           | Some d => check_custom d b r payload
           | None => check_scan_payload payload
           end
  end.

Definition mstep (c : cfg) (m : mon) (o : op) (r : out) : verdict * mon :=
  match o, r with
  | Adv b, ORes n buf => (verdict_of (judge_adv c m b n buf), m)
  | Scan b, ORes n buf => (verdict_of (judge_scan c m b n buf), m)
  | Adv _, OFault | Scan _, OFault => (Bad t_overflow, m)
  | SetAdv d, ODone => if runtime_adv c then (Ok, mkmon (firstn max_runtime d) (m_scan m)) else (Bad t_shape, m)
  | SetScan d, ODone => if runtime_scan c then (Ok, mkmon (m_adv m) (firstn max_runtime d)) else (Bad t_shape, m)
  | SetAdv _, ONa => if runtime_adv c then (Bad t_shape, m) else (Ok, m)
  | SetScan _, ONa => if runtime_scan c then (Bad t_shape, m) else (Ok, m)
  | _, _ => (Bad t_shape, m)
  end.

(* first violation of a whole trace: position and tag *)
Fixpoint monitor_from (c : cfg) (m : mon) (pos : nat) (tr : list (op * out)) : option (nat * nat) :=
  match tr with
  | [] => None
  | (o, r) :: t => match mstep c m o r with
                   | (Ok, m') => monitor_from c m' (S pos) t
                   | (Bad tag, _) => Some (pos, tag)
                   end
  end.
Definition monitor (c : cfg) (tr : list (op * out)) : option (nat * nat) := monitor_from c minit 0 tr.
