(* Proofs for C14. Structure:
   1. wr_bytes / put on a buffer  pre ++ repeat fill k  (frame lemma)
   2. sat w g : the writer w, started at the end of pre with k octets of room, never faults, emits
      exactly the (raw) encoding of the AD structures g k and leaves the rest untouched; closed under seq
   3. every writer of the model satisfies its abstract stage; adv_auto = spec_ads            (any b)
   4. for b <= 259 every emitted structure has a length octet that is its length (ad_ok)
   5. parser soundness / completeness
   6. the structural checks of the monitor hold of spec_ads; their Prop-level meaning
   7. the monitor accepts every model trace *)
From Coq Require Import Lia ZifyBool.
From BT Require Import Base.ListX AdvData.AdvDataModel AdvData.AdvDataSpec.
Set Implicit Arguments.

(* ------------------------------------------------------------------ 1. stores *)
Lemma upd_app_at (pre : list N) y r x : upd (pre ++ y :: r) (length pre) x = pre ++ x :: r.
Proof. induction pre as [|h t IH]; simpl; [reflexivity | now rewrite IH]. Qed.

Lemma wr_bytes_app l : forall pre rest, length l <= length rest ->
  wr_bytes (pre ++ rest) (length pre) l = Some (pre ++ l ++ skipn (length l) rest).
Proof.
  induction l as [|x t IH]; intros pre rest H; simpl.
  - reflexivity.
  - destruct rest as [|y rest']; simpl in H; [lia|].
    unfold wr. rewrite app_length; simpl.
    destruct (length pre <? length pre + S (length rest')) eqn:E; [|apply Nat.ltb_ge in E; lia].
    rewrite upd_app_at.
    replace (pre ++ x :: rest') with ((pre ++ [x]) ++ rest') by (rewrite <- app_assoc; reflexivity).
    replace (S (length pre)) with (length (pre ++ [x])) by (rewrite app_length; simpl; lia).
    rewrite IH by lia. rewrite <- app_assoc. reflexivity.
Qed.

Lemma skipn_repeat (A : Type) (x : A) n k : skipn n (repeat x k) = repeat x (k - n).
Proof.
  revert k; induction n as [|n IH]; intros k; simpl.
  - now rewrite Nat.sub_0_r.
  - destruct k; simpl; [reflexivity | apply IH].
Qed.

Lemma put_fresh pre k l : length l <= k ->
  put l (pre ++ repeat fill k) (length pre) = Some ((pre ++ l) ++ repeat fill (k - length l), length (pre ++ l)).
Proof.
  intros H. unfold put. rewrite wr_bytes_app by (rewrite repeat_length; lia).
  rewrite skipn_repeat, app_length, app_assoc. reflexivity.
Qed.

Lemma room pre k : length (pre ++ repeat fill k) - length pre = k.
Proof. rewrite app_length, repeat_length. lia. Qed.

Lemma len_buf pre k : length (pre ++ repeat fill k) = length pre + k.
Proof. now rewrite app_length, repeat_length. Qed.

(* ------------------------------------------------------------------ 2. writers against stages *)
(* what the code stores for an AD structure: the length octet is a std::uint8_t store *)
Definition raw_enc (a : ad) : list N :=
  match a with Empty => [0%N] | AD t d => byte (S (length d)) :: t :: d end.
Definition raw (ads : list ad) : list N := flat_map raw_enc ads.

Lemma raw_enc_length a : length (raw_enc a) = ad_size a.
Proof. destruct a; reflexivity. Qed.

Lemma raw_length ads : length (raw ads) = size ads.
Proof.
  unfold raw, size. induction ads as [|a t IH]; simpl; [reflexivity|].
  now rewrite app_length, IH, raw_enc_length.
Qed.

Lemma raw_app a b : raw (a ++ b) = raw a ++ raw b.
Proof. apply flat_map_app. Qed.

Lemma size_app a b : size (a ++ b) = size a + size b.
Proof. unfold size. now rewrite map_app, list_sum_app. Qed.

Definition sat (w : writer) (g : stage) : Prop :=
  forall pre k,
    size (g k) <= k /\
    w (pre ++ repeat fill k) (length pre) =
      Some ((pre ++ raw (g k)) ++ repeat fill (k - size (g k)), length (pre ++ raw (g k))).

Lemma sat_seq w1 w2 g1 g2 : sat w1 g1 -> sat w2 g2 -> sat (seq w1 w2) (then_ g1 g2).
Proof.
  intros H1 H2 pre k. unfold seq, then_.
  destruct (H1 pre k) as [L1 E1]. rewrite E1.
  destruct (H2 (pre ++ raw (g1 k)) (k - size (g1 k))) as [L2 E2]. rewrite E2.
  rewrite size_app, raw_app. split; [lia|].
  rewrite Nat.sub_add_distr, !app_assoc. reflexivity.
Qed.

(* a stage that emits nothing *)
Lemma skip_none pre k :
  Some (pre ++ repeat fill k, length pre) =
  Some ((pre ++ raw []) ++ repeat fill (k - size []), length (pre ++ raw [])).
Proof. simpl. now rewrite app_nil_r, Nat.sub_0_r. Qed.

(* a stage that emits one structure whose stored octets are l *)
Lemma put_one pre k l a : raw_enc a = l -> ad_size a <= k ->
  size [a] <= k /\
  put l (pre ++ repeat fill k) (length pre) =
    Some ((pre ++ raw [a]) ++ repeat fill (k - size [a]), length (pre ++ raw [a])).
Proof.
  intros E H. unfold size, raw; simpl. rewrite app_nil_r, Nat.add_0_r, E. split; [exact H|].
  assert (length l = ad_size a) by (rewrite <- E; apply raw_enc_length).
  rewrite put_fresh by lia. now rewrite H0.
Qed.

Lemma sat_appearance a : sat (w_appearance a) (g_appearance a).
Proof.
  intros pre k. unfold w_appearance, g_appearance. destruct a as [v|].
  - rewrite room. destruct (4 <=? k) eqn:E.
    + apply put_one; [reflexivity | simpl; lia].
    + split; [apply Nat.le_0_l | apply skip_none].
  - split; [apply Nat.le_0_l | apply skip_none].
Qed.

Lemma sat_name n : sat (w_name n) (g_name n).
Proof.
  intros pre k. unfold w_name, g_name. destruct n as [l|].
  - rewrite room. destruct (k <=? 2) eqn:E; simpl orb.
    + split; [apply Nat.le_0_l | apply skip_none].
    + destruct (length l) as [|nl] eqn:EL.
      * simpl. split; [apply Nat.le_0_l | apply skip_none].
      * change (0 <? S nl) with true. change (S nl =? 0) with false. cbv iota.
        set (m := Nat.min (S nl) (k - 2)).
        assert (Hm : length (firstn m l) = m) by (rewrite firstn_length; lia).
        apply put_one.
        -- simpl. rewrite Hm. replace (m + 1) with (S m) by lia. reflexivity.
        -- simpl. rewrite Hm. lia.
  - split; [apply Nat.le_0_l | apply skip_none].
Qed.

Lemma enc16_length us : length (enc16 us) = 2 * length us.
Proof. unfold enc16. induction us; simpl; [reflexivity | lia]. Qed.

Lemma sat_uuid16 us : sat (w_uuid16 us) (g_uuid16 us).
Proof.
  intros pre k. unfold w_uuid16, g_uuid16. destruct us as [|u us'].
  - rewrite Bool.orb_true_r. split; [apply Nat.le_0_l | apply skip_none].
  - rewrite room. set (us := u :: us').
    change (length us =? 0) with false. rewrite Bool.orb_false_r.
    destruct (k <? 4) eqn:E.
    + split; [apply Nat.le_0_l | apply skip_none].
    + set (m := Nat.min ((k - 2) / 2) (length us)).
      assert (Hm : length (enc16 (firstn m us)) = 2 * m) by (rewrite enc16_length, firstn_length; lia).
      pose proof (Nat.mul_div_le (k - 2) 2 ltac:(lia)).
      apply put_one.
      * simpl raw_enc. rewrite Hm. reflexivity.
      * simpl ad_size. rewrite Hm. lia.
Qed.

Lemma concat16_length (us : list (list N)) :
  Forall (fun u => length u = 16) us -> length (concat us) = 16 * length us.
Proof.
  induction 1 as [|u t Hu _ IH]; simpl; [reflexivity|]. rewrite app_length, Hu, IH. lia.
Qed.

Lemma Forall_firstn (A : Type) (P : A -> Prop) n (l : list A) : Forall P l -> Forall P (firstn n l).
Proof.
  intros H. revert n. induction H; intros [|n]; simpl; constructor; auto.
Qed.

Lemma each128_spec us : Forall (fun u => length u = 16) us -> forall pre k,
  let j := Nat.min (k / 16) (length us) in
  w_each128 us (pre ++ repeat fill k) (length pre) =
    Some ((pre ++ concat (firstn j us)) ++ repeat fill (k - 16 * j), length (pre ++ concat (firstn j us))).
Proof.
  induction 1 as [|u t Hu Ht IH]; intros pre k; cbv zeta.
  - simpl. rewrite Nat.min_0_r. simpl. now rewrite app_nil_r, Nat.sub_0_r.
  - cbn [w_each128]. rewrite len_buf.
    destruct (length pre + 16 <=? length pre + k) eqn:E.
    + assert (16 <= k) by lia.
      unfold seq. rewrite put_fresh by lia. rewrite Hu.
      specialize (IH (pre ++ u) (k - 16)). cbv zeta in IH. rewrite IH.
      assert (Hd : k / 16 = S ((k - 16) / 16)).
      { pose proof (Nat.div_add (k - 16) 1 16 ltac:(lia)) as D.
        replace (k - 16 + 1 * 16) with k in D by lia. lia. }
      rewrite Hd. cbn [length]. rewrite <- Nat.succ_min_distr. cbn [firstn concat].
      rewrite !app_assoc.
      replace (k - 16 * S (Nat.min ((k - 16) / 16) (length t))) with (k - 16 - 16 * Nat.min ((k - 16) / 16) (length t)) by lia.
      reflexivity.
    + assert (k < 16) by lia.
      specialize (IH pre k). cbv zeta in IH. rewrite IH.
      rewrite Nat.div_small by lia. simpl. reflexivity.
Qed.

Lemma sat_uuid128 us : Forall (fun u => length u = 16) us -> sat (w_uuid128 us) (g_uuid128 us).
Proof.
  intros W pre k. unfold w_uuid128, g_uuid128. destruct us as [|u us'].
  - rewrite Bool.orb_true_r. split; [apply Nat.le_0_l | apply skip_none].
  - rewrite room. set (us := u :: us') in *.
    change (length us =? 0) with false. rewrite Bool.orb_false_r.
    change (2 + 16) with 18.
    destruct (k <? 18) eqn:E.
    + split; [apply Nat.le_0_l | apply skip_none].
    + set (m := Nat.min ((k - 2) / 16) (length us)).
      assert (Hm : length (concat (firstn m us)) = 16 * m).
      { rewrite concat16_length by (apply Forall_firstn; exact W). rewrite firstn_length. lia. }
      pose proof (Nat.mul_div_le (k - 2) 16 ltac:(lia)).
      unfold size, raw; simpl list_sum; simpl flat_map. rewrite app_nil_r, Nat.add_0_r, Hm.
      split; [lia|].
      unfold seq. rewrite put_fresh by (simpl; lia).
      set (hd := [byte (1 + 16 * m); if m =? length us then ad_complete_128 else ad_incomplete_128]).
      change (length hd) with 2.
      pose proof (each128_spec W (pre ++ hd) (k - 2)) as H2. cbv zeta in H2. fold m in H2.
      rewrite H2. unfold hd.
      replace (1 + 16 * m) with (S (16 * m)) by lia.
      replace (k - 2 - 16 * m) with (k - S (S (16 * m))) by lia.
      rewrite <- !app_assoc. reflexivity.
Qed.

Lemma sat_range r : sat (w_range r) (g_range r).
Proof.
  intros pre k. unfold w_range, g_range. destruct r as [[mn mx]|].
  - rewrite room. destruct (6 <=? k) eqn:E.
    + apply put_one; [reflexivity | simpl; lia].
    + split; [apply Nat.le_0_l | apply skip_none].
  - split; [apply Nat.le_0_l | apply skip_none].
Qed.

Lemma sat_tail : sat w_tail g_tail.
Proof.
  intros pre k. unfold w_tail, g_tail. rewrite room. destruct (2 <=? k) eqn:E.
  - split; [change (2 <= k); lia|]. rewrite put_fresh by (simpl; lia). reflexivity.
  - split; [apply Nat.le_0_l | apply skip_none].
Qed.

Lemma sat_flags0 k :
  size (g_flags k) <= k /\
  w_flags (repeat fill k) 0 = Some (raw (g_flags k) ++ repeat fill (k - size (g_flags k)), length (raw (g_flags k))).
Proof.
  unfold w_flags, g_flags. rewrite repeat_length. destruct (3 <=? k) eqn:E.
  - split; [change (3 <= k); lia|]. exact (@put_fresh [] k [2%N; ad_flags; 6%N] ltac:(simpl; lia)).
  - split; [apply Nat.le_0_l|]. simpl. now rewrite Nat.sub_0_r.
Qed.

(* ------------------------------------------------------------------ 3. the whole generator, any buffer size *)
Lemma writers_sat c : wf_cfg c -> sat (w_rest c) (g_rest c).
Proof.
  intros W. unfold w_rest, g_rest.
  apply sat_seq; [apply sat_appearance|].
  apply sat_seq; [apply sat_name|].
  apply sat_seq; [apply sat_uuid16|].
  apply sat_seq; [apply sat_uuid128; exact W|].
  apply sat_seq; [apply sat_range | apply sat_tail].
Qed.

Theorem adv_auto_spec c b : wf_cfg c ->
  size (spec_ads c b) <= b /\
  adv_auto c b = Some (raw (spec_ads c b) ++ repeat fill (b - size (spec_ads c b)), size (spec_ads c b)).
Proof.
  intros W. unfold adv_auto, spec_ads, then_, seq, fresh.
  destruct (sat_flags0 b) as [L0 E0]. rewrite E0.
  destruct (writers_sat W (raw (g_flags b)) (b - size (g_flags b))) as [L1 E1]. rewrite E1.
  rewrite size_app, raw_app. split; [lia|].
  rewrite app_length, !raw_length, Nat.sub_add_distr. reflexivity.
Qed.

Lemma firstn_app_exact (A : Type) (a b : list A) : firstn (length a) (a ++ b) = a.
Proof. rewrite firstn_app, Nat.sub_diag, firstn_all. simpl. apply app_nil_r. Qed.

Lemma skipn_app_exact (A : Type) (a b : list A) : skipn (length a) (a ++ b) = b.
Proof. rewrite skipn_app, Nat.sub_diag, skipn_all. reflexivity. Qed.

(* shape of a successful call *)
Definition good (b : nat) (o : out) (payload : list N) : Prop :=
  o = ORes (length payload) (payload ++ repeat fill (b - length payload)) /\ length payload <= b.

Lemma good_frame b o payload : good b o payload ->
  exists r buf, o = ORes r buf /\ r <= b /\ length buf = b /\ firstn r buf = payload /\ skipn r buf = repeat fill (b - r).
Proof.
  intros [E L]. exists (length payload), (payload ++ repeat fill (b - length payload)).
  repeat split; auto.
  - rewrite app_length, repeat_length. lia.
  - apply firstn_app_exact.
  - apply skipn_app_exact.
Qed.

Lemma adv_auto_good c b : wf_cfg c -> good b (result (adv_auto c b)) (raw (spec_ads c b)).
Proof.
  intros W. destruct (adv_auto_spec b W) as [L E]. unfold good. rewrite E, raw_length. split; [reflexivity | exact L].
Qed.

Lemma copy_custom_good data b : good b (result (copy_custom data b)) (firstn (Nat.min (length data) b) data).
Proof.
  unfold copy_custom, fresh.
  assert (H : length (firstn (Nat.min (length data) b) data) = Nat.min (length data) b) by (rewrite firstn_length; lia).
  pose proof (@put_fresh [] b (firstn (Nat.min (length data) b) data) ltac:(lia)) as P. simpl in P.
  rewrite P. unfold good, result. split; [reflexivity | lia].
Qed.

Lemma scan_auto_good b : good b (result (scan_auto b)) (if b <? 2 then [] else [0%N; 0%N]).
Proof.
  unfold scan_auto, fresh. destruct (b <? 2) eqn:E.
  - unfold good, result. simpl. rewrite Nat.sub_0_r. split; [reflexivity | lia].
  - pose proof (@put_fresh [] b [0%N; 0%N] ltac:(simpl; lia)) as P. simpl in P. rewrite P.
    unfold good, result. simpl. split; [reflexivity | lia].
Qed.

(* the payload of each call, as a function of declaration, state and buffer size *)
Definition adv_payload (c : cfg) (s : state) (b : nat) : list N :=
  if runtime_adv c then firstn (Nat.min (length (rt_adv s)) b) (rt_adv s)
  else match custom_adv c with
       | Some d => firstn (Nat.min (length d) b) d
       | None => raw (spec_ads c b)
       end.
Definition scan_payload (c : cfg) (s : state) (b : nat) : list N :=
  if runtime_scan c then firstn (Nat.min (length (rt_scan s)) b) (rt_scan s)
  else match custom_scan c with
       | Some d => firstn (Nat.min (length d) b) d
       | None => if b <? 2 then [] else [0%N; 0%N]
       end.

Theorem advertising_data_good c s b : wf_cfg c -> good b (advertising_data c s b) (adv_payload c s b).
Proof.
  intros W. unfold advertising_data, adv_payload. destruct (runtime_adv c).
  - apply copy_custom_good.
  - destruct (custom_adv c); [apply copy_custom_good | apply adv_auto_good; exact W].
Qed.

Theorem scan_response_data_good c s b : good b (scan_response_data c s b) (scan_payload c s b).
Proof.
  unfold scan_response_data, scan_payload. destruct (runtime_scan c).
  - apply copy_custom_good.
  - destruct (custom_scan c); [apply copy_custom_good | apply scan_auto_good].
Qed.

(* Memory safety and framing, for every declaration, state and buffer size: no Fault, the result is at
   most the buffer size, the buffer keeps its size and the octets from the result on are untouched. *)
Theorem memory_safe c s b : wf_cfg c ->
  (exists r buf, advertising_data c s b = ORes r buf /\ r <= b /\ length buf = b /\ skipn r buf = repeat fill (b - r)) /\
  (exists r buf, scan_response_data c s b = ORes r buf /\ r <= b /\ length buf = b /\ skipn r buf = repeat fill (b - r)).
Proof.
  intros W. split.
  - destruct (good_frame (advertising_data_good s b W)) as (r & buf & E & L & LB & _ & SK). exists r, buf. auto.
  - destruct (good_frame (scan_response_data_good c s b)) as (r & buf & E & L & LB & _ & SK). exists r, buf. auto.
Qed.

(* the unfixed automatic scan response *)
Lemma scan_unfixed_faults b : b < 2 -> scan_auto_unfixed b = None.
Proof. intros H. destruct b as [|[|b]]; [reflexivity | reflexivity | lia]. Qed.

Lemma scan_unfixed_ok b : 2 <= b -> scan_auto_unfixed b = scan_auto b.
Proof.
  intros H. destruct b as [|[|b]]; try lia. reflexivity.
Qed.

(* ------------------------------------------------------------------ 4. no truncated length octet for b <= 259 *)
Lemma ad_size_le_size a ads : In a ads -> ad_size a <= size ads.
Proof.
  unfold size. induction ads as [|x t IH]; simpl; [tauto|]. intros [->|H]; [lia | specialize (IH H); lia].
Qed.

Lemma small_ads_ok ads : size ads <= 256 -> Forall ad_ok ads.
Proof.
  intros H. apply Forall_forall. intros a Ha. pose proof (@ad_size_le_size a ads Ha).
  destruct a; simpl in *; [exact I | lia].
Qed.

Lemma byte_small n : n < 256 -> byte n = N.of_nat n.
Proof. intros H. unfold byte. apply N.mod_small. lia. Qed.

Lemma raw_enc_ok a : ad_ok a -> raw_enc a = enc a.
Proof. destruct a; simpl; [reflexivity|]. intros H. rewrite byte_small by lia. reflexivity. Qed.

Lemma raw_ok ads : Forall ad_ok ads -> raw ads = flat_map enc ads.
Proof. unfold raw. induction 1; simpl; [reflexivity|]. now rewrite raw_enc_ok, IHForall. Qed.

(* 259 = 3 octets of flags + 256; the bound is tight: see tiling_refuted_at_260 *)
Theorem spec_ads_ok c b : wf_cfg c -> b <= 259 -> Forall ad_ok (spec_ads c b).
Proof.
  intros W H. unfold spec_ads, then_. apply Forall_app. split.
  - unfold g_flags. destruct (3 <=? b); repeat constructor.
  - apply small_ads_ok. destruct (writers_sat W [] (b - size (g_flags b))) as [L _].
    unfold g_flags in *. destruct (3 <=? b) eqn:E.
    + change (size [AD ad_flags [6%N]]) with 3 in *. lia.
    + change (size (@nil ad)) with 0 in *. apply Nat.leb_gt in E. lia.
Qed.

(* ------------------------------------------------------------------ 5. the parser *)
Lemma parse_complete ads : Forall ad_ok ads -> forall fuel, length (flat_map enc ads) <= fuel ->
  parse fuel (flat_map enc ads) = Some ads.
Proof.
  induction 1 as [|a t Ha _ IH]; intros fuel HF.
  - destruct fuel; reflexivity.
  - destruct a as [|ty d]; simpl in HF.
    + destruct fuel as [|f]; [lia|]. simpl. rewrite IH by lia. reflexivity.
    + rewrite app_length in HF. destruct fuel as [|f]; [lia|].
      simpl in Ha. cbn [flat_map enc app parse].
      destruct (N.of_nat (S (length d)) =? 0)%N eqn:E0; [apply N.eqb_eq in E0; lia|].
      destruct (256 <=? N.of_nat (S (length d)))%N eqn:E1; [apply N.leb_le in E1; lia|].
      rewrite Nat2N.id. replace (S (length d) - 1) with (length d) by lia.
      rewrite app_length.
      destruct (length d + length (flat_map enc t) <? length d) eqn:E2; [apply Nat.ltb_lt in E2; lia|].
      rewrite firstn_app_exact, skipn_app_exact, IH by lia. reflexivity.
Qed.

Lemma parse_ads_complete ads : Forall ad_ok ads -> parse_ads (flat_map enc ads) = Some ads.
Proof. intros H. apply parse_complete; auto. Qed.

Lemma parse_sound fuel : forall l ads, parse fuel l = Some ads -> tiles ads l.
Proof.
  unfold tiles. induction fuel as [|f IH]; intros l ads H.
  - destruct l; simpl in H; [|discriminate]. injection H as <-. split; [constructor | reflexivity].
  - destruct l as [|L r]; simpl in H.
    { injection H as <-. split; [constructor | reflexivity]. }
    destruct (L =? 0)%N eqn:E0.
    + apply N.eqb_eq in E0. subst L.
      destruct (parse f r) as [ads'|] eqn:P; [|discriminate]. injection H as <-.
      destruct (IH _ _ P) as [F ->]. split; [constructor; [exact I | exact F] | reflexivity].
    + destruct (256 <=? L)%N eqn:E1; [discriminate|].
      destruct r as [|t r']; [discriminate|].
      destruct (length r' <? N.to_nat L - 1) eqn:E2; [discriminate|].
      destruct (parse f (skipn (N.to_nat L - 1) r')) as [ads'|] eqn:P; [|discriminate]. injection H as <-.
      destruct (IH _ _ P) as [F E]. apply N.eqb_neq in E0. apply N.leb_gt in E1. apply Nat.ltb_ge in E2.
      assert (HL : length (firstn (N.to_nat L - 1) r') = N.to_nat L - 1) by (rewrite firstn_length; lia).
      split.
      * constructor; [simpl; lia | exact F].
      * cbn [flat_map enc]. rewrite HL, <- E.
        replace (N.of_nat (S (N.to_nat L - 1))) with L by lia.
        cbn [app]. now rewrite firstn_skipn.
Qed.

Lemma parse_ads_sound l ads : parse_ads l = Some ads -> tiles ads l.
Proof. apply parse_sound. Qed.

(* ------------------------------------------------------------------ 6. the structural checks *)
Lemma leqb_refl l : leqb l l = true.
Proof. induction l; simpl; [reflexivity|]. now rewrite N.eqb_refl. Qed.

Lemma leqb_eq a : forall b, leqb a b = true -> a = b.
Proof.
  induction a as [|x a IH]; intros [|y b] H; simpl in H; try discriminate; [reflexivity|].
  apply andb_prop in H. destruct H as [H1 H2]. apply N.eqb_eq in H1. subst. f_equal. auto.
Qed.

Lemma first_bad_app c a b : first_bad c a = None -> first_bad c b = None -> first_bad c (a ++ b) = None.
Proof.
  induction a as [|x t IH]; simpl; intros Ha Hb; [exact Hb|].
  destruct (check_ad c x); [discriminate | auto].
Qed.

Lemma first_bad_all c ads : first_bad c ads = None -> forall a, In a ads -> check_ad c a = None.
Proof.
  induction ads as [|x t IH]; simpl; intros H a Ha; [tauto|].
  destruct (check_ad c x) eqn:E; [discriminate|]. destruct Ha as [->|Ha]; auto.
Qed.

Definition nonempty (ads : list ad) : Prop := Forall (fun a => is_empty a = false) ads.

Lemma padding_last_app a b : nonempty a -> padding_last (a ++ b) = padding_last b.
Proof.
  induction 1 as [|x t Hx _ IH]; simpl; [reflexivity|]. destruct x; [discriminate | exact IH].
Qed.

Ltac one_ad := first [ apply Forall_nil | apply Forall_cons; [reflexivity | apply Forall_nil] ].

Lemma ne_flags k : nonempty (g_flags k).
Proof. unfold g_flags. destruct (3 <=? k); one_ad. Qed.
Lemma ne_appearance a k : nonempty (g_appearance a k).
Proof. unfold g_appearance. destruct a; [destruct (4 <=? k)|]; one_ad. Qed.
Lemma ne_name n k : nonempty (g_name n k).
Proof. unfold g_name. destruct n; [destruct ((k <=? 2) || (length l =? 0))|]; one_ad. Qed.
Lemma ne_uuid16 us k : nonempty (g_uuid16 us k).
Proof. unfold g_uuid16. destruct ((k <? 4) || (length us =? 0)); one_ad. Qed.
Lemma ne_uuid128 us k : nonempty (g_uuid128 us k).
Proof. unfold g_uuid128. destruct ((k <? 18) || (length us =? 0)); one_ad. Qed.
Lemma ne_range r k : nonempty (g_range r k).
Proof. unfold g_range. destruct r as [[mn mx]|]; [destruct (6 <=? k)|]; one_ad. Qed.

Lemma spec_padding_last c b : padding_last (spec_ads c b) = true.
Proof.
  unfold spec_ads, g_rest, then_.
  rewrite padding_last_app by apply ne_flags.
  rewrite padding_last_app by apply ne_appearance.
  rewrite padding_last_app by apply ne_name.
  rewrite padding_last_app by apply ne_uuid16.
  rewrite padding_last_app by apply ne_uuid128.
  rewrite padding_last_app by apply ne_range.
  unfold g_tail. match goal with |- context [2 <=? ?k] => destruct (2 <=? k) end; reflexivity.
Qed.

Ltac eval_codes :=
  cbn [first_bad check_ad N.eqb Pos.eqb ad_flags ad_complete_name ad_short_name ad_complete_16 ad_incomplete_16
       ad_complete_128 ad_incomplete_128 ad_appearance ad_range].

Lemma chk_appearance c k : first_bad c (g_appearance (appearance c) k) = None.
Proof.
  unfold g_appearance. destruct (appearance c) as [v|] eqn:A; [|reflexivity].
  destruct (4 <=? k); [|reflexivity].
  eval_codes. rewrite A, leqb_refl. reflexivity.
Qed.

Lemma chk_name c k : first_bad c (g_name (name c) k) = None.
Proof.
  unfold g_name. destruct (name c) as [l|] eqn:A; [|reflexivity].
  destruct (k <=? 2) eqn:E; [reflexivity|]. destruct (length l =? 0) eqn:E0; [reflexivity|]. simpl orb. cbv iota.
  apply Nat.leb_gt in E. apply Nat.eqb_neq in E0.
  set (m := Nat.min (length l) (k - 2)).
  destruct (m =? length l) eqn:EM.
  - apply Nat.eqb_eq in EM. eval_codes. rewrite A, EM, firstn_all, leqb_refl.
    destruct (0 <? length l) eqn:Z; [reflexivity | apply Nat.ltb_ge in Z; lia].
  - apply Nat.eqb_neq in EM. eval_codes. rewrite A.
    assert (Hm : length (firstn m l) = m) by (rewrite firstn_length; lia).
    rewrite Hm, leqb_refl.
    destruct (0 <? m) eqn:Z; [|apply Nat.ltb_ge in Z; lia].
    destruct (m <? length l) eqn:Z2; [reflexivity | apply Nat.ltb_ge in Z2; lia].
Qed.

Lemma chk_uuid16 c k : first_bad c (g_uuid16 (uuids16 c) k) = None.
Proof.
  unfold g_uuid16. set (us := uuids16 c).
  destruct (k <? 4) eqn:E; [reflexivity|]. destruct (length us =? 0) eqn:E0; [reflexivity|]. simpl orb. cbv iota.
  apply Nat.ltb_ge in E. apply Nat.eqb_neq in E0.
  set (m := Nat.min ((k - 2) / 2) (length us)).
  assert (1 <= (k - 2) / 2) by (apply Nat.div_le_lower_bound; lia).
  destruct (m =? length us) eqn:EM.
  - apply Nat.eqb_eq in EM. eval_codes. fold us. rewrite EM, firstn_all, leqb_refl.
    destruct (0 <? length us) eqn:Z; [reflexivity | apply Nat.ltb_ge in Z; lia].
  - apply Nat.eqb_neq in EM. eval_codes. fold us.
    assert (Hm : length (enc16 (firstn m us)) / 2 = m).
    { rewrite enc16_length, firstn_length. replace (Nat.min m (length us)) with m by lia.
      rewrite Nat.mul_comm. apply Nat.div_mul. lia. }
    rewrite Hm, leqb_refl.
    destruct (0 <? m) eqn:Z; [|apply Nat.ltb_ge in Z; lia].
    destruct (m <? length us) eqn:Z2; [reflexivity | apply Nat.ltb_ge in Z2; lia].
Qed.

Lemma chk_uuid128 c k : wf_cfg c -> first_bad c (g_uuid128 (uuids128 c) k) = None.
Proof.
  intros W. unfold wf_cfg in W. unfold g_uuid128. set (us := uuids128 c) in *.
  destruct (k <? 18) eqn:E; [reflexivity|]. destruct (length us =? 0) eqn:E0; [reflexivity|]. simpl orb. cbv iota.
  apply Nat.ltb_ge in E. apply Nat.eqb_neq in E0.
  set (m := Nat.min ((k - 2) / 16) (length us)).
  assert (1 <= (k - 2) / 16) by (apply Nat.div_le_lower_bound; lia).
  destruct (m =? length us) eqn:EM.
  - apply Nat.eqb_eq in EM. eval_codes. fold us. rewrite EM, firstn_all, leqb_refl.
    destruct (0 <? length us) eqn:Z; [reflexivity | apply Nat.ltb_ge in Z; lia].
  - apply Nat.eqb_neq in EM. eval_codes. fold us.
    assert (Hm : length (concat (firstn m us)) / 16 = m).
    { rewrite concat16_length by (apply Forall_firstn; exact W). rewrite firstn_length.
      replace (Nat.min m (length us)) with m by lia. rewrite Nat.mul_comm. apply Nat.div_mul. lia. }
    rewrite Hm, leqb_refl.
    destruct (0 <? m) eqn:Z; [|apply Nat.ltb_ge in Z; lia].
    destruct (m <? length us) eqn:Z2; [reflexivity | apply Nat.ltb_ge in Z2; lia].
Qed.

Lemma chk_range c k : first_bad c (g_range (range c) k) = None.
Proof.
  unfold g_range. destruct (range c) as [[mn mx]|] eqn:A; [|reflexivity].
  destruct (6 <=? k); [|reflexivity].
  eval_codes. rewrite A, leqb_refl. reflexivity.
Qed.

Lemma chk_tail c k : first_bad c (g_tail k) = None.
Proof. unfold g_tail. destruct (2 <=? k); reflexivity. Qed.

Lemma chk_rest c k : wf_cfg c -> first_bad c (g_rest c k) = None.
Proof.
  intros W. unfold g_rest, then_.
  apply first_bad_app; [apply chk_appearance|].
  apply first_bad_app; [apply chk_name|].
  apply first_bad_app; [apply chk_uuid16|].
  apply first_bad_app; [apply chk_uuid128; exact W|].
  apply first_bad_app; [apply chk_range | apply chk_tail].
Qed.

Theorem spec_checked c b : wf_cfg c -> check_auto c b (spec_ads c b) = None.
Proof.
  intros W. unfold check_auto. rewrite spec_padding_last. simpl negb. cbv iota.
  unfold spec_ads, then_, g_flags. destruct (3 <=? b) eqn:E.
  - cbn. apply chk_rest; exact W.
  - cbn [app]. apply chk_rest; exact W.
Qed.

(* Prop-level meaning of the per-structure check *)
Definition name_clause (c : cfg) (a : ad) : Prop :=
  match a with
  | AD t d =>
      (t = ad_complete_name -> name c = Some d /\ 0 < length d) /\
      (t = ad_short_name -> exists l, name c = Some l /\ d = firstn (length d) l /\ 0 < length d < length l)
  | Empty => True
  end.

Definition uuid_clause (c : cfg) (a : ad) : Prop :=
  match a with
  | AD t d =>
      (t = ad_complete_16 -> d = enc16 (uuids16 c) /\ uuids16 c <> []) /\
      (t = ad_incomplete_16 -> exists k, 0 < k < length (uuids16 c) /\ d = enc16 (firstn k (uuids16 c))) /\
      (t = ad_complete_128 -> d = concat (uuids128 c) /\ uuids128 c <> []) /\
      (t = ad_incomplete_128 -> exists k, 0 < k < length (uuids128 c) /\ d = concat (firstn k (uuids128 c)))
  | Empty => True
  end.

Definition other_clause (c : cfg) (a : ad) : Prop :=
  match a with
  | AD t d =>
      In t [ad_complete_name; ad_short_name; ad_complete_16; ad_incomplete_16; ad_complete_128; ad_incomplete_128;
            ad_appearance; ad_range] /\
      (t = ad_appearance -> exists v, appearance c = Some v /\ d = [lo16 v; hi16 v]) /\
      (t = ad_range -> exists mn mx, range c = Some (mn, mx) /\ d = [lo16 mn; hi16 mn; lo16 mx; hi16 mx])
  | Empty => True
  end.

Ltac kill_eqb :=
  repeat match goal with
         | H : (?a =? ?b)%N = true |- _ => apply N.eqb_eq in H; subst
         | H : (?a =? ?b)%N = false |- _ => apply N.eqb_neq in H
         end.

Ltac fin := unfold name_clause, uuid_clause, other_clause; repeat split; try discriminate; try (simpl; tauto); auto.

Lemma check_ad_meaning c a : check_ad c a = None -> name_clause c a /\ uuid_clause c a /\ other_clause c a.
Proof.
  destruct a as [|t d]; [simpl; tauto|]. unfold check_ad.
  destruct (t =? ad_flags)%N eqn:E1; [discriminate|].
  destruct (t =? ad_complete_name)%N eqn:E2.
  { kill_eqb. destruct (name c) as [l|] eqn:NM; [|discriminate].
    destruct ((0 <? length l) && leqb d l) eqn:K; [|discriminate]. intros _.
    apply andb_prop in K. destruct K as [K1 K2]. apply leqb_eq in K2. subst l. apply Nat.ltb_lt in K1.
    fin. }
  destruct (t =? ad_short_name)%N eqn:E3.
  { kill_eqb. destruct (name c) as [l|] eqn:NM; [|discriminate].
    destruct ((0 <? length d) && (length d <? length l) && leqb d (firstn (length d) l)) eqn:K; [|discriminate]. intros _.
    apply andb_prop in K. destruct K as [K K3]. apply andb_prop in K. destruct K as [K1 K2].
    apply leqb_eq in K3. apply Nat.ltb_lt in K1. apply Nat.ltb_lt in K2.
    fin; intros _; exists l; auto. }
  destruct (t =? ad_complete_16)%N eqn:E4.
  { kill_eqb. destruct ((0 <? length (uuids16 c)) && leqb d (enc16 (uuids16 c))) eqn:K; [|discriminate]. intros _.
    apply andb_prop in K. destruct K as [K1 K2]. apply leqb_eq in K2. apply Nat.ltb_lt in K1.
    fin; intros Z; rewrite Z in K1; simpl in K1; lia. }
  destruct (t =? ad_incomplete_16)%N eqn:E5.
  { kill_eqb. cbv zeta.
    destruct ((0 <? length d / 2) && (length d / 2 <? length (uuids16 c)) && leqb d (enc16 (firstn (length d / 2) (uuids16 c)))) eqn:K; [|discriminate]. intros _.
    apply andb_prop in K. destruct K as [K K3]. apply andb_prop in K. destruct K as [K1 K2].
    apply leqb_eq in K3. apply Nat.ltb_lt in K1. apply Nat.ltb_lt in K2.
    fin; intros _; exists (length d / 2); auto. }
  destruct (t =? ad_complete_128)%N eqn:E6.
  { kill_eqb. destruct ((0 <? length (uuids128 c)) && leqb d (concat (uuids128 c))) eqn:K; [|discriminate]. intros _.
    apply andb_prop in K. destruct K as [K1 K2]. apply leqb_eq in K2. apply Nat.ltb_lt in K1.
    fin; intros Z; rewrite Z in K1; simpl in K1; lia. }
  destruct (t =? ad_incomplete_128)%N eqn:E7.
  { kill_eqb. cbv zeta.
    destruct ((0 <? length d / 16) && (length d / 16 <? length (uuids128 c)) && leqb d (concat (firstn (length d / 16) (uuids128 c)))) eqn:K; [|discriminate]. intros _.
    apply andb_prop in K. destruct K as [K K3]. apply andb_prop in K. destruct K as [K1 K2].
    apply leqb_eq in K3. apply Nat.ltb_lt in K1. apply Nat.ltb_lt in K2.
    fin; intros _; exists (length d / 16); auto. }
  destruct (t =? ad_appearance)%N eqn:E8.
  { kill_eqb. destruct (appearance c) as [v|] eqn:AP; [|discriminate].
    destruct (leqb d [lo16 v; hi16 v]) eqn:K; [|discriminate]. intros _. apply leqb_eq in K.
    fin; intros _; exists v; auto. }
  destruct (t =? ad_range)%N eqn:E9.
  { kill_eqb. destruct (range c) as [[mn mx]|] eqn:RG; [|discriminate].
    destruct (leqb d [lo16 mn; hi16 mn; lo16 mx; hi16 mx]) eqn:K; [|discriminate]. intros _. apply leqb_eq in K.
    fin; intros _; exists mn, mx; auto. }
  discriminate.
Qed.

(* every AD structure of a checked list other than a leading flags AD obeys the clauses *)
Lemma check_auto_meaning c b ads : check_auto c b ads = None ->
  padding_last ads = true /\
  (3 <= b -> exists r, ads = AD ad_flags [6%N] :: r /\ forall a, In a r -> check_ad c a = None) /\
  (b < 3 -> forall a, In a ads -> check_ad c a = None).
Proof.
  unfold check_auto. destruct (padding_last ads); [|discriminate]. simpl negb. cbv iota.
  destruct (3 <=? b) eqn:E.
  - apply Nat.leb_le in E. destruct ads as [|a r]; [discriminate|].
    destruct (is_flags a) eqn:F; [|discriminate]. intros H. split; [reflexivity|]. split; [|lia].
    intros _. exists r. split; [|apply first_bad_all; exact H].
    destruct a as [|t d]; [discriminate|]. simpl in F. apply andb_prop in F. destruct F as [F1 F2].
    apply N.eqb_eq in F1. apply leqb_eq in F2. now subst.
  - apply Nat.leb_gt in E. intros H. split; [reflexivity|]. split; [lia|]. intros _. apply first_bad_all. exact H.
Qed.

(* ------------------------------------------------------------------ 7. the monitor accepts the model *)
Lemma check_frame_good b o payload : good b o payload ->
  exists r buf, o = ORes r buf /\ check_frame b r buf = None /\ firstn r buf = payload /\ r = length payload.
Proof.
  intros G. destruct (good_frame G) as (r & buf & E & L & LB & FP & SK).
  exists r, buf. split; [exact E|]. split; [|split; [exact FP|]].
  - unfold check_frame. rewrite LB, Nat.eqb_refl. simpl negb. cbv iota.
    destruct (b <? r) eqn:E1; [apply Nat.ltb_lt in E1; lia|].
    rewrite SK, leqb_refl. simpl negb. cbv iota.
    destruct ((b <=? 31) && (31 <? r)) eqn:E2; [|reflexivity].
    apply andb_prop in E2. destruct E2 as [A B]. apply Nat.leb_le in A. apply Nat.ltb_lt in B. lia.
  - destruct G as [E' _]. rewrite E' in E. injection E as <- _. reflexivity.
Qed.

Lemma check_custom_copy data b :
  check_custom data b (length (firstn (Nat.min (length data) b) data)) (firstn (Nat.min (length data) b) data) = None.
Proof.
  unfold check_custom. rewrite firstn_length.
  replace (Nat.min (Nat.min (length data) b) (length data)) with (Nat.min (length data) b) by lia.
  now rewrite Nat.eqb_refl, leqb_refl.
Qed.

Lemma firstn_min_length (A : Type) n (l : list A) : firstn (Nat.min n (length l)) l = firstn n l.
Proof.
  destruct (Nat.le_ge_cases n (length l)) as [H|H].
  - now rewrite Nat.min_l.
  - rewrite Nat.min_r by exact H. now rewrite firstn_all, firstn_all2.
Qed.

Definition agrees (m : mon) (s : state) : Prop := m_adv m = rt_adv s /\ m_scan m = rt_scan s.

Definition bounded (o : op) : Prop := match o with Adv b => b <= 259 | _ => True end.

Lemma mstep_accepts c m s o : wf_cfg c -> bounded o -> agrees m s ->
  exists m', mstep c m o (snd (step c s o)) = (Ok, m') /\ agrees m' (fst (step c s o)).
Proof.
  intros W B [A1 A2]. destruct o as [b|b|d|d]; simpl in B; cbn [step fst snd].
  - destruct (check_frame_good (advertising_data_good s b W)) as (r & buf & E & CF & FP & RL).
    rewrite E. exists m. split; [|split; assumption]. cbn [mstep]. unfold judge_adv. rewrite CF, FP.
    unfold adv_payload in *. destruct (runtime_adv c).
    + rewrite A1, RL. rewrite check_custom_copy. reflexivity.
    + destruct (custom_adv c) as [d|].
      * rewrite RL. rewrite check_custom_copy. reflexivity.
      * unfold check_adv_payload. rewrite raw_ok by (apply spec_ads_ok; assumption).
        rewrite parse_ads_complete by (apply spec_ads_ok; assumption).
        rewrite spec_checked by exact W. reflexivity.
  - destruct (check_frame_good (scan_response_data_good c s b)) as (r & buf & E & CF & FP & RL).
    rewrite E. exists m. split; [|split; assumption]. cbn [mstep]. unfold judge_scan. rewrite CF, FP.
    unfold scan_payload in *. destruct (runtime_scan c).
    + rewrite A2, RL. rewrite check_custom_copy. reflexivity.
    + destruct (custom_scan c) as [d|].
      * rewrite RL. rewrite check_custom_copy. reflexivity.
      * destruct (b <? 2); reflexivity.
  - destruct (runtime_adv c) eqn:R; cbn [fst snd mstep]; rewrite R.
    + eexists. split; [reflexivity|]. split; cbn [m_adv m_scan rt_adv rt_scan]; [|exact A2].
      unfold set_runtime. now rewrite firstn_min_length.
    + exists m. split; [reflexivity | split; assumption].
  - destruct (runtime_scan c) eqn:R; cbn [fst snd mstep]; rewrite R.
    + eexists. split; [reflexivity|]. split; cbn [m_adv m_scan rt_adv rt_scan]; [exact A1|].
      unfold set_runtime. now rewrite firstn_min_length.
    + exists m. split; [reflexivity | split; assumption].
Qed.

Lemma monitor_from_accepts c ops : wf_cfg c -> Forall bounded ops -> forall s m pos, agrees m s ->
  monitor_from c m pos (run c s ops) = None.
Proof.
  intros W. induction 1 as [|o t Ho _ IH]; intros s m pos A; [reflexivity|].
  cbn [run]. destruct (step c s o) as [s' r] eqn:E. cbn [monitor_from].
  destruct (@mstep_accepts c m s o W Ho A) as (m' & M & A'). rewrite E in M, A'. cbn [fst snd] in M, A'.
  rewrite M. apply IH. exact A'.
Qed.

(* The monitor accepts every trace of the model: any declaration, any operation sequence (runtime data of any
   length set at any time), buffer sizes up to 256 for advertising_data (any size for scan_response_data). *)
Theorem monitor_accepts_model c ops : wf_cfg c -> Forall bounded ops -> monitor c (run c (init c) ops) = None.
Proof. intros W B. apply monitor_from_accepts; auto. split; reflexivity. Qed.

(* ------------------------------------------------------------------ semantic corollaries *)
(* automatically generated advertising data, b <= 259 *)
Theorem adv_wellformed c s b : wf_cfg c -> b <= 259 -> runtime_adv c = false -> custom_adv c = None ->
  exists ads,
    advertising_data c s b = ORes (size ads) (flat_map enc ads ++ repeat fill (b - size ads)) /\
    tiles ads (flat_map enc ads) /\ size ads <= b /\ (b <= 31 -> size ads <= 31) /\
    padding_last ads = true /\
    (3 <= b -> exists r, ads = AD ad_flags [6%N] :: r /\
                         forall a, In a r -> name_clause c a /\ uuid_clause c a /\ other_clause c a) /\
    (b < 3 -> forall a, In a ads -> name_clause c a /\ uuid_clause c a /\ other_clause c a).
Proof.
  intros W B R C. exists (spec_ads c b).
  destruct (adv_auto_spec b W) as [L E].
  pose proof (spec_ads_ok W B) as OK.
  destruct (@check_auto_meaning c b (spec_ads c b) (spec_checked b W)) as (PL & F1 & F2).
  split; [|split; [split; [exact OK | reflexivity]|split; [exact L|split; [lia|split; [exact PL|split]]]]].
  - unfold advertising_data. rewrite R, C, E. unfold result. now rewrite raw_ok.
  - intros H. destruct (F1 H) as (r & -> & Hr). exists r. split; [reflexivity|].
    intros a Ha. apply check_ad_meaning. auto.
  - intros H a Ha. apply check_ad_meaning. auto.
Qed.

(* custom data (static or runtime): the copy of the first min(size, b) octets; it tiles whenever the whole
   data fits and the user's data is a sequence of AD structures *)
Theorem custom_adv_copy c s b d : runtime_adv c = false -> custom_adv c = Some d ->
  advertising_data c s b = ORes (Nat.min (length d) b) (firstn (Nat.min (length d) b) d ++ repeat fill (b - Nat.min (length d) b)).
Proof.
  intros R C. unfold advertising_data. rewrite R, C.
  destruct (copy_custom_good d b) as [E _]. rewrite E, firstn_length.
  replace (Nat.min (Nat.min (length d) b) (length d)) with (Nat.min (length d) b) by lia. reflexivity.
Qed.

Theorem custom_tiles_when_it_fits (d : list N) b ads : tiles ads d -> length d <= b ->
  tiles ads (firstn (Nat.min (length d) b) d).
Proof. intros T L. rewrite Nat.min_l by exact L. now rewrite firstn_all. Qed.

Theorem runtime_data_bounded d : length (set_runtime d) <= max_runtime.
Proof. unfold set_runtime. rewrite firstn_length. lia. Qed.

(* automatic scan response (after the fix): nothing for b < 2, two empty structures otherwise *)
Theorem scan_auto_wellformed c s b : runtime_scan c = false -> custom_scan c = None ->
  exists ads, scan_response_data c s b = ORes (size ads) (flat_map enc ads ++ repeat fill (b - size ads)) /\
              size ads <= b /\ ads = (if b <? 2 then [] else [Empty; Empty]).
Proof.
  intros R C. unfold scan_response_data. rewrite R, C. pose proof (scan_auto_good b) as G.
  destruct (b <? 2) eqn:Z; destruct G as [E L]; rewrite E.
  - exists []. split; [reflexivity | split; [apply Nat.le_0_l | reflexivity]].
  - exists [Empty; Empty]. split; [reflexivity | split; [exact L | reflexivity]].
Qed.

(* ------------------------------------------------------------------ refutations *)
(* the code before the fix: the automatic scan response stores two octets whatever the buffer size *)
Definition scan_unfixed_safe_full : Prop := forall b, scan_auto_unfixed b <> None.
Theorem scan_unfixed_refuted : ~ scan_unfixed_safe_full.
Proof. intros H. apply (H 0). reflexivity. Qed.

(* the length octet of an AD structure is a std::uint8_t store: with a name of 255 or more octets and a buffer
   of 260 or more the shortened / complete name structure no longer carries its length and the payload is not a
   sequence of AD structures. (Legacy advertising data is at most 31 octets; the link layer passes 31.) *)
Definition long_name_cfg : cfg := mkcfg (Some (repeat 65%N 300)) None [] [] None None None false false.
Definition wellformed_any_buffer_full : Prop :=
  forall c b, wf_cfg c -> monitor c (run c (init c) [Adv b]) = None.
Theorem tiling_refuted_at_260 : monitor long_name_cfg (run long_name_cfg (init long_name_cfg) [Adv 260]) = Some (0, t_tiling).
Proof. vm_compute. reflexivity. Qed.
Theorem wellformed_any_buffer_refuted : ~ wellformed_any_buffer_full.
Proof.
  intros H. specialize (H long_name_cfg 260 (Forall_nil _)). rewrite tiling_refuted_at_260 in H. discriminate.
Qed.
