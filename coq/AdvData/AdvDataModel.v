(* Executable model of the advertising / scan response data generators of bluetoe::server<>:
     server.hpp      advertising_data, advertising_data_impl (auto and custom), details::copy_name,
                     scan_response_data, scan_response_data_impl (auto and custom)
     appearance.hpp  advertise_appearance::advertising_data / no_advertise_appearance
     adv_service_list.hpp  list_of_16_bit_service_uuids, list_of_128_bit_service_uuids (uuid_128_writer),
                     no_list_of_service_uuids
     peripheral_connection_interval_range.hpp, custom_advertising.hpp (static and runtime custom data)
   Definitions only.

   A server declaration is the record cfg (the effective option values after the template meta-programs
   have selected them; the selection itself - find_by_meta_type, default lists derived from the services -
   is done by the declaration emitter props/C14.py and tied by the correspondence run).

   Bounded-buffer discipline (DESIGN.md section 3): the output buffer is a list of exactly buffer_size
   octets, pre-filled with 0xAA as the harness does; every store goes through wr, which answers None
   (= Fault) for a position outside the buffer. Positions and sizes are nat, octets are N.

   `end - begin` is modelled by natural subtraction `length d - p`. The invariant p <= length d is part
   of the theorems (AdvDataProofs.writers_sat), so no stage is ever entered with begin > end, where the
   C++ pointer difference would be negative.

   The auto scan response transcribes the code AFTER the fix on branch fix/C14-scan-response-buffer
   (a bounds check); the code as it was is kept as scan_auto_unfixed for the refutation theorem. *)
From BT Require Import Base.ListX.

Record cfg := mkcfg {
  name : option (list N);          (* server_name< name >: the octets before the NUL;  None: no server_name option *)
  appearance : option N;           (* Some v: advertise_appearance with device_appearance< v > (default 0 = unknown) *)
  uuids16 : list N;                (* effective list_of_16_bit_service_uuids< ... > ([] also for no_list_of_service_uuids) *)
  uuids128 : list (list N);        (* effective list_of_128_bit_service_uuids< ... >: UUID::bytes of each, 16 octets *)
  range : option (N * N);          (* peripheral_connection_interval_range< Min, Max > *)
  custom_adv : option (list N);    (* custom_advertising_data< Size, Data > *)
  custom_scan : option (list N);   (* custom_scan_response_data< Size, Data > *)
  runtime_adv : bool;              (* runtime_custom_advertising_data *)
  runtime_scan : bool              (* runtime_custom_scan_response_data *)
}.

(* run-time state: the runtime custom data (advertising_data_[31] + advertising_data_size_) *)
Record state := mk { rt_adv : list N; rt_scan : list N }.
Definition init (c : cfg) : state := mk [] [].

Inductive op :=
| Adv (b : nat)                    (* advertising_data( buffer, b ) *)
| Scan (b : nat)                   (* scan_response_data( buffer, b ) *)
| SetAdv (d : list N)              (* set_runtime_custom_advertising_data( d, size d ) *)
| SetScan (d : list N).            (* set_runtime_custom_scan_response_data( d, size d ) *)

Inductive out :=
| ORes (r : nat) (buf : list N)    (* return value and the whole buffer afterwards *)
| OFault                           (* a store outside [0, b) *)
| ODone | ONa.                     (* runtime data set / the declaration has no runtime custom data *)

(* AD type codes (codes.hpp gap_types; pinned against the sources in Properties_C14.v) *)
Definition ad_flags : N := 1.
Definition ad_incomplete_16 : N := 2.
Definition ad_complete_16 : N := 3.
Definition ad_incomplete_128 : N := 6.
Definition ad_complete_128 : N := 7.
Definition ad_short_name : N := 8.
Definition ad_complete_name : N := 9.
Definition ad_appearance : N := 25.
Definition ad_range : N := 18.          (* literal 0x12 in peripheral_connection_interval_range.hpp *)
Definition max_runtime : nat := 31.     (* advertising_data_max_size / scan_response_data_max_size *)

Definition fill : N := 170.
Definition byte (n : nat) : N := (N.of_nat n mod 256)%N.      (* std::uint8_t store of a size_t *)
Definition lo16 (v : N) : N := (v mod 256)%N.                 (* write_16bit: out[0] = v & 0xff *)
Definition hi16 (v : N) : N := ((v / 256) mod 256)%N.         (*              out[1] = v >> 8 *)

(* one store / consecutive stores *)
Definition wr (d : list N) (p : nat) (v : N) : option (list N) :=
  if p <? length d then Some (upd d p v) else None.
Fixpoint wr_bytes (d : list N) (p : nat) (l : list N) : option (list N) :=
  match l with
  | [] => Some d
  | x :: t => match wr d p x with Some d' => wr_bytes d' (S p) t | None => None end
  end.

(* a writer takes the buffer and `begin` and answers Fault or the buffer and the new `begin`; `end` is length d *)
Definition writer := list N -> nat -> option (list N * nat).
Definition put (l : list N) : writer :=
  fun d p => match wr_bytes d p l with Some d' => Some (d', p + length l) | None => None end.
Definition skip : writer := fun d p => Some (d, p).
Definition seq (w1 w2 : writer) : writer :=
  fun d p => match w1 d p with Some (d', p') => w2 d' p' | None => None end.

(* advertising_data_impl( ..., auto_advertising_data ): if ( buffer_size >= 3 ) { 2, flags, 6 } *)
Definition w_flags : writer :=
  fun d p => if 3 <=? length d then put [2%N; ad_flags; 6%N] d p else skip d p.

(* advertise_appearance::advertising_data< device_appearance > *)
Definition w_appearance (a : option N) : writer :=
  fun d p => match a with
             | None => skip d p
             | Some v => if 4 <=? length d - p then put [3%N; ad_appearance; lo16 v; hi16 v] d p else skip d p
             end.

(* details::copy_name< name != nullptr >::impl *)
Definition w_name (n : option (list N)) : writer :=
  fun d p => match n with
             | None => skip d p
             | Some l =>
                 if length d - p <=? 2 then skip d p
                 else let nl := length l in
                      let m := Nat.min nl (length d - p - 2) in
                      if 0 <? nl
                      then put (byte (m + 1) :: (if m =? nl then ad_complete_name else ad_short_name) :: firstn m l) d p
                      else skip d p
             end.

Definition enc16 (us : list N) : list N := flat_map (fun v => [lo16 v; hi16 v]) us.

(* list_of_16_bit_service_uuids< UUID16... >::advertising_data (the <> specialisation returns begin) *)
Definition w_uuid16 (us : list N) : writer :=
  fun d p => match us with
             | [] => skip d p
             | _ => let bs := length d - p in
                    if bs <? 4 then skip d p
                    else let m := Nat.min ((bs - 2) / 2) (length us) in
                         put (byte (1 + 2 * m) :: (if m =? length us then ad_complete_16 else ad_incomplete_16)
                              :: enc16 (firstn m us)) d p
             end.

(* for_< UUID128... >::each( uuid_128_writer( begin, end ) ): every UUID is tried, each is copied iff it fits *)
Fixpoint w_each128 (us : list (list N)) : writer :=
  fun d p => match us with
             | [] => skip d p
             | u :: t => if p + 16 <=? length d then seq (put u) (w_each128 t) d p else w_each128 t d p
             end.

(* list_of_128_bit_service_uuids< UUID128... >::advertising_data *)
Definition w_uuid128 (us : list (list N)) : writer :=
  fun d p => match us with
             | [] => skip d p
             | _ => let bs := length d - p in
                    if bs <? 2 + 16 then skip d p
                    else let m := Nat.min ((bs - 2) / 16) (length us) in
                         seq (put [byte (1 + 16 * m); if m =? length us then ad_complete_128 else ad_incomplete_128])
                             (w_each128 us) d p
             end.

(* peripheral_connection_interval_range< Min, Max >::advertising_data *)
Definition w_range (r : option (N * N)) : writer :=
  fun d p => match r with
             | None => skip d p
             | Some (mn, mx) =>
                 if 6 <=? length d - p then put [5%N; ad_range; lo16 mn; hi16 mn; lo16 mx; hi16 mx] d p else skip d p
             end.

(* "add aditional empty AD to be visible to Nordic sniffer" *)
Definition w_tail : writer :=
  fun d p => if 2 <=? length d - p then put [0%N; 0%N] d p else skip d p.

(* the stages after the flags, in the order advertising_data_impl calls them *)
Definition w_rest (c : cfg) : writer :=
  seq (w_appearance (appearance c)) (seq (w_name (name c)) (seq (w_uuid16 (uuids16 c))
      (seq (w_uuid128 (uuids128 c)) (seq (w_range (range c)) w_tail)))).

Definition fresh (b : nat) : list N := repeat fill b.

(* return buffer_size - ( end - begin ) = begin - buffer *)
Definition adv_auto (c : cfg) (b : nat) : option (list N * nat) := seq w_flags (w_rest c) (fresh b) 0.

(* custom_advertising_data / runtime_custom_advertising_data / custom_scan_response_data / runtime_...:
   copy_size = min( Size, buffer_size ); std::copy( Data, Data + copy_size, begin ); return copy_size *)
Definition copy_custom (data : list N) (b : nat) : option (list N * nat) :=
  put (firstn (Nat.min (length data) b) data) (fresh b) 0.

(* scan_response_data_impl( ..., auto_scan_response_data ) after the fix: if ( buffer_size < 2 ) return 0; *)
Definition scan_auto (b : nat) : option (list N * nat) :=
  if b <? 2 then Some (fresh b, 0) else put [0%N; 0%N] (fresh b) 0.

(* ... and as it was: buffer[ 0 ] = 0; buffer[ 1 ] = 0; return 2;  (buffer_size ignored) *)
Definition scan_auto_unfixed (b : nat) : option (list N * nat) :=
  match wr (fresh b) 0 0%N with
  | Some d => match wr d 1 0%N with Some d' => Some (d', 2) | None => None end
  | None => None
  end.

Definition result (r : option (list N * nat)) : out :=
  match r with Some (d, p) => ORes p d | None => OFault end.

Definition advertising_data (c : cfg) (s : state) (b : nat) : out :=
  if runtime_adv c then result (copy_custom (rt_adv s) b)
  else match custom_adv c with
       | Some d => result (copy_custom d b)
       | None => result (adv_auto c b)
       end.

Definition scan_response_data (c : cfg) (s : state) (b : nat) : out :=
  if runtime_scan c then result (copy_custom (rt_scan s) b)
  else match custom_scan c with
       | Some d => result (copy_custom d b)
       | None => result (scan_auto b)
       end.

(* set_runtime_custom_*_data: size = min( 31, buffer_size ); copy *)
Definition set_runtime (d : list N) : list N := firstn (Nat.min max_runtime (length d)) d.

Definition step (c : cfg) (s : state) (o : op) : state * out :=
  match o with
  | Adv b => (s, advertising_data c s b)
  | Scan b => (s, scan_response_data c s b)
  | SetAdv d => if runtime_adv c then (mk (set_runtime d) (rt_scan s), ODone) else (s, ONa)
  | SetScan d => if runtime_scan c then (mk (rt_adv s) (set_runtime d), ODone) else (s, ONa)
  end.

Fixpoint run (c : cfg) (s : state) (ops : list op) : list (op * out) :=
  match ops with
  | [] => []
  | o :: t => let (s', r) := step c s o in (o, r) :: run c s' t
  end.

(* the static_assert-level side conditions of a declaration *)
Definition wf_cfg (c : cfg) : Prop := Forall (fun u => length u = 16) (uuids128 c).
