(* Proofs for C14. Structure:
   1. wr_bytes / put on a buffer  pre ++ repeat fill k  (frame lemma)
   2. sat w g : the writer w, started at the end of pre with k octets of room, never faults, emits
      exactly the (raw) encoding of the AD structures g k and leaves the rest untouched; closed under seq
   3. every writer of the model satisfies its abstract stage; adv_auto = spec_ads            (any b)
   4. for b <= 256 every emitted structure has a length octet that is its length (ad_ok)
   5. parser soundness / completeness
   6. the structural checks of the monitor hold of spec_ads; their Prop-level meaning
   7. the monitor accepts every model trace *)
From Coq Require Import Lia ZifyBool.
From BT Require Import Base.ListX AdvData.AdvDataModel AdvData.AdvDataSpec.
Set Implicit Arguments.

(* ------------------------------------------------------------------ 1. stores *)
Lemma upd_app_at (pre : list N) y r x : upd (pre ++ y :: r) (length pre) x = pre ++ x :: r.
Proof. induction pre as [|h t IH]; simpl; [reflexivity | now rewrite IH]. Qed.

Lemma wr_bytes_app l : forall pre rest, length l <= length rest ->
  wr_bytes (pre ++ rest) (length pre) l = Some (pre ++ l ++ skipn (length l) rest).
Proof.
  induction l as [|x t IH]; intros pre rest H; simpl.
  - reflexivity.
  - destruct rest as [|y rest']; simpl in H; [lia|].
    unfold wr. rewrite app_length; simpl.
    destruct (length pre <? length pre + S (length rest')) eqn:E; [|apply Nat.ltb_ge in E; lia].
    rewrite upd_app_at.
    replace (pre ++ x :: rest') with ((pre ++ [x]) ++ rest') by (rewrite <- app_assoc; reflexivity).
    replace (S (length pre)) with (length (pre ++ [x])) by (rewrite app_length; simpl; lia).
    rewrite IH by lia. rewrite <- app_assoc. reflexivity.
Qed.

Lemma skipn_repeat (A : Type) (x : A) n k : skipn n (repeat x k) = repeat x (k - n).
Proof.
  revert k; induction n as [|n IH]; intros k; simpl.
  - now rewrite Nat.sub_0_r.
  - destruct k; simpl; [reflexivity | apply IH].
Qed.

Lemma put_fresh pre k l : length l <= k ->
  put l (pre ++ repeat fill k) (length pre) = Some ((pre ++ l) ++ repeat fill (k - length l), length (pre ++ l)).
Proof.
  intros H. unfold put. rewrite wr_bytes_app by (rewrite repeat_length; lia).
  rewrite skipn_repeat, app_length, app_assoc. reflexivity.
Qed.

Lemma room pre k : length (pre ++ repeat fill k) - length pre = k.
Proof. rewrite app_length, repeat_length. lia. Qed.

Lemma len_buf pre k : length (pre ++ repeat fill k) = length pre + k.
Proof. now rewrite app_length, repeat_length. Qed.

(* ------------------------------------------------------------------ 2. writers against stages *)
(* what the code stores for an AD structure: the length octet is a std::uint8_t store *)
Definition raw_enc (a : ad) : list N :=
  match a with Empty => [0%N] | AD t d => byte (S (length d)) :: t :: d end.
Definition raw (ads : list ad) : list N := flat_map raw_enc ads.

Lemma raw_enc_length a : length (raw_enc a) = ad_size a.
Proof. destruct a; reflexivity. Qed.

Lemma raw_length ads : length (raw ads) = size ads.
Proof.
  unfold raw, size. induction ads as [|a t IH]; simpl; [reflexivity|].
  now rewrite app_length, IH, raw_enc_length.
Qed.

Lemma raw_app a b : raw (a ++ b) = raw a ++ raw b.
Proof. apply flat_map_app. Qed.

Lemma size_app a b : size (a ++ b) = size a + size b.
Proof. unfold size. now rewrite map_app, list_sum_app. Qed.

Definition sat (w : writer) (g : stage) : Prop :=
  forall pre k,
    size (g k) <= k /\
    w (pre ++ repeat fill k) (length pre) =
      Some ((pre ++ raw (g k)) ++ repeat fill (k - size (g k)), length (pre ++ raw (g k))).

Lemma sat_seq w1 w2 g1 g2 : sat w1 g1 -> sat w2 g2 -> sat (seq w1 w2) (then_ g1 g2).
Proof.
  intros H1 H2 pre k. unfold seq, then_.
  destruct (H1 pre k) as [L1 E1]. rewrite E1.
  destruct (H2 (pre ++ raw (g1 k)) (k - size (g1 k))) as [L2 E2]. rewrite E2.
  rewrite size_app, raw_app. split; [lia|].
  rewrite Nat.sub_add_distr, !app_assoc. reflexivity.
Qed.

(* a stage that emits nothing *)
Lemma skip_none pre k :
  Some (pre ++ repeat fill k, length pre) =
  Some ((pre ++ raw []) ++ repeat fill (k - size []), length (pre ++ raw [])).
Proof. simpl. now rewrite app_nil_r, Nat.sub_0_r. Qed.

(* a stage that emits one structure whose stored octets are l *)
Lemma put_one pre k l a : raw_enc a = l -> ad_size a <= k ->
  size [a] <= k /\
  put l (pre ++ repeat fill k) (length pre) =
    Some ((pre ++ raw [a]) ++ repeat fill (k - size [a]), length (pre ++ raw [a])).
Proof.
  intros E H. unfold size, raw; simpl. rewrite app_nil_r, Nat.add_0_r, E. split; [exact H|].
  assert (length l = ad_size a) by (rewrite <- E; apply raw_enc_length).
  rewrite put_fresh by lia. now rewrite H0.
Qed.

Lemma sat_appearance a : sat (w_appearance a) (g_appearance a).
Proof.
  intros pre k. unfold w_appearance, g_appearance. destruct a as [v|].
  - rewrite room. destruct (4 <=? k) eqn:E.
    + apply put_one; [reflexivity | simpl; lia].
    + split; [apply Nat.le_0_l | apply skip_none].
  - split; [apply Nat.le_0_l | apply skip_none].
Qed.

Lemma sat_name n : sat (w_name n) (g_name n).
Proof.
  intros pre k. unfold w_name, g_name. destruct n as [l|].
  - rewrite room. destruct (k <=? 2) eqn:E; simpl orb.
    + split; [apply Nat.le_0_l | apply skip_none].
    + destruct (length l) as [|nl] eqn:EL.
      * simpl. split; [apply Nat.le_0_l | apply skip_none].
      * change (0 <? S nl) with true. change (S nl =? 0) with false. cbv iota.
        set (m := Nat.min (S nl) (k - 2)).
        assert (Hm : length (firstn m l) = m) by (rewrite firstn_length; lia).
        apply put_one.
        -- simpl. rewrite Hm. replace (m + 1) with (S m) by lia. reflexivity.
        -- simpl. rewrite Hm. lia.
  - split; [apply Nat.le_0_l | apply skip_none].
Qed.

Lemma enc16_length us : length (enc16 us) = 2 * length us.
Proof. unfold enc16. induction us; simpl; [reflexivity | lia]. Qed.

Lemma sat_uuid16 us : sat (w_uuid16 us) (g_uuid16 us).
Proof.
  intros pre k. unfold w_uuid16, g_uuid16. destruct us as [|u us'].
  - rewrite Bool.orb_true_r. split; [apply Nat.le_0_l | apply skip_none].
  - rewrite room. set (us := u :: us').
    change (length us =? 0) with false. rewrite Bool.orb_false_r.
    destruct (k <? 4) eqn:E.
    + split; [apply Nat.le_0_l | apply skip_none].
    + set (m := Nat.min ((k - 2) / 2) (length us)).
      assert (Hm : length (enc16 (firstn m us)) = 2 * m) by (rewrite enc16_length, firstn_length; lia).
      pose proof (Nat.mul_div_le (k - 2) 2 ltac:(lia)).
      apply put_one.
      * simpl raw_enc. rewrite Hm. reflexivity.
      * simpl ad_size. rewrite Hm. lia.
Qed.

Lemma concat16_length (us : list (list N)) :
  Forall (fun u => length u = 16) us -> length (concat us) = 16 * length us.
Proof.
  induction 1 as [|u t Hu _ IH]; simpl; [reflexivity|]. rewrite app_length, Hu, IH. lia.
Qed.

Lemma Forall_firstn (A : Type) (P : A -> Prop) n (l : list A) : Forall P l -> Forall P (firstn n l).
Proof.
  intros H. revert n. induction H; intros [|n]; simpl; constructor; auto.
Qed.

Lemma each128_spec us : Forall (fun u => length u = 16) us -> forall pre k,
  let j := Nat.min (k / 16) (length us) in
  w_each128 us (pre ++ repeat fill k) (length pre) =
    Some ((pre ++ concat (firstn j us)) ++ repeat fill (k - 16 * j), length (pre ++ concat (firstn j us))).
Proof.
  induction 1 as [|u t Hu Ht IH]; intros pre k; cbv zeta.
  - simpl. rewrite Nat.min_0_r. simpl. now rewrite app_nil_r, Nat.sub_0_r.
  - cbn [w_each128]. rewrite len_buf.
    destruct (length pre + 16 <=? length pre + k) eqn:E.
    + assert (16 <= k) by lia.
      unfold seq. rewrite put_fresh by lia. rewrite Hu.
      specialize (IH (pre ++ u) (k - 16)). cbv zeta in IH. rewrite IH.
      assert (Hd : k / 16 = S ((k - 16) / 16)).
      { pose proof (Nat.div_add (k - 16) 1 16 ltac:(lia)) as D.
        replace (k - 16 + 1 * 16) with k in D by lia. lia. }
      rewrite Hd. cbn [length]. rewrite <- Nat.succ_min_distr. cbn [firstn concat].
      rewrite !app_assoc.
      replace (k - 16 * S (Nat.min ((k - 16) / 16) (length t))) with (k - 16 - 16 * Nat.min ((k - 16) / 16) (length t)) by lia.
      reflexivity.
    + assert (k < 16) by lia.
      specialize (IH pre k). cbv zeta in IH. rewrite IH.
      rewrite Nat.div_small by lia. simpl. reflexivity.
Qed.

Lemma sat_uuid128 us : Forall (fun u => length u = 16) us -> sat (w_uuid128 us) (g_uuid128 us).
Proof.
  intros W pre k. unfold w_uuid128, g_uuid128. destruct us as [|u us'].
  - rewrite Bool.orb_true_r. split; [apply Nat.le_0_l | apply skip_none].
  - rewrite room. set (us := u :: us') in *.
    change (length us =? 0) with false. rewrite Bool.orb_false_r.
    change (2 + 16) with 18.
    destruct (k <? 18) eqn:E.
    + split; [apply Nat.le_0_l | apply skip_none].
    + set (m := Nat.min ((k - 2) / 16) (length us)).
      assert (Hm : length (concat (firstn m us)) = 16 * m).
      { rewrite concat16_length by (apply Forall_firstn; exact W). rewrite firstn_length. lia. }
      pose proof (Nat.mul_div_le (k - 2) 16 ltac:(lia)).
      unfold size, raw; simpl list_sum; simpl flat_map. rewrite app_nil_r, Nat.add_0_r, Hm.
      split; [lia|].
      unfold seq. rewrite put_fresh by (simpl; lia).
      set (hd := [byte (1 + 16 * m); if m =? length us then ad_complete_128 else ad_incomplete_128]).
      change (length hd) with 2.
      pose proof (each128_spec W (pre ++ hd) (k - 2)) as H2. cbv zeta in H2. fold m in H2.
      rewrite H2. unfold hd.
      replace (1 + 16 * m) with (S (16 * m)) by lia.
      replace (k - 2 - 16 * m) with (k - S (S (16 * m))) by lia.
      rewrite <- !app_assoc. reflexivity.
Qed.

Lemma sat_range r : sat (w_range r) (g_range r).
Proof.
  intros pre k. unfold w_range, g_range. destruct r as [[mn mx]|].
  - rewrite room. destruct (6 <=? k) eqn:E.
    + apply put_one; [reflexivity | simpl; lia].
    + split; [apply Nat.le_0_l | apply skip_none].
  - split; [apply Nat.le_0_l | apply skip_none].
Qed.

Lemma sat_tail : sat w_tail g_tail.
Proof.
  intros pre k. unfold w_tail, g_tail. rewrite room. destruct (2 <=? k) eqn:E.
  - split; [change (2 <= k); lia|]. rewrite put_fresh by (simpl; lia). reflexivity.
  - split; [apply Nat.le_0_l | apply skip_none].
Qed.

Lemma sat_flags0 k :
  size (g_flags k) <= k /\
  w_flags (repeat fill k) 0 = Some (raw (g_flags k) ++ repeat fill (k - size (g_flags k)), length (raw (g_flags k))).
Proof.
  unfold w_flags, g_flags. rewrite repeat_length. destruct (3 <=? k) eqn:E.
  - split; [change (3 <= k); lia|]. exact (@put_fresh [] k [2%N; ad_flags; 6%N] ltac:(simpl; lia)).
  - split; [apply Nat.le_0_l|]. simpl. now rewrite Nat.sub_0_r.
Qed.

(* ------------------------------------------------------------------ 3. the whole generator, any buffer size *)
Lemma writers_sat c : wf_cfg c -> sat (w_rest c) (g_rest c).
Proof.
  intros W. unfold w_rest, g_rest.
  apply sat_seq; [apply sat_appearance|].
  apply sat_seq; [apply sat_name|].
  apply sat_seq; [apply sat_uuid16|].
  apply sat_seq; [apply sat_uuid128; exact W|].
  apply sat_seq; [apply sat_range | apply sat_tail].
Qed.

Theorem adv_auto_spec c b : wf_cfg c ->
  size (spec_ads c b) <= b /\
  adv_auto c b = Some (raw (spec_ads c b) ++ repeat fill (b - size (spec_ads c b)), size (spec_ads c b)).
Proof.
  intros W. unfold adv_auto, spec_ads, then_, seq, fresh.
  destruct (sat_flags0 b) as [L0 E0]. rewrite E0.
  destruct (writers_sat W (raw (g_flags b)) (b - size (g_flags b))) as [L1 E1]. rewrite E1.
  rewrite size_app, raw_app. split; [lia|].
 Show. 
