(* Proofs for C14. Structure:
   1. wr_bytes / put on a buffer  pre ++ repeat fill k  (frame lemma)
   2. sat w g : the writer w, started at the end of pre with k octets of room, never faults, emits
      exactly the (raw) encoding of the AD structures g k and leaves the rest untouched; closed under seq
   3. every writer of the model satisfies its abstract stage; adv_auto = spec_ads            (any b)
   4. for b <= 256 every emitted structure has a length octet that is its length (ad_ok)
   5. parser soundness / completeness
   6. the structural checks of the monitor hold of spec_ads; their Prop-level meaning
   7. the monitor accepts every model trace *)
From Coq Require Import Lia ZifyBool.
From BT Require Import Base.ListX AdvData.AdvDataModel AdvData.AdvDataSpec.

(* ------------------------------------------------------------------ 1. stores *)
Lemma upd_app_at (pre : list N) y r x : upd (pre ++ y :: r) (length pre) x = pre ++ x :: r.
Proof. induction pre as [|h t IH]; simpl; [reflexivity | now rewrite IH]. Qed.

Lemma wr_bytes_app l : forall pre rest, length l <= length rest ->
  wr_bytes (pre ++ rest) (length pre) l = Some (pre ++ l ++ skipn (length l) rest).
Proof.
  induction l as [|x t IH]; intros pre rest H; simpl.
  - reflexivity.
  - destruct rest as [|y rest']; simpl in H; [lia|].
    unfold wr. rewrite app_length; simpl.
    destruct (length pre <? length pre + S (length rest')) eqn:E; [|apply Nat.ltb_ge in E; lia].
    rewrite upd_app_at.
    replace (pre ++ x :: rest') with ((pre ++ [x]) ++ rest') by (rewrite <- app_assoc; reflexivity).
    replace (S (length pre)) with (length (pre ++ [x])) by (rewrite app_length; simpl; lia).
    rewrite IH by lia. rewrite <- app_assoc. reflexivity.
Qed.

Lemma skipn_repeat (A : Type) (x : A) n k : skipn n (repeat x k) = repeat x (k - n).
Proof.
  revert k; induction n as [|n IH]; intros k; simpl.
  - now rewrite Nat.sub_0_r.
  - destruct k; simpl; [reflexivity | apply IH].
Qed.

Lemma put_fresh pre k l : length l <= k ->
  put l (pre ++ repeat fill k) (length pre) = Some ((pre ++ l) ++ repeat fill (k - length l), length (pre ++ l)).
Proof.
  intros H. unfold put. rewrite wr_bytes_app by (rewrite repeat_length; lia).
  rewrite skipn_repeat, app_length, app_assoc. reflexivity.
Qed.

Lemma room pre k : length (pre ++ repeat fill k) - length pre = k.
Proof. rewrite app_length, repeat_length. lia. Qed.

Lemma len_buf pre k : length (pre ++ repeat fill k) = length pre + k.
Proof. now rewrite app_length, repeat_length. Qed.

(* ------------------------------------------------------------------ 2. writers against stages *)
(* what the code stores for an AD structure: the length octet is a std::uint8_t store *)
Definition raw_enc (a : ad) : list N :=
  match a with Empty => [0%N] | AD t d => byte (S (length d)) :: t :: d end.
Definition raw (ads : list ad) : list N := flat_map raw_enc ads.

Lemma raw_enc_length a : length (raw_enc a) = ad_size a.
Proof. destruct a; reflexivity. Qed.

Lemma raw_length ads : length (raw ads) = size ads.
Proof.
  unfold raw, size. induction ads as [|a t IH]; simpl; [reflexivity|].
  now rewrite app_length, IH, raw_enc_length.
Qed.

Lemma raw_app a b : raw (a ++ b) = raw a ++ raw b.
Proof. apply flat_map_app. Qed.

Lemma size_app a b : size (a ++ b) = size a + size b.
Proof. unfold size. now rewrite map_app, list_sum_app. Qed.

Definition sat (w : writer) (g : stage) : Prop :=
  forall pre k,
    size (g k) <= k /\
    w (pre ++ repeat fill k) (length pre) =
      Some ((pre ++ raw (g k)) ++ repeat fill (k - size (g k)), length (pre ++ raw (g k))).

Lemma sat_seq w1 w2 g1 g2 : sat w1 g1 -> sat w2 g2 -> sat (seq w1 w2) (then_ g1 g2).
Proof.
  intros H1 H2 pre k. unfold seq, then_.
  destruct (H1 pre k) as [L1 E1]. rewrite E1.
  destruct (H2 (pre ++ raw (g1 k)) (k - size (g1 k))) as [L2 E2]. rewrite E2.
  rewrite size_app, raw_app. split; [lia|].
Show. Abort.
