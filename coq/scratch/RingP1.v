From BT Require Import Base.ListX Ring.RingModel Ring.RingSpec.
From Coq Require Import Lia ZifyBool.
Local Open Scope nat_scope.

Lemma mod_wrap L x : 0 < L -> L <= x < 2 * L -> x mod L = x - L.
Proof.
  intros HL H. replace x with ((x - L) + 1 * L) at 1 by lia.
  rewrite Nat.mod_add by lia. apply Nat.mod_small. lia.
Qed.

Lemma mod_succ L a : 0 < L -> (a mod L + 1) mod L = (a + 1) mod L.
Proof. intros. rewrite Nat.add_mod_idemp_l by lia. reflexivity. Qed.

(* congruent and less than L apart: equal or exactly L apart *)
Lemma mod_close L a b : 0 < L -> a <= b <= a + L -> a mod L = b mod L -> b = a \/ b = a + L.
Proof.
  intros HL Hab E.
  pose proof (Nat.div_mod a L ltac:(lia)) as Da.
  pose proof (Nat.mod_upper_bound a L ltac:(lia)) as Ua.
  remember (a mod L) as r eqn:Er. remember (b - a) as d eqn:Ed.
  assert (Eb : b mod L = (r + d) mod L).
  { replace b with (a + d) by lia. rewrite <- Nat.add_mod_idemp_l by lia. rewrite <- Er. reflexivity. }
  destruct (Nat.lt_ge_cases (r + d) L) as [Hs|Hs].
  - rewrite (Nat.mod_small (r + d)) in Eb by lia. lia.
  - destruct (Nat.lt_ge_cases (r + d) (2 * L)) as [Hs2|Hs2].
    + rewrite (mod_wrap L (r + d)) in Eb by lia. lia.
    + assert (d = L) by lia. lia.
Qed.

Lemma mod_inj_window L a b : 0 < L -> a <= b < a + L -> a mod L = b mod L -> a = b.
Proof. intros HL H E. destruct (mod_close L a b HL ltac:(lia) E); lia. Qed.

Lemma mod_neq_window L a b : 0 < L -> a < b < a + L -> a mod L <> b mod L.
Proof. intros HL H E. apply mod_inj_window in E; lia. Qed.

Lemma mod_far L a b : 0 < L -> a < b -> a mod L = b mod L -> a + L <= b.
Proof.
  intros HL H E. destruct (Nat.lt_ge_cases b (a + L)); auto.
  apply mod_inj_window in E; lia.
Qed.
