From BT Require Import Base.ListX Ring.RingModel Ring.RingSpec.
From Coq Require Import Lia ZifyBool.
From BT Require Import scratch.RingP1.
Local Open Scope nat_scope.

Definition is_pwrote (p : ppc) : Prop := match p with PWrote _ _ => True | _ => False end.
Definition is_cread (c : cpc) : Prop := match c with CRead _ _ => True | _ => False end.

Definition pp_inv (S W : nat) (st : state) (m : mon) : Prop :=
  let k := mclk m in
  match pp st with
  | PIdle => pin (mp m) = None
  | PGotR v r =>
      pin (mp m) = Some v /\ pdone (mp m) = false /\ r = pknow k mod (S + 1) /\
      W <= pknow k + S /\ (W = pknow k + S -> pfull (mp m) = true)
  | PGotW v w nxt =>
      pin (mp m) = Some v /\ pdone (mp m) = false /\ w = W mod (S + 1) /\
      nxt = (W + 1) mod (S + 1) /\ W < pknow k + S
  | PWrote v nxt =>
      pin (mp m) = Some v /\ pdone (mp m) = false /\ nxt = (W + 1) mod (S + 1) /\
      W < pknow k + S /\ nth (W mod (S + 1)) (data st) 0%N = v
  end.

Definition cp_inv (S R W : nat) (st : state) (m : mon) : Prop :=
  let k := mclk m in
  match cp st with
  | CIdle => cin (mc m) = false /\ chead (mc m) = None
  | CGotR r =>
      cin (mc m) = true /\ chead (mc m) = None /\ r = R mod (S + 1) /\ (W = R -> cempty (mc m) = true)
  | CGotW r nxt =>
      cin (mc m) = true /\ chead (mc m) = None /\ r = R mod (S + 1) /\
      nxt = (R + 1) mod (S + 1) /\ R < cknow k
  | CRead x nxt =>
      cin (mc m) = true /\ chead (mc m) = None /\ nxt = (R + 1) mod (S + 1) /\
      R < cknow k /\ exists t, mq m = x :: t
  end.

Record Inv (S : nat) (st : state) (m : mon) (R W : nat) : Prop := mkInv {
  i_cap : cap st = S;
  i_mS : mS m = S;
  i_len : length (data st) = S + 1;
  i_lw : length (lastw (mclk m)) = S + 1;
  i_lr : length (lastr (mclk m)) = S + 1;
  i_RW : R <= W <= R + S;
  i_rd : rd st = R mod (S + 1);
  i_wr : wr st = W mod (S + 1);
  i_qlen : length (mq m) = W - R;
  i_q : forall k, k < W - R -> nth k (mq m) 0%N = nth ((R + k) mod (S + 1)) (data st) 0%N;
  i_pown : pown (mclk m) = W + 1;
  i_cown : cown (mclk m) = R + 1;
  i_relw : relw (mclk m) = W;
  i_relr : relr (mclk m) = R;
  i_pknow : pknow (mclk m) <= R;
  i_cknow : cknow (mclk m) <= W;
  i_lastw : forall i k, nth i (lastw (mclk m)) 0 = k + 1 ->
                        k mod (S + 1) = i /\ (k < W \/ (k = W /\ is_pwrote (pp st)));
  i_lastr : forall i k, nth i (lastr (mclk m)) 0 = k + 1 ->
                        k mod (S + 1) = i /\ (k < R \/ (k = R /\ is_cread (cp st)));
  i_pp : pp_inv S W st m;
  i_cp : cp_inv S R W st m }.

Lemma inv_init S : Inv S (init S) (minit S) 0 0.
Proof.
  assert (Hz : forall S i k, nth i (repeat 0 (S + 1)) 0 = k + 1 -> False).
  { intros S0 i k H. destruct (Nat.lt_ge_cases i (S0 + 1)).
    - rewrite repeat_nth in H by auto. lia.
    - rewrite nth_overflow in H by (rewrite repeat_length; lia). lia. }
  constructor; cbn; auto; try lia; try apply repeat_length.
  - rewrite Nat.mod_0_l by lia. reflexivity.
  - rewrite Nat.mod_0_l by lia. reflexivity.
  - intros i k H. exfalso. eapply Hz; eauto.
  - intros i k H. exfalso. eapply Hz; eauto.
Qed.
