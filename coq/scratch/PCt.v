From BT Require Import Base.ListX Base.Bits2 NQueue.NQueueModel NQueue.NQueueSpec NQueue.NQueueProofs NQueue.NQueueSched.
From Coq Require Import Lia ZifyBool.
From BT Require Import scratch.PAB.
Local Open Scope nat_scope.
(* ------------------------------------------------------------------ system ~ monitor *)
Definition pinv (s : sys) (m : smon) : Prop :=
  match pst s with
  | PIdle => pwin m = None
  | PLoad2 a p k r =>
      exists gi rest lv i d, pprog s = (k, gi) :: rest /\ locate (szs (mem s)) 0 gi = Some (lv, i) /\
        a = (lv, boff i) /\ p = slot i /\ pwin m = Some (a, d) /\
        (d = false -> r = negb (has (pend_at (mp m) lv i) k))
  | PStore a p k r v =>
      exists gi rest lv i d, pprog s = (k, gi) :: rest /\ locate (szs (mem s)) 0 gi = Some (lv, i) /\
        a = (lv, boff i) /\ p = slot i /\ pwin m = Some (a, d) /\
        (d = false -> r = negb (has (pend_at (mp m) lv i) k) /\ v = mload (mem s) a)
  end.

Definition deq_head (s : sys) : Prop := exists rest, cprog s = CDeq :: rest.

Definition cinv (s : sys) (m : smon) (c : cstate) : Prop :=
  match c with
  | CIdle => True
  | CScan lv off fuel i =>
      deq_head s /\ lv < length (mem s) /\ off = offs (szs (mem s)) lv /\ i < nth lv (szs (mem s)) 1
  | CSingI lv off | CSingN lv off =>
      deq_head s /\ lv < length (mem s) /\ off = offs (szs (mem s)) lv /\ nth lv (kinds (mem s)) true = true
  | CRem a p k gi =>
      deq_head s /\ exists lv i, locate (szs (mem s)) 0 gi = Some (lv, i) /\ a = (lv, boff i) /\ p = slot i /\
        has (pend_at (mp m) lv i) k = true
  | CRemS a p k gi v =>
      deq_head s /\ exists lv i d, locate (szs (mem s)) 0 gi = Some (lv, i) /\ a = (lv, boff i) /\ p = slot i /\
        has (pend_at (mp m) lv i) k = true /\ cwin m = Some (a, d) /\ (d = false -> v = mload (mem s) a)
  end.

Record srel (s : sys) (m : smon) : Prop := {
  sr_mem : Forall2 lrel (mem s) (mp m);
  sr_pq : mpq m = pprog s;
  sr_cq : mcq m = cprog s;
  sr_p : pinv s m;
  sr_c : cinv s m (cst s) }.

Definition step_ok (s' : sys) (v : sverdict * smon) : Prop :=
  match v with (SOk, m') => srel s' m' | (SBad t, _) => 10 < t end.

Lemma locate_lt ls m gi lv i :
  Forall2 lrel ls m -> locate (szs ls) 0 gi = Some (lv, i) ->
  lv < length ls /\ i < nth lv (szs ls) 1 /\ lv < length m /\ i < length (nth lv m []).
Proof.
  intros F H. apply locate_bound in H. rewrite Nat.sub_0_r in H. destruct H as (_ & A & B).
  unfold szs in A. rewrite map_length in A.
  pose proof (Forall2_len F). pose proof (len_pend ls m lv F A). repeat split; lia.
Qed.

Lemma has_kbit_test x k : (N.land x (kbit k) =? 0)%N = negb (has x k).
Proof. unfold has. rewrite negb_involutive. reflexivity. Qed.

Lemma tagw_big t d : 0 < t -> (d = false -> False) -> 10 < tagw t d.
Proof. destruct d; simpl; intros H0 H; [lia|exfalso; auto]. Qed.

Lemma chk_store_clean m a v d : v = abs_byte m a -> chk_store m a v d = None.
Proof. intros ->. unfold chk_store. rewrite N.eqb_refl. reflexivity. Qed.

Lemma chk_store_cases m a v d :
  match chk_store m a v d with
  | None => v = abs_byte m a
  | Some t => v <> abs_byte m a /\ t = tagw (if (N.ldiff (abs_byte m a) v =? 0)%N then t_dup else t_lost) d
  end.
Proof.
  unfold chk_store. destruct (v =? abs_byte m a)%N eqn:E.
  - apply N.eqb_eq in E. auto.
  - apply N.eqb_neq in E. auto.
Qed.

(* ---- the producer's micro-steps *)
Lemma p_step_ok s m :
  srel s m -> (pst s <> PIdle \/ pprog s <> []) ->
  let '(ls, p', ac, r) := p_micro (mem s) (pprog s) (pst s) in
  step_ok (mks ls (outst s) (if done r then tl (pprog s) else pprog s) p' (cprog s) (cst s))
          (smstep m StepP (OStep ac r)).
Proof.
  intros [F Q1 Q2 P C] Hne.
  destruct s as [ls ou pp ps cp cs]. simpl in *.
  pose proof (szs_agree _ _ F) as Z.
  unfold pinv in P; simpl in P.
  destruct ps as [|a p k r|a p k r v]; simpl.
  - (* first load *)
    destruct pp as [|[k gi] rest]; [destruct Hne; congruence|].
    fold (szs ls). destruct (locate (szs ls) 0 gi) as [[lv i]|] eqn:L; simpl.
    + rewrite Q1, P. simpl.
      destruct (locate_lt _ _ _ _ _ F L) as (H1 & H2 & H3 & H4).
      destruct (mload_abs ls (mp m) lv i F H1 H2) as [E1 E2].
      constructor; simpl; auto.
      exists gi, rest, lv, i, false. repeat split; auto.
      pose proof (lrel_nth _ _ lv F H1) as R. intros _.
      rewrite sweep_test.
      * rewrite E2. apply has_kbit_test.
      * rewrite E1. apply pack4_lt. apply (lr_wf _ _ R).
      * apply slot_lt.
      * apply kbit_lt.
    + rewrite Q1. simpl. rewrite <- Z, L. constructor; simpl; auto. reflexivity.
  - (* second load *)
    destruct P as (gi & rest & lv & i & d & Hp & L & -> & -> & Hw & Hr).
    rewrite Q1, Hp. simpl. rewrite Hw. simpl.
    constructor; simpl; auto.
    exists gi, rest, lv, i, d. repeat split; auto.
  - (* store *)
    destruct P as (gi & rest & lv & i & d & Hp & L & -> & -> & Hw & Hr).
    rewrite Q1, Hp. simpl. rewrite <- Z, L, Hw. simpl.
    destruct (locate_lt _ _ _ _ _ F L) as (H1 & H2 & H3 & H4).
    pose proof (lrel_nth _ _ lv F H1) as R.
    set (x := pend_at (mp m) lv i).
    destruct (Bool.eqb r (negb (has x k))) eqn:Er; simpl.
    2:{ apply tagw_big; [unfold t_ret; lia|]. intros ->. destruct (Hr eq_refl) as [-> _]. rewrite Bool.eqb_reflx in Er. discriminate. }
    pose proof (chk_store_cases (pend_set (mp m) lv i (N.lor x (kbit k))) (lv, boff i) (byte_or v (slot i) (kbit k)) d) as CS.
    destruct (chk_store _ _ _ d) as [t|].
    { destruct CS as [Hne' ->]. apply tagw_big; [destruct (_ =? _)%N; unfold t_dup, t_lost; lia|]. intros ->. destruct (Hr eq_refl) as [_ ->]. apply Hne'.
      rewrite abs_byte_set by auto.
      destruct (mload_abs ls (mp m) lv i F H1 H2) as [E1 _]. rewrite E1.
      symmetry. apply pack4_upd_or; auto. apply (lr_wf _ _ R). }
    rewrite abs_byte_set in CS by auto. rewrite CS.
    assert (Hx : (N.lor x (kbit k) < 4)%N) by (apply lor_lt4; apply (lr_wf _ _ R)).
    constructor; simpl; auto.
    + apply lrel_store; auto.
    + reflexivity.
    + (* the consumer's invariant *)
      destruct cs as [|clv off fuel ci|clv off|clv off|ca cp' ck cgi|ca cp' ck cgi cv]; simpl in C |- *; auto;
        rewrite ?szs_mstore, ?kinds_mstore, ?length_mstore; auto.
      * destruct C as (D & lv' & i' & L' & -> & -> & Hh). split; auto.
        exists lv', i'. repeat split; auto.
        destruct (Nat.eq_dec lv' lv) as [->|]; [destruct (Nat.eq_dec i' i) as [->|]|].
        -- rewrite pend_at_set_eq by auto. rewrite has_lor by apply (lr_wf _ _ R). unfold x. rewrite Hh. reflexivity.
        -- rewrite pend_at_set_neq by congruence. auto.
        -- rewrite pend_at_set_neq by congruence. auto.
      * destruct C as (D & lv' & i' & d' & L' & -> & -> & Hh & Hcw & Hv). split; auto.
        exists lv', i', (d' || addr_eqb (lv, boff i) (lv', boff i')). rewrite Hcw. simpl. repeat split; auto.
        -- destruct (Nat.eq_dec lv' lv) as [->|]; [destruct (Nat.eq_dec i' i) as [->|]|].
           ++ rewrite pend_at_set_eq by auto. rewrite has_lor by apply (lr_wf _ _ R). unfold x. rewrite Hh. reflexivity.
           ++ rewrite pend_at_set_neq by congruence. auto.
           ++ rewrite pend_at_set_neq by congruence. auto.
        -- intros Hd. apply orb_false_iff in Hd. destruct Hd as [-> Hd].
           rewrite mload_mstore_neq; auto.
           intro Hc. apply addr_eqb_eq in Hc. congruence.
Qed.

Lemma pinv_ext s s' m m' :
  pst s' = pst s -> pprog s' = pprog s -> szs (mem s') = szs (mem s) ->
  (forall a, mload (mem s') a = mload (mem s) a) -> mp m' = mp m -> pwin m' = pwin m ->
  pinv s m -> pinv s' m'.
Proof.
  unfold pinv. intros -> -> -> Hm -> ->. destruct (pst s); auto.
  intros (gi & rest & lv & i & d & H). exists gi, rest, lv, i, d. rewrite Hm. exact H.
Qed.

Lemma enter_inv s m lv off :
  Forall2 lrel (mem s) (mp m) -> deq_head s -> off = offs (szs (mem s)) lv ->
  forall c, enter (mem s) lv off = Some c -> cinv s m c.
Proof.
  intros F D -> c. unfold enter. destruct (nth_error (mem s) lv) as [l|] eqn:E; [|discriminate].
  assert (Hl : lv < length (mem s)) by (apply nth_error_Some; congruence).
  apply (nth_error_nth _ _ dlevel) in E.
  pose proof (lrel_nth _ _ lv F Hl) as R. rewrite E in R.
  destruct l as [sz n q|st]; intros H; inversion H; subst c; simpl; repeat split; auto.
  - rewrite <- lsize_nth, E. apply (lr_next _ _ R).
  - rewrite <- single_nth, E. reflexivity.
Qed.

Ltac mk_srel := constructor; [ simpl | simpl; auto | simpl; auto | | simpl ].
Ltac keep_pinv P := eapply pinv_ext; [..|exact P]; simpl; auto using szs_set_next, mload_set_next.

Lemma addr_eqb_refl a : addr_eqb a a = true.
Proof. apply addr_eqb_eq. reflexivity. Qed.

Lemma mod_succ_lt i s : i < s -> (i + 1) mod s < s.
Proof. intros. apply Nat.mod_upper_bound. lia. Qed.

(* ---- the consumer's micro-steps *)
Lemma next_level_ok ls ou pp ps cs rest m a v lv sz :
  Forall2 lrel ls (mp m) -> mpq m = pp -> mcq m = CDeq :: rest ->
  pinv (mks ls ou pp ps (CDeq :: rest) cs) m -> lv < length ls -> sz = nth lv (szs ls) 1 ->
  forall c' r, c_next_level ls (S lv) (offs (szs ls) lv + sz) = (c', r) ->
    step_ok (mks ls ou pp ps (if done r then tl (CDeq :: rest) else CDeq :: rest) c')
            (smstep m StepC (OStep (ALoad a v) r)).
Proof.
  intros F Q1 Q2 P Hl -> c' r. unfold c_next_level.
  destruct (enter ls (S lv) (offs (szs ls) lv + nth lv (szs ls) 1)) as [c1|] eqn:En;
    intros H; inversion H; subst c' r; simpl; rewrite Q2; simpl.
  - mk_srel; auto; try keep_pinv P.
    apply (enter_inv (mks ls ou pp ps (CDeq :: rest) c1)
               (mkm (mp m) (mpq m) (mcq m) (pwin m) (Some (a, false))) (S lv)
               (offs (szs ls) lv + nth lv (szs ls) 1)); simpl; auto.
    + eexists; reflexivity.
    + symmetry. apply offs_S. unfold szs. rewrite map_length. auto.
  - mk_srel; auto; try keep_pinv P.
Qed.

Lemma single_level ls m lv :
  Forall2 lrel ls m -> lv < length ls -> nth lv (kinds ls) true = true ->
  nth lv (szs ls) 1 = 1 /\ mload ls (lv, 0) = pend_at m lv 0.
Proof.
  intros F Hl Hk. pose proof (lrel_nth _ _ lv F Hl) as R. pose proof (len_pend _ _ lv F Hl) as L.
  rewrite <- single_nth in Hk. rewrite <- lsize_nth in *.
  destruct (nth lv ls dlevel) as [s n q|st] eqn:E; [discriminate|]. simpl in *. split; auto.
  unfold mload. simpl. rewrite E. simpl.
  pose proof (lr_bytes _ _ R) as B. simpl in B. unfold abs_bytes in B. rewrite L in B. simpl in B.
  injection B as ->. apply pack4_single. auto.
Qed.

Lemma c_step_ok s m c :
  srel s m -> cinv s m c -> c <> CIdle ->
  let '(s', out) := c_apply s c in step_ok s' (smstep m StepC out).
Proof.
  intros [F Q1 Q2 P _] C Hne.
  destruct s as [ls ou pp ps cp cs]. simpl in *.
  pose proof (szs_agree _ _ F) as Z.
  destruct c as [|lv off fuel i|lv off|lv off|a p k gi|a p k gi v]; [congruence| | | | |]; simpl in C.
  - (* at( i ) *)
    destruct C as ([rest D] & Hl & -> & Hi). simpl in D. rewrite D in *. clear D.
    destruct (mload_abs ls (mp m) lv i F Hl Hi) as [E1 E2].
    unfold c_apply, c_micro. cbn [mem outst cprog pprog pst cst].
    rewrite E2. rewrite lsize_nth.
    set (x := pend_at (mp m) lv i) in *. set (sz := nth lv (szs ls) 1) in *.
    assert (Hmod : (i + 1) mod sz < sz) by (apply mod_succ_lt; auto).
    assert (Hloc : locate (szs ls) 0 (i + offs (szs ls) lv) = Some (lv, i)).
    { apply (locate_offs (szs ls) 0 lv i); auto. unfold szs. rewrite map_length. auto. }
    destruct (negb (N.land x 2 =? 0)%N && is_none ou) eqn:A; [|destruct (negb (N.land x 1 =? 0)%N) eqn:B].
    + simpl. rewrite Q2. simpl. mk_srel.
      * apply lrel_set_next; auto.
      * keep_pinv P.
      * split; [eexists; reflexivity|]. exists lv, i. rewrite szs_set_next.
        repeat split; auto. apply andb_true_iff in A. apply A.
    + simpl. rewrite Q2. simpl. mk_srel.
      * apply lrel_set_next; auto.
      * keep_pinv P.
      * split; [eexists; reflexivity|]. exists lv, i. rewrite szs_set_next.
        repeat split; auto.
    + destruct fuel as [|[|f]].
      * destruct (c_next_level ls (S lv) (offs (szs ls) lv + sz)) as [c' r] eqn:En.
        cbv beta iota. eapply next_level_ok with (cs := cs) (v := mload ls (lv, boff i)); eauto.
      * destruct (c_next_level ls (S lv) (offs (szs ls) lv + sz)) as [c' r] eqn:En.
        cbv beta iota. eapply next_level_ok with (cs := cs) (v := mload ls (lv, boff i)); eauto.
      * simpl. rewrite Q2. simpl. mk_srel; auto; try keep_pinv P.
        split; [eexists; reflexivity|]. repeat split; auto.
  - (* size 1: state_ & indication_bit *)
    destruct C as ([rest D] & Hl & -> & Hk). simpl in D. rewrite D in *. clear D.
    destruct (single_level ls (mp m) lv F Hl Hk) as [Hs E].
    unfold c_apply, c_micro. cbn [mem outst cprog pprog pst cst]. rewrite E.
    set (x := pend_at (mp m) lv 0) in *.
    assert (Hloc : locate (szs ls) 0 (offs (szs ls) lv) = Some (lv, 0)).
    { apply (locate_offs (szs ls) 0 lv 0); [unfold szs; rewrite map_length; auto|lia]. }
    destruct (negb (N.land x 2 =? 0)%N && is_none ou) eqn:A.
    + simpl. rewrite Q2. simpl. mk_srel; auto; try keep_pinv P.
      split; [eexists; reflexivity|]. exists lv, 0. repeat split; auto.
      apply andb_true_iff in A. apply A.
    + simpl. rewrite Q2. simpl. mk_srel; auto; try keep_pinv P.
      split; [eexists; reflexivity|]. repeat split; auto.
  - (* size 1: state_ & notification_bit *)
    destruct C as ([rest D] & Hl & -> & Hk). simpl in D. rewrite D in *. clear D.
    destruct (single_level ls (mp m) lv F Hl Hk) as [Hs E].
    unfold c_apply, c_micro. cbn [mem outst cprog pprog pst cst]. rewrite E.
    set (x := pend_at (mp m) lv 0) in *.
    assert (Hloc : locate (szs ls) 0 (offs (szs ls) lv) = Some (lv, 0)).
    { apply (locate_offs (szs ls) 0 lv 0); [unfold szs; rewrite map_length; auto|lia]. }
    destruct (negb (N.land x 1 =? 0)%N) eqn:B.
    + simpl. rewrite Q2. simpl. mk_srel; auto; try keep_pinv P.
      split; [eexists; reflexivity|]. exists lv, 0. repeat split; auto.
    + destruct (c_next_level ls (S lv) (offs (szs ls) lv + 1)) as [c' r] eqn:En.
      cbv beta iota. eapply next_level_ok with (cs := cs) (v := x); eauto. rewrite Hs. exact En.
  - (* remove: load *)
    destruct C as ([rest D] & lv & i & L & -> & -> & Hh). simpl in D. rewrite D in *. clear D.
    unfold c_apply, c_micro. cbn [mem outst cprog pprog pst cst]. simpl. rewrite Q2. simpl.
    mk_srel; auto; try keep_pinv P.
    split; [eexists; reflexivity|]. exists lv, i, false. repeat split; auto.
  - (* remove: store *)
    destruct C as ([rest D] & lv & i & d & L & -> & -> & Hh & Hcw & Hv). simpl in D. rewrite D in *. clear D.
    unfold c_apply, c_micro. cbn [mem outst cprog pprog pst cst]. simpl. rewrite Q2. simpl.
    rewrite <- Z, L, Hcw. simpl. rewrite Hh. simpl.
    destruct (locate_lt _ _ _ _ _ F L) as (H1 & H2 & H3 & H4).
    pose proof (lrel_nth _ _ lv F H1) as R.
    set (x := pend_at (mp m) lv i) in *.
    pose proof (chk_store_cases (pend_set (mp m) lv i (N.ldiff x (kbit k))) (lv, boff i) (byte_clr v (slot i) (kbit k)) d) as CS.
    destruct (chk_store _ _ _ d) as [t|].
    { destruct CS as [Hne' ->]. apply tagw_big; [destruct (_ =? _)%N; unfold t_dup, t_lost; lia|]. intros ->.
      rewrite (Hv eq_refl) in Hne'. apply Hne'.
      rewrite abs_byte_set by auto.
      destruct (mload_abs ls (mp m) lv i F H1 H2) as [E1 _]. rewrite E1.
      symmetry. apply pack4_upd_clr; auto. apply (lr_wf _ _ R). }
    rewrite abs_byte_set in CS by auto. rewrite CS.
    assert (Hx : (N.ldiff x (kbit k) < 4)%N) by (apply ldiff_lt4; apply (lr_wf _ _ R)).
    mk_srel; auto.
    + apply lrel_store; auto.
    + unfold pinv in *. simpl in *. rewrite szs_mstore.
      destruct ps as [|a0 p0 k0 r0|a0 p0 k0 r0 v0].
      * rewrite P. reflexivity.
      * destruct P as (gi0 & rest0 & lv0 & i0 & d0 & Hp & L0 & -> & -> & Hw & Hr).
        exists gi0, rest0, lv0, i0, (d0 || addr_eqb (lv, boff i) (lv0, boff i0)).
        rewrite Hw. simpl. repeat split; auto.
        intros Hd. apply orb_false_iff in Hd. destruct Hd as [-> Hd].
        rewrite pend_at_set_neq; auto.
        intro Hc. inversion Hc; subst. rewrite addr_eqb_refl in Hd. discriminate.
      * destruct P as (gi0 & rest0 & lv0 & i0 & d0 & Hp & L0 & -> & -> & Hw & Hr).
        exists gi0, rest0, lv0, i0, (d0 || addr_eqb (lv, boff i) (lv0, boff i0)).
        rewrite Hw. simpl. repeat split; auto.
        -- apply orb_false_iff in H. destruct H as [-> Hd]. destruct (Hr eq_refl) as [-> _].
           rewrite pend_at_set_neq; auto.
           intro Hc. inversion Hc; subst. rewrite addr_eqb_refl in Hd. discriminate.
        -- apply orb_false_iff in H. destruct H as [-> Hd]. destruct (Hr eq_refl) as [_ ->].
           rewrite mload_mstore_neq; auto.
           intro Hc. apply addr_eqb_eq in Hc. congruence.
Qed.

(* ------------------------------------------------------------------ every step *)
Lemma bytes_eqb_refl a : bytes_eqb a a = true.
Proof. induction a; simpl; auto. rewrite N.eqb_refl. auto. Qed.

Lemma final_ok ls m : Forall2 lrel ls m -> levels_eqb (map lbytes ls) (map abs_bytes m) = true.
Proof.
  intros F. induction F; simpl; auto. rewrite (lr_bytes _ _ H), bytes_eqb_refl. auto.
Qed.

Lemma sstep_ok s m o : srel s m -> step_ok (fst (sstep s o)) (smstep m o (snd (sstep s o))).
Proof.
  intros R. pose proof R as [F Q1 Q2 P C].
  destruct o as [k i|c| | |].
  - simpl. mk_srel; auto.
    + rewrite Q1. reflexivity.
    + unfold pinv in *. simpl. destruct (pst s); auto.
      * destruct P as (gi & rest & lv & i0 & d & Hp & H). exists gi, (rest ++ [(k, i)]), lv, i0, d.
        rewrite Hp. split; auto.
      * destruct P as (gi & rest & lv & i0 & d & Hp & H). exists gi, (rest ++ [(k, i)]), lv, i0, d.
        rewrite Hp. split; auto.
  - simpl. mk_srel; auto.
    + rewrite Q2. reflexivity.
    + assert (D : deq_head s -> deq_head (mks (mem s) (outst s) (pprog s) (pst s) (cprog s ++ [c]) (cst s))).
      { intros [rest D]. exists (rest ++ [c]). simpl. rewrite D. reflexivity. }
      destruct (cst s); simpl in *; auto.
      * destruct C as (C1 & C2). split; auto.
      * destruct C as (C1 & C2). split; auto.
      * destruct C as (C1 & C2). split; auto.
      * destruct C as (C1 & C2). split; auto.
      * destruct C as (C1 & C2). split; auto.
  - (* producer *)
    destruct (pst s) eqn:Es; [destruct (pprog s) eqn:Ep|..].
    + unfold sstep. Show. rewrite Es, Ep. simpl. rewrite Q1, Ep. exact R.
    + pose proof (p_step_ok s m R) as H. unfold sstep. rewrite Es, Ep in *.
      destruct (p_micro (mem s) (p :: l) PIdle) as [[[ls p'] ac] r]. simpl. apply H. right. congruence.
    + pose proof (p_step_ok s m R) as H. unfold sstep. rewrite Es in *.
      destruct (p_micro (mem s) (pprog s) (PLoad2 a p k r)) as [[[ls p'] ac] r']. simpl. apply H. left. congruence.
    + pose proof (p_step_ok s m R) as H. unfold sstep. rewrite Es in *.
      destruct (p_micro (mem s) (pprog s) (PStore a p k r v)) as [[[ls p'] ac] r']. simpl. apply H. left. congruence.
  - (* consumer *)
    assert (G : forall c, cinv s m c -> c <> CIdle ->
                step_ok (fst (c_apply s c)) (smstep m StepC (snd (c_apply s c)))).
    { intros c Hc Hn. pose proof (c_step_ok s m c R Hc Hn) as H. destruct (c_apply s c). exact H. }
    unfold sstep. destruct (cst s) eqn:Es; try (apply G; [rewrite <- Es; exact C|congruence]).
    destruct (cprog s) as [|[|] t] eqn:Ep.
    + simpl. rewrite Q2, Ep. exact R.
    + destruct (enter (mem s) 0 0) as [c|] eqn:En.
      * apply G.
        -- apply (enter_inv s m 0 0); auto. exists t. auto.
        -- unfold enter in En. destruct (nth_error (mem s) 0) as [[? ? ?|?]|]; inversion En; congruence.
      * simpl. rewrite Q2, Ep. mk_srel; auto. exact P.
    + simpl. rewrite Q2, Ep. mk_srel; auto. exact P.
  - simpl. rewrite (final_ok _ _ F). exact R.
Qed.

Lemma nth_repeat0 n j : nth j (repeat 0%N n) 0%N = 0%N.
Proof. revert j. induction n; intros [|j]; simpl; auto. Qed.

Lemma init_level_rel s : 1 <= s -> lrel (init_level s) (repeat 0%N s).
Proof.
  intros H. unfold init_level. destruct (s =? 1) eqn:E.
  - apply Nat.eqb_eq in E. subst s. constructor; simpl; auto.
    + intros [|[|j]]; simpl; lia.
  - apply Nat.eqb_neq in E. constructor; simpl; auto.
    + apply repeat_length.
    + intros j. rewrite nth_repeat0. lia.
    + apply nth_ext_len with (d := 0%N).
      * rewrite repeat_length, abs_bytes_length, repeat_length. reflexivity.
      * intros b Hb. rewrite repeat_length in Hb. rewrite repeat_nth by auto.
        rewrite nth_abs_bytes by (rewrite repeat_length; auto).
        unfold pack4. rewrite !nth_repeat0. reflexivity.
    + lia.
Qed.

Lemma init_srel sizes : wf_sizes sizes -> srel (sinit sizes) (sminit sizes).
Proof.
  intros W. constructor; simpl; auto.
  - induction W; simpl; constructor; auto using init_level_rel.
  - reflexivity.
Qed.

Lemma monitor_from_overlap_only : forall ops s m pos,
  srel s m ->
  match smonitor_from m pos (srun s ops) with None => True | Some (_, t) => 10 < t end.
Proof.
  induction ops as [|o ops IH]; intros s m pos R; simpl; auto.
  pose proof (sstep_ok s m o R) as H.
  destruct (sstep s o) as [s' r]. simpl in *.
  destruct (smstep m o r) as [[|t] m']; simpl in H; auto.
Qed.

(* ------------------------------------------------------------------ windows *)
Lemma tagw_small t d : t <= 10 -> 10 < tagw t d -> d = true.
Proof. destruct d; simpl; auto. lia. Qed.

Lemma smstep_wstep m o r :
  match smstep m o r with
  | (SOk, m') => (pwin m', cwin m') = fst (wstep (pwin m, cwin m) o r)
  | (SBad t, _) => 10 < t -> snd (wstep (pwin m, cwin m) o r) = true
  end.
Proof.
  destruct m as [p pq cq pw cw].
  destruct o; destruct r; simpl; try (unfold t_sshape; lia); try reflexivity.
  - destruct pq; simpl; [reflexivity|unfold t_sshape; lia].
  - destruct pq as [|[k gi] rest]; simpl; [unfold t_sshape; lia|].
    destruct ac as [|a v|a v]; destruct r as [|b|e|]; simpl; try (unfold t_sshape; lia); try reflexivity.
    + destruct b; simpl; [unfold t_sshape; lia|].
      destruct (locate _ 0 gi); simpl; [unfold t_sshape; lia|reflexivity].
    + destruct (locate _ 0 gi) as [[lv i]|]; simpl; [|unfold t_sshape; lia].
      destruct (negb _); simpl; [apply tagw_small; unfold t_ret; lia|].
      unfold chk_store. destruct (_ =? _)%N; simpl; [reflexivity|].
      apply tagw_small. destruct (_ =? _)%N; unfold t_dup, t_lost; lia.
  - destruct cq; simpl; [reflexivity|unfold t_sshape; lia].
  - destruct cq as [|[|] rest]; simpl; [unfold t_sshape; lia| |].
    + destruct ac as [|a v|a v]; destruct r as [|b|[[k gi]|]|]; simpl; try (unfold t_sshape; lia); try reflexivity.
      destruct (locate _ 0 gi) as [[lv i]|]; simpl; [|unfold t_sshape; lia].
      destruct (negb _); simpl; [apply tagw_small; unfold t_deq; lia|].
      unfold chk_store. destruct (_ =? _)%N; simpl; [reflexivity|].
      apply tagw_small. destruct (_ =? _)%N; unfold t_dup, t_lost; lia.
    + destruct ac as [|a v|a v]; destruct r as [|b|[[k gi]|]|]; simpl; try (unfold t_sshape; lia); try reflexivity.
  - destruct (levels_eqb _ _); simpl; [reflexivity|unfold t_final; lia].
Qed.

Lemma monitor_overlap_free : forall tr m pos p t,
  overlap_free_from (pwin m, cwin m) tr = true ->
  smonitor_from m pos tr = Some (p, t) -> t <= 10.
Proof.
  induction tr as [|[o r] tr IH]; intros m pos p t Hf Hm; simpl in *; [discriminate|].
  pose proof (smstep_wstep m o r) as W.
  destruct (wstep (pwin m, cwin m) o r) as [w' d] eqn:Ew. simpl in W.
  apply andb_true_iff in Hf. destruct Hf as [Hd Hf]. apply negb_true_iff in Hd. subst d.
  destruct (smstep m o r) as [[|t'] m'].
  - subst w'. eapply IH; eauto.
  - inversion Hm; subst. destruct (Nat.le_gt_cases t 10); auto. specialize (W ltac:(lia)). discriminate.
Qed.
