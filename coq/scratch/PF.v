
(* ------------------------------------------------------------------ main theorems *)
Theorem monitor_only_overlap sizes ops :
  wf_sizes sizes ->
  match smonitor sizes (srun (sinit sizes) ops) with None => True | Some (_, t) => 10 < t end.
Proof. intros W. apply monitor_from_overlap_only. apply init_srel. auto. Qed.

Theorem overlap_free_accepts sizes ops :
  wf_sizes sizes -> overlap_free (srun (sinit sizes) ops) = true ->
  smonitor sizes (srun (sinit sizes) ops) = None.
Proof.
  intros W Hf. pose proof (monitor_only_overlap sizes ops W) as H.
  destruct (smonitor sizes (srun (sinit sizes) ops)) as [[p t]|] eqn:E; auto.
  pose proof (monitor_overlap_free _ (sminit sizes) 0 p t Hf E). lia.
Qed.

(* ------------------------------------------------------------------ disciplines that exclude overlaps *)
Definition g_safe (s : sys) (o : sop) : bool := g_isr s o && g_irqoff s o.

Definition winv (s : sys) (w : win * win) : Prop :=
  dirty_of (fst w) = false /\ (pst s = PIdle -> fst w = None) /\
  (c_in_rmw s = true -> exists a, snd w = Some (a, false)).

Lemma dirty_open w a : dirty_of (open_win w a) = dirty_of w.
Proof. destruct w as [[? ?]|]; reflexivity. Qed.

Ltac next_level N :=
  match goal with |- context [c_next_level ?a ?b ?c] =>
    specialize (N b c); destruct (c_next_level a b c) as [c' r'];
    destruct r'; simpl; repeat split; auto; destruct c'; simpl; try discriminate; contradiction end.

Lemma wstep_safe s w o :
  winv s w -> g_safe s o = true ->
  snd (wstep w o (snd (sstep s o))) = false /\ winv (fst (sstep s o)) (fst (wstep w o (snd (sstep s o)))).
Proof.
  intros (I1 & I2 & I3) G. unfold g_safe in G. apply andb_true_iff in G. destruct G as [G1 G2].
  destruct s as [ls ou pp ps cp cs]. destruct w as [pw cw]. unfold winv in *. simpl in *.
  destruct o as [k i|c| | |]; simpl in *.
  - repeat split; auto.
  - repeat split; auto.
  - (* producer *)
    unfold c_in_rmw in *. simpl in *.
    destruct ps as [|a p k r|a p k r v]; simpl.
    + destruct pp as [|[k gi] rest]; simpl; [repeat split; auto|].
      destruct (locate (map lsize ls) 0 gi) as [[lv i]|]; simpl.
      * rewrite (I2 eq_refl). simpl. repeat split; auto. discriminate.
      * repeat split; auto.
    + rewrite dirty_open. repeat split; auto. discriminate.
    + repeat split; auto. intros H. rewrite H in G2. discriminate.
  - (* consumer: the producer is idle *)
    unfold p_idle in G1. simpl in G1. destruct ps; try discriminate. rewrite (I2 eq_refl) in *. simpl in *.
    unfold c_in_rmw in *. simpl in *.
    assert (N : forall lv off, match c_next_level ls lv off with
                               | (CRemS _ _ _ _ _, _) => False | _ => True end).
    { intros lv off. unfold c_next_level, enter. destruct (nth_error ls lv) as [[? ? ?|?]|]; simpl; auto. }
    destruct cs as [|lv off fuel i|lv off|lv off|a p k gi|a p k gi v]; simpl.
    + destruct cp as [|[|] t]; simpl; [repeat split; auto; discriminate| |repeat split; auto; discriminate].
      unfold enter. destruct (nth_error ls 0) as [[sz n q|st]|]; simpl; [| |repeat split; auto; discriminate].
      * unfold c_apply, c_micro. simpl.
        destruct (_ && _); simpl; [repeat split; auto; discriminate|].
        destruct (negb _); simpl; [repeat split; auto; discriminate|].
        destruct sz as [|[|f]]; simpl;
          try next_level N; repeat split; auto; discriminate.
      * unfold c_apply, c_micro. simpl.
        destruct (_ && _); simpl; repeat split; auto; discriminate.
    + unfold c_apply, c_micro. simpl.
      destruct (_ && _); simpl; [repeat split; auto; discriminate|].
      destruct (negb _); simpl; [repeat split; auto; discriminate|].
      destruct fuel as [|[|f]]; simpl;
        try next_level N; repeat split; auto; discriminate.
    + unfold c_apply, c_micro. simpl.
      destruct (_ && _); simpl; repeat split; auto; discriminate.
    + unfold c_apply, c_micro. simpl.
      destruct (negb _); simpl; [repeat split; auto; discriminate|].
      next_level N.
    + unfold c_apply, c_micro. simpl. repeat split; auto. intros _. eexists. reflexivity.
    + unfold c_apply, c_micro. simpl. destruct (I3 eq_refl) as [a' ->]. simpl. repeat split; auto. discriminate.
  - repeat split; auto.
Qed.

Lemma guarded_overlap_free : forall ops s w,
  winv s w -> guarded g_safe s ops = true -> overlap_free_from w (srun s ops) = true.
Proof.
  induction ops as [|o ops IH]; intros s w I G; simpl in *; auto.
  apply andb_true_iff in G. destruct G as [G1 G2].
  destruct (wstep_safe s w o I G1) as [D I'].
  destruct (sstep s o) as [s' r]. simpl in *.
  destruct (wstep w o r) as [w' d]. simpl in *. subst d. simpl. apply IH; auto.
Qed.

Lemma guarded_mono (g1 g2 : sys -> sop -> bool) :
  (forall s o, g1 s o = true -> g2 s o = true) ->
  forall ops s, guarded g1 s ops = true -> guarded g2 s ops = true.
Proof.
  intros H. induction ops as [|o ops IH]; intros s G; simpl in *; auto.
  apply andb_true_iff in G. destruct G as [G1 G2]. rewrite (H _ _ G1). simpl. auto.
Qed.

Lemma lock_is_safe s o : g_lock s o = true -> g_safe s o = true.
Proof.
  unfold g_lock, g_safe, g_isr, g_irqoff, c_idle, c_in_rmw. destruct o; auto.
  - destruct (cst s); simpl; auto; discriminate.
  - intros ->. reflexivity.
Qed.

Theorem safe_discipline_accepts sizes ops :
  wf_sizes sizes -> guarded g_safe (sinit sizes) ops = true ->
  smonitor sizes (srun (sinit sizes) ops) = None.
Proof.
  intros W G. apply overlap_free_accepts; auto. apply guarded_overlap_free; auto.
  repeat split; auto. simpl. discriminate.
Qed.

Theorem lock_accepts sizes ops :
  wf_sizes sizes -> guarded g_lock (sinit sizes) ops = true ->
  smonitor sizes (srun (sinit sizes) ops) = None.
Proof.
  intros W G. apply safe_discipline_accepts; auto.
  revert G. apply guarded_mono. apply lock_is_safe.
Qed.
