
Ltac psimpl := cbn [ch_idx ch_map perturb ival_us ss_started ss_enabled ss_count d_addr d_valid d_started
  selected proposal data_changed buf_type set_idx set_ss set_perturb set_dstarted set_buf set_selected
  set_proposal set_changed set_daddr set_map set_ival fst snd negb andb orb].

(* ------------------------------------------------------------------ C25: frame *)
Definition same25 (s s' : state) : Prop :=
  d_addr s' = d_addr s /\ d_valid s' = d_valid s /\ d_started s' = d_started s /\
  selected s' = selected s /\ proposal s' = proposal s /\ buf_type s' = buf_type s.

Lemma same25_refl s : same25 s s. Proof. repeat split. Qed.
Lemma same25_trans a b c : same25 a b -> same25 b c -> same25 a c.
Proof. unfold same25. intuition congruence. Qed.

Lemma begin_same25 c s : same25 s (snd (begin_of_advertising_events c s)).
Proof.
  unfold begin_of_advertising_events, same25. destruct (c_manual c); [destruct (count_down _ _)|]; psimpl; repeat split.
Qed.
Lemma continued_same25 c s : same25 s (snd (continued_advertising_events c s)).
Proof.
  unfold continued_advertising_events, same25. destruct (c_manual c); [destruct (count_down _ _)|]; psimpl; repeat split.
Qed.
Lemma first_channel_same25 c s s' : first_channel c s = Some s' -> same25 s s'.
Proof.
  unfold first_channel, same25. destruct (c_varmap c); [destruct (ch_map s =? 0); [discriminate|]|];
    intros H; inversion H; subst; psimpl; repeat split.
Qed.
Lemma next_channel_same25 c s s' : next_channel c s = Some s' -> same25 s s'.
Proof.
  unfold next_channel, same25. destruct (c_varmap c); [destruct (ch_map s =? 0); [discriminate|]|];
    intros H; inversion H; subst; psimpl; repeat split.
Qed.
Lemma next_adv_event_same25 c s : same25 s (snd (next_adv_event c s)).
Proof.
  unfold next_adv_event, same25. destruct (negb (first_channel_selected c s)); psimpl; repeat split.
Qed.

(* ------------------------------------------------------------------ the advertising type in use *)
Definition ty_at (c : cfg) (k : nat) : option atype :=
  if is_multi c then nth_error (types_of c) k else Some (hd TUndirected (types_of c)).

Lemma sel_type_at c s : sel_type c s = ty_at c (selected s).
Proof. reflexivity. Qed.

(* the advertising buffer holds a PDU of the type in use, or directed advertising waits for its address *)
Definition j_ok (c : cfg) (s : state) : Prop :=
  (exists t, sel_type c s = Some t /\ buf_type s = pdu_code t) \/
  (sel_type c s = Some TDirected /\ d_valid s = false /\ d_started s = true).

Definition in_range (c : cfg) (s : state) : Prop :=
  is_multi c = true -> (selected s < length (types_of c))%nat /\ (proposal s < length (types_of c))%nat.

Lemma ty_at_some c k : (is_multi c = true -> (k < length (types_of c))%nat) -> exists t, ty_at c k = Some t.
Proof.
  unfold ty_at. destruct (is_multi c); intros H; [|eauto].
  destruct (nth_error (types_of c) k) eqn:E; eauto. apply nth_error_None in E. specialize (H eq_refl). lia.
Qed.

(* fill_advertising_data *)
Lemma fill_effect c s b s' :
  fill_advertising_data c s = (b, s') ->
  d_addr s' = d_addr s /\ d_valid s' = d_valid s /\ selected s' = selected s /\ proposal s' = proposal s /\
  (sel_type c s <> None -> j_ok c s') /\
  (b = true -> exists t, sel_type c s' = Some t /\ buf_type s' = pdu_code t).
Proof.
  unfold fill_advertising_data, j_ok. rewrite !sel_type_at.
  destruct (ty_at c (selected s)) as [[| | |]|] eqn:T; try destruct (d_valid s) eqn:V;
    intros H; inversion H; subst; psimpl; rewrite ?sel_type_at; psimpl; rewrite ?T;
    (repeat split; auto; try congruence; try discriminate);
    try (intros _; left; eexists; split; [reflexivity|reflexivity]);
    try (intros _; eexists; split; [reflexivity|reflexivity]).
  intros _. right. auto.
Qed.
