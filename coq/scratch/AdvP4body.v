
Ltac psimpl := cbn [ch_idx ch_map perturb ival_us ss_started ss_enabled ss_count d_addr d_valid d_started
  selected proposal data_changed buf_type set_idx set_ss set_perturb set_dstarted set_buf set_selected
  set_proposal set_changed set_daddr set_map set_ival fst snd negb andb orb].

(* ------------------------------------------------------------------ C25: frame *)
Definition same25 (s s' : state) : Prop :=
  d_addr s' = d_addr s /\ d_valid s' = d_valid s /\ d_started s' = d_started s /\
  selected s' = selected s /\ proposal s' = proposal s /\ buf_type s' = buf_type s.

Lemma same25_refl s : same25 s s. Proof. repeat split. Qed.
Lemma same25_trans a b c : same25 a b -> same25 b c -> same25 a c.
Proof. unfold same25. intuition congruence. Qed.

Lemma begin_same25 c s : same25 s (snd (begin_of_advertising_events c s)).
Proof.
  unfold begin_of_advertising_events, same25. destruct (c_manual c); [destruct (count_down _ _)|]; psimpl; repeat split.
Qed.
Lemma continued_same25 c s : same25 s (snd (continued_advertising_events c s)).
Proof.
  unfold continued_advertising_events, same25. destruct (c_manual c); [destruct (count_down _ _)|]; psimpl; repeat split.
Qed.
Lemma first_channel_same25 c s s' : first_channel c s = Some s' -> same25 s s'.
Proof.
  unfold first_channel, same25. destruct (c_varmap c); [destruct (ch_map s =? 0); [discriminate|]|];
    intros H; inversion H; subst; psimpl; repeat split.
Qed.
Lemma next_channel_same25 c s s' : next_channel c s = Some s' -> same25 s s'.
Proof.
  unfold next_channel, same25. destruct (c_varmap c); [destruct (ch_map s =? 0); [discriminate|]|];
    intros H; inversion H; subst; psimpl; repeat split.
Qed.
Lemma next_adv_event_same25 c s : same25 s (snd (next_adv_event c s)).
Proof.
  unfold next_adv_event, same25. destruct (negb (first_channel_selected c s)); psimpl; repeat split.
Qed.

(* ------------------------------------------------------------------ the advertising type in use *)
Definition ty_at (c : cfg) (k : nat) : option atype :=
  if is_multi c then nth_error (types_of c) k else Some (hd TUndirected (types_of c)).

Lemma sel_type_at c s : sel_type c s = ty_at c (selected s).
Proof. reflexivity. Qed.

(* the advertising buffer holds a PDU of the type in use, or directed advertising waits for its address *)
Definition j_ok (c : cfg) (s : state) : Prop :=
  (exists t, sel_type c s = Some t /\ buf_type s = pdu_code t) \/
  (sel_type c s = Some TDirected /\ d_valid s = false /\ d_started s = true).

Definition in_range (c : cfg) (s : state) : Prop :=
  is_multi c = true -> (selected s < length (types_of c))%nat /\ (proposal s < length (types_of c))%nat.

Lemma ty_at_some c k : (is_multi c = true -> (k < length (types_of c))%nat) -> exists t, ty_at c k = Some t.
Proof.
  unfold ty_at. destruct (is_multi c); intros H; [|eauto].
  destruct (nth_error (types_of c) k) eqn:E; eauto. apply nth_error_None in E. specialize (H eq_refl). lia.
Qed.

(* fill_advertising_data *)
Lemma fill_effect c s b s' :
  fill_advertising_data c s = (b, s') ->
  d_addr s' = d_addr s /\ d_valid s' = d_valid s /\ selected s' = selected s /\ proposal s' = proposal s /\
  (sel_type c s <> None -> j_ok c s') /\
  (b = true -> exists t, sel_type c s' = Some t /\ buf_type s' = pdu_code t).
Proof.
  unfold fill_advertising_data, j_ok. rewrite !sel_type_at.
  destruct (ty_at c (selected s)) as [[| | |]|] eqn:T; try destruct (d_valid s) eqn:V;
    intros H; inversion H; subst; psimpl; rewrite ?sel_type_at; psimpl; rewrite ?T;
    (repeat split; auto; try congruence; try discriminate);
    try (intros _; left; eexists; split; [reflexivity|reflexivity]);
    try (intros _; eexists; split; [reflexivity|reflexivity]).
Qed.

Definition sched_code_ok (c : cfg) (s' : state) (x : sched) : Prop :=
  match x with
  | NoSched => True
  | Sched _ _ code => exists t, sel_type c s' = Some t /\ code = pdu_code t
  end.

Lemma start_effect25 c s s' x :
  in_range c s -> handle_start_advertising c s = Some (s', x) ->
  d_addr s' = d_addr s /\ d_valid s' = d_valid s /\ proposal s' = proposal s /\
  selected s' = (if is_multi c then proposal s else selected s) /\
  j_ok c s' /\ sched_code_ok c s' x.
Proof.
  intros R. unfold handle_start_advertising.
  set (s1 := if is_multi c then set_selected s (proposal s) else s).
  assert (E1 : d_addr s1 = d_addr s /\ d_valid s1 = d_valid s /\ proposal s1 = proposal s /\
               selected s1 = (if is_multi c then proposal s else selected s)).
  { unfold s1. destruct (is_multi c); psimpl; auto. }
  assert (N1 : sel_type c s1 <> None).
  { rewrite sel_type_at. destruct E1 as (_ & _ & _ & ->).
    destruct (ty_at_some c (if is_multi c then proposal s else selected s)) as [t ->]; [|discriminate].
    intros M. rewrite M. apply R; auto. }
  destruct E1 as (A1 & A2 & A3 & A4).
  destruct (fill_advertising_data c s1) as [ne s2] eqn:F. apply fill_effect in F.
  destruct F as (F1 & F2 & F3 & F4 & F5 & F6). specialize (F5 N1).
  destruct ne; cbn [negb].
  2:{ intros H; inversion H; subst. cbn [sched_code_ok]. repeat split; auto; congruence. }
  specialize (F6 eq_refl).
  pose proof (begin_same25 c s2) as B. destruct (begin_of_advertising_events c s2) as [go s3]. cbn [snd] in B.
  assert (J3 : j_ok c s3 /\ exists t, sel_type c s3 = Some t /\ buf_type s3 = pdu_code t).
  { destruct B as (B1 & B2 & B3 & B4 & B5 & B6). unfold j_ok in *. rewrite !sel_type_at in *. rewrite B2, B3, B4, B6. auto. }
  destruct go; cbn [negb].
  2:{ intros H; inversion H; subst. destruct B as (B1 & B2 & B3 & B4 & B5 & B6). cbn [sched_code_ok].
      repeat split; try congruence. apply J3. }
  destruct (first_channel c s3) as [s4|] eqn:FC; [|discriminate].
  apply first_channel_same25 in FC. destruct (same25_trans _ _ _ B FC) as (C1 & C2 & C3 & C4 & C5 & C6).
  intros H; inversion H; subst. cbn [sched_code_ok].
  destruct F6 as (t & T1 & T2).
  assert (J4 : exists t, sel_type c s' = Some t /\ buf_type s' = pdu_code t).
  { exists t. rewrite sel_type_at in *. rewrite C4, C6. auto. }
  repeat split; try congruence.
  all: try (left; auto; fail).
  all: try (destruct J4 as (t' & U1 & U2); exists t'; auto; fail).
Qed.

Lemma timeout_effect25 c s s' x :
  in_range c s -> j_ok c s -> handle_adv_timeout c s = Some (s', x) ->
  d_addr s' = d_addr s /\ d_valid s' = d_valid s /\ proposal s' = proposal s /\
  selected s' = (if is_multi c then proposal s else selected s) /\
  j_ok c s' /\ sched_code_ok c s' x.
Proof.
  intros R J. unfold handle_adv_timeout.
  set (fs := if is_multi c then _ else _).
  assert (E1 : d_addr (snd fs) = d_addr s /\ d_valid (snd fs) = d_valid s /\ proposal (snd fs) = proposal s /\
               selected (snd fs) = (if is_multi c then proposal s else selected s) /\
               d_started (snd fs) = d_started s /\ buf_type (snd fs) = buf_type s /\
               (fst fs = false -> selected (snd fs) = selected s)).
  { unfold fs. destruct (is_multi c); [destruct (Nat.eqb (selected s) (proposal s)) eqn:Q|]; psimpl; repeat split; auto.
    - apply Nat.eqb_eq in Q. auto.
    - discriminate. }
  destruct fs as [fill s1]. cbn [fst snd] in E1. destruct E1 as (A1 & A2 & A3 & A4 & A5 & A6 & A7).
  assert (N1 : sel_type c s1 <> None).
  { rewrite sel_type_at, A4.
    destruct (ty_at_some c (if is_multi c then proposal s else selected s)) as [t ->]; [|discriminate].
    intros M. rewrite M. apply R; auto. }
  set (ns := if fill then _ else _).
  assert (E2 : d_addr (snd ns) = d_addr s1 /\ d_valid (snd ns) = d_valid s1 /\ selected (snd ns) = selected s1 /\
               proposal (snd ns) = proposal s1 /\ j_ok c (snd ns) /\
               (fst ns = true -> exists t, sel_type c (snd ns) = Some t /\ buf_type (snd ns) = pdu_code t)).
  { unfold ns. destruct fill.
    - destruct (fill_advertising_data c s1) as [b s2] eqn:F. apply fill_effect in F. cbn [fst snd].
      destruct F as (F1 & F2 & F3 & F4 & F5 & F6). repeat split; auto.
    - cbn [fst snd]. specialize (A7 eq_refl).
      assert (J1 : j_ok c s1).
      { unfold j_ok in *. rewrite !sel_type_at in *. rewrite A7, A2, A5, A6. auto. }
      repeat split; auto. unfold get_advertising_data. intros G.
      destruct J1 as [J1|(J1 & J2 & J3)]; auto. rewrite J1, J2 in G. discriminate. }
  destruct ns as [ne s2]. cbn [fst snd] in E2. destruct E2 as (F1 & F2 & F3 & F4 & F5 & F6).
  destruct ne; cbn [negb].
  2:{ intros H; inversion H; subst. cbn [sched_code_ok]. repeat split; auto; congruence. }
  specialize (F6 eq_refl).
  pose proof (continued_same25 c s2) as B. destruct (continued_advertising_events c s2) as [go s3]. cbn [snd] in B.
  assert (J3 : j_ok c s3 /\ exists t, sel_type c s3 = Some t /\ buf_type s3 = pdu_code t).
  { destruct B as (B1 & B2 & B3 & B4 & B5 & B6). unfold j_ok in *. rewrite !sel_type_at in *. rewrite B2, B3, B4, B6. auto. }
  destruct go; cbn [negb].
  2:{ intros H; inversion H; subst. destruct B as (B1 & B2 & B3 & B4 & B5 & B6). cbn [sched_code_ok].
      repeat split; try congruence. apply J3. }
  destruct (next_channel c s3) as [s4|] eqn:NC; [|discriminate].
  apply next_channel_same25 in NC.
  pose proof (next_adv_event_same25 c s4) as NA. destruct (next_adv_event c s4) as [d s5]. cbn [snd] in NA.
  destruct (same25_trans _ _ _ (same25_trans _ _ _ B NC) NA) as (C1 & C2 & C3 & C4 & C5 & C6).
  intros H; inversion H; subst. cbn [sched_code_ok].
  destruct F6 as (t & T1 & T2).
  assert (J4 : exists t, sel_type c s' = Some t /\ buf_type s' = pdu_code t).
  { exists t. rewrite sel_type_at in *. rewrite C4, C6. auto. }
  repeat split; try congruence.
  all: try (left; auto; fail).
  all: try (destruct J4 as (t' & U1 & U2); exists t'; auto; fail).
Qed.
