From Coq Require Import Lia ZifyBool.
From BT Require Import Base.ListX AttDb.AttDbModel AttDb.AttDbSpec.
Local Open Scope N_scope.
Definition extra (c : char_decl) : nat := N.to_nat (char_nattrs c - 2).
Lemma char_nattrs_extra c : char_nattrs c = 2 + N.of_nat (extra c).
Proof.
  unfold extra, char_nattrs, char_nccc, len.
  destruct (has_cccd c); destruct (is_some (c_name c)); cbv [b2n]. Show. 
Abort.
