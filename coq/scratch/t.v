From BT Require Import Base.ListX WhiteList.WhiteListModel WhiteList.WhiteListSpec WhiteList.WhiteListProofs.
Check hw_monitor_accepts. Check hw_refines_set. Check sw_radio_implements_set. Check ref_radio_implements_set. Check monitor_exact.
Print Assumptions hw_monitor_accepts. Print Assumptions sw_set_laws.
