From BT Require Import Base.ListX AttDb.AttDbModel AttSrv.AttSrvNotifExamples.
Local Open Scope N_scope.
Eval vm_compute in (find_notification_data cfg_p4_mtu100 2, find_notification_by_uuid cfg_p4_mtu100 (U16 10754), find_notification_data cfg_p4_mtu100 0, find_notification_data_by_index cfg_p4_mtu100 2, map ci_first (all_infos cfg_p4_mtu100)).
