From Coq Require Import Lia ZifyBool NArith List Bool.
From BT Require Import Base.ListX Base.Bits2 LL.LLModel LL.LLSpec LL.LLSpecC27 LL.LLSpecC22 LL.LLProofs LL.LLProofsC27Sim.
From BT Require LL.LLProofsC21 LL.LLProofsC28 LL.LLProofsC28Air LL.LLSpecC28.
From BT Require gen.GenLL.
Import ListNotations.
Local Open Scope N_scope.

(* ========================================================================================== no ITx outside the radio's part *)
Lemma notx_app a b : forallb notx (a ++ b) = forallb notx a && forallb notx b.
Proof. apply forallb_app. Qed.

Lemma hlc_notx c s body : forallb notx (snd (fst (handle_ll_control c s body))) = true.
Proof.
  unfold handle_ll_control. destruct (ctrl_kind c _ _ _); cbn [fst snd];
    try (unfold handle_cpr; destruct (negb (cpr_params_ok body)); [|destruct (c_cpr c); [| |destruct (_ && _ && _ && _)]]);
    repeat match goal with |- context [if ?b then _ else _] => destruct b end; reflexivity.
Qed.

Lemma hrd_notx c : forall fuel s, forallb notx (snd (fst (handle_received_data fuel c s))) = true.
Proof.
  induction fuel as [|fuel IH]; intros s; cbn [handle_received_data]; [reflexivity|].
  destruct (deferred s); [reflexivity|]. destruct (rxq (bf s)) as [|[llid body] rest]; [reflexivity|].
  destruct (llid =? _).
  - destruct (tx_buffer_available s); [|reflexivity].
    pose proof (hlc_notx c s body) as X. destruct (handle_ll_control c s body) as [[s1 it] r]. cbn [fst snd] in X.
    destruct r; [|exact X].
    specialize (IH (upd_bf s1 (fun b => set_rxq b rest))). destruct (handle_received_data fuel c _) as [[s3 it3] r3]. cbn [fst snd] in *.
    rewrite notx_app, X, IH. reflexivity.
  - destruct (_ && _); [|reflexivity]. destruct (if c_enc c then _ else _) as [|r]; [apply IH|].
    destruct (tx_buffer_available s); [apply IH|reflexivity].
Qed.

Lemma fd_notx c s : forallb notx (snd (force_disconnect c s)) = true.
Proof.
  unfold force_disconnect, reset_encryption, reset_phy. destruct (c_enc c); destruct (c_phy c); destruct (st _); reflexivity.
Qed.

Lemma pts_notx c s s' it : pending_then_setup c s = Some (s', it) -> forallb notx it = true.
Proof.
  unfold pending_then_setup. intros H.
  destruct (handle_pending_ll_control c s) as [[[s1 it1] res]|] eqn:E; cbn [obind] in H; [|discriminate].
  assert (N1 : forallb notx it1 = true).
  { unfold handle_pending_ll_control in E. destruct (deferred s); [|inversion E; reflexivity].
    destruct (_ =? _); [|inversion E; reflexivity]. destruct (_ =? GenLL.LL_CHANNEL_MAP_REQ).
    - destruct (ChanMapModel.reset_impl _ _ _). inversion E. reflexivity.
    - destruct (_ =? GenLL.LL_CONNECTION_UPDATE_IND); [|inversion E; reflexivity].
      destruct (parse_update l) as [t ok]. destruct ok as [[|]|]; inversion E; reflexivity. }
  destruct res.
  - destruct (setup_next_connection_event s1) as [[s2 it2]|] eqn:E2; cbn [obind] in H; [|discriminate].
    apply setup_next_frame in E2. destruct E2 as [_ (ch & ws & we & ->)]. inversion H. rewrite notx_app, N1. reflexivity.
  - pose proof (fd_notx c s1) as F. destruct (force_disconnect c s1) as [s2 it2]. inversion H. rewrite notx_app, N1. exact F.
Qed.

Lemma flush_notx s : forallb notx (snd (flush_events s)) = true.
Proof. cbn [flush_events snd]. induction (ring s); [reflexivity|exact IHl]. Qed.

Lemma continue_notx c s e s' it : end_event_continue c s e = Some (s', it) -> forallb notx it = true.
Proof.
  unfold end_event_continue, force_disconnect_reason. intros H. destruct (procedure_timed_out s).
  - inversion H. pose proof (fd_notx c (set_disc_reason s GenLL.connection_ll_response_timeout)) as F.
    destruct (force_disconnect c _) as [s5 it5]. inversion H1; subst. exact F.
  - assert (N6 : forall x, forallb notx (snd (transmit_pending_security_pdus c x)) = true).
    { intros x. unfold transmit_pending_security_pdus. destruct (_ && _ && _); [destruct (has_key _)|]; reflexivity. }
    match type of H with context [transmit_pending_security_pdus c ?X] => specialize (N6 X); destruct (transmit_pending_security_pdus c X) as [s6 it6] end.
    cbn [snd] in N6.
    destruct (plan_next_connection_event c s6 _) as [s7|]; cbn [obind] in H; [|discriminate].
    destruct (pending_then_setup c s7) as [[s8 it8]|] eqn:E8; cbn [obind] in H; [|discriminate].
    apply pts_notx in E8. inversion H. rewrite notx_app, N6, E8. reflexivity.
Qed.

Lemma end_event_notx c s e s' it : do_end_event c s e = Some (s', it) -> forallb notx it = true.
Proof.
  unfold do_end_event. intros H.
  destruct (end_event_body c (end_event_prologue c s) e) as [[s9 it9]|] eqn:E; cbn [obind] in H; [|discriminate].
  inversion H as [[Hq H0]]. clear H. rewrite notx_app.
  assert (FN : forall l, forallb notx (map ICb l) = true) by (induction l; [reflexivity|assumption]).
  rewrite FN, andb_true_r.
  unfold end_event_body in E. destruct (_ && _ && _).
  - inversion E. pose proof (fd_notx c (end_event_prologue c s)) as F. destruct (force_disconnect c _) as [sa ia]. inversion E; subst. exact F.
  - pose proof (hrd_notx c (S (length (rxq (bf (end_event_prologue c s))))) (end_event_prologue c s)) as X.
    destruct (handle_received_data _ c _) as [[s3 it3] res]. cbn [fst snd] in X. destruct res.
    + destruct (end_event_continue c (send_control_pdus s3) e) as [[s8 it8]|] eqn:E8; cbn [obind] in E; [|discriminate].
      apply continue_notx in E8. inversion E. rewrite notx_app, X, E8. reflexivity.
    + pose proof (fd_notx c s3) as F. destruct (force_disconnect c s3) as [s4 it4]. inversion E. rewrite notx_app, X. exact F.
Qed.

(* ========================================================================================== delivered PDUs *)
Lemma deliver_ok pdus : forallb pdu_ok27 pdus = true -> rx_ok (deliver pdus).
Proof.
  unfold deliver, rx_ok. induction pdus as [|[llid body] pdus IH]; intros H; [constructor|].
  cbn [forallb] in H. apply andb_prop in H. destruct H as [H1 H2]. cbn [map filter fst snd].
  destruct (negb (N.of_nat (length body) =? 0) && negb (N.land (N.land llid 3) 3 =? 0)) eqn:E; [|apply IH; exact H2].
  constructor; [|apply IH; exact H2]. cbn [fst snd].
  unfold pdu_ok27 in H1. cbn [fst snd] in H1. apply andb_prop in H1. destruct H1 as [Hb Hf].
  replace (N.land (N.land llid 3) 3) with (N.land llid 3) in E by (rewrite <- N.land_assoc; reflexivity).
  assert (L : N.land llid 3 < 4) by (change 3 with (N.ones 2); rewrite N.land_ones; apply N.mod_lt; discriminate).
  split; [|split].
  - destruct (N.of_nat (length body) =? 0) eqn:E0; [discriminate E|]. cbn [negb andb] in *. lia.
  - destruct body; [discriminate E|discriminate].
  - unfold bytes_ok. rewrite Forall_forall. rewrite forallb_forall in Hb. intros x Hx. specialize (Hb x Hx). lia.
Qed.

(* ========================================================================================== the coupling between operations *)
Definition own_ok (s : lstate_t) (m : mon27) : Prop :=
  m_cpr m = (if cpr_pending (pr s)
             then Some (prop_min (pr s) mod 65536, prop_max (pr s) mod 65536, prop_lat (pr s) mod 65536, prop_to (pr s) mod 65536)
             else None)
  /\ phy_pending (pr s) = false /\ m_phy m = None /\ ver_pending (pr s) = false /\ m_ver m = false /\ m_acpr m = None.

Definition Tight (c : cfg) (s : lstate_t) (m : mon27) : Prop :=
  m_conn m = true /\ m_stop m = false /\ PR c s m /\ own_ok s m
  /\ (st s = Connecting \/ st s = Connected)
  /\ Matches c (m_exp m) (ctrl (unaired s))
  /\ (m_ver_sent m = true -> nver (m_exp m) = 0%nat) /\ (nver (m_exp m) <= 1)%nat
  /\ (ver_received (pr s) = false -> nver (m_exp m) = 0%nat)
  /\ (st s = Connected -> tw_size (tm s) = 0 /\ m_t m = tsle (cs s))
  /\ (st s = Connecting -> proc_timeout s = 0)
  /\ disc_reason s = 8 /\ ring s = [] /\ enc_prog (sc s) = false.

Definition Loose (m : mon27) : Prop := m_conn m = false \/ m_stop m = true.

Definition G (c : cfg) (s : lstate_t) (m : mon27) : Prop :=
  m_txa m = txa s /\ LLProofsC21.Inv c s /\ exists m28, LLProofsC28.R c s m28 /\ LLProofsC28Air.TB c s m28.

Definition Sim (c : cfg) (s : lstate_t) (m : mon27) : Prop := G c s m /\ (Loose m \/ Tight c s m).

(* the window of a scheduled event is symmetric about the anchor when there is no transmit window *)
Lemma setup_next_mid s s' it :
  setup_next_connection_event s = Some (s', it) -> tw_size (tm s) = 0 ->
  exists ch ws we, it = [ICe ch ws we (interval (tm s))] /\ (ws + we) / 2 = tsle (cs s).
Proof.
  unfold setup_next_connection_event. intros H Z. rewrite Z in H. cbn [N.eqb negb] in H.
  destruct (dt_sub _ _) as [ws|] eqn:E1; cbn [obind] in H; [|discriminate].
  destruct (dt_add _ _) as [we|] eqn:E2; cbn [obind] in H; [|discriminate].
  apply dt_sub_exact in E1. apply dt_add_exact in E2. inversion H. do 3 eexists. split; [reflexivity|].
  destruct E1 as [E1 E1']. subst ws we. nlia.
Qed.

Lemma has_adv_app a b : has_adv (a ++ b) = has_adv a || has_adv b.
Proof. unfold has_adv. apply existsb_app. Qed.
Lemma has_adv_air l : has_adv (map LLProofsC28Air.air_item l) = false.
Proof. induction l; [reflexivity|exact IHl]. Qed.
Lemma has_adv_cbs l : has_adv (map ICb l) = false.
Proof. induction l; [reflexivity|exact IHl]. Qed.
Lemma fd_has_adv c s : has_adv (snd (force_disconnect c s)) = true.
Proof.
  unfold force_disconnect, reset_encryption, reset_phy. destruct (c_enc c); destruct (c_phy c); destruct (st _); reflexivity.
Qed.

Lemma process27_txa c : forall fuel m cbs acc, m_txa (fst (fst (process27 fuel c m cbs acc))) = m_txa m.
Proof.
  induction fuel as [|fuel IH]; intros m cbs acc; cbn [process27]; [reflexivity|].
  destruct (m_rx m) as [|[llid body] rest]; [reflexivity|].
  destruct (llid =? 3).
  - destruct (negb (m_txa m)); [reflexivity|].
    destruct (spec_kind _ _ _ _ _); try reflexivity; try (rewrite IH; reflexivity).
    + rewrite IH. destruct (_ <=? _); reflexivity.
    + rewrite IH. destruct (_ || _ || _); destruct (_ && _); reflexivity.
    + rewrite IH. destruct (_ || _ || _); destruct (_ && _); reflexivity.
    + rewrite IH. destruct (_ || _ || _); destruct (_ && _); reflexivity.
    + destruct (c_cpr c); try (rewrite IH; reflexivity).
      destruct cbs as [|[[[a b] l] t] cbs']; [rewrite IH; reflexivity|]. destruct (_ && _ && _ && _ && _); rewrite IH; reflexivity.
  - destruct (llid =? 2); [|rewrite IH; reflexivity].
    destruct (l2cap_reply body); [rewrite IH; reflexivity|]. destruct (m_txa m) eqn:ET; [rewrite IH; cbn; exact ET|cbn; exact ET].
Qed.

Lemma own_pdu_txa m e m' : own_pdu m = Some (e, m') -> m_txa m' = m_txa m.
Proof.
  unfold own_pdu. destruct (m_cpr m) as [[[[a b] l] t]|]; [intros H; inversion H; reflexivity|].
  destruct (m_phy m) as [[t r]|]; [intros H; inversion H; destruct (m_timer m =? 0); reflexivity|].
  destruct (m_ver m); [intros H; inversion H; reflexivity|].
  destruct (m_acpr m); intros H; inversion H; reflexivity.
Qed.
Lemma with_t_txa m it : m_txa (with_t m it) = m_txa m.
Proof. unfold with_t. destruct (last_ce it) as [[a b]|]; reflexivity. Qed.

Lemma mstep27_txa c m o r m' : mstep27 c m o r = (Ok, m') ->
  m_txa m' = match o, r with TxAvail b, OItems _ => b | _, _ => m_txa m end.
Proof.
  unfold mstep27. destruct r as [it| | |]; try (intros H; inversion H; destruct o; reflexivity).
  destruct o; try (intros H; inversion H; reflexivity);
    try (destruct (negb (m_conn m)); [intros H; inversion H; reflexivity|];
         destruct (m_stop m); [intros H; inversion H; destruct (has_adv it); reflexivity|]);
    try (intros H; inversion H; reflexivity).
  - (* Adv *) destruct (existsb _ it); intros H; inversion H; [rewrite with_t_txa|]; reflexivity.
  - (* Ev *)
    destruct (judge_air c (m_exp m) (tx3 it) (m_ver_sent m)) as [[t|] vs]; [discriminate|].
    match goal with |- context [process27 ?f c ?M ?cb ?ac] => pose proof (process27_txa c f M cb ac) as PT; destruct (process27 f c M cb ac) as [[m2 due] res] end.
    cbn [fst] in PT. cbn [m_txa set_m_ver_sent set_m_exp set_m_rx] in PT.
    destruct res.
    + destruct (has_adv it).
      * destruct (_ && _); [intros H; inversion H; exact PT|]. destruct (has_closed it 34); [discriminate|intros H; inversion H; exact PT].
      * destruct (_ && _); [discriminate|].
        set (m3 := if m_timer m2 =? 0 then m2 else set_m_timer m2 (m_timer m2 - m_t m2)).
        assert (T3 : m_txa m3 = m_txa m2) by (subst m3; destruct (_ =? 0); reflexivity).
        destruct (m_txa m3) eqn:E3.
        -- destruct (own_pdu m3) as [[e m4]|] eqn:EO; intros H; inversion H; rewrite with_t_txa; cbn [m_txa set_m_exp];
             [rewrite (own_pdu_txa _ _ _ EO)|]; congruence.
        -- intros H; inversion H. rewrite with_t_txa. cbn [m_txa set_m_exp]. congruence.
    + intros H; inversion H. destruct (has_adv it); exact PT.
    + intros H; inversion H. exact PT.
  - (* Timeout *) destruct (has_adv it).
    + destruct (_ && _); [discriminate|intros H; inversion H; reflexivity].
    + destruct (_ && _); [discriminate|intros H; inversion H; apply with_t_txa].
  - (* Cpu *) destruct it as [|[] [|? ?]]; try (intros H; inversion H; reflexivity); try (match goal with x : bool |- _ => destruct x end; intros H; inversion H; reflexivity).
  - (* Cpr *) destruct it as [|[] [|? ?]]; try (intros H; inversion H; reflexivity); try (match goal with x : bool |- _ => destruct x end; intros H; inversion H; reflexivity).
  - (* PhyReq *) destruct it as [|[] [|? ?]]; try (intros H; inversion H; reflexivity); try (match goal with x : bool |- _ => destruct x end; intros H; inversion H; reflexivity).
  - (* VerReq *) destruct it as [|[] [|? ?]]; try (intros H; inversion H; reflexivity); try (match goal with x : bool |- _ => destruct x end; intros H; inversion H; reflexivity).
Qed.

Lemma op_ok27_21 o : op_ok27 o = true -> LLProofsC21.op_ok o.
Proof.
  destruct o; try exact (fun _ => I). intros H. unfold LLProofsC21.op_ok, LLProofsC21.pdus_ok. cbn [op_ok27] in H.
  apply Forall_forall. rewrite forallb_forall in H.
  intros p Hp. specialize (H p Hp). unfold pdu_ok27 in H. apply andb_prop in H. destruct H as [H _].
  unfold bytes_ok. apply Forall_forall. rewrite forallb_forall in H. intros x Hx. specialize (H x Hx). lia.
Qed.

Lemma G_step c s m o s' r m' :
  G c s m -> op_ok27 o = true -> lstep c s o = (s', r) -> r <> OCrash -> mstep27 c m o r = (Ok, m') -> G c s' m'.
Proof.
  intros (G1 & G2 & m28 & G3 & G4) Ho Hs Hr Hm.
  destruct (LLProofsC28Air.step_air c s m28 o s' r G3 G4 Hs Hr) as (m28' & _ & R' & T').
  split; [|split].
  - rewrite (mstep27_txa c m o r m' Hm).
    assert (W : wfb_conn s) by (intros I; destruct (G4 I) as [W _]; exact W).
    pose proof (lstep_txa c s o W) as X. rewrite Hs in X. cbn [fst] in X. rewrite X.
    destruct o; try exact G1. cbn [lstep] in Hs. inversion Hs. reflexivity.
  - pose proof (LLProofsC21.lstep_inv c s o G2 (op_ok27_21 o Ho)) as X. rewrite Hs in X. exact X.
  - exists m28'. split; assumption.
Qed.

Lemma Loose_step c m o r : Loose m -> r <> OCrash ->
  (forall it, r = OItems it -> match o with Adv _ _ => existsb (fun i => match i with ICe _ _ _ _ => true | _ => false end) it = false | _ => True end) ->
  exists m', mstep27 c m o r = (Ok, m') /\ Loose m'.
Proof.
  intros L Hr Hadv. unfold mstep27. destruct r as [it| | |]; [|exists m; auto|exists m; auto|congruence].
  specialize (Hadv it eq_refl).
  destruct o; try (eexists; split; [reflexivity|exact L]);
    try (destruct L as [L|L]; [rewrite L; cbn [negb]; eexists; split; [reflexivity|left; exact L]
                              | destruct (negb (m_conn m)) eqn:EC; [eexists; split; [reflexivity|right; exact L]|];
                                rewrite L; eexists; split; [reflexivity|]; destruct (has_adv it); [left; reflexivity|right; exact L]]).
  rewrite Hadv. eexists; split; [reflexivity|exact L].
Qed.

(* ========================================================================================== a new connection *)
Definition isce (i : item) : bool := match i with ICe _ _ _ _ => true | _ => false end.

Lemma adv_tight c s m hdr0 body s' it :
  G c s m -> st s = Advertising -> do_adv_received c s hdr0 body = Some (s', it) ->
  (existsb isce it = false) \/ (existsb isce it = true /\ Tight c s' (with_t (new_connection27 c m) it)).
Proof.
  intros (G1 & G2 & m28 & G3 & G4) Hst H. unfold do_adv_received in H.
  destruct (valid_connect_request c hdr0 body); [|inversion H; left; reflexivity].
  destruct (ChanMapModel.reset_impl _ _ _) as [ch r]. destruct r as [[|]| | | |]; try discriminate; [|inversion H; left; reflexivity].
  destruct (parse_connect body) as [t ok]. destruct ok as [[|]|]; try discriminate; [|inversion H; left; reflexivity].
  match type of H with (do r11 <- setup_next_connection_event ?X; _) = _ => set (s10 := X) in *; destruct (setup_next_connection_event s10) as [[s11 it11]|] eqn:E end;
    cbn [obind] in H; [|discriminate].
  apply setup_next_frame in E. destruct E as [E11 (chn & ws & we & Eit)].
  set (s12 := upd_sc s11 (fun x => set_is_enc x false)) in *.
  destruct (push_event_form c s12 (EvRequested (details_of s12))) as [rr Er]. rewrite Er in H.
  cbn [flush_events] in H. inversion H as [[Hs' Hit]]. clear H.
  right. rewrite Eit. split; [reflexivity|].
  assert (NI : in_connection s = false) by (unfold in_connection; rewrite Hst; reflexivity).
  destruct G2 as (_ & D & _). specialize (D NI).
  destruct G3 as (_ & _ & _ & _ & SO & _). destruct (SO NI) as [(_ & EP & _) _].
  unfold Tight, PR, own_ok, with_t.
  assert (LC : last_ce (IAa (rd32 body 12) (rd24 body 16) :: [ICe chn ws we (interval (tm s10))] ++ map ICb rr) = Some (ws, we)).
  { apply (last_ce_pick [IAa (rd32 body 12) (rd24 body 16)] chn ws we (interval (tm s10)) (map ICb rr)).
    clear. induction rr; [reflexivity|assumption]. }
  cbn [ring set_ring] in *. rewrite LC.
  subst s12 s11 s10. unfold txa in *. unfold WFb, rx_ok, unaired.
  cbn -[N.div]. rewrite D, EP, G1.
  repeat split; try reflexivity; try discriminate; try constructor; auto; try (intros F; discriminate F).
Qed.

(* ========================================================================================== a connection event *)
Lemma prologue_form c s : st s = Connecting \/ st s = Connected ->
  exists rr, end_event_prologue c s = set_ring (upd_tm (set_st (set_pending_event s false) Connected) (fun t => set_tw_size t 0)) rr
             /\ (st s = Connected -> rr = ring s).
Proof.
  intros [H|H]; unfold end_event_prologue; cbn [st set_pending_event]; rewrite H.
  - destruct (push_event_form c (set_pending_event s false) (EvEstablished (details_of (set_pending_event s false)))) as [rr ->].
    exists rr. split; [change (st (set_ring (set_pending_event s false) rr)) with (st s); rewrite H; reflexivity|congruence].
  - exists (ring s). split; [|reflexivity]. change (st (set_pending_event s false)) with (st s). rewrite H. cbn [lstate_eqb]. destruct s; reflexivity.
Qed.

Lemma in_conn_of s : st s = Connecting \/ st s = Connected -> in_connection s = true.
Proof. unfold in_connection. intros [-> | ->]; reflexivity. Qed.

Section Ev.
Variable c : cfg.
Hypothesis Hc : cfg_ok27 c = true.

Lemma ev_tight s m e pdus s' it :
  G c s m -> Tight c s m -> forallb pdu_ok27 pdus = true ->
  lstep c s (Ev e pdus) = (s', OItems it) ->
  exists m', mstep27 c m (Ev e pdus) (OItems it) = (Ok, m') /\ (Loose m' \/ Tight c s' m').
Proof.
  intros HG (T1 & T2 & HPR & HO & Tst & TM & TV1 & TV2 & TV3 & TT & TC & TD & TR & TE) Hpd H.
  pose proof HPR as (P1 & P2 & P3 & P4 & P5 & P6 & P7 & P8 & P9 & P10 & P11 & P12).
  cbn [lstep] in H. rewrite (in_conn_of s Tst) in H.
  destruct (existsb (fun p : N * list N => 27 <? N.of_nat (length (snd p))) pdus); [discriminate|].
  destruct (radio_event _ s pdus) as [s1 it1] eqn:E1.
  destruct (do_end_event c s1 e) as [[s2 it2]|] eqn:E2; [|discriminate]. inversion H; subst s2 it; clear H.
  assert (Hf : (length pdus + length (unaired s) < S (length pdus + length (txq (bf s))))%nat)
    by (pose proof (LLProofsC28Air.unaired_le_txq s); lia).
  destruct (LLProofsC28Air.radio_event_air _ s pdus s1 it1 Hf P11 E1) as (A1 & A2 & A3 & A4 & A5 & A6 & A7).
  destruct (radio_event_rx _ s pdus s1 it1 Hf P11 E1) as (b1 & Eb1 & Rb1).
  pose proof (end_event_notx c s1 e s' it2 E2) as NX.
  unfold mstep27. rewrite T1, T2. cbn [negb].
  rewrite tx3_app, (tx3_notx it2 NX), app_nil_r.
  replace (tx3 it1) with (ctrl (unaired s)) by (rewrite A1; symmetry; apply tx3_air).
  rewrite (judge_air_ok c (m_exp m) (ctrl (unaired s)) (m_ver_sent m) TM TV1 TV2).
  set (vs := m_ver_sent m || negb (Nat.eqb (nver (m_exp m)) 0)).
  fold (deliver pdus).
  set (m1 := set_m_ver_sent (set_m_exp (set_m_rx m (m_rx m ++ deliver pdus)) []) vs).
  (* the model's end_event *)
  assert (Tst1 : st s1 = Connecting \/ st s1 = Connected) by (rewrite A5; exact Tst).
  destruct (prologue_form c s1 Tst1) as (rr & Esp & Err).
  unfold do_end_event in E2. rewrite Esp in E2.
  set (sp := set_ring (upd_tm (set_st (set_pending_event s1 false) Connected) (fun t => set_tw_size t 0)) rr) in *.
  destruct (end_event_body c sp e) as [[s9 it9]|] eqn:EB; cbn [obind] in E2; [|discriminate].
  unfold end_event_body in EB. change (st sp) with Connected in EB. cbn [lstate_eqb andb] in EB.
  assert (HPR1 : PR c sp m1).
  { unfold PR. subst sp m1. rewrite Eb1. unfold txa, WFb in *. rewrite Eb1 in A3, A7. 
    cbn [m_rx m_txa m_ver_rcv m_ver_sent m_used m_timer m_owner set_m_ver_sent set_m_exp set_m_rx
         bf set_bf set_ring upd_tm set_tm set_st set_pending_event pr used_features proc_timeout deferred st lstate_eqb rxq stopped tx_avail] in *.
    rewrite Rb1, P1. repeat split; try assumption; try reflexivity; try congruence.
    - intros F. subst vs. rewrite (P4 F), (TV3 F). reflexivity.
    - rewrite Eb1 in A6. cbn [bf set_bf] in A6. congruence.
    - apply Forall_app. split; [exact P12|apply deliver_ok; exact Hpd]. }
  destruct (handle_received_data (S (length (rxq (bf sp)))) c sp) as [[s3 it3] res] eqn:E3.
  assert (Elen : length (rxq (bf sp)) = length (m_rx m ++ deliver pdus)).
  { subst sp. rewrite Eb1. cbn [bf set_bf set_ring upd_tm set_tm set_st set_pending_event]. rewrite Rb1, P1. reflexivity. }
  rewrite <- Elen.
  destruct (process27 (S (length (rxq (bf sp)))) c m1 (cpr_callbacks (it1 ++ it2)) []) as [[m2 due] p] eqn:EP.
  pose proof (process_sim c Hc _ sp m1 _ [] s3 it3 res m2 due p HPR1 E3 EP) as HPost.
  destruct p.
  - (* PGo *) admit.
  - (* PStop *) eexists. split; [reflexivity|]. left. destruct (has_adv _); [left; reflexivity|right; reflexivity].
  - (* PClosed *) eexists. split; [reflexivity|]. left. left. reflexivity.
Admitted.
End Ev.
