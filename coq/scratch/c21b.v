From Coq Require Import NArith List Bool Lia ZifyBool.
From BT Require Import Base.ListX LL.LLModel LL.LLSpec LL.LLSpecC21.
From BT Require gen.GenLL ChanMap.ChanMapModel.
Import ListNotations.
Local Open Scope N_scope.

Ltac nlia := zify; Z.to_euclidean_division_equations; lia.

(* ========================================================================================== frames *)
Definition keep (s s' : lstate_t) : Prop :=
  st s' = st s /\ cs s' = cs s /\ deferred s' = deferred s /\ def_instant s' = def_instant s /\ tm s' = tm s /\ chan s' = chan s.
Ltac kp := unfold keep; repeat split; reflexivity.

Lemma keep_refl s : keep s s. Proof. kp. Qed.
Lemma keep_trans a b d : keep a b -> keep b d -> keep a d.
Proof. unfold keep. intros (A1 & A2 & A3 & A4 & A5 & A6) (B1 & B2 & B3 & B4 & B5 & B6). repeat split; congruence. Qed.

Lemma keep_push_event c s e : keep s (push_event c s e).
Proof. unfold push_event. destruct (c_cb c); [destruct (_ <? _)|]; kp. Qed.
Lemma keep_commit s p : keep s (commit s p).
Proof. unfold commit. destruct (stopped (bf s)); kp. Qed.
Lemma keep_commit_ctrl s b : keep s (commit_ctrl s b).
Proof. apply keep_commit. Qed.
Lemma keep_clear_cpr s : keep s (clear_cpr_feature s). Proof. kp. Qed.
Lemma keep_handle_reject c s o b : keep s (handle_reject c s o b).
Proof.
  unfold handle_reject.
  destruct (negb (o =? GenLL.LL_UNKNOWN_RSP));
    (eapply keep_trans; [|apply keep_push_event]);
    destruct (negb _ || _); try kp;
    destruct (cpr_running _ && _); destruct (o =? GenLL.LL_UNKNOWN_RSP); kp.
Qed.
Lemma keep_encryption_changed c s b : keep s (encryption_changed c s b).
Proof. unfold encryption_changed. destruct b; [apply keep_push_event|apply keep_refl]. Qed.

(* ========================================================================================== a received control PDU *)
Lemma hlc_cases c s body :
  let r := handle_ll_control c s body in
  let s' := fst (fst r) in
  st s' = st s /\ cs s' = cs s /\ tm s' = tm s /\ chan s' = chan s /\
  ( (deferred s' = deferred s /\ def_instant s' = def_instant s)
    \/ snd r = DoDisconnect
    \/ (snd r = GoAhead /\ deferred s' = Some body /\ instant_passed (def_instant s') (evc (cs s)) = false
        /\ exists i, def_instant s' = rd16 body i)).
Proof.
  unfold handle_ll_control.
  set (opcode := if 0 <? N.of_nat (length body) then byte body 0 else 255).
  destruct (ctrl_kind c (ver_received (pr s)) opcode (N.of_nat (length body))); cbn zeta.
  - (* KUpdate *) unfold instant_passed_update. destruct (instant_passed _ _) eqn:E; cbn [fst snd].
    + repeat split; auto.
    + repeat split; try reflexivity. right. right. repeat split; try reflexivity. exact E. eexists; reflexivity.
  - (* KTerminate *) cbn [fst snd]. repeat split; auto.
  - (* KVersion *) cbn [fst snd].
    assert (K : keep s (commit_ctrl (upd_pr (push_event c (if byte body 1 <=? GenLL.LL_VERSION_40 then clear_cpr_feature (set_proc_timeout s 0) else set_proc_timeout s 0)
                (EvVersion (byte body 1) (rd16 body 2) (rd16 body 4))) (fun p => set_ver_received p true)) version_ind_pdu)).
    { eapply keep_trans; [|apply keep_commit_ctrl]. eapply keep_trans; [|kp]. eapply keep_trans; [|apply keep_push_event].
      destruct (_ <=? _); kp. }
    destruct K as (K1 & K2 & K3 & K4 & K5 & K6). repeat split; auto.
  - (* KChannelMap *) unfold instant_passed_map. destruct (instant_passed _ _) eqn:E; cbn [fst snd].
    + repeat split; auto.
    + repeat split; try reflexivity. right. right. repeat split; try reflexivity. exact E. eexists; reflexivity.
  - (* KPing *) cbn [fst snd]. destruct (keep_commit_ctrl s [GenLL.LL_PING_RSP]) as (K1 & K2 & K3 & K4 & K5 & K6). repeat split; auto.
  - (* KFeature *) cbn [fst snd].
    match goal with |- context [commit_ctrl ?x ?y] => assert (K : keep s (commit_ctrl x y)) end.
    { eapply keep_trans; [|apply keep_commit_ctrl]. eapply keep_trans; [|apply keep_push_event]. kp. }
    destruct K as (K1 & K2 & K3 & K4 & K5 & K6). repeat split; auto.
  - cbn [fst snd]. destruct (keep_handle_reject c s opcode body) as (K1 & K2 & K3 & K4 & K5 & K6). repeat split; auto.
  - cbn [fst snd]. destruct (keep_handle_reject c s opcode body) as (K1 & K2 & K3 & K4 & K5 & K6). repeat split; auto.
  - cbn [fst snd]. destruct (keep_handle_reject c s opcode body) as (K1 & K2 & K3 & K4 & K5 & K6). repeat split; auto.
  - (* KCpr *) destruct (handle_cpr c s body) as [rsp it]. cbn [fst snd].
    destruct rsp as [r0|]; [destruct (keep_commit_ctrl s r0) as (K1 & K2 & K3 & K4 & K5 & K6)|]; repeat split; auto.
  - (* KEncReq *) cbn [fst snd].
    match goal with |- context [commit_ctrl ?x ?y] => assert (K : keep s (commit_ctrl x y)) end.
    { eapply keep_trans; [|apply keep_commit_ctrl]. kp. }
    destruct K as (K1 & K2 & K3 & K4 & K5 & K6). repeat split; auto.
  - (* KStartEncRsp *)
    destruct (has_key (sc s) && negb (enc_prog (sc s))); cbn [fst snd];
    match goal with |- context [commit_ctrl ?x ?y] => assert (K : keep s (commit_ctrl x y)) end.
    { eapply keep_trans; [|apply keep_commit_ctrl]. eapply keep_trans; [|apply keep_encryption_changed]. kp. }
    { destruct K as (K1 & K2 & K3 & K4 & K5 & K6). repeat split; auto. }
    { apply keep_commit_ctrl. }
    { destruct K as (K1 & K2 & K3 & K4 & K5 & K6). repeat split; auto. }
  - (* KPauseEncReq *) cbn [fst snd].
    match goal with |- context [commit_ctrl ?x ?y] => assert (K : keep s (commit_ctrl x y)) end.
    { eapply keep_trans; [|apply keep_commit_ctrl]. eapply keep_trans; [|apply keep_encryption_changed]. kp. }
    destruct K as (K1 & K2 & K3 & K4 & K5 & K6). repeat split; auto.
  - (* KPauseEncRsp *) cbn [fst snd].
    match goal with |- context [encryption_changed c ?x ?y] => assert (K : keep s (encryption_changed c x y)) end.
    { eapply keep_trans; [|apply keep_encryption_changed]. kp. }
    destruct K as (K1 & K2 & K3 & K4 & K5 & K6). repeat split; auto.
  - (* KPhyReq *) cbn [fst snd].
    match goal with |- context [commit_ctrl ?x ?y] => destruct (keep_commit_ctrl x y) as (K1 & K2 & K3 & K4 & K5 & K6) end. repeat split; auto.
  - (* KPhyUpdate *)
    destruct (valid_phy_encoding _ && _).
    + destruct ((byte body 1 =? 0) && _).
      * cbn [fst snd]. destruct (keep_push_event c s (EvPhy 0 0)) as (K1 & K2 & K3 & K4 & K5 & K6). repeat split; auto.
      * destruct (instant_passed _ _) eqn:E; cbn [fst snd].
        -- repeat split; auto.
        -- repeat split; try reflexivity. right. right. repeat split; try reflexivity. exact E. eexists; reflexivity.
    + cbn [fst snd].
      match goal with |- context [commit_ctrl ?x ?y] => destruct (keep_commit_ctrl x y) as (K1 & K2 & K3 & K4 & K5 & K6) end. repeat split; auto.
  - (* KUnknown *) cbn [fst snd].
    match goal with |- context [commit_ctrl ?x ?y] => destruct (keep_commit_ctrl x y) as (K1 & K2 & K3 & K4 & K5 & K6) end. repeat split; auto.
  - (* KIgnore *) cbn [fst snd]. repeat split; auto.
Qed.
