From Coq Require Import Lia ZifyBool.
From BT Require Import Base.ListX AttDb.AttDbModel NQueue.NQueueModel AttSrv.AttSrvModel AttSrv.AttSrvSpecC01 AttSrv.AttSrvProofsC01.
Local Open Scope N_scope.
Lemma good_rsp op out_size b m x t b0 :
  put b0 0 (x :: t) = Some b -> x = op + 1 -> 1 <= m -> m <= out_size -> good op out_size (b, m).
Proof. intros H Hx H1 H2. split; [exact H2|]. left. split; [exact H1|]. cbn [fst]. rewrite (put_zero _ _ _ _ H). exact Hx. Qed.
Lemma read_common_good c st cid pdu b out_size rsp h index off op st' r :
  23 <= out_size -> rd pdu 0 = Some op -> rsp = op + 1 ->
  handle_read_common c st cid pdu b out_size rsp h index off = Some (st', r) -> good op out_size r.
Proof.
  intros Ho Hop Hr. unfold handle_read_common. rewrite Hop. intros H. mon.
  apply access_read_len in E0.
  destruct a0; mon.
  - eapply good_rsp; eauto. Show.
Abort.
