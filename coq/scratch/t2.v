From BT Require Import Base.ListX Base.Bits2 PduBuf.PduBufModel.
Local Open Scope N_scope.
Definition f2 hl len := Bool.eqb (N.land (hl + 256 * len) 65280 =? 0) (len =? 0).
Lemma len_sweep_true : forallb (fun hl => forallb (f2 hl) (Nrange 256)) (Nrange 256) = true.
Proof. vm_compute. reflexivity. Time Qed.
Lemma len_sweep_spec hl len : hl < 256 -> len < 256 -> f2 hl len = true.
Proof.
  intros H L. pose proof len_sweep_true as S. 
  rewrite forallb_forall in S. 
  pose proof (S hl (In_Nrange 256 hl H)) as S1. 
  rewrite forallb_forall in S1. 
  exact (S1 len (In_Nrange 256 _ L)).
Time Qed.
