
(* ------------------------------------------------------------------ every step *)
Lemma bytes_eqb_refl a : bytes_eqb a a = true.
Proof. induction a; simpl; auto. rewrite N.eqb_refl. auto. Qed.

Lemma final_ok ls m : Forall2 lrel ls m -> levels_eqb (map lbytes ls) (map abs_bytes m) = true.
Proof.
  intros F. induction F; simpl; auto. rewrite (lr_bytes _ _ H), bytes_eqb_refl. auto.
Qed.

Lemma sstep_ok s m o : srel s m -> step_ok (fst (sstep s o)) (smstep m o (snd (sstep s o))).
Proof.
  intros R. pose proof R as [F Q1 Q2 P C].
  destruct o as [k i|c| | |].
  - simpl. mk_srel; auto.
    + rewrite Q1. reflexivity.
    + unfold pinv in *. simpl. destruct (pst s); auto.
      * destruct P as (gi & rest & lv & i0 & d & Hp & H). exists gi, (rest ++ [(k, i)]), lv, i0, d.
        rewrite Hp. split; auto.
      * destruct P as (gi & rest & lv & i0 & d & Hp & H). exists gi, (rest ++ [(k, i)]), lv, i0, d.
        rewrite Hp. split; auto.
  - simpl. mk_srel; auto.
    + rewrite Q2. reflexivity.
    + assert (D : deq_head s -> deq_head (mks (mem s) (outst s) (pprog s) (pst s) (cprog s ++ [c]) (cst s))).
      { intros [rest D]. exists (rest ++ [c]). simpl. rewrite D. reflexivity. }
      destruct (cst s); simpl in *; auto.
      * destruct C as (C1 & C2). split; auto.
      * destruct C as (C1 & C2). split; auto.
      * destruct C as (C1 & C2). split; auto.
      * destruct C as (C1 & C2). split; auto.
      * destruct C as (C1 & C2). split; auto.
  - (* producer *)
    destruct (pst s) eqn:Es; [destruct (pprog s) eqn:Ep|..].
    + unfold sstep. rewrite Es, Ep. simpl. rewrite Q1; try rewrite Ep. exact R.
    + pose proof (p_step_ok s m R) as H. unfold sstep. rewrite Es, Ep in *.
      destruct (p_micro (mem s) (p :: l) PIdle) as [[[ls p'] ac] r]. simpl. apply H. right. congruence.
    + pose proof (p_step_ok s m R) as H. unfold sstep. rewrite Es in *.
      destruct (p_micro (mem s) (pprog s) (PLoad2 a p k r)) as [[[ls p'] ac] r']. simpl. apply H. left. congruence.
    + pose proof (p_step_ok s m R) as H. unfold sstep. rewrite Es in *.
      destruct (p_micro (mem s) (pprog s) (PStore a p k r v)) as [[[ls p'] ac] r']. simpl. apply H. left. congruence.
  - (* consumer *)
    assert (G : forall c, cinv s m c -> c <> CIdle ->
                step_ok (fst (c_apply s c)) (smstep m StepC (snd (c_apply s c)))).
    { intros c Hc Hn. pose proof (c_step_ok s m c R Hc Hn) as H. destruct (c_apply s c). exact H. }
    unfold sstep. destruct (cst s) eqn:Es; try (apply G; [first [exact C|rewrite <- Es; exact C]|congruence]).
    destruct (cprog s) as [|[|] t] eqn:Ep.
    + simpl. rewrite Q2; try rewrite Ep. exact R.
    + destruct (enter (mem s) 0 0) as [c|] eqn:En.
      * apply G.
        -- apply (enter_inv s m 0 0); auto. exists t. auto.
        -- unfold enter in En. destruct (nth_error (mem s) 0) as [[? ? ?|?]|]; inversion En; congruence.
      * simpl. rewrite Q2; try rewrite Ep. mk_srel; auto; try exact P.
    + simpl. rewrite Q2; try rewrite Ep. mk_srel; auto; try exact P.
  - simpl. rewrite (final_ok _ _ F). exact R.
Qed.

Lemma nth_repeat0 n j : nth j (repeat 0%N n) 0%N = 0%N.
Proof. revert j. induction n; intros [|j]; simpl; auto. Qed.

Lemma init_level_rel s : 1 <= s -> lrel (init_level s) (repeat 0%N s).
Proof.
  intros H. unfold init_level. destruct (s =? 1) eqn:E.
  - apply Nat.eqb_eq in E. subst s. constructor; simpl; auto.
    intros [|[|j]]; simpl; lia.
  - apply Nat.eqb_neq in E. constructor; simpl; auto; try lia.
    + apply repeat_length.
    + intros j. rewrite nth_repeat0. lia.
    + apply nth_ext_len with (d := 0%N).
      * rewrite repeat_length, abs_bytes_length, repeat_length. reflexivity.
      * intros b Hb. rewrite repeat_length in Hb. rewrite repeat_nth by auto.
        rewrite nth_abs_bytes by (rewrite repeat_length; auto).
        unfold pack4. rewrite !nth_repeat0. reflexivity.
Qed.

Lemma init_srel sizes : wf_sizes sizes -> srel (sinit sizes) (sminit sizes).
Proof.
  intros W. constructor; simpl; auto.
  - induction W; simpl; constructor; auto using init_level_rel.
  - reflexivity.
Qed.

Lemma monitor_from_overlap_only : forall ops s m pos,
  srel s m ->
  match smonitor_from m pos (srun s ops) with None => True | Some (_, t) => 10 < t end.
Proof.
  induction ops as [|o ops IH]; intros s m pos R; simpl; auto.
  pose proof (sstep_ok s m o R) as H.
  destruct (sstep s o) as [s' r]. simpl in *.
  destruct (smstep m o r) as [[|t] m']; simpl in H.
  - apply IH. exact H.
  - exact H.
Qed.

(* ------------------------------------------------------------------ windows *)
Lemma tagw_small t d : t <= 10 -> 10 < tagw t d -> d = true.
Proof. destruct d; simpl; auto. lia. Qed.

Lemma smstep_wstep m o r :
  match smstep m o r with
  | (SOk, m') => (pwin m', cwin m') = fst (wstep (pwin m, cwin m) o r)
  | (SBad t, _) => 10 < t -> snd (wstep (pwin m, cwin m) o r) = true
  end.
Proof.
  destruct m as [p pq cq pw cw].
  destruct o; destruct r; simpl; try (unfold t_sshape; lia); try reflexivity.
  - destruct pq; simpl; [reflexivity|unfold t_sshape; lia].
  - destruct pq as [|[k gi] rest]; simpl; [unfold t_sshape; lia|].
    destruct ac as [|a v|a v]; destruct r as [|b|e|]; simpl; try (unfold t_sshape; lia); try reflexivity.
    + destruct b; simpl; [unfold t_sshape; lia|].
      destruct (locate _ 0 gi); simpl; [unfold t_sshape; lia|reflexivity].
    + destruct (locate _ 0 gi) as [[lv i]|]; simpl; [|unfold t_sshape; lia].
      destruct (negb _); simpl; [apply tagw_small; unfold t_ret; lia|].
      unfold chk_store. destruct (_ =? _)%N; simpl; [reflexivity|].
      apply tagw_small. destruct (_ =? _)%N; unfold t_dup, t_lost; lia.
  - destruct cq; simpl; [reflexivity|unfold t_sshape; lia].
  - destruct cq as [|[|] rest]; simpl; [unfold t_sshape; lia| |].
    + destruct ac as [|a v|a v]; destruct r as [|b|[[k gi]|]|]; simpl; try (unfold t_sshape; lia); try reflexivity.
      destruct (locate _ 0 gi) as [[lv i]|]; simpl; [|unfold t_sshape; lia].
      destruct (negb _); simpl; [apply tagw_small; unfold t_deq; lia|].
      unfold chk_store. destruct (_ =? _)%N; simpl; [reflexivity|].
      apply tagw_small. destruct (_ =? _)%N; unfold t_dup, t_lost; lia.
    + destruct ac as [|a v|a v]; destruct r as [|b|[[k gi]|]|]; simpl; try (unfold t_sshape; lia); try reflexivity.
  - destruct (levels_eqb _ _); simpl; [reflexivity|unfold t_final; lia].
Qed.

Lemma monitor_overlap_free : forall tr m pos p t,
  overlap_free_from (pwin m, cwin m) tr = true ->
  smonitor_from m pos tr = Some (p, t) -> t <= 10.
Proof.
  induction tr as [|[o r] tr IH]; intros m pos p t Hf Hm; cbn [overlap_free_from smonitor_from] in *; [discriminate|].
  pose proof (smstep_wstep m o r) as W.
  destruct (wstep (pwin m, cwin m) o r) as [w' d] eqn:Ew. cbn [fst snd] in W.
  apply andb_true_iff in Hf. destruct Hf as [Hd Hf]. apply negb_true_iff in Hd. subst d.
  destruct (smstep m o r) as [[|t'] m'].
  - subst w'. eapply IH; eauto.
  - inversion Hm; subst. destruct (Nat.le_gt_cases t 10); auto. specialize (W ltac:(lia)). discriminate.
Qed.
