From Coq Require Import Lia ZifyBool.
From BT Require Import Base.ListX Base.Bits2 LL.LLModel LL.LLSpec LL.LLSpecC27 LL.LLSpecC22 LL.LLProofs.
From BT Require gen.GenLL.
Import ListNotations.
Local Open Scope N_scope.

Lemma hrd_empty n c s : rxq (bf s) = [] -> handle_received_data n c s = (s, [], GoAhead).
Proof. intros H. destruct n; simpl; [reflexivity|]. destruct (deferred s); [reflexivity|]. rewrite H. reflexivity. Qed.

Lemma reset_encryption_frame c s :
  let s1 := fst (reset_encryption c s) in
  ring s1 = ring s /\ st s1 = st s /\ disc_reason s1 = disc_reason s.
Proof. unfold reset_encryption. destruct (c_enc c); cbn; auto. Qed.

Lemma push_event_ring_nil c s e : c_cb c = true -> ring s = [] -> ring (push_event c s e) = [e].
Proof. intros Hcb Hr. unfold push_event. rewrite Hcb, Hr. reflexivity. Qed.
Lemma st_push_event c s e : st (push_event c s e) = st s.
Proof. unfold push_event. destruct (c_cb c); [destruct (_ <? _)|]; reflexivity. Qed.

Lemma force_disconnect_spec c s :
  c_cb c = true -> ring s = [] -> st s <> Connecting ->
  let s' := fst (force_disconnect c s) in
  st s' = Advertising /\ ring s' = [EvClosed (disc_reason s)].
Proof.
  intros Hcb Hr Hst. unfold force_disconnect.
  pose proof (reset_encryption_frame c s) as F. destruct (reset_encryption c s) as [s1 i1].
  cbn [fst] in F. destruct F as (F1 & F2 & F3).
  cbn [start_advertising_impl handle_start_advertising fst st set_deferred set_st ring].
  split; [reflexivity|].
  destruct (st s1) eqn:E; try (rewrite <- F2 in Hst; congruence);
    rewrite push_event_ring_nil; try assumption; try congruence; rewrite ?F3; try reflexivity; congruence.
Qed.

Lemma flush_events_spec s : flush_events s = (set_ring s [], map ICb (ring s)).
Proof. reflexivity. Qed.

Lemma prologue_connected c s :
  st s = Connected ->
  let s2 := end_event_prologue c s in
  st s2 = Connected /\ rxq (bf s2) = rxq (bf s) /\ ring s2 = ring s /\ proc_timeout s2 = proc_timeout s
  /\ cs s2 = cs s /\ term_sent s2 = term_sent s /\ pr s2 = pr s /\ deferred s2 = deferred s /\ bf s2 = bf s
  /\ sc s2 = sc s /\ ac s2 = ac s /\ interval (tm s2) = interval (tm s) /\ latency (tm s2) = latency (tm s)
  /\ disc_reason s2 = disc_reason s.
Proof.
  intros Hst. unfold end_event_prologue. cbn [set_pending_event st]. rewrite Hst. cbn [lstate_eqb].
  change (st (set_pending_event s false)) with (st s). rewrite Hst. cbn [lstate_eqb]. cbn. repeat split; reflexivity.
Qed.

Theorem end_event_procedure_timeout c s e s' it :
  st s = Connected -> rxq (bf s) = [] -> ring s = [] -> c_cb c = true ->
  proc_timeout s <> 0 -> proc_timeout s <= tsle (cs s) ->
  do_end_event c s e = Some (s', it) ->
  st s' = Advertising /\ In (ICb (EvClosed GenLL.connection_ll_response_timeout)) it.
Proof.
  intros Hst Hrx Hring Hcb Hp Hle H.
  unfold do_end_event in H.
  pose proof (prologue_connected c s Hst) as P. cbn zeta in P.
  set (s2 := end_event_prologue c s) in *.
  destruct P as (P1 & P2 & P3 & P4 & P5 & P6 & P7 & P8 & P9 & _).
  unfold end_event_body in H. rewrite P1 in H. cbn [lstate_eqb andb] in H.
  rewrite hrd_empty in H by congruence.
  unfold send_control_pdus in H. rewrite P1 in H. cbn [lstate_eqb andb] in H.
  unfold end_event_continue, procedure_timed_out in H. rewrite P4, P5 in H.
  assert (Hb : (negb (proc_timeout s =? 0) && (proc_timeout s <=? tsle (cs s))) = true) by lia.
  rewrite Hb in H.
  unfold force_disconnect_reason in H.
  pose proof (force_disconnect_spec c (set_disc_reason s2 GenLL.connection_ll_response_timeout) Hcb) as F.
  destruct (force_disconnect c (set_disc_reason s2 GenLL.connection_ll_response_timeout)) as [s5 it5].
  cbn [fst] in F. destruct F as [F1 F2]; [cbn [ring set_disc_reason]; congruence | cbn [st set_disc_reason]; congruence |].
  cbn [obind app] in H. unfold end_event_epilogue in H. rewrite F1 in H. rewrite flush_events_spec in H. rewrite F2 in H.
  inversion H; subst. split; [exact F1|].
  apply in_or_app. right. left. reflexivity.
Qed.

Lemma plan_next_frame c s e s' :
  plan_next_connection_event c s e = Some s' -> exists k, s' = set_cs s k.
Proof.
  unfold plan_next_connection_event. intros H.
  destruct (dt_mul _ _) as [t|]; cbn [obind] in H; [|discriminate].
  destruct (disarmable c && _); [discriminate|]. inversion H. eexists; reflexivity.
Qed.

Lemma setup_next_frame s s' it :
  setup_next_connection_event s = Some (s', it) ->
  s' = set_pending_event s true /\ exists ch ws we, it = [ICe ch ws we (interval (tm s))].
Proof.
  unfold setup_next_connection_event. intros H.
  destruct (if negb (tw_size (tm s) =? 0) then _ else _) as [[ws we]|]; cbn [obind] in H; [|discriminate].
  inversion H. split; [reflexivity|]. repeat eexists.
Qed.

Definition quiet (c : cfg) (s : lstate_t) : Prop :=
  st s = Connected /\ rxq (bf s) = [] /\ ring s = [] /\ deferred s = None
  /\ cpr_pending (pr s) = false /\ phy_pending (pr s) = false /\ ver_pending (pr s) = false
  /\ ap_pending (ac s) = false /\ enc_prog (sc s) = false.

Theorem end_event_procedure_countdown c s e s' it :
  quiet c s -> proc_timeout s <> 0 -> tsle (cs s) < proc_timeout s ->
  do_end_event c s e = Some (s', it) ->
  quiet c s' /\ proc_timeout s' = proc_timeout s - tsle (cs s) /\ (forall r, ~ In (ICb (EvClosed r)) it).
Proof.
  intros (Hst & Hrx & Hring & Hdef & Hc & Hph & Hv & Hap & Henc) Hp Hlt H.
  unfold do_end_event in H.
  pose proof (prologue_connected c s Hst) as P. cbn zeta in P.
  set (s2 := end_event_prologue c s) in *.
  destruct P as (P1 & P2 & P3 & P4 & P5 & P6 & P7 & P8 & P9 & P10 & P11 & P12 & P13 & P14).
  unfold end_event_body in H. rewrite P1 in H. cbn [lstate_eqb andb] in H.
  rewrite hrd_empty in H by congruence.
  unfold send_control_pdus in H. rewrite P1 in H. cbn [lstate_eqb andb] in H.
  unfold end_event_continue, procedure_timed_out in H. rewrite P4, P5 in H.
  assert (Hb : (negb (proc_timeout s =? 0) && (proc_timeout s <=? tsle (cs s))) = false) by lia.
  rewrite Hb in H.
  assert (Hn : negb (proc_timeout s =? 0) = true) by lia. rewrite Hn in H.
  set (s5 := set_proc_timeout s2 (proc_timeout s - tsle (cs s))) in H.
  unfold transmit_pending_security_pdus in H.
  assert (E5 : enc_prog (sc s5) = false) by (change (sc s5) with (sc s2); congruence).
  rewrite E5, andb_false_r in H. cbn [andb] in H.
  destruct (plan_next_connection_event c s5 _) as [s7|] eqn:E7; cbn [obind] in H; [|discriminate].
  apply plan_next_frame in E7. destruct E7 as [k E7].
  unfold pending_then_setup, handle_pending_ll_control in H.
  assert (D7 : deferred s7 = None) by (subst s7; change (deferred s2 = None); congruence).
  rewrite D7 in H. cbn [obind] in H.
  destruct (setup_next_connection_event s7) as [[s8 it8]|] eqn:E8; cbn [obind] in H; [|discriminate].
  apply setup_next_frame in E8. destruct E8 as [E8 (ch & ws & we & Eit)].
  cbn [app] in H. unfold end_event_epilogue in H.
  assert (S8 : st s8 = Connected) by (subst s8 s7; exact P1).
  rewrite S8 in H. unfold transmit_pending_control_pdus in H.
  assert (R8 : pr s8 = pr s) by (subst s8 s7; exact P7).
  assert (A8 : ac s8 = ac s) by (subst s8 s7; exact P11).
  rewrite R8, A8, Hc, Hph, Hv, Hap in H.
  assert (Hm : (match c_cpr c with CprAsync => false | _ => false end) = false) by (destruct (c_cpr c); reflexivity).
  rewrite Hm in H. cbn [negb andb] in H.
  rewrite flush_events_spec in H. inversion H; subst s' it. clear H.
  assert (G8 : ring s8 = []) by (subst s8 s7; change (ring s2 = []); congruence).
  rewrite G8. cbn [map app].
  split; [|split].
  - unfold quiet. subst s8 s7. cbn [set_ring st bf ring deferred pr ac sc].
    change (st s2 = Connected /\ rxq (bf s2) = [] /\ @nil cb_event = [] /\ deferred s2 = None /\ cpr_pending (pr s2) = false
            /\ phy_pending (pr s2) = false /\ ver_pending (pr s2) = false /\ ap_pending (ac s2) = false /\ enc_prog (sc s2) = false).
    rewrite P1, P2, P7, P8, P10, P11. auto 10.
  - subst s8 s7. reflexivity.
  - intros r Hin. rewrite Eit, app_nil_r in Hin. destruct Hin as [Hin|[]]. discriminate.
Qed.

Lemma radio_exchange_none_frame s :
  exists b, fst (fst (radio_exchange s None)) = set_bf s b /\ rxq b = rxq (bf s).
Proof.
  unfold radio_exchange.
  destruct (match fl (bf s) with FHead => tl (txq (bf s)) | _ => txq (bf s) end) as [|[l bd] rest];
    cbn [fst]; eexists; split; try reflexivity; reflexivity.
Qed.

Lemma radio_event_nil_frame fuel : forall s,
  exists b, fst (radio_event fuel s []) = set_bf s b /\ rxq b = rxq (bf s).
Proof.
  induction fuel as [|f IH]; intros s; cbn [radio_event].
  - exists (bf s). split; [destruct s; reflexivity|reflexivity].
  - destruct (radio_exchange_none_frame s) as (b & Eb & Rb).
    cbn [hd_error tl]. destruct (radio_exchange s None) as [[s1 it] md]. cbn [fst] in Eb.
    destruct md.
    + destruct (IH s1) as (b2 & Eb2 & Rb2). destruct (radio_event f s1 []) as [s2 it2]. cbn [fst] in *.
      exists b2. subst s1. split; [rewrite Eb2; reflexivity| rewrite Rb2; exact Rb].
    + exists b. cbn [fst]. split; assumption.
Qed.

Lemma quiet_set_bf c s b : quiet c s -> rxq b = rxq (bf s) -> quiet c (set_bf s b).
Proof.
  intros (Hst & Hrx & Hring & Hdef & Hc & Hph & Hv & Hap & Henc) Hb.
  unfold quiet. cbn [set_bf st bf ring deferred pr ac sc]. rewrite Hb. auto 10.
Qed.

Lemma radio_exchange_items s rx : forall i, In i (snd (fst (radio_exchange s rx))) -> exists l b, i = ITx l b.
Proof.
  unfold radio_exchange.
  destruct (match fl (bf s) with FHead => tl (txq (bf s)) | _ => txq (bf s) end) as [|[l bd] rest];
    cbn [fst snd]; intros i Hin; [destruct Hin|]. destruct Hin as [<-|[]]. eauto.
Qed.

Lemma radio_event_items fuel : forall s pdus i, In i (snd (radio_event fuel s pdus)) -> exists l b, i = ITx l b.
Proof.
  induction fuel as [|f IH]; intros s pdus i Hin; cbn [radio_event] in Hin; [destruct Hin|].
  pose proof (radio_exchange_items s (hd_error pdus)) as X.
  destruct (radio_exchange s (hd_error pdus)) as [[s1 it] md]. cbn [fst snd] in X.
  destruct (match tl pdus with [] => md | _ => true end).
  - specialize (IH s1 (tl pdus)). destruct (radio_event f s1 (tl pdus)) as [s2 it2]. cbn [snd] in *.
    apply in_app_or in Hin. destruct Hin; eauto.
  - cbn [snd] in Hin. eauto.
Qed.

Definition closed22 : item := ICb (EvClosed GenLL.connection_ll_response_timeout).

(* the link under a sequence of connection events in which the central sends nothing but empty PDUs *)
Fixpoint countdown (c : cfg) (s : lstate_t) (evts : list N) : Prop :=
  match evts with
  | [] => True
  | e :: r =>
      match lstep c s (Ev e []) with
      | (s', OItems it) =>
          if proc_timeout s <=? tsle (cs s)
          then st s' = Advertising /\ In closed22 it
          else quiet c s' /\ proc_timeout s' = proc_timeout s - tsle (cs s) /\ (forall x, ~ In (ICb (EvClosed x)) it)
               /\ countdown c s' r
      | (_, OCrash) => True
      | _ => False
      end
  end.

Theorem unanswered_procedure_countdown c : c_cb c = true ->
  forall evts s, quiet c s -> proc_timeout s <> 0 -> countdown c s evts.
Proof.
  intros Hcb. induction evts as [|e r IH]; intros s Hq Hp; cbn [countdown]; [exact I|].
  cbn [lstep]. unfold in_connection. destruct Hq as (Hst & Hq'). rewrite Hst. cbn [existsb].
  assert (Hq : quiet c s) by (split; assumption).
  destruct (radio_event_nil_frame (S (length (@nil pdu) + length (txq (bf s)))) s) as (b & Eb & Rb).
  destruct (radio_event _ s []) as [s1 it1] eqn:E1. cbn [fst] in Eb.
  pose proof (quiet_set_bf c s b Hq Rb) as Hq1. rewrite <- Eb in Hq1.
  assert (P1 : proc_timeout s1 = proc_timeout s) by (subst s1; reflexivity).
  assert (T1 : tsle (cs s1) = tsle (cs s)) by (subst s1; reflexivity).
  destruct (do_end_event c s1 e) as [[s2 it2]|] eqn:E2; [|exact I].
  destruct (proc_timeout s <=? tsle (cs s)) eqn:Hle.
  - destruct Hq1 as (A1 & A2 & A3 & _).
    destruct (end_event_procedure_timeout c s1 e s2 it2 A1 A2 A3 Hcb) as [R1 R2]; try congruence; try (rewrite P1, T1; lia).
    split; [exact R1|]. apply in_or_app. right. exact R2.
  - destruct (end_event_procedure_countdown c s1 e s2 it2 Hq1) as (R1 & R2 & R3); try congruence; try (rewrite P1, T1; lia).
    rewrite P1, T1 in R2.
    split; [exact R1|]. split; [exact R2|]. split.
    + intros x Hin. apply in_app_or in Hin. destruct Hin as [Hin|Hin]; [|exact (R3 x Hin)].
      pose proof (radio_event_items (S (length (@nil pdu) + length (txq (bf s)))) s [] (ICb (EvClosed x))) as X.
      rewrite E1 in X. destruct (X Hin) as (l & bb & Hx). discriminate.
    + apply IH; [exact R1|]. rewrite R2. lia.
Qed.
