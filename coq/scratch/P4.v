From BT Require Import Base.ListX SduBuf.SduBufModel SduBuf.SduBufSpec.
From Coq Require Import Lia ZifyBool.
From BT Require Import scratch.P1 scratch.P2 scratch.P3.
Local Open Scope N_scope.

Record R (c : cfg) (s : state) (m : mon) : Prop := mkR {
  R_rbuf : lenN (rbuf s) = bufsize c;
  R_tbuf : lenN (tbuf s) = bufsize c;
  R_rxq : rxq s = m_pend m;
  R_txq : txq s = m_air m;
  R_handed : handed s = m_handed m;
  R_maxrx : max_rx s = m_maxrx m;
  R_maxtx : max_tx s = m_maxtx m;
  R_range : min_buffer_size <= max_tx s <= max_buffer_size;
  R_ok : faulted s = false;
  R_rx : if passthrough c then m_rs m = Idle else rx_rel c s (m_rs m);
  R_tx : if passthrough c then m_sdu m = None else tx_rel false c s (m_sdu m) }.

Lemma tx_rel_weaken c s cur : tx_rel false c s cur -> tx_rel true c s cur.
Proof. destruct cur as [[rem [|]]|]; simpl; auto. intros (? & ?). split; auto. Qed.

Lemma tx_rel_ext w c s s' cur :
  tbuf s' = tbuf s -> tsize s' = tsize s -> tused s' = tused s -> tx_rel w c s cur -> tx_rel w c s' cur.
Proof. intros E1 E2 E3. unfold tx_rel. rewrite E1, E2, E3. auto. Qed.

Lemma rx_rel_ext c s s' rs :
  rbuf s' = rbuf s -> rsize s' = rsize s -> rused s' = rused s -> rx_rel c s rs -> rx_rel c s' rs.
Proof. intros E1 E2 E3. unfold rx_rel, sdu_body. rewrite E1, E2, E3. auto. Qed.

Lemma init_R c : R c (init c) minit.
Proof.
  constructor; simpl; auto; try (unfold lenN; rewrite repeat_length; lia).
  - unfold min_buffer_size, max_buffer_size; lia.
  - destruct (passthrough c); simpl; auto.
  - destruct (passthrough c); simpl; auto.
Qed.

Lemma prefixb_refl b : prefixb b b = true.
Proof. rewrite <- (app_nil_r b) at 2. apply prefixb_app. Qed.

Lemma read16_app (b r : list N) : 2 <= lenN b -> read16 (b ++ r) = read16 b.
Proof.
  unfold read16, lenN. intros H. destruct b as [|x [|y b]]; simpl in H; try lia. reflexivity.
Qed.

Lemma lastp_snoc l p : lastp (l ++ [p]) = Some p.
Proof. unfold lastp. rewrite rev_app_distr. reflexivity. Qed.

Ltac inv H := inversion H; subst; clear H.
Ltac fin :=
  solve [ auto | congruence | simpl; congruence | rewrite ?app_nil_r; auto
        | destruct (passthrough _); auto; eapply rx_rel_ext; eauto
        | destruct (passthrough _); auto; eapply tx_rel_ext; eauto
        | eapply rx_rel_ext; eauto | eapply tx_rel_ext; eauto
        | unfold in_size_range, min_buffer_size, max_buffer_size in *; simpl; lia ].

Lemma step_ok c s m o s' ro :
  wf_cfg c -> R c s m -> step c s o = (s', ro) ->
  exists m', mstep c m o ro = (Ok, m') /\ R c s' m'.
Proof.
  intros WF HR. pose proof WF as (Hm & H16 & Hoh).
  assert (Hllo : 2 <= ll_overhead c <= 18) by (unfold ll_overhead, header_size; lia).
  assert (HB : bufsize c = mtu c + ll_overhead c + 4)
    by (unfold bufsize, overall_overhead, l2cap_header_size; lia).
  destruct HR as [Hrb Htb Hrxq Htxq Hh Hmr Hmt Hrg Hok Hrx Htx].
  unfold step. rewrite Hok.
  destruct o as [llid b|g| |g b|g a b| |n|n].
  - (* Rx *)
    unfold do_rx.
    destruct (max_rx s <? lenN b + 2) eqn:C1;
      [|destruct ((N.land llid 3 =? 0) || (lenN b =? 0))%bool eqn:C2]; intros E; inv E;
      cbn [mstep]; rewrite <- Hmr, C1, ?C2.
    + eexists; split; [reflexivity|]. constructor; auto.
    + eexists; split; [reflexivity|]. constructor; auto.
    + eexists; split; [reflexivity|]. constructor; simpl; try fin.
  - (* Next *)
    unfold do_next. destruct (passthrough c) eqn:PT.
    + destruct (rxq s) as [|p q] eqn:Q; intros E; inv E; cbn [mstep judge_tx]; unfold judge_next, spec_next;
        rewrite PT; cbn [set_tx_m m_pend m_rs]; rewrite <- Hrxq.
      * eexists; split; [reflexivity|]. constructor; simpl; rewrite ?PT, ?app_nil_r; try fin.
      * rewrite pdu_eqb_refl. eexists; split; [reflexivity|].
        constructor; simpl; rewrite ?PT, ?app_nil_r; try fin.
    + destruct (try_send_ok c WF g s (m_sdu m)) as (s1 & sent & cur' & T & J & HT1 & F); auto using tx_rel_weaken.
      rewrite T. rewrite Hmt in J.
      destruct F as (F1&F2&F3&F4&F5&F6&F7&F8&F9&F10).
      assert (HR1 : rx_rel c s1 (m_rs m)) by (eapply rx_rel_ext; eauto).
      rewrite (complete_iff _ _ _ HR1).
      destruct (m_rs m) as [|L acc|x] eqn:RS.
      * destruct (rx_loop_ok c WF (rxq s1) s1 Idle) as (s2 & r & E2 & X); [congruence| exact HR1 | discriminate|].
        rewrite E2. intros E; inv E. rewrite F5, Hrxq in X.
        cbn [mstep]. rewrite J. unfold judge_next, spec_next. rewrite PT. cbn [set_tx_m m_pend m_rs]. rewrite RS.
        destruct (spec_loop (mtu c) Idle (m_pend m)) as [[rs' pend'] e].
        destruct X as (X1 & X2 & X3 & X4). destruct X4 as (G1&G2&G3&G4&G5&G6&G7&G8&G9).
        assert (RR : forall h, R c (set_handed s2 h)
                   (set_rx_m (mkm (m_pend m) Idle (m_handed m) (m_maxrx m) (m_maxtx m) cur' (m_air m ++ sent)) pend' rs' h)).
        { intros h. constructor; simpl; rewrite ?PT; try fin. }
        destruct e, r; simpl in X3; try contradiction; subst.
        -- eexists; split; [reflexivity|]. apply RR.
        -- rewrite pdu_eqb_refl. eexists; split; [reflexivity|]. apply RR.
        -- rewrite bytes_eqb_refl. eexists; split; [reflexivity|]. apply RR.
      * destruct (rx_loop_ok c WF (rxq s1) s1 (Coll L acc)) as (s2 & r & E2 & X); [congruence| exact HR1 | discriminate|].
        rewrite E2. intros E; inv E. rewrite F5, Hrxq in X.
        cbn [mstep]. rewrite J. unfold judge_next, spec_next. rewrite PT. cbn [set_tx_m m_pend m_rs]. rewrite RS.
        destruct (spec_loop (mtu c) (Coll L acc) (m_pend m)) as [[rs' pend'] e].
        destruct X as (X1 & X2 & X3 & X4). destruct X4 as (G1&G2&G3&G4&G5&G6&G7&G8&G9).
        assert (RR : forall h, R c (set_handed s2 h)
                   (set_rx_m (mkm (m_pend m) (Coll L acc) (m_handed m) (m_maxrx m) (m_maxtx m) cur' (m_air m ++ sent)) pend' rs' h)).
        { intros h. constructor; simpl; rewrite ?PT; try fin. }
        destruct e, r; simpl in X3; try contradiction; subst.
        -- eexists; split; [reflexivity|]. apply RR.
        -- rewrite pdu_eqb_refl. eexists; split; [reflexivity|]. apply RR.
        -- rewrite bytes_eqb_refl. eexists; split; [reflexivity|]. apply RR.
      * intros E; inv E. destruct HR1 as (HA & HB1 & Bd).
        cbn [mstep]. rewrite J. unfold judge_next, spec_next. rewrite PT. cbn [set_tx_m m_pend m_rs]. rewrite RS.
        rewrite Bd, bytes_eqb_refl.
        eexists; split; [reflexivity|]. constructor; simpl; rewrite ?PT; try fin.
  - (* Free *)
    unfold do_free. destruct (handed s) eqn:HH; cbn [negb].
    + destruct (passthrough c) eqn:PT; cbn [negb andb].
      * intros E; inv E. cbn [mstep]. rewrite <- Hh, Hrx. cbn [negb]. eexists; split; [reflexivity|].
        constructor; simpl; rewrite ?PT; try fin.
      * rewrite (complete_iff c (set_handed s false) (m_rs m)) by (eapply rx_rel_ext; eauto).
        destruct (m_rs m) as [|L acc|x] eqn:RS; intros E; inv E; cbn [mstep]; rewrite <- Hh, RS; cbn [negb];
          (eexists; split; [reflexivity|]); constructor; simpl; rewrite ?PT; try fin.
    + intros E; inv E. cbn [mstep]. rewrite <- Hh. eexists; split; [reflexivity|]. constructor; auto; congruence.
  - (* L2Tx *)
    unfold do_l2tx. destruct (l2tx_pre c b) eqn:PRE.
    + intros E; inv E. cbn [mstep]. rewrite PRE. eexists; split; [reflexivity|]. constructor; auto.
    + pose proof PRE as PRE'. unfold l2tx_pre in PRE.
      assert (P4 : 4 <= lenN b /\ lenN b - 4 <= mtu c /\ read16 b + 4 = lenN b) by lia.
      destruct P4 as (P4 & PM & PL).
      destruct (passthrough c) eqn:PT.
      * destruct g as [|g]; intros E; inv E; cbn [mstep]; rewrite PRE', PT.
        -- eexists; split; [reflexivity|]. constructor; auto; rewrite ?PT; auto.
        -- cbn [judge_tx fst snd]. rewrite prefixb_refl.
           unfold passthrough in PT. unfold min_buffer_size in Hrg.
           destruct (N.eqb_spec (lenN b) 0); [lia|].
           destruct (N.ltb_spec (m_maxtx m) (lenN b + 2)); [lia|].
           cbn [negb orb N.eqb Pos.eqb]. rewrite skipn_all.
           eexists; split; [reflexivity|]. constructor; simpl; unfold passthrough; rewrite ?PT; try fin.
      * pose proof Htx as Htx'.
        destruct (m_sdu m) as [[rem st]|] eqn:SD.
        -- assert (BUSY : (negb (tused s =? 0) || negb (tsize s =? 0))%bool = true).
           { destruct st; simpl in Htx.
             - destruct Htx as (U & _). lia.
             - destruct Htx as (U & S & _). lia. }
           rewrite BUSY. intros E; inv E. cbn [mstep]. rewrite PRE', PT, SD.
           eexists; split; [reflexivity|]. constructor; auto; rewrite ?PT, ?SD; auto.
        -- simpl in Htx. destruct Htx as (S0 & U0). specialize (U0 eq_refl). rewrite S0, U0. cbn [N.eqb negb orb].
           rewrite write_at_some by (rewrite mem_length; simpl; lia).
           change (N.to_nat 0) with 0%nat. cbn [firstn app Nat.add].
           set (tb := mem c (2, b) ++ skipn (length (mem c (2, b))) (tbuf s)).
           assert (Ltb : lenN tb = bufsize c).
           { unfold tb. rewrite lenN_app. unfold lenN at 2. rewrite skipn_length.
             pose proof (mem_length c (2, b)) as ML. unfold lenN in *. cbn [snd] in ML. lia. }
           assert (Sk : skipn (N.to_nat (ll_overhead c)) tb = b ++ skipn (length (mem c (2, b))) (tbuf s)).
           { unfold tb. rewrite skipn_app_le.
             - now rewrite skipn_mem.
             - pose proof (mem_length c (2, b)) as ML. unfold lenN in ML. cbn [snd] in ML. lia. }
           rewrite Sk, read16_app by lia.
           assert (Esz : (read16 b + overall_overhead c) mod 65536 = ll_overhead c + lenN b).
           { rewrite N.mod_small; unfold overall_overhead, l2cap_header_size in *; lia. }
           rewrite Esz.
           set (s1 := set_tx s tb (ll_overhead c + lenN b) 0).
           assert (HT1 : tx_rel true c s1 (Some (b, false))).
           { simpl. repeat split; try lia.
             pose proof (mem_length c (2, b)) as ML. cbn [snd] in ML. rewrite <- ML.
             unfold tb, nn, lenN. rewrite Nat2N.id, firstn_app_le, firstn_all by lia. apply skipn_mem. }
           destruct (try_send_ok c WF g s1 (Some (b, false)) HT1) as (s2 & sent & cur' & T & J & HT2 & F); [exact Hrg|].
           rewrite T. intros E; inv E. simpl max_tx in J. rewrite Hmt in J.
           cbn [mstep]. rewrite PRE', PT, SD, J.
           destruct F as (F1&F2&F3&F4&F5&F6&F7&F8&F9&F10). simpl in *.
           eexists; split; [reflexivity|]. constructor; simpl; rewrite ?PT; try fin.
  - (* LlTx *)
    unfold do_lltx. destruct ((lenN b =? 0) || (27 <? lenN b))%bool eqn:PRE.
    + intros E; inv E. cbn [mstep]. rewrite PRE. eexists; split; [reflexivity|]. constructor; auto.
    + destruct (passthrough c) eqn:PT.
      * destruct a; intros E; inv E; cbn [mstep]; rewrite PRE.
        -- cbn [app]. unfold lastp. cbn [rev app removelast]. rewrite pdu_eqb_refl. cbn [negb judge_tx].
           eexists; split; [reflexivity|]. constructor; simpl; rewrite ?PT; try fin.
        -- cbn [judge_tx]. eexists; split; [reflexivity|].
           constructor; simpl; rewrite ?PT, ?app_nil_r; try fin.
      * destruct (try_send_ok c WF g s (m_sdu m)) as (s1 & sent & cur' & T & J & HT1 & F); auto using tx_rel_weaken.
        rewrite T. rewrite Hmt in J.
        destruct F as (F1&F2&F3&F4&F5&F6&F7&F8&F9&F10).
        destruct a; intros E; inv E; cbn [mstep]; rewrite PRE.
        -- rewrite lastp_snoc, pdu_eqb_refl, removelast_last, J. cbn [negb].
           eexists; split; [reflexivity|]. constructor; simpl; rewrite ?PT; try fin.
           rewrite F6, Htxq, app_assoc. reflexivity.
        -- rewrite J. eexists; split; [reflexivity|]. constructor; simpl; rewrite ?PT; try fin.
  - (* Radio *)
    destruct (txq s) as [|p q] eqn:Q; intros E; inv E; cbn [mstep]; rewrite <- Htxq.
    + eexists; split; [reflexivity|]. constructor; auto; congruence.
    + rewrite pdu_eqb_refl. eexists; split; [reflexivity|]. constructor; simpl; try fin.
  - (* MaxTx *)
    destruct (in_size_range n) eqn:IR; intros E; inv E; cbn [mstep]; rewrite IR.
    + eexists; split; [reflexivity|]. constructor; simpl; try fin.
    + eexists; split; [reflexivity|]. constructor; auto.
  - (* MaxRx *)
    destruct (in_size_range n) eqn:IR; intros E; inv E; cbn [mstep]; rewrite IR.
    + eexists; split; [reflexivity|]. constructor; simpl; try fin.
    + eexists; split; [reflexivity|]. constructor; auto.
Qed.
