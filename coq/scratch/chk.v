From BT Require Import Base.ListX Base.Bits2.
Check set2_ok. Check get2_set2_eq. Check get2_set2_neq. Check get2_lt.
