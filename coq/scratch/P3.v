From BT Require Import Base.ListX SduBuf.SduBufModel SduBuf.SduBufSpec.
From Coq Require Import Lia ZifyBool.
From BT Require Import scratch.P1 scratch.P2.
Local Open Scope N_scope.

(* receive side: model state vs. the recombination automaton *)
Definition rx_rel (c : cfg) (s : state) (rs : rstate) : Prop :=
  match rs with
  | Idle => rused s = 0 /\ rsize s = 0
  | Coll L acc =>
      L <= mtu c /\ 4 <= lenN acc /\ lenN acc < L + 4 /\
      rsize s = L + 4 - lenN acc /\ rused s = ll_overhead c + lenN acc /\ sdu_body c s = acc
  | Done sdu =>
      rsize s = 0 /\ rused s = ll_overhead c + lenN sdu /\ sdu_body c s = sdu
  end.

Definition rx_frame (s s' : state) : Prop :=
  tbuf s' = tbuf s /\ tsize s' = tsize s /\ tused s' = tused s /\ txq s' = txq s /\
  max_rx s' = max_rx s /\ max_tx s' = max_tx s /\ handed s' = handed s /\ faulted s' = faulted s /\
  lenN (rbuf s') = lenN (rbuf s).

Lemma rx_frame_refl s : rx_frame s s.
Proof. unfold rx_frame; tauto. Qed.
Lemma rx_frame_trans s1 s2 s3 : rx_frame s1 s2 -> rx_frame s2 s3 -> rx_frame s1 s3.
Proof. unfold rx_frame; intuition congruence. Qed.
Lemma rx_frame_rxq s q : rx_frame s (set_rxq s q).
Proof. unfold rx_frame; simpl; tauto. Qed.
Lemma rx_frame_set_rx s b x y : lenN b = lenN (rbuf s) -> rx_frame s (set_rx s b x y).
Proof. unfold rx_frame; simpl; tauto. Qed.

Definition matches (r : res) (e : expect) : Prop :=
  match e, r with
  | ENone, RNone => True
  | EPdu p, RPdu q => p = q
  | ESdu x, RSdu y => x = y
  | _, _ => False
  end.

Lemma complete_iff c s rs : rx_rel c s rs -> complete s = match rs with Done _ => true | _ => false end.
Proof.
  unfold complete, rx_rel. destruct rs.
  - intros (U & S). rewrite U. reflexivity.
  - intros (_ & _ & ? & S & _). destruct (N.eqb_spec (rsize s) 0); [lia|]. now rewrite andb_false_r.
  - intros (S & U & _). rewrite S. unfold ll_overhead, header_size in U.
    destruct (N.eqb_spec (rused s) 0); [lia|]. reflexivity.
Qed.

(* add_to_receive_buffer *)
Lemma add_rx_over s data : rsize s < lenN data -> add_rx s data = Some (reset_rx s).
Proof. intros. unfold add_rx. destruct (N.ltb_spec (rsize s) (lenN data)); auto; lia. Qed.

Lemma add_rx_fit c s data :
  lenN data <= rsize s -> rused s + rsize s <= lenN (rbuf s) -> (rused s = 0 \/ ll_overhead c <= rused s) ->
  exists b, add_rx s data = Some (set_rx s b (rsize s - lenN data) (rused s + lenN data)) /\
            lenN b = lenN (rbuf s) /\
            firstn (N.to_nat (rused s + lenN data)) b = firstn (N.to_nat (rused s)) (rbuf s) ++ data.
Proof.
  intros H1 H2 H3. unfold add_rx. destruct (N.ltb_spec (rsize s) (lenN data)); [lia|].
  rewrite write_at_some by lia. eexists. split; [reflexivity|]. split.
  - eapply write_at_length. apply write_at_some. lia.
  - apply firstn_written. lia.
Qed.

Lemma skipn_0 (A : Type) (l : list A) : skipn (N.to_nat 0) l = l.
Proof. reflexivity. Qed.

Ltac split4 := split; [|split; [|split]].

Lemma rx_loop_ok c : wf_cfg c ->
  forall q s rs,
    lenN (rbuf s) = bufsize c -> rx_rel c s rs -> (forall x, rs <> Done x) ->
    exists s' r,
      rx_loop c s q = Some (s', r) /\
      let '(rs', pend', e) := spec_loop (mtu c) rs q in
      rxq s' = pend' /\ rx_rel c s' rs' /\ matches r e /\ rx_frame s s'.
Proof.
  intros (Hm & H16 & Hoh).
  assert (Hllo : 2 <= ll_overhead c <= 18) by (unfold ll_overhead, header_size; lia).
  assert (HB : bufsize c = mtu c + ll_overhead c + 4)
    by (unfold bufsize, overall_overhead, l2cap_header_size; lia).
  assert (HO : overall_overhead c = ll_overhead c + 4) by reflexivity.
  induction q as [|p q IH]; intros s rs HL HR HD.
  - simpl. exists (set_rxq s []), RNone. split; auto. simpl. split4; auto using rx_frame_rxq.
  - (* what happens after the PDU was consumed *)
    assert (After : forall s1 rs1, lenN (rbuf s1) = bufsize c -> rx_rel c s1 rs1 -> rx_frame s s1 ->
               exists s' r,
                 (if complete s1 then Some (set_rxq s1 q, RSdu (sdu_body c s1)) else rx_loop c s1 q) = Some (s', r) /\
                 let '(rs', pend', e) :=
                   match rs1 with Done x => (rs1, q, ESdu x) | _ => spec_loop (mtu c) rs1 q end in
                 rxq s' = pend' /\ rx_rel c s' rs' /\ matches r e /\ rx_frame s s').
    { intros s1 rs1 HL1 HR1 F1. rewrite (complete_iff _ _ _ HR1).
      destruct rs1 as [|L acc|x].
      - destruct (IH s1 Idle HL1 HR1) as (s' & r & E & X); [discriminate|].
        exists s', r. split; auto. destruct (spec_loop (mtu c) Idle q) as [[rs' pend'] e].
        destruct X as (X1 & X2 & X3 & X4). split4; eauto using rx_frame_trans.
      - destruct (IH s1 (Coll L acc) HL1 HR1) as (s' & r & E & X); [discriminate|].
        exists s', r. split; auto. destruct (spec_loop (mtu c) (Coll L acc) q) as [[rs' pend'] e].
        destruct X as (X1 & X2 & X3 & X4). split4; eauto using rx_frame_trans.
      - exists (set_rxq s1 q), (RSdu (sdu_body c s1)). split; auto.
        simpl. split4; eauto using rx_frame_trans, rx_frame_rxq. symmetry; apply HR1. }
    assert (HRi : rx_rel c (reset_rx s) Idle) by (simpl; auto).
    assert (Fi : rx_frame s (reset_rx s)) by (apply rx_frame_set_rx; auto).
    assert (HLi : lenN (rbuf (reset_rx s)) = bufsize c) by auto.
    cbn [rx_loop spec_loop].
    destruct (N.eqb_spec (fst p) 3) as [E3|N3].
    + (* LL control PDU *)
      exists (set_rxq s (p :: q)), (RPdu p). split; auto. simpl. split4; auto using rx_frame_rxq.
    + destruct (N.eqb_spec (fst p) 2) as [E2|N2].
      * (* start fragment *)
        unfold classify_start.
        destruct (N.leb_spec 4 (lenN (snd p))) as [G4|L4].
        -- destruct (N.eqb_spec (read16 (snd p) + 4) (lenN (snd p))) as [EW|NW].
           ++ exists (set_rxq (reset_rx s) (p :: q)), (RPdu p). split; auto. simpl.
              split4; eauto using rx_frame_trans, rx_frame_rxq.
           ++ destruct (N.leb_spec (read16 (snd p)) (mtu c)) as [LM|GM].
              ** (* add_to_receive_buffer( whole PDU ) *)
                 set (L := read16 (snd p)) in *.
                 assert (Emod : (L + overall_overhead c) mod 65536 = L + overall_overhead c)
                   by (apply N.mod_small; lia).
                 rewrite Emod.
                 set (s1 := set_rx (reset_rx s) (rbuf (reset_rx s)) (L + overall_overhead c) (rused (reset_rx s))).
                 assert (F1 : rx_frame s s1) by (eapply rx_frame_trans; [exact Fi|]; apply rx_frame_set_rx; auto).
                 destruct (N.ltb_spec (lenN (snd p)) (L + 4)) as [LT|GE]; cbn [andb].
                 --- (* fits: SDU in progress *)
                     destruct (add_rx_fit c s1 (mem c p)) as (b & A & Lb & Fb);
                       [rewrite mem_length; simpl; lia | simpl; lia | simpl; auto |].
                     rewrite A. rewrite mem_length in *. cbn [rsize rused s1 set_rx reset_rx] in *.
                     match goal with |- context [if complete ?st then _ else _] => set (s2 := st) end.
                     assert (HR2 : rx_rel c s2 (Coll L (snd p))).
                     { unfold s2. simpl. repeat split; try lia.
                       rewrite N.add_0_l in Fb. change (N.to_nat 0) with 0%nat in Fb. cbn [firstn app] in Fb.
                       unfold sdu_body. cbn [rused rbuf set_rx]. rewrite Fb. apply skipn_mem. }
                     destruct (After s2 (Coll L (snd p))) as (s' & r & E & X); auto.
                     { unfold s2; simpl. rewrite Lb. exact HL. }
                     { eapply rx_frame_trans; [exact F1|]. apply rx_frame_set_rx. exact Lb. }
                     exists s', r. split; auto.
                 --- (* start fragment longer than announced: dropped *)
                     rewrite add_rx_over by (rewrite mem_length; simpl; lia).
                     destruct (After (reset_rx s1) Idle) as (s' & r & E & X);
                       [exact HL | simpl; auto | eapply rx_frame_trans; [exact F1|]; apply rx_frame_set_rx; reflexivity |].
                     exists s', r. split; auto.
              ** destruct (N.leb_spec (read16 (snd p)) (mtu c)); [lia|]. cbn [andb].
                 destruct (After (reset_rx s) Idle) as (s' & r & E & X); auto.
                 exists s', r. split; auto.
        -- destruct (After (reset_rx s) Idle) as (s' & r & E & X); auto.
           exists s', r. split; auto.
      * (* continuation fragment *)
        destruct rs as [|L acc|x]; [| |exfalso; eapply HD; eauto].
        -- (* nothing in progress *)
           destruct HR as (U & S).
           destruct (N.eq_dec (lenN (snd p)) 0) as [Z|NZ].
           ++ destruct (add_rx_fit c s (snd p)) as (b & A & Lb & Fb); try lia.
              rewrite A.
              destruct (After (set_rx s b (rsize s - lenN (snd p)) (rused s + lenN (snd p))) Idle) as (s' & r & E & X);
                [simpl; lia | simpl; lia | apply rx_frame_set_rx; auto |].
              exists s', r. split; auto.
           ++ rewrite add_rx_over by lia.
              destruct (After (reset_rx s) Idle) as (s' & r & E & X); auto.
              exists s', r. split; auto.
        -- destruct HR as (LM & A4 & AL & S & U & Bd).
           rewrite lenN_app.
           destruct (N.ltb_spec (lenN acc + lenN (snd p)) (L + 4)) as [LT|GE].
           ++ destruct (add_rx_fit c s (snd p)) as (b & A & Lb & Fb); try lia.
              rewrite A.
              match goal with |- context [if complete ?st then _ else _] => set (s2 := st) end.
              assert (HR2 : rx_rel c s2 (Coll L (acc ++ snd p))).
              { unfold s2. simpl. rewrite lenN_app. repeat split; try lia.
                unfold sdu_body in *. simpl. rewrite Fb. rewrite skipn_app_le; [now rewrite Bd|].
                rewrite firstn_length. unfold lenN in *. lia. }
              destruct (After s2 (Coll L (acc ++ snd p))) as (s' & r & E & X);
                [unfold s2; simpl; lia | exact HR2 | apply rx_frame_set_rx; auto |].
              exists s', r. split; auto.
           ++ destruct (N.eqb_spec (lenN acc + lenN (snd p)) (L + 4)) as [EQ|NE].
              ** destruct (add_rx_fit c s (snd p)) as (b & A & Lb & Fb); try lia.
                 rewrite A.
                 match goal with |- context [if complete ?st then _ else _] => set (s2 := st) end.
                 assert (HR2 : rx_rel c s2 (Done (acc ++ snd p))).
                 { unfold s2. simpl. rewrite lenN_app. repeat split; try lia.
                   unfold sdu_body in *. simpl. rewrite Fb. rewrite skipn_app_le; [now rewrite Bd|].
                   rewrite firstn_length. unfold lenN in *. lia. }
                 destruct (After s2 (Done (acc ++ snd p))) as (s' & r & E & X);
                   [unfold s2; simpl; lia | exact HR2 | apply rx_frame_set_rx; auto |].
                 exists s', r. split; auto.
              ** rewrite add_rx_over by lia.
                 destruct (After (reset_rx s) Idle) as (s' & r & E & X); auto.
                 exists s', r. split; auto.
Qed.
