From BT Require Import Base.ListX SduBuf.SduBufModel SduBuf.SduBufSpec SduBuf.SduBufProofs.
From Coq Require Import Lia ZifyBool.
Local Open Scope N_scope.

Ltac break M :=
  repeat match type of M with
         | context [match ?x with _ => _ end] => destruct x eqn:?; try discriminate M
         | context [if ?b then _ else _] => destruct b eqn:?; try discriminate M
         end.

(* ------------------------------------------------------------------ transmit *)
(* state of the outgoing side: accepted SDUs, committed data PDUs, the monitor's SDU in flight *)
Definition K (sdus : list (list N)) (pds : list pdu) (cur : option (list N * bool)) : Prop :=
  match cur with
  | None => sent_as sdus pds
  | Some (rem, st) =>
      rem <> [] /\
      exists sdus0 sdu fss fs,
        sdus = sdus0 ++ [sdu] /\ pds = concat fss ++ fs /\ Forall2 fragmentation sdus0 fss /\
        partial_fragmentation sdu fs rem /\ (st = false <-> fs = [])
  end.

Lemma K_sending sdus pds cur : K sdus pds cur -> sending_as sdus pds.
Proof.
  destruct cur as [[rem st]|]; simpl.
  - intros (NE & sdus0 & sdu & fss & fs & H1 & H2 & H3 & H4 & _). right. exists sdus0, sdu, fss, fs, rem. auto.
  - left; auto.
Qed.

Lemma Forall2_snoc (A B : Type) (P : A -> B -> Prop) l1 l2 a b :
  Forall2 P l1 l2 -> P a b -> Forall2 P (l1 ++ [a]) (l2 ++ [b]).
Proof. intros H1 H2. apply Forall2_app; auto. Qed.

Lemma concat_snoc (A : Type) (l : list (list A)) x : concat (l ++ [x]) = concat l ++ x.
Proof. rewrite concat_app. simpl. now rewrite app_nil_r. Qed.

Lemma judge_tx_K maxtx : forall txs cur cur' sdus pds,
  judge_tx maxtx cur txs = (Ok, cur') -> K sdus pds cur ->
  K sdus (pds ++ txs) cur' /\ Forall (fun p => fst p <> 3 /\ lenN (snd p) + 2 <= maxtx) txs.
Proof.
  induction txs as [|p t IH]; intros cur cur' sdus pds E HK.
  - simpl in E. inversion E; subst. rewrite app_nil_r. auto.
  - simpl in E. destruct cur as [[rem st]|]; [|discriminate].
    destruct (negb (fst p =? (if st then 1 else 2)) || (lenN (snd p) =? 0))%bool eqn:C1; [discriminate|].
    destruct (prefixb (snd p) rem) eqn:C2; [|discriminate]. cbn [negb] in E.
    destruct (N.ltb_spec maxtx (lenN (snd p) + 2)); [discriminate|].
    apply prefixb_split in C2.
    set (rem' := skipn (length (snd p)) rem) in *.
    assert (Fp : fst p = (if st then 1 else 2)) by lia.
    assert (Ep : p = (fst p, snd p)) by (destruct p; reflexivity).
    destruct HK as (NE & sdus0 & sdu & fss & fs & H1 & H2 & H3 & H4 & H5).
    (* the fragments of the SDU in flight, extended by p *)
    assert (PF : partial_fragmentation sdu (fs ++ [p]) rem').
    { right. destruct st.
      - destruct H4 as [(F0 & _)|(s & cs & F1 & F2)].
        + destruct H5 as (_ & H5). specialize (H5 F0). discriminate.
        + exists s, (cs ++ [snd p]). split.
          * rewrite F1, map_app. simpl. rewrite Ep at 1. rewrite Fp. reflexivity.
          * rewrite concat_snoc, <- F2, C2. now rewrite <- !app_assoc.
      - destruct H5 as (H5 & _). specialize (H5 eq_refl). subst fs.
        destruct H4 as [(_ & F0)|(s & cs & F1 & _)]; [|discriminate].
        exists (snd p), []. simpl. split.
        + rewrite Ep at 1. now rewrite Fp.
        + now rewrite <- F0, C2. }
    assert (HK1 : K sdus (pds ++ [p]) (match rem' with [] => None | _ => Some (rem', true) end)).
    { destruct rem' as [|x r'] eqn:ER.
      - simpl. exists (fss ++ [fs ++ [p]]). split.
        + rewrite concat_snoc, H2, app_assoc. reflexivity.
        + rewrite H1. apply Forall2_snoc; auto.
          destruct PF as [(F0 & _)|(s & cs & F1 & F2)]; [destruct fs; discriminate|].
          exists s, cs. rewrite app_nil_r in F2. auto.
      - simpl. split; [discriminate|]. exists sdus0, sdu, fss, (fs ++ [p]).
        rewrite H2, app_assoc. repeat split; auto; try discriminate.
        intros F0; destruct fs; discriminate. }
    destruct (IH _ _ _ _ E HK1) as (I1 & I2). rewrite <- app_assoc in I1. split; auto.
    constructor; auto. split; [|lia]. rewrite Fp. destruct st; discriminate.
Qed.

Lemma data_pdus_app a b : data_pdus (a ++ b) = data_pdus a ++ data_pdus b.
Proof. apply filter_app. Qed.

Lemma data_pdus_all txs maxtx :
  Forall (fun p => fst p <> 3 /\ lenN (snd p) + 2 <= maxtx) txs -> data_pdus txs = txs.
Proof.
  induction 1 as [|p t (H1 & _) _ IH]; simpl; auto.
  destruct (N.eqb_spec (fst p) 3); [contradiction|]. simpl. now rewrite IH.
Qed.

Lemma judge_next_tx c m r m' :
  judge_next c m r = (Ok, m') -> m_sdu m' = m_sdu m /\ m_maxtx m' = m_maxtx m /\ m_air m' = m_air m.
Proof.
  unfold judge_next. destruct (spec_next c (m_rs m) (m_pend m)) as [[rs' pend'] e].
  intros M. destruct e, r; try discriminate M; break M; inversion M; subst; simpl; auto.
Qed.

Definition KI (c : cfg) (sdus : list (list N)) (pds : list pdu) (mo : mon) : Prop :=
  K sdus pds (m_sdu mo) /\ (passthrough c = true -> m_sdu mo = None).

Definition size_ok (maxtx : N) (p : pdu) : Prop := fst p = 3 \/ lenN (snd p) + 2 <= maxtx.

Lemma Forall_size_ok maxtx txs :
  Forall (fun p => fst p <> 3 /\ lenN (snd p) + 2 <= maxtx) txs -> Forall (size_ok maxtx) txs.
Proof. apply Forall_impl. intros p (_ & H). right; auto. Qed.

Lemma judge_tx_none maxtx txs cur' : judge_tx maxtx None txs = (Ok, cur') -> txs = [] /\ cur' = None.
Proof. destruct txs; simpl; intros E; inversion E; auto. Qed.

Lemma lastp_split txs p : lastp txs = Some p -> txs = removelast txs ++ [p].
Proof.
  unfold lastp. intros H. destruct txs as [|x t] using rev_ind; [discriminate|].
  rewrite rev_app_distr in H. simpl in H. inversion H; subst. now rewrite removelast_last.
Qed.

Lemma mstep_K c mo o ro mo' sdus pds :
  KI c sdus pds mo -> mstep c mo o ro = (Ok, mo') ->
  KI c (sdus ++ accepted_sdus [(o, ro)]) (pds ++ data_pdus (snd ro)) mo' /\
  Forall (size_ok (m_maxtx mo)) (snd ro).
Proof.
  intros (HK & HP) M. destruct ro as [r txs]. cbn [snd].
  assert (Same : m_sdu mo' = m_sdu mo -> txs = [] -> accepted_sdus [(o, (r, txs))] = [] ->
                 KI c (sdus ++ accepted_sdus [(o, (r, txs))]) (pds ++ data_pdus txs) mo' /\ Forall (size_ok (m_maxtx mo)) txs).
  { intros E1 E2 E3. rewrite E3, E2. simpl. rewrite !app_nil_r. unfold KI. rewrite E1. auto. }
  destruct o as [llid b|g| |g b|g a b| |n|n].
  - (* Rx *) unfold mstep in M. apply Same; break M; inversion M; subst; simpl; auto.
  - (* Next *)
    cbn [accepted_sdus]. rewrite app_nil_r.
    assert (exists cur, judge_tx (m_maxtx mo) (m_sdu mo) txs = (Ok, cur) /\ judge_next c (set_tx_m mo cur txs) r = (Ok, mo'))
      as (cur & JT & JN).
    { unfold mstep in M. destruct r; try discriminate M;
        destruct (judge_tx (m_maxtx mo) (m_sdu mo) txs) as [[|t] cur]; try discriminate M; eauto. }
    destruct (judge_next_tx _ _ _ _ JN) as (S1 & _). simpl in S1.
    destruct (judge_tx_K _ _ _ _ sdus pds JT HK) as (K1 & F1).
    rewrite (data_pdus_all _ _ F1). split; [|apply Forall_size_ok; auto].
    split; rewrite S1; auto.
    intros PT. rewrite (HP PT) in JT. apply judge_tx_none in JT. tauto.
  - (* Free *) unfold mstep in M. apply Same; break M; inversion M; subst; simpl; auto.
  - (* L2Tx *)
    unfold mstep in M. destruct (l2tx_pre c b) eqn:PRE.
    + apply Same; break M; inversion M; subst; simpl; auto.
    + destruct r; try discriminate M.
      * (* ROk *)
        destruct (m_sdu mo) as [x|] eqn:SD; [discriminate M|].
        destruct (passthrough c && match g with O => true | S _ => false end)%bool eqn:BZ; [discriminate M|].
        destruct (judge_tx (m_maxtx mo) (Some (b, false)) txs) as [[|t] cur] eqn:JT; [|discriminate M].
        destruct (passthrough c && match cur with None => false | Some _ => true end)%bool eqn:PC; [discriminate M|].
        inversion M; subst; clear M.
        cbn [accepted_sdus].
        assert (K0 : K (sdus ++ [b]) pds (Some (b, false))).
        { simpl in HK. destruct HK as (fss & P1 & P2). simpl. split.
          - unfold l2tx_pre in PRE. destruct b; [simpl in PRE; discriminate|discriminate].
          - exists sdus, b, fss, []. rewrite app_nil_r. repeat split; auto. left; auto. }
        destruct (judge_tx_K _ _ _ _ _ _ JT K0) as (K1 & F1).
        rewrite (data_pdus_all _ _ F1). split; [|apply Forall_size_ok; auto].
        split; simpl; auto. intros PT. rewrite PT in PC. destruct cur; [discriminate|auto].
      * (* RBusy *)
        apply Same; break M; inversion M; subst; simpl; auto.
  - (* LlTx *)
    unfold mstep in M. destruct ((lenN b =? 0) || (27 <? lenN b))%bool eqn:PRE.
    + apply Same; auto; break M; inversion M; subst; simpl; auto.
    + cbn [accepted_sdus]. rewrite app_nil_r. destruct r; try discriminate M.
      * (* ROk *)
        destruct (lastp txs) as [p|] eqn:LP; [|discriminate M].
        destruct (pdu_eqb p (3, b)) eqn:PE; [|discriminate M]. cbn [negb] in M.
        apply pdu_eqb_eq in PE. subst p.
        destruct (judge_tx (m_maxtx mo) (m_sdu mo) (removelast txs)) as [[|t] cur] eqn:JT; [|discriminate M].
        destruct a; [|discriminate M]. inversion M; subst; clear M.
        destruct (judge_tx_K _ _ _ _ sdus pds JT HK) as (K1 & F1).
        rewrite (lastp_split _ _ LP) at 1 3. rewrite data_pdus_app, (data_pdus_all _ _ F1).
        simpl. rewrite app_nil_r. split.
        -- split; simpl; auto.
           intros PT. rewrite (HP PT) in JT. apply judge_tx_none in JT. tauto.
        -- apply Forall_app. split; [apply Forall_size_ok; auto|]. constructor; auto. left; reflexivity.
      * (* RFull *)
        destruct (judge_tx (m_maxtx mo) (m_sdu mo) txs) as [[|t] cur] eqn:JT; [|discriminate M].
        destruct a; [discriminate M|]. inversion M; subst; clear M.
        destruct (judge_tx_K _ _ _ _ sdus pds JT HK) as (K1 & F1).
        rewrite (data_pdus_all _ _ F1). split; [|apply Forall_size_ok; auto].
        split; simpl; auto.
        intros PT. rewrite (HP PT) in JT. apply judge_tx_none in JT. tauto.
  - (* Radio *) unfold mstep in M. apply Same; break M; inversion M; subst; simpl; auto.
  - (* MaxTx *) unfold mstep in M. apply Same; break M; inversion M; subst; simpl; auto.
  - (* MaxRx *) unfold mstep in M. apply Same; break M; inversion M; subst; simpl; auto.
Qed.

Lemma accepted_sdus_cons x t : accepted_sdus (x :: t) = accepted_sdus [x] ++ accepted_sdus t.
Proof. destruct x as [o [r txs]]. destruct o; auto. destruct r; auto. Qed.

Lemma committed_cons x t : committed (x :: t) = snd (snd x) ++ committed t.
Proof. reflexivity. Qed.

Lemma accepted_fragmentation c : forall tr mo pos sdus pds,
  KI c sdus pds mo -> monitor_from c mo pos tr = None ->
  sending_as (sdus ++ accepted_sdus tr) (pds ++ data_pdus (committed tr)).
Proof.
  induction tr as [|[o ro] tr IH]; intros mo pos sdus pds HK MF.
  - simpl. rewrite !app_nil_r. eapply K_sending. apply HK.
  - simpl in MF. destruct (mstep c mo o ro) as [[|t] mo'] eqn:M; [|discriminate].
    destruct (mstep_K _ _ _ _ _ _ _ HK M) as (HK' & _).
    rewrite accepted_sdus_cons, committed_cons, data_pdus_app, !app_assoc. cbn [snd].
    eapply IH; eauto.
Qed.

Lemma KI_init c : KI c [] [] minit.
Proof. split; simpl; auto. exists []. split; auto. Qed.

(* every outgoing SDU is committed as one start fragment followed by continuation fragments whose
   payloads concatenate to the SDU, SDU after SDU *)
Theorem accepted_trace_fragments c tr :
  monitor c tr = None -> sending_as (accepted_sdus tr) (data_pdus (committed tr)).
Proof. intros MF. exact (accepted_fragmentation c tr minit O [] [] (KI_init c) MF). Qed.

(* ... each within max_tx_size() *)
Lemma mstep_maxtx c mo o ro mo' :
  mstep c mo o ro = (Ok, mo') -> m_maxtx mo' = maxtx_from (m_maxtx mo) [(o, ro)].
Proof.
  intros M. destruct ro as [r txs]. destruct o; unfold mstep in M.
  - break M; inversion M; subst; simpl; auto.
  - assert (exists cur, judge_next c (set_tx_m mo cur txs) r = (Ok, mo')) as (cur & JN).
    { destruct r; try discriminate M;
        destruct (judge_tx (m_maxtx mo) (m_sdu mo) txs) as [[|t] cur]; try discriminate M; eauto. }
    destruct (judge_next_tx _ _ _ _ JN) as (_ & S2 & _). simpl in *. destruct r; auto.
  - break M; inversion M; subst; simpl; auto.
  - break M; inversion M; subst; simpl; auto.
  - break M; inversion M; subst; simpl; auto.
  - break M; inversion M; subst; simpl; auto.
  - break M; inversion M; subst; simpl; auto.
  - break M; inversion M; subst; simpl; auto.
Qed.

Lemma maxtx_from_cons cur x t : maxtx_from cur (x :: t) = maxtx_from (maxtx_from cur [x]) t.
Proof. destruct x as [o [r txs]]. destruct o; auto. destruct r; auto. Qed.

Lemma accepted_sizes c : forall tr mo pos sdus pds,
  KI c sdus pds mo -> monitor_from c mo pos tr = None ->
  forall i o r txs p, nth_error tr i = Some (o, (r, txs)) -> In p txs -> fst p <> 3 ->
    lenN (snd p) + 2 <= maxtx_from (m_maxtx mo) (firstn i tr).
Proof.
  induction tr as [|[o ro] tr IH]; intros mo pos sdus pds HK MF i o1 r txs p NE IN N3.
  - destruct i; discriminate.
  - simpl in MF. destruct (mstep c mo o ro) as [[|t] mo'] eqn:M; [|discriminate].
    destruct (mstep_K _ _ _ _ _ _ _ HK M) as (HK' & SZ).
    destruct i as [|i].
    + simpl in NE. inversion NE; subst. simpl in SZ. simpl.
      rewrite Forall_forall in SZ. destruct (SZ p IN); [contradiction|auto].
    + simpl in NE. change (firstn (S i) ((o, ro) :: tr)) with ((o, ro) :: firstn i tr).
      rewrite maxtx_from_cons, <- (mstep_maxtx _ _ _ _ _ M). eapply IH; eauto.
Qed.

Theorem accepted_trace_sizes c tr :
  monitor c tr = None ->
  forall i o r txs p, nth_error tr i = Some (o, (r, txs)) -> In p txs -> fst p <> 3 ->
    lenN (snd p) + 2 <= maxtx_after (firstn i tr).
Proof. intros MF. exact (accepted_sizes c tr minit O [] [] (KI_init c) MF). Qed.

(* ... and the radio sends the committed PDUs in the order of their commitment *)
Lemma mstep_air c mo o ro mo' :
  mstep c mo o ro = (Ok, mo') -> m_air mo ++ snd ro = radioed [(o, ro)] ++ m_air mo'.
Proof.
  intros M. destruct ro as [r txs]. cbn [snd]. destruct o; unfold mstep in M.
  - break M; inversion M; subst; simpl; auto using app_nil_r.
  - assert (exists cur, judge_next c (set_tx_m mo cur txs) r = (Ok, mo')) as (cur & JN).
    { destruct r; try discriminate M;
        destruct (judge_tx (m_maxtx mo) (m_sdu mo) txs) as [[|t] cur]; try discriminate M; eauto. }
    destruct (judge_next_tx _ _ _ _ JN) as (_ & _ & S3). simpl in *. auto.
  - break M; inversion M; subst; simpl; auto using app_nil_r.
  - break M; inversion M; subst; simpl; auto using app_nil_r.
  - break M; inversion M; subst; simpl; auto using app_nil_r.
  - destruct txs; [|destruct r; discriminate M]. rewrite app_nil_r.
    destruct r; try discriminate M.
    + destruct (m_air mo) as [|q t] eqn:A; [|discriminate M]. inversion M; subst. simpl. auto.
    + destruct (m_air mo) as [|q t] eqn:A; [discriminate M|].
      destruct (pdu_eqb p q) eqn:PE; [|discriminate M]. apply pdu_eqb_eq in PE. subst q.
      inversion M; subst. reflexivity.
  - break M; inversion M; subst; simpl; auto using app_nil_r.
  - break M; inversion M; subst; simpl; auto using app_nil_r.
Qed.

Lemma radioed_cons x t : radioed (x :: t) = radioed [x] ++ radioed t.
Proof. destruct x as [o [r txs]]. destruct o; auto. destruct r; auto. Qed.

Lemma accepted_order c : forall tr mo pos,
  monitor_from c mo pos tr = None -> exists rest, m_air mo ++ committed tr = radioed tr ++ rest.
Proof.
  induction tr as [|[o ro] tr IH]; intros mo pos MF.
  - exists (m_air mo). simpl. now rewrite app_nil_r.
  - simpl in MF. destruct (mstep c mo o ro) as [[|t] mo'] eqn:M; [|discriminate].
    destruct (IH mo' (S pos) MF) as (rest & E).
    exists rest. rewrite committed_cons, radioed_cons. cbn [snd]. rewrite app_assoc, (mstep_air _ _ _ _ _ M).
    rewrite <- !app_assoc. now rewrite E.
Qed.

Theorem accepted_trace_order c tr :
  monitor c tr = None -> exists rest, committed tr = radioed tr ++ rest.
Proof. intros MF. exact (accepted_order c tr minit O MF). Qed.
