From BT Require Import Base.ListX SM.SMModel SM.ToyCrypto.
Local Open Scope N_scope.
Eval vm_compute in (toy_X 1 [1;2;3]).
Eval vm_compute in (toy_c1 (zeros 16) (toy_srand 0) (zeros 16) (zeros 16)).
Eval vm_compute in (fst (toy_keys 0)).
Eval vm_compute in (toy_passkey 3, toy_oob).
Eval vm_compute in (toydb_new [] 4 (remote_addr 2)).
