(* find_notification_data_in_list (AttDbModel.v: cccd_infos, stable_sort, sorted_infos, cccd_indices,
   cccd_position, find_notification_data_by_index): for EVERY configuration and priority declaration

     - the priority sort is a permutation of the characteristics with a CCCD,
     - their declaration order numbers (ci_pos = ClientCharacteristicIndex) are 0 .. k-1, k =
       number_of_client_configs,
     - so the position [cccd_position c cci] that the CCCD attribute number cci uses in the per
       connection store is < k, is a bijection, and is exactly the index under which
       find_notification_data_by_index returns that characteristic.
   Used by C09 and C10. *)
From Coq Require Import Lia ZifyBool Permutation.
From BT Require Import Base.ListX AttDb.AttDbModel.
Local Open Scope N_scope.

(* ------------------------------------------------------------------ index_ofN *)
Lemma index_ofN_in x l : In x l -> index_ofN x l < len l /\ nth_error l (N.to_nat (index_ofN x l)) = Some x.
Proof.
  induction l as [|a t IH]; simpl; [tauto|]. intros H.
  destruct (x =? a) eqn:E.
  - apply N.eqb_eq in E. subst. split; [unfold len; simpl; lia|reflexivity].
  - destruct H as [H|H]; [subst; rewrite N.eqb_refl in E; discriminate|].
Show.
