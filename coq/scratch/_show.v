(* Frame lemma of the ATT server model, used by C08, C09, C10, C11: whatever l2cap_input (att_input),
   l2cap_output (att_output) or any other operation does, the per connection data changes only

     - on the connection the request arrived on (all other connections are untouched), and only by
     - Exchange MTU (client_mtu := a value >= 23),
     - the CCCD attribute (cccd := cccd_set ...),
     - a notification queue operation (nq := step ...),

   and from it: an invariant of connections that these three changes, a security change and a fresh
   connection preserve holds in every reachable state ([inv_reachable]). *)
From Coq Require Import Lia ZifyBool.
From BT Require Import Base.ListX AttDb.AttDbModel NQueue.NQueueModel AttSrv.AttSrvModel.
Local Open Scope N_scope.

Ltac inv H := inversion H; subst; clear H.

Lemma f_some_inj (A : Type) (a b : A) : Some a = Some b -> a = b.
Proof. intros H. inversion H. reflexivity. Qed.
Lemma f_pair_inj (A B : Type) (a c : A) (b d : B) : (a, b) = (c, d) -> a = c /\ b = d.
Proof. intros H. inversion H. split; reflexivity. Qed.
Lemma f_failed_inj (A : Type) (a b : resp) : @Failed A a = Failed b -> a = b.
Proof. intros H. inversion H. reflexivity. Qed.
Lemma f_passed_inj (A : Type) (a b : A) : Passed a = Passed b -> a = b.
Proof. intros H. inversion H. reflexivity. Qed.

(* break the option monad / conditionals of a hypothesis "... = Some _" *)
Ltac fmon :=
  repeat match goal with
         | H : Some _ = Some _ |- _ => apply f_some_inj in H
         | H : None = Some _ |- _ => discriminate H
         | H : Passed _ = Failed _ |- _ => discriminate H
         | H : Failed _ = Passed _ |- _ => discriminate H
         | H : Failed _ = Failed _ |- _ => apply f_failed_inj in H
         | H : Passed _ = Passed _ |- _ => apply f_passed_inj in H
         | H : (_, _) = (_, _) |- _ => apply f_pair_inj in H; destruct H
         | H : _ = ?v |- _ => is_var v; subst v
         | H : ?v = _ |- _ => is_var v; subst v
         | H : match ?x with Some _ => _ | None => None end = Some _ |- _ =>
             let E := fresh "E" in destruct x eqn:E; [|discriminate H]
         | H : (let '(_, _) := ?x in _) = Some _ |- _ => destruct x
         end.
Ltac fbrk := match goal with H : (if ?x then _ else _) = Some _ |- _ => destruct x eqn:? end.

(* ------------------------------------------------------------------ upd *)
Lemma upd_upd (A : Type) (l : list A) i a b : upd (upd l i a) i b = upd l i b.
Proof. revert i. induction l as [|x t IH]; intros [|i]; simpl; auto. rewrite IH. reflexivity. Qed.

Lemma nth_error_upd_eq (A : Type) (l : list A) i a : (i < length l)%nat -> nth_error (upd l i a) i = Some a.
Proof. revert i. induction l as [|x t IH]; intros [|i] H; simpl in *; try lia; auto. apply IH. lia. Qed.

Lemma nth_error_upd_neq (A : Type) (l : list A) i j a : i <> j -> nth_error (upd l i a) j = nth_error l j.
Proof. revert i j. induction l as [|x t IH]; intros [|i] [|j] H; simpl; auto; try congruence. Qed.

Lemma upd_nth_error_same (A : Type) (l : list A) i a : nth_error l i = Some a -> upd l i a = l.
Proof. revert i. induction l as [|x t IH]; intros [|i] H; simpl in *; try discriminate; auto.
  - inv H. reflexivity.
  - rewrite IH; auto.
Qed.

Lemma nth_error_lt (A : Type) (l : list A) i a : nth_error l i = Some a -> (i < length l)%nat.
Proof. intros H. apply nth_error_Some. congruence. Qed.

(* ------------------------------------------------------------------ changes of one connection *)
(* [mt] : may the client MTU change (only an Exchange MTU Request does that) *)
Inductive conn_change (mt : bool) : conn -> conn -> Prop :=
| cc_refl k : conn_change mt k k
| cc_mtu k m k2 :
    mt = true -> default_att_mtu <= m ->
    conn_change mt (mkConn m (cccd k) (encrypted k) (pairing k) (nq k)) k2 -> conn_change mt k k2
| cc_cccd k pos v k2 :
    conn_change mt (mkConn (client_mtu k) (cccd_set (cccd k) pos v) (encrypted k) (pairing k) (nq k)) k2 -> conn_change mt k k2
| cc_nq k o k2 :
    conn_change mt (fst (nq_step k o)) k2 -> conn_change mt k k2.

Lemma conn_change_trans mt a b d : conn_change mt a b -> conn_change mt b d -> conn_change mt a d.
Proof.
  induction 1; intros H2; auto.
  - eapply cc_mtu; eauto.
  - eapply cc_cccd; eauto.
  - eapply cc_nq; eauto.
Qed.

Lemma conn_change_weaken mt a b : conn_change mt a b -> conn_change true a b.
Proof.
  induction 1; [constructor| | |].
  - eapply cc_mtu; eauto.
  - eapply cc_cccd; eauto.
  - eapply cc_nq; eauto.
Qed.

Lemma conn_change_mtu a b : conn_change false a b -> client_mtu b = client_mtu a.
Proof.
  induction 1; auto; try discriminate.
  - rewrite IHconn_change. unfold nq_step. destruct (NQueueModel.step (nq k) o). reflexivity.
Qed.

Definition frameb (mt : bool) (cid : nat) (st st' : srv_state) : Prop :=
  exists k k', get_conn st cid = Some k /\ conns st' = upd (conns st) cid k' /\ conn_change mt k k'.
Notation frame := (frameb true).

Lemma frameb_weaken mt cid st st' : frameb mt cid st st' -> frame cid st st'.
Proof. intros (k & k' & G & E & C). exists k, k'. repeat split; auto. eapply conn_change_weaken; eauto. Qed.

Lemma frame_same mt cid st st' k : get_conn st cid = Some k -> conns st' = conns st -> frameb mt cid st st'.
Proof.
  intros G E. exists k, k. split; auto. split; [|constructor].
  rewrite E. symmetry. apply upd_nth_error_same. exact G.
Qed.

Lemma frame_trans mt cid st st1 st2 : frameb mt cid st st1 -> frameb mt cid st1 st2 -> frameb mt cid st st2.
Proof.
  intros (k & k1 & G & E & C) (k1' & k2 & G1 & E1 & C1).
  unfold get_conn in *. rewrite E in G1. rewrite nth_error_upd_eq in G1 by (eapply nth_error_lt; eauto).
  inv G1. exists k, k2. split; auto. split.
  - rewrite E1, E, upd_upd. reflexivity.
  - eapply conn_change_trans; eauto.
Qed.

Lemma frame_get mt cid st st' : frameb mt cid st st' -> exists k, get_conn st cid = Some k.
Proof. intros (k & _ & G & _). eauto. Qed.

Lemma frame_other mt cid st st' j : frameb mt cid st st' -> j <> cid -> get_conn st' j = get_conn st j.
Proof.
  intros (k & k' & G & E & _) N. unfold get_conn. rewrite E. apply nth_error_upd_neq. auto.
Qed.

Lemma frame_this mt cid st st' : frameb mt cid st st' ->
  exists k k', get_conn st cid = Some k /\ get_conn st' cid = Some k' /\ conn_change mt k k'.
Proof.
  intros (k & k' & G & E & C). exists k, k'. repeat split; auto.
  unfold get_conn in *. rewrite E. apply nth_error_upd_eq. eapply nth_error_lt; eauto.
Qed.

(* ------------------------------------------------------------------ attribute access *)
Lemma value_read_conns c st sec s ch gci off maxlen st' r d :
  value_read c st sec s ch gci off maxlen = (st', r, d) -> conns st' = conns st.
Proof.
  unfold value_read. destruct (security_check _ _ _); try (intros H; inv H; reflexivity).
  destruct (c_value ch).
  - destruct (c_no_read ch); [intros H; inv H; reflexivity|]. destruct (mem_read _ _ _). intros H; inv H. reflexivity.
  - destruct (c_no_read ch); [intros H; inv H; reflexivity|]. destruct (mem_read _ _ _). intros H; inv H. reflexivity.
  - destruct (mem_read _ _ _). intros H; inv H. reflexivity.
  - destruct (negb rd); [intros H; inv H; reflexivity|].
    destruct (negb blob && negb (off =? 0)); [intros H; inv H; reflexivity|].
    destruct (mem_read _ _ _). intros H; inv H. reflexivity.
Qed.

Lemma access_read_conns c st cid a index off maxlen st' r d :
  access_read c st cid a index off maxlen = Some (st', r, d) -> conns st' = conns st.
Proof.
  unfold access_read. destruct (get_conn st cid) as [k|]; [|discriminate].
  destruct a as [s|u|s ch|s ch gci cci|s ch cci|nm|u v].
  - destruct (mem_read _ _ _). intros H; inv H. reflexivity.
  - destruct (mem_read _ _ _). intros H; inv H. reflexivity.
  - destruct (char_decl_value c ch index); [|discriminate]. destruct (mem_read _ _ _). intros H; inv H. reflexivity.
  - intros H; inv H. eapply value_read_conns; eauto.
  - destruct (security_check _ _ _); try (intros H; inv H; reflexivity).
    destruct (mem_read _ _ _). intros H; inv H. reflexivity.
  - destruct (mem_read _ _ _). intros H; inv H. reflexivity.
  - destruct (mem_read _ _ _). intros H; inv H. reflexivity.
Qed.

Lemma value_write_conns c st sec s ch gci off data st' r :
  value_write c st sec s ch gci off data = (st', r) -> conns st' = conns st.
Proof.
  unfold value_write. destruct (security_check _ _ _); try (intros H; inv H; reflexivity).
  destruct (c_value ch).
  - destruct (is_const || c_no_write ch); [intros H; inv H; reflexivity|].
    destruct (mem_write _ _ _). intros H; inv H. reflexivity.
  - repeat match goal with |- context [if ?x then _ else _] => destruct x end; intros H; inv H; reflexivity.
  - intros H; inv H; reflexivity.
  - destruct (negb wr); [intros H; inv H; reflexivity|].
    destruct (negb blob && negb (off =? 0)); [intros H; inv H; reflexivity|].
    destruct (mem_write _ _ _). intros H; inv H. reflexivity.
Qed.

Lemma cccd_write_frame mt c st cid k cci off data st' r :
  get_conn st cid = Some k -> cccd_write c st cid k cci off data = (st', r) -> frameb mt cid st st'.
Proof.
  intros G. unfold cccd_write.
  destruct (2 <? off); [intros H; inv H; eapply frame_same; eauto|].
  destruct (2 <? len data + off); [intros H; inv H; eapply frame_same; eauto|].
  destruct (off =? 0); [|intros H; inv H; eapply frame_same; eauto].
  intros H; inv H. exists k. eexists. split; [exact G|]. split; [reflexivity|].
  eapply cc_cccd. constructor.
Qed.

Lemma access_write_frame mt c st cid a off data st' r :
  access_write c st cid a off data = Some (st', r) -> frameb mt cid st st'.
Proof.
  unfold access_write. destruct (get_conn st cid) as [k|] eqn:G; [|discriminate].
  destruct a as [s|u|s ch|s ch gci cci|s ch cci|nm|u v]; intros H.
  1-3,7: inv H; eapply frame_same; eauto.
  - inv H. eapply frame_same; eauto. eapply value_write_conns; eauto.
  - destruct (security_check _ _ _); try (inv H; eapply frame_same; eauto; fail).
    inv H. eapply cccd_write_frame; eauto.
  - inv H. eapply frame_same; eauto.
Qed.

(* ------------------------------------------------------------------ the handlers *)
Lemma exchange_mtu_frame c st cid pdu b n st' r k0 :
  get_conn st cid = Some k0 ->
  handle_exchange_mtu c st cid pdu b n = Some (st', r) -> frame cid st st'.
Proof.
  intros G. unfold handle_exchange_mtu. intros H. fmon. fbrk; fmon; [eapply frame_same; eauto|].
  fbrk; fmon; [eapply frame_same; eauto|].
  eexists. eexists. split; [eassumption|]. split; [reflexivity|].
  eapply cc_mtu; [reflexivity| |constructor]. apply N.ltb_ge. assumption.
Qed.

(* destruct the acc_res / checked scrutinee of the hypothesis *)
Ltac fres := match goal with
  | H : match ?x with Success => _ | Err _ => _ | ValueEqual => _ end = Some _ |- _ => destruct x
  end.
Ltac fchk := match goal with
  | H : match ?x with Failed _ => _ | Passed _ => _ end = Some _ |- _ => let f := fresh "f" in let h := fresh "h" in let i := fresh "i" in destruct x as [f|[h i]]
  end.
Ltac fread := match goal with E : access_read _ _ _ _ _ _ _ = Some _ |- _ => apply access_read_conns in E end.
Ltac fstep := first [fres | fchk | fbrk]; fmon.

Lemma read_common_conns c st cid pdu b n rsp h index off st' r :
  handle_read_common c st cid pdu b n rsp h index off = Some (st', r) -> conns st' = conns st.
Proof. unfold handle_read_common. intros H. fmon. fread. fres; fmon; auto. Qed.

Lemma read_conns c st cid pdu b n st' r : handle_read c st cid pdu b n = Some (st', r) -> conns st' = conns st.
Proof. unfold handle_read. intros H. fmon. fchk; fmon; auto. eapply read_common_conns; eauto. Qed.

Lemma read_blob_conns c st cid pdu b n st' r : handle_read_blob c st cid pdu b n = Some (st', r) -> conns st' = conns st.
Proof. unfold handle_read_blob. intros H. fmon. fchk; fmon; auto. eapply read_common_conns; eauto. Qed.

Lemma collect_attribute_conns c st cid k e index a st' k' :
  collect_attribute c st cid k e index a = Some (st', k') -> conns st' = conns st.
Proof.
  unfold collect_attribute. intros H. fbrk; fmon; auto. fread.
  fres; fmon; auto. fbrk; fmon. fbrk; fmon; auto.
Qed.

Lemma all_attributes_conns fuel : forall c st cid f k e index last eh st' k',
  all_attributes fuel c st cid f k e index last eh = Some (st', k') -> conns st' = conns st.
Proof.
  induction fuel as [|fuel IH]; intros c st cid f k e index last eh st' k' H; simpl in H; fmon; auto.
  fbrk; fmon; auto. fbrk.
  - fmon. match goal with E : collect_attribute _ _ _ _ _ _ _ = Some _ |- _ => apply collect_attribute_conns in E end.
    apply IH in H. congruence.
  - apply IH in H. auto.
Qed.

Lemma read_by_type_conns c st cid pdu b n st' r : handle_read_by_type c st cid pdu b n = Some (st', r) -> conns st' = conns st.
Proof.
  unfold handle_read_by_type. intros H. fmon. fchk; fmon; auto.
  match goal with E : all_attributes _ _ _ _ _ _ _ _ _ _ = Some _ |- _ => apply all_attributes_conns in E end.
  fbrk; fmon; auto.
Qed.

Lemma read_multiple_loop_conns c cid opcode b0 n : forall m hs st b p st' r,
  (length hs <= m)%nat ->
  read_multiple_loop c st cid opcode hs b0 b p n = Some (st', r) -> conns st' = conns st.
Proof.
  induction m as [|m IH]; intros hs st b p st' r L H.
  - destruct hs; [|simpl in L; lia]. simpl in H. fmon. auto.
  - destruct hs as [|lo [|hi t]]; simpl in H; fmon; auto.
    fbrk; fmon; auto. fbrk; fmon; auto. fread.
    fres; fmon; auto. fbrk; fmon. apply IH in H; [congruence|]. simpl in L. lia.
Qed.

Lemma read_multiple_conns c st cid pdu b n st' r : handle_read_multiple c st cid pdu b n = Some (st', r) -> conns st' = conns st.
Proof.
  unfold handle_read_multiple. intros H. fmon. fbrk; fmon; auto.
  eapply read_multiple_loop_conns in H; eauto.
Qed.

Ltac fwrite := match goal with E : access_write _ _ _ _ _ _ = Some _ |- _ => apply access_write_frame in E end.

Lemma write_request_frame mt c st cid pdu b n st' r k :
  get_conn st cid = Some k -> handle_write_request c st cid pdu b n = Some (st', r) -> frameb mt cid st st'.
Proof.
  intros G. unfold handle_write_request. intros H. fmon. fbrk; fmon; [eapply frame_same; eauto|].
  fchk; fmon; [eapply frame_same; eauto|]. fwrite. fres; fmon; auto.
Show.
