(* C11 "never lost": bounded progress of indications at the server level.
   If confirmations keep arriving (a Handle Value Confirmation before every poll) then an indication request
   that is pending in the queue of a connection is taken from the queue by l2cap_output after at most
   (number of pending requests of that connection) polls - whatever else is pending, whether or not the other
   requests can be sent (an unsent indication does not block: fix/C08-C11-notification-path) - and, the client
   being subscribed and the value readable, it is transmitted. Composition of NQueueDrain.v (queue level,
   through the abstraction of C12) with the l2cap_output / confirmation lemmas of AttSrvProofsC11.v. *)
From Coq Require Import Lia ZifyBool.
From BT Require Import Base.ListX Base.Bits2 AttDb.AttDbModel NQueue.NQueueModel NQueue.NQueueSpec NQueue.NQueueProofs NQueue.NQueueDrain
  AttSrv.AttSrvModel AttSrv.AttSrvSpecC01 AttSrv.AttSrvProofsC01 AttSrv.AttSrvFrame AttSrv.AttSrvProofsC08 AttSrv.AttSrvProofsC10 AttSrv.AttSrvProofsC11.
Local Open Scope N_scope.

(* everything of a connection but its queue *)
Definition same_but_queue (k k' : conn) : Prop :=
  client_mtu k' = client_mtu k /\ cccd k' = cccd k /\ encrypted k' = encrypted k /\ pairing k' = pairing k.

Lemma sbq_refl k : same_but_queue k k.
Proof. repeat split. Qed.
Lemma sbq_trans a b d : same_but_queue a b -> same_but_queue b d -> same_but_queue a d.
Proof. intros (A1 & A2 & A3 & A4) (B1 & B2 & B3 & B4). repeat split; congruence. Qed.

(* ------------------------------------------------------------------ the confirmation step *)
Lemma confirm_step c st cid n k :
  get_conn st cid = Some k -> default_att_mtu <= N.min n (negotiated_mtu c k) ->
  srv_step c st (OpIn cid [30] n) = (set_conn st cid (fst (nq_step k Confirm)), OBytes []).
Proof.
  intros G M. cbn [srv_step]. rewrite (att_input_opcode30 c st cid [30] n k G eq_refl M).
  destruct (confirmation_good c st cid (repeat fill_byte (N.to_nat n)) (N.min n (negotiated_mtu c k)) k G) as (HC & _).
  rewrite HC. replace (0 <=? len (repeat fill_byte (N.to_nat n))) with true by (symmetry; apply N.leb_le; lia). reflexivity.
Qed.

Lemma confirm_abs s m : st_rel s m -> st_rel (fst (NQueueModel.step s Confirm)) (mkm (mlevels m) false).
Proof.
  intros R. destruct (step_rel s m Confirm R) as (m' & E & R'). cbn [NQueueModel.step snd mstep] in E. inversion E; subst. exact R'.
Qed.

(* ------------------------------------------------------------------ the poll step *)
Lemma att_output_conn c st cid n st' rs k q1 r :
  get_conn st cid = Some k -> NQueueModel.step (nq k) Dequeue = (q1, r) ->
  att_output c st cid n = Some (st', rs) ->
  exists k', get_conn st' cid = Some k' /\ same_but_queue k k'
             /\ (nq k' = q1 \/ nq k' = fst (NQueueModel.step q1 Confirm)).
Proof.
  intros G D. unfold att_output. rewrite G. unfold nq_step at 1. rewrite D.
  set (k1 := mkConn (client_mtu k) (cccd k) (encrypted k) (pairing k) q1).
  assert (G1 : get_conn (set_conn st cid k1) cid = Some k1).
  { unfold get_conn, set_conn. cbn [conns]. apply nth_error_upd_eq. eapply nth_error_lt; eauto. }
  assert (S1 : same_but_queue k k1) by (repeat split).
  assert (U : forall s kd, get_conn s cid = Some k1 ->
              exists k', get_conn (unsent_indication s cid kd) cid = Some k' /\ same_but_queue k k'
                         /\ (nq k' = q1 \/ nq k' = fst (NQueueModel.step q1 Confirm))).
  { intros s kd Gs. unfold unsent_indication. destruct kd.
    - exists k1. auto.
    - rewrite Gs. eexists. split.
      + unfold get_conn, set_conn. cbn [conns]. apply nth_error_upd_eq. eapply nth_error_lt; eauto.
      + unfold nq_step. cbn [nq k1 fst NQueueModel.step]. split; [repeat split|right; reflexivity]. }
  destruct r as [x|[[kd i]|]|]; try (intros H; inv H; exists k1; auto).
  destruct (find_notification_data_by_index c (N.of_nat i)) as [ai ci].
  destruct (negb _ && _).
Show.
