From BT Require Import Base.ListX Adv.AdvModel Adv.AdvSpec.
From Coq Require Import Lia ZifyBool.
Local Open Scope N_scope.

Lemma map_cases m : 0 < m < 8 -> m = 1 \/ m = 2 \/ m = 3 \/ m = 4 \/ m = 5 \/ m = 6 \/ m = 7.
Proof. lia. Qed.

Lemma enabled_range map ch : chan_enabled map ch = true -> ch = 37 \/ ch = 38 \/ ch = 39.
Proof. unfold chan_enabled. intros H. apply andb_prop in H as [H _]. apply andb_prop in H as [H1 H2]. lia. Qed.

Lemma var_step map idx :
  0 < map < 8 -> chan_enabled map (idx + 37) = true ->
  let i' := var_next map idx in
  chan_enabled map (i' + 37) = true /\
  match next_enabled_after map (idx + 37) with
  | Some e => i' + 37 = e /\ (i' =? first_channel_index map) = false /\ idx + 37 < e
  | None => i' = first_channel_index map
  end.
Proof.
  intros Hm He.
  assert (Hi : idx = 0 \/ idx = 1 \/ idx = 2) by (apply enabled_range in He; lia).
  destruct (map_cases map Hm) as [->|[->|[->|[->|[->|[->| ->]]]]]];
  destruct Hi as [->|[->| ->]]; vm_compute in He; try discriminate He; vm_compute; repeat split; auto; discriminate.
Qed.

Lemma var_first map :
  0 < map < 8 ->
  chan_enabled map (first_channel_index map + 37) = true /\ first_channel_index map + 37 = lowest_channel map.
Proof.
  intros Hm.
  destruct (map_cases map Hm) as [->|[->|[->|[->|[->|[->| ->]]]]]]; vm_compute; auto.
Qed.
