From BT Require Import Base.ListX Base.Bits2 NQueue.NQueueModel NQueue.NQueueSpec NQueue.NQueueProofs NQueue.NQueueSched.
From Coq Require Import Lia ZifyBool.
Local Open Scope nat_scope.

(* ------------------------------------------------------------------ a byte = four 2-bit fields *)
Definition pk (a b c d : N) : N := (a + 4 * b + 16 * c + 64 * d)%N.

Definition unpack_ok : bool :=
  forallb (fun v => (v =? pk (bget v 0) (bget v 1) (bget v 2) (bget v 3))%N) (Nrange 256).
Lemma unpack_ok_true : unpack_ok = true.
Proof. vm_compute. reflexivity. Qed.
Lemma unpack v : (v < 256)%N -> v = pk (bget v 0) (bget v 1) (bget v 2) (bget v 3).
Proof.
  intros H. pose proof unpack_ok_true as S. unfold unpack_ok in S.
  rewrite forallb_forall in S. specialize (S v (In_Nrange 256 v H)). apply N.eqb_eq in S. exact S.
Qed.

Definition pack_ok : bool :=
  forallb (fun a => forallb (fun b => forallb (fun c => forallb (fun d =>
    (pk a b c d <? 256)%N && (bget (pk a b c d) 0 =? a)%N && (bget (pk a b c d) 1 =? b)%N &&
    (bget (pk a b c d) 2 =? c)%N && (bget (pk a b c d) 3 =? d)%N)
    (Nrange 4)) (Nrange 4)) (Nrange 4)) (Nrange 4).
Lemma pack_ok_true : pack_ok = true.
Proof. vm_compute. reflexivity. Qed.
Lemma bget_pk a b c d : (a < 4)%N -> (b < 4)%N -> (c < 4)%N -> (d < 4)%N ->
  (pk a b c d < 256)%N /\ bget (pk a b c d) 0 = a /\ bget (pk a b c d) 1 = b /\
  bget (pk a b c d) 2 = c /\ bget (pk a b c d) 3 = d.
Proof.
  intros Ha Hb Hc Hd. pose proof pack_ok_true as S. unfold pack_ok in S.
  rewrite forallb_forall in S. specialize (S a (In_Nrange 4 a Ha)).
  rewrite forallb_forall in S. specialize (S b (In_Nrange 4 b Hb)).
  rewrite forallb_forall in S. specialize (S c (In_Nrange 4 c Hc)).
  rewrite forallb_forall in S. specialize (S d (In_Nrange 4 d Hd)).
  repeat rewrite andb_true_iff in S. destruct S as [[[[S0 S1] S2] S3] S4].
  apply N.ltb_lt in S0. apply N.eqb_eq in S1, S2, S3, S4. auto.
Qed.

Lemma byte_ext v w : (v < 256)%N -> (w < 256)%N ->
  (forall t, t < 4 -> bget v t = bget w t) -> v = w.
Proof.
  intros Hv Hw H. rewrite (unpack v Hv), (unpack w Hw).
  rewrite (H 0), (H 1), (H 2), (H 3) by lia. reflexivity.
Qed.

(* ------------------------------------------------------------------ the abstract bytes of a level *)
Definition pwf (p : list N) : Prop := forall j, (nth j p 0 < 4)%N.

Lemma pack4_pk p b :
  pack4 p b = pk (nth (4 * b) p 0%N) (nth (4 * b + 1) p 0%N) (nth (4 * b + 2) p 0%N) (nth (4 * b + 3) p 0%N).
Proof. reflexivity. Qed.

Lemma pack4_lt p b : pwf p -> (pack4 p b < 256)%N.
Proof. intros W. rewrite pack4_pk. apply bget_pk; apply W. Qed.

Lemma bget_pack4 p b t : pwf p -> t < 4 -> bget (pack4 p b) t = nth (4 * b + t) p 0%N.
Proof.
  intros W Ht. rewrite pack4_pk.
  destruct (bget_pk _ _ _ _ (W (4 * b)) (W (4 * b + 1)) (W (4 * b + 2)) (W (4 * b + 3))) as (_ & A0 & A1 & A2 & A3).
  destruct t as [|[|[|[|t]]]]; try lia; auto.
  rewrite Nat.add_0_r. exact A0.
Qed.

Lemma idx_split i : i = 4 * boff i + slot i.
Proof. unfold boff, slot. apply Nat.div_mod. lia. Qed.

Lemma pwf_upd p i x : pwf p -> (x < 4)%N -> pwf (upd p i x).
Proof.
  intros W Hx j. destruct (Nat.eq_dec i j) as [->|Hne].
  - destruct (Nat.lt_ge_cases j (length p)).
    + rewrite nth_upd_eq by auto. auto.
    + rewrite upd_out by auto. apply W.
  - rewrite nth_upd_neq by auto. apply W.
Qed.

Lemma pack4_upd_other p i x b : b <> boff i -> pack4 (upd p i x) b = pack4 p b.
Proof.
  intros Hb. unfold pack4. pose proof (idx_split i). pose proof (slot_lt i).
  rewrite !nth_upd_neq by lia. reflexivity.
Qed.

Lemma nth_upd_slot p i x t : i < length p -> t < 4 ->
  nth (4 * boff i + t) (upd p i x) 0%N = if t =? slot i then x else nth (4 * boff i + t) p 0%N.
Proof.
  intros Hi Ht. pose proof (idx_split i). destruct (t =? slot i) eqn:E.
  - apply Nat.eqb_eq in E. subst t. rewrite <- H. apply nth_upd_eq. auto.
  - apply Nat.eqb_neq in E. apply nth_upd_neq. lia.
Qed.

Lemma pack4_upd_or p i k : pwf p -> i < length p ->
  pack4 (upd p i (N.lor (nth i p 0%N) (kbit k))) (boff i) = byte_or (pack4 p (boff i)) (slot i) (kbit k).
Proof.
  intros W Hi. pose proof (kbit_lt k) as Hk. pose proof (slot_lt i) as Hs.
  pose proof (pack4_lt p (boff i) W) as HB.
  assert (W' : pwf (upd p i (N.lor (nth i p 0%N) (kbit k)))) by (apply pwf_upd; auto; apply lor_lt4; apply W).
  destruct (sweep _ _ _ HB Hs Hk) as (S1 & _ & _ & S4 & _ & _ & _ & S8).
  apply byte_ext; auto using pack4_lt.
  intros t Ht. rewrite bget_pack4 by auto. rewrite nth_upd_slot by auto.
  destruct (t =? slot i) eqn:E.
  - apply Nat.eqb_eq in E. subst t. rewrite S1. rewrite bget_pack4 by auto. rewrite <- idx_split. reflexivity.
  - apply Nat.eqb_neq in E. destruct (S8 t Ht ltac:(lia)) as (A & _ & _). rewrite A.
    rewrite bget_pack4 by auto. reflexivity.
Qed.

Lemma pack4_upd_clr p i k : pwf p -> i < length p ->
  pack4 (upd p i (N.ldiff (nth i p 0%N) (kbit k))) (boff i) = byte_clr (pack4 p (boff i)) (slot i) (kbit k).
Proof.
  intros W Hi. pose proof (kbit_lt k) as Hk. pose proof (slot_lt i) as Hs.
  pose proof (pack4_lt p (boff i) W) as HB.
  assert (W' : pwf (upd p i (N.ldiff (nth i p 0%N) (kbit k)))) by (apply pwf_upd; auto; apply ldiff_lt4; apply W).
  destruct (sweep _ _ _ HB Hs Hk) as (_ & S2 & _ & _ & S5 & _ & _ & S8).
  apply byte_ext; auto using pack4_lt.
  intros t Ht. rewrite bget_pack4 by auto. rewrite nth_upd_slot by auto.
  destruct (t =? slot i) eqn:E.
  - apply Nat.eqb_eq in E. subst t. rewrite S2. rewrite bget_pack4 by auto. rewrite <- idx_split. reflexivity.
  - apply Nat.eqb_neq in E. destruct (S8 t Ht ltac:(lia)) as (_ & B & _). rewrite B.
    rewrite bget_pack4 by auto. reflexivity.
Qed.

Lemma abs_bytes_length p : length (abs_bytes p) = nbytes (length p).
Proof. unfold abs_bytes. rewrite map_length, seq_length. reflexivity. Qed.

Lemma nth_abs_bytes p b : b < nbytes (length p) -> nth b (abs_bytes p) 0%N = pack4 p b.
Proof. intros H. unfold abs_bytes. apply nth_map_seq. auto. Qed.

Lemma abs_bytes_upd p i x : i < length p ->
  abs_bytes (upd p i x) = upd (abs_bytes p) (boff i) (pack4 (upd p i x) (boff i)).
Proof.
  intros Hi. apply nth_ext_len with (d := 0%N).
  - rewrite upd_length, !abs_bytes_length, upd_length. reflexivity.
  - intros b Hb. rewrite abs_bytes_length, upd_length in Hb.
    rewrite nth_abs_bytes by (rewrite upd_length; auto).
    destruct (Nat.eq_dec b (boff i)) as [->|Hne].
    + rewrite nth_upd_eq by (rewrite abs_bytes_length; auto). reflexivity.
    + rewrite nth_upd_neq by auto. rewrite nth_abs_bytes by auto. apply pack4_upd_other. auto.
Qed.

Lemma pack4_single p : length p = 1 -> pack4 p 0 = nth 0 p 0%N.
Proof.
  intros H. destruct p as [|x [|y p]]; simpl in H; try lia.
  unfold pack4. cbn [Nat.mul Nat.add nth]. lia.
Qed.
(* ------------------------------------------------------------------ lists *)
Lemma Forall2_nth (A B : Type) (R : A -> B -> Prop) l1 l2 d1 d2 n :
  Forall2 R l1 l2 -> n < length l1 -> R (nth n l1 d1) (nth n l2 d2).
Proof.
  intros F. revert n. induction F; intros [|n] Hn; simpl in *; try lia; auto. apply IHF. lia.
Qed.

Lemma Forall2_upd (A B : Type) (R : A -> B -> Prop) l1 l2 n a b :
  Forall2 R l1 l2 -> R a b -> Forall2 R (upd l1 n a) (upd l2 n b).
Proof.
  intros F Hab. revert n. induction F; intros [|n]; simpl; constructor; auto.
Qed.

Lemma map_upd (A B : Type) (f : A -> B) l n a : map f (upd l n a) = upd (map f l) n (f a).
Proof. revert n. induction l as [|h t IH]; intros [|n]; simpl; auto. f_equal. apply IH. Qed.

Lemma addr_eqb_eq a b : addr_eqb a b = true <-> a = b.
Proof.
  destruct a as [a1 a2], b as [b1 b2]. unfold addr_eqb. simpl.
  rewrite andb_true_iff, !Nat.eqb_eq. split; [intros [-> ->]; auto|intros H; inversion H; auto].
Qed.

(* ------------------------------------------------------------------ memory *)
Definition is_single (l : level) : bool := match l with Single _ => true | General _ _ _ => false end.
Definition szs (ls : list level) : list nat := map lsize ls.
Definition kinds (ls : list level) : list bool := map is_single ls.

Lemma lsize_nth ls lv : lsize (nth lv ls dlevel) = nth lv (szs ls) 1.
Proof. unfold szs. change 1 with (lsize dlevel). symmetry. apply map_nth. Qed.
Lemma single_nth ls lv : is_single (nth lv ls dlevel) = nth lv (kinds ls) true.
Proof. unfold kinds. change true with (is_single dlevel). symmetry. apply map_nth. Qed.

Lemma lbytes_lput l b v : lbytes (lput l b v) = upd (lbytes l) b v.
Proof. destruct l as [s n q|st]; simpl; auto. destruct b; reflexivity. Qed.
Lemma lsize_lput l b v : lsize (lput l b v) = lsize l.
Proof. destruct l as [s n q|st]; simpl; auto. destruct b; reflexivity. Qed.
Lemma lnxt_lput l b v : lnxt (lput l b v) = lnxt l.
Proof. destruct l as [s n q|st]; simpl; auto. destruct b; reflexivity. Qed.
Lemma single_lput l b v : is_single (lput l b v) = is_single l.
Proof. destruct l as [s n q|st]; simpl; auto. destruct b; reflexivity. Qed.

Lemma szs_mstore ls a v : szs (mstore ls a v) = szs ls.
Proof.
  unfold mstore, szs. rewrite map_upd, lsize_lput, lsize_nth. apply upd_same.
Qed.
Lemma kinds_mstore ls a v : kinds (mstore ls a v) = kinds ls.
Proof.
  unfold mstore, kinds. rewrite map_upd, single_lput, single_nth. apply upd_same.
Qed.
Lemma szs_set_next ls lv n : szs (set_next ls lv n) = szs ls.
Proof.
  unfold set_next, szs. rewrite map_upd.
  replace (lsize (lset_next (nth lv ls dlevel) n)) with (lsize (nth lv ls dlevel)) by (destruct (nth lv ls dlevel); reflexivity).
  rewrite lsize_nth. apply upd_same.
Qed.
Lemma kinds_set_next ls lv n : kinds (set_next ls lv n) = kinds ls.
Proof.
  unfold set_next, kinds. rewrite map_upd.
  replace (is_single (lset_next (nth lv ls dlevel) n)) with (is_single (nth lv ls dlevel)) by (destruct (nth lv ls dlevel); reflexivity).
  rewrite single_nth. apply upd_same.
Qed.
Lemma length_mstore ls a v : length (mstore ls a v) = length ls.
Proof. unfold mstore. apply upd_length. Qed.
Lemma length_set_next ls lv n : length (set_next ls lv n) = length ls.
Proof. unfold set_next. apply upd_length. Qed.

Lemma mload_mstore_neq ls a v a' : a <> a' -> mload (mstore ls a v) a' = mload ls a'.
Proof.
  destruct a as [lv b], a' as [lv' b']. intros Hne. unfold mload, mstore. simpl.
  destruct (Nat.eq_dec lv lv') as [<-|Hl].
  - destruct (Nat.lt_ge_cases lv (length ls)).
    + rewrite nth_upd_eq by auto. rewrite lbytes_lput. apply nth_upd_neq. congruence.
    + rewrite upd_out by auto. reflexivity.
  - rewrite nth_upd_neq by auto. reflexivity.
Qed.

Lemma mload_set_next ls lv n a : mload (set_next ls lv n) a = mload ls a.
Proof.
  destruct a as [lv' b']. unfold mload, set_next. simpl.
  destruct (Nat.eq_dec lv lv') as [<-|Hl].
  - destruct (Nat.lt_ge_cases lv (length ls)).
    + rewrite nth_upd_eq by auto. destruct (nth lv ls dlevel); reflexivity.
    + rewrite upd_out by auto. reflexivity.
  - rewrite nth_upd_neq by auto. reflexivity.
Qed.

(* ------------------------------------------------------------------ level ~ pending values *)
Record lrel (l : level) (p : list N) : Prop := {
  lr_len : length p = lsize l;
  lr_pos : 1 <= lsize l;
  lr_wf : pwf p;
  lr_bytes : lbytes l = abs_bytes p;
  lr_next : lnxt l < lsize l }.

Lemma szs_agree ls m : Forall2 lrel ls m -> szs ls = map (@length N) m.
Proof. intros F. induction F; simpl; auto. f_equal; auto. symmetry. apply lr_len. auto. Qed.

Lemma lrel_nth ls m lv : Forall2 lrel ls m -> lv < length ls -> lrel (nth lv ls dlevel) (nth lv m []).
Proof. apply Forall2_nth. Qed.

Lemma len_pend ls m lv : Forall2 lrel ls m -> lv < length ls -> length (nth lv m []) = nth lv (szs ls) 1.
Proof. intros F H. rewrite <- lsize_nth. apply lr_len. apply lrel_nth; auto. Qed.

Lemma mload_abs ls m lv i :
  Forall2 lrel ls m -> lv < length ls -> i < nth lv (szs ls) 1 ->
  mload ls (lv, boff i) = pack4 (nth lv m []) (boff i) /\
  bget (mload ls (lv, boff i)) (slot i) = pend_at m lv i.
Proof.
  intros F Hl Hi. pose proof (lrel_nth ls m lv F Hl) as R. pose proof (len_pend ls m lv F Hl) as L.
  assert (E : mload ls (lv, boff i) = pack4 (nth lv m []) (boff i)).
  { unfold mload. simpl. rewrite (lr_bytes _ _ R). apply nth_abs_bytes. apply boff_lt. lia. }
  split; auto. rewrite E. rewrite bget_pack4 by (apply (lr_wf _ _ R) || apply slot_lt).
  rewrite <- idx_split. reflexivity.
Qed.

Lemma pend_at_set_eq m lv i x :
  lv < length m -> i < length (nth lv m []) -> pend_at (pend_set m lv i x) lv i = x.
Proof. intros Hl Hi. unfold pend_at, pend_set. rewrite nth_upd_eq by auto. apply nth_upd_eq. auto. Qed.

Lemma pend_at_set_neq m lv i x lv' i' :
  (lv', i') <> (lv, i) -> pend_at (pend_set m lv i x) lv' i' = pend_at m lv' i'.
Proof.
  intros Hne. unfold pend_at, pend_set.
  destruct (Nat.eq_dec lv lv') as [<-|Hl].
  - destruct (Nat.lt_ge_cases lv (length m)).
    + rewrite nth_upd_eq by auto. apply nth_upd_neq. congruence.
    + rewrite upd_out by auto. reflexivity.
  - rewrite nth_upd_neq by auto. reflexivity.
Qed.

Lemma abs_byte_set m lv i x b :
  lv < length m -> abs_byte (pend_set m lv i x) (lv, b) = pack4 (upd (nth lv m []) i x) b.
Proof. intros H. unfold abs_byte, pend_set. simpl. rewrite nth_upd_eq by auto. reflexivity. Qed.

Lemma lrel_store ls m lv i x :
  Forall2 lrel ls m -> lv < length ls -> i < nth lv (szs ls) 1 -> (x < 4)%N ->
  Forall2 lrel (mstore ls (lv, boff i) (pack4 (upd (nth lv m []) i x) (boff i))) (pend_set m lv i x).
Proof.
  intros F Hl Hi Hx. pose proof (lrel_nth ls m lv F Hl) as R. pose proof (len_pend ls m lv F Hl) as L.
  unfold mstore, pend_set. simpl. apply Forall2_upd; auto.
  destruct R as [R1 R2 R3 R4 R5]. constructor.
  - rewrite upd_length, lsize_lput. auto.
  - rewrite lsize_lput. auto.
  - apply pwf_upd; auto.
  - rewrite lbytes_lput, R4. symmetry. apply abs_bytes_upd. lia.
  - rewrite lnxt_lput, lsize_lput. auto.
Qed.

Lemma lrel_set_next ls m lv n :
  Forall2 lrel ls m -> n < nth lv (szs ls) 1 -> Forall2 lrel (set_next ls lv n) m.
Proof.
  intros F Hn. unfold set_next.
  destruct (Nat.lt_ge_cases lv (length ls)) as [Hl|Hl]; [|rewrite upd_out by auto; auto].
  pose proof (lrel_nth ls m lv F Hl) as R.
  rewrite <- (upd_same m lv []). apply Forall2_upd; auto.
  rewrite <- lsize_nth in Hn.
  destruct R as [R1 R2 R3 R4 R5]. destruct (nth lv ls dlevel) as [s nx q|st]; simpl in *; constructor; simpl; auto.
Qed.

(* ------------------------------------------------------------------ locating a characteristic *)
Definition offs (z : list nat) (lv : nat) : nat := list_sum (firstn lv z).

Lemma locate_bound z : forall lv0 gi lv i,
  locate z lv0 gi = Some (lv, i) -> lv0 <= lv /\ lv - lv0 < length z /\ i < nth (lv - lv0) z 1.
Proof.
  induction z as [|s t IH]; intros lv0 gi lv i H; simpl in H; [discriminate|].
  destruct (gi <? s) eqn:E.
  - inversion H; subst. apply Nat.ltb_lt in E. rewrite Nat.sub_diag. simpl. lia.
  - apply IH in H. destruct H as (A & B & C). replace (lv - lv0) with (S (lv - S lv0)) by lia. simpl. lia.
Qed.

Lemma locate_offs z : forall lv0 lv i,
  lv < length z -> i < nth lv z 1 -> locate z lv0 (i + offs z lv) = Some (lv0 + lv, i).
Proof.
  induction z as [|s t IH]; intros lv0 lv i Hl Hi; simpl in Hl; [lia|].
  destruct lv as [|lv]; simpl in *.
  - unfold offs. simpl. rewrite Nat.add_0_r. apply Nat.ltb_lt in Hi. rewrite Hi. f_equal. f_equal. lia.
  - unfold offs. simpl. fold (offs t lv).
    assert (i + (s + offs t lv) <? s = false) as -> by (apply Nat.ltb_ge; lia).
    replace (i + (s + offs t lv) - s) with (i + offs t lv) by lia.
    rewrite IH by lia. f_equal. f_equal. lia.
Qed.

Lemma offs_S z lv : lv < length z -> offs z (S lv) = offs z lv + nth lv z 1.
Proof.
  revert lv. induction z as [|s t IH]; intros lv H; simpl in H; [lia|].
  destruct lv as [|lv]; [unfold offs; simpl; lia|].
  change (offs (s :: t) (S (S lv))) with (s + offs t (S lv)).
  change (offs (s :: t) (S lv)) with (s + offs t lv).
  change (nth (S lv) (s :: t) 1) with (nth lv t 1).
  rewrite IH by lia. lia.
Qed.
(* ------------------------------------------------------------------ system ~ monitor *)
Definition pinv (s : sys) (m : smon) : Prop :=
  match pst s with
  | PIdle => pwin m = None
  | PLoad2 a p k r =>
      exists gi rest lv i d, pprog s = (k, gi) :: rest /\ locate (szs (mem s)) 0 gi = Some (lv, i) /\
        a = (lv, boff i) /\ p = slot i /\ pwin m = Some (a, d) /\
        (d = false -> r = negb (has (pend_at (mp m) lv i) k))
  | PStore a p k r v =>
      exists gi rest lv i d, pprog s = (k, gi) :: rest /\ locate (szs (mem s)) 0 gi = Some (lv, i) /\
        a = (lv, boff i) /\ p = slot i /\ pwin m = Some (a, d) /\
        (d = false -> r = negb (has (pend_at (mp m) lv i) k) /\ v = mload (mem s) a)
  end.

Definition deq_head (s : sys) : Prop := exists rest, cprog s = CDeq :: rest.

Definition cinv (s : sys) (m : smon) (c : cstate) : Prop :=
  match c with
  | CIdle => True
  | CScan lv off fuel i =>
      deq_head s /\ lv < length (mem s) /\ off = offs (szs (mem s)) lv /\ i < nth lv (szs (mem s)) 1
  | CSingI lv off | CSingN lv off =>
      deq_head s /\ lv < length (mem s) /\ off = offs (szs (mem s)) lv /\ nth lv (kinds (mem s)) true = true
  | CRem a p k gi =>
      deq_head s /\ exists lv i, locate (szs (mem s)) 0 gi = Some (lv, i) /\ a = (lv, boff i) /\ p = slot i /\
        has (pend_at (mp m) lv i) k = true
  | CRemS a p k gi v =>
      deq_head s /\ exists lv i d, locate (szs (mem s)) 0 gi = Some (lv, i) /\ a = (lv, boff i) /\ p = slot i /\
        has (pend_at (mp m) lv i) k = true /\ cwin m = Some (a, d) /\ (d = false -> v = mload (mem s) a)
  end.

Record srel (s : sys) (m : smon) : Prop := {
  sr_mem : Forall2 lrel (mem s) (mp m);
  sr_pq : mpq m = pprog s;
  sr_cq : mcq m = cprog s;
  sr_p : pinv s m;
  sr_c : cinv s m (cst s) }.

Definition step_ok (s' : sys) (v : sverdict * smon) : Prop :=
  match v with (SOk, m') => srel s' m' | (SBad t, _) => 10 < t end.

Lemma locate_lt ls m gi lv i :
  Forall2 lrel ls m -> locate (szs ls) 0 gi = Some (lv, i) ->
  lv < length ls /\ i < nth lv (szs ls) 1 /\ lv < length m /\ i < length (nth lv m []).
Proof.
  intros F H. apply locate_bound in H. rewrite Nat.sub_0_r in H. destruct H as (_ & A & B).
  unfold szs in A. rewrite map_length in A.
  pose proof (Forall2_length F). pose proof (len_pend ls m lv F A). repeat split; lia.
Qed.

Lemma has_kbit_test x k : (N.land x (kbit k) =? 0)%N = negb (has x k).
Proof. unfold has. rewrite negb_involutive. reflexivity. Qed.

Lemma tagw_big t d : (d = false -> False) -> 10 < tagw t d.
Proof. destruct d; simpl; intros H; [lia|exfalso; auto]. Qed.

Lemma chk_store_clean m a v d : v = abs_byte m a -> chk_store m a v d = None.
Proof. intros ->. unfold chk_store. rewrite N.eqb_refl. reflexivity. Qed.

Lemma chk_store_cases m a v d :
  match chk_store m a v d with
  | None => v = abs_byte m a
  | Some t => v <> abs_byte m a /\ t = tagw (if (N.ldiff (abs_byte m a) v =? 0)%N then t_dup else t_lost) d
  end.
Proof.
  unfold chk_store. destruct (v =? abs_byte m a)%N eqn:E.
  - apply N.eqb_eq in E. auto.
  - apply N.eqb_neq in E. auto.
Qed.

(* ---- the producer's micro-steps *)
Lemma p_step_ok s m :
  srel s m -> (pst s <> PIdle \/ pprog s <> []) ->
  let '(ls, p', ac, r) := p_micro (mem s) (pprog s) (pst s) in
  step_ok (mks ls (outst s) (if done r then tl (pprog s) else pprog s) p' (cprog s) (cst s))
          (smstep m StepP (OStep ac r)).
Proof.
  intros [F Q1 Q2 P C] Hne.
  destruct s as [ls ou pp ps cp cs]. simpl in *.
  pose proof (szs_agree _ _ F) as Z.
  destruct ps as [|a p k r|a p k r v]; simpl in P |- *.
  - (* first load *)
    destruct pp as [|[k gi] rest]; [destruct Hne; congruence|].
    fold (szs ls). destruct (locate (szs ls) 0 gi) as [[lv i]|] eqn:L; simpl.
    + rewrite Q1, P. simpl.
      destruct (locate_lt _ _ _ _ _ F L) as (H1 & H2 & H3 & H4).
      destruct (mload_abs ls (mp m) lv i F H1 H2) as [E1 E2].
      constructor; simpl; auto.
      exists gi, rest, lv, i, false. repeat split; auto.
      pose proof (lrel_nth _ _ lv F H1) as R.
      rewrite sweep_test.
      * rewrite E2. apply has_kbit_test.
      * rewrite E1. apply pack4_lt. apply (lr_wf _ _ R).
      * apply slot_lt.
      * apply kbit_lt.
    + rewrite Q1. simpl. rewrite <- Z, L. constructor; simpl; auto.
  - (* second load *)
    destruct P as (gi & rest & lv & i & d & Hp & L & -> & -> & Hw & Hr).
    rewrite Q1, Hp. simpl. rewrite Hw. simpl.
    constructor; simpl; auto.
    exists gi, rest, lv, i, d. repeat split; auto. apply Hr; auto.
  - (* store *)
    destruct P as (gi & rest & lv & i & d & Hp & L & -> & -> & Hw & Hr).
    rewrite Q1, Hp. simpl. rewrite <- Z, L, Hw. simpl.
    destruct (locate_lt _ _ _ _ _ F L) as (H1 & H2 & H3 & H4).
    pose proof (lrel_nth _ _ lv F H1) as R.
    set (x := pend_at (mp m) lv i).
    destruct (Bool.eqb r (negb (has x k))) eqn:Er; simpl.
    2:{ apply tagw_big. intros ->. destruct (Hr eq_refl) as [-> _]. rewrite Bool.eqb_reflx in Er. discriminate. }
    pose proof (chk_store_cases (pend_set (mp m) lv i (N.lor x (kbit k))) (lv, boff i) (byte_or v (slot i) (kbit k)) d) as CS.
    destruct (chk_store _ _ _ d) as [t|].
    { destruct CS as [Hne' ->]. apply tagw_big. intros ->. destruct (Hr eq_refl) as [_ ->]. apply Hne'.
      rewrite abs_byte_set by auto.
      destruct (mload_abs ls (mp m) lv i F H1 H2) as [E1 _]. rewrite E1.
      symmetry. apply pack4_upd_or; auto. apply (lr_wf _ _ R). }
    rewrite abs_byte_set in CS by auto. rewrite CS.
    assert (Hx : (N.lor x (kbit k) < 4)%N) by (apply lor_lt4; apply (lr_wf _ _ R)).
    constructor; simpl; auto.
    + apply lrel_store; auto.
    + (* the consumer's invariant *)
      destruct cs as [|clv off fuel ci|clv off|clv off|ca cp' ck cgi|ca cp' ck cgi cv]; simpl in C |- *; auto;
        rewrite ?szs_mstore, ?kinds_mstore, ?length_mstore; auto.
      * destruct C as (D & lv' & i' & L' & -> & -> & Hh). split; auto.
        exists lv', i'. repeat split; auto.
        destruct (Nat.eq_dec lv' lv) as [->|]; [destruct (Nat.eq_dec i' i) as [->|]|].
        -- rewrite pend_at_set_eq by auto. rewrite has_lor by apply (lr_wf _ _ R). fold x. rewrite Hh. reflexivity.
        -- rewrite pend_at_set_neq by congruence. auto.
        -- rewrite pend_at_set_neq by congruence. auto.
      * destruct C as (D & lv' & i' & d' & L' & -> & -> & Hh & Hcw & Hv). split; auto.
        exists lv', i', (d' || addr_eqb (lv, boff i) (lv', boff i')). rewrite Hcw. simpl. repeat split; auto.
        -- destruct (Nat.eq_dec lv' lv) as [->|]; [destruct (Nat.eq_dec i' i) as [->|]|].
           ++ rewrite pend_at_set_eq by auto. rewrite has_lor by apply (lr_wf _ _ R). fold x. rewrite Hh. reflexivity.
           ++ rewrite pend_at_set_neq by congruence. auto.
           ++ rewrite pend_at_set_neq by congruence. auto.
        -- intros Hd. apply orb_false_iff in Hd. destruct Hd as [-> Hd].
           rewrite mload_mstore_neq; auto.
           intro Hc. apply addr_eqb_eq in Hc. congruence.
Qed.
