From BT Require Import Base.ListX Adv.AdvModel Adv.AdvSpec.
From Coq Require Import Lia ZifyBool.
Local Open Scope N_scope.

(* ------------------------------------------------------------------ bytes *)
Lemma byte_at_lt p i : bytes_ok p -> byte_at p i < 256.
Proof.
  unfold bytes_ok, byte_at. intros H. revert i. induction H as [|b t Hb Ht IH]; intros [|i]; cbn [nth]; try lia. apply IH.
Qed.

Lemma bytes_eqb_eq a b : bytes_eqb a b = true <-> a = b.
Proof.
  revert b. induction a as [|x a IH]; intros [|y b]; cbn [bytes_eqb]; split; intros H; try discriminate; auto.
  - apply andb_prop in H as [H1 H2]. apply N.eqb_eq in H1. apply IH in H2. congruence.
  - inversion H; subst. rewrite N.eqb_refl. cbn. apply IH. reflexivity.
Qed.

(* ------------------------------------------------------------------ the 16 bit header *)
Lemma land_low b0 b1 m : b0 < 256 -> N.land 255 m = m -> N.land (b0 + 256 * b1) m = N.land b0 m.
Proof.
  intros Hb Hm. rewrite <- Hm. rewrite N.land_assoc.
  change 255 with (N.ones 8). rewrite N.land_ones. change (2 ^ 8) with 256.
  assert (E : (b0 + 256 * b1) mod 256 = b0).
  { replace (b0 + 256 * b1) with (b0 + b1 * 256) by lia.
    rewrite N.mod_add by lia. apply N.mod_small. lia. }
  rewrite E. rewrite N.land_assoc, N.land_ones. change (2 ^ 8) with 256.
  rewrite (N.mod_small b0 256) by lia. reflexivity.
Qed.

Lemma shiftr8 b0 b1 : b0 < 256 -> N.shiftr (b0 + 256 * b1) 8 = b1.
Proof.
  intros Hb. rewrite N.shiftr_div_pow2. change (2 ^ 8) with 256.
  replace (b0 + 256 * b1) with (b1 * 256 + b0) by lia.
  rewrite N.div_add_l by lia. rewrite N.div_small by lia. lia.
Qed.

Lemma hdr_type p : bytes_ok p -> N.land (hdr p) 15 = pdu_type p.
Proof. intros H. unfold hdr, pdu_type. apply land_low; [apply byte_at_lt; auto|reflexivity]. Qed.
Lemma hdr_rx p : bytes_ok p -> negb (N.land (hdr p) header_rxaddr_field =? 0) = rx_add p.
Proof. intros H. unfold hdr, rx_add, header_rxaddr_field. rewrite land_low; [reflexivity|apply byte_at_lt; auto|reflexivity]. Qed.
Lemma hdr_tx p : bytes_ok p -> negb (N.land (hdr p) header_txaddr_field =? 0) = tx_add p.
Proof. intros H. unfold hdr, tx_add, header_txaddr_field. rewrite land_low; [reflexivity|apply byte_at_lt; auto|reflexivity]. Qed.
Lemma hdr_len p : bytes_ok p -> N.land (N.shiftr (hdr p) 8) 63 = len_field p.
Proof. intros H. unfold hdr, len_field. rewrite shiftr8; [reflexivity|apply byte_at_lt; auto]. Qed.

(* ------------------------------------------------------------------ the static predicates *)
Lemma eqb_sym_bool a b : Bool.eqb a b = Bool.eqb b a.
Proof. destruct a, b; reflexivity. Qed.

Lemma valid_connect_base_spec off own p :
  bytes_ok p -> valid_connect_base off own p = request_for_b 5 34 off own p.
Proof.
  intros H. unfold valid_connect_base, request_for_b, adv_a, connect_request_size, connect_request_code, address_length.
  rewrite (hdr_type p H), (hdr_rx p H), (hdr_len p H), (eqb_sym_bool (arandom own)).
  destruct (Nat.eqb (length p) (off + 34)); cbn [negb]; [|rewrite andb_false_r; reflexivity].
  destruct (pdu_type p =? 5), (len_field p =? N.of_nat 34); cbn [andb]; reflexivity.
Qed.

Lemma valid_scan_spec off own p :
  bytes_ok p -> valid_scan off own p = request_for_b 3 12 off own p.
Proof.
  intros H. unfold valid_scan, request_for_b, adv_a, scan_request_size, scan_request_code, address_length.
  rewrite (hdr_type p H), (hdr_rx p H), (hdr_len p H), (eqb_sym_bool (arandom own)).
  destruct (Nat.eqb (length p) (off + 12)); cbn [negb]; [|rewrite andb_false_r; reflexivity].
  destruct (pdu_type p =? 3), (len_field p =? N.of_nat 12); cbn [andb]; reflexivity.
Qed.

Lemma eqb_bool_eq a b : Bool.eqb a b = true <-> a = b.
Proof. destruct a, b; cbn; split; intros; auto; discriminate. Qed.

Lemma request_for_b_spec code size off own p :
  request_for_b code size off own p = true <-> request_for code size off own p.
Proof.
  unfold request_for_b, request_for. rewrite !andb_true_iff, N.eqb_eq, Nat.eqb_eq, N.eqb_eq, bytes_eqb_eq, eqb_bool_eq. tauto.
Qed.

Theorem connect_request_iff off own p :
  bytes_ok p -> (valid_connect_base off own p = true <-> connect_ind_for off own p).
Proof. intros H. rewrite valid_connect_base_spec by auto. apply request_for_b_spec. Qed.

Theorem scan_request_iff off own p :
  bytes_ok p -> (valid_scan off own p = true <-> scan_req_for off own p).
Proof. intros H. rewrite valid_scan_spec by auto. apply request_for_b_spec. Qed.

(* ------------------------------------------------------------------ handle_adv_receive *)
Definition target_of (s : state) : option addr := if d_valid s then Some (d_addr s) else None.

Lemma remote_is_initiator off p : bytes_ok p -> remote_of off p = initiator off p.
Proof. intros H. unfold remote_of, initiator, init_a, address_length. rewrite (hdr_tx p H). reflexivity. Qed.

Lemma valid_connect_directed_spec off own s p :
  bytes_ok p ->
  valid_connect_directed off own (d_addr s) (d_valid s) p =
  request_for_b 5 34 off own p && from_target_b off (target_of s) p.
Proof.
  intros H. unfold valid_connect_directed, from_target_b, target_of, init_a, address_length.
  rewrite (valid_connect_base_spec off own p H), (hdr_tx p H), (eqb_sym_bool (arandom (d_addr s))).
  destruct (request_for_b 5 34 off own p); cbn [negb andb]; [|reflexivity].
  destruct (d_valid s); [rewrite andb_true_r; reflexivity|].
  rewrite andb_false_r. reflexivity.
Qed.

Theorem accepts_spec c s p :
  bytes_ok p ->
  accepts c s p = match sel_type c s with
                  | Some t => may_connect_b (c_off c) (c_own c) (c_filter c) (target_of s) t p
                  | None => false
                  end.
Proof.
  intros H. unfold accepts, valid_connect. rewrite (remote_is_initiator (c_off c) p H).
  destruct (sel_type c s) as [[| | |]|]; cbn [may_connect_b andb]; auto.
  - rewrite valid_connect_base_spec by auto. reflexivity.
  - rewrite valid_connect_directed_spec by auto. reflexivity.
Qed.

Lemma from_target_b_spec off target p : from_target_b off target p = true <-> from_target off target p.
Proof.
  unfold from_target_b, from_target. destruct target as [t|].
  - rewrite andb_true_iff, bytes_eqb_eq, eqb_bool_eq. split.
    + intros [A B]. exists t. auto.
    + intros (t' & E & A & B). inversion E; subst. auto.
  - split; [discriminate|]. intros (t' & E & _). discriminate.
Qed.

Lemma may_connect_b_spec off own filter target t p :
  may_connect_b off own filter target t p = true <-> may_connect off own filter target t p.
Proof.
  destruct t; cbn [may_connect_b may_connect]; unfold connect_ind_for.
  - rewrite andb_true_iff, request_for_b_spec. tauto.
  - rewrite !andb_true_iff, request_for_b_spec, from_target_b_spec. tauto.
  - split; [discriminate|tauto].
  - split; [discriminate|tauto].
Qed.

Theorem accepts_iff c s p :
  bytes_ok p ->
  (accepts c s p = true <->
   exists t, sel_type c s = Some t /\ may_connect (c_off c) (c_own c) (c_filter c) (target_of s) t p).
Proof.
  intros H. rewrite accepts_spec by auto. destruct (sel_type c s) as [t|].
  - rewrite may_connect_b_spec. split; [intros M; exists t; auto|intros (t' & E & M); inversion E; subst; auto].
  - split; [discriminate|intros (t' & E & _); discriminate].
Qed.
