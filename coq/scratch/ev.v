From BT Require Import Base.ListX PduBuf.PduBufModel PduBuf.PduBufSpec PduBuf.PduBufProofs.
Local Open Scope N_scope.
Definition ex_cfg : cfg := mkC 0 100 100.
Definition ex_events : list event :=
  [ ELL (Tx 5 2 [170; 187; 204]);
    EConn (2, [1; 2]) false ReqOk true;
    EConn (2, [9; 9]) false ReqOk false;
    EConn (2, [3; 4]) false ReqMic false;
    EConn (2, [7; 7]) true ReqLost false;
    EConn (2, [7; 7]) false ReqOk false;
    ELL NextRecv; ELL FreeRecv; ELL NextRecv;
    ELL (Tx 29 1 [5]);
    EConn (1, []) false ReqOk false ].
Eval vm_compute in (let r := sys_run ex_cfg (cen_init, init ex_cfg) ex_events in
  (c_done (fst (fst r)), map (fun e => e_body e) (r_q (rxr (snd (fst r)))), c_acc (fst (fst r)), snd r)).
Definition ex_events2 : list event :=
  [ EConn (2, [170]) false ReqMic false; EConn (2, [187]) false ReqOk false; EConn (2, [187]) false ReqOk false;
    EConn (2, [204]) false ReqMic false ].
Eval vm_compute in (let r := sys_run ex_cfg (cen_init, init ex_cfg) ex_events2 in
  (map (fun e => e_body e) (r_q (rxr (snd (fst r)))), c_done (fst (fst r)), map snd (snd r))).
