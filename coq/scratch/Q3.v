From BT Require Import Base.ListX SduBuf.SduBufModel SduBuf.SduBufSpec SduBuf.SduBufProofs SduBuf.SduBufTrace.
From Coq Require Import Lia ZifyBool.
Local Open Scope N_scope.

Lemma reachable_R c : wf_cfg c -> forall ops s m, R c s m -> exists m', R c (final c s ops) m'.
Proof.
  intros WF. induction ops as [|o ops IH]; intros s m HR; simpl; eauto.
  destruct (step c s o) as [s' ro] eqn:E. simpl.
  destruct (step_ok c s m o s' ro WF HR E) as (m' & _ & HR'). eauto.
Qed.

(* the receive side delivers every well formed train: if no complete SDU is waiting and the radio's FIFO
   starts with a start fragment announcing L <= MTU bytes followed by non empty continuation fragments
   with L + 4 bytes in total, the next call returns exactly that SDU *)
Theorem model_delivers_wellformed c : wf_cfg c -> passthrough c = false ->
  forall ops0 g b0 cs rest,
    let s := final c (init c) ops0 in
    complete s = false ->
    rxq s = (2, b0) :: map (fun x => (1, x)) cs ++ rest ->
    4 <= lenN b0 -> read16 b0 <= mtu c -> Forall (fun x => x <> []) cs -> cs <> [] ->
    lenN (b0 ++ concat cs) = read16 b0 + 4 ->
    exists txs, snd (step c s (Next g)) = (RSdu (b0 ++ concat cs), txs).
Proof.
  intros WF PT ops0 g b0 cs rest s NC Q H4 HM NE NN LEN.
  destruct (reachable_R c WF ops0 (init c) minit (init_R c)) as (m & HR). fold s in HR.
  destruct (step c s (Next g)) as [s' [r txs]] eqn:E.
  destruct (step_ok c s m (Next g) s' (r, txs) WF HR E) as (m' & M & _).
  exists txs. simpl. f_equal.
  pose proof (R_rx _ _ _ HR) as RX. rewrite PT in RX.
  assert (ND : forall x, m_rs m <> Done x).
  { intros x Hx. rewrite (complete_iff _ _ _ RX), Hx in NC. discriminate. }
  unfold mstep in M.
  destruct (judge_tx (m_maxtx m) (m_sdu m) txs) as [[|t] cur]; [|destruct r; discriminate M].
  assert (JN : judge_next c (set_tx_m m cur txs) r = (Ok, m')) by (destruct r; try discriminate M; exact M).
  clear M. unfold judge_next, spec_next in JN. rewrite PT in JN. cbn [set_tx_m m_rs m_pend] in JN.
  rewrite <- (R_rxq _ _ _ HR), Q in JN.
  destruct (m_rs m) eqn:RS; [ | |destruct (ND sdu eq_refl)].
  all: match type of JN with context [spec_loop ?a ?b ?l] => set (e := spec_loop a b l) in JN end.
  all: assert (SL : e = (Done (b0 ++ concat cs), rest, ESdu (b0 ++ concat cs)))
         by (apply spec_delivers_wellformed; auto; intros; discriminate).
  all: rewrite SL in JN; clear SL e.
  all: destruct r; try discriminate JN.
  all: destruct (bytes_eqb (b0 ++ concat cs) b) eqn:BE;
         [apply bytes_eqb_eq in BE; congruence | destruct (lenN (b0 ++ concat cs) =? lenN b); discriminate JN].
Qed.
