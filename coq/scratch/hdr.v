From BT Require Import Base.ListX Base.Bits2 NQueue.NQueueModel NQueue.NQueueSpec NQueue.NQueueProofs NQueue.NQueueSched.
From Coq Require Import Lia ZifyBool.
From BT Require Import scratch.PAB.
Local Open Scope nat_scope.
