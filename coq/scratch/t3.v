From Coq Require Import NArith List.
Local Open Scope N_scope.
Goal forall (x : N) (r : list N * N) (l : list N), Some (l, 1 + x) = Some r -> snd r = 1 + x.
Proof. intros x r l H. injection H. Show. intros; subst. Show. Abort.
