From Coq Require Import Lia ZifyBool.
From BT Require Import Base.ListX Base.Bits2 LL.LLModel LL.LLSpec LL.LLSpecC27 LL.LLSpecC22 LL.LLProofs.
From BT Require gen.GenLL.
Import ListNotations.
Local Open Scope N_scope.

(* ========================================================================================== C22: delta_time::ppm *)
Definition ppm_domain : N := 131072000000.     (* usec * part below this: the 64 bit product does not overflow *)

Lemma ppm_value t a : t * a <= ppm_domain -> ppm t a = t * a * 140737488 / 140737488355328.
Proof.
  intros H. unfold ppm, u64, u32, ppm_domain in *.
  change GenLL.ppm_multiplier with 140737488. change GenLL.ppm_shift with 47.
  rewrite N.shiftr_div_pow2. change (2 ^ 47) with 140737488355328.
  rewrite (N.mod_small (t * a * 140737488)) by nia.
  apply N.mod_small.
  apply N.lt_le_trans with (m := 131073); [|lia].
  apply N.div_lt_upper_bound; [lia|]. nia.
Qed.

Theorem ppm_bounds t a :
  t * a <= ppm_domain -> required a t <= ppm t a /\ ppm t a <= widen_floor a t.
Proof.
  intros H. rewrite (ppm_value t a H). unfold required, widen_floor, ppm_domain in *.
  rewrite (N.mul_comm a t). set (x := t * a) in *.
  split.
  - (* floor( x / 10^6 ) - 1 <= floor( x * M / 2^47 ) *)
    set (q := x / 1000000).
    assert (Hq : 1000000 * q <= x) by (apply N.mul_div_le; lia).
    assert (Hq2 : q <= 131072) by (unfold q; apply N.div_le_upper_bound; lia).
    apply N.div_le_lower_bound; [lia|]. nia.
  - apply N.div_le_lower_bound; [lia|].
    assert (H1 : 140737488355328 * (x * 140737488 / 140737488355328) <= x * 140737488) by (apply N.mul_div_le; lia).
    nia.
Qed.

(* the real-valued statement "the window is widened by at least a * t / 10^6" is false of the fixed point formula *)
Definition ppm_exact : Prop := forall t a, t * a <= ppm_domain -> a * t <= 1000000 * ppm t a.
Theorem ppm_exact_refuted : ~ ppm_exact.
Proof.
  intros H. assert (X : 1000000 * 1 <= ppm_domain) by (vm_compute; discriminate).
  specialize (H 1000000 1 X). revert H. vm_compute. intros H. apply H. reflexivity.
Qed.

(* ========================================================================================== C22: the receive window *)
Lemma covers_intro a s e x0 x1 w0 w1 :
  required a x0 <= w0 -> required a x1 <= w1 -> w0 <= x0 -> s = x0 - w0 -> e = x1 + w1 -> covers a s e x0 x1 = true.
Proof. intros. unfold covers. subst. lia. Qed.

Definition time_bound : N := 131072000.       (* 131 s: far above the 32 s supervision timeout + interval + transmit window *)

Lemma ppm_le_small t a : t <= time_bound -> a <= 1000 -> ppm t a <= widen_floor a t /\ required a t <= ppm t a /\ ppm t a <= t /\ ppm t a <= 131072.
Proof.
  intros Ht Ha. unfold time_bound in Ht.
  destruct (ppm_bounds t a) as [L U]; [unfold ppm_domain; nia|].
  assert (W : widen_floor a t <= 131072) by (unfold widen_floor; apply N.div_le_upper_bound; [lia|nia]).
  assert (W2 : widen_floor a t <= t) by (unfold widen_floor; apply N.div_le_upper_bound; [lia|nia]).
  repeat split; lia.
Qed.

Theorem window_covers s s' it :
  tsle (cs s) + tw_off (tm s) + tw_size (tm s) + 131072 <= time_bound -> sca s <= 1000 ->
  setup_next_connection_event s = Some (s', it) ->
  exists ch ws we,
    it = [ICe ch ws we (interval (tm s))] /\
    covers (sca s) ws we (tsle (cs s) + (if tw_size (tm s) =? 0 then 0 else tw_off (tm s)))
                         (tsle (cs s) + (if tw_size (tm s) =? 0 then 0 else tw_off (tm s) + tw_size (tm s))) = true.
Proof.
  intros Hd Ha H. unfold setup_next_connection_event in H.
  set (t := tsle (cs s)) in *. set (a := sca s) in *. set (off := tw_off (tm s)) in *. set (sz := tw_size (tm s)) in *.
  unfold time_bound in Hd.
  destruct (sz =? 0) eqn:Z; cbn [negb] in H.
  - (* symmetric *)
    destruct (ppm_le_small t a) as (U & L & W & B); [unfold time_bound; lia|assumption|].
    unfold dt_sub, dt_add, u32 in H. rewrite (N.mod_small (t + ppm t a)) in H by lia.
    replace (ppm t a <=? t) with true in H by lia. cbn [obind] in H.
    replace ((t <=? t + ppm t a) && (ppm t a <=? t + ppm t a)) with true in H by lia. cbn [obind] in H.
    inversion H. do 3 eexists. split; [reflexivity|]. rewrite !N.add_0_r.
    eapply covers_intro; eauto.
  - (* transmit window *)
    destruct (ppm_le_small (t + off) a) as (U0 & L0 & W0 & B0); [unfold time_bound; lia|assumption|].
    destruct (ppm_le_small (t + off + sz) a) as (U1 & L1 & W1 & B1); [unfold time_bound; lia|assumption|].
    unfold dt_sub, dt_add, u32 in H.
    rewrite (N.mod_small (t + off)) in H by lia.
    replace ((t <=? t + off) && (off <=? t + off)) with true in H by lia. cbn [obind] in H.
    rewrite (N.mod_small (t + off + sz)) in H by lia.
    replace ((t + off <=? t + off + sz) && (sz <=? t + off + sz)) with true in H by lia. cbn [obind] in H.
    replace (ppm (t + off) a <=? t + off) with true in H by lia. cbn [obind] in H.
    rewrite (N.mod_small (t + off + sz + ppm (t + off + sz) a)) in H by lia.
    replace ((t + off + sz <=? t + off + sz + ppm (t + off + sz) a) && (ppm (t + off + sz) a <=? t + off + sz + ppm (t + off + sz) a)) with true in H by lia.
    cbn [obind] in H. inversion H. do 3 eexists. split; [reflexivity|].
    rewrite N.add_assoc. eapply covers_intro; eauto.
Qed.

(* ========================================================================================== C22: anchors *)
Lemma dt_mul_exact usec rhs p : dt_mul usec rhs = Some p -> usec * rhs < 4294967296 -> p = usec * rhs.
Proof.
  unfold dt_mul, u32. intros H Hb.
  destruct ((rhs =? 0) || (usec =? 0)) eqn:E0; [inversion H; nia|].
  destruct (rhs =? 1) eqn:E1; [inversion H; nia|].
  destruct (usec =? 1) eqn:E2; [inversion H; nia|].
  rewrite N.mod_small in H by assumption.
  destruct (_ && _); inversion H. reflexivity.
Qed.

(* after a connection event the next one is planned k intervals after the anchor, 1 <= k <= latency + 1 *)
Theorem anchor_after_event c s e s' :
  latency (tm s) <= 499 -> interval (tm s) * (latency (tm s) + 1) < 4294967296 ->
  plan_next_connection_event c s e = Some s' ->
  exists k, 1 <= k /\ k <= latency (tm s) + 1 /\ tsle (cs s') = k * interval (tm s)
            /\ evc (cs s') = u16 (evc (cs s) + k) /\ ch_idx (cs s') = (ch_idx (cs s) + k) mod 37.
Proof.
  intros Hl Hb H. unfold plan_next_connection_event in H.
  cbv zeta in H.
  match type of H with context [u16 ((if ?b then 0 else latency (tm s)) + 1)] =>
    set (l0 := u16 ((if b then 0 else latency (tm s)) + 1)) in H;
    assert (L0 : 1 <= l0 /\ l0 <= latency (tm s) + 1) by (unfold l0, u16; destruct b; rewrite N.mod_small; lia)
  end.
  match type of H with context [dt_mul (interval (tm s)) ?x] => set (l := x) in H end.
  assert (L : 1 <= l /\ l <= latency (tm s) + 1).
  { unfold l. destruct (deferred s); [|exact L0].
    destruct (0 <? _) eqn:D; [|exact L0]. split; [|lia]. apply N.min_glb; lia. }
  destruct (dt_mul (interval (tm s)) l) as [t|] eqn:E; cbn [obind] in H; [|discriminate].
  destruct (disarmable c && (l =? 0)); [discriminate|]. inversion H.
  exists l. cbn [cs set_cs tsle evc ch_idx]. repeat split; try lia.
  apply dt_mul_exact in E; [lia|nia].
Qed.

(* after a missed event the next one is planned one interval later *)
Theorem anchor_after_missed_event s s' :
  plan_after_timeout s = Some s' -> tsle (cs s') = tsle (cs s) + interval (tm s) \/ 4294967296 <= tsle (cs s) + interval (tm s).
Proof.
  unfold plan_after_timeout, dt_add, u32. intros H.
  destruct (N.lt_ge_cases (tsle (cs s) + interval (tm s)) 4294967296) as [Hs|Hs]; [left|right; exact Hs].
  rewrite N.mod_small in H by assumption.
  destruct (_ && _); cbn [obind] in H; inversion H. reflexivity.
Qed.

(* ========================================================================================== C22: supervision *)
Lemma in_flush_closed s r : In (ICb (EvClosed r)) (snd (flush_events s)) <-> In (EvClosed r) (ring s).
Proof.
  cbn [flush_events snd]. rewrite in_map_iff. split.
  - intros (x & Hx & Hin). inversion Hx; subst. exact Hin.
  - intros H. exists (EvClosed r). split; [reflexivity|exact H].
Qed.

(* a connected link without pending procedure timer is dropped by timeout() exactly when nothing valid was received for
   the supervision timeout; the reason reported is disconnecting_reason_ (0x08 unless a terminate / instant passed set it) *)
Theorem supervision_drop c s s' it :
  st s = Connected -> ring s = [] -> c_cb c = true -> proc_timeout s = 0 ->
  conn_timeout (tm s) <= tsle (cs s) ->
  do_timeout c s = Some (s', it) ->
  st s' = Advertising /\ In (ICb (EvClosed (disc_reason s))) it.
Proof.
  intros Hst Hr Hcb Hp Hle H. unfold do_timeout in H.
  change (st (set_pending_event s false)) with (st s) in H. rewrite Hst in H. cbn [lstate_eqb andb] in H.
  change (proc_timeout (set_pending_event s false)) with (proc_timeout s) in H. rewrite Hp in H.
  cbn [N.eqb negb andb] in H.
  destruct (dt_mul _ _) as [five|]; cbn [obind] in H; [|discriminate].
  change (tsle (cs (set_pending_event s false))) with (tsle (cs s)) in H.
  change (conn_timeout (tm (set_pending_event s false))) with (conn_timeout (tm s)) in H.
  replace (tsle (cs s) <? conn_timeout (tm s)) with false in H by lia. cbn [andb obind] in H.
  pose proof (force_disconnect_spec c (set_pending_event s false) Hcb) as F.
  destruct (force_disconnect c (set_pending_event s false)) as [s2 it2]. cbn [fst] in F.
  destruct F as [F1 F2]; [exact Hr|cbn [st set_pending_event]; congruence|].
  rewrite flush_events_spec in H. inversion H; subst. split; [exact F1|].
  apply in_or_app. right. rewrite F2. left. reflexivity.
Qed.

Theorem supervision_keep c s s' it :
  st s = Connected -> ring s = [] -> proc_timeout s = 0 -> deferred s = None ->
  tsle (cs s) < conn_timeout (tm s) ->
  do_timeout c s = Some (s', it) ->
  st s' = Connected /\ (forall r, ~ In (ICb (EvClosed r)) it) /\ exists ch ws we, it = [ICe ch ws we (interval (tm s))].
Proof.
  intros Hst Hr Hp Hd Hlt H. unfold do_timeout in H.
  change (st (set_pending_event s false)) with (st s) in H. rewrite Hst in H. cbn [lstate_eqb andb] in H.
  change (proc_timeout (set_pending_event s false)) with (proc_timeout s) in H. rewrite Hp in H.
  cbn [N.eqb negb andb] in H.
  destruct (dt_mul _ _) as [five|]; cbn [obind] in H; [|discriminate].
  change (tsle (cs (set_pending_event s false))) with (tsle (cs s)) in H.
  change (conn_timeout (tm (set_pending_event s false))) with (conn_timeout (tm s)) in H.
  replace (tsle (cs s) <? conn_timeout (tm s)) with true in H by lia. cbn [andb negb obind] in H.
  destruct (plan_after_timeout _) as [s1|] eqn:E1; cbn [obind] in H; [|discriminate].
  unfold plan_after_timeout in E1. destruct (dt_add _ _) as [t|]; cbn [obind] in E1; [|discriminate]. inversion E1 as [E1'].
  unfold pending_then_setup, handle_pending_ll_control in H.
  assert (D1 : deferred s1 = None) by (subst s1; exact Hd). rewrite D1 in H. cbn [obind] in H.
  destruct (setup_next_connection_event s1) as [[s2 it2]|] eqn:E2; cbn [obind] in H; [|discriminate].
  apply setup_next_frame in E2. destruct E2 as [E2 (ch & ws & we & Eit)].
  rewrite flush_events_spec in H. inversion H; subst s' it.
  assert (R2 : ring s2 = []) by (subst s2 s1; exact Hr). rewrite R2. cbn [map app]. rewrite app_nil_r.
  split; [subst s2 s1; exact Hst|]. split.
  - intros r Hin. rewrite Eit in Hin. destruct Hin as [Hin|[]]. discriminate.
  - exists ch, ws, we. rewrite Eit. subst s1. reflexivity.
Qed.

(* ========================================================================================== C22: connect requests *)
Ltac unfold_limits :=
  unfold minimum_connection_interval, maximum_connection_interval, minimum_transmit_window_size,
         GenLL.us_per_digits, GenLL.maximum_transmit_window_offset, GenLL.minimum_connection_timeout,
         GenLL.maximum_connection_timeout in *.

(* the repaired check can not run into the assert of delta_time::operator*= *)
Lemma check_timing_total t : check_timing t <> None.
Proof.
  unfold check_timing. destruct (_ && _) eqn:E; [|discriminate].
  unfold_limits.
  assert (B : interval t * ((latency t + 1) * 2) < 4294967296) by nia.
  unfold dt_mul, u32. rewrite N.mod_small by exact B.
  destruct (_ || _); [discriminate|]. destruct (_ =? 1); [discriminate|]. destruct (_ =? 1); [discriminate|].
  replace ((interval t <? interval t * ((latency t + 1) * 2)) && ((latency t + 1) * 2 <? interval t * ((latency t + 1) * 2))) with true by nia.
  discriminate.
Qed.

Lemma check_timing_true t :
  check_timing t = Some true ->
  latency t <= 499 /\ 7500 <= interval t <= 4000000 /\ 1250 <= tw_size t <= 10000 /\ tw_size t <= interval t
  /\ 100000 <= conn_timeout t <= 32000000 /\ interval t * ((latency t + 1) * 2) < conn_timeout t.
Proof.
  unfold check_timing. destruct (_ && _) eqn:E; [|discriminate].
  unfold_limits. intros H.
  destruct (dt_mul _ _) as [p|] eqn:D; cbn [obind] in H; [|discriminate].
  apply dt_mul_exact in D; [|nia]. inversion H. lia.
Qed.

Theorem connection_only_from_valid_request c s hdr0 body s' it :
  st s = Advertising ->
  do_adv_received c s hdr0 body = Some (s', it) -> st s' = Connecting ->
  addressed_to_us c hdr0 body = true /\ connect_timing_valid body = true /\ connect_hop_valid body = true.
Proof.
  intros Hst H Hc. unfold do_adv_received in H.
  destruct (valid_connect_request c hdr0 body) eqn:V.
  2:{ inversion H; subst. cbn in Hc. congruence. }
  split; [exact V|].
  destruct (ChanMapModel.reset_impl (chan s) (slice body 28 5) (N.land (byte body 33) 31)) as [ch r] eqn:R.
  destruct r as [[|]| | | |]; try discriminate.
  2:{ inversion H; subst. cbn in Hc. congruence. }
  assert (Hhop : connect_hop_valid body = true).
  { unfold connect_hop_valid. unfold ChanMapModel.reset_impl in R.
    destruct ((_ <? 5) || (16 <? _)) eqn:Hh; [inversion R|lia]. }
  split; [|exact Hhop].
  destruct (parse_connect body) as [t ok] eqn:P.
  destruct ok as [[|]|]; try discriminate.
  2:{ inversion H; subst. cbn in Hc. congruence. }
  unfold parse_connect in P. inversion P as [[Pt Pok]]. clear P.
  match type of Pok with (if ?b then _ else _) = _ => destruct b eqn:Hoff; [|discriminate] end.
  apply check_timing_true in Pok. cbn [latency interval tw_size conn_timeout] in Pok, Hoff.
  unfold connect_timing_valid. unfold GenLL.us_per_digits in *. nia.
Qed.
