From Coq Require Import Lia ZifyBool NArith List Bool.
From BT Require Import Base.ListX Base.Bits2 LL.LLModel LL.LLSpec LL.LLSpecC27 LL.LLSpecC22 LL.LLProofs LL.LLProofsC27Sim.
From BT Require LL.LLProofsC21 LL.LLProofsC28 LL.LLProofsC28Air LL.LLSpecC28.
From BT Require gen.GenLL.
Import ListNotations.
Local Open Scope N_scope.

(* facts about the class that was selected *)
Lemma kind_facts phy enc ver o z k : ctrl_kind_b phy enc ver o z = k ->
  match k with
  | KVersion => ver = false
  | KUnknownRsp => o = 7
  | KRejectInd => o = 13
  | KRejectExt => o = 17
  | KCpr => z = 24
  | _ => True
  end.
Proof.
  unfold ctrl_kind_b. intros <-.
  repeat match goal with |- context [if ?b then _ else _] => let E := fresh "E" in destruct b eqn:E end; try exact I;
    change GenLL.LL_UNKNOWN_RSP with 7 in *; change GenLL.LL_REJECT_IND with 13 in *; change GenLL.LL_REJECT_EXT_IND with 17 in *;
    try lia; destruct ver; try reflexivity; lia.
Qed.

Definition pr_same (p q : procs) : Prop :=
  cpr_pending q = cpr_pending p /\ phy_pending q = phy_pending p /\ ver_pending q = ver_pending p /\ ver_received q = ver_received p
  /\ prop_min q = prop_min p /\ prop_max q = prop_max p /\ prop_lat q = prop_lat p /\ prop_to q = prop_to p.

Lemma handle_reject_form c s o b : o = 7 \/ o = 13 \/ o = 17 ->
  exists r prx,
    handle_reject c s o b =
      set_ring (set_pr (set_used_features (set_proc_timeout s (if (o =? 13) || (byte b 1 =? 15) then 0 else proc_timeout s))
                                          (if (o =? 7) && (byte b 1 =? 15) then N.land (used_features s) (65535 - cpr_feature) else used_features s))
                       prx) r
    /\ pr_same (pr s) prx.
Proof.
  intros Ho. unfold handle_reject, clear_cpr_feature, cpr_feature.
  change GenLL.LL_UNKNOWN_RSP with 7. change GenLL.LL_REJECT_IND with 13. change GenLL.LL_REJECT_EXT_IND with 17.
  change GenLL.LL_CONNECTION_PARAM_REQ with 15.
  destruct Ho as [-> | [-> | ->]]; cbn [N.eqb Pos.eqb negb orb andb];
    destruct (byte b 1 =? 15); cbn [negb orb andb];
    try destruct (cpr_running (pr s) && cpr_sig (pr s)) eqn:ER;
    match goal with |- context [push_event c ?X ?e] => destruct (push_event_form c X e) as [r ->] end;
    exists r;
    first [ exists (set_cpr_running (set_cpr_sig (pr s) false) false); split; [reflexivity | unfold pr_same; cbn; repeat split; reflexivity]
          | exists (pr s); split; [reflexivity | unfold pr_same; repeat split; reflexivity] ].
Qed.
