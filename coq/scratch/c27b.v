From Coq Require Import Lia ZifyBool NArith List Bool.
From BT Require Import Base.ListX Base.Bits2 LL.LLModel LL.LLSpec LL.LLSpecC27 LL.LLSpecC22 LL.LLProofs LL.LLProofsC27Sim.
From BT Require LL.LLProofsC21 LL.LLProofsC28 LL.LLProofsC28Air LL.LLSpecC28.
From BT Require gen.GenLL.
Import ListNotations.
Local Open Scope N_scope.

(* facts about the class that was selected *)
Lemma kind_facts phy enc ver o z k : ctrl_kind_b phy enc ver o z = k ->
  match k with
  | KVersion => ver = false
  | KUnknownRsp => o = 7
  | KRejectInd => o = 13
  | KRejectExt => o = 17
  | KCpr => z = 24
  | _ => True
  end.
Proof.
  unfold ctrl_kind_b. intros <-.
  repeat match goal with |- context [if ?b then _ else _] => let E := fresh "E" in destruct b eqn:E end; try exact I;
    change GenLL.LL_UNKNOWN_RSP with 7 in *; change GenLL.LL_REJECT_IND with 13 in *; change GenLL.LL_REJECT_EXT_IND with 17 in *;
    try lia; destruct ver; try reflexivity; lia.
Qed.

Definition pr_same (p q : procs) : Prop :=
  cpr_pending q = cpr_pending p /\ phy_pending q = phy_pending p /\ ver_pending q = ver_pending p /\ ver_received q = ver_received p
  /\ prop_min q = prop_min p /\ prop_max q = prop_max p /\ prop_lat q = prop_lat p /\ prop_to q = prop_to p.

Lemma handle_reject_form c s o b : o = 7 \/ o = 13 \/ o = 17 ->
  exists r prx,
    handle_reject c s o b =
      set_ring (set_pr (set_used_features (set_proc_timeout s (if (o =? 13) || (byte b 1 =? 15) then 0 else proc_timeout s))
                                          (if (o =? 7) && (byte b 1 =? 15) then N.land (used_features s) (65535 - cpr_feature) else used_features s))
                       prx) r
    /\ pr_same (pr s) prx.
Proof.
  intros Ho. unfold handle_reject, clear_cpr_feature, cpr_feature.
  change GenLL.LL_UNKNOWN_RSP with 7. change GenLL.LL_REJECT_IND with 13. change GenLL.LL_REJECT_EXT_IND with 17.
  change GenLL.LL_CONNECTION_PARAM_REQ with 15.
  destruct Ho as [-> | [-> | ->]]; cbn [N.eqb Pos.eqb negb orb andb];
    destruct (byte b 1 =? 15); cbn [negb orb andb];
    try change (pr (set_proc_timeout s 0)) with (pr s);
    try destruct (cpr_running (pr s) && cpr_sig (pr s)) eqn:ER;
    match goal with |- context [push_event c ?X ?e] => destruct (push_event_form c X e) as [r ->] end;
    exists r;
    first [ exists (set_cpr_running (set_cpr_sig (pr s) false) false); split; [reflexivity | unfold pr_same; cbn; repeat split; reflexivity]
          | exists (pr s); split; [reflexivity | unfold pr_same; repeat split; reflexivity] ].
Qed.

Definition Post (c : cfg) (s : lstate_t) (m : mon27) (acc : list expect)
                (s' : lstate_t) (it : list item) (res : ll_result) (m' : mon27) (acc' : list expect) (p : pres) : Prop :=
  match p with
  | PStop => True
  | PClosed => res = DoDisconnect
  | PGo => res = GoAhead /\ it = [] /\ PR c s' m' /\ sframe s s' /\ mframe m m'
           /\ (ver_received (pr s) = true -> ver_received (pr s') = true)
           /\ (proc_timeout s' = proc_timeout s \/ proc_timeout s' = 0)
           /\ exists new accn, unaired s' = unaired s ++ new /\ acc' = acc ++ accn /\ Matches c accn (ctrl new) /\ vok s accn
                               /\ (nver accn = 1%nat -> ver_received (pr s') = true)
  end.

Lemma Post_here c s m acc : PR c s m -> Post c s m acc s [] GoAhead m acc PGo.
Proof.
  intros H. cbn. split; [reflexivity|]. split; [reflexivity|]. split; [exact H|]. split; [apply sframe_refl|]. split; [apply mframe_refl|].
  split; [auto|]. split; [left; reflexivity|].
  exists [], []. rewrite !app_nil_r. split; [reflexivity|]. split; [reflexivity|]. split; [constructor|].
  unfold vok. cbn. split; [split; [lia|discriminate]|discriminate].
Qed.

(* one PDU was processed (state s2, monitor m2, expectations ek for the PDUs newk), the rest is processed from there *)
Lemma Post_compose c s m acc s2 m2 ek newk s' it res m' acc' p :
  sframe s s2 -> mframe m m2 -> unaired s2 = unaired s ++ newk -> Matches c ek (ctrl newk) ->
  ((nver ek = 0%nat /\ ver_received (pr s2) = ver_received (pr s)) \/ (nver ek = 1%nat /\ ver_received (pr s) = false /\ ver_received (pr s2) = true)) ->
  (proc_timeout s2 = proc_timeout s \/ proc_timeout s2 = 0) ->
  Post c s2 m2 (acc ++ ek) s' it res m' acc' p -> Post c s m acc s' it res m' acc' p.
Proof.
  intros F1 F2 U M V T H. destruct p; cbn in *; auto.
  destruct H as (H1 & H2 & H3 & H4 & H5 & Hmono & Ht & new & accn & H6 & H7 & H8 & (H9 & H10) & H11).
  split; [exact H1|]. split; [exact H2|]. split; [exact H3|]. split; [eapply sframe_trans; eauto|]. split; [eapply mframe_trans; eauto|].
  split; [|split].
  - intros E. apply Hmono. destruct V as [[V1 V2]|(V1 & V2 & V3)]; congruence.
  - destruct Ht as [Ht|Ht]; [|right; exact Ht]. destruct T as [T|T]; [left|right]; congruence.
  - exists (newk ++ new), (ek ++ accn). rewrite H6, U, H7, !app_assoc. split; [reflexivity|]. split; [reflexivity|]. unfold vok in *. split; [|split; [split|]].
    + unfold Matches. rewrite ctrl_app. apply Forall2_app; assumption.
    + rewrite nver_app. destruct V as [[V1 V2]|(V1 & V2 & V3)]; [lia|].
      destruct (Nat.eq_dec (nver accn) 1) as [E|E]; [specialize (H10 E); congruence|lia].
    + rewrite nver_app. intros E. destruct V as [[V1 V2]|(V1 & V2 & V3)]; [|exact V2].
      rewrite <- V2. apply H10. lia.
    + rewrite nver_app. intros E. destruct V as [[V1 V2]|(V1 & V2 & V3)]; [apply H11; lia|apply Hmono; exact V3].
Qed.

Definition popS (s : lstate_t) (rest : list pdu) : lstate_t := upd_bf s (fun b => set_rxq b rest).

Lemma after_nocommit sX rest :
  stopped (bf sX) = false -> WFb sX ->
  let s2 := popS sX rest in
  s2 = set_bf sX (bf s2) /\ rxq (bf s2) = rest /\ txa s2 = txa sX /\ stopped (bf s2) = false /\ WFb s2 /\ unaired s2 = unaired sX.
Proof. intros St W. cbn zeta. unfold popS. repeat split; try reflexivity; assumption. Qed.

Lemma after_commit sX p rest :
  stopped (bf sX) = false -> WFb sX ->
  let s2 := popS (commit sX p) rest in
  s2 = set_bf sX (bf s2) /\ rxq (bf s2) = rest /\ txa s2 = txa sX /\ stopped (bf s2) = false /\ WFb s2 /\ unaired s2 = unaired sX ++ [p].
Proof.
  intros St W. cbn zeta. destruct (LLProofsC28Air.unaired_commit sX p W St) as (U & W2 & S2 & T2).
  unfold popS. rewrite (commit_eq sX p St) in *. repeat split; try reflexivity; assumption.
Qed.

Lemma rx_ok_tail p l : rx_ok (p :: l) -> rx_ok l.
Proof. intros H. inversion H; assumption. Qed.
Lemma rx_ok_head llid body l : rx_ok ((llid, body) :: l) -> (llid = 2 \/ llid = 3) /\ body <> [] /\ bytes_ok body.
Proof. intros H. inversion H as [|? ? [H1 [H2 H3]] ?]; subst. cbn [fst snd] in *. repeat split; auto. lia. Qed.

Lemma spec_is_ctrl c ver body :
  bytes_ok body -> spec_kind (c_phy c) (c_enc c) ver (byte body 0) (N.of_nat (length body))
                   = ctrl_kind_b (c_phy c) (c_enc c) ver (byte body 0) (N.of_nat (length body)).
Proof. intros B. symmetry. apply (ctrl_kind_is_spec c). apply LLProofsC21.byte_lt. exact B. Qed.

Section Sim.
Variable c : cfg.
Hypothesis Hc : cfg_ok27 c = true.

Lemma process_sim : forall fuel s m cbs acc s' it res m' acc' p,
  PR c s m ->
  handle_received_data fuel c s = (s', it, res) -> process27 fuel c m cbs acc = (m', acc', p) ->
  Post c s m acc s' it res m' acc' p.
Proof.
  induction fuel as [|fuel IH]; intros s m cbs acc s' it res m' acc' p HPR Hs Hp.
  { cbn in Hs, Hp. inversion Hs; inversion Hp; subst. apply Post_here. exact HPR. }
  pose proof HPR as (P1 & P2 & P3 & P4 & P5 & P6 & P7 & P8 & P9 & P10 & P11 & P12).
  cbn [handle_received_data] in Hs. cbn [process27] in Hp.
  rewrite P8 in Hs. rewrite P1 in Hp.
  destruct (rxq (bf s)) as [|[llid body] rest] eqn:ERX.
  { inversion Hs; inversion Hp; subst. apply Post_here. exact HPR. }
  destruct (rx_ok_head _ _ _ P12) as (Hll & Hne & Hbo). pose proof (rx_ok_tail _ _ P12) as Hrest.
  change GenLL.ll_control_pdu_code with 3 in Hs. change GenLL.lld_data_pdu_code with 2 in Hs.
  unfold tx_buffer_available in Hs. fold (txa s) in Hs. rewrite <- P2 in Hs.
  destruct Hll as [-> | ->]; cbn [N.eqb Pos.eqb] in Hs, Hp.
  - (* L2CAP *)
    rewrite P9 in Hs. cbn [negb andb] in Hs.
    assert (EL : match (if c_enc c then l2cap_reply_enc (is_enc (sc s)) body else l2cap_reply body) with L2Drop => true | L2Reply _ => false end
                 = match l2cap_reply body with L2Drop => true | L2Reply _ => false end)
      by (destruct (c_enc c); [apply l2class_enc|reflexivity]).
    destruct (after_nocommit s rest P10 P11) as (A1 & A2 & A3 & A4 & A5 & A6).
    destruct (if c_enc c then _ else _) as [|r] eqn:EM; destruct (l2cap_reply body) as [|r'] eqn:EM'; try discriminate.
    + eapply Post_compose with (s2 := popS s rest) (m2 := set_m_rx m rest) (ek := []) (newk := []);
        [unfold sframe; repeat split; reflexivity | unfold mframe; repeat split; reflexivity | rewrite app_nil_r; exact A6 | constructor
        | left; split; reflexivity | left; reflexivity | ].
      rewrite app_nil_r. eapply IH; [|exact Hs|exact Hp].
      unfold PR. repeat split; try assumption; try reflexivity; try (rewrite ?A3; cbn; congruence).
    + destruct (m_txa m) eqn:ET.
      * destruct r as [f|].
        -- destruct (after_commit s (2, f) rest P10 P11) as (B1 & B2 & B3 & B4 & B5 & B6).
           eapply Post_compose with (s2 := popS (commit s (2, f)) rest) (m2 := set_m_rx m rest) (ek := []) (newk := [(2, f)]);
             [rewrite B1; unfold sframe; repeat split; reflexivity | unfold mframe; repeat split; reflexivity | exact B6 | constructor
             | left; split; [reflexivity|rewrite B1; reflexivity] | left; rewrite B1; reflexivity | ].
           rewrite app_nil_r. eapply IH; [|exact Hs|exact Hp].
           unfold PR. rewrite B1 at 3 4 5 6 7 8 9. cbn [pr set_bf used_features proc_timeout deferred st].
           repeat split; try assumption; try reflexivity; try congruence. rewrite B3. cbn. congruence.
        -- eapply Post_compose with (s2 := popS s rest) (m2 := set_m_rx m rest) (ek := []) (newk := []);
             [unfold sframe; repeat split; reflexivity | unfold mframe; repeat split; reflexivity | rewrite app_nil_r; exact A6 | constructor
             | left; split; reflexivity | left; reflexivity | ].
           rewrite app_nil_r. eapply IH; [|exact Hs|exact Hp].
           unfold PR. repeat split; try assumption; try reflexivity; try (rewrite ?A3; cbn; congruence).
      * inversion Hs; inversion Hp; subst. apply Post_here. exact HPR.
  - (* control PDU *)
    destruct (m_txa m) eqn:ET; cbn [negb] in Hp; [|inversion Hs; inversion Hp; subst; apply Post_here; exact HPR].
    unfold handle_ll_control in Hs. rewrite (opc_nonempty body Hne) in Hs. unfold ctrl_kind in Hs.
    rewrite (spec_is_ctrl c _ body Hbo), P3 in Hp.
    pose proof (kind_facts (c_phy c) (c_enc c) (ver_received (pr s)) (byte body 0) (N.of_nat (length body)) _ eq_refl) as KF.
    destruct (ctrl_kind_b (c_phy c) (c_enc c) (ver_received (pr s)) (byte body 0) (N.of_nat (length body))) eqn:K;
      try (inversion Hp; subst; exact I).
    + (* KTerminate *) inversion Hp; subst. cbn in Hs. inversion Hs. reflexivity.
    + (* KVersion *)
      cbn beta iota zeta in Hs. unfold commit_ctrl in Hs. change GenLL.ll_control_pdu_code with 3 in Hs.
      rewrite (P4 KF) in Hp.
      set (s2 := if byte body 1 <=? GenLL.LL_VERSION_40 then clear_cpr_feature (set_proc_timeout s 0) else set_proc_timeout s 0) in *.
      destruct (push_event_form c s2 (EvVersion (byte body 1) (rd16 body 2) (rd16 body 4))) as [rr Er]. rewrite Er in Hs.
      set (sX := upd_pr (set_ring s2 rr) (fun p => set_ver_received p true)) in *.
      fold (popS (commit sX (3, version_ind_pdu)) rest) in Hs.
      destruct (handle_received_data fuel c (popS (commit sX (3, version_ind_pdu)) rest)) as [[s3 it3] r3] eqn:E3. inversion Hs; subst s' it res; clear Hs.
      assert (St : stopped (bf sX) = false) by (subst sX s2; destruct (_ <=? _); exact P10).
      assert (Wx : WFb sX) by (subst sX s2; destruct (_ <=? _); exact P11).
      destruct (after_commit sX (3, version_ind_pdu) rest St Wx) as (B1 & B2 & B3 & B4 & B5 & B6).
      match type of Hp with process27 fuel c (set_m_rx ?M rest) cbs ?A = _ =>
        eapply Post_compose with (s2 := popS (commit sX (3, version_ind_pdu)) rest) (m2 := set_m_rx M rest)
                                 (ek := [EExact [12; GenLL.LL_VERSION_NR; GenLL.company_identifier mod 256; GenLL.company_identifier / 256; 0; 0]])
                                 (newk := [(3, version_ind_pdu)]) end.
      * rewrite B1. subst sX s2. unfold sframe. destruct (_ <=? _); repeat split; reflexivity.
      * unfold mframe. destruct (_ <=? _); repeat split; reflexivity.
      * rewrite B6. subst sX s2. destruct (_ <=? _); reflexivity.
      * constructor; [reflexivity|constructor].
      * right. split; [reflexivity|]. split; [exact KF|]. rewrite B1. reflexivity.
      * right. rewrite B1. subst sX s2. destruct (_ <=? _); reflexivity.
      * eapply IH; [|exact E3|exact Hp].
        unfold PR. rewrite B1 at 3 4 5 6 7 8 9. rewrite B3.
        subst sX s2. unfold cpr_feature, clear_cpr_feature. destruct (_ <=? _);
          cbn [pr set_bf upd_pr set_pr set_ring used_features proc_timeout deferred st set_used_features set_proc_timeout ver_received set_ver_received
               m_rx m_txa m_ver_rcv m_ver_sent m_used m_timer m_owner set_m_rx set_m_ver_rcv set_m_used set_m_timer];
          repeat split; try assumption; try reflexivity; try congruence; try discriminate; try (unfold txa in *; cbn [bf upd_pr set_pr set_ring set_used_features set_proc_timeout]; congruence).
    + (* KPing *)
      cbn beta iota zeta in Hs. unfold commit_ctrl in Hs. change GenLL.ll_control_pdu_code with 3 in Hs. change GenLL.LL_PING_RSP with 19 in Hs.
      fold (popS (commit s (3, [19])) rest) in Hs.
      destruct (handle_received_data fuel c (popS (commit s (3, [19])) rest)) as [[s3 it3] r3] eqn:E3. inversion Hs; subst; clear Hs.
      destruct (after_commit s (3, [19]) rest P10 P11) as (B1 & B2 & B3 & B4 & B5 & B6).
      eapply Post_compose with (s2 := popS (commit s (3, [19])) rest) (m2 := set_m_rx m rest) (ek := [EExact [19]]) (newk := [(3, [19])]);
        [rewrite B1; unfold sframe; repeat split; reflexivity | unfold mframe; repeat split; reflexivity | exact B6
        | repeat constructor | left; split; [reflexivity|rewrite B1; reflexivity] | left; rewrite B1; reflexivity | ].
      eapply IH; [|exact E3|exact Hp].
      unfold PR. rewrite B1 at 3 4 5 6 7 8 9. cbn [pr set_bf used_features proc_timeout deferred st].
      repeat split; try assumption; try reflexivity; try congruence. rewrite B3. cbn. congruence.
    + (* KFeature *)
      cbn beta iota zeta in Hs. unfold commit_ctrl in Hs. change GenLL.ll_control_pdu_code with 3 in Hs. change GenLL.LL_FEATURE_RSP with 9 in Hs.
      set (u := N.land (used_features s) (rd16 body 1)) in *.
      destruct (push_event_form c (set_used_features s u) (EvFeatures (slice body 1 8))) as [rr Er]. rewrite Er in Hs.
      set (sX := set_ring (set_used_features s u) rr) in *.
      set (bb := [9; lo8 (used_features (set_used_features s u)); hi8 (supported_features c); 0; 0; 0; 0; 0; 0]) in *.
      fold (popS (commit sX (3, bb)) rest) in Hs.
      destruct (handle_received_data fuel c (popS (commit sX (3, bb)) rest)) as [[s3 it3] r3] eqn:E3. inversion Hs; subst s' it res; clear Hs.
      destruct (after_commit sX (3, bb) rest P10 P11) as (B1 & B2 & B3 & B4 & B5 & B6).
      rewrite P5 in Hp. fold u in Hp.
      eapply Post_compose with (s2 := popS (commit sX (3, bb)) rest) (m2 := set_m_rx (set_m_used m u) rest) (ek := [EFeature (u mod 256)]) (newk := [(3, bb)]);
        [rewrite B1; unfold sframe; repeat split; reflexivity | unfold mframe; repeat split; reflexivity | exact B6
        | constructor; [apply bytes_eqb_refl|constructor] | left; split; [reflexivity|rewrite B1; reflexivity] | left; rewrite B1; reflexivity | ].
      eapply IH; [|exact E3|exact Hp].
      unfold PR. rewrite B1 at 3 4 5 6 7 8 9. cbn [pr set_bf used_features proc_timeout deferred st sX set_ring set_used_features].
      repeat split; try assumption; try reflexivity; try congruence. rewrite B3. change (txa sX) with (txa s). cbn. congruence.
    + (* KUnknownRsp *)
      cbn beta iota zeta in Hs.
      destruct (handle_reject_form c s (byte body 0) body) as (rr & prx & Ef & Ps); [rewrite KF; auto|]. rewrite Ef in Hs. clear Ef.
      rewrite KF in Hs, Hp. rewrite P7, andb_false_r, orb_false_r in Hp. cbn [N.eqb Pos.eqb orb andb] in Hs, Hp.
      destruct Ps as (Q1 & Q2 & Q3 & Q4 & Q5 & Q6 & Q7 & Q8).
      match type of Hs with context [set_ring ?X rr] => set (sX := set_ring X rr) in * end.
      fold (popS sX rest) in Hs.
      destruct (handle_received_data fuel c (popS sX rest)) as [[s3 it3] r3] eqn:E3. inversion Hs; subst s' it res; clear Hs.
      destruct (after_nocommit sX rest P10 P11) as (A1 & A2 & A3 & A4 & A5 & A6).
      match type of Hp with process27 fuel c (set_m_rx ?M rest) cbs ?A = _ =>
        eapply Post_compose with (s2 := popS sX rest) (m2 := set_m_rx M rest) (ek := []) (newk := []) end.
      * subst sX. unfold sframe. cbn. repeat split; try reflexivity; assumption.
      * unfold mframe. destruct (byte body 1 =? 15); repeat split; reflexivity.
      * rewrite app_nil_r. exact A6.
      * constructor.
      * left. split; [reflexivity|]. subst sX. cbn. exact Q4.
      * subst sX. unfold popS. cbn. destruct (byte body 1 =? 15); auto.
      * rewrite app_nil_r. eapply IH; [|exact E3|exact Hp].
        unfold PR. subst sX. unfold popS, cpr_feature. destruct (byte body 1 =? 15);
          cbn [pr bf upd_bf set_bf set_pr set_ring used_features proc_timeout deferred st set_used_features set_proc_timeout rxq set_rxq stopped
               m_rx m_txa m_ver_rcv m_ver_sent m_used m_timer m_owner set_m_rx set_m_ver_rcv set_m_used set_m_timer];
          repeat split; try assumption; try reflexivity; try congruence; try (unfold txa in *; cbn [bf upd_bf set_bf set_pr set_ring set_used_features set_proc_timeout tx_avail set_rxq]; congruence); try (rewrite Q4; exact P4).
    + (* KRejectInd *)
      cbn beta iota zeta in Hs.
      destruct (handle_reject_form c s (byte body 0) body) as (rr & prx & Ef & Ps); [rewrite KF; auto|]. rewrite Ef in Hs. clear Ef.
      rewrite KF in Hs, Hp. rewrite P7, andb_false_r, orb_false_r in Hp. cbn [N.eqb Pos.eqb orb andb] in Hs, Hp.
      destruct Ps as (Q1 & Q2 & Q3 & Q4 & Q5 & Q6 & Q7 & Q8).
      match type of Hs with context [set_ring ?X rr] => set (sX := set_ring X rr) in * end.
      fold (popS sX rest) in Hs.
      destruct (handle_received_data fuel c (popS sX rest)) as [[s3 it3] r3] eqn:E3. inversion Hs; subst s' it res; clear Hs.
      destruct (after_nocommit sX rest P10 P11) as (A1 & A2 & A3 & A4 & A5 & A6).
      match type of Hp with process27 fuel c (set_m_rx ?M rest) cbs ?A = _ =>
        eapply Post_compose with (s2 := popS sX rest) (m2 := set_m_rx M rest) (ek := []) (newk := []) end.
      * subst sX. unfold sframe. cbn. repeat split; try reflexivity; assumption.
      * unfold mframe. destruct (byte body 1 =? 15); repeat split; reflexivity.
      * rewrite app_nil_r. exact A6.
      * constructor.
      * left. split; [reflexivity|]. subst sX. cbn. exact Q4.
      * subst sX. unfold popS. cbn. destruct (byte body 1 =? 15); auto.
      * rewrite app_nil_r. eapply IH; [|exact E3|exact Hp].
        unfold PR. subst sX. unfold popS, cpr_feature. destruct (byte body 1 =? 15);
          cbn [pr bf upd_bf set_bf set_pr set_ring used_features proc_timeout deferred st set_used_features set_proc_timeout rxq set_rxq stopped
               m_rx m_txa m_ver_rcv m_ver_sent m_used m_timer m_owner set_m_rx set_m_ver_rcv set_m_used set_m_timer];
          repeat split; try assumption; try reflexivity; try congruence; try (unfold txa in *; cbn [bf upd_bf set_bf set_pr set_ring set_used_features set_proc_timeout tx_avail set_rxq]; congruence); try (rewrite Q4; exact P4).
    + (* KRejectExt *)
      cbn beta iota zeta in Hs.
      destruct (handle_reject_form c s (byte body 0) body) as (rr & prx & Ef & Ps); [rewrite KF; auto|]. rewrite Ef in Hs. clear Ef.
      rewrite KF in Hs, Hp. rewrite P7, andb_false_r, orb_false_r in Hp. cbn [N.eqb Pos.eqb orb andb] in Hs, Hp.
      destruct Ps as (Q1 & Q2 & Q3 & Q4 & Q5 & Q6 & Q7 & Q8).
      match type of Hs with context [set_ring ?X rr] => set (sX := set_ring X rr) in * end.
      fold (popS sX rest) in Hs.
      destruct (handle_received_data fuel c (popS sX rest)) as [[s3 it3] r3] eqn:E3. inversion Hs; subst s' it res; clear Hs.
      destruct (after_nocommit sX rest P10 P11) as (A1 & A2 & A3 & A4 & A5 & A6).
      match type of Hp with process27 fuel c (set_m_rx ?M rest) cbs ?A = _ =>
        eapply Post_compose with (s2 := popS sX rest) (m2 := set_m_rx M rest) (ek := []) (newk := []) end.
      * subst sX. unfold sframe. cbn. repeat split; try reflexivity; assumption.
      * unfold mframe. destruct (byte body 1 =? 15); repeat split; reflexivity.
      * rewrite app_nil_r. exact A6.
      * constructor.
      * left. split; [reflexivity|]. subst sX. cbn. exact Q4.
      * subst sX. unfold popS. cbn. destruct (byte body 1 =? 15); auto.
      * rewrite app_nil_r. eapply IH; [|exact E3|exact Hp].
        unfold PR. subst sX. unfold popS, cpr_feature. destruct (byte body 1 =? 15);
          cbn [pr bf upd_bf set_bf set_pr set_ring used_features proc_timeout deferred st set_used_features set_proc_timeout rxq set_rxq stopped
               m_rx m_txa m_ver_rcv m_ver_sent m_used m_timer m_owner set_m_rx set_m_ver_rcv set_m_used set_m_timer];
          repeat split; try assumption; try reflexivity; try congruence; try (unfold txa in *; cbn [bf upd_bf set_bf set_pr set_ring set_used_features set_proc_timeout tx_avail set_rxq]; congruence); try (rewrite Q4; exact P4).
    + (* KCpr *)
      cbn beta iota zeta in Hs.
      destruct (cpr_answer c s body Hc) as (r & Er & Ok); [lia|]. rewrite Er in Hs.
      unfold commit_ctrl in Hs. change GenLL.ll_control_pdu_code with 3 in Hs.
      fold (popS (commit s (3, r)) rest) in Hs.
      destruct (handle_received_data fuel c (popS (commit s (3, r)) rest)) as [[s3 it3] r3] eqn:E3. inversion Hs; subst s' it res; clear Hs.
      assert (Hp' : process27 fuel c (set_m_rx m rest) cbs (acc ++ [ECpr body]) = (m', acc', p))
        by (unfold cfg_ok27 in Hc; destruct (c_cpr c); [exact Hp|exact Hp|discriminate]).
      destruct (after_commit s (3, r) rest P10 P11) as (B1 & B2 & B3 & B4 & B5 & B6).
      eapply Post_compose with (s2 := popS (commit s (3, r)) rest) (m2 := set_m_rx m rest) (ek := [ECpr body]) (newk := [(3, r)]);
        [rewrite B1; unfold sframe; repeat split; reflexivity | unfold mframe; repeat split; reflexivity | exact B6
        | constructor; [exact Ok|constructor] | left; split; [reflexivity|rewrite B1; reflexivity] | left; rewrite B1; reflexivity | ].
      eapply IH; [|exact E3|exact Hp'].
      unfold PR. rewrite B1 at 3 4 5 6 7 8 9. cbn [pr set_bf used_features proc_timeout deferred st].
      repeat split; try assumption; try reflexivity; try congruence. rewrite B3. cbn. congruence.
    + (* KPhyReq *)
      cbn beta iota zeta in Hs. unfold commit_ctrl in Hs. change GenLL.ll_control_pdu_code with 3 in Hs. change GenLL.LL_PHY_RSP with 23 in Hs.
      fold (popS (commit s (3, [23; 3; 3])) rest) in Hs.
      destruct (handle_received_data fuel c (popS (commit s (3, [23; 3; 3])) rest)) as [[s3 it3] r3] eqn:E3. inversion Hs; subst; clear Hs.
      destruct (after_commit s (3, [23; 3; 3]) rest P10 P11) as (B1 & B2 & B3 & B4 & B5 & B6).
      eapply Post_compose with (s2 := popS (commit s (3, [23; 3; 3])) rest) (m2 := set_m_rx m rest) (ek := [EExact [23; 3; 3]]) (newk := [(3, [23; 3; 3])]);
        [rewrite B1; unfold sframe; repeat split; reflexivity | unfold mframe; repeat split; reflexivity | exact B6
        | constructor; [apply bytes_eqb_refl|constructor] | left; split; [reflexivity|rewrite B1; reflexivity] | left; rewrite B1; reflexivity | ].
      eapply IH; [|exact E3|exact Hp].
      unfold PR. rewrite B1 at 3 4 5 6 7 8 9. cbn [pr set_bf used_features proc_timeout deferred st].
      repeat split; try assumption; try reflexivity; try congruence. rewrite B3. cbn. congruence.
    + (* KUnknown *)
      cbn beta iota zeta in Hs. unfold commit_ctrl in Hs. change GenLL.ll_control_pdu_code with 3 in Hs. change GenLL.LL_UNKNOWN_RSP with 7 in Hs.
      fold (popS (commit s (3, [7; byte body 0])) rest) in Hs.
      destruct (handle_received_data fuel c (popS (commit s (3, [7; byte body 0])) rest)) as [[s3 it3] r3] eqn:E3. inversion Hs; subst; clear Hs.
      destruct (after_commit s (3, [7; byte body 0]) rest P10 P11) as (B1 & B2 & B3 & B4 & B5 & B6).
      eapply Post_compose with (s2 := popS (commit s (3, [7; byte body 0])) rest) (m2 := set_m_rx m rest) (ek := [EExact [7; byte body 0]]) (newk := [(3, [7; byte body 0])]);
        [rewrite B1; unfold sframe; repeat split; reflexivity | unfold mframe; repeat split; reflexivity | exact B6
        | constructor; [apply bytes_eqb_refl|constructor] | left; split; [reflexivity|rewrite B1; reflexivity] | left; rewrite B1; reflexivity | ].
      eapply IH; [|exact E3|exact Hp].
      unfold PR. rewrite B1 at 3 4 5 6 7 8 9. cbn [pr set_bf used_features proc_timeout deferred st].
      repeat split; try assumption; try reflexivity; try congruence. rewrite B3. cbn. congruence.
    + (* KIgnore *)
      cbn beta iota zeta in Hs. fold (popS s rest) in Hs.
      destruct (handle_received_data fuel c (popS s rest)) as [[s3 it3] r3] eqn:E3. inversion Hs; subst; clear Hs.
      destruct (after_nocommit s rest P10 P11) as (A1 & A2 & A3 & A4 & A5 & A6).
      eapply Post_compose with (s2 := popS s rest) (m2 := set_m_rx m rest) (ek := []) (newk := []);
        [unfold sframe; repeat split; reflexivity | unfold mframe; repeat split; reflexivity | rewrite app_nil_r; exact A6 | constructor
        | left; split; reflexivity | left; reflexivity | ].
      rewrite app_nil_r. eapply IH; [|exact E3|exact Hp].
      unfold PR. repeat split; try assumption; try reflexivity; try (rewrite ?A3; cbn; congruence).

Qed.
End Sim.
