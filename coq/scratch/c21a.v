From Coq Require Import NArith List Bool Lia ZifyBool.
From BT Require Import Base.ListX LL.LLModel LL.LLSpec LL.LLSpecC21.
Import ListNotations.
Local Open Scope N_scope.

Ltac nlia := zify; Z.to_euclidean_division_equations; lia.

Lemma instant_passed_spec inst evc : inst < 65536 -> evc < 65536 ->
  instant_passed inst evc = negb (reachable inst evc).
Proof.
  intros Hi He. unfold instant_passed, reachable, distance, u16.
  set (d := (inst + 65536 - evc) mod 65536).
  destruct (d =? 0) eqn:E0; destruct (32767 <=? d) eqn:E1; destruct (1 <=? d) eqn:E2; destruct (d <=? 32766) eqn:E3; cbn; try reflexivity; lia.
Qed.

Lemma reachable_iff inst evc : inst < 65536 -> evc < 65536 ->
  reachable inst evc = true <-> exists j, 1 <= j <= 32766 /\ inst = (evc + j) mod 65536.
Proof.
  intros Hi He. unfold reachable, distance. split.
  - intros H. exists ((inst + 65536 - evc) mod 65536). split; [lia|]. nlia.
  - intros (j & Hj & ->). assert (((evc + j) mod 65536 + 65536 - evc) mod 65536 = j) by nlia. lia.
Qed.
