From BT Require Import Base.ListX Base.Bits2 NQueue.NQueueModel NQueue.NQueueSpec NQueue.NQueueSched.
Definition T := true. Definition F := false.
(* witness: sizes [4]: pending notif 0; consumer deq: scan load, rem load; producer qn 1 (3 steps); consumer store *)
Definition w1 := program [(KNotif,0);(KNotif,1)] [CDeq] [T;T;T; F;F; T;T;T; F].
Eval vm_compute in srun (sinit [4]) w1.
Eval vm_compute in smonitor [4] (srun (sinit [4]) w1).
Eval vm_compute in guarded g_isr (sinit [4]) w1.
Eval vm_compute in overlap_free (srun (sinit [4]) w1).
Definition w2 := program [(KInd,0);(KNotif,0)] [CDeq] [T;T;T; F;F; T;T;T; F].
Eval vm_compute in smonitor [1] (srun (sinit [1]) w2).
Eval vm_compute in guarded g_isr (sinit [1]) w2.
(* dup: producer load1 load2; consumer full deq; producer store *)
Definition w3 := program [(KNotif,0);(KNotif,1)] [CDeq] [T;T;T; T;T; F;F;F; T].
Eval vm_compute in smonitor [4] (srun (sinit [4]) w3).
Definition w4 := program [(KNotif,0);(KNotif,0)] [CDeq] [T;T;T; T; F;F;F; T;T].
Eval vm_compute in smonitor [4] (srun (sinit [4]) w4).
Eval vm_compute in srun (sinit [4]) w4.
Definition w5 := program [(KNotif,0);(KNotif,5);(KInd,7)] [CDeq;CDeq;CConf;CDeq;CDeq] [T;T;T;T;T;T;F;F;F;T;T;T;F;F;F;F;F;F;F;F;F;F;F;F;F;F;F;F].
Eval vm_compute in smonitor [2;1;5] (srun (sinit [2;1;5]) w5).
Eval vm_compute in srun (sinit [2;1;5]) w5.
