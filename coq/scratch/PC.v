(* ------------------------------------------------------------------ system ~ monitor *)
Definition pinv (s : sys) (m : smon) : Prop :=
  match pst s with
  | PIdle => pwin m = None
  | PLoad2 a p k r =>
      exists gi rest lv i d, pprog s = (k, gi) :: rest /\ locate (szs (mem s)) 0 gi = Some (lv, i) /\
        a = (lv, boff i) /\ p = slot i /\ pwin m = Some (a, d) /\
        (d = false -> r = negb (has (pend_at (mp m) lv i) k))
  | PStore a p k r v =>
      exists gi rest lv i d, pprog s = (k, gi) :: rest /\ locate (szs (mem s)) 0 gi = Some (lv, i) /\
        a = (lv, boff i) /\ p = slot i /\ pwin m = Some (a, d) /\
        (d = false -> r = negb (has (pend_at (mp m) lv i) k) /\ v = mload (mem s) a)
  end.

Definition deq_head (s : sys) : Prop := exists rest, cprog s = CDeq :: rest.

Definition cinv (s : sys) (m : smon) (c : cstate) : Prop :=
  match c with
  | CIdle => True
  | CScan lv off fuel i =>
      deq_head s /\ lv < length (mem s) /\ off = offs (szs (mem s)) lv /\ i < nth lv (szs (mem s)) 1
  | CSingI lv off | CSingN lv off =>
      deq_head s /\ lv < length (mem s) /\ off = offs (szs (mem s)) lv /\ nth lv (kinds (mem s)) true = true
  | CRem a p k gi =>
      deq_head s /\ exists lv i, locate (szs (mem s)) 0 gi = Some (lv, i) /\ a = (lv, boff i) /\ p = slot i /\
        has (pend_at (mp m) lv i) k = true
  | CRemS a p k gi v =>
      deq_head s /\ exists lv i d, locate (szs (mem s)) 0 gi = Some (lv, i) /\ a = (lv, boff i) /\ p = slot i /\
        has (pend_at (mp m) lv i) k = true /\ cwin m = Some (a, d) /\ (d = false -> v = mload (mem s) a)
  end.

Record srel (s : sys) (m : smon) : Prop := {
  sr_mem : Forall2 lrel (mem s) (mp m);
  sr_pq : mpq m = pprog s;
  sr_cq : mcq m = cprog s;
  sr_p : pinv s m;
  sr_c : cinv s m (cst s) }.

Definition step_ok (s' : sys) (v : sverdict * smon) : Prop :=
  match v with (SOk, m') => srel s' m' | (SBad t, _) => 10 < t end.

Lemma locate_lt ls m gi lv i :
  Forall2 lrel ls m -> locate (szs ls) 0 gi = Some (lv, i) ->
  lv < length ls /\ i < nth lv (szs ls) 1 /\ lv < length m /\ i < length (nth lv m []).
Proof.
  intros F H. apply locate_bound in H. rewrite Nat.sub_0_r in H. destruct H as (_ & A & B).
  unfold szs in A. rewrite map_length in A.
  pose proof (Forall2_len F). pose proof (len_pend ls m lv F A). repeat split; lia.
Qed.

Lemma has_kbit_test x k : (N.land x (kbit k) =? 0)%N = negb (has x k).
Proof. unfold has. rewrite negb_involutive. reflexivity. Qed.

Lemma tagw_big t d : 0 < t -> (d = false -> False) -> 10 < tagw t d.
Proof. destruct d; simpl; intros H0 H; [lia|exfalso; auto]. Qed.

Lemma chk_store_clean m a v d : v = abs_byte m a -> chk_store m a v d = None.
Proof. intros ->. unfold chk_store. rewrite N.eqb_refl. reflexivity. Qed.

Lemma chk_store_cases m a v d :
  match chk_store m a v d with
  | None => v = abs_byte m a
  | Some t => v <> abs_byte m a /\ t = tagw (if (N.ldiff (abs_byte m a) v =? 0)%N then t_dup else t_lost) d
  end.
Proof.
  unfold chk_store. destruct (v =? abs_byte m a)%N eqn:E.
  - apply N.eqb_eq in E. auto.
  - apply N.eqb_neq in E. auto.
Qed.

(* ---- the producer's micro-steps *)
Lemma p_step_ok s m :
  srel s m -> (pst s <> PIdle \/ pprog s <> []) ->
  let '(ls, p', ac, r) := p_micro (mem s) (pprog s) (pst s) in
  step_ok (mks ls (outst s) (if done r then tl (pprog s) else pprog s) p' (cprog s) (cst s))
          (smstep m StepP (OStep ac r)).
Proof.
  intros [F Q1 Q2 P C] Hne.
  destruct s as [ls ou pp ps cp cs]. simpl in *.
  pose proof (szs_agree _ _ F) as Z.
  unfold pinv in P; simpl in P.
  destruct ps as [|a p k r|a p k r v]; simpl.
  - (* first load *)
    destruct pp as [|[k gi] rest]; [destruct Hne; congruence|].
    fold (szs ls). destruct (locate (szs ls) 0 gi) as [[lv i]|] eqn:L; simpl.
    + rewrite Q1, P. simpl.
      destruct (locate_lt _ _ _ _ _ F L) as (H1 & H2 & H3 & H4).
      destruct (mload_abs ls (mp m) lv i F H1 H2) as [E1 E2].
      constructor; simpl; auto.
      exists gi, rest, lv, i, false. repeat split; auto.
      pose proof (lrel_nth _ _ lv F H1) as R. intros _.
      rewrite sweep_test.
      * rewrite E2. apply has_kbit_test.
      * rewrite E1. apply pack4_lt. apply (lr_wf _ _ R).
      * apply slot_lt.
      * apply kbit_lt.
    + rewrite Q1. simpl. rewrite <- Z, L. constructor; simpl; auto. reflexivity.
  - (* second load *)
    destruct P as (gi & rest & lv & i & d & Hp & L & -> & -> & Hw & Hr).
    rewrite Q1, Hp. simpl. rewrite Hw. simpl.
    constructor; simpl; auto.
    exists gi, rest, lv, i, d. repeat split; auto.
  - (* store *)
    destruct P as (gi & rest & lv & i & d & Hp & L & -> & -> & Hw & Hr).
    rewrite Q1, Hp. simpl. rewrite <- Z, L, Hw. simpl.
    destruct (locate_lt _ _ _ _ _ F L) as (H1 & H2 & H3 & H4).
    pose proof (lrel_nth _ _ lv F H1) as R.
    set (x := pend_at (mp m) lv i).
    destruct (Bool.eqb r (negb (has x k))) eqn:Er; simpl.
    2:{ apply tagw_big; [unfold t_ret; lia|]. intros ->. destruct (Hr eq_refl) as [-> _]. rewrite Bool.eqb_reflx in Er. discriminate. }
    pose proof (chk_store_cases (pend_set (mp m) lv i (N.lor x (kbit k))) (lv, boff i) (byte_or v (slot i) (kbit k)) d) as CS.
    destruct (chk_store _ _ _ d) as [t|].
    { destruct CS as [Hne' ->]. apply tagw_big; [destruct (_ =? _)%N; unfold t_dup, t_lost; lia|]. intros ->. destruct (Hr eq_refl) as [_ ->]. apply Hne'.
      rewrite abs_byte_set by auto.
      destruct (mload_abs ls (mp m) lv i F H1 H2) as [E1 _]. rewrite E1.
      symmetry. apply pack4_upd_or; auto. apply (lr_wf _ _ R). }
    rewrite abs_byte_set in CS by auto. rewrite CS.
    assert (Hx : (N.lor x (kbit k) < 4)%N) by (apply lor_lt4; apply (lr_wf _ _ R)).
    constructor; simpl; auto.
    + apply lrel_store; auto.
    + reflexivity.
    + (* the consumer's invariant *)
      destruct cs as [|clv off fuel ci|clv off|clv off|ca cp' ck cgi|ca cp' ck cgi cv]; simpl in C |- *; auto;
        rewrite ?szs_mstore, ?kinds_mstore, ?length_mstore; auto.
      * destruct C as (D & lv' & i' & L' & -> & -> & Hh). split; auto.
        exists lv', i'. repeat split; auto.
        destruct (Nat.eq_dec lv' lv) as [->|]; [destruct (Nat.eq_dec i' i) as [->|]|].
        -- rewrite pend_at_set_eq by auto. rewrite has_lor by apply (lr_wf _ _ R). unfold x. rewrite Hh. reflexivity.
        -- rewrite pend_at_set_neq by congruence. auto.
        -- rewrite pend_at_set_neq by congruence. auto.
      * destruct C as (D & lv' & i' & d' & L' & -> & -> & Hh & Hcw & Hv). split; auto.
        exists lv', i', (d' || addr_eqb (lv, boff i) (lv', boff i')). rewrite Hcw. simpl. repeat split; auto.
        -- destruct (Nat.eq_dec lv' lv) as [->|]; [destruct (Nat.eq_dec i' i) as [->|]|].
           ++ rewrite pend_at_set_eq by auto. rewrite has_lor by apply (lr_wf _ _ R). unfold x. rewrite Hh. reflexivity.
           ++ rewrite pend_at_set_neq by congruence. auto.
           ++ rewrite pend_at_set_neq by congruence. auto.
        -- intros Hd. apply orb_false_iff in Hd. destruct Hd as [-> Hd].
           rewrite mload_mstore_neq; auto.
           intro Hc. apply addr_eqb_eq in Hc. congruence.
Qed.
