From BT Require Import Base.ListX Boot.BootModel Boot.BootSpec Boot.BootBase Boot.BootSafe Boot.BootSim.
Local Open Scope N_scope.
Definition cfgA := mkcfg 16 8 [(4096, 4160); (8192, 8240)].
Definition le8 (a : N) : list N := [a mod 256; (a / 256) mod 256; 0; 0; 0; 0; 0; 0].
Definition bytes20 : list N := [1;2;3;4;5;6;7;8;9;10;11;12;13;14;15;16;17;18;19;20].
Definition w1 := [WCp (3 :: le8 8208); WData bytes20; EndFlash; WCp (3 :: le8 4152); Out; Out].
Definition w2 := [WCp (3 :: le8 4096); WData [1;2;3;4;5]; Rd ChProg].
Definition w3 := [WCp (3 :: le8 4096); WData bytes20; WCp [4]; WCp (3 :: le8 4096); EndFlash; Out; Out; WData [1]].
Compute monitor cfgA (run cfgA (toy_oracle 8) init w1).
Compute env_run cfgA (toy_oracle 8) init w1.
Compute monitor cfgA (run cfgA (toy_oracle 8) init w2).
Compute monitor cfgA (run cfgA (toy_oracle 8) init w3).
Definition good := [WCp (3 :: le8 4100); WData bytes20; EndFlash; Out; Out; WData bytes20; WCp [5]; Out; EndFlash; Out; EndFlash; Out; WCp [4]; Out;
   WCp (8 :: le8 8192 ++ le8 8232); Run; Out; Hvc; Run; Out; Hvc; Run; Out; Rd ChData; WCp (1 :: le8 4096 ++ le8 4160); Out; WCp [9]; WCp []; WData [1]].
Compute env_run cfgA (toy_oracle 8) init good.
Compute monitor cfgA (run cfgA (toy_oracle 8) init good).
