(* C01 (a): l2cap_input (att_input) never faults - no access outside the request or the caller's
   buffer, no failing assert - for every well formed configuration without include_service<> and
   without a characteristic whose 16 bit uuid is the internal 128 bit marker 0x0001, every state
   whose write queue holds validated elements, every request and every out_size >= 23.

   Two families of lemmas per handler: [_len] (the output buffer keeps its size; backward, from a
   successful run) and [_nf] (the handler does not return None; by contradiction from a failing run,
   every failing primitive being impossible under the invariants). *)
From Coq Require Import Lia ZifyBool.
From BT Require Import Base.ListX AttDb.AttDbModel AttDb.AttDbSpec AttDb.AttDbProofs NQueue.NQueueModel
  AttSrv.AttSrvModel AttSrv.AttSrvSpecC01 AttSrv.AttSrvProofsC01 AttSrv.AttSrvProofsC04 AttSrv.AttSrvFrame
  AttSrv.AttSrvSpecVal AttSrv.AttSrvProofsVal.
From BT Require AttSrv.AttSrvProofsC02.
Local Open Scope N_scope.

(* ------------------------------------------------------------------ failing primitives *)
Lemma put_none b p bs : put b p bs = None -> len b < p + len bs.
Proof. unfold put. destruct (p + len bs <=? len b) eqn:E; [discriminate|]. intros _. apply N.leb_gt in E. exact E. Qed.

Lemma rd_none pdu i : rd pdu i = None -> len pdu <= i.
Proof.
  unfold rd. destruct (i <? len pdu) eqn:E; [|intros _; apply N.ltb_ge in E; exact E].
  intros H. apply nth_error_None in H. unfold len. lia.
Qed.

Lemma rd16_none pdu i : rd16 pdu i = None -> len pdu <= i + 1.
Proof.
  unfold rd16. destruct (rd pdu i) eqn:E1; [|intros _; apply rd_none in E1; lia].
  destruct (rd pdu (i + 1)) eqn:E2; [discriminate|]. intros _. apply rd_none in E2. exact E2.
Qed.

Lemma slice_none pdu from to : slice pdu from to = None -> to < from \/ len pdu < to.
Proof.
  unfold slice. destruct (from <=? to) eqn:E1; cbn [andb].
  - destruct (to <=? len pdu) eqn:E2; [discriminate|]. intros _. right. apply N.leb_gt in E2. exact E2.
  - intros _. left. apply N.leb_gt in E1. exact E1.
Qed.

Lemma slice_len pdu from to l : slice pdu from to = Some l -> len l = to - from.
Proof.
  unfold slice. destruct ((from <=? to) && (to <=? len pdu)) eqn:E; [|discriminate]. intros H. inversion H.
  apply andb_true_iff in E. destruct E as [E1 E2]. apply N.leb_le in E1, E2.
  rewrite len_takeN, len_dropN. lia.
Qed.

Lemma error_response_none op code h b n : error_response op code h b n = None -> len b < 5.
Proof.
  unfold error_response. destruct (5 <=? n); [|discriminate].
  destruct (put b 0 (1 :: op :: le16 h ++ [code])) eqn:E; [discriminate|]. intros _.
  apply put_none in E. unfold le16, len in *. cbn [app length] in E. lia.
Qed.

Lemma error_response_len op code h b n r : error_response op code h b n = Some r -> len (fst r) = len b.
Proof.
  unfold error_response. destruct (5 <=? n).
  - destruct (put b 0 _) eqn:E; [|discriminate]. intros H. inversion H. cbn [fst]. eapply put_len; eauto.
  - intros H. inversion H. reflexivity.
Qed.

(* ------------------------------------------------------------------ checks *)
Ltac monN :=
  repeat match goal with
         | H : Some _ = None |- _ => discriminate H
         | H : match ?x with Some _ => _ | None => None end = None |- _ =>
             let E := fresh "E" in destruct x eqn:E
         | H : (let '(_, _) := ?x in _) = None |- _ => destruct x
         end.

Lemma check_range_nf c pdu b n sa sb op :
  rd pdu 0 = Some op -> 5 <= len b -> 5 <= sa -> 5 <= sb -> check_size_and_handle_range c pdu b n sa sb <> None.
Proof.
  intros Hop Hb Ha Hs H. unfold check_size_and_handle_range in H. rewrite Hop in H.
  destruct (negb (len pdu =? sa) && negb (len pdu =? sb)) eqn:El.
  - monN. apply error_response_none in E. lia.
  - assert (5 <= len pdu).
    { apply andb_false_iff in El. destruct El as [El|El]; apply negb_false_iff, N.eqb_eq in El; lia. }
    monN.
    + destruct ((n0 =? 0) || (n1 <? n0)); monN; [apply error_response_none in E1; lia|].
      destruct (first_index_by_handle c n0 =? invalid_index); monN. apply error_response_none in E1; lia.
    + apply rd16_none in E0. lia.
    + apply rd16_none in E. lia.
Qed.

Lemma check_range_failed_len c pdu b n sa sb r :
  check_size_and_handle_range c pdu b n sa sb = Some (Failed r) -> len (fst r) = len b.
Proof.
  unfold check_size_and_handle_range. intros H. mon.
  destruct (negb (len pdu =? sa) && negb (len pdu =? sb)).
  - mon. eapply error_response_len; eauto.
  - mon. destruct ((n1 =? 0) || (n2 <? n1)).
    + mon. eapply error_response_len; eauto.
    + destruct (first_index_by_handle c n1 =? invalid_index); mon. eapply error_response_len; eauto.
Qed.

Lemma check_range_passed c pdu b n sa sb sh eh :
  check_size_and_handle_range c pdu b n sa sb = Some (Passed (sh, eh)) ->
  (len pdu = sa \/ len pdu = sb) /\ first_index_by_handle c sh <> invalid_index /\ rd16 pdu 1 = Some sh /\ rd16 pdu 3 = Some eh /\ sh <= eh.
Proof.
  unfold check_size_and_handle_range. intros H. mon.
  destruct (negb (len pdu =? sa) && negb (len pdu =? sb)) eqn:El; [mon|].
  mon. destruct ((n0 =? 0) || (n1 <? n0)) eqn:Eh; [mon|].
  destruct (first_index_by_handle c n0 =? invalid_index) eqn:Ef; mon. Show.
Abort.
