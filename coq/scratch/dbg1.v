From Coq Require Import Lia ZifyBool.
From BT Require Import Base.ListX AttDb.AttDbModel AttDb.AttDbSpec AttDb.AttDbProofs NQueue.NQueueModel
  AttSrv.AttSrvModel AttSrv.AttSrvSpecC02 AttSrv.AttSrvSpecC03 AttSrv.AttSrvProofsC02.
Local Open Scope N_scope.
Goal forall c st cid s (value : list N) (X:Prop), 
 (do a <- Some (AService s);
          (if negb (attr_uuid a =? uuid_primary_service) then Some 1 else match access_compare_value c st cid a value with ValueEqual => Some 2 | _ => Some 3 end)) = Some 5 -> s_secondary s = true -> X.
intros c st cid s value X H Es.
cbn [attr_uuid access_compare_value] in H. rewrite Es in H. cbn in H.
Show.
Abort.
