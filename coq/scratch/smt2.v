From BT Require Import Base.ListX SM.SMModel.
About stored_tk. About step. About init_state. About legacy_request. About mkdb. About fail. About find_key. About local_status.
