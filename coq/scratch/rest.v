Ltac brk := match goal with H : (if ?x then _ else _) = Some _ |- _ => destruct x eqn:? end.

Lemma find_information_good c pdu b out_size r :
  23 <= out_size -> rd pdu 0 = Some 4 -> handle_find_information c pdu b out_size = Some r -> good 4 out_size r.
Proof.
  intros Ho Hop. unfold handle_find_information. intros H. mon. destruct c0 as [f|[sh eh]]; mon.
  - eapply check_range_failed; eauto. lia.
  - replace (negb (1 =? out_size)) with true in * by (symmetry; apply negb_true_iff, N.eqb_neq; lia).
    mon.
    match goal with X : collect_handle_uuid_tuples _ _ _ _ _ _ _ _ = Some ?p |- _ =>
      destruct p as [b' out']; apply collect_tuples_inv in X; [destruct X as (I1 & I2 & I3)|lia|lia] end.
    split; [cbn [snd]; lia|]. left. split; [cbn [snd]; lia|]. cbn [fst]. rewrite I3.
    match goal with X : put _ 1 _ = Some _ |- _ => rewrite (put_nth_low _ _ _ _ 0%nat X) by lia end.
    eapply put_zero; eauto.
Qed.

(* ------------------------------------------------------------------ Find By Type Value *)
Lemma services_by_group_inv c st cid ss index si ei value b cur e found b' cur' found' :
  services_by_group c st cid ss index si ei value b cur e found = Some (b', cur', found') ->
  cur <= e -> cur <= cur' /\ cur' <= e.
Proof.
  revert index b cur found; induction ss as [|s t IH]; intros index b cur found H Hc; cbn [services_by_group] in H.
  - mon. lia.
  - cbv zeta in H.
    destruct ((negb (si =? invalid_index) && (si <=? index)) && ((index <=? ei) || (ei =? invalid_index))).
    + mon. destruct (access_compare_value c st cid a value).
      * apply IH in H; auto.
      * apply IH in H; auto.
      * destruct (4 <=? e - cur) eqn:E4.
        -- apply N.leb_le in E4. mon. apply IH in H; lia.
        -- apply IH in H; auto.
    + apply IH in H; auto.
Qed.

Lemma find_by_type_value_good c st cid pdu b out_size r :
  23 <= out_size -> rd pdu 0 = Some 6 -> handle_find_by_type_value c st cid pdu b out_size = Some r -> good 6 out_size r.
Proof.
  intros Ho Hop. unfold handle_find_by_type_value. rewrite Hop. intros H. mon. destruct c0 as [f|[sh eh]]; mon.
  - eapply check_range_failed; eauto. lia.
  - brk.
    + eapply error_response_err; eauto. lia.
    + mon.
      match goal with X : services_by_group _ _ _ _ _ _ _ _ _ _ _ _ = Some (_, ?cur, _) |- _ =>
        apply services_by_group_inv in X; [|lia];
        assert ((cur - 1) mod 256 <= cur - 1) by (apply N.mod_le; lia);
        set (m := (cur - 1) mod 256) in * end.
      brk; mon.
      * eapply good_rsp; eauto; lia.
      * eapply error_response_err; eauto. lia.
Qed.

(* ------------------------------------------------------------------ Read By Type *)
Lemma collect_attribute_inv c st cid k e index a st' k' :
  collect_attribute c st cid k e index a = Some (st', k') ->
  2 <= co_cur k -> co_cur k <= e -> 2 <= co_cur k' /\ co_cur k' <= e /\ co_cur k <= co_cur k'.
Proof.
  unfold collect_attribute. intros H H1 H2.
  destruct (2 <=? e - co_cur k) eqn:E2; [|mon; lia].
  apply N.leb_le in E2. mon. apply access_read_len in E.
  destruct a0; mon; try lia.
  destruct (253 <? len l); [discriminate|]. mon.
  assert (len l mod 256 <= len l) by (apply N.mod_le; lia).
  destruct (len l + 2 =? (if co_first k then (len l + 2) mod 256 else co_size k)); mon; cbn [co_cur];
    set (m := len l mod 256) in *; lia.
Qed.

Lemma all_attributes_inv fuel c st cid f k e index last st' k' :
  all_attributes fuel c st cid f k e index last = Some (st', k') ->
  2 <= co_cur k -> co_cur k <= e -> 2 <= co_cur k' /\ co_cur k' <= e.
Proof.
  revert st k index; induction fuel as [|n IH]; intros st k index H H1 H2; cbn [all_attributes] in H.
  - mon. lia.
  - destruct (index <=? last); [|mon; lia].
    mon. destruct (uuid_filter_match f a).
    + mon. apply collect_attribute_inv in E0; auto. apply IH in H; lia.
    + apply IH in H; auto.
Qed.

Lemma read_by_type_good c st cid pdu b out_size st' r :
  23 <= out_size -> rd pdu 0 = Some 8 -> handle_read_by_type c st cid pdu b out_size = Some (st', r) -> good 8 out_size r.
Proof.
  intros Ho Hop. unfold handle_read_by_type. rewrite Hop. intros H. mon. destruct c0 as [f|[sh eh]]; mon.
  - eapply check_range_failed; eauto. lia.
  - match goal with X : all_attributes _ _ _ _ _ _ _ _ _ = Some (_, ?k) |- _ =>
      apply all_attributes_inv in X; [|cbn [co_cur]; lia|cbn [co_cur]; lia]; destruct X as [I1 I2];
      assert ((co_cur k - 2) mod 256 <= co_cur k - 2) by (apply N.mod_le; lia);
      set (m := (co_cur k - 2) mod 256) in * end.
    brk; mon.
    + eapply good_rsp; eauto; lia.
    + eapply error_response_err; eauto. lia.
Qed.

(* ------------------------------------------------------------------ Read By Group Type *)
Lemma read_primary_service_response_inv c s b out e index is128 b' out' :
  read_primary_service_response c s b out e index is128 = Some (b', out') ->
  1 <= out -> out <= e -> out <= out' /\ out' <= e /\ nth 0 b' 0 = nth 0 b 0.
Proof.
  unfold read_primary_service_response. cbv zeta. intros H H1 H2.
  destruct (Bool.eqb is128 (is_128bit (s_uuid s)) && ((if is128 then 20 else 6) <=? e - out)) eqn:Ec.
  - apply andb_true_iff in Ec. destruct Ec as [_ Ec]. apply N.leb_le in Ec.
    destruct (mem_read (uuid_bytes (s_uuid s)) 0 (e - (out + 4))) as [rc d] eqn:Em.
    apply mem_read_len in Em. mon.
    assert (6 <= e - out) by (destruct is128; cbv iota in Ec; lia).
    repeat split; [lia|lia|].
    rewrite (put_nth_low _ _ _ _ 0%nat E0) by lia. apply (put_nth_low _ _ _ _ 0%nat E). lia.
  - mon. repeat split; lia.
Qed.

Lemma collect_primary_services_inv c ss k si eh e k' :
  collect_primary_services c ss k si eh e = Some k' ->
  2 <= pc_out k -> pc_out k <= e ->
  2 <= pc_out k' /\ pc_out k' <= e /\ nth 0 (pc_buf k') 0 = nth 0 (pc_buf k) 0.
Proof.
  revert k; induction ss as [|s t IH]; intros k H H1 H2; cbn [collect_primary_services] in H.
  - mon. repeat split; lia.
  - cbv zeta in H.
    destruct (negb (pc_stopped k) && (negb (si =? invalid_index) && (si <=? pc_index k))
              && ((pc_index k <=? eh) || (eh =? invalid_index))).
    + mon.
      match goal with X : read_primary_service_response _ _ _ _ _ _ _ = Some (_, _) |- _ =>
        apply read_primary_service_response_inv in X; [destruct X as (I1 & I2 & I3)|lia|lia] end.
      apply IH in H; cbn [pc_out pc_buf] in *; [|lia|lia].
      destruct H as (J1 & J2 & J3). repeat split; auto. rewrite J3, I3.
      destruct (pc_first k); mon; [|reflexivity].
      match goal with X : put _ 1 _ = Some _ |- _ => apply (put_nth_low _ _ _ _ 0%nat X); lia end.
    + apply IH in H; cbn [pc_out pc_buf] in *; auto.
Qed.

Lemma read_by_group_type_good c pdu b out_size r :
  23 <= out_size -> rd pdu 0 = Some 16 -> handle_read_by_group_type c pdu b out_size = Some r -> good 16 out_size r.
Proof.
  intros Ho Hop. unfold handle_read_by_group_type. rewrite Hop. intros H. mon. destruct c0 as [f|[sh eh]]; mon.
  - eapply check_range_failed; eauto. lia.
  - brk.
    + eapply error_response_err; eauto. lia.
    + mon.
      match goal with X : collect_primary_services _ _ _ _ _ _ = Some _ |- _ =>
        apply collect_primary_services_inv in X;
          [cbn [pc_out pc_buf] in X; destruct X as (I1 & I2 & I3)|cbn [pc_out]; lia|cbn [pc_out]; lia] end.
      brk.
      * eapply error_response_err; eauto. lia.
      * mon. split; [cbn [snd]; lia|]. left. split; [cbn [snd]; lia|]. cbn [fst]. rewrite I3. eapply put_zero; eauto.
Qed.

(* ------------------------------------------------------------------ Read Multiple *)
Lemma read_multiple_loop_good c st cid hs b0 b p out_size st' r :
  23 <= out_size ->
  read_multiple_loop c st cid 14 hs b0 b p out_size = Some (st', r) ->
  1 <= p -> p <= out_size -> nth 0 b 0 = 15 -> good 14 out_size r.
Proof.
  intros Ho. remember (length hs) as n eqn:Hn. revert hs Hn st b p.
  induction n as [n IH] using lt_wf_ind. intros hs Hn st b p H H1 H2 H3.
  destruct hs as [|lo [|hi t]]; cbn [read_multiple_loop] in H.
  - mon. split; [cbn [snd]; lia|]. left. split; [cbn [snd]; lia|]. exact H3.
  - mon. split; [cbn [snd]; lia|]. left. split; [cbn [snd]; lia|]. exact H3.
  - cbv zeta in H. brk.
    + mon. eapply error_response_err; eauto. lia.
    + brk.
      * mon. eapply error_response_err; eauto. lia.
      * mon. destruct a0; mon.
        -- brk; [discriminate|].
           match goal with X : (_ <? _) = false |- _ => apply N.ltb_ge in X end.
           match goal with X : put b p ?l = Some ?b1 |- _ =>
             eapply (IH (length t)); [cbn [length]; lia|reflexivity|eassumption|lia|lia|
                                      rewrite (put_nth_low _ _ _ _ 0%nat X) by lia; exact H3] end.
        -- eapply error_response_err; eauto. lia.
        -- eapply error_response_err; eauto. lia.
Qed.

Lemma read_multiple_good c st cid pdu b out_size st' r :
  23 <= out_size -> rd pdu 0 = Some 14 -> handle_read_multiple c st cid pdu b out_size = Some (st', r) -> good 14 out_size r.
Proof.
  intros Ho Hop. unfold handle_read_multiple. rewrite Hop.
  destruct ((len pdu <? 5) || (len pdu mod 2 =? 0)).
  - intros H. mon. eapply error_response_err; eauto. lia.
  - intros H. mon. eapply read_multiple_loop_good; eauto; try lia. eapply put_zero; eauto.
Qed.
