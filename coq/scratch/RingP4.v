From BT Require Import Base.ListX Ring.RingModel Ring.RingSpec.
From Coq Require Import Lia ZifyBool.
From BT Require Import scratch.RingP1 scratch.RingP2 scratch.RingP3.
Local Open Scope nat_scope.
Local Arguments Nat.ltb : simpl never.
Local Arguments Nat.leb : simpl never.
Local Arguments Nat.eqb : simpl never.
Local Arguments Nat.modulo : simpl never.
Local Arguments Nat.max : simpl never.

(* ---- the monitor as a partial run ---- *)
Fixpoint mrun (m : mon) (tr : list (op * out)) : option mon :=
  match tr with
  | [] => Some m
  | (o, r) :: t => match mstep m o r with (Ok, m') => mrun m' t | (Bad _, _) => None end
  end.

Lemma mrun_app m t1 t2 :
  mrun m (t1 ++ t2) = match mrun m t1 with Some m1 => mrun m1 t2 | None => None end.
Proof.
  revert m; induction t1 as [|[o r] t IH]; intros m; cbn; auto.
  destruct (mstep m o r) as [[|tag] m']; auto.
Qed.

Lemma monitor_from_mrun m pos tr :
  monitor_from m pos tr = None <-> exists m', mrun m tr = Some m'.
Proof.
  revert m pos; induction tr as [|[o r] t IH]; intros m pos; cbn.
  - split; eauto.
  - destruct (mstep m o r) as [[|tag] m']; auto.
    split; [discriminate|intros [? ?]; discriminate].
Qed.

(* ---- history functions at the end of a trace ---- *)
Fixpoint cur_after (cur : option N) (tr : list (op * out)) : option N :=
  match tr with
  | [] => cur
  | (OpP v, Out _ r) :: t =>
      let x := match cur with Some x => x | None => v end in
      match r with
      | RNone => cur_after (Some x) t
      | _ => cur_after None t
      end
  | _ :: t => cur_after cur t
  end.

Lemma pushed_from_app c h1 h2 :
  pushed_from c (h1 ++ h2) = pushed_from c h1 ++ pushed_from (cur_after c h1) h2.
Proof.
  revert c; induction h1 as [|[o r] t IH]; intros c; cbn; auto.
  destruct o as [v|]; auto. destruct r as [a rt| |]; auto.
  destruct rt; cbn; rewrite ?IH; auto.
Qed.

Lemma cur_after_app c h1 h2 : cur_after c (h1 ++ h2) = cur_after (cur_after c h1) h2.
Proof.
  revert c; induction h1 as [|[o r] t IH]; intros c; cbn; auto.
  destruct o as [v|]; auto. destruct r as [a rt| |]; auto.
  destruct rt; cbn; rewrite ?IH; auto.
Qed.

Lemma popped_app h1 h2 : popped (h1 ++ h2) = popped h1 ++ popped h2.
Proof.
  induction h1 as [|[o r] t IH]; cbn; auto.
  destruct o as [v|]; auto. destruct r as [a rt| |]; auto.
  destruct rt; cbn; rewrite ?IH; auto.
Qed.

(* ---- soundness of the monitor's FIFO bookkeeping on arbitrary accepted traces ---- *)
Definition pc (m : mon) : list N :=
  if pdone (mp m) then match pin (mp m) with Some v => [v] | None => [] end else [].
Definition cc (m : mon) : list N := match chead (mc m) with Some h => [h] | None => [] end.

Record G (S : nat) (h : list (op * out)) (m : mon) : Prop := mkG {
  g_S : mS m = S;
  g_cur : cur_after None h = pin (mp m);
  g_bal : pushed h ++ pc m = popped h ++ cc m ++ mq m;
  g_len : length (mq m) <= S;
  g_idle : pin (mp m) = None -> pdone (mp m) = false;
  g_cidle : cin (mc m) = false -> chead (mc m) = None }.

Lemma G_init S : G S [] (minit S).
Proof. constructor; cbn; auto; lia. Qed.

Lemma G_step S h m o r m' :
  G S h m -> mstep m o r = (Ok, m') -> G S (h ++ [(o, r)]) m'.
Proof.
  intros HG Hs.
  destruct m as [mS0 mq0 [pin0 pfull0 pdone0] [cin0 cempty0 chead0] k0].
  destruct HG as [gS gcur gbal glen gidle gcidle]. unfold pc, cc, pushed in *. cbn in *.
  destruct r as [a rt| |]; cbn in Hs; try discriminate.
  destruct o as [v|].
  - (* producer *)
    unfold p_start in Hs. cbn in Hs.
    destruct pin0 as [cur|]; [|rewrite gidle in * by auto]; cbn in Hs.
    all: destruct a; cbn in Hs;
      repeat match type of Hs with context[if ?b then _ else _] => destruct b eqn:? end;
      cbn in Hs; try discriminate;
      destruct rt; cbn in Hs;
      repeat match type of Hs with context[if ?b then _ else _] => destruct b eqn:? end;
      cbn in Hs; try discriminate;
      inversion Hs; subst; clear Hs;
      (constructor; unfold pc, cc, pushed; cbn;
       rewrite ?pushed_from_app, ?cur_after_app, ?popped_app, ?gcur; cbn;
       rewrite ?app_nil_r in *; auto; try discriminate).
    all: try (rewrite gbal, <- ?app_assoc; reflexivity).
    all: try (rewrite app_length; cbn; lia).
  - (* consumer *)
    unfold c_start in Hs. cbn in Hs.
    destruct cin0; [|rewrite gcidle in * by auto]; destruct chead0 as [hd|]; destruct mq0 as [|q0 qt]; cbn in Hs.
    all: destruct a; cbn in Hs;
      repeat match type of Hs with context[if ?b then _ else _] => destruct b eqn:? end;
      cbn in Hs; try discriminate;
      destruct rt; cbn in Hs;
      repeat match type of Hs with
             | context[if ?b then _ else _] => destruct b eqn:?
             | context[match ?b with Some _ => _ | None => _ end] => destruct b eqn:?
             end;
      cbn in Hs; try discriminate;
      inversion Hs; subst; clear Hs;
      (constructor; unfold pc, cc, pushed; cbn;
       rewrite ?pushed_from_app, ?cur_after_app, ?popped_app, ?gcur; cbn;
       rewrite ?app_nil_r in *; auto; try discriminate).
    all: try (cbn in *; lia).
    all: try (cbn in *; assumption).
    all: try match goal with H : (_ =? _)%N = true |- _ => apply N.eqb_eq in H; subst end.
    all: cbn in gbal; rewrite ?app_nil_r in gbal; rewrite gbal, <- ?app_assoc; reflexivity.
Qed.

Lemma G_run S tr m : mrun (minit S) tr = Some m -> G S tr m.
Proof.
  revert m. induction tr as [|[o r] h IH] using rev_ind; intros m H.
  - cbn in H. inversion H; subst. apply G_init.
  - rewrite mrun_app in H. destruct (mrun (minit S) h) as [m1|] eqn:E1; [|discriminate].
    cbn in H. destruct (mstep m1 o r) as [[|tag] m2] eqn:Es; [|discriminate].
    inversion H; subst. eapply G_step; eauto.
Qed.

(* every trace the monitor accepts is a trace of a FIFO of capacity S: what successful pops
   returned, plus at most one element already consumed by a pop that has not returned yet, plus
   the pending elements (at most S), is what successful pushes pushed plus at most one element
   already published by a push that has not returned yet *)
Theorem monitor_sound_fifo S tr :
  monitor S tr = None ->
  exists inflight_push inflight_pop q,
    pushed tr ++ inflight_push = popped tr ++ inflight_pop ++ q /\
    length inflight_push <= 1 /\ length inflight_pop <= 1 /\ length q <= S.
Proof.
  intros H. apply monitor_from_mrun in H. destruct H as [m H]. apply G_run in H.
  destruct H. exists (pc m), (cc m), (mq m). repeat split; auto.
  - unfold pc. destruct (pdone (mp m)); [destruct (pin (mp m))|]; cbn; lia.
  - unfold cc. destruct (chead (mc m)); cbn; lia.
Qed.

(* ---- the model ---- *)
Lemma step_inv S st m R W o :
  Inv S st m R W ->
  exists m' R' W', mstep m o (snd (step st o)) = (Ok, m') /\ Inv S (fst (step st o)) m' R' W'.
Proof.
  intros I. destruct o as [v|]; cbn [step].
  - destruct (step_p_inv S st m R W v I) as (m' & W' & ? & ?). eauto.
  - destruct (step_c_inv S st m R W I) as (m' & R' & ? & ?). eauto.
Qed.

Lemma run_inv S ops : forall st m R W,
  Inv S st m R W ->
  exists m' R' W', mrun m (run st ops) = Some m' /\ Inv S (final st ops) m' R' W'.
Proof.
  induction ops as [|o t IH]; intros st m R W I; cbn.
  - eauto.
  - destruct (step_inv S st m R W o I) as (m1 & R1 & W1 & Hs & I1).
    destruct (step st o) as [st1 r] eqn:E. cbn in *. rewrite Hs. eauto.
Qed.

Theorem monitor_accepts_model S ops : monitor S (run (init S) ops) = None.
Proof.
  apply monitor_from_mrun.
  destruct (run_inv S ops _ _ _ _ (inv_init S)) as (m & R & W & H & _). eauto.
Qed.

Lemma run_sched_is_run S vals npops sched :
  exists ops, run_sched S vals npops sched = run (init S) ops.
Proof. unfold run_sched. eauto. Qed.

Theorem monitor_accepts_schedules S vals npops sched :
  monitor S (run_sched S vals npops sched) = None.
Proof. apply monitor_accepts_model. Qed.

(* reachable states carry the invariant, together with the monitor state of the trace so far *)
Lemma reach S ops :
  exists m R W, mrun (minit S) (run (init S) ops) = Some m /\ Inv S (final (init S) ops) m R W.
Proof. apply run_inv. apply inv_init. Qed.

(* in a model run nothing is in flight between two steps as far as the FIFO content goes *)
Lemma inv_quiet S st m R W : Inv S st m R W -> pc m = [] /\ cc m = [].
Proof.
  intros I. destr_all st m. destruct I. unfold pp_inv, cp_inv, pc, cc in *. cbn in *. split.
  - destruct pp0; [subst; destruct pdone0; auto| | |]; destruct i_pp as (_ & -> & _); auto.
  - destruct cp0; [destruct i_cp as (_ & ->)| | |]; auto; destruct i_cp as (_ & -> & _); auto.
Qed.
