From BT Require Import Base.ListX Ring.RingModel Ring.RingSpec.
From Coq Require Import Lia ZifyBool.
From BT Require Import scratch.RingP1 scratch.RingP2 scratch.RingP3.
Local Open Scope nat_scope.
Local Arguments Nat.ltb : simpl never.
Local Arguments Nat.leb : simpl never.
Local Arguments Nat.eqb : simpl never.
Local Arguments Nat.modulo : simpl never.
Local Arguments Nat.max : simpl never.

(* ---- the monitor as a partial run ---- *)
Fixpoint mrun (m : mon) (tr : list (op * out)) : option mon :=
  match tr with
  | [] => Some m
  | (o, r) :: t => match mstep m o r with (Ok, m') => mrun m' t | (Bad _, _) => None end
  end.

Lemma mrun_app m t1 t2 :
  mrun m (t1 ++ t2) = match mrun m t1 with Some m1 => mrun m1 t2 | None => None end.
Proof.
  revert m; induction t1 as [|[o r] t IH]; intros m; cbn; auto.
  destruct (mstep m o r) as [[|tag] m']; auto.
Qed.

Lemma monitor_from_mrun m pos tr :
  monitor_from m pos tr = None <-> exists m', mrun m tr = Some m'.
Proof.
  revert m pos; induction tr as [|[o r] t IH]; intros m pos; cbn.
  - split; eauto.
  - destruct (mstep m o r) as [[|tag] m']; auto.
    split; [discriminate|intros [? ?]; discriminate].
Qed.

(* ---- history functions at the end of a trace ---- *)
Fixpoint cur_after (cur : option N) (tr : list (op * out)) : option N :=
  match tr with
  | [] => cur
  | (OpP v, Out _ r) :: t =>
      let x := match cur with Some x => x | None => v end in
      match r with
      | RNone => cur_after (Some x) t
      | _ => cur_after None t
      end
  | _ :: t => cur_after cur t
  end.

Lemma pushed_from_app c h1 h2 :
  pushed_from c (h1 ++ h2) = pushed_from c h1 ++ pushed_from (cur_after c h1) h2.
Proof.
  revert c; induction h1 as [|[o r] t IH]; intros c; cbn; auto.
  destruct o as [v|]; auto. destruct r as [a rt| |]; auto.
  destruct rt; cbn; rewrite ?IH; auto.
Qed.

Lemma cur_after_app c h1 h2 : cur_after c (h1 ++ h2) = cur_after (cur_after c h1) h2.
Proof.
  revert c; induction h1 as [|[o r] t IH]; intros c; cbn; auto.
  destruct o as [v|]; auto. destruct r as [a rt| |]; auto.
  destruct rt; cbn; rewrite ?IH; auto.
Qed.

Lemma popped_app h1 h2 : popped (h1 ++ h2) = popped h1 ++ popped h2.
Proof.
  induction h1 as [|[o r] t IH]; cbn; auto.
  destruct o as [v|]; auto. destruct r as [a rt| |]; auto.
  destruct rt; cbn; rewrite ?IH; auto.
Qed.

(* ---- soundness of the monitor's FIFO bookkeeping on arbitrary accepted traces ---- *)
Definition pc (m : mon) : list N :=
  if pdone (mp m) then match pin (mp m) with Some v => [v] | None => [] end else [].
Definition cc (m : mon) : list N := match chead (mc m) with Some h => [h] | None => [] end.

Record G (S : nat) (h : list (op * out)) (m : mon) : Prop := mkG {
  g_S : mS m = S;
  g_cur : cur_after None h = pin (mp m);
  g_bal : pushed h ++ pc m = popped h ++ cc m ++ mq m;
  g_len : length (mq m) <= S;
  g_idle : pin (mp m) = None -> pdone (mp m) = false;
  g_cidle : cin (mc m) = false -> chead (mc m) = None }.

Lemma G_init S : G S [] (minit S).
Proof. constructor; cbn; auto; lia. Qed.

Lemma G_step S h m o r m' :
  G S h m -> mstep m o r = (Ok, m') -> G S (h ++ [(o, r)]) m'.
Proof.
  intros HG Hs.
  destruct m as [mS0 mq0 [pin0 pfull0 pdone0] [cin0 cempty0 chead0] k0].
  destruct HG as [gS gcur gbal glen gidle gcidle]. unfold pc, cc, pushed in *. cbn in *.
  destruct r as [a rt| |]; cbn in Hs; try discriminate.
  destruct o as [v|].
  - (* producer *)
    unfold p_start in Hs. cbn in Hs.
    destruct pin0 as [cur|]; [|rewrite gidle in * by auto]; cbn in Hs.
    all: destruct a; cbn in Hs;
      repeat match type of Hs with context[if ?b then _ else _] => destruct b eqn:? end;
      cbn in Hs; try discriminate;
      destruct rt; cbn in Hs;
      repeat match type of Hs with context[if ?b then _ else _] => destruct b eqn:? end;
      cbn in Hs; try discriminate;
      inversion Hs; subst; clear Hs;
      (constructor; unfold pc, cc, pushed; cbn;
       rewrite ?pushed_from_app, ?cur_after_app, ?popped_app, ?gcur; cbn;
       rewrite ?app_nil_r in *; auto; try discriminate).
    all: try (rewrite gbal, <- ?app_assoc; reflexivity).
    all: try (rewrite app_length; cbn; lia).
  - (* consumer *)
    unfold c_start in Hs. cbn in Hs.
    destruct cin0; [|rewrite gcidle in * by auto]; destruct chead0 as [hd|]; destruct mq0 as [|q0 qt]; cbn in Hs.
    all: destruct a; cbn in Hs;
      repeat match type of Hs with context[if ?b then _ else _] => destruct b eqn:? end;
      cbn in Hs; try discriminate;
      destruct rt; cbn in Hs;
      repeat match type of Hs with
             | context[if ?b then _ else _] => destruct b eqn:?
             | context[match ?b with Some _ => _ | None => _ end] => destruct b eqn:?
             end;
      cbn in Hs; try discriminate;
      inversion Hs; subst; clear Hs;
      (constructor; unfold pc, cc, pushed; cbn;
       rewrite ?pushed_from_app, ?cur_after_app, ?popped_app, ?gcur; cbn;
       rewrite ?app_nil_r in *; auto; try discriminate).
    all: try (cbn in *; lia).
    all: try (cbn in *; assumption).
    all: try match goal with H : (_ =? _)%N = true |- _ => apply N.eqb_eq in H; subst end.
    all: cbn in gbal; rewrite ?app_nil_r in gbal; rewrite gbal, <- ?app_assoc; reflexivity.
Qed.

Lemma G_run S tr m : mrun (minit S) tr = Some m -> G S tr m.
Proof.
  revert m. induction tr as [|[o r] h IH] using rev_ind; intros m H.
  - cbn in H. inversion H; subst. apply G_init.
  - rewrite mrun_app in H. destruct (mrun (minit S) h) as [m1|] eqn:E1; [|discriminate].
    cbn in H. destruct (mstep m1 o r) as [[|tag] m2] eqn:Es; [|discriminate].
    inversion H; subst. eapply G_step; eauto.
Qed.

(* every trace the monitor accepts is a trace of a FIFO of capacity S: what successful pops
   returned, plus at most one element already consumed by a pop that has not returned yet, plus
   the pending elements (at most S), is what successful pushes pushed plus at most one element
   already published by a push that has not returned yet *)
Theorem monitor_sound_fifo S tr :
  monitor S tr = None ->
  exists inflight_push inflight_pop q,
    pushed tr ++ inflight_push = popped tr ++ inflight_pop ++ q /\
    length inflight_push <= 1 /\ length inflight_pop <= 1 /\ length q <= S.
Proof.
  intros H. apply monitor_from_mrun in H. destruct H as [m H]. apply G_run in H.
  destruct H. exists (pc m), (cc m), (mq m). repeat split; auto.
  - unfold pc. destruct (pdone (mp m)); [destruct (pin (mp m))|]; cbn; lia.
  - unfold cc. destruct (chead (mc m)); cbn; lia.
Qed.

(* ---- the model ---- *)
Lemma step_inv S st m R W o :
  Inv S st m R W ->
  exists m' R' W', mstep m o (snd (step st o)) = (Ok, m') /\ Inv S (fst (step st o)) m' R' W'.
Proof.
  intros I. destruct o as [v|]; cbn [step].
  - destruct (step_p_inv S st m R W v I) as (m' & W' & ? & ?). eauto.
  - destruct (step_c_inv S st m R W I) as (m' & R' & ? & ?). eauto.
Qed.

Lemma run_inv S ops : forall st m R W,
  Inv S st m R W ->
  exists m' R' W', mrun m (run st ops) = Some m' /\ Inv S (final st ops) m' R' W'.
Proof.
  induction ops as [|o t IH]; intros st m R W I; cbn.
  - eauto.
  - destruct (step_inv S st m R W o I) as (m1 & R1 & W1 & Hs & I1).
    destruct (step st o) as [st1 r] eqn:E. cbn in *. rewrite Hs. eauto.
Qed.

Theorem monitor_accepts_model S ops : monitor S (run (init S) ops) = None.
Proof.
  apply monitor_from_mrun.
  destruct (run_inv S ops _ _ _ _ (inv_init S)) as (m & R & W & H & _). eauto.
Qed.

Lemma run_sched_is_run S vals npops sched :
  exists ops, run_sched S vals npops sched = run (init S) ops.
Proof. unfold run_sched. eauto. Qed.

Theorem monitor_accepts_schedules S vals npops sched :
  monitor S (run_sched S vals npops sched) = None.
Proof. apply monitor_accepts_model. Qed.

(* reachable states carry the invariant, together with the monitor state of the trace so far *)
Lemma reach S ops :
  exists m R W, mrun (minit S) (run (init S) ops) = Some m /\ Inv S (final (init S) ops) m R W.
Proof. exact (run_inv S ops _ _ _ _ (inv_init S)). Qed.

(* in a model run nothing is in flight between two steps as far as the FIFO content goes *)
Lemma inv_quiet S st m R W : Inv S st m R W -> pc m = [] /\ cc m = [].
Proof.
  intros I. destr_all st m. destruct I. unfold pp_inv, cp_inv, pc, cc in *. cbn in *. split.
  - destruct pp0; [subst; destruct pdone0; auto| | |]; destruct i_pp as (_ & -> & _); auto.
  - destruct cp0; [destruct i_cp as (_ & ->)| | |]; auto; destruct i_cp as (_ & -> & _); auto.
Qed.

Lemma skipn_app_exact (A : Type) (l1 l2 : list A) : skipn (length l1) (l1 ++ l2) = l2.
Proof. induction l1; cbn; auto. Qed.

(* state of the abstract FIFO in a model run = the monitor's queue *)
Lemma model_fifo S ops m :
  mrun (minit S) (run (init S) ops) = Some m ->
  pushed (run (init S) ops) = popped (run (init S) ops) ++ mq m /\
  pending (run (init S) ops) = mq m /\ length (mq m) <= S.
Proof.
  intros Hm. destruct (reach S ops) as (m' & R & W & Hm' & I).
  rewrite Hm in Hm'. inversion Hm'; subst m'.
  destruct (inv_quiet _ _ _ _ _ I) as [Hp Hc]. destruct (G_run _ _ _ Hm) as [_ _ Hb Hl _ _].
  rewrite Hp, Hc, app_nil_r in Hb. cbn in Hb. repeat split; auto.
  unfold pending. rewrite Hb. apply skipn_app_exact.
Qed.

Theorem popped_prefix_of_pushed S ops :
  exists q, pushed (run (init S) ops) = popped (run (init S) ops) ++ q /\
            pending (run (init S) ops) = q /\ length q <= S.
Proof.
  destruct (reach S ops) as (m & R & W & Hm & I).
  exists (mq m). apply model_fifo; auto.
Qed.

(* cutting a run at a step *)
Lemma run_split : forall tr1 st ops e tr2,
  run st ops = tr1 ++ e :: tr2 ->
  exists ops1 o ops2, ops = ops1 ++ o :: ops2 /\ tr1 = run st ops1 /\
                      e = (o, snd (step (final st ops1) o)) /\
                      tr2 = run (fst (step (final st ops1) o)) ops2.
Proof.
  induction tr1 as [|x t IH]; intros st ops e tr2 H.
  - destruct ops as [|o ops2]; cbn in H; [discriminate|].
    destruct (step st o) as [s' r] eqn:E. inversion H; subst.
    exists [], o, ops2. cbn. rewrite E. auto.
  - destruct ops as [|o ops']; cbn in H; [discriminate|].
    destruct (step st o) as [s' r] eqn:E. inversion H; subst.
    destruct (IH _ _ _ _ H2) as (ops1 & o1 & ops2 & -> & -> & -> & ->).
    exists (o :: ops1), o1, ops2. cbn. rewrite E. cbn. auto.
Qed.

(* a try_pop returns false only at its load of write_ptr_, and at that moment no pushed element is
   pending *)
Theorem pop_fails_only_when_empty S ops tr1 a tr2 :
  run (init S) ops = tr1 ++ (OpC, Out a RFail) :: tr2 ->
  (exists x, a = LdW x) /\ pending tr1 = [] /\ pushed tr1 = popped tr1.
Proof.
  intros H. destruct (run_split _ _ _ _ _ H) as (ops1 & o & ops2 & _ & -> & He & _).
  inversion He as [[Ho Hr]]. subst o. clear He.
  destruct (reach S ops1) as (m & R & W & Hm & I).
  destruct (model_fifo S ops1 m Hm) as (Hb & Hp & _).
  set (st := final (init S) ops1) in *. cbn in Hr. unfold step_c in Hr.
  destruct I. unfold cp_inv in i_cp.
  destruct (cp st) as [|r|r nxt|x nxt] eqn:Ec; cbn in Hr; try discriminate.
  - destruct (Nat.eqb r (wr st)) eqn:E; cbn in Hr; [|discriminate].
    inversion Hr; subst a. split; [eauto|].
    destruct i_cp as (_ & _ & -> & _). apply Nat.eqb_eq in E. rewrite i_wr in E.
    apply mod_inj_window in E; [|lia|lia].
    assert (mq m = []) by (apply length_zero_iff_nil; lia).
    rewrite Hp, Hb, H0, app_nil_r. auto.
  - destruct (nth_error (data st) r); cbn in Hr; discriminate.
Qed.

(* monitor facts used for the failing push *)
Lemma consumer_steps_keep_mp tr : forall m m',
  consumer_only tr -> mrun m tr = Some m' -> mp m' = mp m.
Proof.
  induction tr as [|[o r] t IH]; intros m m' Hc H; cbn in H.
  - inversion H; auto.
  - inversion Hc as [|? ? Ho Ht]; subst. cbn in Ho. subst o.
    destruct (mstep m OpC r) as [[|tag] m1] eqn:Es; [|discriminate].
    rewrite (IH _ _ Ht H). clear IH H.
    destruct r as [a rt| |]; cbn in Es; try discriminate.
    unfold c_start in Es.
    destruct m as [mS0 mq0 mp0 [cin0 cempty0 chead0] k0]. cbn in Es.
    destruct cin0; destruct chead0; destruct mq0; destruct a; cbn in Es;
      repeat match type of Es with context[if ?b then _ else _] => destruct b eqn:? end;
      cbn in Es; try discriminate;
      destruct rt; cbn in Es;
      repeat match type of Es with context[if ?b then _ else _] => destruct b eqn:? end;
      cbn in Es; try discriminate; inversion Es; subst; reflexivity.
Qed.

Lemma push_fail_needs_pfull m v a m' :
  pin (mp m) <> None -> mstep m (OpP v) (Out a RFail) = (Ok, m') -> pfull (mp m) = true.
Proof.
  intros Hp Hs. destruct m as [mS0 mq0 [pin0 pfull0 pdone0] mc0 k0]. cbn in *.
  unfold p_start in Hs. cbn in Hs. destruct pin0 as [cur|]; [|congruence]. cbn in Hs.
  destruct pfull0; [reflexivity|]. exfalso.
  destruct a; cbn in Hs;
    repeat match type of Hs with context[if ?b then _ else _] => destruct b eqn:? end;
    cbn in Hs; discriminate.
Qed.

(* a try_push returns false only if the FIFO held S elements at the call's load of read_ptr_ *)
Theorem push_fails_only_when_full S ops tr1 v x mid v' a tr2 :
  run (init S) ops = tr1 ++ (OpP v, Out (LdR x) RNone) :: mid ++ (OpP v', Out a RFail) :: tr2 ->
  consumer_only mid ->
  length (pending tr1) = S /\ length (pushed tr1) = length (popped tr1) + S.
Proof.
  intros H Hmid.
  pose proof (monitor_accepts_model S ops) as Hacc. apply monitor_from_mrun in Hacc.
  destruct Hacc as [mf Hacc]. rewrite H in Hacc.
  destruct (run_split _ _ _ _ _ H) as (ops1 & o & ops2 & _ & -> & He & _).
  inversion He as [[Ho Hr]]. subst o. clear He.
  destruct (reach S ops1) as (m1 & R & W & Hm1 & I).
  destruct (model_fifo S ops1 m1 Hm1) as (Hb & Hp & _).
  set (tr1 := run (init S) ops1) in *. set (st := final (init S) ops1) in *.
  (* the producer was idle *)
  assert (Hidle : pin (mp m1) = None).
  { destruct I. unfold pp_inv in i_pp. cbn in Hr. unfold step_p in Hr.
    destruct (pp st) as [|v1 r|v1 w nxt|v1 nxt]; auto; exfalso.
    - destruct (Nat.eqb ((wr st + 1) mod len st) r); cbn in Hr; discriminate.
    - destruct (Nat.ltb w (length (data st))); cbn in Hr; discriminate.
    - cbn in Hr. discriminate. }
  rewrite mrun_app, Hm1 in Hacc. cbn [mrun] in Hacc.
  destruct (mstep m1 (OpP v) (Out (LdR x) RNone)) as [[|tag] m2] eqn:E2; [|discriminate].
  rewrite mrun_app in Hacc.
  destruct (mrun m2 mid) as [m3|] eqn:E3; [|discriminate]. cbn [mrun] in Hacc.
  destruct (mstep m3 (OpP v') (Out a RFail)) as [[|tag] m4] eqn:E4; [|discriminate].
  assert (Hmp2 : mp m2 = mkp (Some v) (Nat.eqb (length (mq m1)) (mS m1)) false).
  { destruct m1 as [mS0 mq0 [pin0 pfull0 pdone0] mc0 k0]. cbn in *. subst pin0.
    cbn in E2. inversion E2; subst. reflexivity. }
  pose proof (consumer_steps_keep_mp _ _ _ Hmid E3) as Hmp3.
  assert (Hfull : pfull (mp m3) = true).
  { eapply push_fail_needs_pfull; eauto. rewrite Hmp3, Hmp2. cbn. discriminate. }
  rewrite Hmp3, Hmp2 in Hfull. cbn in Hfull. apply Nat.eqb_eq in Hfull.
  destruct I. rewrite i_mS in Hfull.
  rewrite Hp, Hb, app_length. split; lia.
Qed.

(* ---- data race freedom, stated on reachable states: the two non-atomic accesses are never
   enabled on the same slot at the same time, and both slots are inside data_ ---- *)
Theorem data_race_free S ops v w nxt r nxt' :
  pp (final (init S) ops) = PGotW v w nxt ->
  cp (final (init S) ops) = CGotW r nxt' ->
  w <> r /\ w < S + 1 /\ r < S + 1.
Proof.
  intros Hp Hc. destruct (reach S ops) as (m & R & W & _ & I). destruct I.
  unfold pp_inv in i_pp. unfold cp_inv in i_cp. rewrite Hp in i_pp. rewrite Hc in i_cp.
  destruct i_pp as (_ & _ & -> & _ & ?). destruct i_cp as (_ & _ & -> & _ & ?).
  repeat split; try (apply Nat.mod_upper_bound; lia).
  apply not_eq_sym. apply mod_neq_window; lia.
Qed.

(* slots are always inside data_: the model never faults *)
Theorem model_never_faults S ops : Forall (fun e => snd e <> OFault) (run (init S) ops).
Proof.
  pose proof (monitor_accepts_model S ops) as H. apply monitor_from_mrun in H. destruct H as [m H].
  revert H. generalize (minit S). generalize (run (init S) ops). clear.
  induction l as [|[o r] t IH]; intros m0 H; constructor.
  - cbn. intros ->. cbn in H. discriminate.
  - cbn in H. destruct (mstep m0 o r) as [[|tag] m1]; [eauto|discriminate].
Qed.

(* the representation invariant of DESIGN.md 12.3 in terms of the observable trace: ghost counters
   R <= W <= R + S, the pointers are the counters modulo S + 1, and the pending elements are
   data_[ R .. W ) (indices modulo S + 1) *)
Theorem ring_represents_fifo S ops :
  let st := final (init S) ops in
  let q := pending (run (init S) ops) in
  exists R W, R <= W <= R + S /\ rd st = R mod (S + 1) /\ wr st = W mod (S + 1) /\
              length q = W - R /\
              forall k, k < W - R -> nth k q 0%N = nth ((R + k) mod (S + 1)) (data st) 0%N.
Proof.
  cbn zeta. destruct (reach S ops) as (m & R & W & Hm & I).
  destruct (model_fifo S ops m Hm) as (_ & -> & _). destruct I.
  exists R, W. repeat split; auto; lia.
Qed.
